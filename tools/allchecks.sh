#!/bin/bash
# runs every claimed quick check; prints one line per property with violations
cd /verif
ids=$(python3 -c "import json;print(' '.join(c['property_id'] for c in json.load(open('MANIFEST.json'))['checks']))")
for p in $ids; do
  out=$(./check.sh $p ${1:-quick} 2>&1); rc=$?
  n=$(echo "$out" | grep -c "^VIOLATION")
  if [ $rc -ne 0 ] || [ $n -ne 0 ]; then echo "$p rc=$rc violations=$n"; echo "$out" | grep "^VIOLATION" | cut -c1-330 | head -4; fi
done

#!/bin/bash
# runs every stored seed against the check of its property (development aid)
cd /verif
for d in seeded/*/; do
  s=$(basename $d); p=${s%%-*}
  [ -f $d/patch.diff ] || continue
  grep -q superseded $d/meta.json && { echo "$s superseded"; continue; }
  out=$(tools/seedrun.sh /verif/$d $p 2>&1)
  n=$(echo "$out" | grep -o "violations: [0-9]*" | cut -d' ' -f2)
  rule=$(echo "$out" | grep -o "rule=[^ ]*" | sort -u | tr '\n' ' ')
  echo "$s violations=${n:-?} $rule"
done

#!/bin/bash
# usage: parjob.sh <dir-with-patch.diff> <prop|all>   (development aid)
# Applies the patch in a scratch worktree of /repo HEAD, runs the check(s) there with a scratch output directory,
# prints one summary line, removes the worktree. Never touches /repo's working tree or /verif/evidence.
D=$1; P=$2
export GOFLAGS=-mod=mod GOPROXY=off GOSUMDB=off GOTOOLCHAIN=local CGO_ENABLED=0; unset GOWORK
name=$(basename $D)
WT=/tmp/par/$name.wt; OUT=/tmp/par/$name.out
rm -rf $WT $OUT; mkdir -p /tmp/par $OUT
git -C /repo worktree add -q -f --detach $WT HEAD 2>/dev/null || { echo "$name WORKTREE_FAILED"; exit 0; }
( cd $WT && (git apply $D/patch.diff 2>/dev/null || git apply -3 $D/patch.diff 2>/dev/null || patch -p1 -s < $D/patch.diff >/dev/null 2>&1) ) || { echo "$name PATCH_FAILS"; git -C /repo worktree remove --force $WT; exit 0; }
cp /verif/known-findings.json $OUT/; ln -sfn /verif/checker $OUT/checker
if [ "$P" = all ]; then props=$(python3 -c "import json;print(' '.join(c['property_id'] for c in json.load(open('/verif/MANIFEST.json'))['checks']))"); else props=$P; fi
tot=0; rules=""
o=$(${VERIFCHK:-/verif/checker/bin/verifchk} -props "$(echo $props | tr ' ' ',')" -tier quick -verif $OUT -repo $WT 2>&1)
for p in $props; do
  n=$(echo "$o" | grep "^VIOLATION property=$p " | wc -l)
  if [ $n -gt 0 ]; then tot=$((tot+n)); rules="$rules $p:$(echo "$o" | grep "^VIOLATION property=$p " | grep -o "rule=[^ ]*" | sort -u | tr '\n' ',')"; echo "$o" | grep "^VIOLATION property=$p " | cut -c1-300 > $OUT/$p.viol; fi
done
if echo "$o" | grep -q "^INFRA\|analyser panic"; then rules="$rules INFRA"; tot=$((tot+1)); fi
echo "$name violations=$tot$rules"
git -C /repo worktree remove --force $WT

#!/bin/bash
# usage: seedrun.sh <seeddir> <prop> [tier]  — applies a seeded change to /repo, runs the check, reverts.
# (development aid; never leaves /repo modified)
D=$1; P=$2; T=${3:-quick}
cd /repo && git diff --quiet HEAD || { echo "/repo not clean"; exit 9; }
git -C /repo apply $D/patch.diff 2>/dev/null || git -C /repo apply -3 $D/patch.diff 2>/dev/null || (cd /repo && patch -p1 -s < $D/patch.diff) || { echo "patch failed"; git -C /repo reset -q --hard HEAD; exit 9; }
cd /verif && ./check.sh $P $T > /tmp/seedrun.out 2>&1; rc=$?
git -C /repo reset -q --hard HEAD; git -C /repo clean -fdq
grep -c "^VIOLATION" /tmp/seedrun.out | sed "s/^/violations: /"
grep "^VIOLATION" /tmp/seedrun.out | cut -c1-420 | head -5
echo "exit=$rc"

#!/bin/bash
# usage: refrun.sh <dir with patch.diff>: applies a (behaviour-preserving) patch to /repo, runs all checks, hard-resets /repo
D=$1
cd /repo && git diff --quiet HEAD || { echo "/repo not clean"; exit 9; }
git -C /repo apply $D/patch.diff 2>/dev/null || git -C /repo apply -3 $D/patch.diff 2>/dev/null || { echo "patch failed"; git -C /repo reset -q --hard HEAD; exit 9; }
/verif/tools/allchecks.sh
git -C /repo reset -q --hard HEAD; git -C /repo clean -fdq

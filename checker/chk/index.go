package chk

// E3/G3, G4 — index safety on slices whose length is decided in the same function (G3) or by the decoder of the
// structure (G4).

import (
	"fmt"
	"go/ast"
	"go/constant"
	"go/token"
	"go/types"
	"os"
	"sort"
	"strings"

	"golang.org/x/tools/go/ssa"
)

// constSet resolves v to a finite set of integer constants through phis and conversions.
func constSet(v ssa.Value, depth int) ([]int64, bool) {
	if depth > 6 {
		return nil, false
	}
	switch x := v.(type) {
	case *ssa.Const:
		if x.Value == nil || x.Value.Kind() != constant.Int {
			return nil, false
		}
		n, ok := constant.Int64Val(x.Value)
		return []int64{n}, ok
	case *ssa.Convert:
		return constSet(x.X, depth+1)
	case *ssa.ChangeType:
		return constSet(x.X, depth+1)
	case *ssa.Call:
		g := x.Call.StaticCallee()
		if g == nil || len(g.Blocks) == 0 || g.Signature.Results().Len() != 1 {
			return nil, false
		}
		var out []int64
		for _, b := range g.Blocks {
			for _, ins := range b.Instrs {
				if ret, ok := ins.(*ssa.Return); ok {
					s, ok := constSet(ret.Results[0], depth+1)
					if !ok {
						return nil, false
					}
					out = append(out, s...)
				}
			}
		}
		return out, len(out) > 0
	case *ssa.Phi:
		var out []int64
		for _, e := range x.Edges {
			s, ok := constSet(e, depth+1)
			if !ok {
				return nil, false
			}
			out = append(out, s...)
		}
		return out, true
	case *ssa.BinOp:
		a, ok1 := constSet(x.X, depth+1)
		b, ok2 := constSet(x.Y, depth+1)
		if !ok1 || !ok2 || len(a)*len(b) > 64 {
			return nil, false
		}
		var out []int64
		for _, p := range a {
			for _, q := range b {
				switch x.Op {
				case token.ADD:
					out = append(out, p+q)
				case token.SUB:
					out = append(out, p-q)
				case token.MUL:
					out = append(out, p*q)
				default:
					return nil, false
				}
			}
		}
		return out, true
	}
	return nil, false
}

func minMax(s []int64) (int64, int64) {
	lo, hi := s[0], s[0]
	for _, x := range s {
		if x < lo {
			lo = x
		}
		if x > hi {
			hi = x
		}
	}
	return lo, hi
}

// sliceOrigin follows v back through loads of locals/fields stored once in the function to a MakeSlice.
func sliceOrigin(f *ssa.Function, v ssa.Value, depth int) *ssa.MakeSlice {
	if depth > 5 {
		return nil
	}
	switch x := v.(type) {
	case *ssa.MakeSlice:
		return x
	case *ssa.UnOp:
		if x.Op != token.MUL {
			return nil
		}
		// load of an address: find the unique store to the same address expression in f
		var found *ssa.MakeSlice
		n := 0
		for _, b := range f.Blocks {
			for _, ins := range b.Instrs {
				st, ok := ins.(*ssa.Store)
				if !ok || !sameAddr(st.Addr, x.X) {
					continue
				}
				n++
				found = sliceOrigin(f, st.Val, depth+1)
			}
		}
		if n == 1 {
			return found
		}
	}
	return nil
}

// activeSubst: while the comparison inside a predicate helper is looked at in place of the helper call
// (hasDominatingTest), the helper's parameters stand for the call's arguments.
var activeSubst map[ssa.Value]ssa.Value

func substituted(v ssa.Value) ssa.Value {
	if activeSubst != nil {
		if s, ok := activeSubst[v]; ok {
			return s
		}
	}
	return v
}

func sameAddr(a, b ssa.Value) bool {
	a, b = substituted(a), substituted(b)
	if a == b {
		return true
	}
	fa, ok1 := a.(*ssa.FieldAddr)
	fb, ok2 := b.(*ssa.FieldAddr)
	if ok1 && ok2 && fa.Field == fb.Field {
		return sameAddr(fa.X, fb.X) || sameValue(fa.X, fb.X)
	}
	ia, ok3 := a.(*ssa.IndexAddr)
	ib, ok4 := b.(*ssa.IndexAddr)
	if ok3 && ok4 && (ia.Index == ib.Index || sameValue(ia.Index, ib.Index)) {
		return sameAddr(ia.X, ib.X) || sameValue(ia.X, ib.X)
	}
	return false
}

func sameValue(a, b ssa.Value) bool {
	a, b = substituted(a), substituted(b)
	if a == b {
		return true
	}
	ua, ok1 := a.(*ssa.UnOp)
	ub, ok2 := b.(*ssa.UnOp)
	if ok1 && ok2 && ua.Op == token.MUL && ub.Op == token.MUL {
		return sameAddr(ua.X, ub.X)
	}
	return false
}

// inductionBound: for an index value that is a loop phi (init, init+step) guarded at the loop header by
// `i < N` (or `i <= N`), returns N and whether the bound is inclusive.
func inductionBound(idx ssa.Value) (bound ssa.Value, inclusive bool, ok bool) {
	if cv, isC := idx.(*ssa.Convert); isC {
		idx = cv.X
	}
	phi, isPhi := idx.(*ssa.Phi)
	if !isPhi {
		return nil, false, false
	}
	for _, ref := range *phi.Referrers() {
		bo, isBo := ref.(*ssa.BinOp)
		if !isBo || bo.X != phi {
			continue
		}
		if bo.Op != token.LSS && bo.Op != token.LEQ {
			continue
		}
		// must be the header's branch and the body on the true edge
		blk := bo.Block()
		if blk != phi.Block() || len(blk.Instrs) == 0 {
			continue
		}
		if ifi, isIf := blk.Instrs[len(blk.Instrs)-1].(*ssa.If); isIf && ifi.Cond == bo {
			return bo.Y, bo.Op == token.LEQ, true
		}
	}
	return nil, false, false
}

// ruleG3 — an element s[i] of a slice made in the same function with length L, indexed by a counter bounded by
// i < N, needs N <= L: decided when N and L are the same value or both resolve to constants.
func ruleG3(c *Ctx, r *Report, scope map[*ssa.Function]bool, floor int) {
	var fns []*ssa.Function
	for f := range scope {
		fns = append(fns, f)
	}
	sort.Slice(fns, func(i, j int) bool { return fns[i].String() < fns[j].String() })
	n := 0
	seen := map[string]int{}
	for _, f := range fns {
		for _, b := range f.Blocks {
			for _, ins := range b.Instrs {
				ia, ok := ins.(*ssa.IndexAddr)
				if !ok {
					continue
				}
				if _, isSl := ia.X.Type().Underlying().(*types.Slice); !isSl {
					continue
				}
				mk := sliceOrigin(f, ia.X, 0)
				if mk == nil {
					continue
				}
				bound, incl, ok := inductionBound(ia.Index)
				if !ok {
					// `for i := range s { … s[i] … }`: the index is bounded by the length of the very slice it indexes
					if rb, isRange := rangeIndexBound(ia.Index); isRange {
						if call, isCall := stripConv(rb).(*ssa.Call); isCall {
							if bi, isB := call.Call.Value.(*ssa.Builtin); isB && bi.Name() == "len" && sameSSA(call.Call.Args[0], ia.X) {
								base := fmt.Sprintf("%s:%s indexed by its own range index", SSAFuncName(f), srcOf(f, mk.Pos(), "make", exprText(c, mk)))
								seen[base]++
								if seen[base] == 1 {
									n++
									r.OK("G3", base, c.Pos(ia.Pos()), "the index ranges over the slice it is used on")
								}
							}
						}
					}
					continue
				}
				base := fmt.Sprintf("%s:%s indexed in %s", SSAFuncName(f), srcOf(f, mk.Pos(), "make", exprText(c, mk)), srcOf(f, ia.Pos(), "loop", "for i < "+valText(c, bound)))
				seen[base]++
				key := base
				if seen[base] > 1 {
					continue // same make and bound: one obligation
				}
				n++
				L := mk.Len
				if sameSSA(L, bound) && !incl {
					r.OK("G3", key, c.Pos(ia.Pos()), "the loop bound is the length the slice was made with")
					continue
				}
				ls, ok1 := constSet(L, 0)
				ns, ok2 := constSet(bound, 0)
				if ok1 && ok2 {
					lmin, _ := minMax(ls)
					_, nmax := minMax(ns)
					if incl {
						nmax++
					}
					if nmax <= lmin {
						r.OK("G3", key, c.Pos(ia.Pos()), fmt.Sprintf("loop bound at most %d, slice length at least %d", nmax, lmin))
					} else {
						r.Bad("G3", key, c.Pos(ia.Pos()), fmt.Sprintf("the counter runs to %d but the slice may have been made with length %d: index out of range", nmax, lmin))
					}
					continue
				}
				// the same quantity up to a constant: make(T, x+1) indexed in `for i <= x`
				{
					var reps []ssa.Value
					canon := func(v ssa.Value) ssa.Value {
						for _, q := range reps {
							if sameSSA(q, v) {
								return q
							}
						}
						reps = append(reps, v)
						return v
					}
					lf, hf := linOf(L, canon, 0), linOf(bound, canon, 0)
					if incl {
						hf.k++
					}
					d := hf.add(lf, -1)
					free := false
					for _, co := range d.cs {
						if co != 0 {
							free = true
						}
					}
					if !free && len(lf.cs) > 0 {
						switch {
						case d.k > 0:
							r.Bad("G3", key, c.Pos(ia.Pos()), fmt.Sprintf("the counter runs %d past the length the slice was made with: index out of range", d.k))
						case narrowWrap(c, L) != nil:
							r.Bad("G3", key, c.Pos(ia.Pos()), fmt.Sprintf("the length is a sum computed in %d bits from a count that can be all ones (ReadExpGolomb narrowed, a full-width field): it wraps to 0 while the loop still runs, and the first index is out of range", typeBits(narrowWrap(c, L).Type())))
						default:
							r.OK("G3", key, c.Pos(ia.Pos()), "the loop bound and the length are the same quantity up to a constant, and the length cannot wrap")
						}
						continue
					}
				}
				// otherwise undetermined: not an obligation of this rule (lengths related through data)
				if os.Getenv("VERIF_G3_SURVEY") != "" {
					fmt.Println("G3-UNDETERMINED", base, c.Pos(ia.Pos()))
				}
				n--
				seen[base] = 0
			}
		}
	}
	r.Floor("G3", floor)
}

func sameSSA(a, b ssa.Value) bool {
	strip := func(v ssa.Value) ssa.Value {
		for {
			switch x := v.(type) {
			case *ssa.Convert:
				v = x.X
			case *ssa.ChangeType:
				v = x.X
			default:
				return v
			}
		}
	}
	a, b = strip(a), strip(b)
	return a == b || sameValue(a, b)
}

func exprText(c *Ctx, v ssa.Value) string {
	if mk, ok := v.(*ssa.MakeSlice); ok {
		return "make(" + types.TypeString(mk.Type(), func(p *types.Package) string { return "" }) + ")"
	}
	return v.Name()
}

func valText(c *Ctx, v ssa.Value) string {
	switch x := v.(type) {
	case *ssa.Const:
		return x.Value.String()
	case *ssa.Convert:
		return valText(c, x.X)
	case *ssa.Phi:
		if x.Comment != "" {
			return x.Comment
		}
	case *ssa.UnOp:
		if fa, ok := x.X.(*ssa.FieldAddr); ok {
			if fv := fieldVar(fa.X.Type(), fa.Field); fv != nil {
				return fv.Name()
			}
		}
	case *ssa.Parameter:
		return x.Name()
	}
	return "expr"
}

// ruleG5 — integer division and remainder by a value that is not a non-zero constant needs a dominating test of
// the divisor against zero (or a `> k`, `>= k` with k >= 0/1 test), in the function or — for divisors that are
// parameters — is reported against the function so that the callers' tests are visible in the table.
func ruleG5(c *Ctx, r *Report, scope map[*ssa.Function]bool, invariants map[string]func(*Ctx, *Report, string) bool) int {
	var fns []*ssa.Function
	for f := range scope {
		fns = append(fns, f)
	}
	sort.Slice(fns, func(i, j int) bool { return fns[i].String() < fns[j].String() })
	n := 0
	seen := map[string]bool{}
	for _, f := range fns {
		for _, b := range f.Blocks {
			for _, ins := range b.Instrs {
				bo, ok := ins.(*ssa.BinOp)
				if !ok || (bo.Op != token.QUO && bo.Op != token.REM) {
					continue
				}
				bt, isB := bo.Type().Underlying().(*types.Basic)
				if !isB || bt.Info()&types.IsInteger == 0 {
					continue
				}
				if cs, ok := constSet(bo.Y, 0); ok {
					nz := true
					for _, x := range cs {
						if x == 0 {
							nz = false
						}
					}
					if nz {
						continue
					}
				}
				key := SSAFuncName(f) + ":" + divText(c, f, bo)
				if seen[key] {
					continue
				}
				seen[key] = true
				n++
				if why := nonZeroAt(bo.Y, bo.Block(), 0); why != "" {
					r.OK("G5", key, c.Pos(bo.Pos()), why)
					continue
				}
				if par, ok := stripConv(bo.Y).(*ssa.Parameter); ok {
					if why, bad := paramNonZero(c, f, par); bad == "" && why != "" {
						r.OK("G5", key, c.Pos(bo.Pos()), why)
						continue
					} else if bad != "" {
						r.Bad("G5", key, c.Pos(bo.Pos()), "division by parameter "+par.Name()+"; "+bad)
						continue
					}
				}
				if inv, ok := invariants[key]; ok {
					if inv(c, r, key) {
						continue
					}
				}
				r.Bad("G5", key, c.Pos(bo.Pos()), "division by a value that no dominating test shows to be non-zero: integer divide by zero panic")
			}
		}
	}
	r.Floor("G5", 1)
	return n
}

func divText(c *Ctx, f *ssa.Function, bo *ssa.BinOp) string {
	var root ast.Node
	top := f
	for q := f; q != nil && root == nil; q = q.Parent() {
		root = q.Syntax()
	}
	for top.Parent() != nil {
		top = top.Parent()
	}
	var info *types.Info
	if obj, ok := top.Object().(*types.Func); ok {
		if _, pk := c.Decl(obj); pk != nil {
			info = pk.TypesInfo
		}
	}
	best := ""
	if root != nil && bo.Pos().IsValid() {
		ast.Inspect(root, func(n ast.Node) bool {
			if n == nil {
				return false
			}
			if be, ok := n.(*ast.BinaryExpr); ok && be.OpPos == bo.Pos() {
				best = canonExpr(info, be.Y)
			}
			if as, ok := n.(*ast.AssignStmt); ok && as.TokPos == bo.Pos() && len(as.Rhs) == 1 {
				best = canonExpr(info, as.Rhs[0])
			}
			return true
		})
	}
	if best == "" {
		best = "expr"
	}
	return bo.Op.String() + " " + best
}

// nonZeroAt: is v shown to be non-zero at block b? Returns the reason or "".
func nonZeroAt(v ssa.Value, b *ssa.BasicBlock, depth int) string {
	if depth > 4 {
		return ""
	}
	switch x := v.(type) {
	case *ssa.Convert:
		// widening or same-width conversions keep non-zero; narrowing does not
		if typeBits(x.Type()) >= typeBits(x.X.Type()) {
			return nonZeroAt(x.X, b, depth+1)
		}
		return ""
	case *ssa.BinOp:
		switch x.Op {
		case token.ADD:
			// a + const>0 with unsigned/len operands
			if cs, ok := constSet(x.Y, 0); ok {
				lo, _ := minMax(cs)
				if lo > 0 && nonNegative(x.X) {
					// … unless the value can fill its type: then the sum wraps to 0 (ReadExpGolomb returns an all-ones
					// uint for 64 leading zero bits)
					if cx := ctxOfValue(x); cx == nil || maxBits(cx, x.X, 0, map[ssa.Value]bool{}) < typeBits(x.Type()) {
						return "non-negative value plus a positive constant that cannot wrap"
					}
				}
			}
		case token.SHL:
			// c << s is non-zero when c > 0 and s is bounded so that no set bit is shifted out
			if cs, ok := constSet(x.X, 0); ok {
				lo, hi := minMax(cs)
				if ub, ok := upperBoundAt(x.Y, b); ok && lo > 0 {
					bl := int64(0)
					for t := hi; t > 0; t >>= 1 {
						bl++
					}
					if bl+ub <= int64(typeBits(x.Type())) && typeBits(x.Type()) > 0 {
						return fmt.Sprintf("positive constant shifted by at most %d", ub)
					}
				}
			}
		case token.MUL:
			if nonZeroAt(x.X, b, depth+1) != "" && nonZeroAt(x.Y, b, depth+1) != "" {
				return "" // product may still wrap: not accepted
			}
		}
	case *ssa.Phi:
		all := true
		for i, e := range x.Edges {
			if cs, ok := constSet(e, 0); ok {
				for _, k := range cs {
					if k == 0 {
						all = false
					}
				}
				continue
			}
			if nonZeroAt(e, x.Block().Preds[i], depth+1) == "" {
				all = false
			}
		}
		if all {
			return "every incoming value is non-zero"
		}
	}
	if hasDominatingTest(v, b, func(cond ssa.Value, truth bool) bool { return condImpliesNonZero(cond, v, truth, 0) }) {
		return "a dominating test excludes zero"
	}
	return ""
}

// upperBoundAt: largest value v can have at block b according to dominating tests against constants.
func upperBoundAt(v ssa.Value, b *ssa.BasicBlock) (int64, bool) {
	best := int64(-1)
	hasDominatingTest(v, b, func(cond ssa.Value, truth bool) bool {
		bo, ok := cond.(*ssa.BinOp)
		if !ok {
			return false
		}
		l, rr, op := bo.X, bo.Y, bo.Op
		if !truth {
			op = map[token.Token]token.Token{token.EQL: token.NEQ, token.NEQ: token.EQL, token.LSS: token.GEQ, token.GEQ: token.LSS, token.GTR: token.LEQ, token.LEQ: token.GTR}[op]
		}
		if sameSSA(rr, v) && !sameSSA(l, v) {
			l, rr = rr, l
			op = map[token.Token]token.Token{token.EQL: token.EQL, token.NEQ: token.NEQ, token.LSS: token.GTR, token.GTR: token.LSS, token.LEQ: token.GEQ, token.GEQ: token.LEQ}[op]
		}
		if !sameSSA(l, v) {
			return false
		}
		cs, ok := constSet(rr, 0)
		if !ok {
			return false
		}
		_, hi := minMax(cs)
		switch op {
		case token.LEQ, token.EQL:
			if best < 0 || hi < best {
				best = hi
			}
		case token.LSS:
			if best < 0 || hi-1 < best {
				best = hi - 1
			}
		}
		return false
	})
	return best, best >= 0
}

// hasDominatingTest walks the dominator chain of b; for each conditional branch one arm of which leads (only)
// to b's chain, or whose other arm rejects, it calls pred(cond, truth).
func hasDominatingTest(v ssa.Value, b *ssa.BasicBlock, pred func(cond ssa.Value, truth bool) bool) bool {
	for d := b; d != nil; d = d.Idom() {
		id := d.Idom()
		if id == nil || len(id.Instrs) == 0 {
			continue
		}
		ifi, ok := id.Instrs[len(id.Instrs)-1].(*ssa.If)
		if !ok {
			continue
		}
		// d must be reached from exactly one arm
		arm := -1
		if id.Succs[0] == d && len(d.Preds) == 1 {
			arm = 0
		} else if id.Succs[1] == d && len(d.Preds) == 1 {
			arm = 1
		} else if blockLeaves(id.Succs[0]) {
			arm = 1
		} else if blockLeaves(id.Succs[1]) {
			arm = 0
		}
		if arm < 0 {
			continue
		}
		if pred(ifi.Cond, arm == 0) {
			return true
		}
		// the test may be the call of a small predicate helper (`if s.lacksBytes(n)`): look at the comparison it
		// returns, with its parameters standing for the arguments
		cond, truth := ifi.Cond, arm == 0
		for {
			u, ok := cond.(*ssa.UnOp)
			if !ok || u.Op != token.NOT {
				break
			}
			cond, truth = u.X, !truth
		}
		if call, ok := cond.(*ssa.Call); ok {
			if cmp, neg, subst := predicateComparison(call); cmp != nil {
				if neg {
					truth = !truth
				}
				activeSubst = subst
				hit := pred(cmp, truth)
				activeSubst = nil
				if hit {
					return true
				}
			}
		}
		// the test may be on the error of a checking helper (`if err := t.checkX(); err != nil { return err }`): on the
		// arm where the error is nil every test of the helper that leads to a definite error had the other outcome
		if bo, ok := cond.(*ssa.BinOp); ok && (bo.Op == token.NEQ || bo.Op == token.EQL) && bo.X.Type().String() == "error" {
			if k, isC := bo.Y.(*ssa.Const); isC && k.Value == nil && (bo.Op == token.EQL) == truth {
				if call, ok := bo.X.(*ssa.Call); ok {
					for _, fact := range errorHelperFacts(call) {
						activeSubst = fact.subst
						hit := pred(fact.cond, fact.truth)
						activeSubst = nil
						if hit {
							return true
						}
					}
				}
			}
		}
	}
	return false
}

type helperFact struct {
	cond  ssa.Value
	truth bool
	subst map[ssa.Value]ssa.Value
}

// errorHelperFacts: call is a static call of a repository function with the single result error. For every branch of
// the helper one arm of which always returns a definitely non-nil error (fmt.Errorf, errors.New, a made interface)
// and whose block dominates every `return nil` of the helper: on return with a nil error the condition had the
// outcome of the other arm. Parameters stand for the call's arguments.
func errorHelperFacts(call *ssa.Call) []helperFact {
	h := call.Call.StaticCallee()
	if h == nil || len(h.Blocks) == 0 || h.Signature.Results().Len() != 1 || len(call.Call.Args) != len(h.Params) {
		return nil
	}
	if h.Signature.Results().At(0).Type().String() != "error" {
		return nil
	}
	var nilRets []*ssa.BasicBlock
	for _, b := range h.Blocks {
		if ret, ok := b.Instrs[len(b.Instrs)-1].(*ssa.Return); ok && len(ret.Results) == 1 {
			if k, isC := ret.Results[0].(*ssa.Const); isC && k.Value == nil {
				nilRets = append(nilRets, b)
			} else if !definiteError(ret.Results[0]) {
				return nil // an error of unknown nil-ness is returned: no facts
			}
		}
	}
	if len(nilRets) == 0 {
		return nil
	}
	var rejects func(b *ssa.BasicBlock, d int) bool
	rejects = func(b *ssa.BasicBlock, d int) bool {
		if d > 6 || len(b.Instrs) == 0 {
			return false
		}
		switch x := b.Instrs[len(b.Instrs)-1].(type) {
		case *ssa.Return:
			return len(x.Results) == 1 && definiteError(x.Results[0])
		case *ssa.Jump:
			return rejects(b.Succs[0], d+1)
		}
		return false
	}
	subst := map[ssa.Value]ssa.Value{}
	for i, p := range h.Params {
		subst[p] = call.Call.Args[i]
	}
	var out []helperFact
	for _, b := range h.Blocks {
		ifi, ok := b.Instrs[len(b.Instrs)-1].(*ssa.If)
		if !ok {
			continue
		}
		dom := true
		for _, nr := range nilRets {
			if !b.Dominates(nr) {
				dom = false
			}
		}
		if !dom {
			continue
		}
		r0, r1 := rejects(b.Succs[0], 0), rejects(b.Succs[1], 0)
		if r0 == r1 {
			continue
		}
		out = append(out, helperFact{ifi.Cond, r1, subst})
	}
	return out
}

// definiteError: a value of type error that is certainly not nil.
func definiteError(v ssa.Value) bool {
	switch x := v.(type) {
	case *ssa.MakeInterface:
		return true
	case *ssa.Call:
		if sc := x.Call.StaticCallee(); sc != nil && sc.Pkg != nil {
			p := sc.Pkg.Pkg.Path()
			return p == "fmt" && sc.Name() == "Errorf" || p == "errors" && sc.Name() == "New"
		}
	}
	return false
}

// predicateComparison: call is a static call of a repository function with a single bool result whose body is one
// block returning a comparison (possibly negated); returns that comparison and the parameter substitution.
func predicateComparison(call *ssa.Call) (*ssa.BinOp, bool, map[ssa.Value]ssa.Value) {
	h := call.Call.StaticCallee()
	if h == nil || len(h.Blocks) != 1 || h.Signature.Results().Len() != 1 || len(call.Call.Args) != len(h.Params) {
		return nil, false, nil
	}
	if bt, ok := h.Signature.Results().At(0).Type().Underlying().(*types.Basic); !ok || bt.Kind() != types.Bool {
		return nil, false, nil
	}
	blk := h.Blocks[0]
	ret, ok := blk.Instrs[len(blk.Instrs)-1].(*ssa.Return)
	if !ok || len(ret.Results) != 1 {
		return nil, false, nil
	}
	v := ret.Results[0]
	neg := false
	for {
		u, ok := v.(*ssa.UnOp)
		if !ok || u.Op != token.NOT {
			break
		}
		v, neg = u.X, !neg
	}
	cmp, ok := v.(*ssa.BinOp)
	if !ok {
		return nil, false, nil
	}
	switch cmp.Op {
	case token.LSS, token.LEQ, token.GTR, token.GEQ, token.EQL, token.NEQ:
	default:
		return nil, false, nil
	}
	subst := map[ssa.Value]ssa.Value{}
	for i, p := range h.Params {
		subst[p] = call.Call.Args[i]
	}
	return cmp, neg, subst
}

func nonNegative(v ssa.Value) bool {
	if bt, ok := v.Type().Underlying().(*types.Basic); ok && bt.Info()&types.IsUnsigned != 0 {
		return true
	}
	switch x := v.(type) {
	case *ssa.Call:
		if bi, ok := x.Call.Value.(*ssa.Builtin); ok && (bi.Name() == "len" || bi.Name() == "cap") {
			return true
		}
	case *ssa.Convert:
		if bt, ok := x.X.Type().Underlying().(*types.Basic); ok && bt.Info()&types.IsUnsigned != 0 && typeBits(x.Type()) > typeBits(x.X.Type()) {
			return true
		}
	}
	return false
}

// condImpliesNonZero: when cond has the given truth value, v != 0.
func condImpliesNonZero(cond ssa.Value, v ssa.Value, truth bool, depth int) bool {
	if depth > 4 {
		return false
	}
	switch x := cond.(type) {
	case *ssa.UnOp:
		if x.Op == token.NOT {
			return condImpliesNonZero(x.X, v, !truth, depth+1)
		}
	case *ssa.Phi:
		// short-circuit a||b / a&&b: value is a constant on some edges, a comparison on others
		// truth==false of (a || b) implies both false; truth==true of (a && b) implies both true
		isOr, isAnd := true, true
		var parts []ssa.Value
		for _, e := range x.Edges {
			if k, ok := e.(*ssa.Const); ok && k.Value != nil && k.Value.Kind() == constant.Bool {
				if constant.BoolVal(k.Value) {
					isAnd = false
				} else {
					isOr = false
				}
				continue
			}
			parts = append(parts, e)
		}
		// the conditions that lead to the constant edges
		for i, e := range x.Edges {
			if _, ok := e.(*ssa.Const); ok {
				p := x.Block().Preds[i]
				if len(p.Instrs) > 0 {
					if ifi, ok := p.Instrs[len(p.Instrs)-1].(*ssa.If); ok {
						parts = append(parts, ifi.Cond)
					}
				}
			}
		}
		if (isOr && !truth) || (isAnd && truth) {
			for _, p := range parts {
				if condImpliesNonZero(p, v, truth, depth+1) {
					return true
				}
			}
		}
		return false
	case *ssa.BinOp:
		l, rr := x.X, x.Y
		op := x.Op
		if !truth {
			op = map[token.Token]token.Token{token.EQL: token.NEQ, token.NEQ: token.EQL, token.LSS: token.GEQ, token.GEQ: token.LSS, token.GTR: token.LEQ, token.LEQ: token.GTR}[op]
		}
		if sameSSA(rr, v) && !sameSSA(l, v) {
			l, rr = rr, l
			op = map[token.Token]token.Token{token.EQL: token.EQL, token.NEQ: token.NEQ, token.LSS: token.GTR, token.GTR: token.LSS, token.LEQ: token.GEQ, token.GEQ: token.LEQ}[op]
		}
		if !sameSSA(l, v) {
			return false
		}
		cs, ok := constSet(rr, 0)
		if !ok {
			// v > w with w non-negative
			if op == token.GTR && nonNegative(rr) {
				return true
			}
			return false
		}
		lo, hi := minMax(cs)
		switch op {
		case token.NEQ:
			return lo == 0 && hi == 0
		case token.GTR:
			return lo >= 0
		case token.GEQ:
			return lo >= 1
		case token.EQL:
			return lo > 0 || hi < 0
		case token.LSS:
			return hi <= 0 && !nonNegative(v) == false && false
		}
	}
	return false
}

func stripConv(v ssa.Value) ssa.Value {
	for {
		cv, ok := v.(*ssa.Convert)
		if !ok || typeBits(cv.Type()) < typeBits(cv.X.Type()) {
			return v
		}
		v = cv.X
	}
}

// paramNonZero: every call site of f in the repo passes a value shown to be non-zero for par.
func paramNonZero(c *Ctx, f *ssa.Function, par *ssa.Parameter) (why, bad string) {
	idx := -1
	for i, p := range f.Params {
		if p == par {
			idx = i
		}
	}
	node := c.CallGraph().Nodes[f]
	if idx < 0 || node == nil || len(node.In) == 0 {
		return "", ""
	}
	if f.Object() != nil && f.Object().Exported() {
		return "", "" // callable from outside with any value
	}
	n := 0
	for _, e := range node.In {
		if e.Site == nil {
			return "", ""
		}
		args := e.Site.Common().Args
		if e.Site.Common().IsInvoke() || idx >= len(args) {
			return "", ""
		}
		if nonZeroAt(args[idx], e.Site.Block(), 0) == "" {
			return "", "the call in " + SSAFuncName(e.Caller.Func) + " passes a value that no dominating test shows to be non-zero"
		}
		n++
	}
	return fmt.Sprintf("unexported function; all %d call sites pass a value shown to be non-zero", n), ""
}

// invSencSampleCount — SencBox.ParseReadBox divides by SampleCount; it runs only while readButNotParsed is set.
// Invariant: every function that creates a SencBox with readButNotParsed set clears the flag under a test
// that includes SampleCount == 0, and ParseReadBox returns early when the flag is clear.
func invSencSampleCount(c *Ctx, r *Report, key string) bool {
	p := c.Pkg("mp4")
	if p == nil {
		return false
	}
	ok := true
	creators := 0
	detail := ""
	for _, f := range c.RepoFuncs(IsLib) {
		if f.Pkg == nil || f.Pkg.Pkg != p.Types || strings.HasSuffix(c.Fset.Position(f.Pos()).Filename, "_test.go") {
			continue
		}
		sets := false
		var clears []*ssa.Store
		for _, st := range storesTo(f, "SencBox.readButNotParsed") {
			if k, isC := st.Val.(*ssa.Const); isC && k.Value != nil && constant.BoolVal(k.Value) {
				sets = true
			} else if isC {
				clears = append(clears, st)
			} else {
				sets = true
			}
		}
		if !sets {
			continue
		}
		creators++
		good := false
		for _, st := range clears {
			for _, cond := range controlCondsDeep(st.Block()) {
				sl := backSlice(c, cond, 0)
				if sliceHas(sl, "field", "SencBox.SampleCount") {
					good = true
				}
			}
		}
		if !good {
			ok = false
			detail += SSAFuncName(f) + " leaves readButNotParsed set without testing SampleCount against 0; "
		}
	}
	// ParseReadBox starts with the flag test
	if f := c.ssaFunc(r, "G5", "mp4", "SencBox.ParseReadBox"); f != nil {
		entryOK := false
		if len(f.Blocks) > 0 && len(f.Blocks[0].Instrs) > 0 {
			if ifi, isIf := f.Blocks[0].Instrs[len(f.Blocks[0].Instrs)-1].(*ssa.If); isIf {
				if sliceHas(backSlice(c, ifi.Cond, 0), "field", "SencBox.readButNotParsed") && (blockRejects(f.Blocks[0].Succs[0]) || blockRejects(f.Blocks[0].Succs[1])) {
					entryOK = true
				}
			}
		}
		if !entryOK {
			ok = false
			detail += "ParseReadBox does not return early when the box is already parsed; "
		}
	}
	if creators == 0 {
		ok = false
		detail += "no function sets readButNotParsed; "
	}
	if ok {
		r.OK("G5", key, "", fmt.Sprintf("invariant: the %d functions that leave a senc box unparsed clear the flag when SampleCount is 0, and ParseReadBox returns early when the flag is clear", creators))
	} else {
		r.Bad("G5", key, "", "division by SampleCount: "+detail)
	}
	return true
}

// ruleG4 — s[k] with a constant k on a slice needs a dominating test that len(s) > k, or a slice whose length
// is at least k+1 by construction (make/literal/slicing with constant bounds).
func ruleG4(c *Ctx, r *Report, scope map[*ssa.Function]bool, invariants map[string]func(*Ctx, *Report, string) bool) int {
	var fns []*ssa.Function
	for f := range scope {
		fns = append(fns, f)
	}
	sort.Slice(fns, func(i, j int) bool { return fns[i].String() < fns[j].String() })
	n := 0
	seen := map[string]bool{}
	for _, f := range fns {
		if f.Synthetic != "" {
			continue
		}
		for _, b := range f.Blocks {
			for _, ins := range b.Instrs {
				var X ssa.Value
				var need int64
				var key string
				switch ia := ins.(type) {
				case *ssa.IndexAddr:
					if _, isSl := ia.X.Type().Underlying().(*types.Slice); !isSl {
						continue
					}
					cs, ok := constSet(ia.Index, 0)
					if !ok {
						continue
					}
					_, k := minMax(cs)
					X, need = ia.X, k+1
					key = fmt.Sprintf("%s:%s[%d]", SSAFuncName(f), sliceText(c, f, ia.Pos()), k)
				case *ssa.Slice:
					if _, isSl := ia.X.Type().Underlying().(*types.Slice); !isSl {
						continue
					}
					k := int64(-1)
					txt := ""
					if ia.Low != nil {
						if cs, ok := constSet(ia.Low, 0); ok {
							_, k = minMax(cs)
							txt = fmt.Sprintf("%d:", k)
						}
					}
					if ia.High != nil {
						if cs, ok := constSet(ia.High, 0); ok {
							_, h := minMax(cs)
							if h > k {
								k = h
							}
							if txt == "" {
								txt = ":"
							}
							txt += fmt.Sprintf("%d", h)
						}
					}
					if k <= 0 {
						continue
					}
					// x[a:b] is limited by cap, not len; a test of len is what the code writes and len <= cap
					X, need = ia.X, k
					key = fmt.Sprintf("%s:%s[%s]", SSAFuncName(f), sliceText(c, f, ia.Pos()), txt)
				default:
					continue
				}
				ia := ins
				k := need - 1
				if seen[key] {
					// another site with the same text: only worth a separate obligation when it fails
					if lenAtLeast(f, X, need, b, 0) != "" || literalRows(f, ins, need) != "" {
						continue
					}
					if _, ok := invariants[key]; ok {
						continue
					}
					key += "#again"
				}
				seen[key] = true
				n++
				if why := lenAtLeast(f, X, need, b, 0); why != "" {
					r.OK("G4", key, c.Pos(ia.Pos()), why)
					continue
				}
				if why := literalRows(f, ins, need); why != "" {
					r.OK("G4", key, c.Pos(ia.Pos()), why)
					continue
				}
				if inv, ok := invariants[key]; ok && inv(c, r, key) {
					continue
				}
				r.Bad("G4", key, c.Pos(ia.Pos()), fmt.Sprintf("index or slice bound %d is used with no dominating test that the slice has at least %d elements: index out of range panic", k, need))
			}
		}
	}
	r.Floor("G4", 25)
	return n
}

func sliceText(c *Ctx, f *ssa.Function, pos token.Pos) string {
	var root ast.Node
	top := f
	for q := f; q != nil && root == nil; q = q.Parent() {
		root = q.Syntax()
		top = q
	}
	for top.Parent() != nil {
		top = top.Parent()
	}
	var info *types.Info
	if obj, ok := top.Object().(*types.Func); ok {
		if _, pk := c.Decl(obj); pk != nil {
			info = pk.TypesInfo
		}
	}
	var best ast.Expr
	if root != nil && pos.IsValid() {
		ast.Inspect(root, func(n ast.Node) bool {
			if ie, ok := n.(*ast.IndexExpr); ok && ie.Lbrack == pos {
				best = ie.X
			}
			if se, ok := n.(*ast.SliceExpr); ok && se.Lbrack == pos {
				best = se.X
			}
			return true
		})
	}
	if best == nil {
		return "expr"
	}
	return canonExpr(info, best)
}

// canonExpr renders an expression with its root identifier replaced by its type, so that renaming a receiver,
// parameter or local does not change the text: s.Clocks -> (PicTimingAvcSEI).Clocks, bType -> ([]byte).
func canonExpr(info *types.Info, e ast.Expr) string {
	switch x := e.(type) {
	case *ast.Ident:
		if info != nil {
			if obj, ok := info.Uses[x].(*types.Var); ok && !obj.IsField() && obj.Parent() != nil && obj.Parent() != obj.Pkg().Scope() {
				t := obj.Type()
				if p, ok := t.(*types.Pointer); ok {
					t = p.Elem()
				}
				return "(" + types.TypeString(t, func(*types.Package) string { return "" }) + ")"
			}
		}
		return x.Name
	case *ast.SelectorExpr:
		return canonExpr(info, x.X) + "." + x.Sel.Name
	case *ast.IndexExpr:
		return canonExpr(info, x.X) + "[" + types.ExprString(x.Index) + "]"
	case *ast.ParenExpr:
		return canonExpr(info, x.X)
	case *ast.StarExpr:
		return canonExpr(info, x.X)
	case *ast.CallExpr:
		if id, ok := x.Fun.(*ast.Ident); ok && (id.Name == "len" || id.Name == "cap") && len(x.Args) == 1 {
			return id.Name + "(" + canonExpr(info, x.Args[0]) + ")"
		}
	}
	return types.ExprString(e)
}

// lenAtLeast: len(v) >= n at block b.
func lenAtLeast(f *ssa.Function, v ssa.Value, n int64, b *ssa.BasicBlock, depth int) string {
	if depth > 4 {
		return ""
	}
	switch x := v.(type) {
	case *ssa.MakeSlice:
		if cs, ok := constSet(x.Len, 0); ok {
			if lo, _ := minMax(cs); lo >= n {
				return "made with a constant length"
			}
		}
	case *ssa.Slice:
		// x[lo:hi] with constants: the slicing itself panics unless the result has hi-lo elements
		if x.High != nil {
			lo := int64(0)
			okLo := true
			if x.Low != nil {
				if cs, ok := constSet(x.Low, 0); ok {
					_, lo = minMax(cs)
				} else {
					okLo = false
				}
			}
			if cs, ok := constSet(x.High, 0); ok && okLo {
				if hi, _ := minMax(cs); hi-lo >= n {
					return "slice expression with constant bounds"
				}
			}
			// x[a:a+k]
			if bo, ok := x.High.(*ssa.BinOp); ok && bo.Op == token.ADD && x.Low != nil && sameSSA(bo.X, x.Low) {
				if cs, ok := constSet(bo.Y, 0); ok {
					if k, _ := minMax(cs); k >= n {
						return "slice expression of constant width"
					}
				}
			}
		}
		// array-backed full slice
		if pt, ok := x.X.Type().Underlying().(*types.Pointer); ok && x.High == nil && x.Low == nil {
			if at, ok := pt.Elem().Underlying().(*types.Array); ok && at.Len() >= n {
				return "slice of an array"
			}
		}
	case *ssa.Call:
		// results of repo/bits readers with a constant count: ReadBytes(k) returns k bytes or sets the error... not assumed
	case *ssa.Phi:
		all := true
		for i, e := range x.Edges {
			if lenAtLeast(f, e, n, x.Block().Preds[i], depth+1) == "" {
				all = false
			}
		}
		if all && len(x.Edges) > 0 {
			return "every incoming slice is long enough"
		}
	}
	if mk := sliceOrigin(f, v, 0); mk != nil && mk != v {
		if lo, ok := lowerBoundAt(mk.Len, mk.Block(), 0); ok && lo >= n {
			return fmt.Sprintf("made in this function with a length of at least %d", lo)
		}
	}
	switch x := v.(type) {
	case *ssa.MakeSlice:
		if lb, ok := lowerBoundAt(x.Len, b, 0); ok && lb >= n {
			return fmt.Sprintf("made with a length of at least %d", lb)
		}
	case *ssa.Call:
		if bi, ok := x.Call.Value.(*ssa.Builtin); ok && bi.Name() == "append" && len(x.Call.Args) > 0 {
			if why := lenAtLeast(f, x.Call.Args[0], n, b, depth+1); why != "" {
				return "append to a slice that is long enough"
			}
		}
		// the bits readers' ReadBytes(k) returns k bytes (or sets the sticky error and returns zeroed bytes of length k? no: nil)
	}
	// dominating test on len(v): single test, then combination of != tests
	ok := hasDominatingTest(v, b, func(cond ssa.Value, truth bool) bool { return condImpliesLen(cond, v, n, truth, 0) })
	if ok {
		return fmt.Sprintf("a dominating test shows len >= %d", n)
	}
	excluded := map[int64]bool{}
	lb := int64(0)
	hasDominatingTest(v, b, func(cond ssa.Value, truth bool) bool {
		for k := int64(0); k < n; k++ {
			if condExcludesLen(cond, v, k, truth) {
				excluded[k] = true
			}
		}
		return false
	})
	for excluded[lb] {
		lb++
	}
	if lb >= n {
		return fmt.Sprintf("dominating tests exclude every length below %d", n)
	}
	return ""
}

// condExcludesLen: cond having the given truth value implies len(v) != k.
func condExcludesLen(cond ssa.Value, v ssa.Value, k int64, truth bool) bool {
	bo, ok := cond.(*ssa.BinOp)
	if !ok {
		return false
	}
	l, rr, op := bo.X, bo.Y, bo.Op
	if !truth {
		op = map[token.Token]token.Token{token.EQL: token.NEQ, token.NEQ: token.EQL, token.LSS: token.GEQ, token.GEQ: token.LSS, token.GTR: token.LEQ, token.LEQ: token.GTR}[op]
	}
	if isLenOf(rr, v) && !isLenOf(l, v) {
		l, rr = rr, l
		op = map[token.Token]token.Token{token.EQL: token.EQL, token.NEQ: token.NEQ, token.LSS: token.GTR, token.GTR: token.LSS, token.LEQ: token.GEQ, token.GEQ: token.LEQ}[op]
	}
	if !isLenOf(l, v) {
		return false
	}
	cs, ok := constSet(rr, 0)
	if !ok || len(cs) != 1 {
		return false
	}
	c := cs[0]
	switch op {
	case token.NEQ:
		return c == k
	case token.EQL:
		return c != k
	case token.GTR:
		return k <= c
	case token.GEQ:
		return k < c
	case token.LSS:
		return k >= c
	case token.LEQ:
		return k > c
	}
	return false
}

// lowerBoundAt: a lower bound of the integer v at block b.
func lowerBoundAt(v ssa.Value, b *ssa.BasicBlock, depth int) (int64, bool) {
	if depth > 4 {
		return 0, false
	}
	if cs, ok := constSet(v, 0); ok {
		lo, _ := minMax(cs)
		return lo, true
	}
	best := int64(0)
	have := false
	if nonNegative(v) {
		have = true
	}
	switch x := v.(type) {
	case *ssa.Extract:
		// n, err := helper(…): on the way where err was tested nil, n is one of the values the helper returns
		// together with a nil error
		if call, ok := x.Tuple.(*ssa.Call); ok && x.Index == 0 {
			if lo, ok := okResultLowerBound(call, b); ok {
				best, have = lo, true
			}
		}
	case *ssa.Convert:
		if typeBits(x.Type()) >= typeBits(x.X.Type()) || nonNegative(x) {
			if lb, ok := lowerBoundAt(x.X, b, depth+1); ok && typeBits(x.Type()) >= typeBits(x.X.Type()) {
				best, have = lb, true
			}
		}
	case *ssa.BinOp:
		if x.Op == token.ADD || x.Op == token.MUL {
			l1, ok1 := lowerBoundAt(x.X, b, depth+1)
			l2, ok2 := lowerBoundAt(x.Y, b, depth+1)
			if ok1 && ok2 && l1 >= 0 && l2 >= 0 {
				// wrap-around is not considered (needs a count near the type's maximum)
				if x.Op == token.ADD {
					best, have = l1+l2, true
				} else {
					best, have = l1*l2, true
				}
			}
		}
	}
	hasDominatingTest(v, b, func(cond ssa.Value, truth bool) bool {
		bo, ok := cond.(*ssa.BinOp)
		if !ok {
			return false
		}
		l, rr, op := bo.X, bo.Y, bo.Op
		if !truth {
			op = map[token.Token]token.Token{token.EQL: token.NEQ, token.NEQ: token.EQL, token.LSS: token.GEQ, token.GEQ: token.LSS, token.GTR: token.LEQ, token.LEQ: token.GTR}[op]
		}
		if sameSSA(rr, v) && !sameSSA(l, v) {
			l, rr = rr, l
			op = map[token.Token]token.Token{token.EQL: token.EQL, token.NEQ: token.NEQ, token.LSS: token.GTR, token.GTR: token.LSS, token.LEQ: token.GEQ, token.GEQ: token.LEQ}[op]
		}
		if !sameSSA(l, v) {
			return false
		}
		cs, ok := constSet(rr, 0)
		if !ok {
			return false
		}
		lo, _ := minMax(cs)
		switch op {
		case token.GEQ, token.EQL:
			if !have || lo > best {
				best, have = lo, true
			}
		case token.GTR:
			if !have || lo+1 > best {
				best, have = lo+1, true
			}
		}
		return false
	})
	return best, have
}

func isLenOf(x ssa.Value, v ssa.Value) bool {
	x = stripConv(x)
	call, ok := x.(*ssa.Call)
	if !ok {
		return false
	}
	bi, ok := call.Call.Value.(*ssa.Builtin)
	if !ok || bi.Name() != "len" || len(call.Call.Args) != 1 {
		return false
	}
	return sameSSA(call.Call.Args[0], v)
}

// condImpliesLen: cond having the given truth value implies len(v) >= n.
func condImpliesLen(cond ssa.Value, v ssa.Value, n int64, truth bool, depth int) bool {
	if depth > 4 {
		return false
	}
	switch x := cond.(type) {
	case *ssa.UnOp:
		if x.Op == token.NOT {
			return condImpliesLen(x.X, v, n, !truth, depth+1)
		}
	case *ssa.Phi:
		isOr, isAnd := true, true
		var parts []ssa.Value
		for i, e := range x.Edges {
			if k, ok := e.(*ssa.Const); ok && k.Value != nil && k.Value.Kind() == constant.Bool {
				if constant.BoolVal(k.Value) {
					isAnd = false
				} else {
					isOr = false
				}
				p := x.Block().Preds[i]
				if len(p.Instrs) > 0 {
					if ifi, ok := p.Instrs[len(p.Instrs)-1].(*ssa.If); ok {
						parts = append(parts, ifi.Cond)
					}
				}
				continue
			}
			parts = append(parts, e)
		}
		if (isOr && !truth) || (isAnd && truth) {
			for _, p := range parts {
				if condImpliesLen(p, v, n, truth, depth+1) {
					return true
				}
			}
		}
		return false
	case *ssa.BinOp:
		l, rr, op := x.X, x.Y, x.Op
		if !truth {
			op = map[token.Token]token.Token{token.EQL: token.NEQ, token.NEQ: token.EQL, token.LSS: token.GEQ, token.GEQ: token.LSS, token.GTR: token.LEQ, token.LEQ: token.GTR}[op]
		}
		if isLenOf(rr, v) && !isLenOf(l, v) {
			l, rr = rr, l
			op = map[token.Token]token.Token{token.EQL: token.EQL, token.NEQ: token.NEQ, token.LSS: token.GTR, token.GTR: token.LSS, token.LEQ: token.GEQ, token.GEQ: token.LEQ}[op]
		}
		if !isLenOf(l, v) {
			return false
		}
		cs, ok := constSet(rr, 0)
		if !ok {
			return false
		}
		lo, _ := minMax(cs)
		switch op {
		case token.GTR:
			return lo+1 >= n
		case token.GEQ, token.EQL:
			return lo >= n
		case token.NEQ:
			return n <= 1 && lo == 0
		}
	}
	return false
}

// literalRows: t[i][k] where t is a local defined once by a composite literal all of whose rows are literals
// with at least n elements.
func literalRows(f *ssa.Function, ins ssa.Instruction, n int64) string {
	var root ast.Node
	for q := f; q != nil && root == nil; q = q.Parent() {
		root = q.Syntax()
	}
	if root == nil {
		return ""
	}
	var target *ast.IndexExpr
	ast.Inspect(root, func(nd ast.Node) bool {
		if ie, ok := nd.(*ast.IndexExpr); ok && ie.Lbrack == ins.Pos() {
			target = ie
		}
		return true
	})
	if target == nil {
		return ""
	}
	inner, ok := target.X.(*ast.IndexExpr)
	if !ok {
		return ""
	}
	id, ok := inner.X.(*ast.Ident)
	if !ok || id.Obj == nil {
		return ""
	}
	// all assignments to the identifier in the function
	var lits []*ast.CompositeLit
	other := false
	ast.Inspect(root, func(nd ast.Node) bool {
		as, ok := nd.(*ast.AssignStmt)
		if !ok {
			return true
		}
		for i, l := range as.Lhs {
			li, ok := l.(*ast.Ident)
			if !ok || li.Obj != id.Obj {
				continue
			}
			if i < len(as.Rhs) && len(as.Lhs) == len(as.Rhs) {
				if cl, ok := as.Rhs[i].(*ast.CompositeLit); ok {
					lits = append(lits, cl)
					continue
				}
			}
			other = true
		}
		return true
	})
	if other || len(lits) != 1 {
		return ""
	}
	for _, e := range lits[0].Elts {
		row, ok := e.(*ast.CompositeLit)
		if !ok || int64(len(row.Elts)) < n {
			return ""
		}
		for _, x := range row.Elts {
			if _, kv := x.(*ast.KeyValueExpr); kv {
				return ""
			}
		}
	}
	return fmt.Sprintf("every row of the literal table has at least %d elements", n)
}

// invAppendedAtLeastOnce — T.F[0] in a method of T: every function of the package that builds a T from input
// appends to F in a loop whose constant trip count is at least 1 on every path, and never truncates F.
func invAppendedAtLeastOnce(pkg, typ, field string, need int64) func(*Ctx, *Report, string) bool {
	return func(c *Ctx, r *Report, key string) bool {
		p := c.Pkg(pkg)
		if p == nil {
			return false
		}
		builders := 0
		bad := ""
		for _, f := range c.RepoFuncs(IsLib) {
			if f.Pkg == nil || f.Pkg.Pkg != p.Types || strings.HasSuffix(c.Fset.Position(f.Pos()).Filename, "_test.go") {
				continue
			}
			sts := storesTo(f, typ+"."+field)
			if len(sts) == 0 {
				continue
			}
			builders++
			// lower bound on number of appends: loops `for i < N` with the append store inside, N constant set
			lb := int64(0)
			for _, st := range sts {
				call, ok := st.Val.(*ssa.Call)
				if !ok {
					continue
				}
				bi, ok := call.Call.Value.(*ssa.Builtin)
				if !ok || bi.Name() != "append" {
					continue
				}
				for _, l := range naturalLoops(f) {
					if !l.blocks[st.Block()] {
						continue
					}
					// the loop's header test
					hdr := l.header
					if len(hdr.Instrs) == 0 {
						continue
					}
					ifi, ok := hdr.Instrs[len(hdr.Instrs)-1].(*ssa.If)
					if !ok {
						continue
					}
					bo, ok := ifi.Cond.(*ssa.BinOp)
					if !ok || bo.Op != token.LSS {
						continue
					}
					phi, ok := bo.X.(*ssa.Phi)
					if !ok || phi.Block() != hdr {
						continue
					}
					start, ok1 := constSet(phi.Edges[0], 0)
					lo, ok2 := lowerBoundAt(bo.Y, hdr, 0)
					if !ok1 || !ok2 || len(start) != 1 || start[0] != 0 {
						continue
					}
					// no exit from the loop body other than through the header, and the store dominates the back edge
					exits := false
					for blk := range l.blocks {
						if blk == hdr {
							continue
						}
						for _, s := range blk.Succs {
							if !l.blocks[s] && !blockRejects(s) {
								exits = true
							}
						}
					}
					if exits {
						continue
					}
					if lo > lb {
						lb = lo
					}
				}
			}
			if lb < need {
				bad += fmt.Sprintf("%s appends to %s.%s at least %d times (need %d); ", SSAFuncName(f), typ, field, lb, need)
			}
		}
		if builders == 0 {
			bad += "no function of the package fills " + typ + "." + field + "; "
		}
		if bad == "" {
			r.OK("G4", key, "", fmt.Sprintf("invariant: the %d function(s) of package %s that fill %s.%s append at least %d element(s) on every path", builders, pkg, typ, field, need))
		} else {
			r.Bad("G4", key, "", "unguarded index relies on the decoder filling the slice: "+bad)
		}
		return true
	}
}

// invCallersCheckLen — T.F[n:] in a method of T: T is only built by constructor ctor (repo-wide), and every repo
// call of ctor is dominated by a test that len(arg.field) >= n.
func invCallersCheckLen(pkg, ctor, typ, argField string, need int64) func(*Ctx, *Report, string) bool {
	return func(c *Ctx, r *Report, key string) bool {
		f := c.ssaFunc(r, "G4", pkg, ctor)
		if f == nil {
			return true
		}
		// composite literals of typ outside ctor
		bad := ""
		for _, g := range c.RepoFuncs(nil) {
			if strings.HasSuffix(c.Fset.Position(g.Pos()).Filename, "_test.go") || g == f {
				continue
			}
			for _, b := range g.Blocks {
				for _, ins := range b.Instrs {
					if al, ok := ins.(*ssa.Alloc); ok {
						if pt, ok := al.Type().(*types.Pointer); ok && typeName(pt.Elem()) == typ && g.Pkg != nil && g.Pkg.Pkg.Name() == pkg {
							bad += SSAFuncName(g) + " builds a " + typ + " without the constructor; "
						}
					}
				}
			}
		}
		node := c.CallGraph().Nodes[f]
		n := 0
		if node != nil {
			for _, e := range node.In {
				if e.Site == nil || strings.HasSuffix(c.Fset.Position(e.Site.Pos()).Filename, "_test.go") {
					continue
				}
				n++
				caller := e.Caller.Func
				arg := e.Site.Common().Args[0]
				ok := false
				for _, b := range caller.Blocks {
					for _, ins := range b.Instrs {
						ld, isLd := ins.(*ssa.UnOp)
						if !isLd || ld.Op != token.MUL {
							continue
						}
						fa, isFa := ld.X.(*ssa.FieldAddr)
						if !isFa || !sameSSA(fa.X, arg) {
							continue
						}
						if fv := fieldVar(fa.X.Type(), fa.Field); fv == nil || fv.Name() != argField {
							continue
						}
						if hasDominatingTest(ld, e.Site.Block(), func(cond ssa.Value, truth bool) bool { return condImpliesLen(cond, ld, need, truth, 0) }) {
							ok = true
						}
					}
				}
				if !ok {
					bad += "the call in " + SSAFuncName(caller) + " is not preceded by a test that len(" + argField + ") >= " + fmt.Sprint(need) + "; "
				}
			}
		}
		if n == 0 {
			bad += "constructor has no caller; "
		}
		if bad == "" {
			r.OK("G4", key, "", fmt.Sprintf("invariant: %s is built only by %s.%s, and its %d repo call(s) follow a test that len(%s) >= %d", typ, pkg, ctor, n, argField, need))
		} else {
			r.Bad("G4", key, "", "unguarded slice bound relies on the decoder: "+bad)
		}
		return true
	}
}

// invFieldLenAtLeast — T.F[:n] in a method of T: every store to T.F in the repo (outside tests) stores a slice
// shown to have at least n elements: a make of at least n, ReadBytes(k) / readBoxBody result under a test of
// k or of its length, or an append to the field itself.
func invFieldLenAtLeast(typ, field string, need int64) func(*Ctx, *Report, string) bool {
	return func(c *Ctx, r *Report, key string) bool {
		bad := ""
		n := 0
		for _, f := range c.RepoFuncs(nil) {
			if strings.HasSuffix(c.Fset.Position(f.Pos()).Filename, "_test.go") {
				continue
			}
			for _, st := range storesTo(f, typ+"."+field) {
				n++
				if why := storedLenAtLeast(f, st.Val, typ, field, need, st.Block(), 0); why == "" {
					bad += fmt.Sprintf("%s stores a slice into %s.%s that is not shown to have %d elements; ", SSAFuncName(f), typ, field, need)
				}
			}
		}
		if n == 0 {
			bad += "no store to " + typ + "." + field + " found; "
		}
		if bad == "" {
			r.OK("G4", key, "", fmt.Sprintf("invariant: all %d stores to %s.%s store at least %d elements", n, typ, field, need))
		} else {
			r.Bad("G4", key, "", "unguarded slice bound relies on an invariant of the field that does not hold: "+bad)
		}
		return true
	}
}

func storedLenAtLeast(f *ssa.Function, v ssa.Value, typ, field string, need int64, b *ssa.BasicBlock, depth int) string {
	if depth > 4 {
		return ""
	}
	if why := lenAtLeast(f, v, need, b, 0); why != "" {
		return why
	}
	switch x := v.(type) {
	case *ssa.UnOp:
		// load of the same field (induction) or of a local stored once
		if isDirectFieldLoad(x, typ+"."+field) {
			return "the field itself"
		}
		if al, ok := x.X.(*ssa.Alloc); ok {
			var vals []*ssa.Store
			for _, ref := range *al.Referrers() {
				if st, ok := ref.(*ssa.Store); ok && st.Addr == al {
					vals = append(vals, st)
				}
			}
			if len(vals) == 1 {
				return storedLenAtLeast(f, vals[0].Val, typ, field, need, b, depth+1)
			}
		}
	case *ssa.Call:
		if bi, ok := x.Call.Value.(*ssa.Builtin); ok && bi.Name() == "append" {
			return storedLenAtLeast(f, x.Call.Args[0], typ, field, need, b, depth+1)
		}
		// ReadBytes(k) of the slice readers: returns exactly k bytes, or sets the sticky error; the box is returned
		// together with AccError, so a box that exists has k bytes. k >= need by a dominating test.
		name := calleeName(x.Common())
		if strings.HasSuffix(name, ".ReadBytes") {
			args := x.Call.Args
			if lb, ok := lowerBoundAt(args[len(args)-1], b, 0); ok && lb >= need {
				return "ReadBytes of a count tested to be large enough"
			}
			// the count is a call (hdr.payloadLen()) tested against a constant: compare by callee and receiver
			if lbCallTested(args[len(args)-1], b, need) {
				return "ReadBytes of a count tested to be large enough"
			}
		}
	case *ssa.Extract:
		// data, err := readBoxBody(...) followed by a test of len(data)
		return ""
	}
	return ""
}

// lbCallTested: v is a call g(recv) and a dominating test compares another call of g on the same receiver
// with a constant that gives a lower bound >= need.
func lbCallTested(v ssa.Value, b *ssa.BasicBlock, need int64) bool {
	want := exprKey(v, nil, 0)
	if want == "" || strings.Contains(want, "?") {
		return false
	}
	same := func(o ssa.Value) bool { return exprKey(o, nil, 0) == want }
	found := false
	for d := b; d != nil; d = d.Idom() {
		id := d.Idom()
		if id == nil || len(id.Instrs) == 0 {
			continue
		}
		ifi, ok := id.Instrs[len(id.Instrs)-1].(*ssa.If)
		if !ok {
			continue
		}
		bo, ok := ifi.Cond.(*ssa.BinOp)
		if !ok || !same(bo.X) {
			continue
		}
		cs, ok := constSet(bo.Y, 0)
		if !ok {
			continue
		}
		lo, _ := minMax(cs)
		// `g() < c` on the rejecting arm
		if bo.Op == token.LSS && blockLeaves(id.Succs[0]) && lo >= need {
			found = true
		}
		if bo.Op == token.GEQ && blockLeaves(id.Succs[1]) && lo >= need {
			found = true
		}
	}
	return found
}

// invSameLength — T.F2[k] guarded by a test of len(T.F1): the two slices have the same length because every
// function that stores to one stores to the other in the same basic block and in the same way.
func invSameLength(typ, f1, f2 string, need int64) func(*Ctx, *Report, string) bool {
	return func(c *Ctx, r *Report, key string) bool {
		bad := ""
		n := 0
		kind := func(st *ssa.Store) string {
			switch x := st.Val.(type) {
			case *ssa.Call:
				if bi, ok := x.Call.Value.(*ssa.Builtin); ok && bi.Name() == "append" {
					return "append"
				}
			case *ssa.MakeSlice:
				return "make"
			case *ssa.Const:
				return "nil"
			}
			return "other"
		}
		for _, f := range c.RepoFuncs(nil) {
			if strings.HasSuffix(c.Fset.Position(f.Pos()).Filename, "_test.go") {
				continue
			}
			a := storesTo(f, typ+"."+f1)
			b := storesTo(f, typ+"."+f2)
			if len(a) == 0 && len(b) == 0 {
				continue
			}
			n++
			if len(a) != len(b) {
				bad += SSAFuncName(f) + " updates " + f1 + " and " + f2 + " a different number of times; "
				continue
			}
			for i := range a {
				if a[i].Block() != b[i].Block() || kind(a[i]) != kind(b[i]) || kind(a[i]) == "other" {
					bad += SSAFuncName(f) + " updates " + f1 + " and " + f2 + " differently; "
				}
			}
		}
		// the use site: a dominating test of len(T.F1) >= need
		var site *ssa.Function
		parts := strings.SplitN(key, ":", 2)
		for _, f := range c.RepoFuncs(nil) {
			if SSAFuncName(f) == parts[0] {
				site = f
			}
		}
		guarded := false
		if site != nil {
			for _, b := range site.Blocks {
				for _, ins := range b.Instrs {
					ia, ok := ins.(*ssa.IndexAddr)
					if !ok || !isDirectFieldLoad(ia.X, typ+"."+f2) {
						continue
					}
					base := ia.X.(*ssa.UnOp).X.(*ssa.FieldAddr).X
					for _, b2 := range site.Blocks {
						for _, ins2 := range b2.Instrs {
							ld, ok := ins2.(*ssa.UnOp)
							if ok && isDirectFieldLoad(ld, typ+"."+f1) && sameSSA(ld.X.(*ssa.FieldAddr).X, base) {
								if lenAtLeast(site, ld, need, b, 0) != "" {
									guarded = true
								}
							}
						}
					}
				}
			}
		}
		if !guarded {
			bad += "no dominating test of len(" + f1 + "); "
		}
		if n == 0 {
			bad += "no function fills the slices; "
		}
		if bad == "" {
			r.OK("G4", key, "", fmt.Sprintf("invariant: %s.%s and %s.%s are filled together (%d functions), and len(%s) is tested", typ, f1, typ, f2, n, f1))
		} else {
			r.Bad("G4", key, "", "unguarded index relies on two slices having the same length: "+bad)
		}
		return true
	}
}

// invTypeNonEmpty — []byte(boxType)[0] in the info dumper: boxType is Box.Type(); every Type() method of package
// mp4 returns a non-empty constant, or a name field / TagType of the box.
func invTypeNonEmpty(c *Ctx, r *Report, key string) bool {
	p := c.Pkg("mp4")
	if p == nil {
		return false
	}
	bad := ""
	n := 0
	for _, f := range c.RepoFuncs(IsLib) {
		if f.Pkg == nil || f.Pkg.Pkg != p.Types || f.Name() != "Type" || f.Signature.Recv() == nil || f.Synthetic != "" {
			continue
		}
		if f.Signature.Results().Len() != 1 || f.Signature.Results().At(0).Type().String() != "string" {
			continue
		}
		n++
		for _, b := range f.Blocks {
			for _, ins := range b.Instrs {
				ret, ok := ins.(*ssa.Return)
				if !ok {
					continue
				}
				switch x := ret.Results[0].(type) {
				case *ssa.Const:
					if x.Value == nil || constant.StringVal(x.Value) == "" {
						bad += SSAFuncName(f) + " returns an empty type; "
					}
				case *ssa.UnOp:
					fa, ok := x.X.(*ssa.FieldAddr)
					if !ok {
						bad += SSAFuncName(f) + " returns a computed type; "
						break
					}
					if fv := fieldVar(fa.X.Type(), fa.Field); fv == nil || !strings.EqualFold(fv.Name(), "name") {
						bad += SSAFuncName(f) + " returns a field other than the box name; "
					}
				case *ssa.Call:
					if !strings.HasSuffix(calleeName(x.Common()), "mp4.TagType") {
						bad += SSAFuncName(f) + " returns the result of a call; "
					}
				default:
					bad += SSAFuncName(f) + " returns a computed type; "
				}
			}
		}
	}
	if n < 100 {
		bad += fmt.Sprintf("only %d Type methods found; ", n)
	}
	if bad == "" {
		r.OK("G4", key, "", fmt.Sprintf("invariant: all %d Type() methods of package mp4 return a non-empty constant, the box's name field (4 bytes from the box header) or TagType", n))
	} else {
		r.Bad("G4", key, "", "the info dumper indexes the first byte of Box.Type(): "+bad)
	}
	return true
}

// exprKey renders a pure integer expression over parameters and their fields, inlining calls of single-block
// repo functions, so that `hdr.payloadLen()` and `int(hdr.Size) - hdr.Hdrlen` compare equal. "?" marks parts
// that cannot be rendered.
func exprKey(v ssa.Value, subst map[*ssa.Parameter]string, depth int) string {
	if depth > 8 {
		return "?"
	}
	switch x := v.(type) {
	case *ssa.Const:
		if x.Value == nil {
			return "nil"
		}
		return x.Value.String()
	case *ssa.Parameter:
		if s, ok := subst[x]; ok {
			return s
		}
		return "param:" + x.Name() + ":" + x.Type().String()
	case *ssa.Convert:
		return "conv<" + x.Type().String() + ">(" + exprKey(x.X, subst, depth+1) + ")"
	case *ssa.BinOp:
		return "(" + exprKey(x.X, subst, depth+1) + x.Op.String() + exprKey(x.Y, subst, depth+1) + ")"
	case *ssa.Field:
		fv := fieldVar(x.X.Type(), x.Field)
		if fv == nil {
			return "?"
		}
		return exprKey(x.X, subst, depth+1) + "." + fv.Name()
	case *ssa.UnOp:
		if x.Op != token.MUL {
			return "?"
		}
		switch a := x.X.(type) {
		case *ssa.FieldAddr:
			fv := fieldVar(a.X.Type(), a.Field)
			if fv == nil {
				return "?"
			}
			return exprKey(a.X, subst, depth+1) + "." + fv.Name()
		case *ssa.Alloc:
			return exprKey(a, subst, depth+1)
		}
		return "?"
	case *ssa.Alloc:
		// a spilled parameter: the single store of a parameter into it
		var src ssa.Value
		n := 0
		for _, ref := range *x.Referrers() {
			if st, ok := ref.(*ssa.Store); ok && st.Addr == x {
				n++
				src = st.Val
			}
		}
		if n == 1 {
			return exprKey(src, subst, depth+1)
		}
		return "?"
	case *ssa.Call:
		g := x.Call.StaticCallee()
		if g == nil || len(g.Blocks) != 1 || x.Call.IsInvoke() {
			return "?"
		}
		ret, ok := g.Blocks[0].Instrs[len(g.Blocks[0].Instrs)-1].(*ssa.Return)
		if !ok || len(ret.Results) != 1 || len(g.Params) != len(x.Call.Args) {
			return "?"
		}
		sub := map[*ssa.Parameter]string{}
		for i, p := range g.Params {
			sub[p] = exprKey(x.Call.Args[i], subst, depth+1)
		}
		return exprKey(ret.Results[0], sub, depth+1)
	}
	return "?"
}

// ruleG8 — an index that is an untrusted value read from the input (not a loop counter) selects an element
// only after a dominating comparison on that value, unless it has so few bits that it cannot exceed a fixed
// array length.
func ruleG8(c *Ctx, r *Report, scope map[*ssa.Function]bool, invariants map[string]func(*Ctx, *Report, string) bool) int {
	ts := runTaint(c)
	n := 0
	seen := map[string]bool{}
	for _, f := range ts.funcs {
		if scope != nil && !scope[f] {
			continue
		}
		for _, b := range f.Blocks {
			for _, ins := range b.Instrs {
				var X, idx ssa.Value
				isSlicing := false
				switch x := ins.(type) {
				case *ssa.IndexAddr:
					X, idx = x.X, x.Index
				case *ssa.Index:
					X, idx = x.X, x.Index
				case *ssa.Slice:
					// s[a:b] with an untrusted bound
					X = x.X
					if x.High != nil && ts.get(x.High) != nil {
						idx = x.High
					} else if x.Low != nil && ts.get(x.Low) != nil {
						idx = x.Low
					} else {
						continue
					}
					isSlicing = true
				default:
					continue
				}
				if _, isC := idx.(*ssa.Const); isC {
					continue
				}
				t := ts.get(idx)
				if t == nil {
					continue
				}
				alen := int64(-1)
				xt := X.Type().Underlying()
				if pt, ok := xt.(*types.Pointer); ok {
					xt = pt.Elem().Underlying()
				}
				switch a := xt.(type) {
				case *types.Array:
					alen = a.Len()
				case *types.Slice:
				case *types.Basic: // string
				default:
					continue
				}
				key := fmt.Sprintf("%s:%s[%s]", SSAFuncName(f), sliceText(c, f, ins.Pos()), idxText(c, f, ins.Pos()))
				if isSlicing {
					key = fmt.Sprintf("%s:%s[%s]", SSAFuncName(f), sliceText(c, f, ins.Pos()), sliceBoundsText(c, f, ins.Pos()))
				}
				if seen[key] {
					continue
				}
				seen[key] = true
				n++
				if alen < 0 {
					if l, ok := globalLiteralLen(c, X); ok {
						alen = l
					} else if sl, ok := X.(*ssa.Slice); ok && sl.Low == nil && sl.High == nil {
						if pt, ok := sl.X.Type().Underlying().(*types.Pointer); ok {
							if at, ok := pt.Elem().Underlying().(*types.Array); ok {
								alen = at.Len() // a composite literal: slice of a fresh array
							}
						}
					}
				}
				if alen >= 0 && t.bits < 63 && int64(1)<<uint(t.bits) <= alen {
					r.OK("G8", key, c.Pos(ins.Pos()), fmt.Sprintf("the index has %d bits and the array %d elements", t.bits, alen))
					continue
				}
				if alen >= 0 {
					// fixed length: a dominating comparison on the value is accepted (its constant is not evaluated)
					if ok, where := ts.guardedBy(b, t); ok {
						r.OK("G8", key, c.Pos(ins.Pos()), fmt.Sprintf("the untrusted index (%d bits, from %s) is compared at %s before it is used", t.bits, rootNames(t), where))
						continue
					}
				} else if where := ts.guardedByLen(f, b, t, X); where != "" {
					if weak := ts.guardArithmetic(f, ins, idx, X, isSlicing); weak != "" {
						r.Bad("G8", key, c.Pos(ins.Pos()), "the untrusted index is compared with the length of the slice, but "+weak+": index out of range panic")
						continue
					}
					r.OK("G8", key, c.Pos(ins.Pos()), fmt.Sprintf("the untrusted index (%d bits, from %s) is compared with the length of the slice at %s", t.bits, rootNames(t), where))
					continue
				}
				if inv, ok := invariants[key]; ok && inv(c, r, key) {
					continue
				}
				r.Bad("G8", key, c.Pos(ins.Pos()), fmt.Sprintf("an untrusted %d-bit value (from %s) is used as an index with no dominating comparison on it: index out of range panic", t.bits, rootNames(t)))
			}
		}
	}
	return n
}

func idxText(c *Ctx, f *ssa.Function, pos token.Pos) string {
	var root ast.Node
	top := f
	for q := f; q != nil && root == nil; q = q.Parent() {
		root = q.Syntax()
	}
	for top.Parent() != nil {
		top = top.Parent()
	}
	var info *types.Info
	if obj, ok := top.Object().(*types.Func); ok {
		if _, pk := c.Decl(obj); pk != nil {
			info = pk.TypesInfo
		}
	}
	out := "expr"
	if root != nil && pos.IsValid() {
		ast.Inspect(root, func(n ast.Node) bool {
			if ie, ok := n.(*ast.IndexExpr); ok && ie.Lbrack == pos {
				out = canonExpr(info, ie.Index)
			}
			return true
		})
	}
	return out
}

// globalLiteralLen: X is a load of a package-level slice variable that is initialised with a composite literal
// and never assigned elsewhere in the repo: its length is the literal's.
func globalLiteralLen(c *Ctx, X ssa.Value) (int64, bool) {
	ld, ok := X.(*ssa.UnOp)
	if !ok || ld.Op != token.MUL {
		return 0, false
	}
	g, ok := ld.X.(*ssa.Global)
	if !ok || g.Pkg == nil {
		return 0, false
	}
	// stores outside the package initialiser
	for _, f := range c.RepoFuncs(nil) {
		if f.Name() == "init" && f.Pkg == g.Pkg && f.Synthetic != "" {
			continue
		}
		for _, b := range f.Blocks {
			for _, ins := range b.Instrs {
				if st, ok := ins.(*ssa.Store); ok && st.Addr == g {
					return 0, false
				}
			}
		}
	}
	// the literal
	for _, p := range c.Pkgs {
		if p.Types != g.Pkg.Pkg {
			continue
		}
		for _, file := range p.Syntax {
			for _, d := range file.Decls {
				gd, ok := d.(*ast.GenDecl)
				if !ok || gd.Tok != token.VAR {
					continue
				}
				for _, sp := range gd.Specs {
					vs := sp.(*ast.ValueSpec)
					for i, nm := range vs.Names {
						if nm.Name != g.Name() || i >= len(vs.Values) {
							continue
						}
						cl, ok := vs.Values[i].(*ast.CompositeLit)
						if !ok {
							return 0, false
						}
						for _, e := range cl.Elts {
							if _, kv := e.(*ast.KeyValueExpr); kv {
								return 0, false
							}
						}
						return int64(len(cl.Elts)), true
					}
				}
			}
		}
	}
	return 0, false
}

// guardedByLen: a dominating comparison between a value sharing a taint root with t and the length of X
// (len(X), or the value X was made with in this function).
func (ts *taintState) guardedByLen(f *ssa.Function, b *ssa.BasicBlock, t *taintV, X ssa.Value) string {
	var lens []ssa.Value
	if mk := sliceOrigin(f, X, 0); mk != nil {
		lens = append(lens, mk.Len)
	}
	isLen := func(v ssa.Value) bool {
		v = stripConv(v)
		if isLenOf(v, X) {
			return true
		}
		for _, l := range lens {
			if sameSSA(v, l) {
				return true
			}
		}
		if isLenField(ts.c, v, X) {
			return true
		}
		// m := a; if m > len { m = len }: a value clamped to the length
		if phi, ok := v.(*ssa.Phi); ok {
			var idxs []int
			for i, e := range phi.Edges {
				if e != phi {
					idxs = append(idxs, i)
				}
			}
			for k := 0; k < 2 && len(idxs) == 2; k++ {
				i, j := idxs[k], idxs[1-k]
				l, a := stripConv(phi.Edges[i]), phi.Edges[j]
				if !(isLenOf(l, X) || isLenField(ts.c, l, X)) {
					continue
				}
				// the edge carrying a comes from the block that tested a > len (false arm)
				pb := phi.Block().Preds[j]
				if len(pb.Instrs) > 0 {
					if ifi, ok := pb.Instrs[len(pb.Instrs)-1].(*ssa.If); ok {
						if bo, ok := ifi.Cond.(*ssa.BinOp); ok && bo.Op == token.GTR && sameSSA(bo.X, a) &&
							(isLenOf(stripConv(bo.Y), X) || isLenField(ts.c, stripConv(bo.Y), X)) && pb.Succs[1] == phi.Block() {
							return true
						}
					}
				}
			}
		}
		// len(x) - c, len(x) - n
		if bo, ok := v.(*ssa.BinOp); ok && (bo.Op == token.SUB || bo.Op == token.ADD) {
			l := stripConv(bo.X)
			if isLenOf(l, X) || isLenField(ts.c, l, X) {
				if bo.Op == token.SUB {
					return true
				}
				if _, isC := bo.Y.(*ssa.Const); isC {
					return true
				}
			}
		}
		return false
	}
	where := ""
	hasDominatingTest(nil, b, func(cond ssa.Value, truth bool) bool {
		var visit func(v ssa.Value, depth int) bool
		visit = func(v ssa.Value, depth int) bool {
			if depth > 4 {
				return false
			}
			switch x := v.(type) {
			case *ssa.BinOp:
				switch x.Op {
				case token.LSS, token.LEQ, token.GTR, token.GEQ:
					for i, o := range []ssa.Value{x.X, x.Y} {
						// inside an inlined helper the parameters stand for the call's arguments
						o = substituted(stripConv(o))
						other := substituted(stripConv([]ssa.Value{x.Y, x.X}[i]))
						if !isLen(other) {
							continue
						}
						if ot := ts.get(o); ot != nil {
							for r := range ot.roots {
								if t.roots[r] {
									return true
								}
							}
						}
					}
				}
			case *ssa.UnOp:
				if x.Op == token.NOT {
					return visit(x.X, depth+1)
				}
			case *ssa.Phi:
				for _, e := range x.Edges {
					if visit(e, depth+1) {
						return true
					}
				}
			}
			return false
		}
		if visit(cond, 0) {
			where = ts.c.Pos(cond.Pos())
			return true
		}
		return false
	})
	return where
}

// lengthFields: struct fields that always hold the length of a sibling slice field. The pairing is checked:
// every store to the length field stores len(x) of the value stored to the slice field in the same function.
var lengthFields = map[string][2]string{
	"FixedSliceReader": {"slice", "len"},
}

var lengthFieldChecked = map[string]bool{}

func isLenField(c *Ctx, v, X ssa.Value) bool {
	ld, ok := v.(*ssa.UnOp)
	if !ok || ld.Op != token.MUL {
		return false
	}
	fa, ok := ld.X.(*ssa.FieldAddr)
	if !ok {
		return false
	}
	tn := typeName(fa.X.Type())
	pair, ok := lengthFields[tn]
	fv := fieldVar(fa.X.Type(), fa.Field)
	if !ok || fv == nil || fv.Name() != pair[1] {
		return false
	}
	xl, ok := X.(*ssa.UnOp)
	if !ok {
		return false
	}
	xa, ok := xl.X.(*ssa.FieldAddr)
	if !ok || !sameSSA(xa.X, fa.X) {
		return false
	}
	if xv := fieldVar(xa.X.Type(), xa.Field); xv == nil || xv.Name() != pair[0] {
		return false
	}
	if done, seen := lengthFieldChecked[tn]; seen {
		return done
	}
	good := true
	n := 0
	for _, f := range c.RepoFuncs(nil) {
		lens := storesTo(f, tn+"."+pair[1])
		sls := storesTo(f, tn+"."+pair[0])
		if len(lens) == 0 && len(sls) == 0 {
			continue
		}
		n++
		if len(lens) != 1 || len(sls) != 1 || !isLenOf(lens[0].Val, sls[0].Val) {
			good = false
		}
	}
	lengthFieldChecked[tn] = good && n > 0
	return lengthFieldChecked[tn]
}

// invOnlyCallerURL — FixedSliceReader.ReadPossiblyZeroTerminatedString(maxLen) reads up to maxLen bytes without
// looking at the slice length: its only repo caller is DecodeURLBoxSR with maxLen = payloadLen()-4 after reading
// 4 bytes, and G-SIZE makes sure the payload of a box is inside the slice.
func invOnlyCallerURL(c *Ctx, r *Report, key string) bool {
	bad := ""
	n := 0
	for _, f := range c.RepoFuncs(nil) {
		if strings.HasSuffix(c.Fset.Position(f.Pos()).Filename, "_test.go") {
			continue
		}
		for _, ci := range callsIn(f, ".ReadPossiblyZeroTerminatedString", false) {
			if f.Synthetic != "" {
				continue
			}
			n++
			if SSAFuncName(f) != "mp4.DecodeURLBoxSR" {
				bad += "called from " + SSAFuncName(f) + "; "
				continue
			}
			args := ci.Common().Args
			k := exprKey(args[len(args)-1], nil, 0)
			want := ""
			for _, p := range f.Params {
				if p.Name() == "hdr" {
					want = "(" + exprKey(p, nil, 0) + ".Size"
				}
			}
			if !strings.Contains(k, ".Hdrlen") || !strings.Contains(k, ".Size") || !strings.HasSuffix(k, "-4)") || want == "" {
				bad += "the count passed in DecodeURLBoxSR is not payloadLen()-4 (" + k + "); "
			}
			if len(callsIn(f, ".ReadUint32", false)) != 1 {
				bad += "DecodeURLBoxSR does not read exactly one 32-bit word before the string; "
			}
		}
	}
	if n == 0 {
		bad += "no caller; "
	}
	if bad == "" {
		r.OK("G8", key, "", "invariant: only DecodeURLBoxSR calls it, with payloadLen()-4 after 4 bytes read; the payload is inside the slice by G-SIZE")
	} else {
		r.Bad("G8", key, "", "the reader indexes up to maxLen bytes without a test of the slice length: "+bad)
	}
	return true
}

// invRPSIndex — hevc.parseShortTermRPS indexes sps.ShortTermRefPicSets[idx-deltaIdx]: deltaIdx is tested to be
// in 1..idx, every caller passes idx <= NumShortTermRefPicSets, and the slice is made with that length.
func invRPSIndex(c *Ctx, r *Report, key string) bool {
	f := c.ssaFunc(r, "G8", "hevc", "parseShortTermRPS")
	if f == nil {
		return true
	}
	bad := ""
	// (1) a rejecting test `deltaIdx == 0 || deltaIdx > idx` dominates the index
	var idxPar *ssa.Parameter
	for _, p := range f.Params {
		if p.Name() == "idx" {
			idxPar = p
		}
	}
	okGT, okZero := false, false
	for _, b := range f.Blocks {
		if len(b.Instrs) == 0 {
			continue
		}
		ifi, ok := b.Instrs[len(b.Instrs)-1].(*ssa.If)
		if !ok {
			continue
		}
		bo, ok := ifi.Cond.(*ssa.BinOp)
		if !ok {
			continue
		}
		rejects := blockLeaves(b.Succs[0])
		if bo.Op == token.GTR && idxPar != nil && sameSSA(bo.Y, idxPar) && rejects {
			okGT = true
		}
		if bo.Op == token.EQL && rejects {
			if cs, ok := constSet(bo.Y, 0); ok && len(cs) == 1 && cs[0] == 0 {
				okZero = true
			}
		}
		// a || b: the first test jumps to the same rejecting block
		if bo.Op == token.EQL && len(b.Succs) == 2 {
			if cs, ok := constSet(bo.Y, 0); ok && len(cs) == 1 && cs[0] == 0 {
				for _, s := range b.Succs {
					if blockLeaves(s) {
						okZero = true
					}
				}
			}
		}
	}
	if !okGT || !okZero {
		bad += "no rejecting test that deltaIdx is in 1..idx; "
	}
	// (2) callers
	node := c.CallGraph().Nodes[f]
	n := 0
	if node != nil {
		for _, e := range node.In {
			if e.Site == nil {
				continue
			}
			n++
			arg := e.Site.Common().Args[1]
			if isDirectFieldLoad(stripConv(arg), "SPS.NumShortTermRefPicSets") {
				continue
			}
			if bound, incl, ok := inductionBound(arg); ok && !incl && isDirectFieldLoad(stripConv(bound), "SPS.NumShortTermRefPicSets") {
				continue
			}
			bad += "the call in " + SSAFuncName(e.Caller.Func) + " passes an index not bounded by NumShortTermRefPicSets; "
		}
	}
	if n == 0 {
		bad += "no caller; "
	}
	// (3) the slice is made with that length
	made := false
	for _, g := range c.RepoFuncs(IsLib) {
		if strings.HasSuffix(c.Fset.Position(g.Pos()).Filename, "_test.go") {
			continue
		}
		for _, st := range storesTo(g, "SPS.ShortTermRefPicSets") {
			mk, ok := st.Val.(*ssa.MakeSlice)
			if ok && isDirectFieldLoad(stripConv(mk.Len), "SPS.NumShortTermRefPicSets") {
				made = true
			} else {
				bad += SSAFuncName(g) + " stores ShortTermRefPicSets not made with NumShortTermRefPicSets elements; "
			}
		}
	}
	if !made {
		bad += "ShortTermRefPicSets is never made with NumShortTermRefPicSets elements; "
	}
	if bad == "" {
		r.OK("G8", key, "", fmt.Sprintf("invariant: deltaIdx in 1..idx is tested, the %d callers pass idx <= NumShortTermRefPicSets, and the slice is made with that length", n))
	} else {
		r.Bad("G8", key, "", "index idx-deltaIdx into ShortTermRefPicSets: "+bad)
	}
	return true
}

// ruleG9 — scanners: in a loop `for i < len(s)-k`, an index i+c into s (directly, or through a variable that
// takes the value i+c and is used later) needs c <= k unless the use has its own dominating test against the
// length. This is the bound arithmetic of the Annex B start-code scanners.
func ruleG9(c *Ctx, r *Report, scope map[*ssa.Function]bool) int {
	var fns []*ssa.Function
	for f := range scope {
		fns = append(fns, f)
	}
	sort.Slice(fns, func(i, j int) bool { return fns[i].String() < fns[j].String() })
	n := 0
	for _, f := range fns {
		if f.Synthetic != "" {
			continue
		}
		for _, l := range naturalLoops(f) {
			hdr := l.header
			if len(hdr.Instrs) == 0 {
				continue
			}
			ifi, ok := hdr.Instrs[len(hdr.Instrs)-1].(*ssa.If)
			if !ok {
				continue
			}
			bo, ok := ifi.Cond.(*ssa.BinOp)
			if !ok || (bo.Op != token.LSS && bo.Op != token.LEQ) || !l.blocks[hdr.Succs[0]] {
				continue
			}
			ctr, ok := bo.X.(*ssa.Phi)
			if !ok || ctr.Block() != hdr {
				continue
			}
			// bound: len(s) - k
			var lenCall *ssa.Call
			k := int64(0)
			bound := stripConv(bo.Y)
			if sub, ok := bound.(*ssa.BinOp); ok && sub.Op == token.SUB {
				if cs, ok := constSet(sub.Y, 0); ok && len(cs) == 1 {
					k = cs[0]
					bound = stripConv(sub.X)
				}
			}
			if call, ok := bound.(*ssa.Call); ok {
				if bi, ok := call.Call.Value.(*ssa.Builtin); ok && bi.Name() == "len" {
					lenCall = call
				}
			}
			if lenCall == nil {
				continue
			}
			if bo.Op == token.LEQ {
				k-- // i <= len-k  is  i < len-(k-1)
			}
			s := lenCall.Call.Args[0]
			if _, isSl := s.Type().Underlying().(*types.Slice); !isSl {
				continue
			}
			// derived values: v = i + c, and variables (phis) that only ever hold such values or constants
			off := map[ssa.Value]int64{ctr: 0}
			for _, b := range f.Blocks {
				if !l.blocks[b] {
					continue
				}
				for _, ins := range b.Instrs {
					if x, ok := ins.(*ssa.BinOp); ok && x.Op == token.ADD && x.X == ssa.Value(ctr) {
						if cs, ok := constSet(x.Y, 0); ok && len(cs) == 1 && cs[0] >= 0 {
							off[x] = cs[0]
						}
					}
				}
			}
			cand := map[*ssa.Phi]bool{}
			for _, b := range f.Blocks {
				for _, ins := range b.Instrs {
					if x, ok := ins.(*ssa.Phi); ok && x != ctr && isIntType(x.Type()) {
						cand[x] = true
					}
				}
			}
			for changed := true; changed; {
				changed = false
				for x := range cand {
					for _, e := range x.Edges {
						if _, isC := e.(*ssa.Const); isC {
							continue
						}
						if ep, isPhi := e.(*ssa.Phi); isPhi && cand[ep] {
							continue
						}
						if _, ok := off[e]; ok && e != ssa.Value(ctr) {
							continue
						}
						delete(cand, x)
						changed = true
						break
					}
				}
			}
			for changed := true; changed; {
				changed = false
				for x := range cand {
					best, have := int64(-1), false
					for _, e := range x.Edges {
						if o, ok := off[e]; ok {
							if o > best {
								best = o
							}
							have = true
						}
					}
					if have {
						if cur, seen := off[x]; !seen || cur != best {
							off[x] = best
							changed = true
						}
					}
				}
			}
			// uses
			loopText := srcOf(f, firstPos(hdr.Succs[0]), "loop", "for i < len-"+fmt.Sprint(k))
			seen := map[string]bool{}
			for _, b := range f.Blocks {
				for _, ins := range b.Instrs {
					ia, ok := ins.(*ssa.IndexAddr)
					if !ok || !sameSSA(ia.X, s) {
						continue
					}
					cOff, ok := off[ia.Index]
					if !ok {
						continue
					}
					if ia.Index == ssa.Value(ctr) && !l.blocks[b] {
						continue // the counter after the loop is not bounded by the loop test
					}
					key := fmt.Sprintf("%s:%s[i+%d] in %s", SSAFuncName(f), sliceText(c, f, ia.Pos()), cOff, loopText)
					if lenGuarded(ia.Index, s, ia.Block()) {
						if !seen[key] && cOff <= k {
							seen[key] = true
							n++
							r.OK("G9", key, c.Pos(ia.Pos()), "the index is compared with the length right before the use")
						}
						continue // a guarded use never decides the key when the offset is too large: look at the other uses
					}
					if seen[key] && cOff <= k {
						continue
					}
					if seen[key] {
						key += "#unguarded"
					}
					seen[key] = true
					n++
					if cOff <= k {
						r.OK("G9", key, c.Pos(ia.Pos()), fmt.Sprintf("i < len-%d and the index is i+%d", k, cOff))
					} else {
						r.Bad("G9", key, c.Pos(ia.Pos()), fmt.Sprintf("the loop runs while i < len-%d but the element i+%d is read: index out of range at the end of the data", k, cOff))
					}
				}
			}
			// slice bounds s[lo:i+c] inside the loop: the (exclusive) upper bound i+c needs c-1 <= k
			for _, b := range f.Blocks {
				if !l.blocks[b] {
					continue
				}
				for _, ins := range b.Instrs {
					sl, ok := ins.(*ssa.Slice)
					if !ok || sl.High == nil || !sameSSA(sl.X, s) {
						continue
					}
					cOff, ok := off[sl.High]
					if !ok {
						continue
					}
					key := fmt.Sprintf("%s:%s[:i+%d] in %s", SSAFuncName(f), sliceText(c, f, sl.Pos()), cOff, loopText)
					if seen[key] {
						continue
					}
					seen[key] = true
					n++
					if lenGuarded(sl.High, s, sl.Block()) || cOff-1 <= k {
						r.OK("G9", key, c.Pos(sl.Pos()), fmt.Sprintf("i < len-%d and the slice ends at i+%d", k, cOff))
					} else {
						r.Bad("G9", key, c.Pos(sl.Pos()), fmt.Sprintf("the loop runs while i < len-%d but the slice ends at i+%d: slice bounds out of range on the last, partial element", k, cOff))
					}
				}
			}
		}
	}
	return n
}

// lenGuarded: a dominating test compares idx with len(s) (or len(s)-c).
func lenGuarded(idx, s ssa.Value, b *ssa.BasicBlock) bool {
	found := false
	hasDominatingTest(idx, b, func(cond ssa.Value, truth bool) bool {
		bo, ok := cond.(*ssa.BinOp)
		if !ok {
			return false
		}
		for i, o := range []ssa.Value{bo.X, bo.Y} {
			other := stripConv([]ssa.Value{bo.Y, bo.X}[i])
			if !sameSSA(o, idx) {
				continue
			}
			if sub, ok := other.(*ssa.BinOp); ok && sub.Op == token.SUB {
				other = stripConv(sub.X)
			}
			if isLenOf(other, s) {
				found = true
				return true
			}
		}
		return false
	})
	return found
}

// ruleG10 — a loop cursor that is advanced by an untrusted value must be wider than that value: a uint32 cursor
// advanced by a 32-bit length wraps around, the loop test keeps succeeding and the walk never ends.
func ruleG10(c *Ctx, r *Report, scope map[*ssa.Function]bool) int {
	ts := runTaint(c)
	n := 0
	for _, f := range ts.funcs {
		if scope != nil && !scope[f] {
			continue
		}
		for _, l := range naturalLoops(f) {
			for _, ins := range l.header.Instrs {
				phi, ok := ins.(*ssa.Phi)
				if !ok {
					break
				}
				if !isIntType(phi.Type()) {
					continue
				}
				// is the cursor used in an exit test of the loop?
				inTest := false
				for blk := range l.blocks {
					if len(blk.Instrs) == 0 {
						continue
					}
					if ifi, ok := blk.Instrs[len(blk.Instrs)-1].(*ssa.If); ok && (!l.blocks[blk.Succs[0]] || !l.blocks[blk.Succs[1]]) {
						if dependsOnValue(ifi.Cond, phi, 0) {
							inTest = true
						}
					}
				}
				if !inTest {
					continue
				}
				// increments by tainted values inside the loop that flow back into the phi
				var worst *taintV
				var at token.Pos
				var visit func(v ssa.Value, depth int)
				seen := map[ssa.Value]bool{}
				visit = func(v ssa.Value, depth int) {
					if depth > 6 || seen[v] {
						return
					}
					seen[v] = true
					switch x := v.(type) {
					case *ssa.BinOp:
						if x.Op == token.ADD {
							for i, o := range []ssa.Value{x.X, x.Y} {
								other := []ssa.Value{x.Y, x.X}[i]
								if t := ts.get(o); t != nil && dependsOnValue(other, phi, 0) {
									if worst == nil || t.bits > worst.bits {
										worst, at = t, x.Pos()
									}
								}
							}
							visit(x.X, depth+1)
							visit(x.Y, depth+1)
						}
					case *ssa.Phi:
						for _, e := range x.Edges {
							visit(e, depth+1)
						}
					case *ssa.Convert:
						visit(x.X, depth+1)
					}
				}
				for i, e := range phi.Edges {
					if l.blocks[l.header.Preds[i]] {
						visit(e, 0)
					}
				}
				if worst == nil {
					continue
				}
				n++
				key := fmt.Sprintf("%s:%s", SSAFuncName(f), srcOf(f, firstPos(l.header.Succs[0]), "loop", "loop"))
				w := typeBits(phi.Type())
				if worst.bits < w {
					r.OK("G10", key, c.Pos(at), fmt.Sprintf("a %d-bit cursor is advanced by an untrusted value of at most %d bits", w, worst.bits))
				} else {
					r.Bad("G10", key, c.Pos(at), fmt.Sprintf("a %d-bit cursor is advanced by an untrusted %d-bit value (from %s): the sum wraps around, the loop test stays true and the walk never ends", w, worst.bits, rootNames(worst)))
				}
			}
		}
	}
	return n
}

func dependsOnValue(v, target ssa.Value, depth int) bool {
	if v == target {
		return true
	}
	if depth > 5 {
		return false
	}
	switch x := v.(type) {
	case *ssa.BinOp:
		return dependsOnValue(x.X, target, depth+1) || dependsOnValue(x.Y, target, depth+1)
	case *ssa.Convert:
		return dependsOnValue(x.X, target, depth+1)
	case *ssa.UnOp:
		return dependsOnValue(x.X, target, depth+1)
	}
	return false
}

func sliceBoundsText(c *Ctx, f *ssa.Function, pos token.Pos) string {
	var root ast.Node
	top := f
	for q := f; q != nil && root == nil; q = q.Parent() {
		root = q.Syntax()
	}
	for top.Parent() != nil {
		top = top.Parent()
	}
	var info *types.Info
	if obj, ok := top.Object().(*types.Func); ok {
		if _, pk := c.Decl(obj); pk != nil {
			info = pk.TypesInfo
		}
	}
	out := ":"
	if root != nil && pos.IsValid() {
		ast.Inspect(root, func(n ast.Node) bool {
			if se, ok := n.(*ast.SliceExpr); ok && se.Lbrack == pos {
				lo, hi := "", ""
				if se.Low != nil {
					lo = canonExpr(info, se.Low)
				}
				if se.High != nil {
					hi = canonExpr(info, se.High)
				}
				out = lo + ":" + hi
			}
			return true
		})
	}
	return out
}

// invCursorWithinLen — FixedSliceReader keeps pos <= len: every store to pos stores 0, Length(), or a value under a
// dominating test that mentions the length (len field or Length()). ReadPossiblyZeroTerminatedString is covered by
// its own invariant (its only caller passes a count inside the box).
func invCursorWithinLen(c *Ctx, r *Report, key string) bool {
	bad := ""
	n := 0
	mentionsLen := func(v ssa.Value) bool {
		found := false
		var visit func(v ssa.Value, d int)
		visit = func(v ssa.Value, d int) {
			if d > 5 || found {
				return
			}
			switch x := v.(type) {
			case *ssa.UnOp:
				if isDirectFieldLoad(x, "FixedSliceReader.len") {
					found = true
				}
				visit(x.X, d+1)
			case *ssa.Call:
				if strings.HasSuffix(calleeName(x.Common()), "FixedSliceReader.Length") {
					found = true
				}
			case *ssa.BinOp:
				visit(x.X, d+1)
				visit(x.Y, d+1)
			case *ssa.Convert:
				visit(x.X, d+1)
			case *ssa.Phi:
				for _, e := range x.Edges {
					visit(e, d+1)
				}
			}
		}
		visit(v, 0)
		return found
	}
	for _, f := range c.RepoFuncs(IsLib) {
		if strings.HasSuffix(c.Fset.Position(f.Pos()).Filename, "_test.go") {
			continue
		}
		for _, st := range storesTo(f, "FixedSliceReader.pos") {
			n++
			if f.Name() == "ReadPossiblyZeroTerminatedString" {
				continue
			}
			if cs, ok := constSet(st.Val, 0); ok && len(cs) == 1 && cs[0] == 0 {
				continue
			}
			if mentionsLen(st.Val) {
				continue
			}
			ok := false
			for d := st.Block(); d != nil; d = d.Idom() {
				id := d.Idom()
				if id == nil || len(id.Instrs) == 0 {
					continue
				}
				if ifi, isIf := id.Instrs[len(id.Instrs)-1].(*ssa.If); isIf {
					if mentionsLen(ifi.Cond) {
						ok = true
					}
					// the test may be a predicate helper on the reader (`if s.lacksBytes(n)`)
					cond := ifi.Cond
					for {
						u, isNot := cond.(*ssa.UnOp)
						if !isNot || u.Op != token.NOT {
							break
						}
						cond = u.X
					}
					if call, isCall := cond.(*ssa.Call); isCall {
						if cmp, _, _ := predicateComparison(call); cmp != nil && mentionsLen(cmp) {
							ok = true
						}
					}
				}
			}
			// clamped bound: compared with a phi that was clamped to len
			if !ok {
				for d := st.Block(); d != nil; d = d.Idom() {
					id := d.Idom()
					if id == nil || len(id.Instrs) == 0 {
						continue
					}
					if ifi, isIf := id.Instrs[len(id.Instrs)-1].(*ssa.If); isIf {
						if bo, isBo := ifi.Cond.(*ssa.BinOp); isBo {
							for _, o := range []ssa.Value{bo.X, bo.Y} {
								if phi, isPhi := o.(*ssa.Phi); isPhi && mentionsLen(phi) {
									ok = true
								}
							}
						}
					}
				}
			}
			if !ok {
				bad += SSAFuncName(f) + " moves the cursor without a test against the length; "
			}
		}
	}
	if n < 10 {
		bad += fmt.Sprintf("only %d cursor updates found; ", n)
	}
	if bad == "" {
		r.OK("G8", key, "", fmt.Sprintf("invariant: all %d updates of FixedSliceReader.pos are 0, Length() or follow a test against the length, so pos <= len and slicing at pos is in range", n))
	} else {
		r.Bad("G8", key, "", "slicing at the cursor relies on pos <= len: "+bad)
	}
	return true
}

// ---- linear forms over SSA leaves -------------------------------------------------------------

type linForm struct {
	k  int64
	cs map[ssa.Value]int64
}

func (a linForm) add(b linForm, sign int64) linForm {
	r := linForm{k: a.k + sign*b.k, cs: map[ssa.Value]int64{}}
	for v, c := range a.cs {
		r.cs[v] += c
	}
	for v, c := range b.cs {
		r.cs[v] += sign * c
	}
	for v, c := range r.cs {
		if c == 0 {
			delete(r.cs, v)
		}
	}
	return r
}

// linOf renders v as a linear form over leaves (parameters, loads, calls, phis); conversions that cannot lose
// bits and +,- and multiplication by a constant are followed. Leaves that are loads of the same field compare equal
// through canonical representatives.
func linOf(v ssa.Value, canon func(ssa.Value) ssa.Value, depth int) linForm {
	if depth > 8 {
		return linForm{cs: map[ssa.Value]int64{canon(v): 1}}
	}
	switch x := v.(type) {
	case *ssa.Const:
		if x.Value != nil && x.Value.Kind() == constant.Int {
			if n, ok := constant.Int64Val(x.Value); ok {
				return linForm{k: n, cs: map[ssa.Value]int64{}}
			}
		}
	case *ssa.Convert:
		if isIntType(x.Type()) && isIntType(x.X.Type()) && typeBits(x.Type()) >= typeBits(x.X.Type()) {
			return linOf(x.X, canon, depth+1)
		}
	case *ssa.BinOp:
		switch x.Op {
		case token.ADD:
			return linOf(x.X, canon, depth+1).add(linOf(x.Y, canon, depth+1), 1)
		case token.SUB:
			return linOf(x.X, canon, depth+1).add(linOf(x.Y, canon, depth+1), -1)
		case token.MUL:
			if cs, ok := constSet(x.Y, 0); ok && len(cs) == 1 {
				l := linOf(x.X, canon, depth+1)
				r := linForm{k: l.k * cs[0], cs: map[ssa.Value]int64{}}
				for v, c := range l.cs {
					r.cs[v] = c * cs[0]
				}
				return r
			}
			if cs, ok := constSet(x.X, 0); ok && len(cs) == 1 {
				l := linOf(x.Y, canon, depth+1)
				r := linForm{k: l.k * cs[0], cs: map[ssa.Value]int64{}}
				for v, c := range l.cs {
					r.cs[v] = c * cs[0]
				}
				return r
			}
		}
	}
	return linForm{cs: map[ssa.Value]int64{canon(v): 1}}
}

// ruleG3Lin — a slice made in the function with a linear length L and indexed by counter±c inside a counted loop
// `for i := lo; i < / <= hi`: the largest index must be below L for every value of the free quantities that the
// dominating tests allow.
func ruleG3Lin(c *Ctx, r *Report, scope map[*ssa.Function]bool) int {
	var fns []*ssa.Function
	for f := range scope {
		fns = append(fns, f)
	}
	sort.Slice(fns, func(i, j int) bool { return fns[i].String() < fns[j].String() })
	n := 0
	for _, f := range fns {
		if f.Synthetic != "" {
			continue
		}
		var reps []ssa.Value
		canon := func(v ssa.Value) ssa.Value {
			for _, q := range reps {
				if sameSSA(q, v) {
					return q
				}
			}
			reps = append(reps, v)
			return v
		}
		seen := map[string]bool{}
		for _, b := range f.Blocks {
			for _, ins := range b.Instrs {
				ia, ok := ins.(*ssa.IndexAddr)
				if !ok {
					continue
				}
				if _, isSl := ia.X.Type().Underlying().(*types.Slice); !isSl {
					continue
				}
				mk := sliceOrigin(f, ia.X, 0)
				if mk == nil {
					continue
				}
				// index linear in a loop counter (not the bare counter: that is G3)
				idx := stripConv(ia.Index)
				if _, isPhi := idx.(*ssa.Phi); isPhi {
					continue
				}
				il := linOf(idx, canon, 0)
				var ctr ssa.Value
				var bound ssa.Value
				incl := false
				for v, co := range il.cs {
					if b2, in2, ok := inductionBound(v); ok && co == 1 {
						ctr, bound, incl = v, b2, in2
					}
				}
				if ctr == nil {
					continue
				}
				key := fmt.Sprintf("%s:%s[%s] in %s", SSAFuncName(f), srcOf(f, mk.Pos(), "make", exprText(c, mk)), idxText(c, f, ia.Pos()), srcOf(f, ia.Pos(), "loop", "loop"))
				if seen[key] {
					continue
				}
				seen[key] = true
				// largest index: counter -> hi
				hi := linOf(bound, canon, 0)
				if !incl {
					hi.k--
				}
				rest := linForm{k: il.k, cs: map[ssa.Value]int64{}}
				for v, co := range il.cs {
					if v != ctr {
						rest.cs[v] = co
					}
				}
				imax := hi.add(rest, 1)
				L := linOf(mk.Len, canon, 0)
				d := imax.add(L, -1) // need d + 1 <= 0
				d.k++
				// bound the free quantities
				max := d.k
				unbounded := ""
				for v, co := range d.cs {
					if co > 0 {
						if ub, ok := upperBoundAt(v, mk.Block()); ok {
							max += co * ub
						} else {
							unbounded = valText(c, v)
						}
					} else {
						lb, ok := lowerBoundAt(v, mk.Block(), 0)
						if !ok {
							lb = 0
							if !nonNegative(v) {
								unbounded = valText(c, v)
							}
						}
						max += co * lb
					}
				}
				n++
				switch {
				case unbounded != "" && anyPositive(d):
					r.Bad("G3", key, c.Pos(ia.Pos()), fmt.Sprintf("the largest index minus the length the slice was made with grows with %s, which no dominating test bounds: index out of range", unbounded))
				case unbounded != "":
					n--
					seen[key] = false // undetermined: not an obligation of this rule
				case max <= 0:
					r.OK("G3", key, c.Pos(ia.Pos()), "the largest index is below the length the slice was made with for every value the dominating tests allow")
				default:
					r.Bad("G3", key, c.Pos(ia.Pos()), fmt.Sprintf("the largest index can exceed the length the slice was made with by %d", max))
				}
			}
		}
	}
	return n
}

func anyPositive(d linForm) bool {
	for _, co := range d.cs {
		if co > 0 {
			return true
		}
	}
	return false
}

// ruleLastInterval (C11) — the segmenter's last sample interval ends at the track's sample count itself
// (interval ends are inclusive): nothing is dropped at the end.
func ruleLastInterval(c *Ctx, r *Report) {
	f := c.ssaFunc(r, "O-LAST", "examples/segmenter", "getSegmentIntervals")
	if f == nil {
		return
	}
	key := "examples/segmenter.getSegmentIntervals:last-interval-end"
	sts := storesTo(f, "sampleInterval.endNr")
	if len(sts) == 0 {
		r.Undecided("O-LAST", key, c.Pos(f.Pos()), "no store to sampleInterval.endNr")
		return
	}
	isCount := func(v ssa.Value) bool {
		v = stripConv(v)
		if isDirectFieldLoad(v, "StszBox.SampleNumber") {
			return true
		}
		if call, ok := v.(*ssa.Call); ok && strings.HasSuffix(calleeName(call.Common()), "StszBox.GetNrSamples") {
			return true
		}
		return false
	}
	for _, st := range sts {
		var leaves []ssa.Value
		var visit func(v ssa.Value, d int)
		seen := map[ssa.Value]bool{}
		visit = func(v ssa.Value, d int) {
			if d > 6 || seen[v] {
				return
			}
			seen[v] = true
			if phi, ok := v.(*ssa.Phi); ok {
				for _, e := range phi.Edges {
					visit(e, d+1)
				}
				return
			}
			leaves = append(leaves, v)
		}
		visit(st.Val, 0)
		ok := false
		bad := ""
		for _, l := range leaves {
			if isCount(l) {
				ok = true
			}
			if bo, isBo := stripConv(l).(*ssa.BinOp); isBo && (isCount(bo.X) || isCount(bo.Y)) {
				bad = "the end of the last interval is the sample count " + bo.Op.String() + " " + valText(c, bo.Y) + ", not the count: with inclusive interval ends the last sample of every track is dropped"
			}
		}
		switch {
		case bad != "":
			r.Bad("O-LAST", key, c.Pos(st.Pos()), bad)
		case ok:
			r.OK("O-LAST", key, c.Pos(st.Pos()), "the last interval ends at the track's sample count (inclusive end)")
		default:
			r.Bad("O-LAST", key, c.Pos(st.Pos()), "no interval end is the track's sample count: the tail of the track is not covered")
		}
	}
}

// guardArithmetic: given that the index (or slice bound) into X is guarded by a comparison with the length,
// check the constants: from the dominating rejecting tests `A op B` that mention the length, derive facts
// A-B <= 0; the use needs idx - len + 1 <= 0 (index) or bound - len <= 0 (slicing). When the difference between
// what is needed and what a fact gives is a constant, it must be <= 0. Returns a non-empty reason when a guard
// is provably too weak (its constant leaves room beyond the end); "" when fine or not decidable this way.
func (ts *taintState) guardArithmetic(f *ssa.Function, use ssa.Instruction, idx, X ssa.Value, slicing bool) string {
	b := use.Block()
	var lenLeaf ssa.Value
	var reps []ssa.Value
	isLenV := func(v ssa.Value) bool {
		v = stripConv(v)
		return isLenOf(v, X) || isLenField(ts.c, v, X)
	}
	canon := func(v ssa.Value) ssa.Value {
		if isLenV(v) {
			if lenLeaf == nil {
				lenLeaf = v
			}
			return lenLeaf
		}
		for _, q := range reps {
			if sameSSA(q, v) {
				return q
			}
		}
		reps = append(reps, v)
		return v
	}
	target := linOf(idx, canon, 0)
	// collect facts first so that lenLeaf is known
	type fact struct {
		lf  linForm
		pos token.Pos
		blk *ssa.BasicBlock
	}
	var facts []fact
	for d := b; d != nil; d = d.Idom() {
		id := d.Idom()
		if id == nil || len(id.Instrs) == 0 {
			continue
		}
		ifi, ok := id.Instrs[len(id.Instrs)-1].(*ssa.If)
		if !ok {
			continue
		}
		bo, ok := ifi.Cond.(*ssa.BinOp)
		if !ok {
			continue
		}
		// which arm continues to d?
		truth := false
		switch {
		case id.Succs[0] == d && len(d.Preds) == 1:
			truth = true
		case id.Succs[1] == d && len(d.Preds) == 1:
			truth = false
		case blockLeaves(id.Succs[0]):
			truth = false
		case blockLeaves(id.Succs[1]):
			truth = true
		default:
			continue
		}
		op := bo.Op
		if !truth {
			op = map[token.Token]token.Token{token.LSS: token.GEQ, token.GEQ: token.LSS, token.GTR: token.LEQ, token.LEQ: token.GTR}[op]
		}
		A, B := linOf(bo.X, canon, 0), linOf(bo.Y, canon, 0)
		var lf linForm
		switch op {
		case token.LEQ: // A <= B
			lf = A.add(B, -1)
		case token.LSS: // A < B  => A - B + 1 <= 0
			lf = A.add(B, -1)
			lf.k++
		case token.GEQ: // A >= B => B - A <= 0
			lf = B.add(A, -1)
		case token.GTR:
			lf = B.add(A, -1)
			lf.k++
		default:
			continue
		}
		facts = append(facts, fact{lf, bo.Pos(), id})
	}
	if lenLeaf == nil {
		return ""
	}
	need := target.add(linForm{cs: map[ssa.Value]int64{lenLeaf: 1}}, -1)
	if !slicing {
		need.k++
	}
	if _, has := need.cs[lenLeaf]; !has {
		return ""
	}
	best := ""
	for _, fc := range facts {
		if _, has := fc.lf.cs[lenLeaf]; !has {
			continue
		}
		if fc.lf.cs[lenLeaf] != need.cs[lenLeaf] {
			continue
		}
		diff := need.add(fc.lf, -1)
		if len(diff.cs) != 0 {
			continue
		}
		// field leaves must not be stored to between the test and the use
		stale := false
		for v := range need.cs {
			if ld, ok := v.(*ssa.UnOp); ok && ld.Op == token.MUL {
				if storedBetween(f, ld.X, fc.blk, use) {
					stale = true
				}
			}
		}
		if stale {
			continue
		}
		if diff.k <= 0 {
			return "" // this test is sufficient
		}
		best = fmt.Sprintf("the test at %s leaves room for an index %d beyond the end (its constant is too small by %d)", ts.c.Pos(fc.pos), diff.k-1, diff.k)
	}
	return best
}

// storedBetween: a store to addr in a block dominated by `from` that dominates the use (or in the use block before it).
func storedBetween(f *ssa.Function, addr ssa.Value, from *ssa.BasicBlock, use ssa.Instruction) bool {
	for _, bb := range f.Blocks {
		for _, ins := range bb.Instrs {
			st, ok := ins.(*ssa.Store)
			if !ok || !sameAddr(st.Addr, addr) {
				continue
			}
			if !from.Dominates(bb) {
				continue
			}
			if bb == use.Block() {
				if instrBefore(st, use) {
					return true
				}
				continue
			}
			if bb.Dominates(use.Block()) || reaches(bb, use.Block()) {
				return true
			}
		}
	}
	return false
}

// okResultLowerBound: call is a static call of a repository function returning (integer, error); b is dominated by a
// test of that call's error result against nil whose other arm rejects. Returns the smallest constant the function
// returns together with a nil error.
func okResultLowerBound(call *ssa.Call, b *ssa.BasicBlock) (int64, bool) {
	h := call.Call.StaticCallee()
	if h == nil || len(h.Blocks) == 0 || h.Signature.Results().Len() != 2 || h.Signature.Results().At(1).Type().String() != "error" {
		return 0, false
	}
	// the error of this very call is tested on the way to b
	tested := false
	if call.Referrers() != nil {
		for _, ref := range *call.Referrers() {
			ex, ok := ref.(*ssa.Extract)
			if !ok || ex.Index != 1 || ex.Referrers() == nil {
				continue
			}
			for _, r2 := range *ex.Referrers() {
				bo, ok := r2.(*ssa.BinOp)
				if !ok || (bo.Op != token.NEQ && bo.Op != token.EQL) || bo.Referrers() == nil {
					continue
				}
				for _, r3 := range *bo.Referrers() {
					ifi, ok := r3.(*ssa.If)
					if !ok {
						continue
					}
					// the arm taken when err != nil rejects, and the other arm dominates b
					bad, good := ifi.Block().Succs[0], ifi.Block().Succs[1]
					if bo.Op == token.EQL {
						bad, good = good, bad
					}
					if blockRejects(bad) && (good == b || good.Dominates(b)) {
						tested = true
					}
				}
			}
		}
	}
	if !tested {
		return 0, false
	}
	best, have := int64(0), false
	for _, hb := range h.Blocks {
		if len(hb.Instrs) == 0 {
			continue
		}
		ret, ok := hb.Instrs[len(hb.Instrs)-1].(*ssa.Return)
		if !ok || len(ret.Results) != 2 {
			continue
		}
		if ec, isC := ret.Results[1].(*ssa.Const); !isC || !ec.IsNil() {
			continue // returned with an error (or an error we cannot see to be nil: be conservative below)
		}
		cs, ok := constSet(ret.Results[0], 0)
		if !ok {
			return 0, false
		}
		lo, _ := minMax(cs)
		if !have || lo < best {
			best, have = lo, true
		}
	}
	// a return with a non-constant error may also be nil: then nothing is known
	for _, hb := range h.Blocks {
		if len(hb.Instrs) == 0 {
			continue
		}
		if ret, ok := hb.Instrs[len(hb.Instrs)-1].(*ssa.Return); ok && len(ret.Results) == 2 {
			if _, isC := ret.Results[1].(*ssa.Const); !isC {
				if _, isMk := ret.Results[1].(*ssa.MakeInterface); !isMk {
					ok := false
					if ec, isCall := ret.Results[1].(*ssa.Call); isCall {
						n := calleeName(ec.Common())
						ok = strings.HasSuffix(n, "fmt.Errorf") || strings.HasSuffix(n, "errors.New")
					}
					if !ok {
						return 0, false
					}
				}
			}
		}
	}
	return best, have
}

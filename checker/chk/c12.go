package chk

import (
	"fmt"
	"go/types"
	"strings"

	"golang.org/x/tools/go/ssa"
)

func init() {
	Registry["C12"] = checkC12
	Registry["C15"] = checkC15
	Registry["C19"] = checkC19
}

// C12 — fragments are grouped into segments faithfully and indexes tile the media (narrow clauses).
func checkC12(c *Ctx, r *Report) {
	r.Explanation = "Narrow clauses: (S-MEMBER) Size, Encode and EncodeSW of File and MediaSegment visit the same members in the same order under the same guards (styp, every sidx, fragments, mfra); " +
		"(O-POS) start positions in DecodeFile/DecodeFileSR follow the input position, and no box decoder stores a value computed from the re-calculated Size() of the box it is building (the sidx anchor point, which segment detection compares moof positions with, comes from the header read); (O-DELIM) in File.AddChild every box that can begin a fragment (emsg, moof) calls startSegmentIfNeeded under the type switch only; (T-ORDER) when deciding whether a moof starts a new segment, the start-on-moof option is consulted only after the delimiters present in the file (styp handled by the caller, top-level sidx, tfra); " +
		"(DEP) each sidx reference's size depends on MediaSegment.Size() of that segment and its duration on the summed Sample.Dur of the reference track, the earliest presentation time on tfdt; " +
		"(E9) Sidx/Sidxs of File and MediaSegment are updated together; (W-FIRSTTREX) MvexBox.Trex, the first trex box, is read only by a frozen list of single-track functions; everything else looks the trex up by track id; (O-PRE) durations are summed after tfhd/trex defaults are applied, and the add-sidx tool removes boxes before the index sizes are computed. Does not decide the partition for a given delimiter mix or anchor-point arithmetic."
	wireAssumptions(r)
	ruleDelimitersConsulted(c, r)
	ruleEveryCycleAppends(c, r, "mp4", "fillSidx", "SidxBox.SidxRefs", "a segment that Encode writes gets no reference, and the following references no longer tile the media")
	ruleStartPosFromInput(c, r)
	ruleDecoderNoSizeStore(c, r)
	m := compositeVerdicts(c)
	for _, t := range []string{"File", "MediaSegment", "Fragment"} {
		reportMember(r, "S-MEMBER-size", t, m[t], m[t].se, "Size() and EncodeSW of the composite visit different members")
		reportMember(r, "S-MEMBER-enc", t, m[t], m[t].ee, "Encode and EncodeSW of the composite disagree")
	}
	// T-ORDER: the branch that consults the start-on-moof option is reached only through the "absent" arms of
	// the tests on the index delimiters (top-level sidx, tfra)
	if f := c.ssaFunc(r, "T-ORDER", "mp4", "File.startSegmentIfNeeded"); f != nil {
		key := "mp4.File.startSegmentIfNeeded:delimiter-order"
		var flagBlocks []*ssa.BasicBlock
		for _, b := range f.Blocks {
			if len(b.Instrs) == 0 {
				continue
			}
			if ifi, ok := b.Instrs[len(b.Instrs)-1].(*ssa.If); ok {
				if sliceHas(backSlice(c, ifi.Cond, 0), "field", "File.fileDecFlags") {
					flagBlocks = append(flagBlocks, b)
				}
			}
		}
		if len(flagBlocks) == 0 {
			r.Undecided("T-ORDER", key, c.Pos(f.Pos()), "no branch on the decode flags (DecStartOnMoof) found")
		}
		for _, fb := range flagBlocks {
			var sidxSeen, tfraSeen bool
			conds := controlConds(fb)
			// the flag test itself may sit directly in the arm block
			for _, cond := range conds {
				sl := backSlice(c, cond, 0)
				if sliceHas(sl, "field", "File.Sidx") || sliceHas(sl, "field", "File.Sidxs") {
					sidxSeen = true
				}
				if sliceHas(sl, "field", "File.tfra") {
					tfraSeen = true
				}
			}
			pos := c.Pos(fb.Instrs[len(fb.Instrs)-1].Pos())
			if sidxSeen && tfraSeen {
				r.OK("T-ORDER", key, pos, "the start-on-moof option is consulted only after the sidx and tfra delimiters were found absent")
			} else {
				r.Bad("T-ORDER", key, pos, "the start-on-moof option is tested before the sidx / tfra delimiters: with the option set, segments described by an index are split at every moof")
			}
		}
	}
	// DEP
	if f := c.ssaFunc(r, "DEP", "mp4", "findSegmentData"); f != nil {
		for _, fd := range []struct{ field, dep string }{{"size", "call:MediaSegment.Size"}, {"dur", "field:Sample.Dur"}, {"baseDecodeTime", "call:TfdtBox.BaseMediaDecodeTime"}, {"startPos", "field:MediaSegment.StartPos"}} {
			sts := storesTo(f, "segData."+fd.field)
			if len(sts) == 0 {
				r.Bad("DEP", "mp4.findSegmentData:"+fd.field, c.Pos(f.Pos()), "segment data field "+fd.field+" is never set")
			}
			for _, st := range sts {
				requireDeps(c, r, "DEP", "mp4.findSegmentData:"+fd.field, c.Pos(st.Pos()), st.Val, []string{fd.dep}, nil, "segment "+fd.field)
			}
		}
	}
	if f := c.ssaFunc(r, "DEP", "mp4", "fillSidx"); f != nil {
		for _, fd := range []struct{ field, dep string }{{"ReferencedSize", "field:segData.size"}, {"SubSegmentDuration", "field:segData.dur"}} {
			sts := storesTo(f, "SidxRef."+fd.field)
			if len(sts) == 0 {
				r.Bad("DEP", "mp4.fillSidx:"+fd.field, c.Pos(f.Pos()), "sidx reference field "+fd.field+" is never set")
			}
			for _, st := range sts {
				requireDeps(c, r, "DEP", "mp4.fillSidx:"+fd.field, c.Pos(st.Pos()), st.Val, []string{fd.dep}, nil, "sidx reference "+fd.field)
			}
		}
	}
	ruleCoherence(c, r, map[string]bool{"File": true, "MediaSegment": true})
	ruleAddSidxOrder(c, r)
	ruleDefaultsBeforeDur(c, r)
	ruleTrexFallback(c, r)
	ruleFirstTrex(c, r, "W-FIRSTTREX")
}

// C15 — parameter sets and slice headers (id-domain typing clause only).
func checkC15(c *Ctx, r *Report) {
	r.Explanation = "T-MMCO: in avc.ParseSliceHeader each memory_management_control_operation 1..6 is followed by exactly the number of Exp-Golomb operands of ITU-T H.264 7.3.3.3 (1,1,2,1,0,1) on the path selected by its value; L-EARLYLOAD: in a parser that fills a structure it creates, a field with a single store from the stream is not loaded (outside loops) before that store with the loaded value used afterwards; L-RAWFIELD: a field that the function reduces with a constant modulus and compares in the reduced form (AVC slice_type % 5) is not also compared raw with a constant; O-SIZELAST: where a parser stores the reader's byte count as the size of its result (SliceHeader.Size, SPS.NrBytesRead) no read from that reader is reachable afterwards; DEP: CreateAVCDecConfRec sets profile, compatibility and level from the SPS on every path to the successful return; T-VERBATIM: avc.CodecString formats SPS.Profile, SPS.ProfileCompatibility and SPS.Level as loaded (conversions only, no arithmetic); One structural clause (id-domain typing): every lookup in / insertion into a map of sequence parameter sets is keyed by a value from the SPS-id domain " +
		"(SPS.ParameterID, SPS.SpsID, PPS.SeqParameterSetID) and never by one from the PPS-id domain (PPS.PicParameterSetID, SliceHeader.PicParamID / PicParameterSetId); maps of picture parameter sets the other way round. " +
		"(L-SIGNEDMOD) where a signed sum that includes a signed Exp-Golomb delta is reduced modulo a constant M (the scaling-list recurrence), the dividend carries a constant bias of at least M; So the slice resolves its PPS by the slice's pps id and the SPS by THAT PPS's sps id. (L-SIBLING) no parser loop fills one of two twin lists (…L0/…L1, …S0/…S1) while deciding with the other list only; (T-SPEC) the sample-aspect-ratio table of avc.GetSARfromIDC equals H.264 Table E-1; (FWD-FIELD) no field-to-field copy between two struct types takes the value of a sibling field when both types have both names (e.g. chroma bit depth filled from luma bit depth). Parsed field values, the cropping formula, slice header length and codec strings are NOT decided."
	spsDom := map[string]bool{"SPS.ParameterID": true, "SPS.SpsID": true, "PPS.SeqParameterSetID": true}
	ppsDom := map[string]bool{"PPS.PicParameterSetID": true, "SliceHeader.PicParamID": true, "SliceHeader.PicParameterSetId": true}
	n := 0
	for _, f := range c.RepoFuncs(nil) {
		name := SSAFuncName(f)
		seen := map[string]int{}
		for _, b := range f.Blocks {
			for _, ins := range b.Instrs {
				var mp, key ssa.Value
				kind := ""
				switch x := ins.(type) {
				case *ssa.Lookup:
					mp, key, kind = x.X, x.Index, "lookup"
				case *ssa.MapUpdate:
					mp, key, kind = x.Map, x.Key, "insert"
				}
				if mp == nil {
					continue
				}
				mt, ok := mp.Type().Underlying().(*types.Map)
				if !ok {
					continue
				}
				el := typeName(mt.Elem())
				if el != "SPS" && el != "PPS" {
					continue
				}
				if pt, ok := mt.Elem().(*types.Pointer); !ok || !strings.Contains(pt.Elem().String(), ModPath) {
					continue
				}
				n++
				seen[el+kind]++
				k := name + ":" + el + "-map-" + kind
				if seen[el+kind] > 1 {
					k += "#" + string(rune('0'+seen[el+kind]))
				}
				sl := immediateFields(key)
				// a key that is read back from a field written in this function carries what was written there
				for d := range sl {
					if d.kind != "field" || spsDom[d.name] || ppsDom[d.name] {
						continue
					}
					for _, st := range storesTo(f, d.name) {
						for k2 := range immediateFields(st.Val) {
							sl[k2] = true
						}
					}
				}
				var own, other []string
				for d := range sl {
					inS, inP := spsDom[d.name], ppsDom[d.name]
					if el == "SPS" && inS || el == "PPS" && inP {
						own = append(own, d.name)
					}
					if el == "SPS" && inP || el == "PPS" && inS {
						other = append(other, d.name)
					}
				}
				switch {
				case len(other) > 0:
					r.Bad("IDDOM", k, c.Pos(ins.Pos()), "a map of "+el+" is keyed by "+strings.Join(other, ", ")+", an id of the other parameter-set kind: the wrong parameter set is resolved whenever pps id != sps id")
				case len(own) > 0:
					r.OK("IDDOM", k, c.Pos(ins.Pos()), "keyed by "+strings.Join(own, ", "))
				default:
					r.OK("IDDOM-untyped", k, c.Pos(ins.Pos()), "key does not come from an id field (parameter or iteration variable)")
				}
			}
		}
	}
	r.Floor("IDDOM", 9)
	ruleSpecTable(c, r, "avc", "GetSARfromIDC", "aspectRatioTable", [][]int64{{1, 1}, {12, 11}, {10, 11}, {16, 11}, {40, 33}, {24, 11}, {20, 11}, {32, 11}, {80, 33}, {18, 11}, {15, 11}, {64, 33}, {160, 99}, {4, 3}, {3, 2}, {2, 1}}, "ITU-T H.264 Table E-1 (aspect_ratio_idc 1..16)")
	if n := ruleSiblingSlices(c, r, func(f *ssa.Function) bool {
		n := SSAFuncName(f)
		return strings.HasPrefix(n, "avc.") || strings.HasPrefix(n, "hevc.")
	}); n < 10 {
		r.Undecided("L-SIBLING", "scope", "", "too few single-list loops found")
	} else {
		r.OK("L-SIBLING", "scope", "", fmt.Sprintf("%d loops that fill the elements of one slice field in avc and hevc: none decides with the twin list only", n))
	}
	requireFixture(r, "L-SIBLING", "siblingLoop", func(fc *Ctx, s *Report) { ruleSiblingSlices(fc, s, nil) })
	// copy-paste detector on parameter-set -> configuration-record / descriptor field copies
	pairs := ruleCrossWired(c, r, "FWD-FIELD", func(f *ssa.Function) bool {
		n := SSAFuncName(f)
		return strings.HasPrefix(n, "avc.") || strings.HasPrefix(n, "hevc.") || strings.HasPrefix(n, "mp4.")
	})
	if pairs < 20 {
		r.Undecided("FWD-FIELD", "scope", "", fmt.Sprintf("only %d field-to-field copies between different struct types found", pairs))
	} else {
		r.OK("FWD-FIELD", "scope", "", fmt.Sprintf("%d field-to-field copies between different struct types in avc, hevc, mp4: none takes a same-named sibling's value", pairs))
	}
	// only active when the table is a package-level variable (it is a local literal today; G4/G8 cover that form)
	ruleTableReach(c, r, map[string]bool{"avc.aspectRatioTable": true})
	requireFixture(r, "T-REACH", "tightLookup", func(fc *Ctx, s *Report) { ruleTableReach(fc, s, map[string]bool{"mp4.AC3SampleRates": true}) })
	ruleCodecStringVerbatim(c, r)
	ruleConfRecProfileAlways(c, r)
	if n := ruleLoadBeforeStore(c, r, func(f *ssa.Function) bool {
		return strings.HasPrefix(SSAFuncName(f), "avc.") || strings.HasPrefix(SSAFuncName(f), "hevc.")
	}); n < 80 {
		r.Undecided("L-EARLYLOAD", "scope", "", fmt.Sprintf("only %d fields stored once and loaded in their creating parser found", n))
	}
	requireFixture(r, "L-EARLYLOAD", "parseEarlyWrong", func(fc *Ctx, s *Report) { ruleLoadBeforeStore(fc, s, nil) })
	if n := ruleMMCOOperands(c, r, "avc.ParseSliceHeader"); n != 1 {
		r.Undecided("T-MMCO", "scope", "", fmt.Sprintf("%d reads of memory_management_control_operation found in avc.ParseSliceHeader, 1 expected (an Exp-Golomb value compared with at least four constants including 0)", n))
	}
	requireFixture(r, "T-MMCO", "parseMarkingWrong:mmco=3", func(fc *Ctx, s *Report) {
		for _, f := range fc.RepoFuncs(nil) {
			if strings.HasSuffix(SSAFuncName(f), "parseMarkingWrong") {
				ruleMMCOOperands(fc, s, SSAFuncName(f))
			}
		}
	})
	if n := ruleReducedNotRaw(c, r, func(f *ssa.Function) bool {
		return strings.HasPrefix(SSAFuncName(f), "avc.") || strings.HasPrefix(SSAFuncName(f), "hevc.")
	}); n < 1 {
		r.Undecided("L-RAWFIELD", "scope", "", "no field reduced with a constant modulus and compared found (avc slice_type expected)")
	}
	requireFixture(r, "L-RAWFIELD", "parseRawWrong", func(fc *Ctx, s *Report) { ruleReducedNotRaw(fc, s, nil) })
	if n := ruleSizeAfterLastRead(c, r, func(f *ssa.Function) bool {
		return strings.HasPrefix(SSAFuncName(f), "avc.") || strings.HasPrefix(SSAFuncName(f), "hevc.")
	}); n < 3 {
		r.Undecided("O-SIZELAST", "scope", "", fmt.Sprintf("only %d stores of the reader's byte count into a result found (SliceHeader.Size in avc and hevc, SPS.NrBytesRead expected)", n))
	}
	if n := ruleSignedMod(c, r, func(f *ssa.Function) bool {
		return strings.HasPrefix(SSAFuncName(f), "avc.") || strings.HasPrefix(SSAFuncName(f), "hevc.")
	}); n < 1 {
		r.Undecided("L-SIGNEDMOD", "scope", "", "the scaling-list recurrence (signed sum reduced modulo 256) was not found in avc/hevc")
	}
}

// C19 — init segments built through the API are consistent (narrow clauses).
func checkC19(c *Ctx, r *Report) {
	r.Explanation = "L-RAWDEFAULT: where a descriptor setter gives a parameter a default when empty (wvtt config, stpp namespace), the raw parameter is not also stored or handed to a constructor; Narrow clauses: in InitSegment.AddEmptyTrack the track id passed to CreateEmptyTrak and to CreateTrex is the same definition and depends on the number of existing tracks; " +
		"mvhd.NextTrackID is stored on every path (unconditionally) from that id; the trak and the trex are both attached on every path; " +
		"MdhdBox.SetLanguage overwrites (does not combine with the old value); the SetAACDescriptor arm that sets parametric stereo also sets SBR and the extension frequency; (FWD-SWAP) nowhere in the repository are two same-typed parameters passed crosswise to a callee whose parameters have the same two names; (FWD) when a function of the init-segment API forwards to a callee that has a parameter of the same name and type as one of its own parameters, the argument in that position depends on that parameter (no swapped / substituted flags); " +
		"(L-COPYMUT) the descriptor setters (and the rest of mp4/avc/hevc) do not call a mutating pointer-receiver method on a local copy of a field (rec := box.Rec; rec.Add(…)): the parameter sets handed to SetHEVCDescriptor must reach the box; (L-APPENDALIAS) MoovBox.AddChild and every other function of package mp4 that appends to a truncated slice x[:k] reads no tail x[j:] of the old slice afterwards (a trak inserted after the last trak must not overwrite the box that followed it); (T-REACH) every guarded lookup into the AC-3 specification tables (sample rates, bit rates, channel modes: used by SetAC3Descriptor/SetEC3Descriptor and the dac3/dec3 boxes) admits every index below the table length: no dominating test is tighter than index < len(table); (O-ERR) errors from the descriptor builders are looked at on every path. Does not decide encode/decode equality of the built tree or golden-file equality."
	ruleSetterOverwrites(c, r)
	ruleConfRecProfileAlways(c, r)
	if n := ruleRawBeforeDefault(c, r, func(f *ssa.Function) bool { return strings.HasPrefix(SSAFuncName(f), "mp4.") }); n < 2 {
		r.Undecided("L-RAWDEFAULT", "scope", "", "defaulted parameters (SetWvttDescriptor config, SetStppDescriptor namespace) not found")
	}
	requireFixture(r, "L-RAWDEFAULT", "describeWrong", func(fc *Ctx, s *Report) { ruleRawBeforeDefault(fc, s, nil) })
	ruleCopyMutated(c, r, func(f *ssa.Function) bool {
		return strings.HasPrefix(SSAFuncName(f), "mp4.") || strings.HasPrefix(SSAFuncName(f), "hevc.") || strings.HasPrefix(SSAFuncName(f), "avc.")
	})
	r.OK("L-COPYMUT", "scope", "", "no pointer-receiver method that stores through its receiver is called on a local copy of a field or element that is not looked at afterwards (expected count zero; fixture-backed)")
	requireFixture(r, "L-COPYMUT", "copyMutated", func(fc *Ctx, s *Report) { ruleCopyMutated(fc, s, nil) })
	if n := ruleAppendAlias(c, r, func(f *ssa.Function) bool { return strings.HasPrefix(SSAFuncName(f), "mp4.") }); n < 5 {
		r.Undecided("L-APPENDALIAS", "scope", "", fmt.Sprintf("only %d appends to a truncated slice found in package mp4", n))
	}
	requireFixture(r, "L-APPENDALIAS", "insertBroken1", func(fc *Ctx, s *Report) { ruleAppendAlias(fc, s, nil) })
	if n := ruleTableReach(c, r, map[string]bool{"mp4.AC3SampleRates": true, "mp4.AC3BitrateCodesKbps": true, "mp4.AC3acmodChannelTable": true}); n < 6 {
		r.Undecided("T-REACH", "scope", "", fmt.Sprintf("only %d lookups into the AC-3 tables found", n))
	}
	requireFixture(r, "T-REACH", "tightLookup", func(fc *Ctx, s *Report) { ruleTableReach(fc, s, map[string]bool{"mp4.AC3SampleRates": true}) })
	if n := ruleSwappedArgs(c, r, "FWD-SWAP", nil); n < 100 {
		r.Undecided("FWD-SWAP", "scope", "", fmt.Sprintf("only %d same-typed parameter pairs forwarded", n))
	} else {
		r.OK("FWD-SWAP", "scope", "", fmt.Sprintf("%d pairs of same-typed, same-named parameters forwarded to callees in the repository: none crosswise", n))
	}
	requireFixture(r, "FWD-SWAP", "swappedForward", func(fc *Ctx, s *Report) { ruleSwappedArgs(fc, s, "FWD-SWAP", nil) })
	ruleAscArms(c, r)
	if f := c.ssaFunc(r, "DEP", "mp4", "InitSegment.AddEmptyTrack"); f != nil {
		trak := callsIn(f, "mp4.CreateEmptyTrak", false)
		trex := callsIn(f, "mp4.CreateTrex", false)
		key := "mp4.InitSegment.AddEmptyTrack"
		if len(trak) != 1 || len(trex) != 1 {
			r.Bad("DEP", key+":calls", c.Pos(f.Pos()), "expected exactly one CreateEmptyTrak and one CreateTrex")
		} else {
			a, b := trak[0].Common().Args[0], trex[0].Common().Args[0]
			if a != b {
				r.Bad("DEP", key+":same-id", c.Pos(trex[0].Pos()), "the track id given to the trex is not the same value as the track id given to the trak")
			} else {
				r.OK("DEP", key+":same-id", c.Pos(trex[0].Pos()), "trak and trex receive the same track id value")
			}
			requireDeps(c, r, "DEP", key+":id-from-count", c.Pos(trak[0].Pos()), a, []string{"field:MoovBox.Traks"}, nil, "new track id")
			// attach on every path
			for _, att := range []struct{ what, callee string }{{"trak", "MoovBox.AddChild"}, {"trex", "MvexBox.AddChild"}} {
				calls := callsIn(f, att.callee, false)
				ok := false
				for _, call := range calls {
					all := true
					for _, ret := range successReturns(f) {
						if !instrDominates(call, ret) {
							all = false
						}
					}
					if all {
						ok = true
					}
				}
				if ok {
					r.OK("DEP", key+":attach-"+att.what, c.Pos(f.Pos()), "attached on every path")
				} else {
					r.Bad("DEP", key+":attach-"+att.what, c.Pos(f.Pos()), "the new "+att.what+" is not attached on every path")
				}
			}
			sts := storesTo(f, "MvhdBox.NextTrackID")
			switch {
			case len(sts) == 0:
				r.Bad("DEP", key+":next-track-id", c.Pos(f.Pos()), "mvhd.NextTrackID is not updated")
			default:
				okAll := false
				for _, st := range sts {
					dom := true
					for _, ret := range successReturns(f) {
						if !instrDominates(st, ret) {
							dom = false
						}
					}
					sl := backSlice(c, st.Val, 1)
					if dom && sliceHas(sl, "field", "MoovBox.Traks") {
						okAll = true
					}
				}
				if okAll {
					r.OK("DEP", key+":next-track-id", c.Pos(sts[0].Pos()), "stored unconditionally from the new track id")
				} else {
					r.Bad("DEP", key+":next-track-id", c.Pos(sts[0].Pos()), "mvhd.NextTrackID is not stored on every path from the new track id: it can stay at or below an assigned track id")
				}
			}
		}
	}
	inInitAPI := func(f *ssa.Function) bool {
		if f.Pkg == nil || !strings.HasSuffix(f.Pkg.Pkg.Path(), "/mp4") {
			return false
		}
		pos := c.Fset.Position(f.Pos())
		return strings.HasSuffix(pos.Filename, "mp4/initsegment.go")
	}
	ruleForwarding(c, r, inInitAPI)
	ruleOERR(c, r, "O-ERR", inInitAPI)
	r.Floor("FWD", 5)
}

// ruleForwarding — same-named, same-typed parameters are forwarded to each other.
func ruleForwarding(c *Ctx, r *Report, scope func(*ssa.Function) bool) {
	for _, f := range c.RepoFuncs(nil) {
		if !scope(f) {
			continue
		}
		own := map[string]*ssa.Parameter{}
		for _, p := range f.Params {
			own[p.Name()] = p
		}
		seen := map[string]int{}
		for _, b := range f.Blocks {
			for _, ins := range b.Instrs {
				call, ok := ins.(*ssa.Call)
				if !ok {
					continue
				}
				cal := call.Call.StaticCallee()
				if cal == nil || !inRepo(cal) || len(cal.Params) != len(call.Call.Args) {
					continue
				}
				for i, q := range cal.Params {
					p, ok := own[q.Name()]
					if !ok || !types.Identical(p.Type(), q.Type()) || q.Name() == "" || q.Name() == "_" {
						continue
					}
					// receivers are not forwarded parameters
					if i == 0 && cal.Signature.Recv() != nil {
						continue
					}
					name := SSAFuncName(f) + "→" + SSAFuncName(cal) + ":" + q.Name()
					seen[name]++
					if seen[name] > 1 {
						name += "#" + string(rune('0'+seen[name]))
					}
					sl := backSlice(c, call.Call.Args[i], 0)
					if sliceHas(sl, "param", q.Name()) {
						r.OK("FWD", name, c.Pos(call.Pos()), "parameter "+q.Name()+" is forwarded to the callee's parameter of the same name")
					} else {
						r.Bad("FWD", name, c.Pos(call.Pos()), "the callee's parameter "+q.Name()+" receives a value that does not depend on this function's own parameter "+q.Name()+" (same name, same type): arguments are swapped or substituted")
					}
				}
			}
		}
	}
}

// immediateFields: the struct fields whose loaded values make up v, without following the pointer the
// field is loaded through (the id of the object that holds the id is a different id).
func immediateFields(v ssa.Value) map[depNode]bool {
	out := map[depNode]bool{}
	seen := map[ssa.Value]bool{}
	var walk func(v ssa.Value, d int)
	walk = func(v ssa.Value, d int) {
		if v == nil || seen[v] || d > 12 {
			return
		}
		seen[v] = true
		switch x := v.(type) {
		case *ssa.UnOp:
			switch a := x.X.(type) {
			case *ssa.FieldAddr:
				if fv := fieldVar(a.X.Type(), a.Field); fv != nil {
					out[depNode{"field", typeName(a.X.Type()) + "." + fv.Name()}] = true
				}
			case *ssa.Alloc:
				for _, ref := range *a.Referrers() {
					if st, ok := ref.(*ssa.Store); ok && st.Addr == ssa.Value(a) {
						walk(st.Val, d+1)
					}
				}
			default:
				walk(x.X, d+1)
			}
		case *ssa.Field:
			if fv := fieldVar(x.X.Type(), x.Field); fv != nil {
				out[depNode{"field", typeName(x.X.Type()) + "." + fv.Name()}] = true
			}
		case *ssa.Convert:
			walk(x.X, d+1)
		case *ssa.ChangeType:
			walk(x.X, d+1)
		case *ssa.BinOp:
			walk(x.X, d+1)
			walk(x.Y, d+1)
		case *ssa.Phi:
			for _, e := range x.Edges {
				walk(e, d+1)
			}
		}
	}
	walk(v, 0)
	return out
}

package chk

import (
	"fmt"
	"sort"
	"strings"

	"golang.org/x/tools/go/ssa"
)

func init() {
	Registry["C17"] = checkC17
	Registry["C18"] = checkC18
}

// ruleRestore — a look-ahead that reads from a stateful reader restores every field the read modifies.
func ruleRestore(c *Ctx, r *Report, pkg, typ, readM, lookM string) {
	rd := c.ssaFunc(r, "O-RESTORE", pkg, typ+"."+readM)
	lk := c.ssaFunc(r, "O-RESTORE", pkg, typ+"."+lookM)
	if rd == nil || lk == nil {
		return
	}
	fieldsStored := func(roots []*ssa.Function, skip map[*ssa.Function]bool) map[string]bool {
		out := map[string]bool{}
		seen := map[*ssa.Function]bool{}
		var visit func(f *ssa.Function)
		visit = func(f *ssa.Function) {
			if f == nil || seen[f] || skip[f] || !inRepo(f) {
				return
			}
			seen[f] = true
			for _, b := range f.Blocks {
				for _, ins := range b.Instrs {
					switch x := ins.(type) {
					case *ssa.Store:
						if fa, ok := x.Addr.(*ssa.FieldAddr); ok && typeName(fa.X.Type()) == typ {
							if fv := fieldVar(fa.X.Type(), fa.Field); fv != nil {
								out[fv.Name()] = true
							}
						}
						// whole-struct restore: *r = saved
						if typeName(x.Addr.Type()) == typ {
							if _, isParam := x.Addr.(*ssa.Parameter); isParam {
								out["*"] = true
							}
						}
					case *ssa.Call:
						if cal := x.Call.StaticCallee(); cal != nil {
							visit(cal)
						}
					}
				}
			}
		}
		for _, f := range roots {
			visit(f)
		}
		return out
	}
	written := fieldsStored([]*ssa.Function{rd}, nil)
	// stores of the look-ahead itself, not counting what its reads do
	readTree := map[*ssa.Function]bool{}
	var mark func(f *ssa.Function)
	mark = func(f *ssa.Function) {
		if f == nil || readTree[f] || !inRepo(f) {
			return
		}
		readTree[f] = true
		for _, b := range f.Blocks {
			for _, ins := range b.Instrs {
				if call, ok := ins.(*ssa.Call); ok {
					if cal := call.Call.StaticCallee(); cal != nil {
						mark(cal)
					}
				}
			}
		}
	}
	mark(rd)
	restored := fieldsStored([]*ssa.Function{lk}, readTree)
	var ws []string
	for w := range written {
		ws = append(ws, w)
	}
	sort.Strings(ws)
	for _, w := range ws {
		key := fmt.Sprintf("%s.%s.%s:%s", pkg, typ, lookM, w)
		if restored[w] || restored["*"] {
			r.OK("O-RESTORE", key, c.Pos(lk.Pos()), "field modified by "+readM+" is restored after the look-ahead")
		} else {
			r.Bad("O-RESTORE", key, c.Pos(lk.Pos()), fmt.Sprintf("%s.%s modifies field %s, but the look-ahead %s does not restore it: reading after the look-ahead continues from a corrupted state", typ, readM, w, lookM))
		}
	}
	r.Floor("O-RESTORE", 3)
}

// C17 — SEI messages survive write/parse round trips (structural part).
func checkC17(c *Ctx, r *Report) {
	r.Explanation = "DEP: ITUData.IsCEA608 compares all four identification fields (country, provider, identifier, type code) with constants, so other registered user data is passed through; T-PAIR: every function that compares an hevc.NaluType with NALU_SEI_PREFIX also compares it with NALU_SEI_SUFFIX (both carry SEI messages); S-BITS: for a type with NrBits() beside WriteToSliceWriter (ClockTSAvc of pic_timing) the constant number of bits NrBits counts equals the constant widths the writer writes under every assignment of the bool flags; W-BITS: for the typed SEI messages with a serialiser (time code 136, mastering display 137, content light level 144) the decoder is executed on a symbolic payload under every configuration of its flags/counts, " +
		"the message's Payload() is executed on the decoded value and compared bit by bit with what was read (plus rbsp trailing bits), and 8*Size() equals the number of bits Payload() writes; " +
		"(O-RESTORE) the look-ahead EBSPReader.MoreRbspData restores every reader field that Read modifies (bit buffer, position AND the emulation-prevention zero counter); " +
		"(R3-RET) no Decode*/Parse* function returns its own pointer parameter as the decoded message (ParseSEINalu passes the address of its loop variable); (R3) the Decode*/Parse* functions of sei, avc and hevc store only into memory they allocated (not through pointer parameters: a decoder that fills a caller-supplied structure makes successive messages alias each other); (O-EPB) the emulation-prevention writer inserts 0x03 before every byte 0..3 that follows two zero bytes; (O-EPBR) in EBSPReader.Read the zero counter is reset on the path that drops an emulation prevention byte, before it can be incremented again; (O-MORE) every cycle of the message loop of ExtractSEIData passes the MoreRbspData call (no message is started on the trailing bits); (O-FFRUN) the writer of the 0xFF-run coded type/size keeps emitting 0xFF while the remainder is >= 255; (O-SEIW) WriteSEIMessages writes, per message, Type(), Size() and then exactly the bytes of Payload(); pass-through messages return their stored payload. " +
		"Does not decide emulation prevention itself or trailing-bit detection arithmetic (C13 territory), nor the AVC pic-timing message whose layout depends on external HRD parameters."
	wireAssumptions(r)
	for _, sp := range seiCodecs {
		reportCodec(r, c, analyseCodec(c, sp))
	}
	r.Floor("W-BITS", 3)
	ruleRestore(c, r, "bits", "EBSPReader", "Read", "MoreRbspData")
	ruleFFRun(c, r)
	ruleEPB(c, r)
	ruleEPBReader(c, r)
	ruleSEIMoreData(c, r)
	ruleCEA608Identification(c, r)
	if n := ruleSEIPrefixSuffix(c, r); n < 3 {
		r.Undecided("T-PAIR", "scope", "", fmt.Sprintf("only %d functions that test for an HEVC SEI NAL unit type found", n))
	}
	if n := ruleBitCountAgree(c, r); n < 1 {
		r.Undecided("S-BITS", "scope", "", "no type with NrBits beside WriteToSliceWriter found (sei.ClockTSAvc expected)")
	}
	ruleReturnsParam(c, r, map[string]bool{"sei": true, "avc": true, "hevc": true})
	requireFixture(r, "R3-RET", "DecodeAliasing", func(fc *Ctx, s *Report) { ruleReturnsParam(fc, s, map[string]bool{"mp4": true}) })
	if n := rulePureInputs(c, r, map[string]bool{"sei": true, "avc": true, "hevc": true}); n < 35 {
		r.Undecided("R3", "scope", "", fmt.Sprintf("only %d decoders found", n))
	}
	// O-SEIW
	if f := c.ssaFunc(r, "O-SEIW", "sei", "WriteSEIMessages"); f != nil {
		ty := callsIn(f, "iface.Type", false)
		sz := callsIn(f, "iface.Size", false)
		pl := callsIn(f, "iface.Payload", false)
		wv := callsIn(f, "EBSPWriter.WriteSEIValue", false)
		key := "sei.WriteSEIMessages"
		switch {
		case len(ty) != 1 || len(sz) != 1 || len(pl) != 1 || len(wv) != 2:
			r.Bad("O-SEIW", key+":shape", c.Pos(f.Pos()), "each message must contribute WriteSEIValue(Type()), WriteSEIValue(Size()) and its Payload() bytes exactly once")
		default:
			a0, a1 := wv[0].Common().Args[1], wv[1].Common().Args[1]
			ok := sliceHas(backSlice(c, a0, 0), "call", "iface.Type") && sliceHas(backSlice(c, a1, 0), "call", "iface.Size") && instrDominates(wv[0], wv[1]) && instrDominates(wv[1], pl[0])
			// payload bytes written
			wrote := false
			for _, w := range callsIn(f, "EBSPWriter.Write", false) {
				if sliceHas(backSlice(c, w.Common().Args[1], 0), "call", "iface.Payload") {
					wrote = true
				}
			}
			if ok && wrote {
				r.OK("O-SEIW", key, c.Pos(f.Pos()), "type, size, payload bytes in this order")
			} else {
				r.Bad("O-SEIW", key, c.Pos(f.Pos()), "the message is not written as type, then size, then exactly its payload bytes")
			}
		}
	}
	// pass-through payloads
	n := 0
	for _, f := range c.RepoFuncs(IsLib) {
		name := SSAFuncName(f)
		if !strings.HasPrefix(name, "sei.") || !strings.HasSuffix(name, ".Payload") {
			continue
		}
		// pass-through = returns a field load directly
		for _, b := range f.Blocks {
			for _, ins := range b.Instrs {
				ret, ok := ins.(*ssa.Return)
				if !ok || len(ret.Results) != 1 {
					continue
				}
				sl := backSlice(c, ret.Results[0], 0)
				calls := 0
				for k := range sl {
					if k.kind == "call" {
						calls++
					}
				}
				if calls == 0 {
					n++
					if sliceHas(sl, "field", ".payload") {
						r.OK("O-PASS", name, c.Pos(f.Pos()), "returns the stored payload unchanged")
					} else {
						r.Bad("O-PASS", name, c.Pos(f.Pos()), "a pass-through message does not return its stored payload")
					}
				}
			}
		}
	}
	r.Floor("O-PASS", 3)
}

// C18 — audio configuration codecs are exact over their domain (structural part).
func checkC18(c *Ctx, r *Report) {
	r.Explanation = "L-SHORTREAD: the bit reader the ADTS and AudioSpecificConfig decoders use takes its bytes through binary.Read / io.ReadFull, never through a bare Read outside a loop (a byte delivered together with io.EOF is not lost); L-TRUNCCOPY: no slice that comes from a parameter (a decoder configuration) is copied into a fixed-size array without a test of its length; T-SPEC: aac.FrequencyTable equals the sampling-frequency-index table of ISO/IEC 14496-3; T-INV: aac.FrequencyTable and aac.ReverseFrequencies are mutual inverses (decided completely from the two literals); " +
		"W-BITS: DecodeAudioSpecificConfig is executed on a symbolic bit stream under every configuration (object types, all 16 frequency indices incl. the 24-bit escape, SBR extension), " +
		"AudioSpecificConfig.Encode is executed on the decoded value and compared bit by bit with what was read; " +
		"(W-TRUNC) in mp4 and aac no value narrowed to 8/16 bits for one destination is widened again and used in place of the original (sampling frequencies above 65535); (DEP) SetAACDescriptor builds the esds DecSpecificInfo from the encoded configuration and the sample entry from the same configuration. " +
		"(W-REJ) DecodeAudioSpecificConfig rejects only on reader errors, the object type and frequency lookups (what Encode validates or cannot produce); (W-ESC) AudioSpecificConfig.Encode can write the 24-bit explicit frequency (escape index 0xf) at as many places as DecodeAudioSpecificConfig can read one; (W-SEQ) the bit fields ADTSHeader.Encode writes after the 16 bits of sync word/ID/layer/protection are, in order, width and struct field, the fields DecodeADTSHeader reads unconditionally after its sync search (56 bits in all); the sync search loop itself (offsets, bounds) is not decided; numeric exhaustiveness over the domain belongs to another technique family."
	wireAssumptions(r)
	ruleTINV(c, r, "aac", "FrequencyTable", "ReverseFrequencies")
	ruleSpecTable(c, r, "aac", "", "FrequencyTable", [][]int64{{0, 96000}, {1, 88200}, {2, 64000}, {3, 48000}, {4, 44100}, {5, 32000}, {6, 24000}, {7, 22050}, {8, 16000}, {9, 12000}, {10, 11025}, {11, 8000}, {12, 7350}}, "ISO/IEC 14496-3 Table 1.18 (sampling frequency index)")
	for _, sp := range aacCodecs {
		reportCodec(r, c, analyseCodec(c, sp))
	}
	ruleAscArms(c, r)
	ruleADTSSequence(c, r)
	ruleEscapeSites(c, r)
	ruleASCRejections(c, r)
	ruleShortRead(c, r, func(f *ssa.Function) bool {
		return strings.HasPrefix(SSAFuncName(f), "bits.") || strings.HasPrefix(SSAFuncName(f), "aac.")
	})
	r.OK("L-SHORTREAD", "scope", "", "no direct Read on an io.Reader outside a loop in packages bits and aac (the bit reader takes its bytes through binary.Read / io.ReadFull) (expected count zero; fixture-backed)")
	requireFixture(r, "L-SHORTREAD", "shortRead", func(fc *Ctx, s *Report) { ruleShortRead(fc, s, nil) })
	ruleTruncatingCopy(c, r, func(f *ssa.Function) bool {
		return strings.HasPrefix(SSAFuncName(f), "mp4.") || strings.HasPrefix(SSAFuncName(f), "aac.")
	})
	r.OK("L-TRUNCCOPY", "scope", "", "no slice that comes from a parameter is copied into a fixed-size array without a length test in packages mp4 and aac (expected count zero; fixture-backed)")
	requireFixture(r, "L-TRUNCCOPY", "squeezeWrong", func(fc *Ctx, s *Report) { ruleTruncatingCopy(fc, s, nil) })
	ruleTruncReuse(c, r, "W-TRUNC", func(f *ssa.Function) bool {
		n := SSAFuncName(f)
		return strings.HasPrefix(n, "mp4.") || strings.HasPrefix(n, "aac.")
	})
	requireFixture(r, "W-TRUNC", "truncReuse", func(fc *Ctx, s *Report) { ruleTruncReuse(fc, s, "W-TRUNC", nil) })
	if f := c.ssaFunc(r, "DEP", "mp4", "TrakBox.SetAACDescriptor"); f != nil {
		esds := callsIn(f, "mp4.CreateEsdsBox", false)
		if len(esds) != 1 {
			r.Bad("DEP", "mp4.TrakBox.SetAACDescriptor:esds", c.Pos(f.Pos()), "expected one CreateEsdsBox call")
		} else {
			requireDeps(c, r, "DEP", "mp4.TrakBox.SetAACDescriptor:esds", c.Pos(esds[0].Pos()), esds[0].Common().Args[0], []string{"call:AudioSpecificConfig.Encode|call:iface.Bytes|call:Buffer.Bytes"}, nil, "decoder specific info of the esds")
		}
		se := callsIn(f, "mp4.CreateAudioSampleEntryBox", false)
		if len(se) != 1 {
			r.Bad("DEP", "mp4.TrakBox.SetAACDescriptor:sample-entry", c.Pos(f.Pos()), "expected one CreateAudioSampleEntryBox call")
		} else {
			var all []ssa.Value
			all = append(all, se[0].Common().Args...)
			ok := false
			for _, a := range all {
				if sliceHas(backSlice(c, a, 1), "field", "AudioSpecificConfig.SamplingFrequency") || sliceHas(backSlice(c, a, 1), "param", "samplingFrequency") {
					ok = true
				}
			}
			if ok {
				r.OK("DEP", "mp4.TrakBox.SetAACDescriptor:sample-entry", c.Pos(se[0].Pos()), "sample entry is built from the same sampling frequency")
			} else {
				r.Bad("DEP", "mp4.TrakBox.SetAACDescriptor:sample-entry", c.Pos(se[0].Pos()), "sample entry does not depend on the configuration's sampling frequency")
			}
		}
	}
}

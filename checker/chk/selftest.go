package chk

// Positive fixtures: rules whose expected number of reports on the real tree is zero are run on a small module of
// deliberately wrong code (checker/fixture) on every run; a rule that no longer reports its fixture is undecided.

import (
	"fmt"
	"strings"

	"golang.org/x/tools/go/ssa"
)

// FixtureDir is set by the driver (<verif>/checker/fixture).
var FixtureDir string

var fixtureCtx *Ctx
var fixtureErr error

func loadFixture() (*Ctx, error) {
	if fixtureCtx != nil || fixtureErr != nil {
		return fixtureCtx, fixtureErr
	}
	if FixtureDir == "" {
		fixtureErr = fmt.Errorf("fixture directory not set")
		return nil, fixtureErr
	}
	saved := minPackages
	minPackages = 1
	fixtureCtx, fixtureErr = Load(FixtureDir, "quick")
	minPackages = saved
	return fixtureCtx, fixtureErr
}

// requireFixture runs rule on the fixture module and records that it reported a violation whose key contains want.
func requireFixture(r *Report, rule, want string, run func(c *Ctx, scratch *Report)) {
	c, err := loadFixture()
	key := "fixture:" + want
	if err != nil {
		r.Undecided(rule, key, "", "positive fixture could not be loaded: "+err.Error())
		return
	}
	scratch := NewReport("fixture")
	run(c, scratch)
	for _, o := range scratch.Obls {
		if o.Rule == rule && o.Status == Violated && strings.Contains(o.Key, want) {
			r.OK(rule, key, o.Pos, "the rule reports its positive fixture (checker/fixture): "+o.Detail)
			return
		}
	}
	r.Undecided(rule, key, "", "the rule did not report its positive fixture in checker/fixture: it may match nothing")
}

func fixtureAllFuncs(c *Ctx) map[*ssa.Function]bool {
	out := map[*ssa.Function]bool{}
	for _, f := range c.RepoFuncs(nil) {
		out[f] = true
	}
	return out
}

// requireFixtureAccepted: the rule must discharge (not report) the named negative fixture: a correct variant of
// the positive one, so that the rule is shown to distinguish the two and not to reject the shape as such.
func requireFixtureAccepted(r *Report, rule, want string, run func(c *Ctx, scratch *Report)) {
	c, err := loadFixture()
	key := "fixture-accepted:" + want
	if err != nil {
		r.Undecided(rule, key, "", "fixture could not be loaded: "+err.Error())
		return
	}
	scratch := NewReport("fixture")
	run(c, scratch)
	found := false
	for _, o := range scratch.Obls {
		if o.Rule == rule && strings.Contains(o.Key, want) {
			found = true
			if o.Status != Discharged {
				r.Undecided(rule, key, o.Pos, "the rule reports its negative fixture (a correct variant): "+o.Detail)
				return
			}
		}
	}
	if !found {
		r.Undecided(rule, key, "", "the rule did not look at its negative fixture")
		return
	}
	r.OK(rule, key, "", "the rule accepts the correct variant of its positive fixture")
}

package chk

// AST abstract interpreter of the wire-layout engine (E1): executes one
// function under one configuration of discriminant values, recording the
// stream operations it performs and the abstract object it builds.

import (
	"fmt"
	"go/ast"
	"go/constant"
	"go/token"
	"go/types"
	"sort"
	"strings"

	"golang.org/x/tools/go/packages"
	"golang.org/x/tools/go/types/typeutil"
)

type irregular struct{ why string }
type need struct {
	atom   *Atom
	lo, n  int
	cands  []uint64
	reason string
}

func bail(f string, a ...interface{}) { panic(irregular{fmt.Sprintf(f, a...)}) }

type known struct {
	lo, n int
	val   uint64
}

type loopCtx struct {
	bound *Expr
	id    int
}

type frame struct {
	pkg     *packages.Package
	env     map[types.Object]Val
	parent  *frame // lexical parent (closures)
	rets    []Val
	done    bool
	brk     bool
	cont    bool
	named   []types.Object // named results
	fn      *types.Func
	loopDep int // loop depth at function entry
	varDep  map[types.Object]int
}

func (fr *frame) lookup(o types.Object) (Val, bool) {
	for f := fr; f != nil; f = f.parent {
		if v, ok := f.env[o]; ok {
			return v, true
		}
	}
	return nil, false
}
func (fr *frame) set(o types.Object, v Val) {
	for f := fr; f != nil; f = f.parent {
		if _, ok := f.env[o]; ok {
			f.env[o] = v
			return
		}
	}
	fr.env[o] = v
}

type Interp struct {
	c                  *Ctx
	cfg                map[string][]known
	atoms              map[string]*Atom
	loops              []loopCtx
	depth              int
	steps              int
	nObj               int
	doms               *domains
	callStk            []*types.Func
	assumed            []string // conditions assumed false because they guard an error exit on environment quantities
	mixes              int
	hdrObj             *Obj
	quiet              bool
	traces             []*Trace
	frames             []*frame
	panicked           bool
	nLoop              int
	envPreds           bool
	symRoot            *Obj
	inHeader           bool
	nWhile, whileDepth int
	assumedEq          map[string]*Expr // read atom -> expression it is known to equal on accepted inputs
	pendingBody        *SliceV
	pendingStream      *StreamV
}

type domains struct {
	vals map[string]map[uint64]bool
	grew bool
}

func termKey(a *Atom, lo, n int) string { return fmt.Sprintf("%s[%d:%d]", a.Name, lo, lo+n) }

func (d *domains) add(a *Atom, lo, n int, v uint64) {
	if a == nil || a.Env {
		return
	}
	v &= mask(n)
	k := termKey(a, lo, n)
	if d.vals[k] == nil {
		d.vals[k] = map[uint64]bool{}
	}
	if !d.vals[k][v] {
		d.vals[k][v] = true
		d.grew = true
	}
}

func (in *Interp) atom(name string, w int, env bool) *Expr {
	a, ok := in.atoms[name]
	if !ok {
		a = &Atom{Name: name, W: w, Env: env, Loop: len(in.loops) > 0}
		in.atoms[name] = a
	}
	// partition by configured slices
	ks := in.cfg[name]
	if len(ks) == 0 {
		return bvOfAtom(a)
	}
	sorted := append([]known(nil), ks...)
	sort.Slice(sorted, func(i, j int) bool { return sorted[i].lo < sorted[j].lo })
	var segs []Seg
	pos := 0
	for _, k := range sorted {
		if k.lo > pos {
			segs = append(segs, Seg{A: a, Lo: pos, N: k.lo - pos})
		}
		segs = append(segs, Seg{N: k.n, C: k.val & mask(k.n), Tag: a, TLo: k.lo})
		pos = k.lo + k.n
	}
	if pos < w {
		segs = append(segs, Seg{A: a, Lo: pos, N: w - pos})
	}
	return normBV(segs, w)
}

// noteConstUse records constants that configured values are compared / combined with,
// so that the enumeration domains of those terms can grow.
func (in *Interp) noteConstUse(a, b *Expr, op string) {
	if in.doms == nil {
		return
	}
	rec := func(t, o *Expr) {
		if len(t.Tags) != 1 || len(o.Tags) != 0 {
			return
		}
		tg := t.Tags[0]
		if uint64(t.I) != tg.C { // the constant was shifted/combined: position unknown
			return
		}
		switch op {
		case "cmp":
			in.doms.add(tg.Tag, tg.TLo, tg.N, uint64(o.I))
			in.doms.add(tg.Tag, tg.TLo, tg.N, uint64(o.I+1))
			if o.I > 0 {
				in.doms.add(tg.Tag, tg.TLo, tg.N, uint64(o.I-1))
			}
		case "&":
			in.doms.add(tg.Tag, tg.TLo, tg.N, tg.C|uint64(o.I))
			in.doms.add(tg.Tag, tg.TLo, tg.N, tg.C&^uint64(o.I))
		}
	}
	rec(a, b)
	rec(b, a)
}
func (in *Interp) noteMask(x *Expr, m uint64) {}

// decide returns the truth value of a condition; if it depends on enumerable atoms it
// raises a need; ok=false when it depends only on environment quantities.
func (in *Interp) decide(v Val, what string) (val bool, ok bool) {
	e, isE := v.(*Expr)
	if !isE {
		return false, false
	}
	if b, ok := e.ConstB(); ok {
		return b, true
	}
	var segs []Seg
	atomsOf(e, &segs)
	var pick *Seg
	for i := range segs {
		if segs[i].A.Env {
			return in.decideEnv(e, what)
		}
	}
	if comparesArithmetic(e) {
		// a test on a computed quantity (a size, a sum of lengths) is not a discriminant of the layout:
		// it is handled like a test on an environment quantity
		return in.decideEnv(e, what)
	}
	for i := range segs {
		s := &segs[i]
		if s.A.Env {
			continue
		}
		if pick == nil || s.A.Name < pick.A.Name || (s.A.Name == pick.A.Name && s.Lo < pick.Lo) {
			pick = s
		}
	}
	if pick == nil {
		return in.decideEnv(e, what)
	}
	// candidate values from the comparison structure
	var cands []uint64
	var walk func(x *Expr)
	walk = func(x *Expr) {
		if x == nil || x.K != kOp {
			return
		}
		switch x.Op {
		case "==", "!=", "<", "<=", ">", ">=":
			var c *Expr
			var o *Expr
			if x.Args[1].IsConst() {
				c, o = x.Args[1], x.Args[0]
			} else if x.Args[0].IsConst() {
				c, o = x.Args[0], x.Args[1]
			}
			if c != nil && c.K == kConstI {
				// position of the picked segment inside o
				pos := -1
				if o.K == kBV {
					p := 0
					for _, s := range o.Segs {
						if s.A == pick.A && s.Lo == pick.Lo {
							pos = p
						}
						p += s.N
					}
				}
				for _, d := range []int64{-1, 0, 1} {
					cv := c.I + d
					if cv < 0 {
						continue
					}
					if pos >= 0 {
						cands = append(cands, (uint64(cv)>>uint(pos))&mask(pick.N))
					} else {
						cands = append(cands, uint64(cv)&mask(pick.N))
					}
				}
			}
		}
		for _, a := range x.Args {
			walk(a)
		}
	}
	walk(e)
	panic(need{atom: pick.A, lo: pick.Lo, n: pick.N, cands: cands, reason: what + ": " + e.String()})
}

// decideEnv decides a condition over environment quantities by treating it as an uninterpreted
// predicate: comparisons of a quantity with zero share one discriminant per quantity (zero / positive),
// any other comparison is its own boolean discriminant. Returns ok=false when predicates are disabled.
func (in *Interp) decideEnv(e *Expr, what string) (bool, bool) {
	if !in.envPreds {
		return false, false
	}
	switch e.K {
	case kConstB:
		return e.B, true
	case kOp:
		switch e.Op {
		case "&&":
			a, ok := in.decideEnv(e.Args[0], what)
			if !ok {
				return false, false
			}
			if !a {
				return false, true
			}
			return in.decideEnv(e.Args[1], what)
		case "||":
			a, ok := in.decideEnv(e.Args[0], what)
			if !ok {
				return false, false
			}
			if a {
				return true, true
			}
			return in.decideEnv(e.Args[1], what)
		case "!":
			a, ok := in.decideEnv(e.Args[0], what)
			return !a, ok
		case "==", "!=", "<", "<=", ">", ">=":
			x, c := e.Args[0], e.Args[1]
			op := e.Op
			if x.IsConst() && !c.IsConst() {
				x, c = c, x
				op = map[string]string{"==": "==", "!=": "!=", "<": ">", "<=": ">=", ">": "<", ">=": "<="}[op]
			}
			if cv, ok := c.ConstI(); ok && !x.IsConst() {
				// quantities are lengths / sizes: integers, non-negative. Every ordering test against a
				// constant is expressed as positivity of one shifted quantity so that related tests share a discriminant.
				var q *Expr
				neg := false
				switch op {
				case ">":
					q = in.mkBin("-", x, cI(cv), typInfo{64, true})
				case ">=":
					q = in.mkBin("-", x, cI(cv-1), typInfo{64, true})
				case "<=":
					q, neg = in.mkBin("-", x, cI(cv), typInfo{64, true}), true
				case "<":
					q, neg = in.mkBin("-", x, cI(cv-1), typInfo{64, true}), true
				case "!=":
					if cv == 0 {
						q = x
					}
				case "==":
					if cv == 0 {
						q, neg = x, true
					}
				}
				if q != nil {
					if qc, ok := q.ConstI(); ok {
						return (qc > 0) != neg, true
					}
					// an 8-byte box header carries a 32-bit size: hdr.Size <= 2^32-1 once hdr.Hdrlen is known to be 8
					if ks, ok := in.cfg["hdr.Hdrlen"]; ok && len(ks) == 1 && ks[0].val == 8 {
						pq := polyOf(q)
						if len(pq.T) <= 2 && pq.T["hdr.Size"] == 1 && len(pq.T)-btoi(pq.T[""] != 0) == 1 && pq.T[""]+(1<<32-1) <= 0 {
							return neg, true
						}
					}
					name := "positive(" + q.String() + ")"
					pa := in.atom(name, 1, false)
					if v, ok := pa.ConstI(); ok {
						return (v != 0) != neg, true
					}
					panic(need{atom: in.atoms[name], lo: 0, n: 1, reason: what + ": " + e.String()})
				}
			}
			pa := in.atom("pred"+e.String(), 1, false)
			if v, ok := pa.ConstI(); ok {
				return v != 0, true
			}
			panic(need{atom: in.atoms["pred"+e.String()], lo: 0, n: 1, reason: what + ": " + e.String()})
		}
	}
	return false, false
}

// ---------------------------------------------------------------------------

func (in *Interp) newObj(t types.Type) *Obj {
	in.nObj++
	return &Obj{T: t, F: map[string]Val{}, Depth: len(in.loops), id: in.nObj}
}

func (in *Interp) zeroOf(t types.Type) Val {
	switch u := t.Underlying().(type) {
	case *types.Basic:
		switch {
		case u.Info()&types.IsInteger != 0:
			return cI(0)
		case u.Info()&types.IsBoolean != 0:
			return cB(false)
		case u.Info()&types.IsString != 0:
			return cS("")
		case u.Info()&types.IsFloat != 0:
			return Unknown{"float"}
		}
	case *types.Struct:
		return in.newObj(t)
	case *types.Pointer, *types.Interface, *types.Signature, *types.Map, *types.Chan:
		return NilV{}
	case *types.Slice:
		return &SliceV{Len: cI(0), ElemT: u.Elem(), Depth: len(in.loops)}
	case *types.Array:
		a := &SliceV{Len: cI(u.Len()), ElemT: u.Elem(), Elem: in.zeroOf(u.Elem()), Depth: len(in.loops)}
		if u.Len() <= 64 {
			for i := int64(0); i < u.Len(); i++ {
				a.Items = append(a.Items, in.zeroOf(u.Elem()))
			}
		}
		return a
	}
	return Unknown{"zero of " + t.String()}
}

// field reads a field of an object, materialising lazily.
func (in *Interp) field(o *Obj, name string, ft types.Type) Val {
	if v, ok := o.F[name]; ok {
		return v
	}
	var v Val
	if o.Sym {
		v = in.symValue(joinPath(o.Path, name), ft)
	} else {
		v = in.zeroOf(ft)
		if sl, ok := v.(*SliceV); ok {
			sl.Depth = o.Depth
		}
		if so, ok := v.(*Obj); ok {
			so.Depth = o.Depth
		}
	}
	o.F[name] = v
	return v
}

func joinPath(a, b string) string {
	if a == "" {
		return b
	}
	return a + "." + b
}

// symValue creates a symbolic value of type t named by path.
func (in *Interp) symValue(path string, t types.Type) Val {
	switch u := t.Underlying().(type) {
	case *types.Basic:
		ti := typInfoOf(t)
		switch {
		case u.Info()&types.IsInteger != 0:
			return in.atom(path, ti.bits, false)
		case u.Info()&types.IsBoolean != 0:
			return in.mkCmp("!=", in.atom(path, 1, false), cI(0))
		case u.Info()&types.IsString != 0:
			return &SliceV{Str: true, Len: in.atom("len("+path+")", 63, false), Ident: in.atom("@"+path, 64, true), Sym: true, Path: path}
		}
	case *types.Struct:
		o := in.newObj(t)
		o.Sym, o.Path = true, path
		return o
	case *types.Pointer:
		if _, ok := u.Elem().Underlying().(*types.Struct); ok {
			o := in.newObj(u.Elem())
			o.Sym, o.Path = true, path
			return o
		}
	case *types.Slice:
		s := &SliceV{Len: in.atom("len("+path+")", 63, false), ElemT: u.Elem(), Sym: true, Path: path, Ident: in.atom("@"+path, 64, true)}
		s.Elem = in.symValue(path+"[]", u.Elem())
		return s
	case *types.Interface:
		o := in.newObj(t)
		o.Opaque, o.Path = true, path
		return o
	}
	return Unknown{"symbolic " + t.String()}
}

func (in *Interp) tick() {
	in.steps++
	if in.steps > 400000 {
		bail("step budget exceeded")
	}
}

// ---------------------------------------------------------------------------
// expressions

func (in *Interp) eval(fr *frame, e ast.Expr) Val {
	in.tick()
	info := fr.pkg.TypesInfo
	if tv, ok := info.Types[e]; ok && tv.Value != nil {
		switch tv.Value.Kind() {
		case constant.Bool:
			return cB(constant.BoolVal(tv.Value))
		case constant.String:
			return cS(constant.StringVal(tv.Value))
		case constant.Int:
			if i, ok := constant.Int64Val(tv.Value); ok {
				return cI(i)
			}
			if u, ok := constant.Uint64Val(tv.Value); ok {
				return cI(int64(u))
			}
		}
	}
	switch x := e.(type) {
	case *ast.ParenExpr:
		return in.eval(fr, x.X)
	case *ast.BasicLit:
		return Unknown{"literal " + x.Value}
	case *ast.Ident:
		if x.Name == "nil" {
			return NilV{}
		}
		if x.Name == "true" {
			return cB(true)
		}
		if x.Name == "false" {
			return cB(false)
		}
		obj := info.Uses[x]
		if obj == nil {
			obj = info.Defs[x]
		}
		if v, ok := fr.lookup(obj); ok {
			return v
		}
		switch o := obj.(type) {
		case *types.Func:
			return &FuncV{Fn: o}
		case *types.Var:
			if o.Parent() == o.Pkg().Scope() {
				return in.globalVar(o)
			}
		case *types.TypeName:
			return TypeV{o.Type()}
		}
		return Unknown{"ident " + x.Name}
	case *ast.SelectorExpr:
		if sel := info.Selections[x]; sel != nil {
			switch sel.Kind() {
			case types.FieldVal:
				base := in.eval(fr, x.X)
				return in.selectField(base, sel, x)
			case types.MethodVal:
				base := in.eval(fr, x.X)
				return &FuncV{Fn: sel.Obj().(*types.Func), Recv: base}
			}
		}
		// qualified identifier
		obj := info.Uses[x.Sel]
		switch o := obj.(type) {
		case *types.Func:
			return &FuncV{Fn: o}
		case *types.Var:
			return in.globalVar(o)
		case *types.TypeName:
			return TypeV{o.Type()}
		}
		return Unknown{"selector " + types.ExprString(x)}
	case *ast.StarExpr:
		return in.eval(fr, x.X)
	case *ast.UnaryExpr:
		v := in.eval(fr, x.X)
		switch x.Op {
		case token.AND:
			return v
		case token.NOT:
			if ev, ok := v.(*Expr); ok {
				return mkNot(ev)
			}
		case token.SUB:
			if ev, ok := v.(*Expr); ok {
				return in.mkBin("-", cI(0), ev, typInfoOf(info.TypeOf(e)))
			}
		case token.XOR:
			if ev, ok := v.(*Expr); ok {
				if c, ok := ev.ConstI(); ok {
					return cI(truncConst(^c, typInfoOf(info.TypeOf(e))))
				}
				return &Expr{K: kOp, Op: "~", Args: []*Expr{ev}}
			}
		case token.ADD:
			return v
		}
		return Unknown{"unary " + x.Op.String()}
	case *ast.BinaryExpr:
		return in.evalBinary(fr, x)
	case *ast.CallExpr:
		return in.evalCall(fr, x)
	case *ast.CompositeLit:
		return in.evalCompositeLit(fr, x)
	case *ast.IndexExpr:
		base := in.eval(fr, x.X)
		idx := in.eval(fr, x.Index)
		return in.index(base, idx, info.TypeOf(e))
	case *ast.SliceExpr:
		return in.evalSliceExpr(fr, x)
	case *ast.TypeAssertExpr:
		v := in.eval(fr, x.X)
		if x.Type == nil {
			return v
		}
		want := info.TypeOf(x.Type)
		okv := in.typeMatches(v, want)
		if _, isTuple := info.TypeOf(e).(*types.Tuple); isTuple {
			if okv == 1 {
				return &TupleV{[]Val{v, cB(true)}}
			}
			if okv == 0 {
				return &TupleV{[]Val{in.zeroOf(want), cB(false)}}
			}
			return &TupleV{[]Val{Unknown{"type assertion"}, Unknown{"type assertion ok"}}}
		}
		if okv == 1 {
			return v
		}
		return Unknown{"type assertion " + types.ExprString(x)}
	case *ast.FuncLit:
		return &FuncV{Lit: x, Fr: fr}
	case *ast.KeyValueExpr:
		return in.eval(fr, x.Value)
	}
	return Unknown{fmt.Sprintf("expr %T", e)}
}

// typeMatches: 1 yes, 0 no, -1 unknown
func (in *Interp) typeMatches(v Val, want types.Type) int {
	switch x := v.(type) {
	case *Obj:
		if x.Opaque || x.T == nil {
			return -1
		}
		if types.Identical(derefType(want), derefType(x.T)) {
			return 1
		}
		if _, ok := want.Underlying().(*types.Interface); ok {
			if types.Implements(types.NewPointer(derefType(x.T)), want.Underlying().(*types.Interface)) {
				return 1
			}
			return 0
		}
		return 0
	case NilV:
		return 0
	case *StreamV:
		return -1
	}
	return -1
}

func (in *Interp) globalVar(o *types.Var) Val {
	// constant tables declared as package-level map / slice literals
	p := in.c.ByPath[o.Pkg().Path()]
	if p == nil {
		return Unknown{"global " + o.Name()}
	}
	if cl := mapLiteralOf(p, o.Name()); cl != nil {
		if _, ok := p.TypesInfo.TypeOf(cl).Underlying().(*types.Map); ok {
			m := &MapV{Lit: map[string]Val{}, T: p.TypesInfo.TypeOf(cl)}
			fr := &frame{pkg: p, env: map[types.Object]Val{}}
			for _, e := range cl.Elts {
				kv, ok := e.(*ast.KeyValueExpr)
				if !ok {
					return Unknown{"global map " + o.Name()}
				}
				k, ok := in.eval(fr, kv.Key).(*Expr)
				if !ok || !k.IsConst() {
					return Unknown{"global map key " + o.Name()}
				}
				m.Lit[k.String()] = in.eval(fr, kv.Value)
			}
			return m
		}
	}
	// package-level error values etc.
	if types.Implements(o.Type(), errorIface()) {
		return ErrV{NonNil: true}
	}
	// plain package-level constants-like variables (e.g. uuid strings)
	for _, f := range p.Syntax {
		for _, d := range f.Decls {
			gd, ok := d.(*ast.GenDecl)
			if !ok {
				continue
			}
			for _, sp := range gd.Specs {
				vs, ok := sp.(*ast.ValueSpec)
				if !ok {
					continue
				}
				for i, n := range vs.Names {
					if p.TypesInfo.Defs[n] == o && i < len(vs.Values) {
						fr := &frame{pkg: p, env: map[types.Object]Val{}}
						return in.eval(fr, vs.Values[i])
					}
				}
			}
		}
	}
	return Unknown{"global " + o.Name()}
}

var errIface *types.Interface

func errorIface() *types.Interface {
	if errIface == nil {
		errIface = types.Universe.Lookup("error").Type().Underlying().(*types.Interface)
	}
	return errIface
}

func (in *Interp) selectField(base Val, sel *types.Selection, x *ast.SelectorExpr) Val {
	// walk embedded fields along the selection path
	cur := base
	t := sel.Recv()
	idx := sel.Index()
	for _, i := range idx {
		st := structOf(t)
		if st == nil {
			return Unknown{"field of non-struct"}
		}
		f := st.Field(i)
		o, ok := cur.(*Obj)
		if !ok {
			if _, isNil := cur.(NilV); isNil {
				bail("nil dereference in %s", types.ExprString(x))
			}
			return Unknown{"field " + f.Name() + " of " + showValShallow(cur)}
		}
		if o.Opaque {
			return Unknown{"field of opaque box"}
		}
		cur = in.field(o, f.Name(), f.Type())
		t = f.Type()
	}
	return cur
}

func (in *Interp) evalBinary(fr *frame, x *ast.BinaryExpr) Val {
	info := fr.pkg.TypesInfo
	opS := x.Op.String()
	l := in.eval(fr, x.X)
	if x.Op == token.LAND || x.Op == token.LOR {
		if le, ok := l.(*Expr); ok {
			if b, ok := le.ConstB(); ok {
				if x.Op == token.LAND && !b {
					return cB(false)
				}
				if x.Op == token.LOR && b {
					return cB(true)
				}
				return in.eval(fr, x.Y)
			}
			r := in.eval(fr, x.Y)
			if re, ok := r.(*Expr); ok {
				return in.mkBin(opS, le, re, typInfo{})
			}
			return Unknown{"logic rhs " + showValShallow(r)}
		}
		// unknown left operand: still evaluate the right one for effects-free decision
		r := in.eval(fr, x.Y)
		if re, ok := r.(*Expr); ok {
			if b, ok := re.ConstB(); ok {
				if x.Op == token.LAND && !b {
					return cB(false)
				}
				if x.Op == token.LOR && b {
					return cB(true)
				}
			}
		}
		return Unknown{"logic lhs " + showValShallow(l)}
	}
	r := in.eval(fr, x.Y)
	// nil comparisons
	if x.Op == token.EQL || x.Op == token.NEQ {
		if v, ok := in.nilCompare(l, r); ok {
			if x.Op == token.NEQ {
				v = !v
			}
			return cB(v)
		}
		// string/slice identity comparison
		ls, lok := l.(*SliceV)
		rs, rok := r.(*SliceV)
		if lok && rok && ls.Ident != nil && rs.Ident != nil && ls.Ident.String() == rs.Ident.String() {
			return cB(x.Op == token.EQL)
		}
		if lok != rok {
			// symbolic string vs constant string
			var s *SliceV
			var c *Expr
			if lok {
				s = ls
				c, _ = r.(*Expr)
			} else {
				s = rs
				c, _ = l.(*Expr)
			}
			if c != nil && c.K == kConstS && s.Str {
				if lc, ok := s.Len.ConstI(); ok && lc != int64(len(c.S)) {
					return cB(x.Op == token.NEQ)
				}
				return Unknown{"string compare " + showValShallow(s) + " with " + c.String()}
			}
		}
	}
	le, lok := l.(*Expr)
	re, rok := r.(*Expr)
	if lok && rok {
		t := typInfoOf(info.TypeOf(x))
		if x.Op == token.SHL || x.Op == token.SHR {
			t = typInfoOf(info.TypeOf(x.X))
			if tt := info.TypeOf(x); tt != nil && isIntType(tt) {
				t = typInfoOf(tt)
			}
		}
		switch x.Op {
		case token.EQL, token.NEQ, token.LSS, token.LEQ, token.GTR, token.GEQ:
			// compare in the operand type
			return in.mkBin(opS, le, re, typInfoOf(info.TypeOf(x.X)))
		}
		return in.mkBin(opS, le, re, t)
	}
	if x.Op == token.ADD {
		// string concatenation with symbolic parts
		if isStringType(info.TypeOf(x)) {
			ll, rl := in.lenOf(l), in.lenOf(r)
			if ll != nil && rl != nil {
				return &SliceV{Str: true, Len: in.mkBin("+", ll, rl, typInfo{64, true}), Ident: &Expr{K: kOp, Op: "concat", Args: []*Expr{identOf(l), identOf(r)}}}
			}
		}
	}
	return Unknown{"binary " + opS + " on " + showValShallow(l) + "," + showValShallow(r)}
}

func identOf(v Val) *Expr {
	switch x := v.(type) {
	case *Expr:
		return x
	case *SliceV:
		if x.Ident != nil {
			return x.Ident
		}
	}
	return &Expr{K: kOp, Op: "?"}
}

func (in *Interp) nilCompare(l, r Val) (isEq bool, ok bool) {
	_, ln := l.(NilV)
	_, rn := r.(NilV)
	if !ln && !rn {
		return false, false
	}
	o := l
	if ln {
		o = r
	}
	switch x := o.(type) {
	case NilV:
		return true, true
	case ErrV:
		return !x.NonNil, true
	case *Obj:
		if x.Opaque && !x.Sym {
			return false, true // a decoded child is never nil
		}
		if x.Sym || x.Opaque {
			// nil-ness of a symbolic pointer: enumerable discriminant
			e := in.mkCmp("!=", in.atom("nonnil("+x.Path+")", 1, false), cI(0))
			v, ok := in.decide(e, "nil test")
			if ok {
				return !v, true
			}
			return false, false
		}
		return false, true
	case *SliceV:
		if x.Len != nil {
			if c, ok := x.Len.ConstI(); ok {
				if c != 0 {
					return false, true
				}
				if x.Ident == nil && !x.Sym {
					return true, true
				}
			}
			// nil-ness of a slice ~ emptiness (encoders treat nil and empty alike)
			v, ok := in.decide(in.mkCmp("==", x.Len, cI(0)), "nil test of slice")
			if ok {
				return v, true
			}
		}
		return false, false
	case *StreamV, *FuncV, *MapV:
		return false, true
	}
	return false, false
}

func (in *Interp) lenOf(v Val) *Expr {
	switch x := v.(type) {
	case *SliceV:
		return x.Len
	case *Expr:
		if x.K == kConstS {
			return cI(int64(len(x.S)))
		}
	case NilV:
		return cI(0)
	case *MapV:
		return cI(int64(len(x.Lit)))
	}
	return nil
}

func (in *Interp) index(base, idx Val, et types.Type) Val {
	switch b := base.(type) {
	case *SliceV:
		if ie, ok := idx.(*Expr); ok {
			if c, ok := ie.ConstI(); ok && b.Items != nil && int(c) < len(b.Items) && c >= 0 {
				return b.Items[c]
			}
			if b.Elem == nil && !b.Str && (b.cur != nil || b.bodyOf != nil || b.from != nil) && isIntType(et) {
				if in.cursorOf(b) != nil {
					return in.cursorRead(b, ie, cI(1), true, token.NoPos)
				}
			}
		}
		if b.Elem == nil {
			if b.Str || isIntType(et) && b.Ident != nil {
				// a byte of a blob
				return &Expr{K: kOp, Op: "byteof", Args: []*Expr{identOf(b), exprOrUnknown(idx)}}
			}
			b.Elem = in.zeroOf(et)
		}
		return b.Elem
	case *MapV:
		if ie, ok := idx.(*Expr); ok {
			if ie.IsConst() {
				if v, ok := b.Lit[ie.String()]; ok {
					return &TupleV{[]Val{v, cB(true)}}
				}
				mt := b.T.Underlying().(*types.Map)
				return &TupleV{[]Val{in.zeroOf(mt.Elem()), cB(false)}}
			}
			// enumerate the key over the table's keys (and one value outside it)
			if ie.K == kBV && len(ie.Segs) >= 1 && ie.Segs[0].A != nil && !ie.Segs[0].A.Env {
				sg := ie.Segs[0]
				var cands []uint64
				for k := range b.Lit {
					var v int64
					if _, err := fmt.Sscan(k, &v); err == nil {
						cands = append(cands, uint64(v)>>0)
					}
				}
				panic(need{atom: sg.A, lo: sg.Lo, n: sg.N, cands: cands, reason: "map key " + ie.String()})
			}
			in.decide(in.mkCmp("==", ie, cI(0)), "map key")
		}
	case *Expr:
		if b.K == kConstS {
			if ie, ok := idx.(*Expr); ok {
				if c, ok := ie.ConstI(); ok && int(c) < len(b.S) {
					return cI(int64(b.S[c]))
				}
			}
		}
	}
	return Unknown{"index of " + showValShallow(base)}
}

func exprOrUnknown(v Val) *Expr {
	if e, ok := v.(*Expr); ok {
		return e
	}
	return &Expr{K: kOp, Op: "?"}
}

func (in *Interp) evalSliceExpr(fr *frame, x *ast.SliceExpr) Val {
	base := in.eval(fr, x.X)
	var lo, hi *Expr
	if x.Low != nil {
		lo, _ = in.eval(fr, x.Low).(*Expr)
	} else {
		lo = cI(0)
	}
	if x.High != nil {
		hi, _ = in.eval(fr, x.High).(*Expr)
	}
	switch b := base.(type) {
	case *SliceV:
		if hi == nil && x.High == nil {
			hi = b.Len
		}
		if lo == nil || hi == nil {
			return Unknown{"slice bounds"}
		}
		if b.Elem == nil && !b.Str && b.Items == nil && (b.cur != nil || b.bodyOf != nil || b.from != nil) {
			if in.cursorOf(b) != nil {
				return in.cursorRead(b, lo, in.mkBin("-", hi, lo, typInfo{64, true}), false, x.Pos())
			}
		}
		r := &SliceV{Str: b.Str, ElemT: b.ElemT, Elem: b.Elem, Depth: b.Depth, Len: in.mkBin("-", hi, lo, typInfo{64, true}), bytesOf: b.bytesOf}
		if b.made {
			r.parent, r.viewOff = b, lo
		}
		if b.Ident != nil {
			if l0, ok := lo.ConstI(); ok && l0 == 0 && hi.String() == b.Len.String() {
				r.Ident = b.Ident
			} else {
				r.Ident = &Expr{K: kOp, Op: "sub", Args: []*Expr{b.Ident, lo, hi}}
			}
		}
		return r
	case *Expr:
		if b.K == kConstS && lo != nil && hi != nil {
			l0, ok1 := lo.ConstI()
			h0, ok2 := hi.ConstI()
			if ok1 && ok2 && l0 >= 0 && h0 <= int64(len(b.S)) && l0 <= h0 {
				return cS(b.S[l0:h0])
			}
		}
		if b.K == kConstS && x.High == nil {
			if l0, ok := lo.ConstI(); ok && l0 <= int64(len(b.S)) {
				return cS(b.S[l0:])
			}
		}
	}
	return Unknown{"slice of " + showValShallow(base)}
}

func (in *Interp) evalCompositeLit(fr *frame, x *ast.CompositeLit) Val {
	info := fr.pkg.TypesInfo
	t := info.TypeOf(x)
	switch u := t.Underlying().(type) {
	case *types.Struct:
		o := in.newObj(t)
		for i, el := range x.Elts {
			if kv, ok := el.(*ast.KeyValueExpr); ok {
				name := kv.Key.(*ast.Ident).Name
				o.F[name] = in.copyIfStruct(in.eval(fr, kv.Value), info.TypeOf(kv.Value))
			} else {
				o.F[u.Field(i).Name()] = in.copyIfStruct(in.eval(fr, el), info.TypeOf(el))
			}
		}
		return o
	case *types.Slice, *types.Array:
		var et types.Type
		if s, ok := u.(*types.Slice); ok {
			et = s.Elem()
		} else {
			et = u.(*types.Array).Elem()
		}
		s := &SliceV{Len: cI(int64(len(x.Elts))), ElemT: et, Depth: len(in.loops)}
		for _, el := range x.Elts {
			if kv, ok := el.(*ast.KeyValueExpr); ok {
				el = kv.Value
			}
			v := in.eval(fr, el)
			s.Items = append(s.Items, v)
			s.Elem = in.mergeElem(s.Elem, v)
		}
		if a, ok := u.(*types.Array); ok {
			s.Len = cI(a.Len())
			if s.Elem == nil {
				s.Elem = in.zeroOf(et)
			}
		}
		return s
	case *types.Map:
		m := &MapV{Lit: map[string]Val{}, T: t}
		for _, el := range x.Elts {
			kv := el.(*ast.KeyValueExpr)
			k, ok := in.eval(fr, kv.Key).(*Expr)
			if !ok || !k.IsConst() {
				return Unknown{"map literal key"}
			}
			m.Lit[k.String()] = in.eval(fr, kv.Value)
		}
		return m
	}
	return Unknown{"composite literal " + t.String()}
}

func (in *Interp) copyIfStruct(v Val, t types.Type) Val {
	if t == nil {
		return v
	}
	if _, ok := t.Underlying().(*types.Struct); ok {
		if o, ok := v.(*Obj); ok && !o.Opaque {
			c := in.newObj(o.T)
			c.Sym, c.Path = o.Sym, o.Path
			for k, fv := range o.F {
				c.F[k] = fv
			}
			return c
		}
	}
	return v
}

// mergeElem merges a new element into the generic element of a slice.
func (in *Interp) mergeElem(old, nw Val) Val {
	if old == nil {
		return nw
	}
	if canonVal(old, 0, map[*Obj]bool{}) == canonVal(nw, 0, map[*Obj]bool{}) {
		return old
	}
	oe, ok1 := old.(*Expr)
	ne, ok2 := nw.(*Expr)
	if ok1 && ok2 {
		in.mixes++
		return &Expr{K: kOp, Op: "mix", Args: []*Expr{oe, ne}}
	}
	oo, ok1 := old.(*Obj)
	no, ok2 := nw.(*Obj)
	if ok1 && ok2 && !oo.Opaque && !no.Opaque {
		m := in.newObj(oo.T)
		for k, v := range oo.F {
			m.F[k] = in.mergeElem(v, no.F[k])
		}
		for k, v := range no.F {
			if _, ok := oo.F[k]; !ok {
				m.F[k] = in.mergeElem(nil, v)
			}
		}
		return m
	}
	if ok1 && ok2 {
		return old
	}
	return nw
}

// ---------------------------------------------------------------------------
// statements

func (in *Interp) block(fr *frame, stmts []ast.Stmt) {
	for _, s := range stmts {
		if fr.done || fr.brk || fr.cont {
			return
		}
		in.stmt(fr, s)
	}
}

func (in *Interp) assignTo(fr *frame, lhs ast.Expr, v Val, define bool) {
	info := fr.pkg.TypesInfo
	switch x := lhs.(type) {
	case *ast.Ident:
		if x.Name == "_" {
			return
		}
		obj := info.Defs[x]
		if obj == nil {
			obj = info.Uses[x]
		}
		if obj == nil {
			return
		}
		v = in.copyIfStruct(v, obj.Type())
		if define && info.Defs[x] != nil {
			fr.env[obj] = v
			if fr.varDep == nil {
				fr.varDep = map[types.Object]int{}
			}
			fr.varDep[obj] = len(in.loops)
			return
		}
		fr.set(obj, v)
	case *ast.SelectorExpr:
		if sel := info.Selections[x]; sel != nil && sel.Kind() == types.FieldVal {
			base := in.eval(fr, x.X)
			// navigate to the owning object
			cur := base
			t := sel.Recv()
			idx := sel.Index()
			for n, i := range idx {
				st := structOf(t)
				f := st.Field(i)
				o, ok := cur.(*Obj)
				if !ok || o.Opaque {
					bail("store to field of %s", showValShallow(cur))
				}
				if n == len(idx)-1 {
					o.F[f.Name()] = in.copyIfStruct(v, f.Type())
					return
				}
				cur = in.field(o, f.Name(), f.Type())
				t = f.Type()
			}
		}
		bail("unsupported assignment target %s", types.ExprString(lhs))
	case *ast.IndexExpr:
		base := in.eval(fr, x.X)
		if s, ok := base.(*SliceV); ok {
			if ie, ok := in.eval(fr, x.Index).(*Expr); ok {
				if c, ok := ie.ConstI(); ok && s.Items != nil && int(c) < len(s.Items) {
					s.Items[c] = v
				}
			}
			s.Elem = in.mergeElemStore(s, v)
			return
		}
		if _, ok := base.(*MapV); ok {
			return
		}
		bail("store to index of %s", showValShallow(base))
	case *ast.StarExpr:
		// *p = v : copy fields into the pointee
		base := in.eval(fr, x.X)
		if o, ok := base.(*Obj); ok {
			if vo, ok := v.(*Obj); ok {
				o.F = map[string]Val{}
				for k, fv := range vo.F {
					o.F[k] = fv
				}
				o.Sym, o.Path = vo.Sym, vo.Path
				return
			}
		}
		bail("store through pointer %s", types.ExprString(lhs))
	case *ast.ParenExpr:
		in.assignTo(fr, x.X, v, define)
	default:
		bail("assignment target %T", lhs)
	}
}

// mergeElemStore: storing into s[i] inside a loop over the slice defines the generic element.
func (in *Interp) mergeElemStore(s *SliceV, v Val) Val {
	if len(in.loops) > s.Depth || s.Elem == nil {
		// stores inside a loop that runs over the elements: the stored value is the generic element
		if z, ok := s.Elem.(*Expr); ok && z.IsConst() || s.Elem == nil {
			return v
		}
		if o, ok := s.Elem.(*Obj); ok && len(o.F) == 0 {
			return v
		}
	}
	return in.mergeElem(s.Elem, v)
}

func (in *Interp) loopMul(from int) *Expr {
	m := cI(1)
	for i := from; i < len(in.loops); i++ {
		m = in.mkBin("*", m, in.loops[i].bound, typInfo{64, true})
	}
	return m
}

func (in *Interp) stmt(fr *frame, s ast.Stmt) {
	in.tick()
	info := fr.pkg.TypesInfo
	switch x := s.(type) {
	case *ast.ExprStmt:
		in.eval(fr, x.X)
	case *ast.DeclStmt:
		gd := x.Decl.(*ast.GenDecl)
		for _, sp := range gd.Specs {
			vs, ok := sp.(*ast.ValueSpec)
			if !ok {
				continue
			}
			if len(vs.Values) == 1 && len(vs.Names) > 1 {
				v := in.eval(fr, vs.Values[0])
				tv, _ := v.(*TupleV)
				for i, n := range vs.Names {
					var iv Val = Unknown{"multi-value decl"}
					if tv != nil && i < len(tv.Vs) {
						iv = tv.Vs[i]
					}
					in.assignTo(fr, n, iv, true)
				}
				continue
			}
			for i, n := range vs.Names {
				var v Val
				if i < len(vs.Values) {
					v = in.eval(fr, vs.Values[i])
					v = in.convertTo(v, info.TypeOf(vs.Values[i]), info.Defs[n].Type())
				} else {
					v = in.zeroOf(info.Defs[n].Type())
				}
				in.assignTo(fr, n, v, true)
			}
		}
	case *ast.AssignStmt:
		in.assignStmt(fr, x)
	case *ast.IncDecStmt:
		cur := in.eval(fr, x.X)
		if ce, ok := cur.(*Expr); ok {
			d := in.scaleForLoops(fr, x.X, cI(1))
			op := "+"
			if x.Tok == token.DEC {
				op = "-"
			}
			in.assignTo(fr, x.X, in.mkBin(op, ce, d, typInfoOf(info.TypeOf(x.X))), false)
		} else {
			in.assignTo(fr, x.X, Unknown{"incdec"}, false)
		}
	case *ast.ReturnStmt:
		if len(x.Results) == 0 {
			for _, o := range fr.named {
				v, _ := fr.lookup(o)
				fr.rets = append(fr.rets, v)
			}
		} else if len(x.Results) == 1 {
			v := in.eval(fr, x.Results[0])
			if tv, ok := v.(*TupleV); ok {
				fr.rets = append(fr.rets, tv.Vs...)
			} else {
				fr.rets = append(fr.rets, v)
			}
		} else {
			for _, r := range x.Results {
				fr.rets = append(fr.rets, in.eval(fr, r))
			}
		}
		fr.done = true
	case *ast.BlockStmt:
		in.block(fr, x.List)
	case *ast.IfStmt:
		in.ifStmt(fr, x)
	case *ast.SwitchStmt:
		in.switchStmt(fr, x)
	case *ast.TypeSwitchStmt:
		in.typeSwitchStmt(fr, x)
	case *ast.RangeStmt:
		in.rangeStmt(fr, x)
	case *ast.ForStmt:
		in.forStmt(fr, x)
	case *ast.BranchStmt:
		switch x.Tok {
		case token.BREAK:
			fr.brk = true
		case token.CONTINUE:
			fr.cont = true
		default:
			bail("branch %s", x.Tok)
		}
	case *ast.EmptyStmt:
	case *ast.DeferStmt:
		// deferred calls have no stream effect in the analysed functions
	case *ast.LabeledStmt:
		in.stmt(fr, x.Stmt)
	default:
		bail("statement %T", s)
	}
}

// scaleForLoops: an increment executed inside loops that are deeper than the variable's
// declaration counts once per iteration of those loops.
func (in *Interp) scaleForLoops(fr *frame, lhs ast.Expr, d *Expr) *Expr {
	dep := in.declDepth(fr, lhs)
	if dep >= len(in.loops) {
		return d
	}
	return in.mkBin("*", d, in.loopMul(dep), typInfo{64, true})
}

func (in *Interp) declDepth(fr *frame, lhs ast.Expr) int {
	info := fr.pkg.TypesInfo
	switch x := lhs.(type) {
	case *ast.Ident:
		obj := info.Uses[x]
		if obj == nil {
			obj = info.Defs[x]
		}
		for f := fr; f != nil; f = f.parent {
			if d, ok := f.varDep[obj]; ok {
				return d
			}
			if _, ok := f.env[obj]; ok {
				return f.loopDep
			}
		}
		return fr.loopDep
	case *ast.SelectorExpr:
		if o, ok := in.eval(fr, x.X).(*Obj); ok {
			return o.Depth
		}
	}
	return len(in.loops)
}

func (in *Interp) assignStmt(fr *frame, x *ast.AssignStmt) {
	info := fr.pkg.TypesInfo
	define := x.Tok == token.DEFINE
	if len(x.Lhs) == len(x.Rhs) {
		vals := make([]Val, len(x.Rhs))
		for i := range x.Rhs {
			vals[i] = in.eval(fr, x.Rhs[i])
		}
		for i := range x.Lhs {
			switch x.Tok {
			case token.ASSIGN, token.DEFINE:
				v := vals[i]
				if lt := info.TypeOf(x.Lhs[i]); lt != nil {
					v = in.convertTo(v, info.TypeOf(x.Rhs[i]), lt)
				}
				// x = x + d inside a loop: accumulate once per iteration
				if !define && len(in.loops) > 0 && strings.Contains(types.ExprString(x.Rhs[i]), types.ExprString(x.Lhs[i])) {
					if ne, ok := v.(*Expr); ok {
						if dep := in.declDepth(fr, x.Lhs[i]); dep < len(in.loops) {
							if old, ok := in.peek(fr, x.Lhs[i]).(*Expr); ok && isIntType(info.TypeOf(x.Lhs[i])) {
								d := in.mkBin("-", ne, old, typInfo{64, true})
								if !mentions(d, old) || old.IsConst() {
									if _, isBV := interface{}(d).(*Expr); isBV {
										v = in.mkBin("+", old, in.mkBin("*", d, in.loopMul(dep), typInfo{64, true}), typInfo{64, true})
									}
								}
							}
						}
					}
				}
				in.assignTo(fr, x.Lhs[i], v, define)
			default:
				cur := in.eval(fr, x.Lhs[i])
				op := strings.TrimSuffix(x.Tok.String(), "=")
				ce, ok1 := cur.(*Expr)
				ve, ok2 := vals[i].(*Expr)
				if !ok1 || !ok2 {
					// string += ...
					in.assignTo(fr, x.Lhs[i], Unknown{"compound assign"}, false)
					continue
				}
				if op == "+" || op == "-" {
					ve = in.scaleForLoops(fr, x.Lhs[i], ve)
				}
				in.assignTo(fr, x.Lhs[i], in.mkBin(op, ce, ve, typInfoOf(info.TypeOf(x.Lhs[i]))), false)
			}
		}
		return
	}
	if len(x.Rhs) == 1 {
		v := in.eval(fr, x.Rhs[0])
		tv, _ := v.(*TupleV)
		for i := range x.Lhs {
			var iv Val = Unknown{"multi-assign from " + showValShallow(v)}
			if tv != nil && i < len(tv.Vs) {
				iv = tv.Vs[i]
			}
			in.assignTo(fr, x.Lhs[i], iv, define)
		}
		return
	}
	bail("assignment arity")
}

func mentions(e, sub *Expr) bool {
	if e == nil || sub == nil {
		return false
	}
	if sub.IsConst() {
		return false
	}
	return strings.Contains(e.String(), sub.String())
}

// peek evaluates an lvalue without side effects.
func (in *Interp) peek(fr *frame, lhs ast.Expr) Val {
	switch lhs.(type) {
	case *ast.Ident, *ast.SelectorExpr:
		return in.eval(fr, lhs)
	}
	return nil
}

// convertTo applies an implicit conversion at assignment (interface boxing is the identity).
func (in *Interp) convertTo(v Val, from, to types.Type) Val {
	return v
}

func (in *Interp) isErrorExit(fr *frame, body *ast.BlockStmt) bool {
	// a block that ends by returning a freshly created / non-nil error, or panics
	if body == nil || len(body.List) == 0 {
		return false
	}
	last := body.List[len(body.List)-1]
	switch x := last.(type) {
	case *ast.ReturnStmt:
		if len(x.Results) == 0 {
			return false
		}
		t := fr.pkg.TypesInfo.TypeOf(x.Results[len(x.Results)-1])
		if t == nil || !types.Implements(t, errorIface()) && t.String() != "error" {
			// a (value, ok=false) return is also a rejection
			if id, ok := x.Results[len(x.Results)-1].(*ast.Ident); ok && id.Name == "false" {
				return true
			}
			return false
		}
		if id, ok := x.Results[len(x.Results)-1].(*ast.Ident); ok && id.Name == "nil" {
			return false
		}
		return true
	case *ast.ExprStmt:
		if c, ok := x.X.(*ast.CallExpr); ok {
			if id, ok := c.Fun.(*ast.Ident); ok && id.Name == "panic" {
				return true
			}
		}
	}
	return false
}

func (in *Interp) ifStmt(fr *frame, x *ast.IfStmt) {
	if x.Init != nil {
		in.stmt(fr, x.Init)
	}
	c := in.eval(fr, x.Cond)
	if in.whileDepth > 0 && isLoopExit(x.Body) {
		// exit test of a generic loop: decided only if it does not depend on the environment
		if b, ok := in.decide(c, "loop exit"); ok {
			if b {
				in.block(fr, x.Body.List)
			} else if x.Else != nil {
				in.stmt(fr, x.Else)
			}
		} else if x.Else != nil {
			in.stmt(fr, x.Else)
		}
		return
	}
	errExit := in.isErrorExit(fr, x.Body)
	if eb, ok := x.Else.(*ast.BlockStmt); ok && in.isErrorExit(fr, eb) {
		errExit = true
	}
	in.envPreds = !errExit
	b, ok := in.decide(c, "if")
	in.envPreds = false
	if ok {
		if b {
			in.block(fr, x.Body.List)
		} else if x.Else != nil {
			in.stmt(fr, x.Else)
		}
		return
	}
	// undecidable on environment quantities / unknown values
	if in.isErrorExit(fr, x.Body) {
		// domain restriction: analyse the accepted inputs
		in.assumed = append(in.assumed, types.ExprString(x.Cond))
		in.noteAssumedEq(c)
		if x.Else != nil {
			in.stmt(fr, x.Else)
		}
		return
	}
	if eb, ok := x.Else.(*ast.BlockStmt); ok && in.isErrorExit(fr, eb) {
		in.assumed = append(in.assumed, "!("+types.ExprString(x.Cond)+")")
		in.block(fr, x.Body.List)
		return
	}
	in.forkMerge(fr, types.ExprString(x.Cond), showValShallow(c), func() { in.block(fr, x.Body.List) }, func() {
		if x.Else != nil {
			in.stmt(fr, x.Else)
		}
	})
}

// forkMerge runs both arms of an undecidable branch; they must have the same stream effect.
// Differences in local state are merged into "mix" values.
func (in *Interp) forkMerge(fr *frame, cond, cval string, thenF, elseF func()) {
	snap := in.snapshot(fr)
	tr0 := in.traceLens()
	thenF()
	st1 := in.snapshot(fr)
	trT := in.traceSuffix(tr0)
	done1, brk1, cont1, rets1 := fr.done, fr.brk, fr.cont, fr.rets
	in.restore(fr, snap)
	in.truncTraces(tr0)
	fr.done, fr.brk, fr.cont = false, false, false
	elseF()
	trE := in.traceSuffix(tr0)
	if trT != trE {
		bail("data-dependent branch with different stream effect: if %s [%s]: then{%s} else{%s}", cond, cval, trT, trE)
	}
	if done1 != fr.done || brk1 != fr.brk || cont1 != fr.cont {
		bail("data-dependent branch with different control flow: if %s [%s]", cond, cval)
	}
	if fr.done && len(rets1) == len(fr.rets) {
		for i := range fr.rets {
			fr.rets[i] = in.mergeElem(rets1[i], fr.rets[i])
		}
	}
	in.mergeState(fr, st1)
}

func (in *Interp) switchStmt(fr *frame, x *ast.SwitchStmt) {
	if x.Init != nil {
		in.stmt(fr, x.Init)
	}
	var tag Val
	if x.Tag != nil {
		tag = in.eval(fr, x.Tag)
	}
	var def *ast.CaseClause
	clauses := x.Body.List
	run := func(i int) {
		// execute clause i with fallthrough support
		for ; i < len(clauses); i++ {
			cl := clauses[i].(*ast.CaseClause)
			ft := false
			body := cl.Body
			if n := len(body); n > 0 {
				if b, ok := body[n-1].(*ast.BranchStmt); ok && b.Tok == token.FALLTHROUGH {
					ft = true
					body = body[:n-1]
				}
			}
			in.block(fr, body)
			if !ft {
				break
			}
		}
		if fr.brk {
			fr.brk = false
		}
	}
	for i, cc := range clauses {
		cl := cc.(*ast.CaseClause)
		if cl.List == nil {
			def = cl
			_ = def
			continue
		}
		for _, e := range cl.List {
			v := in.eval(fr, e)
			var m Val
			if x.Tag == nil {
				m = v
			} else {
				m = in.eqVals(tag, v)
			}
			b, ok := in.decide(m, "switch case")
			if !ok {
				bail("switch case undecided: %s (tag %s)", types.ExprString(e), showValShallow(tag))
			}
			if b {
				run(i)
				return
			}
		}
	}
	for i, cc := range clauses {
		if cc.(*ast.CaseClause).List == nil {
			run(i)
			return
		}
	}
}

func (in *Interp) eqVals(a, b Val) Val {
	ae, ok1 := a.(*Expr)
	be, ok2 := b.(*Expr)
	if ok1 && ok2 {
		return in.mkCmp("==", ae, be)
	}
	as, ok1 := a.(*SliceV)
	if ok1 && ok2 && be.K == kConstS && as.Str {
		if lc, ok := as.Len.ConstI(); ok && lc != int64(len(be.S)) {
			return cB(false)
		}
		if id := identOf(as).String(); strings.HasPrefix(id, "Type(child") {
			// the concrete type of an opaque child is not part of this box's layout: no case matches
			return cB(false)
		}
		// a symbolic string compared with a literal: discriminant "string equals literal"
		return in.mkCmp("!=", in.atom("streq("+identOf(as).String()+","+be.String()+")", 1, false), cI(0))
	}
	if v, ok := in.nilCompare(a, b); ok {
		return cB(v)
	}
	return Unknown{"compare " + showValShallow(a) + " with " + showValShallow(b)}
}

func (in *Interp) typeSwitchStmt(fr *frame, x *ast.TypeSwitchStmt) {
	info := fr.pkg.TypesInfo
	if x.Init != nil {
		in.stmt(fr, x.Init)
	}
	var subj ast.Expr
	var bind *ast.Ident
	switch a := x.Assign.(type) {
	case *ast.AssignStmt:
		subj = a.Rhs[0].(*ast.TypeAssertExpr).X
		bind = a.Lhs[0].(*ast.Ident)
	case *ast.ExprStmt:
		subj = a.X.(*ast.TypeAssertExpr).X
	}
	v := in.eval(fr, subj)
	var def *ast.CaseClause
	for _, cc := range x.Body.List {
		cl := cc.(*ast.CaseClause)
		if cl.List == nil {
			def = cl
			continue
		}
		for _, te := range cl.List {
			want := info.TypeOf(te)
			m := 0
			if id, ok := te.(*ast.Ident); ok && id.Name == "nil" {
				if _, isNil := v.(NilV); isNil {
					m = 1
				}
			} else {
				m = in.typeMatches(v, want)
			}
			if m == -1 {
				// opaque child: the typed-pointer bookkeeping of AddChild is not part of the wire layout
				if o, ok := v.(*Obj); ok && o.Opaque {
					goto defaultCase
				}
				bail("type switch on %s", showValShallow(v))
			}
			if m == 1 {
				if bind != nil {
					if obj := info.Implicits[cl]; obj != nil {
						fr.env[obj] = v
					}
				}
				in.block(fr, cl.Body)
				fr.brk = false
				return
			}
		}
	}
defaultCase:
	if def != nil {
		if bind != nil {
			if obj := info.Implicits[def]; obj != nil {
				fr.env[obj] = v
			}
		}
		in.block(fr, def.Body)
		fr.brk = false
	}
}

func (in *Interp) runLoop(fr *frame, bound *Expr, body *ast.BlockStmt) {
	if c, ok := bound.ConstI(); ok && c <= 0 {
		return
	}
	in.nLoop++
	in.loops = append(in.loops, loopCtx{bound, in.nLoop})
	in.block(fr, body.List)
	in.loops = in.loops[:len(in.loops)-1]
	fr.cont = false
	if fr.brk {
		fr.brk = false
	}
}

func (in *Interp) rangeStmt(fr *frame, x *ast.RangeStmt) {
	v := in.eval(fr, x.X)
	define := x.Tok == token.DEFINE
	switch s := v.(type) {
	case *SliceV:
		if c, ok := s.Len.ConstI(); ok && c == 0 {
			return
		}
		// small literal slices are unrolled
		if c, ok := s.Len.ConstI(); ok && s.Items != nil && int(c) == len(s.Items) && c <= 16 {
			for i, it := range s.Items {
				if x.Key != nil {
					in.assignTo(fr, x.Key, cI(int64(i)), define)
				}
				if x.Value != nil {
					in.assignTo(fr, x.Value, it, define)
				}
				in.block(fr, x.Body.List)
				fr.cont = false
				if fr.brk {
					fr.brk = false
					break
				}
				if fr.done {
					return
				}
			}
			return
		}
		if x.Key != nil {
			in.assignTo(fr, x.Key, in.indexAtom(), define)
		}
		if x.Value != nil {
			el := s.Elem
			if el == nil {
				el = in.zeroOf(s.ElemT)
				if s.Str || s.Ident != nil && isIntType(s.ElemT) {
					el = &Expr{K: kOp, Op: "byteof", Args: []*Expr{identOf(s), in.indexAtom()}}
				}
			}
			in.assignTo(fr, x.Value, el, define)
		}
		in.runLoop(fr, s.Len, x.Body)
	case NilV:
		return
	case *Expr:
		if s.K == kConstS {
			bail("range over string constant")
		}
		// range over integer
		if x.Key != nil {
			in.assignTo(fr, x.Key, in.indexAtom(), define)
		}
		in.runLoop(fr, s, x.Body)
	case *MapV:
		bail("range over map")
	default:
		bail("range over %s", showValShallow(v))
	}
}

func (in *Interp) enumerableLen(l *Expr) bool {
	var segs []Seg
	atomsOf(l, &segs)
	if len(segs) == 0 {
		return false
	}
	for _, s := range segs {
		if s.A.Env {
			return false
		}
	}
	return l.K == kBV
}

func (in *Interp) indexAtom() *Expr {
	return in.atom(fmt.Sprintf("i%d", len(in.loops)), 63, true)
}

func (in *Interp) forStmt(fr *frame, x *ast.ForStmt) {
	info := fr.pkg.TypesInfo
	if x.Init != nil {
		in.stmt(fr, x.Init)
	}
	// for i := a; i < N; i++   (also <=, and N - i forms are not supported)
	if be, ok := x.Cond.(*ast.BinaryExpr); ok && (be.Op == token.LSS || be.Op == token.LEQ) {
		if id, ok := be.X.(*ast.Ident); ok && x.Post != nil {
			if inc, ok := x.Post.(*ast.IncDecStmt); ok && inc.Tok == token.INC {
				if pid, ok := inc.X.(*ast.Ident); ok && info.Uses[pid] == info.Uses[id] {
					start, _ := in.eval(fr, id).(*Expr)
					hiV := in.eval(fr, be.Y)
					hi, _ := hiV.(*Expr)
					if start != nil && hi != nil {
						bound := in.mkBin("-", hi, start, typInfo{64, true})
						if be.Op == token.LEQ {
							bound = in.mkBin("+", bound, cI(1), typInfo{64, true})
						}
						if c, ok := bound.ConstI(); ok && c >= 0 && c <= 8 && len(bound.Tags) == 0 {
							// small constant loops are unrolled
							st, _ := start.ConstI()
							for i := int64(0); i < c; i++ {
								in.assignTo(fr, id, cI(st+i), false)
								in.block(fr, x.Body.List)
								fr.cont = false
								if fr.brk {
									fr.brk = false
									break
								}
								if fr.done {
									return
								}
							}
							in.assignTo(fr, id, cI(st+c), false)
							return
						}
						in.assignTo(fr, id, in.indexAtom(), false)
						in.runLoop(fr, bound, x.Body)
						in.assignTo(fr, id, hi, false)
						return
					}
				}
			}
		}
	}
	// any other loop shape: a generic loop with an unknown number of iterations; its exit tests are not interpreted
	if x.Post != nil {
		bail("unsupported for loop: %s", forHeader(x))
	}
	in.nWhile++
	bound := in.atom(fmt.Sprintf("iters#%d", in.nWhile), 62, true)
	in.whileDepth++
	in.runLoop(fr, bound, x.Body)
	in.whileDepth--
}

func forHeader(x *ast.ForStmt) string {
	c := "<none>"
	if x.Cond != nil {
		c = types.ExprString(x.Cond)
	}
	return "for …; " + c + "; …"
}

// ---------------------------------------------------------------------------
// state snapshots for forkMerge

type stateSnap struct {
	envs  []map[types.Object]Val
	objs  map[*Obj]map[string]Val
	sls   map[*SliceV]SliceV
	loops int
}

func (in *Interp) reachableState(fr *frame) (objs map[*Obj]bool, sls map[*SliceV]bool) {
	objs, sls = map[*Obj]bool{}, map[*SliceV]bool{}
	var visit func(v Val)
	visit = func(v Val) {
		switch x := v.(type) {
		case *Obj:
			if objs[x] {
				return
			}
			objs[x] = true
			for _, f := range x.F {
				visit(f)
			}
		case *SliceV:
			if sls[x] {
				return
			}
			sls[x] = true
			visit(x.Elem)
			for _, it := range x.Items {
				visit(it)
			}
		case *TupleV:
			for _, t := range x.Vs {
				visit(t)
			}
		}
	}
	for f := fr; f != nil; f = f.parent {
		for _, v := range f.env {
			visit(v)
		}
	}
	for _, f := range in.frames {
		for _, v := range f.env {
			visit(v)
		}
	}
	return
}

func (in *Interp) snapshot(fr *frame) *stateSnap {
	s := &stateSnap{objs: map[*Obj]map[string]Val{}, sls: map[*SliceV]SliceV{}}
	for f := fr; f != nil; f = f.parent {
		m := map[types.Object]Val{}
		for k, v := range f.env {
			m[k] = v
		}
		s.envs = append(s.envs, m)
	}
	objs, sls := in.reachableState(fr)
	for o := range objs {
		m := map[string]Val{}
		for k, v := range o.F {
			m[k] = v
		}
		s.objs[o] = m
	}
	for sl := range sls {
		s.sls[sl] = *sl
	}
	return s
}

func (in *Interp) restore(fr *frame, s *stateSnap) {
	i := 0
	for f := fr; f != nil; f = f.parent {
		m := map[types.Object]Val{}
		for k, v := range s.envs[i] {
			m[k] = v
		}
		f.env = m
		i++
	}
	for o, m := range s.objs {
		o.F = map[string]Val{}
		for k, v := range m {
			o.F[k] = v
		}
	}
	for sl, c := range s.sls {
		*sl = c
	}
}

// mergeState merges the state after the else arm (current) with the state after the then arm (st1).
func (in *Interp) mergeState(fr *frame, st1 *stateSnap) {
	i := 0
	for f := fr; f != nil; f = f.parent {
		for k, v1 := range st1.envs[i] {
			if v2, ok := f.env[k]; ok {
				f.env[k] = in.mergeVals(v1, v2)
			}
		}
		i++
	}
	for o, m1 := range st1.objs {
		for k, v1 := range m1 {
			if v2, ok := o.F[k]; ok {
				o.F[k] = in.mergeVals(v1, v2)
			} else {
				o.F[k] = in.mergeVals(v1, nil)
			}
		}
	}
	for sl, c1 := range st1.sls {
		if c1.Len != nil && sl.Len != nil && c1.Len.String() != sl.Len.String() {
			in.mixes++
			sl.Len = &Expr{K: kOp, Op: "mix", Args: []*Expr{c1.Len, sl.Len}}
		}
	}
}

func (in *Interp) mergeVals(a, b Val) Val {
	if a == b {
		return a
	}
	ae, ok1 := a.(*Expr)
	be, ok2 := b.(*Expr)
	if ok1 && ok2 {
		if ae.String() == be.String() {
			return ae
		}
		in.mixes++
		return &Expr{K: kOp, Op: "mix", Args: []*Expr{ae, be}}
	}
	if b == nil {
		if ok1 {
			in.mixes++
			return &Expr{K: kOp, Op: "mix", Args: []*Expr{ae, cI(0)}}
		}
		return a
	}
	_, an := a.(NilV)
	_, bn := b.(NilV)
	if an && !bn {
		return b
	}
	if bn && !an {
		return a
	}
	return b
}

func (in *Interp) traceLens() map[*Trace]int {
	m := map[*Trace]int{}
	for _, t := range in.traces {
		m[t] = len(t.Items)
	}
	return m
}
func (in *Interp) traceSuffix(l map[*Trace]int) string {
	var sb []string
	for _, t := range in.traces {
		for _, it := range t.Items[l[t]:] {
			sb = append(sb, it.Kind+":"+it.W.String())
		}
	}
	return strings.Join(sb, ";")
}
func (in *Interp) truncTraces(l map[*Trace]int) {
	for _, t := range in.traces {
		// recompute bit position
		t.Items = t.Items[:l[t]]
	}
	for _, t := range in.traces {
		t.recomputeBits(in)
	}
}

func (t *Trace) recomputeBits(in *Interp) {
	t.BitPos = cI(0)
	for _, it := range t.Items {
		w := it.W
		for _, lb := range it.loopBounds {
			w = in.mkBin("*", w, lb, typInfo{64, true})
		}
		t.BitPos = in.mkBin("+", t.BitPos, w, typInfo{64, true})
	}
}

var _ = typeutil.Callee

func isLoopExit(b *ast.BlockStmt) bool {
	if b == nil || len(b.List) == 0 {
		return false
	}
	if br, ok := b.List[len(b.List)-1].(*ast.BranchStmt); ok && br.Tok == token.BREAK {
		return true
	}
	return false
}

// noteAssumedEq: an accepted input satisfies !(a != b); when one side is a whole read value, remember
// that it equals the other side (e.g. a stored entry count that must equal the number of children).
func (in *Interp) noteAssumedEq(c Val) {
	e, ok := c.(*Expr)
	if !ok || e.K != kOp || e.Op != "!=" {
		return
	}
	for i := 0; i < 2; i++ {
		a, b := e.Args[i], e.Args[1-i]
		if a.K == kBV && len(a.Segs) >= 1 {
			sg := a.Segs[0]
			whole := sg.A != nil && sg.Lo == 0 && sg.N == sg.A.W && strings.HasPrefix(sg.A.Name, "rd#")
			for _, s2 := range a.Segs[1:] {
				if s2.A != nil || s2.C != 0 {
					whole = false
				}
			}
			if whole {
				if in.assumedEq == nil {
					in.assumedEq = map[string]*Expr{}
				}
				in.assumedEq[sg.A.Name] = b
				return
			}
		}
	}
}

// comparesArithmetic: some comparison in the condition has a sum / product / quotient as an operand.
func comparesArithmetic(e *Expr) bool {
	if e == nil || e.K != kOp {
		return false
	}
	switch e.Op {
	case "==", "!=", "<", "<=", ">", ">=":
		for _, a := range e.Args {
			if a.K == kOp {
				switch a.Op {
				case "+", "-", "*", "/", "%":
					return true
				}
			}
		}
		return false
	}
	for _, a := range e.Args {
		if comparesArithmetic(a) {
			return true
		}
	}
	return false
}

package chk

import (
	"fmt"
	"strings"

	"golang.org/x/tools/go/ssa"
)

func init() { Registry["C04"] = checkC04 }

// C04 — untrusted container input never crashes, hangs or balloons memory (structural part).
func checkC04(c *Ctx, r *Report) {
	r.Explanation = "Over the functions reachable (VTA call graph) from DecodeFile/DecodeFileSR/DecodeBox*/every registered decoder/every Box and composite Info, Encode, EncodeSW, Size: " +
		"R1 no explicit panic/os.Exit/log.Fatal is reachable; G-OVF in packages bits and mp4 a bounds test that compares a sum with a parameter carrying 63 or more untrusted bits (ReadBytes is handed the 64-bit box size) is preceded by an upper bound on that parameter (the overflow-safe form compares with a difference); G9 in loops `for i < len(s)-k` every element i+c of s that is read has c <= k and every slice s[…:i+c] has c-1 <= k, or its own test against the length; G3X on the decode side an index that counts up to the length of one slice is used on another only under a dominating test that the other is at least as long; G1 every make() whose length or capacity is an untrusted value of more than 16 bits (reader results, binary.BigEndian, BoxHeader.Size on the reader path) " +
		"is dominated by one arm of a comparison on a value with the same taint root; G2 every cycle of every data-driven loop passes an error test of the sticky-error reader or a bounded counter test; " +
		"G6 io.ReadAll is applied only to an io.LimitReader; G3 a slice made in a function and indexed there by a loop counter is indexed below the length it was made with; G4 every constant index or constant slice bound on a slice is dominated by a test of its length, is on a slice long enough by construction, or rests on a named invariant of the decoded structure that is itself checked (appended at least once, field always stored with >= n bytes, two slices filled together, Type() non-empty); G8 an untrusted value used as an index is compared with the length of the slice first (or has too few bits to exceed a fixed table); G10 a loop cursor advanced by an untrusted length is wider than that length; G5 every integer division by a non-constant is dominated by a non-zero test of the divisor or rests on a checked invariant; G-NIL a field holding an optional child box (set only by AddChild when the child exists) is dereferenced only after a nil test of it (also: a fresh value stored to it, correlated tests, or — for fields of the receiver — a nil test at every repository call site); the result of a getter that can return nil (LastSegment, LastFragment, GetTrex, …) is dereferenced only after a nil test, except in File.AddChild where the checked invariant (startSegmentIfNeeded guarantees a segment, a fragment is added before it is used, an mdat follows a moof) stands; G-ASSERT an unchecked type assertion on a box stands under a test of the box type name for which every registered decoder returns exactly the asserted type, or on the result of a call that returns only that type; O-MDAT in a fragmented file the file decoders reject an mdat that does not directly follow a moof (the invariant File.AddChild relies on); O-ERR in the library packages every error returned by a callee is tested, returned, wrapped or merged on every path that does not itself end in an error (14 accepted explicit discards on freshly created boxes), so a decoder cannot hand back a structure after a callee failed; G-SIZE DecodeBoxSR compares the unsigned 64-bit box size itself with the remaining bytes before any decoder runs. Decides named necessary conditions of crash/hang/balloon freedom; does not decide index expressions with a computed index (other than G3 loop counters), nil dereferences other than of optional child fields, " +
		"nor that a comparison's arithmetic is right."
	r.Assume("taint is flow-insensitive on struct fields and on the elements of slice-typed fields; arguments reach the parameters of static callees and, through the VTA call graph, of interface and function-value callees; for allocations and reading loops a guard is a dominating comparison that shares a taint root and, when the other side is untainted, bounds the tainted side from above on the way taken (its arithmetic is not checked)")
	r.Assume("call graph = VTA over CHA; interface calls on readers are resolved by type name of package bits")
	entries := entriesC04(c)
	scope, _ := scopeFrom(c, entries)
	ruleR1(c, r, entries, "R1")
	ruleG1(c, r, scope, "G1")
	ruleG2(c, r, scope, "G2")
	ruleG3(c, r, scope, 12)
	ruleG3Lin(c, r, scope)
	ruleG4(c, r, scope, map[string]func(*Ctx, *Report, string) bool{
		"mp4.Dec3Box.Info:(Dec3Box).EC3Subs[0]":                          invAppendedAtLeastOnce("mp4", "Dec3Box", "EC3Subs", 1),
		"mp4.Dec3Box.ChannelInfo:(Dec3Box).EC3Subs[0]":                   invAppendedAtLeastOnce("mp4", "Dec3Box", "EC3Subs", 1),
		"mp4.FtypBox.MajorBrand:(FtypBox).data[:4]":                      invFieldLenAtLeast("FtypBox", "data", 8),
		"mp4.FtypBox.MinorVersion:(FtypBox).data[4:8]":                   invFieldLenAtLeast("FtypBox", "data", 8),
		"mp4.StypBox.MajorBrand:(StypBox).data[:4]":                      invFieldLenAtLeast("StypBox", "data", 8),
		"mp4.StypBox.MinorVersion:(StypBox).data[4:8]":                   invFieldLenAtLeast("StypBox", "data", 8),
		"mp4.TrafBox.ParseReadSenc:(SbgpBox).GroupDescriptionIndices[0]": invSameLength("SbgpBox", "SampleCounts", "GroupDescriptionIndices", 1),
		"mp4.fixStartingCopyrightChar:([]byte)[0]":                       invTypeNonEmpty,
	})
	ruleG8(c, r, scope, map[string]func(*Ctx, *Report, string) bool{"bits.FixedSliceReader.ReadPossiblyZeroTerminatedString:(FixedSliceReader).slice[(FixedSliceReader).pos]": invOnlyCallerURL,
		"bits.FixedSliceReader.ReadPossiblyZeroTerminatedString:(FixedSliceReader).slice[(int):(FixedSliceReader).pos]": invOnlyCallerURL,
		"bits.FixedSliceReader.RemainingBytes:(FixedSliceReader).slice[(FixedSliceReader).pos:]":                        invCursorWithinLen,
		// the same construct with the capacity limited (fix 15dc49f): the low bound is still the cursor, the high bound the length
		"bits.FixedSliceReader.RemainingBytes:(FixedSliceReader).slice[(FixedSliceReader).pos:len((FixedSliceReader).slice)]": invCursorWithinLen})
	ruleG10(c, r, scope)
	ruleG9(c, r, scope)
	if n := ruleGOVF(c, r, func(f *ssa.Function) bool {
		return strings.HasPrefix(SSAFuncName(f), "bits.") || strings.HasPrefix(SSAFuncName(f), "mp4.")
	}); n < 1 {
		r.Undecided("G-OVF", "scope", "", "no bounds test on a sum with a parameter found in packages bits and mp4 (FixedSliceReader.SkipBytes expected)")
	}
	requireFixture(r, "G-OVF", "sumReader.take", func(fc *Ctx, s *Report) { ruleGOVF(fc, s, nil) })
	r.Floor("G8", 8)
	ruleG5(c, r, scope, map[string]func(*Ctx, *Report, string) bool{"mp4.SencBox.ParseReadBox:/ (SencBox).SampleCount": invSencSampleCount})
	ruleG6(c, r)
	ruleOERRLibrary(c, r)
	ruleSpecTable(c, r, "mp4", "", "AC3SampleRates", [][]int64{{48000}, {44100}, {32000}}, "ETSI TS 102 366 Table 4.1 (fscod)")
	ruleSpecTable(c, r, "mp4", "", "AC3BitrateCodesKbps", [][]int64{{32}, {40}, {48}, {56}, {64}, {80}, {96}, {112}, {128}, {160}, {192}, {224}, {256}, {320}, {384}, {448}, {512}, {576}, {640}}, "ETSI TS 102 366 Table F.4.1 (bit_rate_code)")
	ruleMdatAfterMoof(c, r)
	ruleGNIL(c, r, scope, 50)
	ruleSegmentInvariant(c, r)
	if n := ruleGNILCalls(c, r, scope, map[string]string{
		"mp4.File.AddChild:mp4.File.LastSegment()":          "see G-NIL:mp4.File.AddChild:segment-and-fragment-exist (checked invariant)",
		"mp4.File.AddChild:mp4.MediaSegment.LastFragment()": "see G-NIL:mp4.File.AddChild:segment-and-fragment-exist (checked invariant)",
	}); n < 15 {
		r.Undecided("G-NIL", "scope-getters", "", "too few dereferences of nilable getter results found")
	}
	ruleGASSERT(c, r, scope, 25)
	ruleNoReaderAliasing(c, r)
	ruleBoxSizeGuard(c, r)
	if n := ruleG3X(c, r, scope); n < 1 {
		r.Undecided("G3X", "scope", "", "no index ranging over another slice found on the decode side (findAndReadMfra expected)")
	}
	requireFixture(r, "G3X", "crossIndexWrong", func(fc *Ctx, s *Report) { ruleG3X(fc, s, fixtureAllFuncs(fc)) })
	if n := ruleNilMapUpdate(c, r, func(f *ssa.Function) bool {
		return strings.HasPrefix(SSAFuncName(f), "mp4.") || strings.HasPrefix(SSAFuncName(f), "bits.")
	}); n < 3 {
		r.Undecided("G-NILMAP", "scope", "", fmt.Sprintf("only %d map updates found in packages mp4 and bits", n))
	}
	requireFixture(r, "G-NILMAP", "nilMapUpdate", func(fc *Ctx, s *Report) { ruleNilMapUpdate(fc, s, nil) })
	if ruleHeaderMin(c, r) < 2 {
		r.Undecided("O-HDRMIN", "scope", "", "DecodeHeader and DecodeHeaderSR not both found")
	}
	r.Floor("G1", 15)
	r.Floor("G2", 5)
}

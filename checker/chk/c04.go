package chk

func init() { Registry["C04"] = checkC04 }

// C04 — untrusted container input never crashes, hangs or balloons memory (structural part).
func checkC04(c *Ctx, r *Report) {
	r.Explanation = "Over the functions reachable (VTA call graph) from DecodeFile/DecodeFileSR/DecodeBox*/every registered decoder/every Box and composite Info, Encode, EncodeSW, Size: " +
		"R1 no explicit panic/os.Exit/log.Fatal is reachable; G1 every make() whose length or capacity is an untrusted value of more than 16 bits (reader results, binary.BigEndian, BoxHeader.Size on the reader path) " +
		"is dominated by one arm of a comparison on a value with the same taint root; G2 every cycle of every data-driven loop passes an error test of the sticky-error reader or a bounded counter test; " +
		"G6 io.ReadAll is applied only to an io.LimitReader. Decides named necessary conditions of crash/hang/balloon freedom; does not decide absence of all index-out-of-range panics or nil dereferences, " +
		"nor that a comparison's arithmetic is right."
	r.Assume("taint is flow-insensitive on struct fields and does not flow through slice elements; a guard is any dominating comparison sharing a taint root (its direction and arithmetic are not checked)")
	r.Assume("call graph = VTA over CHA; interface calls on readers are resolved by type name of package bits")
	entries := entriesC04(c)
	scope, _ := scopeFrom(c, entries)
	ruleR1(c, r, entries, "R1")
	ruleG1(c, r, scope, "G1")
	ruleG2(c, r, scope, "G2")
	ruleG6(c, r)
	r.Floor("G1", 15)
	r.Floor("G2", 5)
}

package chk

// Symbolic value domain of the wire-layout engine (E1).
//
// Integers are tracked with *bit provenance*: a value is a concatenation of
// segments, each either constant bits or a bit-slice of an input atom (a stream
// read, an environment quantity such as hdr.Size, or a field of a symbolic
// receiver). Arithmetic that is not pure bit movement becomes an opaque
// operator node over such values; sums/products are normalised as polynomials.

import (
	"fmt"
	"math/bits"
	"sort"
	"strings"
)

type Atom struct {
	Name  string
	W     int      // width in bits (<=64)
	Env   bool     // environment quantity: never enumerated (hdr.Size, remaining bytes, positions, loop indices)
	Loop  bool     // produced inside a loop body (generic iteration)
	Fixed []uint64 // fixed enumeration domain, if any
}

type Seg struct {
	A   *Atom // nil => constant bits
	Lo  int   // first bit of A covered
	N   int   // number of bits
	C   uint64
	Tag *Atom // for constant segments that came from the configuration: the atom …
	TLo int   // … and slice they stand for
}

type ekind int

const (
	kConstI ekind = iota // integer constant (two's complement in U, Neg for sign)
	kConstB
	kConstS
	kBV
	kOp
)

type Expr struct {
	K    ekind
	I    int64 // kConstI (uint64 values > MaxInt64 are stored wrapped; Wd keeps the width)
	B    bool
	S    string
	Segs []Seg // kBV, LSB first
	W    int   // kBV width
	Op   string
	Args []*Expr
	Tags []Seg // provenance of a constant produced from configured atom slices
	str  string
}

func cI(v int64) *Expr  { return &Expr{K: kConstI, I: v} }
func cB(v bool) *Expr   { return &Expr{K: kConstB, B: v} }
func cS(v string) *Expr { return &Expr{K: kConstS, S: v} }

func (e *Expr) IsConst() bool {
	return e != nil && (e.K == kConstI || e.K == kConstB || e.K == kConstS)
}
func (e *Expr) ConstI() (int64, bool) {
	if e != nil && e.K == kConstI {
		return e.I, true
	}
	return 0, false
}
func (e *Expr) ConstB() (bool, bool) {
	if e != nil && e.K == kConstB {
		return e.B, true
	}
	return false, false
}

func mask(n int) uint64 {
	if n >= 64 {
		return ^uint64(0)
	}
	return (uint64(1) << uint(n)) - 1
}

func (s Seg) String() string {
	if s.A == nil {
		return fmt.Sprintf("c%d:%#x", s.N, s.C)
	}
	if s.Lo == 0 && s.N == s.A.W {
		return s.A.Name
	}
	return fmt.Sprintf("%s[%d:%d]", s.A.Name, s.Lo, s.Lo+s.N)
}

// String is the canonical form used for equality.
func (e *Expr) String() string {
	if e == nil {
		return "<nil>"
	}
	if e.str != "" {
		return e.str
	}
	var s string
	switch e.K {
	case kConstI:
		s = fmt.Sprint(e.I)
	case kConstB:
		s = fmt.Sprint(e.B)
	case kConstS:
		s = fmt.Sprintf("%q", e.S)
	case kBV:
		var parts []string
		for i := len(e.Segs) - 1; i >= 0; i-- {
			sg := e.Segs[i]
			if sg.A == nil && sg.C == 0 && i == len(e.Segs)-1 && len(e.Segs) > 1 {
				continue // leading zeros are not significant
			}
			parts = append(parts, sg.String())
		}
		s = strings.Join(parts, "·")
		if len(parts) > 1 {
			s = "⟨" + s + "⟩"
		}
	case kOp:
		switch e.Op {
		case "+", "-", "*":
			s = polyOf(e).String()
		default:
			var as []string
			for _, a := range e.Args {
				as = append(as, a.String())
			}
			if e.Op == "&&" || e.Op == "||" || e.Op == "==" || e.Op == "!=" || e.Op == "|" || e.Op == "&" || e.Op == "^" || e.Op == "mix" {
				sort.Strings(as)
			}
			s = "(" + e.Op + " " + strings.Join(as, " ") + ")"
		}
	}
	e.str = s
	return s
}

// ---------- bit vectors ----------

func bvOfAtom(a *Atom) *Expr {
	return &Expr{K: kBV, W: a.W, Segs: []Seg{{A: a, Lo: 0, N: a.W}}}
}

func normBV(segs []Seg, w int) *Expr {
	// merge adjacent segments, drop zero-width, collapse to constant if fully constant
	var out []Seg
	for _, s := range segs {
		if s.N <= 0 {
			continue
		}
		if n := len(out); n > 0 {
			p := &out[n-1]
			if p.A == nil && s.A == nil && p.Tag == nil && s.Tag == nil && p.N+s.N <= 64 {
				p.C |= s.C << uint(p.N)
				p.N += s.N
				continue
			}
			if p.A != nil && s.A == p.A && s.Lo == p.Lo+p.N {
				p.N += s.N
				continue
			}
		}
		out = append(out, s)
	}
	allConst := true
	for _, s := range out {
		if s.A != nil {
			allConst = false
		}
	}
	if allConst {
		var v uint64
		pos := 0
		var tags []Seg
		for _, s := range out {
			if pos < 64 {
				v |= s.C << uint(pos)
			}
			if s.Tag != nil {
				tags = append(tags, s)
			}
			pos += s.N
		}
		c := cI(int64(v))
		c.Tags = tags
		return c
	}
	return &Expr{K: kBV, W: w, Segs: out}
}

// asBV views an integer expression as a bit vector of width w if possible.
func asBV(e *Expr, w int) (*Expr, bool) {
	switch e.K {
	case kBV:
		if e.W == w {
			return e, true
		}
		return resizeBV(e, w), true
	case kConstI:
		if e.I < 0 && w < 64 {
			return &Expr{K: kBV, W: w, Segs: []Seg{{N: w, C: uint64(e.I) & mask(w)}}}, true
		}
		b := &Expr{K: kBV, W: w, Segs: []Seg{{N: w, C: uint64(e.I) & mask(w)}}}
		if len(e.Tags) > 0 {
			// keep provenance: rebuild from tags when they tile the low bits
			pos := 0
			var segs []Seg
			ok := true
			for _, t := range e.Tags {
				_ = t
				ok = false
				break
			}
			if ok && pos > 0 {
				b.Segs = segs
			}
		}
		return b, true
	}
	return nil, false
}

func resizeBV(e *Expr, w int) *Expr {
	var segs []Seg
	pos := 0
	for _, s := range e.Segs {
		if pos >= w {
			break
		}
		if pos+s.N > w {
			s = sliceSeg(s, 0, w-pos)
		}
		segs = append(segs, s)
		pos += s.N
	}
	if pos < w {
		segs = append(segs, Seg{N: w - pos})
	}
	r := normBV(segs, w)
	return r
}

func sliceSeg(s Seg, off, n int) Seg {
	if s.A == nil {
		t := Seg{N: n, C: (s.C >> uint(off)) & mask(n), Tag: s.Tag, TLo: s.TLo + off}
		return t
	}
	return Seg{A: s.A, Lo: s.Lo + off, N: n}
}

// bvSlice extracts bits [lo, lo+n) of a BV.
func bvSlice(e *Expr, lo, n int) []Seg {
	var out []Seg
	pos := 0
	for _, s := range e.Segs {
		a, b := pos, pos+s.N
		pos = b
		if b <= lo || a >= lo+n {
			continue
		}
		from := 0
		if lo > a {
			from = lo - a
		}
		to := s.N
		if lo+n < b {
			to = lo + n - a
		}
		out = append(out, sliceSeg(s, from, to-from))
	}
	got := 0
	for _, s := range out {
		got += s.N
	}
	if got < n {
		out = append(out, Seg{N: n - got})
	}
	return out
}

func bvShr(e *Expr, k int) *Expr {
	if k >= e.W {
		return cI(0)
	}
	segs := bvSlice(e, k, e.W-k)
	segs = append(segs, Seg{N: k})
	return normBV(segs, e.W)
}
func bvShl(e *Expr, k int) *Expr {
	if k >= e.W {
		return cI(0)
	}
	segs := append([]Seg{{N: k}}, bvSlice(e, 0, e.W-k)...)
	return normBV(segs, e.W)
}
func bvAndConst(e *Expr, m uint64) *Expr {
	var segs []Seg
	pos := 0
	for _, s := range e.Segs {
		// split s by runs of mask bits
		i := 0
		for i < s.N {
			bit := (m >> uint(pos+i)) & 1
			j := i
			for j < s.N && ((m>>uint(pos+j))&1) == bit && pos+j < 64 {
				j++
			}
			if pos+i >= 64 {
				j = s.N
				bit = 0
			}
			if bit == 1 {
				segs = append(segs, sliceSeg(s, i, j-i))
			} else {
				segs = append(segs, Seg{N: j - i})
			}
			i = j
		}
		pos += s.N
	}
	return normBV(segs, e.W)
}

// bvOr merges two bit vectors when at every position at least one side is constant zero
// (or both sides are identical); ok=false otherwise. Works for |, ^ and + alike.
func bvMerge(a, b *Expr, op string) (*Expr, bool) {
	w := a.W
	if b.W > w {
		w = b.W
	}
	a, b = resizeBV2(a, w), resizeBV2(b, w)
	// cut points
	cuts := map[int]bool{0: true, w: true}
	for _, e := range []*Expr{a, b} {
		p := 0
		for _, s := range e.Segs {
			cuts[p] = true
			p += s.N
		}
	}
	var cs []int
	for c := range cuts {
		cs = append(cs, c)
	}
	sort.Ints(cs)
	var segs []Seg
	for i := 0; i+1 < len(cs); i++ {
		lo, n := cs[i], cs[i+1]-cs[i]
		sa, sb := bvSlice(a, lo, n), bvSlice(b, lo, n)
		if len(sa) != 1 || len(sb) != 1 {
			return nil, false
		}
		x, y := sa[0], sb[0]
		switch {
		case x.A == nil && x.C == 0:
			segs = append(segs, y)
		case y.A == nil && y.C == 0:
			segs = append(segs, x)
		case x.A == nil && y.A == nil && op != "+":
			c := x.C | y.C
			if op == "^" {
				c = x.C ^ y.C
			}
			segs = append(segs, Seg{N: n, C: c})
		case op == "|" && x.A == nil && x.C == mask(n):
			segs = append(segs, Seg{N: n, C: mask(n)})
		case op == "|" && y.A == nil && y.C == mask(n):
			segs = append(segs, Seg{N: n, C: mask(n)})
		default:
			return nil, false
		}
	}
	return normBV(segs, w), true
}

func resizeBV2(e *Expr, w int) *Expr {
	if e.K == kBV && e.W == w {
		return e
	}
	r, _ := asBV(e, w)
	if r.K != kBV {
		r = &Expr{K: kBV, W: w, Segs: []Seg{{N: w, C: uint64(r.I) & mask(w)}}}
	}
	return r
}

// ---------- polynomials (for sizes, widths, loop bounds) ----------

type Poly struct {
	T map[string]int64 // monomial key -> coefficient; "" is the constant term
	F map[string][]*Expr
}

func newPoly() *Poly { return &Poly{T: map[string]int64{}, F: map[string][]*Expr{}} }

func polyOf(e *Expr) *Poly {
	p := newPoly()
	switch {
	case e.K == kConstI:
		if e.I != 0 {
			p.T[""] = e.I
		}
	case e.K == kOp && (e.Op == "+" || e.Op == "-"):
		a, b := polyOf(e.Args[0]), polyOf(e.Args[1])
		sgn := int64(1)
		if e.Op == "-" {
			sgn = -1
		}
		for k, v := range a.T {
			p.T[k] += v
			p.F[k] = a.F[k]
		}
		for k, v := range b.T {
			p.T[k] += sgn * v
			p.F[k] = b.F[k]
		}
	case e.K == kOp && e.Op == "*":
		a, b := polyOf(e.Args[0]), polyOf(e.Args[1])
		for ka, va := range a.T {
			for kb, vb := range b.T {
				fs := append(append([]*Expr{}, a.F[ka]...), b.F[kb]...)
				sort.Slice(fs, func(i, j int) bool { return fs[i].String() < fs[j].String() })
				var ks []string
				for _, f := range fs {
					ks = append(ks, f.String())
				}
				k := strings.Join(ks, "*")
				p.T[k] += va * vb
				p.F[k] = fs
			}
		}
	default:
		k := e.String()
		p.T[k] = 1
		p.F[k] = []*Expr{e}
	}
	for k, v := range p.T {
		if v == 0 {
			delete(p.T, k)
			delete(p.F, k)
		}
	}
	return p
}

func (p *Poly) String() string {
	if len(p.T) == 0 {
		return "0"
	}
	var ks []string
	for k := range p.T {
		ks = append(ks, k)
	}
	sort.Strings(ks)
	var sb []string
	for _, k := range ks {
		switch {
		case k == "":
			sb = append(sb, fmt.Sprint(p.T[k]))
		case p.T[k] == 1:
			sb = append(sb, k)
		default:
			sb = append(sb, fmt.Sprintf("%d*%s", p.T[k], k))
		}
	}
	return strings.Join(sb, " + ")
}

// ---------- constructors with folding ----------

type typInfo struct {
	bits   int
	signed bool
}

func truncConst(v int64, t typInfo) int64 {
	if t.bits <= 0 || t.bits >= 64 {
		return v
	}
	u := uint64(v) & mask(t.bits)
	if t.signed && u&(1<<uint(t.bits-1)) != 0 {
		return int64(u | ^mask(t.bits))
	}
	return int64(u)
}

func mergeTags(a, b *Expr) []Seg {
	if len(a.Tags) == 0 {
		return b.Tags
	}
	if len(b.Tags) == 0 {
		return a.Tags
	}
	return append(append([]Seg{}, a.Tags...), b.Tags...)
}

// mkBin builds the value of a binary operation on two integer / boolean / string expressions.
// t is the static result type (for truncation of constants).
func (in *Interp) mkBin(op string, a, b *Expr, t typInfo) *Expr {
	if a == nil || b == nil {
		return nil
	}
	// comparisons and logic
	switch op {
	case "==", "!=", "<", "<=", ">", ">=":
		return in.mkCmp(op, a, b)
	case "&&":
		if v, ok := a.ConstB(); ok {
			if !v {
				return cB(false)
			}
			return b
		}
		if v, ok := b.ConstB(); ok {
			if !v {
				return cB(false)
			}
			return a
		}
		return &Expr{K: kOp, Op: "&&", Args: []*Expr{a, b}}
	case "||":
		if v, ok := a.ConstB(); ok {
			if v {
				return cB(true)
			}
			return b
		}
		if v, ok := b.ConstB(); ok {
			if v {
				return cB(true)
			}
			return a
		}
		return &Expr{K: kOp, Op: "||", Args: []*Expr{a, b}}
	}
	if a.K == kConstS && b.K == kConstS && op == "+" {
		return cS(a.S + b.S)
	}
	ai, aok := a.ConstI()
	bi, bok := b.ConstI()
	if aok && bok {
		var r int64
		switch op {
		case "+":
			r = ai + bi
		case "-":
			r = ai - bi
		case "*":
			r = ai * bi
		case "/":
			if bi == 0 {
				return &Expr{K: kOp, Op: "div0"}
			}
			if !t.signed {
				r = int64(uint64(ai) / uint64(bi))
			} else {
				r = ai / bi
			}
		case "%":
			if bi == 0 {
				return &Expr{K: kOp, Op: "div0"}
			}
			if !t.signed {
				r = int64(uint64(ai) % uint64(bi))
			} else {
				r = ai % bi
			}
		case "&":
			r = ai & bi
		case "|":
			r = ai | bi
		case "^":
			r = ai ^ bi
		case "&^":
			r = ai &^ bi
		case "<<":
			if bi >= 64 {
				r = 0
			} else {
				r = ai << uint(bi)
			}
		case ">>":
			if bi >= 64 {
				r = 0
			} else if t.signed {
				r = ai >> uint(bi)
			} else {
				r = int64(uint64(ai) >> uint(bi))
			}
		default:
			return &Expr{K: kOp, Op: op, Args: []*Expr{a, b}}
		}
		c := cI(truncConst(r, t))
		c.Tags = mergeTags(a, b)
		in.noteConstUse(a, b, op)
		return c
	}
	w := t.bits
	if w <= 0 || w > 64 {
		w = 64
	}
	switch op {
	case ">>", "<<":
		if bok {
			if av, ok := asBV(a, w); ok && av.K == kBV && !(t.signed && op == ">>") {
				if op == ">>" {
					return bvShr(av, int(bi))
				}
				return bvShl(av, int(bi))
			}
		}
	case "&", "&^":
		if bok || aok {
			x, m := a, uint64(bi)
			if aok {
				x, m = b, uint64(ai)
				if op == "&^" {
					break
				}
			}
			if op == "&^" {
				m = ^m
			}
			if xv, ok := asBV(x, w); ok && xv.K == kBV {
				in.noteMask(xv, m)
				return bvAndConst(xv, m)
			}
		}
	case "|", "^", "+":
		av, ok1 := asBV(a, w)
		bv, ok2 := asBV(b, w)
		if ok1 && ok2 {
			if r, ok := bvMerge(resizeBV2(av, w), resizeBV2(bv, w), op); ok {
				return r
			}
		}
	}
	if op == "+" || op == "-" || op == "*" {
		// x*1, x+0
		if bok && (bi == 0 && op != "*" || bi == 1 && op == "*") {
			return a
		}
		if aok && (ai == 0 && op == "+" || ai == 1 && op == "*") {
			return b
		}
		if (aok && ai == 0 || bok && bi == 0) && op == "*" {
			return cI(0)
		}
		e := &Expr{K: kOp, Op: op, Args: []*Expr{a, b}}
		// (x + c1) - c1 and friends: re-normalise through the polynomial
		p := polyOf(e)
		if len(p.T) == 0 {
			return cI(0)
		}
		if len(p.T) == 1 {
			for k, v := range p.T {
				if k == "" {
					return cI(v)
				}
				if v == 1 && len(p.F[k]) == 1 {
					return p.F[k][0]
				}
			}
		}
		return e
	}
	return &Expr{K: kOp, Op: op, Args: []*Expr{a, b}}
}

func (in *Interp) mkCmp(op string, a, b *Expr) *Expr {
	if a.K == kConstS && b.K == kConstS {
		switch op {
		case "==":
			return cB(a.S == b.S)
		case "!=":
			return cB(a.S != b.S)
		}
	}
	if a.K == kConstB && b.K == kConstB {
		switch op {
		case "==":
			return cB(a.B == b.B)
		case "!=":
			return cB(a.B != b.B)
		}
	}
	ai, aok := a.ConstI()
	bi, bok := b.ConstI()
	if aok && bok {
		in.noteConstUse(a, b, "cmp")
		switch op {
		case "==":
			return cB(ai == bi)
		case "!=":
			return cB(ai != bi)
		case "<":
			return cB(ai < bi)
		case "<=":
			return cB(ai <= bi)
		case ">":
			return cB(ai > bi)
		case ">=":
			return cB(ai >= bi)
		}
	}
	// a bit vector that has a non-zero constant bit is != 0 ; identical expressions are equal
	if a.String() == b.String() {
		switch op {
		case "==", "<=", ">=":
			return cB(true)
		default:
			return cB(false)
		}
	}
	// polynomial difference constant?
	if a.K != kConstS && b.K != kConstS && a.K != kConstB && b.K != kConstB {
		d := polyOf(&Expr{K: kOp, Op: "-", Args: []*Expr{a, b}})
		if len(d.T) == 0 || (len(d.T) == 1 && d.T[""] != 0) {
			c := d.T[""]
			switch op {
			case "==":
				return cB(c == 0)
			case "!=":
				return cB(c != 0)
			}
		}
	}
	return &Expr{K: kOp, Op: op, Args: []*Expr{a, b}}
}

func mkNot(a *Expr) *Expr {
	if v, ok := a.ConstB(); ok {
		return cB(!v)
	}
	if a.K == kOp {
		inv := map[string]string{"==": "!=", "!=": "==", "<": ">=", ">=": "<", ">": "<=", "<=": ">"}
		if o, ok := inv[a.Op]; ok {
			return &Expr{K: kOp, Op: o, Args: a.Args}
		}
		if a.Op == "!" {
			return a.Args[0]
		}
	}
	return &Expr{K: kOp, Op: "!", Args: []*Expr{a}}
}

// mkConv converts an integer expression to a type of the given width/signedness.
func mkConv(a *Expr, from, to typInfo) *Expr {
	if a == nil {
		return nil
	}
	if v, ok := a.ConstI(); ok {
		c := cI(truncConst(v, to))
		c.Tags = a.Tags
		return c
	}
	if a.K == kBV {
		if to.bits >= a.W || to.bits == 0 {
			// widening: zero extension is the identity on our representation, sign extension is opaque
			if from.signed && to.bits > from.bits && from.bits > 0 {
				return &Expr{K: kOp, Op: fmt.Sprintf("sext%d", from.bits), Args: []*Expr{resizeBV(a, from.bits)}}
			}
			return a
		}
		return resizeBV(a, to.bits)
	}
	if a.K == kOp && strings.HasPrefix(a.Op, "sext") {
		var fb int
		fmt.Sscanf(a.Op, "sext%d", &fb)
		if to.bits <= fb && to.bits > 0 {
			return mkConv(a.Args[0], typInfo{fb, false}, to)
		}
		return a
	}
	// opaque arithmetic: conversions are transparent (no-overflow assumption, stated in the evidence)
	return a
}

// atomsOf collects the atom slices occurring in an expression.
func atomsOf(e *Expr, out *[]Seg) {
	if e == nil {
		return
	}
	switch e.K {
	case kBV:
		for _, s := range e.Segs {
			if s.A != nil {
				*out = append(*out, s)
			}
		}
	case kOp:
		for _, a := range e.Args {
			atomsOf(a, out)
		}
	}
}

func popcount(x uint64) int { return bits.OnesCount64(x) }

package chk

import (
	"fmt"
	"regexp"
	"sort"
	"strings"
)

var posRe = regexp.MustCompile(` ?\(?(at|from) [\w/.\-]+\.go:\d+:\d+\)?`)
var atRe = regexp.MustCompile(` at $`)

// msgKey strips positions so that obligation keys do not depend on line numbers.
func msgKey(m string) string {
	m = posRe.ReplaceAllString(m, "")
	m = strings.TrimSpace(m)
	if len(m) > 160 {
		m = m[:160]
	}
	return m
}

// reportKind turns the per-configuration problems of one comparator into obligations.
func reportKind(r *Report, rule string, v *boxVerdict, probs map[string]string, applicable bool, what string) {
	name := "mp4." + v.name
	if !applicable {
		return
	}
	if v.tabled != "" {
		r.RuleCounts[rule+"-irregular-table"]++
		r.OK(rule+"-excluded", name, v.pos, "not decided by the layout engine (frozen irregular table): "+v.tabled)
		return
	}
	if v.err != "" {
		r.Undecided(rule, name, v.pos, "exploration incomplete: "+v.err)
		return
	}
	if len(v.irr) > 0 {
		var phases []string
		for ph := range v.irr {
			phases = append(phases, ph)
		}
		sort.Strings(phases)
		r.Undecided(rule, name, v.pos, "construct not modelled by the layout interpreter and box not in the irregular table: "+v.irr[phases[0]])
		return
	}
	// group configurations by kind of disagreement; the obligation key names the class of
	// configurations (facts about the decoded structure) in which it occurs
	byKind := map[string][]string{}
	for cfg, m := range probs {
		k := kindOf(m)
		byKind[k] = append(byKind[k], cfg)
	}
	var msgs []string
	for m := range byKind {
		msgs = append(msgs, m)
	}
	sort.Strings(msgs)
	for _, m := range msgs {
		cfgs := byKind[m]
		sort.Strings(cfgs)
		ex := cfgs[0]
		for _, c := range cfgs {
			if len(c) < len(ex) {
				ex = c
			}
		}
		full := probs[ex]
		class := classOf(v, cfgs)
		key := name + ":" + m
		if class != "" {
			key += ":" + class
		}
		if why, ok := normalisations[v.name+"|"+m+"|"+class]; ok {
			r.OK(rule+"-normalisation", key, v.pos, "committed normalisation: "+why)
			continue
		}
		r.Bad(rule, key, v.pos, fmt.Sprintf("%s — in %d of %d accepted configurations (class %s), e.g. %s: %s", what, len(cfgs), v.nCfg-v.nRej, class, ex, full))
	}
	mode := ""
	if valueIrregular[v.name] != "" && rule == "W-DE" {
		mode = " (shape only: " + valueIrregular[v.name] + ")"
	}
	r.OK(rule, name, v.pos, fmt.Sprintf("%s: %d configurations explored, %d rejected by the decoder, %d stream items%s; %d disagreement classes", v.typ, v.nCfg, v.nRej, v.items, mode, len(msgs)))
}

func wireAssumptions(r *Report) {
	r.Assume("layout engine: integer conversions inside opaque arithmetic are treated as value-preserving (no overflow); loops are analysed on one generic iteration; children of container boxes are opaque")
	r.Assume("configurations: each discriminant is enumerated over the constants it is compared with, their neighbours, one value beyond, and full range for slices of at most 3 bits (5 in the thorough tier); conditions over environment quantities (header size, remaining bytes) guarding an error exit are assumed false (accepted inputs only)")
}

// ruleWDE — decoder and encoder describe the same wire layout and every kept bit is written back (C01).
func ruleWDE(c *Ctx, r *Report) {
	vs := allBoxVerdicts(c, r)
	for _, v := range vs {
		reportKind(r, "W-DE", v, v.de, true, "decoder and encoder disagree on the wire layout")
		// don't-care ledger
		if v.tabled == "" && len(v.irr) == 0 && v.err == "" {
			listed := map[string]bool{}
			for _, d := range dontCareLedger[v.name] {
				listed[d] = true
			}
			var dcs []string
			for d := range v.dontcare {
				dcs = append(dcs, d)
			}
			sort.Strings(dcs)
			for _, d := range dcs {
				if listed[d] {
					r.OK("W-DR", "mp4."+v.name+":"+d, v.pos, "reserved / pre_defined bits on the committed don't-care list")
				} else {
					r.Bad("W-DR", "mp4."+v.name+":"+d, v.pos, "bits that the decoder discards and the encoder fills with a constant are not on the committed don't-care list: a field is dropped on decode")
				}
			}
		}
	}
	r.Floor("W-DE", 90)
	r.Floor("W-DR", 30)
}

// ruleWSE — Size() equals the bytes EncodeSW writes and the header carries Size() (C02).
func ruleWSE(c *Ctx, r *Report) {
	for _, v := range allBoxVerdicts(c, r) {
		reportKind(r, "W-SE", v, v.se, true, "Size() and EncodeSW disagree")
	}
	r.Floor("W-SE", 90)
}

// dumpLedger prints the don't-care runs found on this tree as a Go literal (development aid).
func dumpLedger(c *Ctx, r *Report) {
	for _, v := range allBoxVerdicts(c, r) {
		if len(v.dontcare) == 0 {
			continue
		}
		var dcs []string
		for d := range v.dontcare {
			dcs = append(dcs, fmt.Sprintf("%q", d))
		}
		sort.Strings(dcs)
		fmt.Printf("\t%q: {%s},\n", v.name, strings.Join(dcs, ", "))
	}
	r.OK("DEBUG", "x", "", "")
}

func init() { Registry["WLEDGER"] = dumpLedger }

var numRe = regexp.MustCompile(`[0-9]+`)

// kindOf reduces a disagreement message to its kind.
func kindOf(m string) string {
	m = msgKey(m)
	switch {
	case strings.HasPrefix(m, "encoder writes") && strings.Contains(m, "into bit"):
		return "encoder writes a value into bits the decoder discards"
	case strings.HasPrefix(m, "bit ") && strings.Contains(m, "configured constant"):
		return "encoder does not write back a discriminant value"
	case strings.HasPrefix(m, "bit "):
		return "a kept bit is not written back in place"
	}
	if i := strings.Index(m, ":"); i > 0 {
		m = m[:i]
	}
	if i := strings.Index(m, " = "); i > 0 {
		m = m[:i]
	}
	m = numRe.ReplaceAllString(m, "#")
	if len(m) > 70 {
		m = m[:70]
	}
	return strings.TrimSpace(m)
}

// classOf: for every fact, the set of values it takes over the violating configurations, keeping only
// facts whose set is smaller than the set seen over all accepted configurations (i.e. facts that matter).
func classOf(v *boxVerdict, cfgs []string) string {
	vals := map[string]map[string]bool{}
	for _, c := range cfgs {
		for k, val := range v.factsOf[c] {
			if vals[k] == nil {
				vals[k] = map[string]bool{}
			}
			vals[k][val] = true
		}
	}
	var parts []string
	for k, set := range vals {
		if len(set) >= len(v.factDom[k]) {
			continue
		}
		// the fact must be present in every violating configuration
		all := true
		for _, c := range cfgs {
			if _, ok := v.factsOf[c][k]; !ok {
				all = false
			}
		}
		if !all {
			continue
		}
		var vs []string
		for x := range set {
			vs = append(vs, x)
		}
		sort.Strings(vs)
		parts = append(parts, k+"∈{"+strings.Join(vs, ",")+"}")
	}
	sort.Strings(parts)
	return strings.Join(parts, ";")
}

package chk

// E4 — reachability / effect engine (SSA + VTA call graph).
//   R1  explicit panic / os.Exit / log.Fatal reachable from an entry set
//   R2  who may write package-level state

import (
	"fmt"
	"go/token"
	"go/types"
	"sort"
	"strings"

	"golang.org/x/tools/go/callgraph"
	"golang.org/x/tools/go/packages"
	"golang.org/x/tools/go/ssa"
)

// globalRoot returns the package-level variable an address-like value is rooted at, if any.
// paramRoots maps parameters known (interprocedurally) to carry a global-rooted address.
func globalRoot(v ssa.Value, paramRoots map[*ssa.Parameter]*ssa.Global, seen map[ssa.Value]bool) *ssa.Global {
	if v == nil || seen[v] {
		return nil
	}
	seen[v] = true
	switch x := v.(type) {
	case *ssa.Global:
		return x
	case *ssa.FieldAddr:
		return globalRoot(x.X, paramRoots, seen)
	case *ssa.IndexAddr:
		return globalRoot(x.X, paramRoots, seen)
	case *ssa.Slice:
		return globalRoot(x.X, paramRoots, seen)
	case *ssa.UnOp:
		if x.Op == token.MUL {
			// a pointer / slice / map header loaded from a global refers to shared storage
			if isRefLike(x.Type()) {
				if g := globalRoot(x.X, paramRoots, seen); g != nil {
					return g
				}
				// a pointer read back from a local or a struct field into which the address of package-level
				// storage was stored in this function (ipd.Tenc = &pkgVar; ipd.Tenc.F = …)
				if fn := x.Parent(); fn != nil {
					for _, b := range fn.Blocks {
						for _, ins := range b.Instrs {
							if st, ok := ins.(*ssa.Store); ok && sameAddr(st.Addr, x.X) {
								if g := globalRoot(st.Val, paramRoots, seen); g != nil {
									return g
								}
							}
						}
					}
				}
			}
		}
		return nil
	case *ssa.ChangeType:
		return globalRoot(x.X, paramRoots, seen)
	case *ssa.Convert:
		return globalRoot(x.X, paramRoots, seen)
	case *ssa.Phi:
		for _, e := range x.Edges {
			if g := globalRoot(e, paramRoots, seen); g != nil {
				return g
			}
		}
	case *ssa.Parameter:
		return paramRoots[x]
	case *ssa.Lookup, *ssa.Index:
		// element loaded from a global map/slice: shared only if itself ref-like
		var base ssa.Value
		if l, ok := x.(*ssa.Lookup); ok {
			base = l.X
		} else {
			base = x.(*ssa.Index).X
		}
		if isRefLike(v.Type()) {
			return globalRoot(base, paramRoots, seen)
		}
	case *ssa.Extract:
		if isRefLike(v.Type()) {
			return globalRoot(x.Tuple, paramRoots, seen)
		}
	}
	return nil
}

func isRefLike(t types.Type) bool {
	switch t.Underlying().(type) {
	case *types.Pointer, *types.Slice, *types.Map, *types.Chan:
		return true
	}
	return false
}

type globalWrite struct {
	fn   *ssa.Function
	g    *ssa.Global
	pos  token.Pos
	kind string
}

// findGlobalWrites lists every instruction that writes storage rooted at a package-level variable.
func findGlobalWrites(c *Ctx, fns []*ssa.Function) (writes []globalWrite, nparams int) {
	paramRoots := map[*ssa.Parameter]*ssa.Global{}
	cg := c.CallGraph()
	// propagate "argument is a global-rooted address" into repo callees (fixpoint)
	inSet := map[*ssa.Function]bool{}
	for _, f := range fns {
		inSet[f] = true
	}
	for changed, iter := true, 0; changed && iter < 10; iter++ {
		changed = false
		for _, f := range fns {
			node := cg.Nodes[f]
			if node == nil {
				continue
			}
			for _, e := range node.Out {
				callee := e.Callee.Func
				if !inSet[callee] || e.Site == nil {
					continue
				}
				args := e.Site.Common().Args
				params := callee.Params
				off := 0
				if e.Site.Common().IsInvoke() {
					off = 1 // receiver is params[0]
				}
				for i, a := range args {
					if i+off >= len(params) {
						break
					}
					if !isRefLike(a.Type()) {
						continue
					}
					if g := globalRoot(a, paramRoots, map[ssa.Value]bool{}); g != nil {
						if paramRoots[params[i+off]] == nil {
							paramRoots[params[i+off]] = g
							changed = true
						}
					}
				}
			}
		}
	}
	for _, f := range fns {
		for _, b := range f.Blocks {
			for _, ins := range b.Instrs {
				var addr ssa.Value
				kind := ""
				switch x := ins.(type) {
				case *ssa.Store:
					addr, kind = x.Addr, "store"
				case *ssa.MapUpdate:
					addr, kind = x.Map, "map update"
				case *ssa.Call:
					if bi, ok := x.Call.Value.(*ssa.Builtin); ok {
						switch bi.Name() {
						case "copy", "delete", "clear":
							if len(x.Call.Args) > 0 {
								addr, kind = x.Call.Args[0], bi.Name()
							}
						}
					} else if cal := x.Call.StaticCallee(); (cal == nil || !inRepo(cal)) && !x.Call.IsInvoke() {
						// shared storage handed to code outside the repository (binary.PutUint32(buf[:]), sort.Slice(tbl), …):
						// it may be written there
						for _, a := range x.Call.Args {
							if !isRefLike(a.Type()) {
								continue
							}
							if g := globalRoot(a, paramRoots, map[ssa.Value]bool{}); g != nil {
								name := "<dynamic>"
								if cal != nil {
									name = cal.String()
								}
								if pureCallees[name] {
									continue
								}
								writes = append(writes, globalWrite{f, g, ins.Pos(), "passed to " + name})
							}
						}
					}
				}
				if addr == nil {
					continue
				}
				if g := globalRoot(addr, paramRoots, map[ssa.Value]bool{}); g != nil {
					writes = append(writes, globalWrite{f, g, ins.Pos(), kind})
				}
			}
		}
	}
	return writes, len(paramRoots)
}

func isInitFunc(f *ssa.Function) bool {
	for q := f; q != nil; q = q.Parent() {
		if q.Name() == "init" || strings.HasPrefix(q.Name(), "init#") {
			return true
		}
	}
	return false
}

// ruleR2 — who may write package-level state.
func ruleR2(c *Ctx, r *Report, allowed map[string]bool) {
	fns := c.RepoFuncs(nil)
	writes, _ := findGlobalWrites(c, fns)
	// enumerate package-level variables of library packages
	nglob := 0
	var mutableTypes []string
	for _, p := range c.Pkgs {
		if !IsLib(p) {
			continue
		}
		sp := c.SSAPkg(p)
		var names []string
		for n, m := range sp.Members {
			if _, ok := m.(*ssa.Global); ok && !strings.HasPrefix(n, "init$") {
				names = append(names, n)
			}
		}
		sort.Strings(names)
		for _, n := range names {
			g := sp.Members[n].(*ssa.Global)
			nglob++
			// a package-level value of a synchronisation / pool type is hidden shared state by construction
			if ts := g.Type().(*types.Pointer).Elem().String(); strings.Contains(ts, "sync.") || strings.Contains(ts, "atomic.") {
				mutableTypes = append(mutableTypes, n)
				r.Bad("R2-type", pkgShort(p)+"."+n, c.Pos(g.Pos()), "package-level variable of synchronisation type "+ts+": hidden shared mutable state")
			}
		}
	}
	// one obligation per package-level variable of the library: who writes it outside init
	writersOf := map[string][]string{}
	for _, w := range writes {
		if isInitFunc(w.fn) {
			continue
		}
		k := strings.TrimPrefix(strings.TrimPrefix(w.g.Pkg.Pkg.Path(), ModPath), "/") + "." + w.g.Name()
		writersOf[k] = append(writersOf[k], SSAFuncName(w.fn))
	}
	for _, p := range c.Pkgs {
		if !IsLib(p) {
			continue
		}
		sp := c.SSAPkg(p)
		var names []string
		for n, m := range sp.Members {
			if _, ok := m.(*ssa.Global); ok && !strings.HasPrefix(n, "init$") {
				names = append(names, n)
			}
		}
		sort.Strings(names)
		for _, n := range names {
			g := sp.Members[n].(*ssa.Global)
			k := pkgShort(p) + "." + n
			ws := writersOf[k]
			okAll := true
			for _, w := range ws {
				if !allowed[w] {
					okAll = false
				}
			}
			if okAll {
				d := "written only during package initialisation"
				if len(ws) > 0 {
					d = "written outside init only by the registry mutators"
				}
				r.OK("R2-globals", k, c.Pos(g.Pos()), d)
			}
			// the violating writers are reported per (function, variable) below
		}
	}
	r.Floor("R2-globals", 25)
	seenAllowed := map[string]bool{}
	type key struct{ fn, g string }
	byKey := map[key]globalWrite{}
	var keys []key
	for _, w := range writes {
		if isInitFunc(w.fn) {
			continue
		}
		gp := w.g.Pkg.Pkg.Path()
		if !strings.HasPrefix(gp, ModPath) {
			continue // writing to another module's globals (none expected) is out of scope
		}
		k := key{SSAFuncName(w.fn), strings.TrimPrefix(strings.TrimPrefix(gp, ModPath), "/") + "." + w.g.Name()}
		if _, ok := byKey[k]; !ok {
			byKey[k] = w
			keys = append(keys, k)
		}
	}
	sort.Slice(keys, func(i, j int) bool { return keys[i].fn+keys[i].g < keys[j].fn+keys[j].g })
	for _, k := range keys {
		w := byKey[k]
		lib := true
		if w.fn.Package() != nil {
			if p := c.ByPath[w.fn.Package().Pkg.Path()]; p != nil {
				lib = IsLib(p)
			}
		}
		gLib := true
		if p := c.ByPath[w.g.Pkg.Pkg.Path()]; p != nil {
			gLib = IsLib(p)
		}
		name := k.fn + ":" + k.g
		switch {
		case allowed[k.fn]:
			seenAllowed[k.fn] = true
			r.OK("R2", name, c.Pos(w.pos), "registry mutator on the allow-list ("+w.kind+")")
		case !lib && !gLib:
			r.OK("R2-tools", name, c.Pos(w.pos), "command-line tool writes its own package state ("+w.kind+"); not library state")
		default:
			r.Bad("R2", name, c.Pos(w.pos), fmt.Sprintf("%s writes package-level variable %s (%s) outside init and outside the registry mutators: hidden shared mutable state", k.fn, k.g, w.kind))
		}
	}
	for a := range allowed {
		if !seenAllowed[a] {
			r.Undecided("R2", "anchor:"+a, "", "allow-listed registry mutator "+a+" no longer writes a global (anchor lost)")
		}
	}
	r.Floor("R2", len(allowed))
	_ = mutableTypes
}

func pkgShort(p *packages.Package) string {
	return strings.TrimPrefix(strings.TrimPrefix(p.PkgPath, ModPath), "/")
}

// ---------------------------------------------------------------------------
// R1: explicit panics reachable from an entry set

type panicSite struct {
	fn   *ssa.Function
	pos  token.Pos
	kind string
}

func explicitPanicSites(fns []*ssa.Function) []panicSite {
	var out []panicSite
	for _, f := range fns {
		for _, b := range f.Blocks {
			for _, ins := range b.Instrs {
				switch x := ins.(type) {
				case *ssa.Panic:
					out = append(out, panicSite{f, x.Pos(), "panic"})
				case *ssa.Call:
					if cal := x.Call.StaticCallee(); cal != nil && cal.Pkg != nil {
						pk := cal.Pkg.Pkg.Path()
						n := cal.Name()
						if pk == "os" && n == "Exit" || pk == "log" && (strings.HasPrefix(n, "Fatal") || strings.HasPrefix(n, "Panic")) {
							out = append(out, panicSite{f, x.Pos(), pk + "." + n})
						}
					}
				}
			}
		}
	}
	return out
}

// reachable computes the set of functions reachable from entries over the call graph,
// remembering one predecessor for chain reconstruction.
func reachable(cg *callgraph.Graph, entries []*ssa.Function) (map[*ssa.Function]*ssa.Function, []*ssa.Function) {
	pred := map[*ssa.Function]*ssa.Function{}
	var order []*ssa.Function
	var queue []*ssa.Function
	for _, e := range entries {
		if _, ok := pred[e]; !ok {
			pred[e] = nil
			queue = append(queue, e)
		}
	}
	for len(queue) > 0 {
		f := queue[0]
		queue = queue[1:]
		order = append(order, f)
		n := cg.Nodes[f]
		if n == nil {
			continue
		}
		// deterministic order
		outs := append([]*callgraph.Edge(nil), n.Out...)
		sort.Slice(outs, func(i, j int) bool { return outs[i].Callee.Func.String() < outs[j].Callee.Func.String() })
		for _, e := range outs {
			cal := e.Callee.Func
			if _, ok := pred[cal]; !ok {
				pred[cal] = f
				queue = append(queue, cal)
			}
		}
		// anonymous functions defined inside are conservatively reachable
		for _, an := range f.AnonFuncs {
			if _, ok := pred[an]; !ok {
				pred[an] = f
				queue = append(queue, an)
			}
		}
	}
	return pred, order
}

func chainTo(pred map[*ssa.Function]*ssa.Function, f *ssa.Function) string {
	var names []string
	for q := f; q != nil; q = pred[q] {
		names = append(names, SSAFuncName(q))
		if len(names) > 12 {
			names = append(names, "…")
			break
		}
	}
	for i, j := 0, len(names)-1; i < j; i, j = i+1, j-1 {
		names[i], names[j] = names[j], names[i]
	}
	return strings.Join(names, " → ")
}

func inRepo(f *ssa.Function) bool {
	for q := f; q != nil; q = q.Parent() {
		if q.Pkg != nil {
			return strings.HasPrefix(q.Pkg.Pkg.Path(), ModPath)
		}
		if o := q.Origin(); o != nil && o.Pkg != nil {
			return strings.HasPrefix(o.Pkg.Pkg.Path(), ModPath)
		}
	}
	return false
}

// pureCallees: functions outside the repository that are known not to write through their reference arguments.
var pureCallees = map[string]bool{
	"bytes.Equal": true, "bytes.Compare": true, "bytes.HasPrefix": true, "bytes.Contains": true, "bytes.Index": true,
	"encoding/hex.EncodeToString": true, "strings.Join": true, "fmt.Sprintf": true, "fmt.Errorf": true, "fmt.Fprintf": true,
	"fmt.Sprint": true, "fmt.Println": true, "fmt.Printf": true, "fmt.Fprintln": true,
}

package chk

// G-NIL survey / rule: loads through pointer-typed struct fields that hold optional children.

import (
	"fmt"
	"go/constant"
	"go/token"
	"go/types"
	"sort"
	"strings"

	"golang.org/x/tools/go/ssa"
)

// optionalChildFields: pointer-typed fields of box structs that are assigned only from a decoded/added child
// (in AddChild-like switch arms or decoders), i.e. nil when the child is absent.
func optionalChildFields(c *Ctx) map[*types.Var]bool {
	out := map[*types.Var]bool{}
	p := c.Pkg("mp4")
	if p == nil {
		return out
	}
	for _, f := range c.RepoFuncs(IsLib) {
		if f.Pkg == nil || f.Pkg.Pkg != p.Types || f.Name() != "AddChild" {
			continue
		}
		for _, b := range f.Blocks {
			for _, ins := range b.Instrs {
				st, ok := ins.(*ssa.Store)
				if !ok {
					continue
				}
				fa, ok := st.Addr.(*ssa.FieldAddr)
				if !ok {
					continue
				}
				fv := fieldVar(fa.X.Type(), fa.Field)
				if fv == nil {
					continue
				}
				if _, isPtr := fv.Type().Underlying().(*types.Pointer); isPtr {
					out[fv] = true
				}
			}
		}
	}
	return out
}

type nilSite struct {
	f    *ssa.Function
	ins  ssa.Instruction
	fv   *types.Var
	path string
}

// nilDerefSites: dereferences (field address, method call with pointer receiver that derefs, index) of a value
// loaded from an optional child field, with no dominating nil test of that field.
func nilDerefSites(c *Ctx, scope map[*ssa.Function]bool) []nilSite {
	return nilDerefSitesOf(c, scope, optionalChildFields(c))
}

// nilDerefSitesOf: the same over a given set of optional pointer fields.
func nilDerefSitesOf(c *Ctx, scope map[*ssa.Function]bool, opt map[*types.Var]bool) []nilSite {
	var out []nilSite
	var fns []*ssa.Function
	for f := range scope {
		fns = append(fns, f)
	}
	sort.Slice(fns, func(i, j int) bool { return fns[i].String() < fns[j].String() })
	for _, f := range fns {
		if f.Synthetic != "" {
			continue
		}
		for _, b := range f.Blocks {
			for _, ins := range b.Instrs {
				var base ssa.Value
				switch x := ins.(type) {
				case *ssa.FieldAddr:
					base = x.X
				case ssa.CallInstruction:
					com := x.Common()
					if com.IsInvoke() || len(com.Args) == 0 {
						continue
					}
					g := com.StaticCallee()
					if g == nil || g.Signature.Recv() == nil || !derefsReceiver(g) {
						continue
					}
					base = com.Args[0]
				default:
					continue
				}
				// base is a load of an optional child field
				ld, ok := base.(*ssa.UnOp)
				if !ok || ld.Op != token.MUL {
					continue
				}
				src, ok := ld.X.(*ssa.FieldAddr)
				if !ok {
					continue
				}
				fv := fieldVar(src.X.Type(), src.Field)
				if fv == nil || !opt[fv] {
					continue
				}
				if nilTested(ld, b) || freshNonNil(f, ld, b) || correlatedNonNil(ld, b) {
					continue
				}
				out = append(out, nilSite{f, ins, fv, typeName(src.X.Type()) + "." + fv.Name()})
			}
		}
	}
	return out
}

// nilTested: a dominating test `field != nil` (or == nil with the other arm leaving) on a load of the same field.
func nilTested(ld *ssa.UnOp, b *ssa.BasicBlock) bool {
	found := false
	hasDominatingTest(ld, b, func(cond ssa.Value, truth bool) bool {
		var visit func(v ssa.Value, tr bool, d int) bool
		visit = func(v ssa.Value, tr bool, d int) bool {
			if d > 4 {
				return false
			}
			switch x := v.(type) {
			case *ssa.UnOp:
				if x.Op == token.NOT {
					return visit(x.X, !tr, d+1)
				}
			case *ssa.BinOp:
				if x.Op != token.EQL && x.Op != token.NEQ {
					return false
				}
				var other ssa.Value
				if k, ok := x.Y.(*ssa.Const); ok && k.Value == nil {
					other = x.X
				} else if k, ok := x.X.(*ssa.Const); ok && k.Value == nil {
					other = x.Y
				}
				if other == nil || !sameSSA(other, ld) {
					return false
				}
				nonNil := (x.Op == token.NEQ) == tr
				return nonNil
			case *ssa.Phi:
				// short circuit
				for i, e := range x.Edges {
					if _, isC := e.(*ssa.Const); isC {
						p := x.Block().Preds[i]
						if len(p.Instrs) > 0 {
							if ifi, ok := p.Instrs[len(p.Instrs)-1].(*ssa.If); ok && visit(ifi.Cond, tr, d+1) {
								return true
							}
						}
						continue
					}
					if visit(e, tr, d+1) {
						return true
					}
				}
			}
			return false
		}
		if visit(cond, truth, 0) {
			found = true
			return true
		}
		return false
	})
	return found
}

func surveyNil(c *Ctx, r *Report) {
	entries := entriesC04(c)
	scope, _ := scopeFrom(c, entries)
	sites := nilDerefSites(c, scope)
	cnt := map[string]int{}
	for _, s := range sites {
		k := SSAFuncName(s.f) + " " + s.path
		cnt[k]++
	}
	var ks []string
	for k := range cnt {
		ks = append(ks, k)
	}
	sort.Strings(ks)
	for _, k := range ks {
		fmt.Printf("%3d %s\n", cnt[k], k)
	}
	fmt.Printf("total sites %d, function/field pairs %d, optional fields %d\n", len(sites), len(ks), len(optionalChildFields(c)))
}

func init() { Registry["WNIL"] = surveyNil }

// freshNonNil: a store to the same field with a value that cannot be nil (a constructor that returns a fresh
// allocation, an allocation, the matched value of a type switch arm) dominates the load.
func freshNonNil(f *ssa.Function, ld *ssa.UnOp, b *ssa.BasicBlock) bool {
	for _, bb := range f.Blocks {
		for _, ins := range bb.Instrs {
			st, ok := ins.(*ssa.Store)
			if !ok || !sameAddr(st.Addr, ld.X) {
				continue
			}
			if !(bb.Dominates(b) && (bb != b || instrBefore(st, ld))) {
				continue
			}
			if valueNonNil(st.Val, 0) {
				return true
			}
		}
	}
	return false
}

func instrBefore(a, b ssa.Instruction) bool {
	for _, ins := range a.Block().Instrs {
		if ins == a {
			return true
		}
		if ins == b {
			return false
		}
	}
	return false
}

func valueNonNil(v ssa.Value, depth int) bool {
	if depth > 4 {
		return false
	}
	switch x := v.(type) {
	case *ssa.Alloc:
		return true
	case *ssa.TypeAssert:
		return true // the matched value of a type switch arm / checked assertion: decoders return non-nil boxes
	case *ssa.Extract:
		if _, ok := x.Tuple.(*ssa.TypeAssert); ok && x.Index == 0 {
			return true
		}
	case *ssa.Call:
		g := x.Call.StaticCallee()
		if g == nil || len(g.Blocks) == 0 {
			return false
		}
		all := true
		n := 0
		for _, b := range g.Blocks {
			for _, ins := range b.Instrs {
				if ret, ok := ins.(*ssa.Return); ok && len(ret.Results) > 0 {
					n++
					if !valueNonNil(ret.Results[0], depth+1) {
						all = false
					}
				}
			}
		}
		return all && n > 0
	case *ssa.Phi:
		for _, e := range x.Edges {
			if !valueNonNil(e, depth+1) {
				return false
			}
		}
		return len(x.Edges) > 0
	}
	return false
}

// nil facts: key -> true (non-nil) / false (nil)
type nilFacts map[string]bool

func condNilFacts(cond ssa.Value, truth bool, out nilFacts) {
	switch x := cond.(type) {
	case *ssa.UnOp:
		if x.Op == token.NOT {
			condNilFacts(x.X, !truth, out)
		}
	case *ssa.BinOp:
		if x.Op != token.EQL && x.Op != token.NEQ {
			return
		}
		var other ssa.Value
		if k, ok := x.Y.(*ssa.Const); ok && k.Value == nil {
			other = x.X
		} else if k, ok := x.X.(*ssa.Const); ok && k.Value == nil {
			other = x.Y
		}
		if other == nil {
			return
		}
		k := exprKey(other, nil, 0)
		if k == "" || k == "?" {
			return
		}
		out[k] = (x.Op == token.NEQ) == truth
	}
}

// edgeFacts: what holds when control goes from p to its successor s.
func edgeFacts(p, s *ssa.BasicBlock) nilFacts {
	out := nilFacts{}
	if len(p.Instrs) == 0 {
		return out
	}
	if ifi, ok := p.Instrs[len(p.Instrs)-1].(*ssa.If); ok && p.Succs[0] != p.Succs[1] {
		condNilFacts(ifi.Cond, p.Succs[0] == s, out)
	}
	return out
}

// chainFacts: facts from the dominating single-arm tests of b.
func chainFacts(b *ssa.BasicBlock) nilFacts {
	out := nilFacts{}
	hasDominatingTest(nil, b, func(cond ssa.Value, truth bool) bool {
		condNilFacts(cond, truth, out)
		return false
	})
	return out
}

// correlatedNonNil: at b, the loaded field is non-nil because every way into some dominating join block either
// establishes that, or contradicts what is known at b (`if A == nil && B == nil {return}; if A != nil {…} else {use B}`).
func correlatedNonNil(ld *ssa.UnOp, b *ssa.BasicBlock) bool {
	want := exprKey(ld, nil, 0)
	if want == "" || want == "?" {
		return false
	}
	known := chainFacts(b)
	for d := b; d != nil; d = d.Idom() {
		if len(d.Preds) < 2 {
			continue
		}
		ok := true
		n := 0
		for _, p := range d.Preds {
			if d.Dominates(p) {
				continue // back edge
			}
			ef := edgeFacts(p, d)
			for k, v := range chainFacts(p) {
				if _, has := ef[k]; !has {
					ef[k] = v
				}
			}
			contradicts := false
			for k, v := range ef {
				if kv, has := known[k]; has && kv != v {
					contradicts = true
				}
			}
			if contradicts {
				continue
			}
			n++
			if v, has := ef[want]; !has || !v {
				ok = false
			}
		}
		if ok && n > 0 {
			return true
		}
	}
	return false
}

// ruleGNIL — a field of a box that holds an optional child (set only by AddChild when such a child exists) is
// dereferenced — field access or a call of a method that reads its receiver's fields — only after a nil test
// of that field, a store of a fresh value to it, or, for fields of the method's own receiver, a nil test at
// every call site in the repository.
func ruleGNIL(c *Ctx, r *Report, scope map[*ssa.Function]bool, floor int) {
	sites := nilDerefSites(c, scope)
	opt := optionalChildFields(c)
	r.Extra["GNIL_optional_child_fields"] = len(opt)
	// total number of dereferences examined (guarded ones included) for the floor
	examined := 0
	for f := range scope {
		for _, b := range f.Blocks {
			for _, ins := range b.Instrs {
				if fa, ok := ins.(*ssa.FieldAddr); ok {
					if ld, ok := fa.X.(*ssa.UnOp); ok {
						if src, ok := ld.X.(*ssa.FieldAddr); ok {
							if fv := fieldVar(src.X.Type(), src.Field); fv != nil && opt[fv] {
								examined++
							}
						}
					}
				}
			}
		}
	}
	r.Extra["GNIL_dereferences_examined"] = examined
	if examined < floor {
		r.Undecided("G-NIL", "scope", "", fmt.Sprintf("only %d dereferences of optional child fields found (floor %d)", examined, floor))
	} else {
		r.OK("G-NIL", "scope", "", fmt.Sprintf("%d dereferences of %d optional child fields examined", examined, len(opt)))
	}
	seen := map[string]bool{}
	for _, s := range sites {
		key := SSAFuncName(s.f) + ":" + s.path
		if seen[key] {
			continue
		}
		seen[key] = true
		// receiver field guarded by every caller?
		if why := callersGuard(c, s); why != "" {
			r.OK("G-NIL", key, c.Pos(s.ins.Pos()), why)
			continue
		}
		r.Bad("G-NIL", key, c.Pos(s.ins.Pos()), s.path+" is nil when the box has no such child, and is dereferenced here with no dominating nil test: nil pointer dereference")
	}
}

// callersGuard: the dereferenced field belongs to the function's receiver and every repository call site tests
// that field of its receiver argument for nil first.
func callersGuard(c *Ctx, s nilSite) string {
	var base ssa.Value
	switch x := s.ins.(type) {
	case *ssa.FieldAddr:
		base = x.X
	case ssa.CallInstruction:
		base = x.Common().Args[0]
	}
	ld, ok := base.(*ssa.UnOp)
	if !ok {
		return ""
	}
	src, ok := ld.X.(*ssa.FieldAddr)
	if !ok || len(s.f.Params) == 0 || src.X != ssa.Value(s.f.Params[0]) || s.f.Signature.Recv() == nil {
		return ""
	}
	node := c.CallGraph().Nodes[s.f]
	if node == nil {
		return ""
	}
	n := 0
	for _, e := range node.In {
		if e.Site == nil || e.Site.Common().IsInvoke() {
			return ""
		}
		if isTestFile(c, e.Caller.Func) {
			continue
		}
		n++
		arg := e.Site.Common().Args[0]
		// a load of the same field of arg in the caller, nil-tested before the call
		ok := false
		for _, b := range e.Caller.Func.Blocks {
			for _, ins := range b.Instrs {
				l2, isLd := ins.(*ssa.UnOp)
				if !isLd || l2.Op != token.MUL {
					continue
				}
				fa, isFa := l2.X.(*ssa.FieldAddr)
				if !isFa || fa.Field != src.Field || !sameSSA(fa.X, arg) {
					continue
				}
				if nilTested(l2, e.Site.Block()) {
					ok = true
				}
			}
		}
		if !ok {
			return ""
		}
	}
	if n == 0 {
		return ""
	}
	return fmt.Sprintf("field of the receiver: all %d repository call sites test it for nil before the call", n)
}

func isTestFile(c *Ctx, f *ssa.Function) bool {
	for q := f; q != nil; q = q.Parent() {
		if q.Pos().IsValid() {
			fn := c.Fset.Position(q.Pos()).Filename
			return len(fn) > 8 && fn[len(fn)-8:] == "_test.go"
		}
	}
	return false
}

var derefCache = map[*ssa.Function]bool{}

// derefsReceiver: the method reads or writes a field of its pointer receiver without testing it for nil.
func derefsReceiver(g *ssa.Function) bool {
	if v, ok := derefCache[g]; ok {
		return v
	}
	res := false
	if len(g.Params) > 0 {
		recv := g.Params[0]
		if _, isPtr := recv.Type().Underlying().(*types.Pointer); isPtr {
			tested := false
			for _, b := range g.Blocks {
				for _, ins := range b.Instrs {
					if bo, ok := ins.(*ssa.BinOp); ok && (bo.Op == token.EQL || bo.Op == token.NEQ) && (bo.X == ssa.Value(recv) || bo.Y == ssa.Value(recv)) {
						tested = true
					}
					// the test may sit in a checking helper the receiver is handed to (t.checkX() testing t == nil)
					if call, ok := ins.(*ssa.Call); ok {
						if h := call.Call.StaticCallee(); h != nil && len(h.Blocks) > 0 && len(h.Params) == len(call.Call.Args) {
							for i, a := range call.Call.Args {
								if a != ssa.Value(recv) {
									continue
								}
								for _, hb := range h.Blocks {
									for _, hi := range hb.Instrs {
										if bo, ok := hi.(*ssa.BinOp); ok && (bo.Op == token.EQL || bo.Op == token.NEQ) && (bo.X == ssa.Value(h.Params[i]) || bo.Y == ssa.Value(h.Params[i])) {
											tested = true
										}
									}
								}
							}
						}
					}
				}
			}
			if !tested {
				for _, b := range g.Blocks {
					for _, ins := range b.Instrs {
						if fa, ok := ins.(*ssa.FieldAddr); ok && fa.X == ssa.Value(recv) {
							res = true
						}
					}
				}
			}
		}
	}
	derefCache[g] = res
	return res
}

func surveyAssert(c *Ctx, r *Report) {
	for _, nm := range []string{"C04", "C16"} {
		var entries []*ssa.Function
		if nm == "C04" {
			entries = entriesC04(c)
		} else {
			entries = entriesC16(c)
		}
		scope, _ := scopeFrom(c, entries)
		var fns []*ssa.Function
		for f := range scope {
			fns = append(fns, f)
		}
		sort.Slice(fns, func(i, j int) bool { return fns[i].String() < fns[j].String() })
		n := 0
		for _, f := range fns {
			if f.Synthetic != "" {
				continue
			}
			for _, b := range f.Blocks {
				for _, ins := range b.Instrs {
					ta, ok := ins.(*ssa.TypeAssert)
					if !ok || ta.CommaOk {
						continue
					}
					n++
					fmt.Printf("%s %s: %s.(%s) at %s\n", nm, SSAFuncName(f), ta.X.Name(), ta.AssertedType, c.Pos(ta.Pos()))
				}
			}
		}
		fmt.Println(nm, "unchecked assertions:", n)
	}
}

func init() { Registry["WASSERT"] = surveyAssert }

// ruleGASSERT — an unchecked type assertion v.(*T) on a Box is justified by the box-type name tested just
// before it: every decoder registered under that name (both registries) returns exactly *T; or v is the result
// of a call whose concrete result type is *T.
func ruleGASSERT(c *Ctx, r *Report, scope map[*ssa.Function]bool, floor int) {
	p := c.Pkg("mp4")
	scratch := NewReport("scratch")
	dec, decSR := ruleTREG(c, scratch)
	if p == nil || dec == nil {
		r.Undecided("G-ASSERT", "anchor:registries", "", "registries not readable")
		return
	}
	prog := c.SSA()
	typesOf := func(name string) map[string]bool {
		out := map[string]bool{}
		for _, m := range []map[string]*types.Func{dec, decSR} {
			if fn, ok := m[name]; ok {
				concreteReturnTypes(c, prog.FuncValue(fn), 0, map[*ssa.Function]bool{}, out)
			} else {
				out["<not registered>"] = true
			}
		}
		return out
	}
	var fns []*ssa.Function
	for f := range scope {
		fns = append(fns, f)
	}
	sort.Slice(fns, func(i, j int) bool { return fns[i].String() < fns[j].String() })
	n := 0
	cnt := map[string]int{}
	for _, f := range fns {
		if f.Synthetic != "" {
			continue
		}
		for _, b := range f.Blocks {
			for _, ins := range b.Instrs {
				ta, ok := ins.(*ssa.TypeAssert)
				if !ok || ta.CommaOk {
					continue
				}
				n++
				want := types.TypeString(ta.AssertedType, func(p *types.Package) string { return p.Name() })
				base := fmt.Sprintf("%s:.(%s)", SSAFuncName(f), want)
				cnt[base]++
				key := base
				if cnt[base] > 1 {
					key = fmt.Sprintf("%s#%d", base, cnt[base])
				}
				// (a) result of a call with a single concrete type
				if ex, ok := ta.X.(*ssa.Extract); ok {
					if call, ok := ex.Tuple.(*ssa.Call); ok {
						if g := call.Call.StaticCallee(); g != nil && inRepo(g) {
							got := map[string]bool{}
							concreteReturnTypes(c, g, ex.Index, map[*ssa.Function]bool{}, got)
							if len(got) == 1 && got[want] {
								r.OK("G-ASSERT", key, c.Pos(ta.Pos()), "the asserted value is the result of "+SSAFuncName(g)+", which returns only "+want)
								continue
							}
						}
					}
				}
				// (b) names tested by the dominating string comparisons
				var names []string
				hasDominatingTest(nil, b, func(cond ssa.Value, truth bool) bool {
					bo, ok := cond.(*ssa.BinOp)
					if !ok || bo.Op != token.EQL || !truth {
						return false
					}
					for i, o := range []ssa.Value{bo.X, bo.Y} {
						k, isC := o.(*ssa.Const)
						if !isC || k.Value == nil || k.Value.Kind() != constant.String {
							continue
						}
						other := []ssa.Value{bo.Y, bo.X}[i]
						if isTypeNameOf(other, ta.X) {
							names = append(names, constant.StringVal(k.Value))
						}
					}
					return false
				})
				// switch arms sharing a body: several names jump to the block; collect from all predecessors
				if len(names) == 0 {
					names = namesFromPreds(b, ta.X)
				}
				if len(names) == 0 {
					r.Bad("G-ASSERT", key, c.Pos(ta.Pos()), "unchecked type assertion with no dominating test of the box type name and not on the result of a typed decoder: panics when the value has another type")
					continue
				}
				bad := ""
				for _, nm := range names {
					got := typesOf(nm)
					if len(got) != 1 || !got[want] {
						var l []string
						for t := range got {
							l = append(l, t)
						}
						sort.Strings(l)
						bad += fmt.Sprintf("boxes named %q are decoded as %v; ", nm, l)
					}
				}
				if bad != "" {
					r.Bad("G-ASSERT", key, c.Pos(ta.Pos()), "unchecked type assertion to "+want+": "+bad)
				} else {
					r.OK("G-ASSERT", key, c.Pos(ta.Pos()), fmt.Sprintf("under the name test %q; the registered decoders for it return only %s", names, want))
				}
			}
		}
	}
	if n < floor {
		r.Undecided("G-ASSERT", "scope", "", fmt.Sprintf("only %d unchecked assertions found (floor %d)", n, floor))
	}
}

// isTypeNameOf: v is X.Type() for the interface value X (same SSA value), directly or via a local.
func isTypeNameOf(v, X ssa.Value) bool {
	switch x := v.(type) {
	case *ssa.Call:
		if x.Call.IsInvoke() && x.Call.Method.Name() == "Type" && sameSSA(x.Call.Value, X) {
			return true
		}
	case *ssa.Extract:
		return false
	case *ssa.Phi:
		for _, e := range x.Edges {
			if !isTypeNameOf(e, X) {
				return false
			}
		}
		return len(x.Edges) > 0
	}
	return false
}

// namesFromPreds: the block is the shared body of several `case "a", "b":` labels: every predecessor ends in a
// comparison of X.Type() with a constant and jumps here on equality.
func namesFromPreds(b *ssa.BasicBlock, X ssa.Value) []string {
	var names []string
	var collect func(blk *ssa.BasicBlock, depth int) bool
	collect = func(blk *ssa.BasicBlock, depth int) bool {
		if depth > 3 || len(blk.Preds) == 0 {
			return false
		}
		for _, p := range blk.Preds {
			if len(p.Instrs) == 0 {
				return false
			}
			ifi, ok := p.Instrs[len(p.Instrs)-1].(*ssa.If)
			if !ok || p.Succs[0] != blk {
				return false
			}
			bo, ok := ifi.Cond.(*ssa.BinOp)
			if !ok || bo.Op != token.EQL {
				return false
			}
			found := false
			for i, o := range []ssa.Value{bo.X, bo.Y} {
				if k, isC := o.(*ssa.Const); isC && k.Value != nil && k.Value.Kind() == constant.String {
					if isTypeNameOf([]ssa.Value{bo.Y, bo.X}[i], X) {
						names = append(names, constant.StringVal(k.Value))
						found = true
					}
				}
			}
			if !found {
				return false
			}
		}
		return true
	}
	// walk up single-predecessor chains to the shared case body
	for blk := b; blk != nil; blk = blk.Idom() {
		names = nil
		if len(blk.Preds) >= 2 && collect(blk, 0) {
			return names
		}
		if len(blk.Preds) >= 2 {
			return nil
		}
	}
	return nil
}

func init() {
	Registry["WCROSS"] = func(c *Ctx, r *Report) {
		n := ruleCrossWired(c, r, "FWD-FIELD", nil)
		fmt.Println("copies", n)
		for _, o := range r.Obls {
			fmt.Println(o.Status, o.Key, o.Pos)
		}
	}
}

func init() {
	Registry["WPURE"] = func(c *Ctx, r *Report) {
		n := rulePureInputs(c, r, map[string]bool{"avc": true, "hevc": true, "sei": true, "aac": true, "av1": true, "mp4": true})
		fmt.Println("decoders", n)
		for _, o := range r.Obls {
			if o.Status != Discharged {
				fmt.Println(o.Status, o.Key, o.Pos, o.Detail)
			}
		}
	}
}

func init() {
	Registry["WADOPT"] = func(c *Ctx, r *Report) {
		n := ruleNoAdoptThenAppend(c, r, "O-COPY")
		fmt.Println("fields", n)
		for _, o := range r.Obls {
			fmt.Println(o.Status, o.Key, o.Pos, o.Detail)
		}
	}
}

func init() {
	Registry["WSTRICT"] = func(c *Ctx, r *Report) {
		n := ruleStrictUpper(c, r, "G7", func(f *ssa.Function) bool { return true })
		fmt.Println("tests", n)
		for _, o := range r.Obls {
			fmt.Println(o.Status, o.Key, o.Pos, o.Detail)
		}
	}
}

func init() {
	Registry["WTRUNC"] = func(c *Ctx, r *Report) {
		n := ruleTruncReuse(c, r, "W-TRUNC", nil)
		fmt.Println("narrow-then-widen", n)
		for _, o := range r.Obls {
			fmt.Println(o.Status, o.Key, o.Pos)
		}
	}
}

func init() {
	Registry["WSIB"] = func(c *Ctx, r *Report) {
		pa, pb := c.Pkg("avc"), c.Pkg("hevc")
		for _, name := range pa.Types.Scope().Names() {
			fa, ok := pa.Types.Scope().Lookup(name).(*types.Func)
			if !ok {
				continue
			}
			fb, ok := pb.Types.Scope().Lookup(name).(*types.Func)
			if !ok {
				continue
			}
			sa, ok1 := normalizedBody(c, fa, map[string]string{"avc": "hevc"}, nil)
			sb, ok2 := normalizedBody(c, fb, nil, nil)
			if !ok1 || !ok2 {
				continue
			}
			fmt.Printf("%-45s equal=%v len=%d/%d\n", name, sa == sb, len(sa), len(sb))
		}
	}
}

func init() {
	Registry["WWRITES"] = func(c *Ctx, r *Report) {
		cnt := map[string]int{}
		for _, f := range c.RepoFuncs(IsLib) {
			if f.Synthetic != "" {
				continue
			}
			for _, b := range f.Blocks {
				for _, ins := range b.Instrs {
					var dst ssa.Value
					switch x := ins.(type) {
					case *ssa.Call:
						if bi, ok := x.Call.Value.(*ssa.Builtin); ok && bi.Name() == "copy" {
							dst = x.Call.Args[0]
						}
					case *ssa.Store:
						if ia, ok := x.Addr.(*ssa.IndexAddr); ok {
							dst = ia.X
						}
					}
					if dst == nil {
						continue
					}
					if fld := storageField(dst, 0); fld != "" {
						cnt[SSAFuncName(f)+" -> "+fld]++
					}
				}
			}
		}
		var ks []string
		for k := range cnt {
			ks = append(ks, k)
		}
		sort.Strings(ks)
		for _, k := range ks {
			fmt.Println(cnt[k], k)
		}
	}
}

func storageField(v ssa.Value, depth int) string {
	if depth > 8 {
		return ""
	}
	switch x := v.(type) {
	case *ssa.Slice:
		return storageField(x.X, depth+1)
	case *ssa.Phi:
		for _, e := range x.Edges {
			if s := storageField(e, depth+1); s != "" {
				return s
			}
		}
	case *ssa.UnOp:
		if x.Op != token.MUL {
			return ""
		}
		switch a := x.X.(type) {
		case *ssa.FieldAddr:
			if fv := fieldVar(a.X.Type(), a.Field); fv != nil {
				if _, ok := fv.Type().Underlying().(*types.Slice); ok {
					return typeName(a.X.Type()) + "." + fv.Name()
				}
			}
		case *ssa.Alloc:
			for _, ref := range *a.Referrers() {
				if st, ok := ref.(*ssa.Store); ok && st.Addr == ssa.Value(a) {
					if s := storageField(st.Val, depth+1); s != "" {
						return s
					}
				}
			}
		}
	}
	return ""
}

func init() {
	Registry["WOERR"] = func(c *Ctx, r *Report) {
		ruleOERR(c, r, "O-ERR", func(f *ssa.Function) bool {
			if f.Pkg == nil || f.Synthetic != "" {
				return false
			}
			n := f.Pkg.Pkg.Path()
			return !strings.Contains(n, "/internal") && !strings.HasSuffix(c.Fset.Position(f.Pos()).Filename, "_test.go")
		})
		bad := 0
		for _, o := range r.Obls {
			if o.Status != Discharged {
				bad++
				fmt.Println(o.Status, o.Key, o.Pos)
			}
		}
		fmt.Println("calls", len(r.Obls), "not discharged", bad)
	}
}

func init() {
	Registry["WFWD"] = func(c *Ctx, r *Report) {
		ruleForwarding(c, r, func(f *ssa.Function) bool {
			return f.Synthetic == "" && !strings.HasSuffix(c.Fset.Position(f.Pos()).Filename, "_test.go")
		})
		bad := 0
		for _, o := range r.Obls {
			if o.Status != Discharged {
				bad++
				fmt.Println(o.Status, o.Key, o.Pos)
			}
		}
		fmt.Println("forwardings", len(r.Obls), "not discharged", bad)
	}
}

func init() {
	Registry["WSWAP"] = func(c *Ctx, r *Report) {
		n := ruleSwappedArgs(c, r, "FWD-SWAP", nil)
		fmt.Println("pairs", n)
		for _, o := range r.Obls {
			fmt.Println(o.Status, o.Key, o.Pos)
		}
	}
}

func init() {
	Registry["WSTICKY"] = func(c *Ctx, r *Report) {
		n := ruleStickyError(c, r)
		fmt.Println("decoders", n)
		for _, o := range r.Obls {
			if o.Status != Discharged {
				fmt.Println(o.Status, o.Key, o.Pos)
			}
		}
	}
}

func init() {
	Registry["WOBS"] = func(c *Ctx, r *Report) {
		n := ruleObserversPure(c, r, map[string]bool{"mp4": true, "avc": true, "hevc": true, "sei": true, "aac": true, "av1": true, "bits": true})
		fmt.Println("observers", n)
		for _, o := range r.Obls {
			if o.Status != Discharged {
				fmt.Println(o.Status, o.Key, o.Pos)
			}
		}
	}
}

func init() {
	Registry["WLINT"] = func(c *Ctx, r *Report) {
		for _, cc := range []*Ctx{c} {
			fmt.Println("make-append sites", ruleMakeThenAppend(cc, r, nil))
			fmt.Println("narrow accumulators", ruleNarrowAccumulator(cc, r, "W-NARROW-ACC", nil))
			fmt.Println("single-field loops", ruleSiblingSlices(cc, r, nil))
			fmt.Println("decoders", ruleReturnsParam(cc, r, map[string]bool{"avc": true, "hevc": true, "sei": true, "aac": true, "av1": true, "mp4": true}))
			fmt.Println("field ranges", ruleDeadRange(cc, r, nil))
			fmt.Println("range loops", ruleIneffectiveRangeAssign(cc, r, nil))
		}
		for _, o := range r.Obls {
			fmt.Println(o.Status, o.Key, o.Pos)
		}
		fc, err := loadFixture()
		fmt.Println("fixture", err)
		if fc != nil {
			r2 := NewReport("f")
			ruleMakeThenAppend(fc, r2, nil)
			ruleNarrowAccumulator(fc, r2, "W-NARROW-ACC", nil)
			ruleSiblingSlices(fc, r2, nil)
			ruleReturnsParam(fc, r2, map[string]bool{"mp4": true})
			debugLint = true
			ruleDeadRange(fc, r2, nil)
			debugLint = false
			ruleIneffectiveRangeAssign(fc, r2, nil)
			for _, o := range r2.Obls {
				fmt.Println("FIXTURE", o.Status, o.Key)
			}
		}
	}
}

// nilableGetter: a repository function with a single pointer result that returns a literal nil on some path.
func nilableGetter(g *ssa.Function) bool {
	if g == nil || len(g.Blocks) == 0 || g.Signature.Results().Len() != 1 {
		return false
	}
	if _, ok := g.Signature.Results().At(0).Type().Underlying().(*types.Pointer); !ok {
		return false
	}
	hasNil, hasVal := false, false
	for _, b := range g.Blocks {
		for _, ins := range b.Instrs {
			if ret, ok := ins.(*ssa.Return); ok {
				if k, isC := ret.Results[0].(*ssa.Const); isC && k.Value == nil {
					hasNil = true
				} else {
					hasVal = true
				}
			}
		}
	}
	return hasNil && hasVal
}

// ruleGNILCalls — the result of a getter that can return nil (LastSegment, LastFragment, GetTrex, …) is
// dereferenced only after a nil test.
func ruleGNILCalls(c *Ctx, r *Report, scope map[*ssa.Function]bool, allowed map[string]string) int {
	var fns []*ssa.Function
	for f := range scope {
		fns = append(fns, f)
	}
	sort.Slice(fns, func(i, j int) bool { return fns[i].String() < fns[j].String() })
	n := 0
	seen := map[string]bool{}
	for _, f := range fns {
		if f.Synthetic != "" {
			continue
		}
		for _, b := range f.Blocks {
			for _, ins := range b.Instrs {
				var base ssa.Value
				switch x := ins.(type) {
				case *ssa.FieldAddr:
					base = x.X
				case ssa.CallInstruction:
					com := x.Common()
					if com.IsInvoke() || len(com.Args) == 0 {
						continue
					}
					g := com.StaticCallee()
					if g == nil || g.Signature.Recv() == nil || !derefsReceiver(g) {
						continue
					}
					base = com.Args[0]
				default:
					continue
				}
				call, ok := base.(*ssa.Call)
				if !ok || !nilableGetter(call.Call.StaticCallee()) {
					continue
				}
				n++
				key := SSAFuncName(f) + ":" + SSAFuncName(call.Call.StaticCallee()) + "()"
				if seen[key] {
					continue
				}
				// a dominating nil test of the call's result
				tested := false
				hasDominatingTest(call, b, func(cond ssa.Value, truth bool) bool {
					bo, ok := cond.(*ssa.BinOp)
					if !ok || (bo.Op != token.EQL && bo.Op != token.NEQ) {
						return false
					}
					var other ssa.Value
					if k, ok := bo.Y.(*ssa.Const); ok && k.Value == nil {
						other = bo.X
					} else if k, ok := bo.X.(*ssa.Const); ok && k.Value == nil {
						other = bo.Y
					}
					if other == ssa.Value(call) && (bo.Op == token.NEQ) == truth {
						tested = true
					}
					return tested
				})
				if tested {
					continue
				}
				seen[key] = true
				if why, ok := allowed[key]; ok {
					r.OK("G-NIL", key, c.Pos(ins.Pos()), "accepted: "+why)
					continue
				}
				r.Bad("G-NIL", key, c.Pos(ins.Pos()), "the result of "+SSAFuncName(call.Call.StaticCallee())+"(), which returns nil when there is nothing to return, is dereferenced without a nil test")
			}
		}
	}
	return n
}

func init() {
	Registry["WNILCALL"] = func(c *Ctx, r *Report) {
		entries := entriesC04(c)
		scope, _ := scopeFrom(c, entries)
		n := ruleGNILCalls(c, r, scope, nil)
		fmt.Println("derefs of nilable getter results", n)
		for _, o := range r.Obls {
			fmt.Println(o.Status, o.Key, o.Pos)
		}
	}
}

// ruleSegmentInvariant — File.AddChild dereferences LastSegment() / LastFragment() without nil tests. That is
// sound because (a) startSegmentIfNeeded adds a segment whenever there is none (its AddMediaSegment call is
// controlled by a test of len(f.Segments)), (b) in the emsg and moof arms the dereferences are dominated by the
// call of startSegmentIfNeeded and preceded by an AddFragment that is taken when there is no (open) fragment,
// (c) the mdat arm is only reached right after a moof (O-MDAT).
func ruleSegmentInvariant(c *Ctx, r *Report) {
	key := "mp4.File.AddChild:segment-and-fragment-exist"
	st := c.ssaFunc(r, "G-NIL", "mp4", "File.startSegmentIfNeeded")
	ac := c.ssaFunc(r, "G-NIL", "mp4", "File.AddChild")
	if st == nil || ac == nil {
		return
	}
	bad := ""
	adds := callsIn(st, "File.AddMediaSegment", false)
	okA := false
	// every path through startSegmentIfNeeded that does not call AddMediaSegment passes a direct test of
	// len(f.Segments) against 0 on its non-zero side
	callBlocks := map[*ssa.BasicBlock]bool{}
	for _, a := range adds {
		callBlocks[a.Block()] = true
	}
	type edge struct{ from, to *ssa.BasicBlock }
	cut := map[edge]bool{}
	for _, b := range st.Blocks {
		if len(b.Instrs) == 0 {
			continue
		}
		ifi, ok := b.Instrs[len(b.Instrs)-1].(*ssa.If)
		if !ok {
			continue
		}
		bo, ok := ifi.Cond.(*ssa.BinOp)
		if !ok || (bo.Op != token.EQL && bo.Op != token.NEQ) {
			continue
		}
		cs, isC := constSet(bo.Y, 0)
		if !isC || len(cs) != 1 || cs[0] != 0 {
			continue
		}
		call, ok := stripConv(bo.X).(*ssa.Call)
		if !ok {
			continue
		}
		bi, ok := call.Call.Value.(*ssa.Builtin)
		if !ok || bi.Name() != "len" || !isDirectFieldLoad(call.Call.Args[0], "File.Segments") {
			continue
		}
		// the successor taken when len != 0
		nonZero := b.Succs[1]
		if bo.Op == token.NEQ {
			nonZero = b.Succs[0]
		}
		cut[edge{b, nonZero}] = true
	}
	if len(adds) > 0 && len(cut) > 0 && len(st.Blocks) > 0 {
		seen := map[*ssa.BasicBlock]bool{}
		stack := []*ssa.BasicBlock{st.Blocks[0]}
		reachesReturn := false
		for len(stack) > 0 {
			x := stack[len(stack)-1]
			stack = stack[:len(stack)-1]
			if seen[x] || callBlocks[x] {
				continue
			}
			seen[x] = true
			if len(x.Instrs) > 0 {
				if _, isRet := x.Instrs[len(x.Instrs)-1].(*ssa.Return); isRet {
					reachesReturn = true
				}
			}
			for _, sx := range x.Succs {
				if !cut[edge{x, sx}] {
					stack = append(stack, sx)
				}
			}
		}
		okA = !reachesReturn
	}
	if !okA {
		bad += "startSegmentIfNeeded can return without having called AddMediaSegment on a path that does not establish len(f.Segments) != 0; "
	}
	starts := callsIn(ac, "File.startSegmentIfNeeded", false)
	addFrags := callsIn(ac, "MediaSegment.AddFragment", false)
	n := 0
	for _, b := range ac.Blocks {
		for _, ins := range b.Instrs {
			call, ok := ins.(*ssa.Call)
			if !ok {
				continue
			}
			nm := calleeName(call.Common())
			if !strings.HasSuffix(nm, "File.LastSegment") && !strings.HasSuffix(nm, "MediaSegment.LastFragment") {
				continue
			}
			n++
			dom := false
			for _, s := range starts {
				if instrDominates(s, call) {
					dom = true
				}
			}
			if !dom {
				// the mdat arm: relies on O-MDAT
				continue
			}
			if strings.HasSuffix(nm, "MediaSegment.LastFragment") {
				// the last use in the arm must be preceded by an AddFragment taken when there is no open fragment
				pre := false
				for _, af := range addFrags {
					if instrReaches(af, call) {
						pre = true
					}
				}
				// the first LastFragment() of the moof arm is itself nil-tested; the later one follows AddFragment
				if !pre && !resultNilTested(call) {
					bad += "a LastFragment() result is used without a preceding AddFragment or nil test; "
				}
			}
		}
	}
	if n < 4 {
		bad += fmt.Sprintf("only %d LastSegment/LastFragment calls found in File.AddChild; ", n)
	}
	if bad == "" {
		r.OK("G-NIL", key, c.Pos(ac.Pos()), "startSegmentIfNeeded guarantees a segment, the emsg/moof arms add a fragment before using LastFragment(), the mdat arm follows a moof (O-MDAT)")
	} else {
		r.Bad("G-NIL", key, c.Pos(ac.Pos()), bad)
	}
}

func resultNilTested(call *ssa.Call) bool {
	for _, ref := range *call.Referrers() {
		if bo, ok := ref.(*ssa.BinOp); ok && (bo.Op == token.EQL || bo.Op == token.NEQ) {
			if k, ok := bo.Y.(*ssa.Const); ok && k.Value == nil {
				return true
			}
		}
	}
	return false
}

// codecOptionalFields: pointer-to-struct fields of the struct types of packages avc, hevc and sei that some function of
// the library stores under a condition only (the parsers fill VUI, HRD parameters, extensions, … only when the stream
// signals them): such a field is nil for streams without the feature.
func codecOptionalFields(c *Ctx) map[*types.Var]bool {
	out := map[*types.Var]bool{}
	for fv, stores := range c.fieldStores() {
		if fv.Pkg() == nil {
			continue
		}
		switch fv.Pkg().Name() {
		case "avc", "hevc", "sei":
		default:
			continue
		}
		pt, ok := fv.Type().Underlying().(*types.Pointer)
		if !ok {
			continue
		}
		if _, isStruct := pt.Elem().Underlying().(*types.Struct); !isStruct {
			continue
		}
		for _, st := range stores {
			// stored in a block that does not dominate every return: conditional
			f := st.Parent()
			cond := false
			for _, b := range f.Blocks {
				if _, isRet := b.Instrs[len(b.Instrs)-1].(*ssa.Return); isRet && !st.Block().Dominates(b) && !blockRejects(b) {
					cond = true
				}
			}
			if cond {
				out[fv] = true
			}
		}
	}
	return out
}

// ruleGNILCodec (G-NIL, codec structures): a pointer field of an avc/hevc/sei structure that the parsers fill only when
// the stream signals the feature is dereferenced only after a nil test of that field (or a fresh store to it).
func ruleGNILCodec(c *Ctx, r *Report, scope map[*ssa.Function]bool) int {
	opt := codecOptionalFields(c)
	sites := nilDerefSitesOf(c, scope, opt)
	seen := map[string]bool{}
	for _, s := range sites {
		key := SSAFuncName(s.f) + ":" + s.path
		if seen[key] {
			continue
		}
		seen[key] = true
		if why := callersGuard(c, s); why != "" {
			r.OK("G-NIL", key, c.Pos(s.ins.Pos()), why)
			continue
		}
		r.Bad("G-NIL", key, c.Pos(s.ins.Pos()), s.path+" is nil for a stream that does not signal the feature, and is dereferenced here with no dominating nil test: nil pointer dereference")
	}
	r.OK("G-NIL", "scope:codec", "", fmt.Sprintf("%d optional pointer fields of the codec structures examined", len(opt)))
	return len(opt)
}

package chk

// W-BITS — bit-level agreement of small codecs outside the box framework (SEI messages, AudioSpecificConfig):
// decode a symbolic payload, serialise the decoded value, compare bit by bit; Size() equals the serialised length.

import (
	"fmt"
	"go/ast"
	"go/constant"
	"go/types"
	"os"
	"sort"
	"strings"
)

type codecSpec struct {
	name     string // obligation name
	pkg      string
	decode   string // function name
	argKind  string // "reader" (io.Reader) | "seidata" (*sei.SEIData)
	encode   string // method name on the decoded value
	encKind  string // "writer" (method(w io.Writer) error) | "bytes" (method() []byte)
	size     string // optional Size method
	trailing bool   // encoder appends rbsp trailing / alignment bits
	extra    func(in *Interp) []Val
	// nonCanonical: the decoded input is a non-canonical encoding that the serialiser legitimately normalises
	nonCanonical func(in *Interp, t *Trace) string
}

type codecVerdict struct {
	spec     codecSpec
	nCfg     int
	nRej     int
	de, se   map[string]string
	irr      map[string]string
	err      string
	facts    map[string]map[string]string
	dom      map[string]map[string]bool
	dontcare map[string]bool
}

func analyseCodec(c *Ctx, sp codecSpec) *codecVerdict {
	cv := &codecVerdict{spec: sp, de: map[string]string{}, se: map[string]string{}, irr: map[string]string{}, facts: map[string]map[string]string{}, dom: map[string]map[string]bool{}, dontcare: map[string]bool{}}
	fn := c.LookupFunc(sp.pkg, sp.decode)
	if fn == nil {
		cv.err = "decode function not found"
		return cv
	}
	p := c.Pkg(sp.pkg)
	ex := newExplorer(c)
	run := func(in *Interp) (out *cfgOutcome) {
		out = &cfgOutcome{}
		defer func() {
			if r := recover(); r != nil {
				if pe, ok := r.(phaseErr); ok {
					out.irregs = append(out.irregs, pe.phase+": "+pe.why)
					return
				}
				panic(r)
			}
		}()
		fr := &frame{pkg: p, env: map[types.Object]Val{}}
		st := in.newStream(false, "payload")
		var args []Val
		switch sp.argKind {
		case "reader":
			args = []Val{st}
		case "seidata":
			sp2 := c.Pkg("sei")
			tn, _ := sp2.Types.Scope().Lookup("SEIData").(*types.TypeName)
			sd := in.newObj(tn.Type())
			sd.F["payload"] = &SliceV{Len: in.atom("payloadlen", 62, true), Ident: in.atom("payload", 64, true), ElemT: types.Typ[types.Byte], bodyOf: st}
			sd.F["payloadType"] = in.atom("payloadType", 32, true)
			args = []Val{sd}
		case "sr":
			args = []Val{st}
		case "sge":
			nm := &SliceV{Str: true, Len: cI(4), Ident: in.atom("name", 32, true), Sym: true, Path: "name"}
			args = []Val{nm, in.atom("length", 32, true), st}
		}
		if sp.extra != nil {
			args = append(args, sp.extra(in)...)
		}
		var rets []Val
		in.phase("decode", func() {
			in.panicked = false
			in.nWhile = 0
			v := in.callFunc(fr, fn, nil, args, nil)
			if in.pendingBody != nil && len(st.T.Items) == 0 {
				st.T.add(in, Item{Kind: "bytes", W: in.mkBin("*", cI(8), in.pendingBody.Len, typInfo{64, true}), V: in.pendingBody})
			}
			in.pendingBody = nil
			if tv, ok := v.(*TupleV); ok {
				rets = tv.Vs
			} else {
				rets = []Val{v}
			}
		})
		if in.panicked || lastIsError(rets) {
			out.rejected = true
			return out
		}
		obj, ok := rets[0].(*Obj)
		if !ok {
			out.irregs = append(out.irregs, "decode: returned "+showValShallow(rets[0]))
			return out
		}
		if sp.nonCanonical != nil {
			if why := sp.nonCanonical(in, st.T); why != "" {
				out.rejected = true
				out.irregs = nil
				return out
			}
		}
		out.facts = in.factsOf(obj)
		used := usedAtoms(obj)
		dn := in.flatten(st.T, true, used, c)
		out.nItems = len(st.T.Items)
		var size *Expr
		if sp.size != "" {
			in.phase("Size", func() {
				sv := in.callMethod(fr, obj, sp.size, nil, nil)
				e, ok := sv.(*Expr)
				if !ok {
					bail("%s() returned %s", sp.size, showValShallow(sv))
				}
				size = e
			})
		}
		var wt *Trace
		in.phase(sp.encode, func() {
			in.panicked = false
			switch sp.encKind {
			case "writer":
				w := in.newStream(true, "w")
				ev := in.callMethod(fr, obj, sp.encode, []Val{w}, nil)
				if e, ok := ev.(ErrV); ok && e.NonNil || in.panicked {
					out.problems = append(out.problems, "DE|"+sp.encode+" fails on a value the decoder produced")
					return
				}
				wt = w.T
			case "sw":
				w := in.newStream(true, "sw")
				ev := in.callMethod(fr, obj, sp.encode, []Val{w}, nil)
				if e, ok := ev.(ErrV); ok && e.NonNil || in.panicked {
					out.problems = append(out.problems, "DE|"+sp.encode+" fails on a value the decoder produced")
					return
				}
				wt = w.T
			case "bytes":
				bv := in.callMethod(fr, obj, sp.encode, nil, nil)
				b, ok := bv.(*SliceV)
				if !ok || b.bytesOf == nil {
					bail("%s() did not return the bytes of a writer (%s)", sp.encode, showValShallow(bv))
				}
				wt = b.bytesOf.T
			}
		})
		if wt == nil {
			return out
		}
		en := in.flatten(wt, false, nil, c)
		if size != nil {
			want := in.mkBin("*", cI(8), size, typInfo{64, true})
			wc, ok1 := in.zeroSubst(want).ConstI()
			tc, ok2 := in.zeroSubst(wt.BitPos).ConstI()
			switch {
			case !ok1 || !ok2:
				if polyOf(in.zeroSubst(want)).String() != polyOf(in.zeroSubst(wt.BitPos)).String() {
					// a small count keeps the sizes symbolic: enumerate it
					var segs []Seg
					atomsOf(want, &segs)
					atomsOf(wt.BitPos, &segs)
					for _, sg := range segs {
						if !sg.A.Env && sg.N <= 6 {
							var cands []uint64
							for x := uint64(0); x < 1<<uint(sg.N); x++ {
								cands = append(cands, x)
							}
							panic(need{atom: sg.A, lo: sg.Lo, n: sg.N, cands: cands, reason: "size depends on " + sg.String()})
						}
					}
					out.problems = append(out.problems, fmt.Sprintf("SE|%s() = %s bytes but %s writes %s bits", sp.size, size, sp.encode, polyOf(wt.BitPos)))
				}
			case tc < wc:
				out.problems = append(out.problems, fmt.Sprintf("SE|%s() = %d bytes but %s writes only %d bits", sp.size, wc/8, sp.encode, tc))
			case tc > wc:
				// the writer is allocated with Size() bytes: bits beyond it are dropped. Only the optional
				// alignment marker (constant bits at the very end) may fall there.
				excess := int(tc - wc)
				okTrail := false
				if sp.trailing && len(en) > 0 && en[len(en)-1].kind == "bits" && len(en[len(en)-1].bits) >= excess {
					okTrail = true
					last := en[len(en)-1].bits
					for _, b := range last[len(last)-excess:] {
						if b.atom != "" || b.op != "" {
							okTrail = false
						}
					}
				}
				if !okTrail {
					out.problems = append(out.problems, fmt.Sprintf("SE|%s() = %d bytes but %s writes %d bits: value bits fall beyond the allocated size and are dropped", sp.size, wc/8, sp.encode, tc))
				}
			}
		}
		allowTrailingConst = sp.trailing
		probs, dcs := compareDE(dn, en, false)
		allowTrailingConst = false
		if debugDump {
			fmt.Printf("CFG %s\n  D: %s\n  E: %s\n  obj: %s\n", cfgT(in.cfg).String(), nodesString(dn), nodesString(en), canonVal(obj, 0, map[*Obj]bool{}))
		}
		for _, pr := range probs {
			out.problems = append(out.problems, "DE|"+pr)
		}
		out.dontcare = dcs
		return out
	}
	outs, err := ex.explore(run)
	cv.err = err
	for _, o := range outs {
		cv.nCfg++
		if o.rejected {
			cv.nRej++
		}
		for _, ir := range o.irregs {
			ph := ir[:strings.Index(ir, ":")]
			if _, ok := cv.irr[ph]; !ok {
				cv.irr[ph] = ir + " [cfg " + o.cfg + "]"
			}
		}
		if !o.rejected && o.facts != nil {
			cv.facts[o.cfg] = o.facts
			for k, v := range o.facts {
				if cv.dom[k] == nil {
					cv.dom[k] = map[string]bool{}
				}
				cv.dom[k][v] = true
			}
		}
		for _, pr := range o.problems {
			m := cv.de
			if pr[:2] == "SE" {
				m = cv.se
			}
			if _, ok := m[o.cfg]; !ok {
				m[o.cfg] = pr[3:]
			}
		}
		for _, d := range o.dontcare {
			cv.dontcare[d] = true
		}
	}
	return cv
}

func reportCodec(r *Report, c *Ctx, cv *codecVerdict) { reportCodecPart(r, c, cv, "both") }

// reportCodecPart reports the layout part (W-BITS), the size part (W-BITS-size) or both.
func reportCodecPart(r *Report, c *Ctx, cv *codecVerdict, which string) {
	name := cv.spec.pkg + "." + cv.spec.name
	for _, part := range []struct {
		rule  string
		probs map[string]string
		what  string
		on    bool
	}{{"W-BITS", cv.de, "decoder and serialiser disagree on the bit layout", which != "size"}, {"W-BITS-size", cv.se, "Size() and the serialiser disagree", cv.spec.size != "" && which != "layout"}} {
		if !part.on {
			continue
		}
		if cv.err != "" {
			r.Undecided(part.rule, name, "", "exploration incomplete: "+cv.err)
			continue
		}
		if len(cv.irr) > 0 {
			var phs []string
			for ph := range cv.irr {
				phs = append(phs, ph)
			}
			sort.Strings(phs)
			r.Undecided(part.rule, name, "", "construct not modelled by the layout interpreter: "+cv.irr[phs[0]])
			continue
		}
		v := &boxVerdict{factsOf: cv.facts, factDom: cv.dom}
		byKind := map[string][]string{}
		for cfg, m := range part.probs {
			byKind[kindOf(m)] = append(byKind[kindOf(m)], cfg)
		}
		var kinds []string
		for k := range byKind {
			kinds = append(kinds, k)
		}
		sort.Strings(kinds)
		for _, k := range kinds {
			cfgs := byKind[k]
			sort.Strings(cfgs)
			ex := cfgs[0]
			for _, cf := range cfgs {
				if len(cf) < len(ex) {
					ex = cf
				}
			}
			class := classOf(v, cfgs)
			key := name + ":" + k
			if class != "" {
				key += ":" + class
			}
			if why, ok := normalisations[cv.spec.name+"|"+k+"|"+class]; ok {
				r.OK(part.rule+"-normalisation", key, "", "committed normalisation: "+why)
				continue
			}
			r.Bad(part.rule, key, "", fmt.Sprintf("%s — in %d of %d accepted configurations (class %s), e.g. %s: %s", part.what, len(cfgs), cv.nCfg-cv.nRej, class, ex, part.probs[ex]))
		}
		r.OK(part.rule, name, "", fmt.Sprintf("%d configurations explored, %d rejected by the decoder; %d disagreement classes", cv.nCfg, cv.nRej, len(kinds)))
	}
}

func init() { Registry["WCODEC"] = debugCodec }

func debugCodec(c *Ctx, r *Report) {
	debugDump = true
	specs := append(append([]codecSpec{}, seiCodecs...), aacCodecs...)
	if os.Getenv("WCODEC") == "mp4" {
		specs = mp4Codecs
		debugDump = os.Getenv("WDUMP") != ""
	}
	for _, sp := range specs {
		cv := analyseCodec(c, sp)
		fmt.Printf("== %s cfgs=%d rej=%d err=%q irr=%v\n de=%v\n se=%v\n", sp.name, cv.nCfg, cv.nRej, cv.err, cv.irr, cv.de, cv.se)
	}
	r.OK("DEBUG", "x", "", "")
}

var seiCodecs = []codecSpec{
	{name: "TimeCodeSEI", pkg: "sei", decode: "DecodeTimeCodeSEI", argKind: "seidata", encode: "Payload", encKind: "bytes", size: "Size", trailing: true},
	{name: "MasteringDisplayColourVolumeSEI", pkg: "sei", decode: "DecodeMasteringDisplayColourVolumeSEI", argKind: "seidata", encode: "Payload", encKind: "bytes", size: "Size"},
	{name: "ContentLightLevelInformationSEI", pkg: "sei", decode: "DecodeContentLightLevelInformationSEI", argKind: "seidata", encode: "Payload", encKind: "bytes", size: "Size"},
}

// mp4Codecs: the inner codecs of boxes that are tabled as irregular at box level (sgpd dispatches on the grouping
// type, uuid on the extended type): their entries / sub-payloads are regular and are compared like boxes.
var mp4Codecs = []codecSpec{
	{name: "SeigSampleGroupEntry", pkg: "mp4", decode: "DecodeSeigSampleGroupEntry", argKind: "sge", encode: "Encode", encKind: "sw", size: "Size"},
	{name: "RollSampleGroupEntry", pkg: "mp4", decode: "DecodeRollSampleGroupEntry", argKind: "sge", encode: "Encode", encKind: "sw", size: "Size"},
	{name: "RapSampleGroupEntry", pkg: "mp4", decode: "DecodeRapSampleGroupEntry", argKind: "sge", encode: "Encode", encKind: "sw", size: "Size"},
	{name: "AlstSampleGroupEntry", pkg: "mp4", decode: "DecodeAlstSampleGroupEntry", argKind: "sge", encode: "Encode", encKind: "sw", size: "Size"},
	{name: "UnknownSampleGroupEntry", pkg: "mp4", decode: "DecodeUnknownSampleGroupEntry", argKind: "sge", encode: "Encode", encKind: "sw", size: "Size"},
	{name: "TfxdData", pkg: "mp4", decode: "decodeTfxd", argKind: "sr", encode: "encode", encKind: "sw", size: "size"},
	{name: "TfrfData", pkg: "mp4", decode: "decodeTfrf", argKind: "sr", encode: "encode", encKind: "sw", size: "size"},
}

var aacCodecs = []codecSpec{
	{name: "AudioSpecificConfig", pkg: "aac", decode: "DecodeAudioSpecificConfig", argKind: "reader", encode: "Encode", encKind: "writer", trailing: true, nonCanonical: ascNonCanonical},
}

// ascNonCanonical: a frequency that has a table index but is coded with the 24-bit escape is a non-canonical
// encoding; the serialiser writes the index instead (the property is stated for encode-then-decode).
func ascNonCanonical(in *Interp, t *Trace) string {
	p := in.c.Pkg("aac")
	cl := mapLiteralOf(p, "FrequencyTable")
	if cl == nil {
		return ""
	}
	table := map[int64]bool{}
	for _, e := range cl.Elts {
		if kv, ok := e.(*ast.KeyValueExpr); ok {
			if tv := p.TypesInfo.Types[kv.Value]; tv.Value != nil {
				if v, ok := constant.Int64Val(tv.Value); ok {
					table[v] = true
				}
			}
		}
	}
	val := func(it Item) (int64, bool) {
		a, ok := it.V.(*Expr)
		if !ok || a.K != kBV || len(a.Segs) != 1 || a.Segs[0].A == nil {
			return 0, false
		}
		w, _ := it.W.ConstI()
		for _, k := range in.cfg[a.Segs[0].A.Name] {
			if k.lo == 0 && int64(k.n) == w {
				return int64(k.val), true
			}
		}
		return 0, false
	}
	for i := 0; i+1 < len(t.Items); i++ {
		w0, _ := t.Items[i].W.ConstI()
		w1, _ := t.Items[i+1].W.ConstI()
		if w0 == 4 && w1 == 24 {
			v0, ok0 := val(t.Items[i])
			v1, ok1 := val(t.Items[i+1])
			if ok0 && ok1 && v0 == 15 && table[v1] {
				return "table frequency coded with the 24-bit escape"
			}
		}
	}
	return ""
}

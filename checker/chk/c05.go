package chk

import (
	"fmt"
	"go/token"
	"strings"

	"golang.org/x/tools/go/ssa"
)

func init() { Registry["C05"] = checkC05 }

// C05 — samples written into fragments are read back exactly (narrow structural clauses).
func checkC05(c *Ctx, r *Report) {
	r.Explanation = "(S-PLURAL) the slice variant of an Add method (TrunBox.AddSamples) stores every receiver field the single variant (AddSample) stores; (DEP) the size MdatBox.Encode and EncodeSW hand to the header writer is the box's own Size() (which accounts for a lazily written payload); (L-BOUNDARY) an integer that is narrowed to k bits, or that selects a box version, is compared with 2^k by >= or < and with 2^k-1 by > or <= (tfdt/sidx version selection at 2^32, box header largesize, subsample split at 2^16): the value 2^k itself is never kept on the k-bit side; (T-TYPEDCHILD) a function that replaces a typed child pointer of a box (traf.Tfdt) also updates Children of that box, which is what Encode writes; (O-LAZYRESET) a function that appends real sample bytes to the mdat and, through a callee, advances lazyDataSize stores it 0 afterwards (Size() prefers the lazy size); Narrow structural clauses of the write/read path of fragments: (O-ENC) in Fragment.Encode and EncodeSW, SetTrunDataOffsets is called on every path before any child is encoded and never before OptimizeTfhdTrun; " +
		"(O-TFDT) every Fragment method that sets the track fragment decode time does so under a test on the sample count of the FIRST run of the track (TrafBox.Trun), so a later run cannot overwrite it; " +
		"(O-PAIR) every Fragment method that appends samples to a run also accounts their data in the mdat; (O-NR) every CreateTrun(f.nextTrunNr) is followed by an increment of nextTrunNr; " +
		"(DEP) the data offset stored in each trun depends on Moof.Size(), Mdat.HeaderSize(), the preceding runs' SizeOfData() and the write order; the mdat offset handed to TrunBox.GetFullSamples depends on " +
		"tfhd.BaseDataOffset / moof.StartPos, trun.DataOffset and mdat.PayloadAbsoluteOffset(); defaults applied to samples depend on tfhd then trex; (DEP lazy-amount) the amount added to the lazy mdat size by AddSample/AddSamples/AddSampleToTrack is the size of the samples being added; (W-NARROW-ACC) in package mp4 no running sum (durations, sizes) is kept in 32 bits or fewer and widened to 64 bits only afterwards; (O-COPY) MdatBox.Data, which AddSampleData grows with append, is never assigned a caller's slice directly (SetData excepted by contract); (O-EQ) trun optimisation decides 'all samples equal' with == / != only. " +
		"Decides these necessary conditions; does not decide numeric correctness of offsets, multi-track interleavings in general, or optimisation correctness."
	r.Assume("dependence = intraprocedural SSA data dependence plus return-value dependence of repository callees (3 levels); control dependence is taken from dominating branches")
	for _, m := range []string{"Fragment.Encode", "Fragment.EncodeSW"} {
		f := c.ssaFunc(r, "O-ENC", "mp4", m)
		if f == nil {
			continue
		}
		set := callsThrough(f, "Fragment.SetTrunDataOffsets", 2)
		opt := callsThrough(f, "TrafBox.OptimizeTfhdTrun", 2)
		var enc []ssa.CallInstruction
		for _, n := range []string{"iface.Encode", "iface.EncodeSW"} {
			enc = append(enc, callsIn(f, n, false)...)
		}
		key := "mp4." + m
		switch {
		case len(set) == 0:
			r.Bad("O-ENC", key, c.Pos(f.Pos()), "SetTrunDataOffsets is never called (directly or through a helper that always calls it): trun data offsets are not recomputed before encoding")
		case len(enc) == 0:
			r.Undecided("O-ENC", key, c.Pos(f.Pos()), "no child encode call found")
		default:
			ok := true
			for _, e := range enc {
				dom := false
				for _, s := range set {
					if instrDominates(s, e) {
						dom = true
					}
				}
				if !dom {
					ok = false
					r.Bad("O-ENC", key+":offsets-before-encode", c.Pos(e.Pos()), "a child is encoded on a path that has not passed SetTrunDataOffsets")
				}
			}
			if bad, v := violatesOrder(f, "TrafBox.OptimizeTfhdTrun", "Fragment.SetTrunDataOffsets", 2); v {
				ok = false
				r.Bad("O-ENC", key+":optimize-before-offsets", c.Pos(bad.Pos()), "OptimizeTfhdTrun can run after SetTrunDataOffsets: the moof size used for the offsets is not the size written")
			}
			if ok {
				r.OK("O-ENC", key, c.Pos(f.Pos()), fmt.Sprintf("SetTrunDataOffsets dominates all %d child encodes; OptimizeTfhdTrun (%d call sites) precedes it", len(enc), len(opt)))
			}
		}
	}
	// O-TFDT / O-PAIR / O-NR over all methods of Fragment
	nT, nP := 0, 0
	for _, f := range c.RepoFuncs(IsLib) {
		name := SSAFuncName(f)
		if !strings.HasPrefix(name, "mp4.Fragment.") {
			continue
		}
		for _, call := range callsIn(f, "TfdtBox.SetBaseMediaDecodeTime", false) {
			nT++
			ok := false
			for _, cond := range controlConds(call.Block()) {
				if condTestsFirstRun(cond) {
					ok = true
				}
			}
			if ok {
				r.OK("O-TFDT", name, c.Pos(call.Pos()), "decode time is set under a test of the sample count of the track's first run (TrafBox.Trun)")
			} else {
				r.Bad("O-TFDT", name, c.Pos(call.Pos()), "the track fragment decode time is set without testing that the track's FIRST run (TrafBox.Trun) is still empty: a later run of the same track overwrites it")
			}
		}
		adds := append(callsIn(f, "TrunBox.AddSample", false), callsIn(f, "TrunBox.AddSamples", false)...)
		if len(adds) > 0 {
			nP++
			acc := len(callsIn(f, "MdatBox.AddSampleData", false)) + len(callsIn(f, "MdatBox.AddSampleDataPart", false)) + len(storesTo(f, "MdatBox.lazyDataSize")) + len(callsIn(f, "MdatBox.SetLazyDataSize", false))
			if acc > 0 {
				r.OK("O-PAIR", name, c.Pos(adds[0].Pos()), "samples appended to a run are accounted in the mdat in the same method")
			} else {
				r.Bad("O-PAIR", name, c.Pos(adds[0].Pos()), "samples are appended to a run but their data is not accounted in the mdat (no AddSampleData / lazyDataSize update)")
			}
		}
		for _, call := range callsIn(f, "mp4.CreateTrun", false) {
			// argument depends on nextTrunNr and an increment store follows
			sl := backSlice(c, call.Common().Args[0], 1)
			incr := false
			for _, st := range storesTo(f, "Fragment.nextTrunNr") {
				if instrReaches(call, st) {
					incr = true
				}
			}
			key := name + ":CreateTrun"
			if !sliceHas(sl, "field", "Fragment.nextTrunNr") {
				r.Bad("O-NR", key, c.Pos(call.Pos()), "write order number of a new run does not come from Fragment.nextTrunNr")
			} else if !incr {
				r.Bad("O-NR", key, c.Pos(call.Pos()), "nextTrunNr is not advanced after creating a run: write order numbers are not unique")
			} else {
				r.OK("O-NR", key, c.Pos(call.Pos()), "run numbered from nextTrunNr, which is advanced afterwards")
			}
		}
	}
	r.Floor("O-TFDT", 4)
	r.Floor("O-PAIR", 4)
	_ = nT
	_ = nP
	// DEP: data offsets
	if f := c.ssaFunc(r, "DEP", "mp4", "Fragment.SetTrunDataOffsets"); f != nil {
		sts := storesTo(f, "TrunBox.DataOffset")
		if len(sts) == 0 {
			r.Bad("DEP", "mp4.Fragment.SetTrunDataOffsets:DataOffset", c.Pos(f.Pos()), "no store to TrunBox.DataOffset")
		}
		for _, st := range sts {
			requireDeps(c, r, "DEP", "mp4.Fragment.SetTrunDataOffsets:DataOffset", c.Pos(st.Pos()), st.Val,
				[]string{"call:MoofBox.Size", "call:MdatBox.HeaderSize", "call:TrunBox.SizeOfData"}, nil, "data offset stored in a trun")
		}
		// the runs are ordered by write order before offsets are assigned
		sorted := false
		for _, a := range f.AnonFuncs {
			for _, b := range a.Blocks {
				for _, ins := range b.Instrs {
					if fa, ok := ins.(*ssa.FieldAddr); ok {
						if fv := fieldVar(fa.X.Type(), fa.Field); fv != nil && fv.Name() == "writeOrderNr" {
							sorted = true
						}
					}
				}
			}
		}
		if sorted && len(callsIn(f, "sort.Slice", false))+len(callsIn(f, "sort.SliceStable", false)) > 0 {
			r.OK("DEP", "mp4.Fragment.SetTrunDataOffsets:order", c.Pos(f.Pos()), "runs are sorted by writeOrderNr before offsets are accumulated")
		} else {
			r.Bad("DEP", "mp4.Fragment.SetTrunDataOffsets:order", c.Pos(f.Pos()), "runs are not sorted by writeOrderNr before offsets are accumulated")
		}
	}
	if f := c.ssaFunc(r, "DEP", "mp4", "Fragment.GetFullSamples"); f != nil {
		calls := callsIn(f, "TrunBox.GetFullSamples", false)
		if len(calls) == 0 {
			r.Bad("DEP", "mp4.Fragment.GetFullSamples:offset", c.Pos(f.Pos()), "TrunBox.GetFullSamples is not called")
		}
		for _, call := range calls {
			requireDeps(c, r, "DEP", "mp4.Fragment.GetFullSamples:offset", c.Pos(call.Pos()), call.Common().Args[1],
				[]string{"field:TfhdBox.BaseDataOffset", "field:MoofBox.StartPos", "field:TrunBox.DataOffset", "call:MdatBox.PayloadAbsoluteOffset"}, nil, "offset into mdat handed to the run")
			requireDeps(c, r, "DEP", "mp4.Fragment.GetFullSamples:time", c.Pos(call.Pos()), call.Common().Args[2],
				[]string{"call:TfdtBox.BaseMediaDecodeTime", "call:TrunBox.AddSampleDefaultValues"}, nil, "decode time handed to the run")
		}
	}
	if f := c.ssaFunc(r, "DEP", "mp4", "TrunBox.AddSampleDefaultValues"); f != nil {
		for _, fld := range []string{"Dur", "Size", "Flags"} {
			sts := storesTo(f, "Sample."+fld)
			if len(sts) == 0 {
				r.Bad("DEP", "mp4.TrunBox.AddSampleDefaultValues:"+fld, c.Pos(f.Pos()), "default for Sample."+fld+" is never applied")
				continue
			}
			tf := map[string]string{"Dur": "DefaultSampleDuration", "Size": "DefaultSampleSize", "Flags": "DefaultSampleFlags"}[fld]
			for _, st := range sts {
				requireDeps(c, r, "DEP", "mp4.TrunBox.AddSampleDefaultValues:"+fld, c.Pos(st.Pos()), st.Val,
					[]string{"field:TfhdBox." + tf, "field:TrexBox." + tf}, nil, "default value of Sample."+fld)
			}
		}
	}
	// O-EQ: optimisation compares samples for equality only
	if f := c.ssaFunc(r, "O-EQ", "mp4", "TrafBox.OptimizeTfhdTrun"); f != nil {
		n := 0
		for _, b := range f.Blocks {
			for _, ins := range b.Instrs {
				bo, ok := ins.(*ssa.BinOp)
				if !ok {
					continue
				}
				switch bo.Op {
				case token.EQL, token.NEQ, token.LSS, token.LEQ, token.GTR, token.GEQ:
				default:
					continue
				}
				fld := ""
				for _, o := range []ssa.Value{bo.X, bo.Y} {
					sl := backSlice(c, o, 0)
					for k := range sl {
						if k.kind == "field" && strings.HasPrefix(k.name, "Sample.") {
							fld = k.name
						}
					}
				}
				if fld == "" {
					continue
				}
				n++
				key := fmt.Sprintf("mp4.TrafBox.OptimizeTfhdTrun:%s", fld)
				if bo.Op == token.EQL || bo.Op == token.NEQ {
					r.OK("O-EQ", key, c.Pos(bo.Pos()), "sample values are compared for (in)equality")
				} else {
					r.Bad("O-EQ", key, c.Pos(bo.Pos()), "a per-sample value is compared with an ordering operator ("+bo.Op.String()+") when deciding whether all samples share it: values on the other side of the bound are treated as equal and are lost")
				}
			}
		}
		_ = n
		r.Floor("O-EQ", 3)
	}
	// the amount accounted in the lazy mdat size is the size of the samples being added, not of the whole run
	for _, m := range []string{"Fragment.AddSample", "Fragment.AddSamples", "Fragment.AddSampleToTrack"} {
		f := c.ssaFunc(r, "DEP", "mp4", m)
		if f == nil {
			continue
		}
		sts := storesTo(f, "MdatBox.lazyDataSize")
		if len(sts) == 0 {
			r.Bad("DEP", "mp4."+m+":lazy-amount", c.Pos(f.Pos()), "the lazy mdat size is not updated")
			continue
		}
		for _, st := range sts {
			requireDeps(c, r, "DEP", "mp4."+m+":lazy-amount", c.Pos(st.Pos()), st.Val, []string{"field:Sample.Size"}, []string{"call:TrunBox.SizeOfData"}, "amount added to the lazy mdat size")
		}
	}
	ruleNarrowAccumulator(c, r, "W-NARROW-ACC", func(f *ssa.Function) bool { return strings.HasPrefix(SSAFuncName(f), "mp4.") })
	requireFixture(r, "W-NARROW-ACC", "narrowAcc", func(fc *Ctx, s *Report) { ruleNarrowAccumulator(fc, s, "W-NARROW-ACC", nil) })
	if n := ruleNoAdoptThenAppend(c, r, "O-COPY"); n < 4 {
		r.Undecided("O-COPY", "scope", "", "appended byte-slice fields not found")
	}

	if n := ruleTypedChildStores(c, r); n < 2 {
		r.Undecided("T-TYPEDCHILD", "scope", "", "no store to a typed child pointer outside AddChild found")
	}
	if n := rulePluralSibling(c, r, func(f *ssa.Function) bool { return strings.HasPrefix(SSAFuncName(f), "mp4.") }); n < 1 {
		r.Undecided("S-PLURAL", "scope", "", "no single/slice method pair found (TrunBox.AddSample / AddSamples expected)")
	}
	if n := ruleHeaderSizeIsSize(c, r); n < 2 {
		r.Undecided("DEP", "scope:header-size", "", "MdatBox.Encode / EncodeSW header calls with an explicit size not found")
	}
	if n := ruleBoundaryCompare(c, r, func(f *ssa.Function) bool { return strings.HasPrefix(SSAFuncName(f), "mp4.") }); n < 6 {
		r.Undecided("L-BOUNDARY", "scope", "", fmt.Sprintf("only %d comparisons against a field-width boundary found in package mp4", n))
	}
	requireFixture(r, "L-BOUNDARY", "setTimeWrong", func(fc *Ctx, s *Report) { ruleBoundaryCompare(fc, s, nil) })
	if n := ruleLazyReset(c, r); n < 2 {
		r.Undecided("O-LAZYRESET", "scope", "", "callers of MdatBox.AddSampleData not found (AddFullSample, AddFullSampleToTrack expected)")
	}
}

// condTestsFirstRun: the condition depends on a SampleCount() call whose receiver is loaded from TrafBox.Trun.
func condTestsFirstRun(cond ssa.Value) bool {
	found := false
	seen := map[ssa.Value]bool{}
	var walk func(v ssa.Value, d int)
	walk = func(v ssa.Value, d int) {
		if v == nil || seen[v] || d > 12 {
			return
		}
		seen[v] = true
		switch x := v.(type) {
		case *ssa.Call:
			if cal := x.Call.StaticCallee(); cal != nil && strings.HasSuffix(SSAFuncName(cal), "TrunBox.SampleCount") && len(x.Call.Args) > 0 {
				if recvFromField(x.Call.Args[0], "TrafBox.Trun") {
					found = true
				}
			}
			for _, a := range x.Call.Args {
				walk(a, d+1)
			}
		case *ssa.BinOp:
			walk(x.X, d+1)
			walk(x.Y, d+1)
		case *ssa.UnOp:
			walk(x.X, d+1)
		case *ssa.Convert:
			walk(x.X, d+1)
		case *ssa.Phi:
			for _, e := range x.Edges {
				walk(e, d+1)
			}
		}
	}
	walk(cond, 0)
	return found
}

// recvFromField: the value is a load of the given "Type.Field" (possibly through a local copy).
func recvFromField(v ssa.Value, typeField string) bool {
	switch x := v.(type) {
	case *ssa.UnOp:
		if fa, ok := x.X.(*ssa.FieldAddr); ok {
			if fv := fieldVar(fa.X.Type(), fa.Field); fv != nil && typeName(fa.X.Type())+"."+fv.Name() == typeField {
				return true
			}
		}
		if al, ok := x.X.(*ssa.Alloc); ok {
			for _, ref := range *al.Referrers() {
				if st, ok := ref.(*ssa.Store); ok && st.Addr == ssa.Value(al) && recvFromField(st.Val, typeField) {
					return true
				}
			}
		}
	case *ssa.Phi:
		all := len(x.Edges) > 0
		for _, e := range x.Edges {
			if !recvFromField(e, typeField) {
				all = false
			}
		}
		return all
	}
	return false
}

// ruleTfdtFirstRun — O-TFDT on its own (also part of C11: decode times are conserved).
func ruleTfdtFirstRun(c *Ctx, r *Report) {
	for _, f := range c.RepoFuncs(IsLib) {
		name := SSAFuncName(f)
		if !strings.HasPrefix(name, "mp4.Fragment.") {
			continue
		}
		for _, call := range callsIn(f, "TfdtBox.SetBaseMediaDecodeTime", false) {
			ok := false
			for _, cond := range controlConds(call.Block()) {
				if condTestsFirstRun(cond) {
					ok = true
				}
			}
			if ok {
				r.OK("O-TFDT", name, c.Pos(call.Pos()), "decode time is set under a test of the sample count of the track's first run (TrafBox.Trun)")
			} else {
				r.Bad("O-TFDT", name, c.Pos(call.Pos()), "the track fragment decode time is set without testing that the track's FIRST run (TrafBox.Trun) is still empty: a later run of the same track overwrites it")
			}
		}
	}
	r.Floor("O-TFDT", 4)
}

package chk

// Frozen tables of the wire-layout engine. Every entry is one named decoder with a one-line reason.

// irregularBoxes: the decoder/encoder pair uses constructs whose stream effect depends on data in a way the
// layout interpreter does not model. These boxes are NOT decided by W-DE/W-SE/W-DD/W-EE (the evidence lists
// them); they are still covered by T-REG/T-DELEG/T-WRAP and the guard rules.
var irregularBoxes = map[string]string{
	"DecodeEsdsSR":    "descriptors use a variable-length size field (7 bits per byte) and reposition the reader (SetPos)",
	"DecodeMetaSR":    "a look-ahead on the following bytes decides whether the box is a full box (QuickTime meta)",
	"DecodeSencSR":    "senc is kept as raw bytes and parsed later with information from outside the box (tenc/saiz); Size() is the remembered read size",
	"DecodeSgpdSR":    "sample group entries dispatch on a registry keyed by the grouping type read from the box",
	"DecodeUUIDBoxSR": "sub-type dispatch on the 16-byte extended type (tfxd/tfrf/piff senc/unknown)",
	"DecodeMoofSR":    "encoder and size functions address the typed children traf/trun, which are opaque to a per-box analysis",
	"DecodeHdlrSR":    "an optional missing string terminator is detected by indexing the last byte of the name",
	"DecodeMimeSR":    "an optional missing string terminator is detected by indexing the last byte of the content type",
}

// valueIrregular: layout shape (kinds, widths, loops, order) is compared, values are not, because the
// decoder stores a value that is derived from, not equal to, what is on the wire.
var valueIrregular = map[string]string{
	"DecodeCttsSR":            "sample counts are stored as a running sum (EndSampleNr) and written back as differences",
	"DecodeLoudnessBaseBoxSR": "12-bit signed fields are sign-extended with shift pairs",
}

// headerFormKept: boxes whose structure records whether the box came with a 16-byte (largesize) header, so
// that re-encoding reproduces the header form. For every other box a 16-byte header on a box smaller than 2^32
// is re-encoded as an 8-byte header (size normalisation, listed as "hdr16->8" in the ledger output).
var headerFormKept = map[string]string{
	"DecodeMdatSR": "MdatBox.LargeSize records the header form",
}

// normalisations: disagreements between decoder and encoder that are accepted, committed normalisations of
// the input (the property's explicit list). Key: "<decoder>|<normalised message>".
var normalisations = map[string]string{
	"DecodeSilbSR|encoder does not write back a discriminant value|": "other_schemes_flag is a boolean stored in a byte: any value other than 1 is written back as 0",
}

// dontCareLedger: for each box the don't-care bit runs (decoder discards, encoder writes a constant), as
// "w<width>:c<constant>". This is the committed list of reserved / pre_defined fields; a run that is not
// listed means a field is silently dropped by the decoder (or newly discarded) and is reported.
var dontCareLedger = map[string][]string{
	"DecodeAudioSampleEntrySR":  {"w16:c0x0", "w32:c0x0", "w48:c0x0", "w64:c0x0"},
	"DecodeAv1CSR":              {"w1:c0x1"},
	"DecodeAvcCSR":              {"w3:c0x7", "w5:c0x1f", "w6:c0x3f", "w8:c0x1"},
	"DecodeColrSR":              {"w7:c0x0"},
	"DecodeDac3SR":              {"w8:c0x0"},
	"DecodeDataSR":              {"w64:c0x100000000"},
	"DecodeDec3SR":              {"w1:c0x0", "w3:c0x0"},
	"DecodeEmibSR":              {"w32:c0x0"},
	"DecodeEvteSR":              {"w48:c0x0"},
	"DecodeHvcCSR":              {"w4:c0xf", "w5:c0x1f", "w6:c0x3f"},
	"DecodeMdhdSR":              {"w16:c0x0"},
	"DecodeMvhdSR":              {"w560:c0x0"},
	"DecodeSidxSR":              {"w16:c0x0"},
	"DecodeSmhdSR":              {"w16:c0x0"},
	"DecodeStppSR":              {"w48:c0x0"},
	"DecodeTencSR":              {"w16:c0x0", "w8:c0x0"},
	"DecodeTfraSR":              {"w26:c0x0"},
	"DecodeTkhdSR":              {"w304:c0x0", "w32:c0x0", "w64:c0x0"},
	"DecodeVisualSampleEntrySR": {"w128:c0x0", "w272:c0x0", "w280:c0x0", "w32:c0x0", "w32:c0x18ffff", "w40:c0x18ffff", "w48:c0x0"},
	"DecodeWvttSR":              {"w48:c0x0"},
}

package chk

import (
	"fmt"
	"strings"

	"golang.org/x/tools/go/ssa"
)

func init() {
	Registry["C09"] = checkC09
	Registry["C10"] = checkC10
}

func sampleTableScope(f *ssa.Function) bool {
	n := SSAFuncName(f)
	for _, p := range []string{"mp4.SttsBox.", "mp4.CttsBox.", "mp4.StscBox.", "mp4.StszBox.", "mp4.StcoBox.", "mp4.Co64Box.", "mp4.StssBox.", "mp4.SdtpBox.", "mp4.TrakBox.", "mp4.File.", "cmd/mp4ff-crop."} {
		if strings.HasPrefix(n, p) {
			return true
		}
	}
	return false
}

// C09 — sample-table queries agree with the table semantics (coherence clause only).
func checkC09(c *Ctx, r *Report) {
	r.Explanation = "(L-BITOVERLAP) the accessor methods of a packed integer type (SdtpEntry: is_leading, depends_on, is_depended_on, has_redundancy) read pairwise disjoint bits of the entry; Structural clauses: (G7-IDX) where a query rejects an index parameter against the length of a table and then reads element index+c, the rejection admits every element (stco/co64 GetOffset, stsd GetSampleDescription); (L-DIVMUL) no integer quotient is multiplied afterwards in package mp4 (time conversions divide last), except to round down to a multiple of the divisor; (E9) every function in every package that changes the length-defining member of a sample table " +
		"(stsc Entries, stts counts/deltas, ctts EndSampleNr/SampleOffset, stsz SampleSize, …) also updates the cached / parallel members (a stale cache makes every binary-search query wrong); " +
		"(W-NARROW) in the sample-table query and crop code no product of two non-constant 32-bit values is computed in 32 bits and only then widened to 64 bits (times and offsets wrap). " +
		"(DEP) GetContainingChunks looks the stsc entry up per chunk (loop-variant index), the stss box decides sync status whenever present (also when empty); (O-INDEP) first-chunk and last-chunk clipping in GetRangesForSampleInterval are independent; (G3) a result slice made for an interval is indexed below the length it was made with, for every interval the entry tests allow (linear comparison of the largest index and the length). The index arithmetic of the queries themselves (binary searches, run-length walks, interval-to-chunk mapping) is NOT decided."
	if n := ruleDivBeforeMul(c, r, func(f *ssa.Function) bool { return strings.HasPrefix(SSAFuncName(f), "mp4.") }); n < 3 {
		r.Undecided("L-DIVMUL", "scope", "", fmt.Sprintf("only %d products of an integer quotient found in package mp4", n))
	}
	requireFixture(r, "L-DIVMUL", "ticksWrong", func(fc *Ctx, s *Report) { ruleDivBeforeMul(fc, s, nil) })
	if n := ruleOneBasedIndexGuard(c, r, func(f *ssa.Function) bool { return strings.HasPrefix(SSAFuncName(f), "mp4.") }); n < 3 {
		r.Undecided("G7-IDX", "scope", "", fmt.Sprintf("only %d rejecting index guards found (StcoBox.GetOffset, Co64Box.GetOffset expected)", n))
	}
	requireFixture(r, "G7-IDX", "getOffsetWrong", func(fc *Ctx, s *Report) { ruleOneBasedIndexGuard(fc, s, nil) })
	if n := ruleBitfieldAccessors(c, r, func(f *ssa.Function) bool { return strings.HasPrefix(SSAFuncName(f), "mp4.") }); n < 1 {
		r.Undecided("L-BITOVERLAP", "scope", "", "no packed integer type with three or more accessors found (SdtpEntry expected)")
	}
	requireFixture(r, "L-BITOVERLAP", "packedEntry", func(fc *Ctx, s *Report) { ruleBitfieldAccessors(fc, s, nil) })
	ruleCoherence(c, r, map[string]bool{"StscBox": true, "SttsBox": true, "CttsBox": true, "StszBox": true})
	ruleNarrowMul(c, r, "W-NARROW", sampleTableScope)
	r.RuleCounts["W-NARROW"] += 0
	r.Floor("E9", 8)
	// G3: per-interval result slices are indexed inside their length
	qs := map[*ssa.Function]bool{}
	for _, f := range c.RepoFuncs(IsLib) {
		if sampleTableScope(f) && f.Synthetic == "" {
			qs[f] = true
		}
	}
	ruleG3(c, r, qs, 0)
	ruleChunkEntryWalk(c, r)
	if n := ruleStrictUpper(c, r, "G7", func(f *ssa.Function) bool { return strings.HasPrefix(SSAFuncName(f), "mp4.") }); n < 4 {
		r.Undecided("G7", "scope", "", "upper-bound tests against the sample count not found")
	}
	ruleStssPresence(c, r)
	ruleIndependentEnds(c, r, "O-INDEP", func(f *ssa.Function) bool { return strings.HasPrefix(SSAFuncName(f), "mp4.") }, 1)
	ruleG3Lin(c, r, qs)
}

// C10 — cropping yields a prefix of every track (narrow clauses).
func checkC10(c *Ctx, r *Report) {
	r.Explanation = "Narrow clauses: (T-CASES) the crop switch handles every sample table box (stts, stss, ctts, stsc, stsz, sdtp, stco, co64); (E9) crop functions keep parallel/cached table members in step; (O-EVERY) every iteration of the track loop of cropStblChildren walks the track's sample tables (a fully kept track still gets its re-packed chunk offsets); (L-DIVMUL) no integer quotient is multiplied afterwards in the crop tool (duration and timescale conversions multiply first); (DEP) every chunk offset updateChunkOffsets writes depends on the first kept chunk's input offset (the quantity the kept bytes are laid out from); (L-LOCKSTEP) in mp4ff-crop the input chunk counter of a track (trakOut.nextInChunkNr) is never incremented on a path that does not append the chunk's output offset to trakOut.chunkOffsets (the pair is inferred from the block that steps both); " +
		"(W-NARROW) no 32-bit product widened after the multiplication in the time/offset computations used by the tool; (DEP) the written mdat size depends on the accumulated byte ranges and new chunk offsets depend on the new moov size. " +
		"Does not decide that the cut point is right, sync-sample selection, or durations."
	ruleCoherence(c, r, map[string]bool{"StscBox": true, "SttsBox": true, "CttsBox": true, "StszBox": true})
	ruleNarrowMul(c, r, "W-NARROW", sampleTableScope)
	ruleCropCases(c, r)
	if n := ruleDivBeforeMul(c, r, func(f *ssa.Function) bool {
		return strings.HasPrefix(SSAFuncName(f), "cmd/mp4ff-crop.") || strings.HasPrefix(SSAFuncName(f), "mp4.")
	}); n < 4 {
		r.Undecided("L-DIVMUL", "scope", "", fmt.Sprintf("only %d products of an integer quotient found in mp4ff-crop and package mp4", n))
	}
	requireFixture(r, "L-DIVMUL", "ticksWrong", func(fc *Ctx, s *Report) { ruleDivBeforeMul(fc, s, nil) })
	ruleCropCounts(c, r)
	ruleCropOffsetShift(c, r)
	ruleCropEveryTrack(c, r)
	if n := ruleLockstep(c, r, map[string]bool{"trakOut": true}); n < 1 {
		r.Undecided("L-LOCKSTEP", "scope", "", "the pair trakOut.nextInChunkNr ~ chunkOffsets (mp4ff-crop) was not inferred")
	}
	requireFixture(r, "L-LOCKSTEP", "stepper.alone", func(fc *Ctx, s *Report) { ruleLockstep(fc, s, nil) })
	if n := ruleStrictUpper(c, r, "G7", func(f *ssa.Function) bool {
		return strings.HasPrefix(SSAFuncName(f), "mp4.") || strings.HasPrefix(SSAFuncName(f), "cmd/mp4ff-crop.")
	}); n < 4 {
		r.Undecided("G7", "scope", "", "upper-bound tests against the sample count not found")
	}
	ruleNoMdatHeaderConstant(c, r, "W-MDATHDR")
	requireFixture(r, "W-MDATHDR", "payloadStartWrong", func(fc *Ctx, s *Report) { ruleNoMdatHeaderConstant(fc, s, "W-MDATHDR") })
	requireFixture(r, "W-NARROW", "TfrfData.size", func(fc *Ctx, s *Report) { ruleNarrowMul(fc, s, "W-NARROW", nil) })
	r.Floor("E9", 8)
}

package chk

import (
	"fmt"
	"go/types"
	"os"
	"sort"
)

var debugDump bool

func init() { Registry["WDEBUG"] = debugWire }

// debugWire prints the verdict of every box (development aid).
func debugWire(c *Ctx, r *Report) {
	vs := allBoxVerdicts(c, r)
	nOK := 0
	for _, v := range vs {
		status := "OK"
		if len(v.irr) > 0 || v.err != "" {
			status = "IRREG"
		} else if len(v.de)+len(v.se)+len(v.dd)+len(v.ee) > 0 {
			status = "DIFF"
		} else {
			nOK++
		}
		fmt.Printf("%-6s %-28s %-24s cfgs=%d rej=%d items=%d dd=%v ee=%v %s\n", status, v.name, v.typ, v.nCfg, v.nRej, v.items, v.hasDD, v.hasEE, v.err)
		for ph, why := range v.irr {
			_ = ph
			fmt.Printf("         irregular %s\n", why)
		}
		for _, m := range []struct {
			k string
			m map[string]string
		}{{"DE", v.de}, {"SE", v.se}, {"DD", v.dd}, {"EE", v.ee}} {
			var ks []string
			for k := range m.m {
				ks = append(ks, k)
			}
			sort.Strings(ks)
			for i, k := range ks {
				if i >= 2 {
					fmt.Printf("         %s … %d more configurations\n", m.k, len(ks)-2)
					break
				}
				fmt.Printf("         %s %s: %s\n", m.k, k, m.m[k])
			}
		}
	}
	fmt.Printf("TOTAL boxes=%d ok=%d\n", len(vs), nOK)
	r.OK("DEBUG", "x", "", "")
	r.OK("DEBUG", "y", "", "")
}

func init() { Registry["WDEBUG1"] = debugWireOne }

// debugWireOne analyses the SR decoder named in $WBOX and dumps traces.
func debugWireOne(c *Ctx, r *Report) {
	name := os.Getenv("WBOX")
	fn := c.LookupFunc("mp4", name)
	if fn == nil {
		fmt.Println("no such function", name)
		return
	}
	var rd *types.Func
	if n := os.Getenv("WRD"); n != "" {
		rd = c.LookupFunc("mp4", n)
	}
	debugDump = true
	v := analyseBox(c, fn, rd, os.Getenv("WEE") != "")
	fmt.Printf("%s cfgs=%d rej=%d irr=%v\n de=%v\n se=%v\n dd=%v\n ee=%v\n dc=%v\n", v.name, v.nCfg, v.nRej, v.irr, v.de, v.se, v.dd, v.ee, v.dontcare)
	r.OK("DEBUG", "x", "", "")
}

package chk

// O-ERR — error discipline: an error returned together with a value must not be lost on any path.

import (
	"fmt"
	"strings"

	"golang.org/x/tools/go/ssa"
)

// ruleOERR examines every call in the scoped functions whose last result is an error:
//   - the error is extracted and used (tested, returned, wrapped, stored) on EVERY path from the call to a
//     function exit or back to the call (loop iteration). A path on which the co-returned value decides to
//     `continue` or `return nil` before the error is looked at swallows the error.
func ruleOERR(c *Ctx, r *Report, rule string, scope func(*ssa.Function) bool) {
	for _, f := range c.RepoFuncs(nil) {
		if !scope(f) {
			continue
		}
		name := SSAFuncName(f)
		seen := map[string]int{}
		for _, b := range f.Blocks {
			for _, ins := range b.Instrs {
				call, ok := ins.(*ssa.Call)
				if !ok {
					continue
				}
				sig := call.Call.Signature()
				n := sig.Results().Len()
				if n == 0 || sig.Results().At(n-1).Type().String() != "error" {
					continue
				}
				cn := calleeName(call.Common())
				if strings.HasPrefix(cn, "fmt.") || strings.HasSuffix(cn, ".Close") || strings.HasPrefix(cn, "builtin.") {
					continue // printing and Close on exit paths are outside the property
				}
				seen[cn]++
				key := fmt.Sprintf("%s:%s", name, cn)
				if seen[cn] > 1 {
					key = fmt.Sprintf("%s#%d", key, seen[cn])
				}
				// locate the error value
				var errV ssa.Value
				if n == 1 {
					errV = call
				} else {
					for _, ref := range *call.Referrers() {
						if ex, ok := ref.(*ssa.Extract); ok && ex.Index == n-1 {
							errV = ex
						}
					}
				}
				if errV == nil || len(*errV.Referrers()) == 0 {
					if n == 1 && len(*call.Referrers()) == 0 {
						r.Bad(rule, key, c.Pos(call.Pos()), "the error returned by "+cn+" is discarded")
					} else if n > 1 {
						r.Bad(rule, key, c.Pos(call.Pos()), "the error returned by "+cn+" is discarded (assigned to _ or never read)")
					}
					continue
				}
				useBlocks := map[*ssa.BasicBlock]bool{}
				var markUses func(v ssa.Value, d int)
				markUses = func(v ssa.Value, d int) {
					if d > 3 {
						return
					}
					for _, ref := range *v.Referrers() {
						useBlocks[ref.Block()] = true
						if ph, ok := ref.(*ssa.Phi); ok {
							// the error lives on in a merged variable: its later uses count, the merge block itself too
							markUses(ph, d+1)
						}
					}
				}
				markUses(errV, 0)
				// path search: from the call's block, avoiding use blocks
				lost := ""
				if !useBlocks[b] || !usedAfter(errV, call) {
					visited := map[*ssa.BasicBlock]bool{}
					var stack []*ssa.BasicBlock
					if useBlocks[b] {
						// used in the same block after the call: fine for this block
					} else {
						stack = append(stack, b.Succs...)
					}
					for len(stack) > 0 && lost == "" {
						x := stack[len(stack)-1]
						stack = stack[:len(stack)-1]
						if visited[x] || useBlocks[x] {
							continue
						}
						visited[x] = true
						if x == b {
							lost = "the loop continues to the next iteration"
							break
						}
						if len(x.Succs) == 0 {
							if _, ok := x.Instrs[len(x.Instrs)-1].(*ssa.Return); ok {
								// a path that ends by returning another, non-nil error does not swallow anything
								if !blockRejects(x) {
									lost = "the function returns at " + c.Pos(x.Instrs[len(x.Instrs)-1].Pos())
								}
							}
							continue
						}
						stack = append(stack, x.Succs...)
					}
				}
				if lost != "" {
					r.Bad(rule, key, c.Pos(call.Pos()), "the error returned by "+cn+" is not looked at on a path where "+lost+": an error is swallowed and the co-returned value decides instead")
				} else {
					r.OK(rule, key, c.Pos(call.Pos()), "error is tested, returned or wrapped on every path")
				}
			}
		}
	}
}

func usedAfter(v ssa.Value, call *ssa.Call) bool {
	for _, ref := range *v.Referrers() {
		if ref.Block() == call.Block() {
			return true
		}
	}
	return false
}

// acceptedDiscards: explicit `_ =` discards of errors in the library on today's tree, each read and accepted:
// the callee cannot fail for the freshly created boxes / consistent values it is given there.
var acceptedDiscards = map[string]string{
	"mp4.CreateFragment:mp4.MoofBox.AddChild":             "mfhd added to a new moof: AddChild only fails for a second mfhd/traf of the same kind",
	"mp4.CreateFragment:mp4.MoofBox.AddChild#2":           "first traf of a new moof",
	"mp4.CreateFragment:mp4.TrafBox.AddChild":             "tfhd added to a new traf",
	"mp4.CreateFragment:mp4.TrafBox.AddChild#2":           "tfdt added to a new traf",
	"mp4.CreateFragment:mp4.TrafBox.AddChild#3":           "trun added to a new traf",
	"mp4.CreateMultiTrackFragment:mp4.MoofBox.AddChild":   "mfhd added to a new moof",
	"mp4.CreateMultiTrackFragment:mp4.MoofBox.AddChild#2": "traf added to a new moof",
	"mp4.CreateMultiTrackFragment:mp4.TrafBox.AddChild":   "tfhd added to a new traf",
	"mp4.CreateMultiTrackFragment:mp4.TrafBox.AddChild#2": "tfdt added to a new traf",
	"mp4.EncryptFragment:mp4.TrafBox.AddChild":            "saiz created by EncryptFragment for this traf",
	"mp4.EncryptFragment:mp4.TrafBox.AddChild#2":          "saio created by EncryptFragment for this traf",
	"mp4.EncryptFragment:mp4.TrafBox.AddChild#3":          "senc created by EncryptFragment for this traf",
	"mp4.EncryptFragment:mp4.SencBox.AddSample":           "all IVs of one fragment have the same length by construction (cenc arm)",
	"mp4.EncryptFragment:mp4.SencBox.AddSample#2":         "all IVs of one fragment have the same length by construction (cbcs arm)",
}

// ruleOERRLibrary — O-ERR over the library packages: every error returned by a callee is looked at on every path
// that does not itself end in an error; explicit discards are limited to the accepted table.
func ruleOERRLibrary(c *Ctx, r *Report) {
	scratch := NewReport("oerr")
	ruleOERR(c, scratch, "O-ERR", func(f *ssa.Function) bool {
		if f.Pkg == nil || f.Synthetic != "" {
			return false
		}
		if strings.HasSuffix(c.Fset.Position(f.Pos()).Filename, "_test.go") {
			return false
		}
		for q := f; q != nil; q = q.Parent() {
			if q.Pkg != nil {
				for _, p := range c.Pkgs {
					if p.Types == q.Pkg.Pkg {
						return IsLib(p)
					}
				}
			}
		}
		return false
	})
	n, acc := 0, 0
	for _, o := range scratch.Obls {
		n++
		if o.Status == Discharged {
			continue
		}
		k := strings.TrimPrefix(o.Key, "O-ERR:")
		if why, ok := acceptedDiscards[k]; ok {
			acc++
			r.OK("O-ERR", k, o.Pos, "accepted discard: "+why)
			continue
		}
		r.Bad("O-ERR", k, o.Pos, o.Detail)
	}
	if n < 800 {
		r.Undecided("O-ERR", "scope", "", fmt.Sprintf("only %d error-returning calls found in the library", n))
	} else {
		r.OK("O-ERR", "scope", "", fmt.Sprintf("%d error-returning calls in the library packages: every error is tested, returned, wrapped or merged on every path that does not end in an error; %d accepted explicit discards", n, acc))
	}
}

package chk

import (
	"fmt"
	"go/token"
	"go/types"
	"sort"
	"strings"

	"golang.org/x/tools/go/ssa"
)

// ruleNarrowShift (L-NARROWSHIFT): a left shift by a constant computed in an 8- or 16-bit type and only then widened
// (`uint16(b.DownmixID<<6)`) has already lost the bits shifted out of the narrow type. Accepted: the shifted operand
// is masked so that nothing can be lost (`(x & 0x3) << 6`).
func ruleNarrowShift(c *Ctx, r *Report, scope func(*ssa.Function) bool) int {
	n := 0
	for _, f := range libFuncs(c, scope) {
		idx := 0
		for _, b := range f.Blocks {
			for _, ins := range b.Instrs {
				cv, ok := ins.(*ssa.Convert)
				if !ok || !isIntType(cv.Type()) || !isIntType(cv.X.Type()) || typeBits(cv.Type()) <= typeBits(cv.X.Type()) {
					continue
				}
				sh, ok := cv.X.(*ssa.BinOp)
				if !ok || sh.Op != token.SHL || typeBits(sh.Type()) > 16 {
					continue
				}
				ks, ok := constSet(sh.Y, 0)
				if !ok || len(ks) != 1 || ks[0] <= 0 {
					continue
				}
				n++
				idx++
				key := fmt.Sprintf("%s:widen(x<<%d)#%d", SSAFuncName(f), ks[0], idx)
				// masked operand: x & m with m<<k fitting the narrow type
				fits := false
				if and, ok := sh.X.(*ssa.BinOp); ok && and.Op == token.AND {
					for _, o := range []ssa.Value{and.X, and.Y} {
						if ms, ok := constSet(o, 0); ok && len(ms) == 1 && ms[0] >= 0 && (ms[0]<<uint(ks[0])) < (int64(1)<<uint(typeBits(sh.Type()))) {
							fits = true
						}
					}
				}
				if fits {
					r.OK("L-NARROWSHIFT", key, c.Pos(cv.Pos()), "the shifted operand is masked so that no bit leaves the narrow type")
				} else {
					r.Bad("L-NARROWSHIFT", key, c.Pos(cv.Pos()), fmt.Sprintf("a %d-bit value is shifted left by %d in its own type and only then widened: the bits shifted out are already lost", typeBits(sh.Type()), ks[0]))
				}
			}
		}
	}
	return n
}

// ruleDeadAppend (L-DEADAPPEND): the result of an append is used: stored, passed on or returned. A slice built with
// a chain of appends into a local that is never read afterwards (and never assigned back to the field it was meant
// to replace) is work thrown away.
func ruleDeadAppend(c *Ctx, r *Report, scope func(*ssa.Function) bool) int {
	n := 0
	for _, f := range libFuncs(c, scope) {
		idx := 0
		for _, b := range f.Blocks {
			for _, ins := range b.Instrs {
				call, ok := ins.(*ssa.Call)
				if !ok {
					continue
				}
				bi, ok := call.Call.Value.(*ssa.Builtin)
				if !ok || bi.Name() != "append" {
					continue
				}
				n++
				used := false
				if call.Referrers() != nil {
					for _, ref := range *call.Referrers() {
						if _, isDbg := ref.(*ssa.DebugRef); !isDbg {
							used = true
						}
					}
				}
				if used {
					continue
				}
				idx++
				r.Bad("L-DEADAPPEND", fmt.Sprintf("%s:append-result-unused#%d", SSAFuncName(f), idx), c.Pos(call.Pos()), "the result of this append is never used: the slice built here is not stored, passed on or returned")
			}
		}
	}
	return n
}

// ruleTypedChildStores (T-TYPEDCHILD): the typed child pointers of a box (traf.Tfdt, moov.Mvex, …: the fields AddChild
// sets) mirror entries of Children. A function that stores a non-nil value into such a field also stores the
// Children of the same box or calls its AddChild: otherwise the typed view and the list Encode walks come apart.
func ruleTypedChildStores(c *Ctx, r *Report) int {
	fields := optionalChildFields(c)
	n := 0
	for _, f := range libFuncs(c, func(f *ssa.Function) bool { return strings.HasPrefix(SSAFuncName(f), "mp4.") }) {
		if f.Name() == "AddChild" {
			continue
		}
		idx := 0
		for _, b := range f.Blocks {
			for _, ins := range b.Instrs {
				st, ok := ins.(*ssa.Store)
				if !ok {
					continue
				}
				fa, ok := st.Addr.(*ssa.FieldAddr)
				if !ok {
					continue
				}
				fv := fieldVar(fa.X.Type(), fa.Field)
				if fv == nil || !fields[fv] {
					continue
				}
				if cv, isC := st.Val.(*ssa.Const); isC && cv.IsNil() {
					continue // clearing the view (removal code edits Children too; O-KEEP covers those)
				}
				n++
				idx++
				key := fmt.Sprintf("%s:(%s).%s=#%d", SSAFuncName(f), typeName(fa.X.Type()), fv.Name(), idx)
				// the same function stores Children of the same box, calls AddChild on it, or builds the box itself
				ok2 := false
				if _, isAlloc := fa.X.(*ssa.Alloc); isAlloc {
					ok2 = true // a box under construction in this function
				}
				for _, b2 := range f.Blocks {
					for _, i2 := range b2.Instrs {
						switch y := i2.(type) {
						case *ssa.Store:
							if fa2, ok := y.Addr.(*ssa.FieldAddr); ok && fieldNameOf(fa2) == "Children" && (fa2.X == fa.X || sameValue(fa2.X, fa.X)) {
								ok2 = true
							}
						case *ssa.Call:
							if cal := y.Call.StaticCallee(); cal != nil && cal.Name() == "AddChild" && len(y.Call.Args) > 0 && (y.Call.Args[0] == fa.X || sameValue(y.Call.Args[0], fa.X)) {
								ok2 = true
							}
						}
					}
				}
				if ok2 {
					r.OK("T-TYPEDCHILD", key, c.Pos(st.Pos()), "the child list of the same box is updated in the same function")
				} else {
					r.Bad("T-TYPEDCHILD", key, c.Pos(st.Pos()), fmt.Sprintf("the typed child pointer %s.%s is replaced without updating Children of the same box: Encode walks Children and still writes the old child", typeName(fa.X.Type()), fv.Name()))
				}
			}
		}
	}
	return n
}

// ruleOneBasedIndexGuard (G7-IDX): where a function rejects an index parameter against the length of a slice field and
// then reads element index+c of that slice, the rejection admits every element: the established fact is not
// stronger than len >= index+c+1 for the largest c used. `if nr <= 0 || nr >= len(tab) { error }; tab[nr-1]` refuses
// the last entry.
func ruleOneBasedIndexGuard(c *Ctx, r *Report, scope func(*ssa.Function) bool) int {
	n := 0
	idx := 0
	lastFn := (*ssa.Function)(nil)
	judge := func(f *ssa.Function, fact linForm, acc *ssa.BasicBlock, X ssa.Value, id func(ssa.Value) ssa.Value, at token.Pos) {
		if f != lastFn {
			lastFn, idx = f, 0
		}
		if len(fact.cs) != 1 {
			return
		}
		var par ssa.Value
		for leaf, cf := range fact.cs {
			if cf == 1 {
				if p, isPar := stripConv(leaf).(*ssa.Parameter); isPar && p.Parent() == f {
					par = p
				}
			}
		}
		if par == nil {
			return
		}
		// uses of X indexed by par+c in blocks the accepting arm dominates
		maxOff, have := int64(0), false
		for _, b2 := range f.Blocks {
			if !(b2 == acc || acc.Dominates(b2)) {
				continue
			}
			for _, i2 := range b2.Instrs {
				ia, ok := i2.(*ssa.IndexAddr)
				if !ok || !sameSSA(ia.X, X) {
					continue
				}
				lf := linOf(ia.Index, id, 0)
				if len(lf.cs) == 1 && lf.cs[id(par)] == 1 {
					if !have || lf.k > maxOff {
						maxOff, have = lf.k, true
					}
				}
			}
		}
		if !have {
			return
		}
		n++
		idx++
		key := fmt.Sprintf("%s:index-guard#%d", SSAFuncName(f), idx)
		// fact: len >= par + fact.k ; needed: len >= par + maxOff + 1
		if fact.k > maxOff+1 {
			r.Bad("G7-IDX", key, c.Pos(at), fmt.Sprintf("the index is rejected unless len >= index%+d, but the element read is index%+d: the last %d valid element(s) are refused", fact.k, maxOff, fact.k-maxOff-1))
		} else {
			r.OK("G7-IDX", key, c.Pos(at), "the rejection admits every element that is read")
		}
	}
	for _, f := range libFuncs(c, scope) {
		// rejecting guards: If with one rejecting arm whose condition relates len(X) to a linear form of a parameter
		for _, b := range f.Blocks {
			if len(b.Instrs) == 0 {
				continue
			}
			ifi, ok := b.Instrs[len(b.Instrs)-1].(*ssa.If)
			if !ok {
				continue
			}
			rej0, rej1 := blockRejects(b.Succs[0]), blockRejects(b.Succs[1])
			if rej0 == rej1 {
				continue
			}
			bo, ok := ifi.Cond.(*ssa.BinOp)
			if !ok {
				continue
			}
			// which slice?
			var X ssa.Value
			for _, o := range []ssa.Value{bo.X, bo.Y} {
				if call, ok := stripConv(o).(*ssa.Call); ok {
					if bi, ok := call.Call.Value.(*ssa.Builtin); ok && bi.Name() == "len" {
						if ld, ok := call.Call.Args[0].(*ssa.UnOp); ok {
							if _, isF := ld.X.(*ssa.FieldAddr); isF {
								X = call.Call.Args[0]
							}
						}
					}
				}
			}
			if X == nil {
				continue
			}
			id := newCanon()
			fact, ok := lenBoundFact(ifi.Cond, rej1, X, id) // truth on the accepting arm: cond true iff arm 0 accepts
			if !ok {
				continue
			}
			acc := b.Succs[0]
			if rej0 {
				acc = b.Succs[1]
			}
			judge(f, fact, acc, X, id, ifi.Pos())
		}
		// the same rejection inside a checking helper: `if err := checkNr(nr, len(b.tab)); err != nil { return }`
		for _, b := range f.Blocks {
			if len(b.Instrs) == 0 {
				continue
			}
			ifi, ok := b.Instrs[len(b.Instrs)-1].(*ssa.If)
			if !ok {
				continue
			}
			bo, ok := ifi.Cond.(*ssa.BinOp)
			if !ok || (bo.Op != token.NEQ && bo.Op != token.EQL) || bo.X.Type().String() != "error" {
				continue
			}
			if k, isC := bo.Y.(*ssa.Const); !isC || k.Value != nil {
				continue
			}
			call, ok := bo.X.(*ssa.Call)
			if !ok {
				continue
			}
			acc := b.Succs[1] // err != nil false
			if bo.Op == token.EQL {
				acc = b.Succs[0]
			}
			var X ssa.Value
			for _, o := range call.Call.Args {
				if lc, ok := stripConv(o).(*ssa.Call); ok {
					if bi, ok := lc.Call.Value.(*ssa.Builtin); ok && bi.Name() == "len" {
						if ld, ok := lc.Call.Args[0].(*ssa.UnOp); ok {
							if _, isF := ld.X.(*ssa.FieldAddr); isF {
								X = lc.Call.Args[0]
							}
						}
					}
				}
			}
			if X == nil {
				continue
			}
			for _, hf := range errorHelperFacts(call) {
				id := newCanon()
				subst := hf.subst
				idSub := func(v ssa.Value) ssa.Value {
					if a, ok := subst[stripConv(v)]; ok {
						return id(stripConv(a))
					}
					return id(v)
				}
				fact, ok := lenBoundFact(hf.cond, hf.truth, X, idSub)
				if !ok {
					continue
				}
				judge(f, fact, acc, X, id, ifi.Pos())
			}
		}
	}
	return n
}

// ruleHeaderEncoderPairs (S-COND, header writers): the io.Writer and SliceWriter twins of the box header encoders
// reject and branch on the same comparisons of the same quantities with the same constants (up to negation).
func ruleHeaderEncoderPairs(c *Ctx, r *Report) int {
	n := 0
	sig := func(f *ssa.Function) map[string]int {
		out := map[string]int{}
		for _, b := range f.Blocks {
			if len(b.Instrs) == 0 {
				continue
			}
			ifi, ok := b.Instrs[len(b.Instrs)-1].(*ssa.If)
			if !ok {
				continue
			}
			if isErrorTest(ifi.Cond) {
				continue
			}
			bo, ok := ifi.Cond.(*ssa.BinOp)
			if !ok {
				if p, isPar := ifi.Cond.(*ssa.Parameter); isPar {
					out["param "+p.Name()+" bool"]++
				}
				continue
			}
			x, y, op := bo.X, bo.Y, bo.Op
			if _, isC := x.(*ssa.Const); isC {
				x, y = y, x
				op = map[token.Token]token.Token{token.EQL: token.EQL, token.NEQ: token.NEQ, token.LSS: token.GTR, token.GTR: token.LSS, token.LEQ: token.GEQ, token.GEQ: token.LEQ}[op]
			}
			cv, isC := y.(*ssa.Const)
			if !isC || cv.Value == nil {
				continue
			}
			class := map[token.Token]string{token.EQL: "==", token.NEQ: "==", token.LSS: "<", token.GEQ: "<", token.LEQ: "<=", token.GTR: "<="}[op]
			out[fmt.Sprintf("%s %s %s", exprKey(x, nil, 0), class, cv.Value.ExactString())]++
		}
		return out
	}
	for _, pair := range [][2]string{{"EncodeHeader", "EncodeHeaderSW"}, {"EncodeHeaderWithSize", "EncodeHeaderWithSizeSW"}} {
		fa := c.ssaFunc(r, "S-COND", "mp4", pair[0])
		fb := c.ssaFunc(r, "S-COND", "mp4", pair[1])
		if fa == nil || fb == nil {
			continue
		}
		n++
		key := "mp4." + pair[0] + "~" + pair[1]
		a, b := sig(fa), sig(fb)
		var diff []string
		for k := range a {
			if b[k] == 0 {
				diff = append(diff, "only "+pair[0]+" tests "+k)
			}
		}
		for k := range b {
			if a[k] == 0 {
				diff = append(diff, "only "+pair[1]+" tests "+k)
			}
		}
		sort.Strings(diff)
		if len(diff) > 0 {
			r.Bad("S-COND", key, c.Pos(fb.Pos()), "the two header writers branch on different tests: "+strings.Join(diff, "; "))
		} else {
			r.OK("S-COND", key, c.Pos(fb.Pos()), fmt.Sprintf("both header writers branch on the same %d tests", len(a)))
		}
	}
	return n
}

var _ = types.Typ

func init() {
	Registry["WLINT3"] = func(c *Ctx, r *Report) {
		fmt.Println("narrow shifts", ruleNarrowShift(c, r, nil))
		fmt.Println("appends", ruleDeadAppend(c, r, nil))
		fmt.Println("typed child stores", ruleTypedChildStores(c, r))
		fmt.Println("index guards", ruleOneBasedIndexGuard(c, r, nil))
		fmt.Println("header pairs", ruleHeaderEncoderPairs(c, r))
		for _, o := range r.Obls {
			if o.Status != Discharged || strings.HasPrefix(o.Key, "G7-IDX") || strings.HasPrefix(o.Key, "S-COND") || strings.HasPrefix(o.Key, "L-NARROWSHIFT") {
				fmt.Println(o.Status, o.Key, o.Pos, o.Detail)
			}
		}
	}
}

// ruleCropEveryTrack (O-EVERY): in mp4ff-crop's cropStblChildren every track's sample tables are walked: no iteration
// of the loop over the tracks goes round the loop over stbl.Children (where the tables are cut and the chunk offsets
// replaced by the re-packed ones). A track whose samples are all kept still needs its new chunk offsets.
func ruleCropEveryTrack(c *Ctx, r *Report) {
	f := c.ssaFunc(r, "O-EVERY", "cmd/mp4ff-crop", "cropStblChildren")
	if f == nil {
		return
	}
	key := "cmd/mp4ff-crop.cropStblChildren:every-track-walks-its-tables"
	calls := callsIn(f, "updateStco", false)
	if len(calls) == 0 {
		r.Undecided("O-EVERY", key, c.Pos(f.Pos()), "no call of updateStco found")
		return
	}
	var inner, outer *loopInfo
	for _, l := range naturalLoops(f) {
		if !l.blocks[calls[0].Block()] {
			continue
		}
		if outer == nil || len(l.blocks) > len(outer.blocks) {
			outer = l
		}
		if inner == nil || len(l.blocks) < len(inner.blocks) {
			inner = l
		}
	}
	if inner == nil || outer == nil || inner == outer {
		r.Undecided("O-EVERY", key, c.Pos(f.Pos()), "the track loop and the table loop were not both found")
		return
	}
	if via := cycleAvoidingBlocks(outer, map[*ssa.BasicBlock]bool{inner.header: true}); via != nil {
		r.Bad("O-EVERY", key, c.Pos(firstPos(via)), "an iteration of the loop over the tracks can skip the walk over the track's sample tables: that track keeps its old chunk offsets although the mdat is re-packed")
	} else {
		r.OK("O-EVERY", key, c.Pos(calls[0].Pos()), "every iteration of the track loop walks the track's sample tables")
	}
}

// ruleMdatHeaderSizeFlag (DEP): MdatBox.HeaderSize decides between 8 and 16 bytes from the LargeSize flag, the same
// flag Encode/EncodeSW hand to the header writer (and that records the header form read), not from the payload size.
func ruleMdatHeaderSizeFlag(c *Ctx, r *Report) {
	f := c.ssaFunc(r, "DEP", "mp4", "MdatBox.HeaderSize")
	if f == nil {
		return
	}
	key := "mp4.MdatBox.HeaderSize:from-LargeSize"
	n := 0
	for _, b := range f.Blocks {
		if len(b.Instrs) == 0 {
			continue
		}
		ifi, ok := b.Instrs[len(b.Instrs)-1].(*ssa.If)
		if !ok {
			continue
		}
		n++
		if !isDirectFieldLoad(ifi.Cond, "MdatBox.LargeSize") {
			r.Bad("DEP", key, c.Pos(ifi.Pos()), "the header size is decided by something other than the LargeSize flag: PayloadAbsoluteOffset() (StartPos + HeaderSize()) then disagrees with the header that was read and that Encode writes")
			return
		}
	}
	if n == 0 {
		r.Undecided("DEP", key, c.Pos(f.Pos()), "no branch found")
		return
	}
	r.OK("DEP", key, c.Pos(f.Pos()), "the header size is decided by the LargeSize flag alone")
}

// ruleEncryptUsesTrex (DEP): EncryptFragment reads the samples with the trex defaults of the protected track (sizes
// signalled only as trex default_sample_size are samples too): the argument of GetFullSamples depends on the
// InitProtectData's Trex.
func ruleEncryptUsesTrex(c *Ctx, r *Report) {
	f := c.ssaFunc(r, "DEP", "mp4", "EncryptFragment")
	if f == nil {
		return
	}
	key := "mp4.EncryptFragment:samples-with-trex-defaults"
	calls := callsIn(f, "Fragment.GetFullSamples", false)
	if len(calls) == 0 {
		r.Undecided("DEP", key, c.Pos(f.Pos()), "no call of Fragment.GetFullSamples found")
		return
	}
	for _, k := range calls {
		args := k.Common().Args
		if len(args) < 2 || !sliceHas(backSlice(c, args[1], 0), "field", "InitProtectData.Trex") {
			r.Bad("DEP", key, c.Pos(k.Pos()), "the samples to encrypt are read without the trex defaults of the track: samples whose size is signalled only by trex are seen as empty and left in the clear")
			return
		}
	}
	r.OK("DEP", key, c.Pos(calls[0].Pos()), "the samples are read with the trex of the protected track")
}

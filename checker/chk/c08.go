package chk

import (
	"fmt"
	"go/token"
	"go/types"
	"strings"

	"golang.org/x/tools/go/ssa"
)

func init() { Registry["C08"] = checkC08 }

// C08 — lazy-mdat mode is observationally equal to in-memory mode (narrow structural clauses).
func checkC08(c *Ctx, r *Report) {
	r.Explanation = "Narrow clauses: (DEP) the payload size remembered by DecodeMdatLazily and the distance DecodeBoxLazyMdat seeks both depend on the box size AND the actual header length (8 or 16), " +
		"the three mdat decoders derive LargeSize from the header length and StartPos from the start position; (S-SHAPE) DecodeBoxLazyMdat performs the same header decode, registry lookup, unknown-box fallback and decoder call as DecodeBox, " +
		"differing only in the mdat arm, where it seeks only after a successful lazy decode; (G7) ReadData/CopyData reject a range end only when it is strictly greater than the data length (a range ending at the last byte is valid); " +
		"(G7, generalised) in package mp4 every test that rejects a parameter-derived exclusive range end against the mdat data length, or a sample number against the sample count, is strict; (O-FLUSH) in File.CopySampleData a direct copy from the file to the writer is control-dependent on a test that the work buffer is absent, so buffered bytes of earlier chunks cannot be overtaken, and the buffer remainder is written after the loop; " +
		"(DEP) File.AddChild's test that the previous mdat is empty depends on the lazily decoded size; (G-SEEK) the relative seek past a lazily decoded mdat payload is preceded by a test that the int64 distance is not negative; (O-SEEKFIRST) in MdatBox.ReadData, MdatBox.CopyData and File.CopySampleData every read from the caller's io.ReadSeeker is dominated by an absolute Seek on it in the same function (the box cannot know where the caller, or another user of the same ReadSeeker, left the position); (O-POS) MdatBox.StartPos, which the in-memory ReadData/CopyData subtract from an absolute file position while the lazy ones seek to it, is derived in DecodeFile/DecodeFileSR from the input position and not from the re-calculated sizes of the boxes in front of it; (O-MODE) a MdatBox method that adopts a caller's payload clears what IsLazy() decides on; (O-PAIR) in a function that adds a sample to a trun and accumulates the mdat's lazy data size no return is reachable from the AddSample call without the accumulation; (O-POS) in DecodeFile no call that may reposition the input (findAndReadMfra) is reachable from the capture of lazy mode's reference position; (DEP) MdatBox.HeaderSize is decided by the LargeSize flag alone (the header form read and written), so PayloadAbsoluteOffset agrees in both modes; (L-SHORTREAD) every direct Read on an io.Reader/io.ReadSeeker in package mp4 is inside a loop (whole ranges are read with io.ReadFull/io.CopyN): a single Read may return fewer bytes than asked for; (O-FRESH) MdatBox.ReadData returns freshly allocated bytes or a part of Data, never a buffer kept in the box; (O-INDEP) in loops over chunks the first-chunk and last-chunk adjustments are independent, not exclusive arms (lazy copyMediaData and GetRangesForSampleInterval); (W-MDATHDR) no function computes the payload start as StartPos plus a constant. W-EE (layout engine, C03) covers that a lazy mdat encodes to exactly its header. Does not decide seek arithmetic values or refill correctness for all sizes."
	ruleMdatEmptyTest(c, r)
	if n := ruleSeekForward(c, r); n < 1 {
		r.Undecided("G-SEEK", "scope", "", "no relative seek by a size-derived distance found")
	}
	if n := ruleSeekFirst(c, r); n < 3 {
		r.Undecided("O-SEEKFIRST", "scope", "", "the three positional readers (ReadData, CopyData, CopySampleData) not all found")
	}
	if n := ruleShortRead(c, r, func(f *ssa.Function) bool { return strings.HasPrefix(SSAFuncName(f), "mp4.") }); n < 1 {
		r.Undecided("L-SHORTREAD", "scope", "", "no direct Read on an io.Reader found in package mp4 (CopySampleData's refill loop expected)")
	}
	requireFixture(r, "L-SHORTREAD", "shortRead", func(fc *Ctx, s *Report) { ruleShortRead(fc, s, nil) })
	ruleStartPosFromInput(c, r)
	ruleMdatHeaderSizeFlag(c, r)
	if n := ruleAdoptLeavesLazy(c, r); n < 1 {
		r.Undecided("O-MODE", "scope", "", "no MdatBox method adopting a caller's payload found (SetData expected)")
	}
	if n := ruleLazySampleCounted(c, r); n < 2 {
		r.Undecided("O-PAIR", "scope", "", "Fragment.AddSample / AddSampleToTrack (trun AddSample with lazy size accumulation) not found")
	}
	ruleCaptureAfterReposition(c, r)
	ruleFreshResult(c, r)
	ruleIndependentEnds(c, r, "O-INDEP", func(f *ssa.Function) bool {
		n := SSAFuncName(f)
		return strings.HasPrefix(n, "examples/segmenter.") || strings.HasPrefix(n, "mp4.")
	}, 2)
	ruleNoMdatHeaderConstant(c, r, "W-MDATHDR")
	requireFixture(r, "W-MDATHDR", "payloadStartWrong", func(fc *Ctx, s *Report) { ruleNoMdatHeaderConstant(fc, s, "W-MDATHDR") })
	if f := c.ssaFunc(r, "DEP", "mp4", "DecodeMdatLazily"); f != nil {
		sts := storesTo(f, "MdatBox.lazyDataSize")
		if len(sts) == 0 {
			r.Bad("DEP", "mp4.DecodeMdatLazily:lazyDataSize", c.Pos(f.Pos()), "lazy payload size is not recorded")
		}
		for _, st := range sts {
			requireDeps(c, r, "DEP", "mp4.DecodeMdatLazily:lazyDataSize", c.Pos(st.Pos()), st.Val, []string{"field:BoxHeader.Size", "field:BoxHeader.Hdrlen"}, nil, "payload size of a lazily decoded mdat")
		}
	}
	for _, n := range []string{"DecodeMdat", "DecodeMdatSR", "DecodeMdatLazily"} {
		if f := c.ssaFunc(r, "DEP", "mp4", n); f != nil {
			for _, fld := range []struct{ f, dep string }{{"LargeSize", "field:BoxHeader.Hdrlen"}, {"StartPos", "param:startPos"}} {
				sts := storesTo(f, "MdatBox."+fld.f)
				if len(sts) == 0 {
					r.Bad("DEP", "mp4."+n+":"+fld.f, c.Pos(f.Pos()), "MdatBox."+fld.f+" is not set by the decoder")
				}
				for _, st := range sts {
					requireDeps(c, r, "DEP", "mp4."+n+":"+fld.f, c.Pos(st.Pos()), st.Val, []string{fld.dep}, nil, "MdatBox."+fld.f)
				}
			}
		}
	}
	// shape of DecodeBox / DecodeBoxLazyMdat
	shape := func(name string) (map[string]bool, *ssa.Function) {
		f := c.ssaFunc(r, "S-SHAPE", "mp4", name)
		if f == nil {
			return nil, nil
		}
		m := map[string]bool{}
		if len(callsIn(f, "mp4.DecodeHeader", false)) > 0 {
			m["header decoded with DecodeHeader"] = true
		}
		if len(callsIn(f, "mp4.DecodeUnknown", false)) > 0 {
			m["unknown types fall back to DecodeUnknown"] = true
		}
		for _, b := range f.Blocks {
			for _, ins := range b.Instrs {
				if lk, ok := ins.(*ssa.Lookup); ok {
					if g := globalRoot(lk.X, nil, map[ssa.Value]bool{}); g != nil && g.Name() == "decoders" {
						sl := backSlice(c, lk.Index, 0)
						if sliceHas(sl, "field", "BoxHeader.Name") {
							m["decoder looked up in the registry by the header's name"] = true
						}
					}
				}
				if call, ok := ins.(*ssa.Call); ok && call.Call.StaticCallee() == nil && !call.Call.IsInvoke() {
					if _, isB := call.Call.Value.(*ssa.Builtin); !isB && len(call.Call.Args) == 3 {
						sl := backSlice(c, call.Call.Value, 0)
						if sliceHas(sl, "call", "") || true {
							m["registered decoder called with (header, start position, reader)"] = true
						}
					}
				}
			}
		}
		return m, f
	}
	ma, fa := shape("DecodeBox")
	mb, fb := shape("DecodeBoxLazyMdat")
	if fa != nil && fb != nil {
		for k := range ma {
			if mb[k] {
				r.OK("S-SHAPE", "mp4.DecodeBoxLazyMdat:"+k, c.Pos(fb.Pos()), "same as DecodeBox")
			} else {
				r.Bad("S-SHAPE", "mp4.DecodeBoxLazyMdat:"+k, c.Pos(fb.Pos()), "DecodeBox does this but DecodeBoxLazyMdat does not: "+k)
			}
		}
		if len(ma) < 4 {
			r.Undecided("S-SHAPE", "mp4.DecodeBox:shape", c.Pos(fa.Pos()), fmt.Sprintf("DecodeBox no longer has the expected shape (%d of 4 elements found)", len(ma)))
		}
		// mdat arm
		lazy := callsIn(fb, "mp4.DecodeMdatLazily", false)
		seeks := callsIn(fb, "iface.Seek", false)
		switch {
		case len(lazy) != 1 || len(seeks) != 1:
			r.Bad("S-SHAPE", "mp4.DecodeBoxLazyMdat:mdat-arm", c.Pos(fb.Pos()), "the mdat arm must decode lazily once and seek once past the payload")
		default:
			sk := seeks[0]
			requireDeps(c, r, "DEP", "mp4.DecodeBoxLazyMdat:seek-distance", c.Pos(sk.Pos()), sk.Common().Args[0], []string{"field:BoxHeader.Size", "field:BoxHeader.Hdrlen"}, nil, "distance skipped over the mdat payload")
			whence, ok := sk.Common().Args[1].(*ssa.Const)
			if !ok || whence.Int64() != 1 {
				r.Bad("S-SHAPE", "mp4.DecodeBoxLazyMdat:seek-whence", c.Pos(sk.Pos()), "the payload is not skipped relative to the current position (io.SeekCurrent)")
			} else {
				r.OK("S-SHAPE", "mp4.DecodeBoxLazyMdat:seek-whence", c.Pos(sk.Pos()), "relative seek")
			}
			// seek only after successful lazy decode: control-dependent on an error test
			okErr := false
			for _, cond := range controlConds(sk.Block()) {
				if isErrorTest(cond) {
					okErr = true
				}
			}
			if okErr && instrDominates(lazy[0], sk) {
				r.OK("S-SHAPE", "mp4.DecodeBoxLazyMdat:mdat-arm", c.Pos(sk.Pos()), "seeks past the payload only after a successful lazy decode")
			} else {
				r.Bad("S-SHAPE", "mp4.DecodeBoxLazyMdat:mdat-arm", c.Pos(sk.Pos()), "the seek past the payload is not conditional on the lazy decode having succeeded")
			}
		}
	}
	// G7
	for _, n := range []string{"MdatBox.ReadData", "MdatBox.CopyData"} {
		f := c.ssaFunc(r, "G7", "mp4", n)
		if f == nil {
			continue
		}
		found := 0
		type cmp struct {
			bo   *ssa.BinOp
			X, Y ssa.Value
		}
		var cmps []cmp
		for _, b := range f.Blocks {
			for _, ins := range b.Instrs {
				switch x := ins.(type) {
				case *ssa.BinOp:
					cmps = append(cmps, cmp{x, x.X, x.Y})
				case *ssa.Call:
					// a range check moved into an unexported predicate helper: its comparisons with this call's arguments
					if h := x.Call.StaticCallee(); h != nil {
						for _, lc := range liftedComparisons(c, h) {
							if lc.site == ssa.CallInstruction(x) {
								cmps = append(cmps, cmp{lc.bo, lc.X, lc.Y})
							}
						}
					}
				}
			}
		}
		{
			for _, cm := range cmps {
				bo := cm.bo
				switch bo.Op {
				case token.LSS, token.LEQ, token.GTR, token.GEQ:
				default:
					continue
				}
				sx, sy := backSlice(c, cm.X, 1), backSlice(c, cm.Y, 1)
				var endSide, lenSide map[depNode]bool
				op := bo.Op
				if sliceHas(sx, "param", "size") && sliceHas(sy, "call", "MdatBox.DataLength") {
					endSide, lenSide = sx, sy
				} else if sliceHas(sy, "param", "size") && sliceHas(sx, "call", "MdatBox.DataLength") {
					endSide, lenSide = sy, sx
					op = map[token.Token]token.Token{token.LSS: token.GTR, token.LEQ: token.GEQ, token.GTR: token.LSS, token.GEQ: token.LEQ}[op]
				}
				if endSide == nil || lenSide == nil {
					continue
				}
				found++
				key := "mp4." + n + ":range-end"
				switch op {
				case token.GTR:
					r.OK("G7", key, c.Pos(bo.Pos()), "range end is rejected only when strictly beyond the data length")
				case token.GEQ:
					r.Bad("G7", key, c.Pos(bo.Pos()), "range end is rejected when it EQUALS the data length: a valid range ending at the last byte is refused (must be >)")
				case token.LSS, token.LEQ:
					// acceptance test: end <= len is right, end < len refuses the last byte
					if op == token.LEQ {
						r.OK("G7", key, c.Pos(bo.Pos()), "range end accepted up to and including the data length")
					} else {
						r.Bad("G7", key, c.Pos(bo.Pos()), "range end is accepted only strictly below the data length: a range ending at the last byte is refused")
					}
				}
			}
		}
		if found == 0 {
			r.Bad("G7", "mp4."+n+":range-end", c.Pos(f.Pos()), "the in-memory arm does not compare the end of the requested range with the data length at all")
		}
	}
	if n := ruleStrictUpper(c, r, "G7", func(f *ssa.Function) bool { return strings.HasPrefix(SSAFuncName(f), "mp4.") }); n < 4 {
		r.Undecided("G7", "scope", "", "upper-bound tests against the data length / sample count not found")
	}
	// O-FLUSH
	if f := c.ssaFunc(r, "O-FLUSH", "mp4", "File.CopySampleData"); f != nil {
		copies := callsIn(f, "io.CopyN", false)
		for i, cp := range copies {
			key := fmt.Sprintf("mp4.File.CopySampleData:direct-copy#%d", i)
			ok := false
			for _, cond := range controlConds(cp.Block()) {
				bo, isBo := cond.(*ssa.BinOp)
				if !isBo || bo.Op != token.EQL {
					continue
				}
				sl := backSlice(c, cond, 0)
				if sliceHas(sl, "param", "workSpace") {
					ok = true
				}
			}
			if ok {
				r.OK("O-FLUSH", key, c.Pos(cp.Pos()), "direct file-to-writer copy happens only when there is no work buffer")
			} else {
				r.Bad("O-FLUSH", key, c.Pos(cp.Pos()), "a direct file-to-writer copy can happen while a work buffer is in use: bytes of earlier chunks still in the buffer are overtaken (output reordered)")
			}
		}
		// remainder flush after the loop: a Write of workSpace[:workPos] that is not inside any loop
		loops := naturalLoops(f)
		flushed := false
		narrowed := ""
		writes := callsIn(f, "iface.Write", false)
		// the write may be wrapped in an unexported helper that is handed (a slice of) the work buffer and writes it
		for _, b := range f.Blocks {
			for _, ins := range b.Instrs {
				ci, ok := ins.(ssa.CallInstruction)
				if !ok {
					continue
				}
				h := ci.Common().StaticCallee()
				if h == nil || h.Pkg != f.Pkg || (h.Object() != nil && h.Object().Exported()) {
					continue
				}
				if len(callsIn(h, "iface.Write", false)) == 0 {
					continue
				}
				for ai, a := range ci.Common().Args {
					if _, isSl := a.Type().Underlying().(*types.Slice); isSl && sliceHas(backSlice(c, a, 0), "param", "workSpace") {
						writes = append(writes, helperWrite{ci, ai})
					}
				}
			}
		}
		for _, w := range writes {
			inLoop := false
			for _, l := range loops {
				if l.blocks[w.Block()] {
					inLoop = true
				}
			}
			if inLoop {
				continue
			}
			bufArg := w.Common().Args[0]
			if hw, ok := w.(helperWrite); ok {
				bufArg = hw.Common().Args[hw.arg]
			}
			sl := backSlice(c, bufArg, 0)
			if sliceHas(sl, "param", "workSpace") {
				flushed = true
				// the remainder is written whenever there is one: the only conditions on the write are tests against 0
				// (buffer non-empty) and error tests
				for _, cond := range controlConds(w.Block()) {
					if isErrorTest(cond) {
						continue
					}
					// preconditions of the whole function (the other arm returns an error) and the exit tests of the loops
					// before it are not conditions on the flush
					pre := false
					if cond.Referrers() != nil {
						for _, ref := range *cond.Referrers() {
							if ifi, ok := ref.(*ssa.If); ok {
								for _, l := range loops {
									if l.header == ifi.Block() {
										pre = true
									}
								}
								if blockRejects(ifi.Block().Succs[0]) || blockRejects(ifi.Block().Succs[1]) {
									pre = true
								}
							}
						}
					}
					if pre {
						continue
					}
					v := cond
					if u, ok := v.(*ssa.UnOp); ok && u.Op == token.NOT {
						v = u.X
					}
					bo, ok := v.(*ssa.BinOp)
					zero := false
					if ok {
						for _, o := range []ssa.Value{bo.X, bo.Y} {
							if cs, isC := constSet(o, 0); isC && len(cs) == 1 && cs[0] == 0 {
								zero = true
							}
						}
					}
					if !zero {
						narrowed = "at " + c.Pos(w.Pos())
					}
				}
			}
		}
		if flushed && narrowed != "" {
			r.Bad("O-FLUSH", "mp4.File.CopySampleData:remainder", c.Pos(f.Pos()), narrowed+": the remainder of the work buffer is written only under a further condition besides `there are buffered bytes`: a buffer that is exactly full when the last chunk has been read is never written")
		} else if flushed {
			r.OK("O-FLUSH", "mp4.File.CopySampleData:remainder", c.Pos(f.Pos()), "the remainder of the work buffer is written after the chunk loop")
		} else {
			r.Bad("O-FLUSH", "mp4.File.CopySampleData:remainder", c.Pos(f.Pos()), "the remainder of the work buffer is never written after the chunk loop: trailing bytes are lost")
		}
		r.Floor("O-FLUSH", 2)
	}
	_ = strings.TrimSpace
}

// helperWrite: a call of an unexported helper that writes the slice passed as argument arg.
type helperWrite struct {
	ssa.CallInstruction
	arg int
}

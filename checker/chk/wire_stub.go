package chk

import "go/types"

func ruleWDD(c *Ctx, r *Report, sep []*types.Func, decSR, dec map[string]*types.Func) {
	var names []string
	for _, f := range sep {
		names = append(names, f.Name())
	}
	r.Extra["separately_written_reader_decoders"] = names
}
func ruleWEE(c *Ctx, r *Report, nonWrap []*types.Func) {
	var names []string
	for _, f := range nonWrap {
		names = append(names, FuncName(f))
	}
	r.Extra["non_wrapper_encoders"] = names
}

package chk

import "go/types"

// ruleWDD — separately written reader-path decoders agree with their SR twins (C03).
func ruleWDD(c *Ctx, r *Report, sep []*types.Func, decSR, dec map[string]*types.Func) {
	var names []string
	for _, f := range sep {
		names = append(names, f.Name())
	}
	r.Extra["separately_written_reader_decoders"] = names
	for _, v := range allBoxVerdicts(c, r) {
		reportKind(r, "W-DD", v, v.dd, v.hasDD || v.tabled != "", "the reader-path decoder and the SliceReader decoder disagree")
	}
	r.Floor("W-DD", 25)
}

// ruleWEE — non-wrapper Encode methods write the same layout as EncodeSW (C03).
func ruleWEE(c *Ctx, r *Report, nonWrap []*types.Func) {
	var names []string
	for _, f := range nonWrap {
		names = append(names, FuncName(f))
	}
	r.Extra["non_wrapper_encoders"] = names
	for _, v := range allBoxVerdicts(c, r) {
		reportKind(r, "W-EE", v, v.ee, v.hasEE, "Encode and EncodeSW disagree")
	}
	r.Floor("W-EE", 20)
}

package chk

// E3 — guard engine (SSA taint + dominance).
//   G1  every allocation sized by a wide untrusted value is dominated by a comparison on that value
//   G2  every loop cycle passes an exit test that does not depend on stream data alone
//       (a bounded counter test or an error test of the sticky-error reader)
//   G6  box bodies are read through a bounded reader

import (
	"fmt"
	"go/ast"
	"go/constant"
	"go/token"
	"go/types"
	"math/bits"
	"os"
	"sort"
	"strings"

	"golang.org/x/tools/go/ssa"
)

type taintV struct {
	bits  int
	roots map[string]bool // source identities (position-free descriptions are derived at report time)
	hdr   bool            // derived from BoxHeader.Size on the reader path
}

func (t *taintV) wide() bool { return t != nil && t.bits > 16 }

func joinTaint(a, b *taintV) *taintV {
	if a == nil {
		return b
	}
	if b == nil {
		return a
	}
	r := &taintV{bits: a.bits, roots: map[string]bool{}, hdr: a.hdr || b.hdr}
	if b.bits > r.bits {
		r.bits = b.bits
	}
	for k := range a.roots {
		r.roots[k] = true
	}
	for k := range b.roots {
		r.roots[k] = true
	}
	return r
}

func sameTaint(a, b *taintV) bool {
	if a == nil || b == nil {
		return a == b
	}
	if a.bits != b.bits || a.hdr != b.hdr || len(a.roots) != len(b.roots) {
		return false
	}
	for k := range a.roots {
		if !b.roots[k] {
			return false
		}
	}
	return true
}

type taintState struct {
	c           *Ctx
	val         map[ssa.Value]*taintV
	field       map[*types.Var]*taintV
	elem        map[*types.Var]*taintV // taint of the elements of slice-typed struct fields
	ret         map[*ssa.Function][]*taintV
	param       map[*ssa.Parameter]*taintV
	funcs       []*ssa.Function
	inSet       map[*ssa.Function]bool
	changed     bool
	nSrc        int
	isHeaderVar map[*types.Var]bool
	stores      map[*types.Var][]*ssa.Store // tainted stores into struct fields
	dyn         map[ssa.CallInstruction][]*ssa.Function
	dynDone     map[*ssa.Function]bool
}

func readerMethodBits(recvType, name string, call *ssa.CallCommon) int {
	if !strings.Contains(recvType, "/bits.") {
		return 0
	}
	switch name {
	case "ReadUint8":
		return 8
	case "ReadUint16", "ReadInt16":
		return 16
	case "ReadUint24":
		return 24
	case "ReadUint32", "ReadInt32":
		return 32
	case "ReadUint64", "ReadInt64":
		return 64
	case "ReadExpGolomb", "ReadSignedGolomb":
		return 32
	case "Read", "ReadSigned", "MustRead":
		args := call.Args
		if !call.IsInvoke() && len(args) > 0 {
			args = args[1:]
		}
		if len(args) == 1 {
			if c, ok := args[0].(*ssa.Const); ok && c.Value != nil {
				if v, ok := constant.Int64Val(c.Value); ok {
					return int(v)
				}
			}
			return 32
		}
	}
	return 0
}

func (ts *taintState) get(v ssa.Value) *taintV {
	if p, ok := v.(*ssa.Parameter); ok {
		return ts.param[p]
	}
	return ts.val[v]
}

func (ts *taintState) set(v ssa.Value, t *taintV) {
	if t == nil {
		return
	}
	old := ts.val[v]
	n := joinTaint(old, t)
	if !sameTaint(old, n) {
		ts.val[v] = n
		ts.changed = true
	}
}

func capBits(n int) int {
	if n > 64 {
		return 64
	}
	if n < 0 {
		return 0
	}
	return n
}

func constBits(v ssa.Value) (int, uint64, bool) {
	c, ok := v.(*ssa.Const)
	if !ok || c.Value == nil || c.Value.Kind() != constant.Int {
		return 0, 0, false
	}
	u, ok := constant.Uint64Val(c.Value)
	if !ok {
		return 64, 0, false
	}
	return bits.Len64(u), u, true
}

func typeBits(t types.Type) int {
	if b, ok := t.Underlying().(*types.Basic); ok {
		switch b.Kind() {
		case types.Int8, types.Uint8:
			return 8
		case types.Int16, types.Uint16:
			return 16
		case types.Int32, types.Uint32:
			return 32
		case types.Bool:
			return 1
		}
	}
	return 64
}

func hasReaderParam(f *ssa.Function) bool {
	for _, p := range f.Params {
		s := p.Type().String()
		if s == "io.Reader" || s == "io.ReadSeeker" {
			return true
		}
	}
	return false
}

func srcName(f *ssa.Function, what string) string {
	return SSAFuncName(f) + ":" + what
}

func (ts *taintState) transfer(f *ssa.Function) {
	readerPath := hasReaderParam(f)
	for _, b := range f.Blocks {
		for _, ins := range b.Instrs {
			switch x := ins.(type) {
			case *ssa.Call:
				com := x.Common()
				// sources
				var rt, name string
				if com.IsInvoke() {
					rt = com.Value.Type().String()
					name = com.Method.Name()
				} else if cal := com.StaticCallee(); cal != nil {
					name = cal.Name()
					if cal.Signature.Recv() != nil {
						rt = cal.Signature.Recv().Type().String()
					} else if cal.Pkg != nil {
						rt = cal.Pkg.Pkg.Path()
					}
				}
				if nb := readerMethodBits(rt, name, com); nb > 0 && isIntType(x.Type()) {
					ts.nSrc++
					ts.set(x, &taintV{bits: nb, roots: map[string]bool{fmt.Sprintf("%s#%d", srcName(f, name), x.Pos()): true}})
					continue
				}
				if rt == "encoding/binary.bigEndian" || rt == "encoding/binary.littleEndian" {
					if nb := map[string]int{"Uint16": 16, "Uint32": 32, "Uint64": 64}[name]; nb > 0 {
						ts.set(x, &taintV{bits: nb, roots: map[string]bool{fmt.Sprintf("%s#%d", srcName(f, name), x.Pos()): true}})
						continue
					}
				}
				if name == "payloadLen" && strings.HasSuffix(rt, "mp4.BoxHeader") && readerPath {
					ts.set(x, &taintV{bits: 64, hdr: true, roots: map[string]bool{"hdr.Size": true}})
					continue
				}
				// calls into the repository: results carry the callee's return taint and the arguments' roots
				if cal := com.StaticCallee(); cal != nil && ts.inSet[cal] && cal.Name() != "Size" && cal.Name() != "HeaderSize" {
					rts := ts.ret[cal]
					if len(rts) == 1 && rts[0] != nil {
						ts.set(x, rts[0])
					}
					// a pure helper's result depends on its arguments (e.g. expectedSize(n))
					if isIntType(x.Type()) {
						var j *taintV
						for _, a := range com.Args {
							j = joinTaint(j, ts.get(a))
						}
						// receiver fields read by the callee
						j = joinTaint(j, ts.recvFieldTaint(cal))
						if j != nil {
							ts.set(x, &taintV{bits: capBits(typeBits(x.Type())), roots: j.roots, hdr: j.hdr})
						}
					}
					// parameters
					off := 0
					for i, a := range com.Args {
						if i+off < len(cal.Params) {
							if t := ts.get(a); t != nil {
								p := cal.Params[i+off]
								n := joinTaint(ts.param[p], t)
								if !sameTaint(ts.param[p], n) {
									ts.param[p] = n
									ts.changed = true
								}
							}
						}
					}
				} else if cal == nil {
					// interface call or call of a function value (the sample group entry decoders are looked up in a
					// registry map): the arguments' taint reaches the parameters of every callee the call graph has
					// for this site
					for _, callee := range ts.dynCallees(f, x) {
						if !ts.inSet[callee] {
							continue
						}
						off := 0
						if com.IsInvoke() {
							off = 1 // receiver
						}
						for i, a := range com.Args {
							if i+off < len(callee.Params) {
								if t := ts.get(a); t != nil {
									p := callee.Params[i+off]
									n := joinTaint(ts.param[p], t)
									if !sameTaint(ts.param[p], n) {
										ts.param[p] = n
										ts.changed = true
									}
								}
							}
						}
					}
				} else if cal != nil && !inRepo(cal) && isIntType(x.Type()) {
					// len/min/max-like helpers outside the repo: int(x) conversions only; ignore
				}
			case *ssa.Extract:
				if call, ok := x.Tuple.(*ssa.Call); ok {
					if cal := call.Call.StaticCallee(); cal != nil && ts.inSet[cal] {
						if rts := ts.ret[cal]; x.Index < len(rts) && rts[x.Index] != nil {
							ts.set(x, rts[x.Index])
						}
					}
				}
			case *ssa.Convert:
				if t := ts.get(x.X); t != nil && isIntType(x.Type()) {
					nb := t.bits
					if tb := typeBits(x.Type()); tb < nb {
						nb = tb
					}
					ts.set(x, &taintV{bits: nb, roots: t.roots, hdr: t.hdr})
				}
			case *ssa.ChangeType:
				ts.set(x, ts.get(x.X))
			case *ssa.BinOp:
				a, b2 := ts.get(x.X), ts.get(x.Y)
				if a == nil && b2 == nil {
					continue
				}
				switch x.Op {
				case token.EQL, token.NEQ, token.LSS, token.LEQ, token.GTR, token.GEQ, token.LAND, token.LOR:
					continue
				}
				j := joinTaint(a, b2)
				nb := j.bits
				cb, cu, isC := constBits(x.Y)
				ab, bb := 0, 0
				if a != nil {
					ab = a.bits
				} else if c0, _, ok := constBits(x.X); ok {
					ab = c0
				}
				if b2 != nil {
					bb = b2.bits
				} else if isC {
					bb = cb
				}
				switch x.Op {
				case token.ADD, token.SUB:
					// sums of stream values are proportional to the amount of input consumed: no growth
					nb = ab
					if bb > nb {
						nb = bb
					}
				case token.MUL:
					nb = ab + bb
				case token.SHL:
					if isC {
						nb = ab + int(cu)
					} else {
						nb = 64
					}
				case token.SHR:
					if isC {
						nb = ab - int(cu)
					}
				case token.AND:
					nb = ab
					if bb > 0 && (bb < nb || nb == 0) {
						nb = bb
					}
					if a == nil {
						nb = bb
						if c0, _, ok := constBits(x.X); ok && c0 < nb {
							nb = c0
						}
					}
				case token.REM:
					if isC {
						nb = bits.Len64(cu - 1)
					}
				case token.QUO:
					if isC && cu > 0 {
						nb = ab - (bits.Len64(cu) - 1)
					}
				case token.OR, token.XOR:
					nb = ab
					if bb > nb {
						nb = bb
					}
				}
				if tb := typeBits(x.Type()); tb < nb {
					nb = tb
				}
				ts.set(x, &taintV{bits: capBits(nb), roots: j.roots, hdr: j.hdr})
			case *ssa.UnOp:
				switch x.Op {
				case token.MUL: // load
					switch a := x.X.(type) {
					case *ssa.FieldAddr:
						fv := fieldVar(a.X.Type(), a.Field)
						if fv != nil {
							if fv.Name() == "Size" && readerPath && strings.HasSuffix(derefType(a.X.Type()).String(), "mp4.BoxHeader") {
								ts.set(x, &taintV{bits: 64, hdr: true, roots: map[string]bool{"hdr.Size": true}})
							} else if t := ts.field[fv]; t != nil && !isHeaderField(a.X.Type()) {
								ts.set(x, t)
							}
						}
					case *ssa.IndexAddr:
						// element of a slice held in a struct field
						if fv := sliceFieldOf(a.X); fv != nil {
							if t := ts.elem[fv]; t != nil && isIntType(x.Type()) {
								ts.set(x, t)
							}
						}
					case *ssa.Alloc:
						// local variable: join of stored values
						for _, ref := range *a.Referrers() {
							if st, ok := ref.(*ssa.Store); ok && st.Addr == ssa.Value(a) {
								ts.set(x, ts.get(st.Val))
							}
						}
					}
				case token.SUB, token.XOR:
					ts.set(x, ts.get(x.X))
				}
			case *ssa.Field:
				fv := fieldVar(x.X.Type(), x.Field)
				if fv != nil {
					if fv.Name() == "Size" && readerPath && strings.HasSuffix(derefType(x.X.Type()).String(), "mp4.BoxHeader") {
						ts.set(x, &taintV{bits: 64, hdr: true, roots: map[string]bool{"hdr.Size": true}})
					} else if t := ts.field[fv]; t != nil && !isHeaderField(x.X.Type()) {
						ts.set(x, t)
					}
				}
			case *ssa.Phi:
				var j *taintV
				for _, e := range x.Edges {
					j = joinTaint(j, ts.get(e))
				}
				ts.set(x, j)
			case *ssa.Store:
				// elements: F = append(F, v...) and F[i] = v
				if fa, ok := x.Addr.(*ssa.FieldAddr); ok {
					if call, ok := x.Val.(*ssa.Call); ok {
						if bi, ok := call.Call.Value.(*ssa.Builtin); ok && bi.Name() == "append" && len(call.Call.Args) == 2 {
							if fv := fieldVar(fa.X.Type(), fa.Field); fv != nil {
								ts.joinElem(fv, ts.appendedTaint(call.Call.Args[1]))
							}
						}
					}
				}
				if ia, ok := x.Addr.(*ssa.IndexAddr); ok {
					if fv := sliceFieldOf(ia.X); fv != nil {
						ts.joinElem(fv, ts.get(x.Val))
					}
				}
				if t := ts.get(x.Val); t != nil {
					if fa, ok := x.Addr.(*ssa.FieldAddr); ok {
						if fv := fieldVar(fa.X.Type(), fa.Field); fv != nil {
							n := joinTaint(ts.field[fv], t)
							if !sameTaint(ts.field[fv], n) {
								ts.field[fv] = n
								ts.changed = true
							}
							found := false
							for _, st := range ts.stores[fv] {
								if st == x {
									found = true
								}
							}
							if !found {
								ts.stores[fv] = append(ts.stores[fv], x)
							}
						}
					}
				}
			case *ssa.Return:
				rs := ts.ret[f]
				if rs == nil {
					rs = make([]*taintV, len(x.Results))
				}
				for i, rv := range x.Results {
					if i < len(rs) {
						n := joinTaint(rs[i], ts.get(rv))
						if !sameTaint(rs[i], n) {
							rs[i] = n
							ts.changed = true
						}
					}
				}
				ts.ret[f] = rs
			}
		}
	}
	// composite literals: &T{F: v} stores appear as FieldAddr stores (handled); struct values built with
	// ssa.MakeStruct do not exist in go/ssa (fields are stored individually).
}

// sliceFieldOf: v is a load of a slice-typed struct field.
func sliceFieldOf(v ssa.Value) *types.Var {
	ld, ok := v.(*ssa.UnOp)
	if !ok || ld.Op != token.MUL {
		return nil
	}
	fa, ok := ld.X.(*ssa.FieldAddr)
	if !ok {
		return nil
	}
	fv := fieldVar(fa.X.Type(), fa.Field)
	if fv == nil {
		return nil
	}
	if _, ok := fv.Type().Underlying().(*types.Slice); !ok {
		return nil
	}
	return fv
}

func (ts *taintState) joinElem(fv *types.Var, t *taintV) {
	if t == nil {
		return
	}
	n := joinTaint(ts.elem[fv], t)
	if !sameTaint(ts.elem[fv], n) {
		ts.elem[fv] = n
		ts.changed = true
	}
}

// appendedTaint: taint of the values appended in append(s, v...) — the variadic slice is a fresh array
// whose elements are stored individually.
func (ts *taintState) appendedTaint(arg ssa.Value) *taintV {
	sl, ok := arg.(*ssa.Slice)
	if !ok {
		return nil
	}
	al, ok := sl.X.(*ssa.Alloc)
	if !ok {
		return nil
	}
	var j *taintV
	for _, ref := range *al.Referrers() {
		ia, ok := ref.(*ssa.IndexAddr)
		if !ok {
			continue
		}
		for _, r2 := range *ia.Referrers() {
			if st, ok := r2.(*ssa.Store); ok && st.Addr == ssa.Value(ia) {
				j = joinTaint(j, ts.get(st.Val))
			}
		}
	}
	return j
}

var recvFieldCache = map[*ssa.Function][]*types.Var{}

// recvFieldTaint: taint of the receiver fields a (small) callee reads.
func (ts *taintState) recvFieldTaint(cal *ssa.Function) *taintV {
	fvs, ok := recvFieldCache[cal]
	if !ok {
		if cal.Signature.Recv() != nil && len(cal.Params) > 0 {
			for _, b := range cal.Blocks {
				for _, ins := range b.Instrs {
					if fa, ok := ins.(*ssa.FieldAddr); ok {
						if fv := fieldVar(fa.X.Type(), fa.Field); fv != nil {
							fvs = append(fvs, fv)
						}
					}
					if fl, ok := ins.(*ssa.Field); ok {
						if fv := fieldVar(fl.X.Type(), fl.Field); fv != nil {
							fvs = append(fvs, fv)
						}
					}
				}
			}
		}
		recvFieldCache[cal] = fvs
	}
	var j *taintV
	for _, fv := range fvs {
		if fv.Pkg() != nil && (fv.Name() == "Size" || fv.Name() == "Hdrlen") && strings.HasSuffix(fv.Pkg().Path(), "/mp4") && ts.isHeaderVar[fv] {
			continue
		}
		j = joinTaint(j, ts.field[fv])
	}
	return j
}

func fieldVar(t types.Type, idx int) *types.Var {
	st := structOf(t)
	if st == nil || idx >= st.NumFields() {
		return nil
	}
	return st.Field(idx)
}

func runTaint(c *Ctx) *taintState {
	if c.taint != nil {
		return c.taint
	}
	ts := &taintState{c: c, val: map[ssa.Value]*taintV{}, field: map[*types.Var]*taintV{}, elem: map[*types.Var]*taintV{}, ret: map[*ssa.Function][]*taintV{}, param: map[*ssa.Parameter]*taintV{}, inSet: map[*ssa.Function]bool{}, isHeaderVar: map[*types.Var]bool{}, stores: map[*types.Var][]*ssa.Store{}}
	if p := c.Pkg("mp4"); p != nil {
		if tn, ok := p.Types.Scope().Lookup("BoxHeader").(*types.TypeName); ok {
			if st, ok := tn.Type().Underlying().(*types.Struct); ok {
				for i := 0; i < st.NumFields(); i++ {
					ts.isHeaderVar[st.Field(i)] = true
				}
			}
		}
	}
	ts.funcs = c.RepoFuncs(IsLib)
	for _, f := range ts.funcs {
		ts.inSet[f] = true
	}
	for iter := 0; iter < 12; iter++ {
		ts.changed = false
		for _, f := range ts.funcs {
			ts.transfer(f)
		}
		if !ts.changed {
			break
		}
	}
	c.taint = ts
	return ts
}

// guardedBy: is the block dominated by one arm of an If whose condition compares a value sharing a root with t?
func (ts *taintState) guardedBy(b *ssa.BasicBlock, t *taintV) (bool, string) {
	for d := b.Idom(); d != nil; d = d.Idom() {
		if len(d.Instrs) == 0 {
			continue
		}
		ifi, ok := d.Instrs[len(d.Instrs)-1].(*ssa.If)
		if !ok {
			continue
		}
		// b must lie in exactly one arm
		inArm := 0
		for _, s := range d.Succs {
			if s.Dominates(b) && len(s.Preds) == 1 {
				inArm++
			}
		}
		if inArm != 1 {
			// the other arm may leave the function (return/panic): then the join block is the arm itself
			leaves := 0
			for _, s := range d.Succs {
				if blockLeaves(s) {
					leaves++
				}
			}
			if leaves != 1 {
				continue
			}
		}
		// the truth value of the condition on the way to b
		truth, known := true, false
		switch {
		case d.Succs[0].Dominates(b) && len(d.Succs[0].Preds) == 1:
			truth, known = true, true
		case d.Succs[1].Dominates(b) && len(d.Succs[1].Preds) == 1:
			truth, known = false, true
		case blockLeaves(d.Succs[0]) && !blockLeaves(d.Succs[1]):
			truth, known = false, true
		case blockLeaves(d.Succs[1]) && !blockLeaves(d.Succs[0]):
			truth, known = true, true
		}
		if ts.condBounds(ifi.Cond, t, 0, truth, known) {
			return true, ts.c.Pos(ifi.Cond.Pos())
		}
		// the comparison may sit in a predicate helper (`if !indexInRange(int(idx), len(tab)) { return }`) or in a
		// checking helper that returns an error: the helper's parameters carry the taint of the arguments
		if known {
			cond, tr := ifi.Cond, truth
			for {
				u, ok := cond.(*ssa.UnOp)
				if !ok || u.Op != token.NOT {
					break
				}
				cond, tr = u.X, !tr
			}
			// withArgs: judge a comparison inside helper h with the taint of this call's arguments on its parameters
			withArgs := func(call *ssa.Call, judge func() bool) bool {
				h := call.Call.StaticCallee()
				if h == nil || len(h.Params) != len(call.Call.Args) {
					return false
				}
				saved := map[*ssa.Parameter]*taintV{}
				for i, p := range h.Params {
					saved[p] = ts.param[p]
					ts.param[p] = ts.get(call.Call.Args[i])
				}
				res := judge()
				for p, old := range saved {
					if old == nil {
						delete(ts.param, p)
					} else {
						ts.param[p] = old
					}
				}
				return res
			}
			if call, ok := cond.(*ssa.Call); ok {
				if cmp, neg, _ := predicateComparison(call); cmp != nil {
					if neg {
						tr = !tr
					}
					if withArgs(call, func() bool { return ts.condBounds(cmp, t, 0, tr, true) }) {
						return true, ts.c.Pos(ifi.Cond.Pos())
					}
				}
			}
			if bo, ok := cond.(*ssa.BinOp); ok && (bo.Op == token.NEQ || bo.Op == token.EQL) && bo.X.Type().String() == "error" {
				if k, isC := bo.Y.(*ssa.Const); isC && k.Value == nil && (bo.Op == token.EQL) == tr {
					if call, ok := bo.X.(*ssa.Call); ok {
						for _, fact := range errorHelperFacts(call) {
							fact := fact
							if withArgs(call, func() bool { return ts.condBounds(fact.cond, t, 0, fact.truth, true) }) {
								return true, ts.c.Pos(ifi.Cond.Pos())
							}
						}
					}
				}
			}
		}
	}
	return false, ""
}

// condBounds: like condShares, but an ordering comparison between a value sharing a taint root with t and a value
// that does not must bound the tainted side from ABOVE on the way taken (x < y, x <= y, x == y with x tainted):
// `if n <= 0 { return }` shares the root and bounds nothing.
func (ts *taintState) condBounds(v ssa.Value, t *taintV, depth int, truth, known bool) bool {
	if !known {
		return ts.condShares(v, t, depth)
	}
	switch x := v.(type) {
	case *ssa.BinOp:
		switch x.Op {
		case token.EQL, token.NEQ, token.LSS, token.LEQ, token.GTR, token.GEQ:
		default:
			return false
		}
		shares := func(o ssa.Value) bool {
			ot := ts.get(o)
			if ot == nil {
				return false
			}
			if t.hdr && ot.hdr {
				return true
			}
			for r := range ot.roots {
				if t.roots[r] {
					return true
				}
			}
			return false
		}
		sx, sy := shares(x.X), shares(x.Y)
		if !sx && !sy {
			return false
		}
		if !ts.condShares(v, t, depth) {
			return false
		}
		if sx && sy {
			return true
		}
		op := x.Op
		if !truth {
			op = map[token.Token]token.Token{token.EQL: token.NEQ, token.NEQ: token.EQL, token.LSS: token.GEQ, token.GEQ: token.LSS, token.GTR: token.LEQ, token.LEQ: token.GTR}[op]
		}
		if sy { // mirror: tainted side on the left
			op = map[token.Token]token.Token{token.EQL: token.EQL, token.NEQ: token.NEQ, token.LSS: token.GTR, token.GTR: token.LSS, token.LEQ: token.GEQ, token.GEQ: token.LEQ}[op]
		}
		return op == token.LSS || op == token.LEQ || op == token.EQL
	case *ssa.UnOp:
		if x.Op == token.NOT {
			return ts.condBounds(x.X, t, depth+1, !truth, known)
		}
	}
	return ts.condShares(v, t, depth)
}

func blockLeaves(b *ssa.BasicBlock) bool {
	// a block (chain) that ends in return or panic without rejoining
	seen := map[*ssa.BasicBlock]bool{}
	for cur := b; cur != nil && !seen[cur]; {
		seen[cur] = true
		if len(cur.Instrs) == 0 {
			return false
		}
		switch cur.Instrs[len(cur.Instrs)-1].(type) {
		case *ssa.Return, *ssa.Panic:
			return true
		case *ssa.Jump:
			cur = cur.Succs[0]
		default:
			return false
		}
	}
	return false
}

func (ts *taintState) condShares(v ssa.Value, t *taintV, depth int) bool {
	if depth > 4 {
		return false
	}
	switch x := v.(type) {
	case *ssa.BinOp:
		switch x.Op {
		case token.EQL, token.NEQ, token.LSS, token.LEQ, token.GTR, token.GEQ:
			for i, o := range []ssa.Value{x.X, x.Y} {
				if ot := ts.get(o); ot != nil {
					if t.hdr && ot.hdr {
						// the declared box size is bounded only by an ordering test, or by equality with a
						// quantity that is itself derived from data actually present
						other := []ssa.Value{x.Y, x.X}[i]
						if x.Op == token.EQL || x.Op == token.NEQ {
							if ts.get(other) == nil {
								continue
							}
						}
						return true
					}
					for r := range ot.roots {
						if t.roots[r] {
							return true
						}
					}
				}
			}
		}
	case *ssa.UnOp:
		if x.Op == token.NOT {
			return ts.condShares(x.X, t, depth+1)
		}
	case *ssa.Phi:
		for _, e := range x.Edges {
			if ts.condShares(e, t, depth+1) {
				return true
			}
		}
	case *ssa.Call:
		// a validation helper: if helper(n) { … }
		for _, a := range x.Call.Args {
			if ot := ts.get(a); ot != nil {
				for r := range ot.roots {
					if t.roots[r] {
						return true
					}
				}
			}
		}
	}
	return false
}

func rootNames(t *taintV) string {
	var s []string
	seen := map[string]bool{}
	for r := range t.roots {
		if i := strings.LastIndex(r, "#"); i > 0 {
			r = r[:i]
		}
		if !seen[r] {
			seen[r] = true
			s = append(s, r)
		}
	}
	sort.Strings(s)
	if len(s) > 3 {
		s = append(s[:3], "…")
	}
	return strings.Join(s, ",")
}

// ruleG1 — allocations sized by wide untrusted values are guarded. scope selects the functions examined.
func ruleG1(c *Ctx, r *Report, scope map[*ssa.Function]bool, rule string) {
	ts := runTaint(c)
	type site struct {
		f   *ssa.Function
		ms  *ssa.MakeSlice
		t   *taintV
		idx int
	}
	var sites []site
	for _, f := range ts.funcs {
		if scope != nil && !scope[f] {
			continue
		}
		n := 0
		for _, b := range f.Blocks {
			for _, ins := range b.Instrs {
				ms, ok := ins.(*ssa.MakeSlice)
				if !ok {
					continue
				}
				t := joinTaint(ts.get(ms.Len), nil)
				if ct := ts.get(ms.Cap); ct != nil && (t == nil || ct.bits > t.bits) {
					t = ct
				}
				if !t.wide() {
					continue
				}
				sites = append(sites, site{f, ms, t, n})
				n++
			}
		}
	}
	for _, s := range sites {
		key := fmt.Sprintf("%s:%s", SSAFuncName(s.f), srcOf(s.f, s.ms.Pos(), "make", fmt.Sprintf("make#%d(%s)", s.idx, elemName(s.ms.Type()))))
		ok, where := ts.guardedBy(s.ms.Block(), s.t)
		if !ok {
			ok, where = ts.guardedAtStore(s.f, s.ms.Block(), s.t)
		}
		if ok {
			r.OK(rule, key, c.Pos(s.ms.Pos()), fmt.Sprintf("size is untrusted (%d bits, from %s) and is compared at %s before the allocation", s.t.bits, rootNames(s.t), where))
		} else {
			r.Bad(rule, key, c.Pos(s.ms.Pos()), fmt.Sprintf("allocation sized by an untrusted %d-bit value (from %s) with no dominating comparison on that value: memory is not bounded by the input length", s.t.bits, rootNames(s.t)))
		}
	}
}

func elemName(t types.Type) string {
	if s, ok := t.Underlying().(*types.Slice); ok {
		return types.TypeString(s.Elem(), func(p *types.Package) string { return p.Name() })
	}
	return t.String()
}

// ---------------------------------------------------------------------------
// G2 loops

type loopInfo struct {
	header *ssa.BasicBlock
	blocks map[*ssa.BasicBlock]bool
}

func naturalLoops(f *ssa.Function) []*loopInfo {
	byHeader := map[*ssa.BasicBlock]*loopInfo{}
	for _, b := range f.Blocks {
		for _, s := range b.Succs {
			if s.Dominates(b) {
				li := byHeader[s]
				if li == nil {
					li = &loopInfo{header: s, blocks: map[*ssa.BasicBlock]bool{s: true}}
					byHeader[s] = li
				}
				// collect the loop body: blocks that reach b without passing the header
				stack := []*ssa.BasicBlock{b}
				for len(stack) > 0 {
					x := stack[len(stack)-1]
					stack = stack[:len(stack)-1]
					if li.blocks[x] {
						continue
					}
					li.blocks[x] = true
					stack = append(stack, x.Preds...)
				}
			}
		}
	}
	var out []*loopInfo
	for _, b := range f.Blocks {
		if li := byHeader[b]; li != nil {
			out = append(out, li)
		}
	}
	return out
}

// isErrorTest: the condition tests an error value (or AccError()) against nil.
func isErrorTest(v ssa.Value) bool {
	switch x := v.(type) {
	case *ssa.BinOp:
		if x.Op == token.NEQ || x.Op == token.EQL {
			for _, o := range []ssa.Value{x.X, x.Y} {
				if o.Type().String() == "error" {
					return true
				}
			}
		}
	case *ssa.UnOp:
		if x.Op == token.NOT {
			return isErrorTest(x.X)
		}
	}
	return false
}

// dataOnly: the condition depends on stream data (tainted) on at least one side and on nothing that
// progresses independently of the data.
func (ts *taintState) dataDependent(v ssa.Value, depth int) bool {
	if depth > 3 {
		return false
	}
	switch x := v.(type) {
	case *ssa.BinOp:
		switch x.Op {
		case token.EQL, token.NEQ, token.LSS, token.LEQ, token.GTR, token.GEQ:
			return ts.get(x.X) != nil || ts.get(x.Y) != nil
		}
	case *ssa.UnOp:
		if x.Op == token.NOT {
			return ts.dataDependent(x.X, depth+1)
		}
	case *ssa.Call:
		// e.g. MoreRbspData(): data dependent
		if cal := x.Call.StaticCallee(); cal != nil && strings.Contains(cal.String(), "/bits.") {
			return true
		}
	}
	return false
}

// wideBound: the exit test compares against a wide untrusted bound that is not guarded before the loop.
func (ts *taintState) wideUnguardedBound(v ssa.Value, li *loopInfo) (*taintV, bool) {
	bo, ok := v.(*ssa.BinOp)
	if !ok {
		return nil, false
	}
	for _, o := range []ssa.Value{bo.X, bo.Y} {
		t := ts.get(o)
		if !t.wide() {
			continue
		}
		if !loopInvariant(o, li, 0) {
			continue
		}
		if g, _ := ts.guardedBy(li.header, t); g {
			continue
		}
		return t, true
	}
	return nil, false
}

// ruleG2 — every cycle of every loop passes a "safe" exit test.
func ruleG2(c *Ctx, r *Report, scope map[*ssa.Function]bool, rule string) {
	ts := runTaint(c)
	for _, f := range ts.funcs {
		if scope != nil && !scope[f] {
			continue
		}
		loops := naturalLoops(f)
		for li, l := range loops {
			// classify exit tests
			safe := map[*ssa.BasicBlock]bool{}
			nExit, nData := 0, 0
			var boundT *taintV
			for b := range l.blocks {
				if len(b.Instrs) == 0 {
					continue
				}
				ifi, ok := b.Instrs[len(b.Instrs)-1].(*ssa.If)
				if !ok {
					// a return / panic inside the loop ends it too, but only matters for the path
					continue
				}
				exits := false
				for _, s := range b.Succs {
					if !l.blocks[s] {
						exits = true
					}
				}
				if !exits {
					continue
				}
				nExit++
				switch {
				case isErrorTest(ifi.Cond):
					safe[b] = true
				case ts.dataDependent(ifi.Cond, 0) && ts.exitsOnZero(ifi, b, l):
					safe[b] = true
				case ts.dataDependent(ifi.Cond, 0):
					if t, wide := ts.wideUnguardedBound(ifi.Cond, l); wide {
						boundT = t
						nData++
					} else if bo, ok := ifi.Cond.(*ssa.BinOp); ok && boundedCounterTest(ts, bo, l) {
						safe[b] = true
					} else {
						nData++
					}
				default:
					safe[b] = true
				}
			}
			if nData == 0 || !ts.loopReads(l) {
				continue // not driven by stream data, or does not consume the stream
			}
			// is there a cycle header -> header that avoids every safe exit test?
			cyc := cycleAvoiding(l, safe)
			key := fmt.Sprintf("%s:%s", SSAFuncName(f), srcOf(f, firstPos(l.header), "loop", fmt.Sprintf("loop#%d", li)))
			pos := c.Pos(firstPos(l.header))
			if !cyc {
				r.OK(rule, key, pos, fmt.Sprintf("%d exit tests, %d depend on stream data; every cycle also passes an error test or a bounded counter test", nExit, nData))
				continue
			}
			if boundT != nil {
				if n := ts.guardedAtCallers(f, boundT); n > 0 {
					r.OK(rule, key, pos, fmt.Sprintf("the count that bounds the loop is compared before the call at all %d call sites of this unexported function", n))
					continue
				}
			}
			what := "its exit tests depend only on values read from the stream"
			if boundT != nil {
				what = fmt.Sprintf("it is bounded by an untrusted %d-bit count (from %s) that is not compared with anything before the loop", boundT.bits, rootNames(boundT))
			}
			r.Bad(rule, key, pos, "loop has a cycle that passes no error test of the reader and no bounded counter test: "+what+"; on exhausted or hostile input it does not terminate in time proportional to the input")
		}
	}
}

// boundedCounterTest: i < n where n is small (<= 16 bits), constant, a len(), or guarded before the loop.
func boundedCounterTest(ts *taintState, bo *ssa.BinOp, l *loopInfo) bool {
	switch bo.Op {
	case token.LSS, token.LEQ, token.GTR, token.GEQ, token.NEQ:
	default:
		return false
	}
	// one operand must be loop-variant (phi in the loop), the other loop-invariant and not wide-unguarded
	for i, o := range []ssa.Value{bo.X, bo.Y} {
		other := []ssa.Value{bo.Y, bo.X}[i]
		if !dependsOnLoopPhi(o, l, 0) {
			continue
		}
		if !loopInvariant(other, l, 0) && ts.get(other) != nil {
			continue // bound recomputed in the loop from data
		}
		t := ts.get(other)
		if t.wide() {
			if g, _ := ts.guardedBy(l.header, t); !g {
				continue
			}
		}
		// the counter itself must not be stream data
		if ts.get(o) != nil && !isCounterPhi(o, l) {
			continue
		}
		// `i <= n` with i as wide as n can be: at n all ones the counter wraps and the test never fails
		if t != nil && (i == 0 && bo.Op == token.LEQ || i == 1 && bo.Op == token.GEQ) {
			if cb := typeBits(o.Type()); cb > 0 && cb <= 32 && t.bits >= cb {
				if bt, ok := o.Type().Underlying().(*types.Basic); ok && bt.Info()&types.IsUnsigned != 0 {
					continue
				}
			}
		}
		return true
	}
	return false
}

func dependsOnLoopPhi(v ssa.Value, l *loopInfo, depth int) bool {
	if depth > 4 {
		return false
	}
	switch x := v.(type) {
	case *ssa.Phi:
		return l.blocks[x.Block()]
	case *ssa.BinOp:
		return dependsOnLoopPhi(x.X, l, depth+1) || dependsOnLoopPhi(x.Y, l, depth+1)
	case *ssa.Convert:
		return dependsOnLoopPhi(x.X, l, depth+1)
	case *ssa.UnOp:
		if al, ok := x.X.(*ssa.Alloc); ok {
			// a spilled counter
			for _, ref := range *al.Referrers() {
				if st, ok := ref.(*ssa.Store); ok && l.blocks[st.Block()] {
					return true
				}
			}
		}
	}
	return false
}

func isCounterPhi(v ssa.Value, l *loopInfo) bool {
	p, ok := v.(*ssa.Phi)
	if !ok {
		if cv, ok := v.(*ssa.Convert); ok {
			return isCounterPhi(cv.X, l)
		}
		return false
	}
	// phi(init, phi + const)
	for _, e := range p.Edges {
		if bo, ok := e.(*ssa.BinOp); ok && (bo.Op == token.ADD || bo.Op == token.SUB) {
			if bo.X == ssa.Value(p) {
				if _, ok := bo.Y.(*ssa.Const); ok {
					return true
				}
			}
		}
	}
	return false
}

func firstPos(b *ssa.BasicBlock) token.Pos {
	for _, ins := range b.Instrs {
		if ins.Pos().IsValid() {
			return ins.Pos()
		}
	}
	for _, s := range b.Succs {
		for _, ins := range s.Instrs {
			if ins.Pos().IsValid() {
				return ins.Pos()
			}
		}
	}
	return token.NoPos
}

// cycleAvoiding: is the header reachable from itself inside the loop without passing a safe block?
func cycleAvoiding(l *loopInfo, safe map[*ssa.BasicBlock]bool) bool {
	if safe[l.header] {
		return false
	}
	seen := map[*ssa.BasicBlock]bool{}
	var stack []*ssa.BasicBlock
	for _, s := range l.header.Succs {
		if l.blocks[s] {
			stack = append(stack, s)
		}
	}
	for len(stack) > 0 {
		b := stack[len(stack)-1]
		stack = stack[:len(stack)-1]
		if b == l.header {
			return true
		}
		if seen[b] || safe[b] {
			continue
		}
		seen[b] = true
		for _, s := range b.Succs {
			if l.blocks[s] {
				stack = append(stack, s)
			}
		}
	}
	return false
}

// ---------------------------------------------------------------------------
// G6 bounded body read

func ruleG6(c *Ctx, r *Report) {
	prog := c.SSA()
	n := 0
	for _, f := range c.RepoFuncs(IsLib) {
		if f.Pkg == nil || !strings.HasSuffix(f.Pkg.Pkg.Path(), "/mp4") {
			continue
		}
		for _, b := range f.Blocks {
			for _, ins := range b.Instrs {
				call, ok := ins.(*ssa.Call)
				if !ok {
					continue
				}
				cal := call.Call.StaticCallee()
				if cal == nil || cal.Pkg == nil || cal.Pkg.Pkg.Path() != "io" || cal.Name() != "ReadAll" {
					continue
				}
				n++
				key := fmt.Sprintf("%s:io.ReadAll", SSAFuncName(f))
				arg := call.Call.Args[0]
				if mi, ok := arg.(*ssa.MakeInterface); ok {
					arg = mi.X
				}
				lim := false
				if ac, ok := arg.(*ssa.Call); ok {
					if lc := ac.Call.StaticCallee(); lc != nil && lc.Pkg != nil && lc.Pkg.Pkg.Path() == "io" && lc.Name() == "LimitReader" {
						lim = true
					}
				}
				if lim {
					r.OK("G6", key, c.Pos(call.Pos()), "io.ReadAll applied to an io.LimitReader")
				} else {
					r.Bad("G6", key, c.Pos(call.Pos()), "io.ReadAll on an unbounded reader: a box decoder consumes everything after its box and memory is not bounded by the box size")
				}
			}
		}
	}
	_ = prog
	r.Floor("G6", 3)
}

// isHeaderField: fields of mp4.BoxHeader are validated against the available bytes by DecodeBoxSR before a
// decoder sees them; on the reader path BoxHeader.Size is the explicit "hdr" source instead.
func isHeaderField(t types.Type) bool {
	return strings.HasSuffix(derefType(t).String(), "mp4.BoxHeader")
}

// loopInvariant: the value is computed only from things defined outside the loop.
func loopInvariant(v ssa.Value, l *loopInfo, depth int) bool {
	if depth > 5 {
		return false
	}
	switch x := v.(type) {
	case *ssa.Const, *ssa.Parameter, *ssa.Global, *ssa.FreeVar:
		return true
	case *ssa.Phi:
		return !l.blocks[x.Block()]
	case ssa.Instruction:
		if !l.blocks[x.Block()] {
			return true
		}
		switch y := v.(type) {
		case *ssa.Convert:
			return loopInvariant(y.X, l, depth+1)
		case *ssa.ChangeType:
			return loopInvariant(y.X, l, depth+1)
		case *ssa.BinOp:
			return loopInvariant(y.X, l, depth+1) && loopInvariant(y.Y, l, depth+1)
		case *ssa.UnOp:
			if y.Op == token.MUL {
				if fa, ok := y.X.(*ssa.FieldAddr); ok {
					return loopInvariant(fa.X, l, depth+1)
				}
				if al, ok := y.X.(*ssa.Alloc); ok {
					for _, ref := range *al.Referrers() {
						if st, ok := ref.(*ssa.Store); ok && l.blocks[st.Block()] {
							return false
						}
					}
					return true
				}
				return false
			}
			return loopInvariant(y.X, l, depth+1)
		case *ssa.Call:
			if bi, ok := y.Call.Value.(*ssa.Builtin); ok && (bi.Name() == "len" || bi.Name() == "cap") {
				return loopInvariant(y.Call.Args[0], l, depth+1)
			}
		case *ssa.FieldAddr:
			return loopInvariant(y.X, l, depth+1)
		}
	}
	return false
}

// loopReads: the loop body consumes stream data (directly or through a callee that does).
func (ts *taintState) loopReads(l *loopInfo) bool {
	for b := range l.blocks {
		for _, ins := range b.Instrs {
			call, ok := ins.(*ssa.Call)
			if !ok {
				continue
			}
			com := call.Common()
			var rt, name string
			if com.IsInvoke() {
				rt, name = com.Value.Type().String(), com.Method.Name()
			} else if cal := com.StaticCallee(); cal != nil {
				name = cal.Name()
				if cal.Signature.Recv() != nil {
					rt = cal.Signature.Recv().Type().String()
				}
				if ts.inSet[cal] && ts.readsStream(cal, 0) {
					return true
				}
			}
			if strings.Contains(rt, "/bits.") && (strings.HasPrefix(name, "Read") || strings.HasPrefix(name, "MustRead") || name == "SkipBytes") {
				return true
			}
		}
	}
	return false
}

var readsCache = map[*ssa.Function]int{}

func (ts *taintState) readsStream(f *ssa.Function, depth int) bool {
	if v, ok := readsCache[f]; ok {
		return v == 1
	}
	if depth > 4 {
		return false
	}
	readsCache[f] = 0
	for _, b := range f.Blocks {
		for _, ins := range b.Instrs {
			call, ok := ins.(*ssa.Call)
			if !ok {
				continue
			}
			com := call.Common()
			if com.IsInvoke() {
				if strings.Contains(com.Value.Type().String(), "/bits.") && strings.HasPrefix(com.Method.Name(), "Read") {
					readsCache[f] = 1
					return true
				}
				continue
			}
			if cal := com.StaticCallee(); cal != nil {
				if cal.Signature.Recv() != nil && strings.Contains(cal.Signature.Recv().Type().String(), "/bits.") && (strings.HasPrefix(cal.Name(), "Read") || strings.HasPrefix(cal.Name(), "MustRead")) {
					readsCache[f] = 1
					return true
				}
				if ts.inSet[cal] && ts.readsStream(cal, depth+1) {
					readsCache[f] = 1
					return true
				}
			}
		}
	}
	return false
}

// ---- conditional guards across functions -----------------------------------------------------------
//
// A count that reaches an allocation through a struct field may have been validated where the field was
// stored, possibly only under a condition on other input (e.g. "if flags&X != 0 && size < 2*count").
// Such a guard counts for a sink that itself executes only under the same condition.

// canonCond renders a data-dependent branch condition as "roots|op|const" (empty if not of that form).
func (ts *taintState) canonCond(v ssa.Value, neg bool) string {
	switch x := v.(type) {
	case *ssa.UnOp:
		if x.Op == token.NOT {
			return ts.canonCond(x.X, !neg)
		}
	case *ssa.BinOp:
		op := x.Op
		if op != token.EQL && op != token.NEQ {
			return ""
		}
		var c *ssa.Const
		var o ssa.Value
		if cc, ok := x.Y.(*ssa.Const); ok {
			c, o = cc, x.X
		} else if cc, ok := x.X.(*ssa.Const); ok {
			c, o = cc, x.Y
		}
		if c == nil || c.Value == nil {
			return ""
		}
		m := ""
		if b, ok := o.(*ssa.BinOp); ok && b.Op == token.AND {
			if mc, ok := b.Y.(*ssa.Const); ok && mc.Value != nil {
				m = "&" + mc.Value.ExactString()
				o = b.X
			}
		}
		t := ts.get(o)
		if t == nil {
			return ""
		}
		if neg {
			if op == token.EQL {
				op = token.NEQ
			} else {
				op = token.EQL
			}
		}
		var rs []string
		for r := range t.roots {
			rs = append(rs, r+m+op.String()+c.Value.ExactString())
		}
		sort.Strings(rs)
		return strings.Join(rs, "\x00")
	}
	return ""
}

// pathConds: canonical conditions that hold whenever the block executes (from dominating branches).
func (ts *taintState) pathConds(b *ssa.BasicBlock) map[string]bool {
	out := map[string]bool{}
	for d := b.Idom(); d != nil; d = d.Idom() {
		if len(d.Instrs) == 0 {
			continue
		}
		ifi, ok := d.Instrs[len(d.Instrs)-1].(*ssa.If)
		if !ok {
			continue
		}
		t, f := d.Succs[0], d.Succs[1]
		inT := t.Dominates(b) && len(t.Preds) == 1
		inF := f.Dominates(b) && len(f.Preds) == 1
		if !inT && !inF {
			// the other arm leaves the function
			if blockLeaves(t) && !blockLeaves(f) {
				inF = true
			} else if blockLeaves(f) && !blockLeaves(t) {
				inT = true
			}
		}
		if inT == inF {
			continue
		}
		if c := ts.canonCond(ifi.Cond, inF); c != "" {
			// one entry per taint root: the same condition on any of the value's sources
			for _, part := range strings.Split(c, "\x00") {
				out[part] = true
			}
		}
	}
	return out
}

// sinkConds: conditions holding at a block, including those of all static call sites of its function (3 levels).
func (ts *taintState) sinkConds(f *ssa.Function, b *ssa.BasicBlock, depth int) map[string]bool {
	out := ts.pathConds(b)
	if depth >= 3 {
		return out
	}
	node := ts.c.CallGraph().Nodes[f]
	if node == nil || len(node.In) == 0 {
		return out
	}
	var inter map[string]bool
	for _, e := range node.In {
		if e.Site == nil || e.Caller.Func == f || !ts.inSet[e.Caller.Func] {
			continue
		}
		cs := ts.sinkConds(e.Caller.Func, e.Site.Block(), depth+1)
		if inter == nil {
			inter = cs
		} else {
			for k := range inter {
				if !cs[k] {
					delete(inter, k)
				}
			}
		}
	}
	for k := range inter {
		out[k] = true
	}
	return out
}

// guardedAtStore: the wide value arrives through struct fields; every store of a same-root value into a
// field is preceded (in the storing function) by a validation branch on that value whose extra conditions
// also hold at the sink.
func (ts *taintState) guardedAtStore(f *ssa.Function, b *ssa.BasicBlock, t *taintV) (bool, string) {
	sc := ts.sinkConds(f, b, 0)
	nStores := 0
	where := ""
	for fv, sts := range ts.stores {
		_ = fv
		for _, st := range sts {
			vt := ts.get(st.Val)
			if vt == nil || !vt.wide() {
				continue
			}
			share := false
			for r := range vt.roots {
				if t.roots[r] {
					share = true
				}
			}
			if !share || st.Parent() == f || selfUpdate(st) {
				continue
			}
			nStores++
			g := st.Parent()
			storeConds := ts.pathConds(st.Block())
			if os.Getenv("VERIF_DEBUG_GUARD") != "" {
				fmt.Printf("DBG sink %s store in %s field %s sinkConds=%v storeConds=%v\n", SSAFuncName(f), SSAFuncName(g), fv.Name(), sc, storeConds)
			}
			okStore := false
			for _, gb := range g.Blocks {
				if len(gb.Instrs) == 0 {
					continue
				}
				ifi, ok := gb.Instrs[len(gb.Instrs)-1].(*ssa.If)
				if !ok || !ts.condShares(ifi.Cond, vt, 0) {
					continue
				}
				if !blockRejects(gb.Succs[0]) && !blockRejects(gb.Succs[1]) {
					continue
				}
				// the validation must come before the store on every path that evaluates it
				// the validation must lie on the paths through the store (before it, or after it and before the
				// structure is returned)
				if !gb.Dominates(st.Block()) && !reaches(gb, st.Block()) && !reaches(st.Block(), gb) {
					continue
				}
				extraOK := true
				if os.Getenv("VERIF_DEBUG_GUARD") != "" {
					fmt.Printf("DBG   guard at %s conds=%v\n", ts.c.Pos(ifi.Cond.Pos()), ts.pathConds(gb))
				}
				for cnd := range ts.pathConds(gb) {
					if !storeConds[cnd] && !sc[cnd] {
						extraOK = false
					}
				}
				if extraOK {
					okStore = true
					where = ts.c.Pos(ifi.Cond.Pos())
				}
			}
			if !okStore {
				return false, ""
			}
		}
	}
	if nStores == 0 {
		return false, ""
	}
	return true, where + " (validated where the field is stored, under conditions that also hold here)"
}

func reaches(a, b *ssa.BasicBlock) bool {
	seen := map[*ssa.BasicBlock]bool{}
	stack := []*ssa.BasicBlock{a}
	for len(stack) > 0 {
		x := stack[len(stack)-1]
		stack = stack[:len(stack)-1]
		if x == b {
			return true
		}
		if seen[x] {
			continue
		}
		seen[x] = true
		stack = append(stack, x.Succs...)
	}
	return false
}

// evalZero evaluates an expression with every stream value replaced by 0 (what the sticky-error readers
// return once the input is exhausted).
func (ts *taintState) evalZero(v ssa.Value, depth int) (int64, bool) {
	if depth > 6 {
		return 0, false
	}
	switch x := v.(type) {
	case *ssa.Const:
		if x.Value == nil {
			return 0, false
		}
		switch x.Value.Kind() {
		case constant.Int:
			i, ok := constant.Int64Val(x.Value)
			return i, ok
		case constant.Bool:
			if constant.BoolVal(x.Value) {
				return 1, true
			}
			return 0, true
		}
		return 0, false
	case *ssa.Call:
		if t := ts.val[x]; t != nil && len(t.roots) > 0 {
			return 0, true
		}
		return 0, false
	case *ssa.Convert:
		return ts.evalZero(x.X, depth+1)
	case *ssa.ChangeType:
		return ts.evalZero(x.X, depth+1)
	case *ssa.Phi:
		// a value carried around the loop that is re-read in every iteration
		var val int64
		have := false
		for _, e := range x.Edges {
			if ts.get(e) == nil {
				continue
			}
			ev, ok := ts.evalZero(e, depth+1)
			if !ok {
				return 0, false
			}
			if have && ev != val {
				return 0, false
			}
			val, have = ev, true
		}
		return val, have
	case *ssa.UnOp:
		if x.Op == token.NOT {
			a, ok := ts.evalZero(x.X, depth+1)
			if !ok {
				return 0, false
			}
			if a == 0 {
				return 1, true
			}
			return 0, true
		}
		return 0, false
	case *ssa.BinOp:
		a, ok1 := ts.evalZero(x.X, depth+1)
		b, ok2 := ts.evalZero(x.Y, depth+1)
		if !ok1 || !ok2 {
			return 0, false
		}
		bv := func(c bool) (int64, bool) {
			if c {
				return 1, true
			}
			return 0, true
		}
		switch x.Op {
		case token.ADD:
			return a + b, true
		case token.SUB:
			return a - b, true
		case token.MUL:
			return a * b, true
		case token.AND:
			return a & b, true
		case token.OR:
			return a | b, true
		case token.SHL:
			return a << uint(b&63), true
		case token.SHR:
			return a >> uint(b&63), true
		case token.EQL:
			return bv(a == b)
		case token.NEQ:
			return bv(a != b)
		case token.LSS:
			return bv(a < b)
		case token.LEQ:
			return bv(a <= b)
		case token.GTR:
			return bv(a > b)
		case token.GEQ:
			return bv(a >= b)
		}
	}
	return 0, false
}

// exitsOnZero: with all stream values 0 the branch leaves the loop.
func (ts *taintState) exitsOnZero(ifi *ssa.If, b *ssa.BasicBlock, l *loopInfo) bool {
	// only conditions made of stream values and constants (no counters)
	v, ok := ts.evalZero(ifi.Cond, 0)
	if !ok {
		return false
	}
	taken := b.Succs[0]
	if v == 0 {
		taken = b.Succs[1]
	}
	return !l.blocks[taken]
}

// srcOf names a construct by its source text (position-free): the enclosing for/range header or the
// make(...) call expression. Falls back to dflt when the syntax is not available.
func srcOf(f *ssa.Function, pos token.Pos, kind, dflt string) string {
	var root ast.Node
	for q := f; q != nil && root == nil; q = q.Parent() {
		root = q.Syntax()
	}
	if root == nil || !pos.IsValid() {
		return dflt
	}
	best := ""
	var bestSpan token.Pos = 1 << 40
	ast.Inspect(root, func(n ast.Node) bool {
		if n == nil || pos < n.Pos() || pos > n.End() {
			return n != nil && !(pos < n.Pos() || pos > n.End())
		}
		switch x := n.(type) {
		case *ast.ForStmt:
			if kind == "loop" && x.End()-x.Pos() < bestSpan {
				cond := ""
				if x.Cond != nil {
					cond = types.ExprString(x.Cond)
				}
				best, bestSpan = "for "+cond, x.End()-x.Pos()
			}
		case *ast.RangeStmt:
			if kind == "loop" && x.End()-x.Pos() < bestSpan {
				best, bestSpan = "range "+types.ExprString(x.X), x.End()-x.Pos()
			}
		case *ast.CallExpr:
			if kind == "make" {
				if id, ok := x.Fun.(*ast.Ident); ok && id.Name == "make" && x.End()-x.Pos() < bestSpan {
					best, bestSpan = types.ExprString(x), x.End()-x.Pos()
				}
			}
		}
		return true
	})
	if best == "" {
		return dflt
	}
	return best
}

// blockRejects: the block (chain) ends the function with a non-nil error or a panic.
func blockRejects(b *ssa.BasicBlock) bool {
	seen := map[*ssa.BasicBlock]bool{}
	for cur := b; cur != nil && !seen[cur]; {
		seen[cur] = true
		if len(cur.Instrs) == 0 {
			return false
		}
		switch x := cur.Instrs[len(cur.Instrs)-1].(type) {
		case *ssa.Panic:
			return true
		case *ssa.Return:
			if len(x.Results) == 0 {
				return false
			}
			last := x.Results[len(x.Results)-1]
			if last.Type().String() != "error" {
				if c, ok := last.(*ssa.Const); ok && last.Type().String() == "bool" && c.Value != nil && !constant.BoolVal(c.Value) {
					return true // (value, ok=false)
				}
				return false
			}
			if c, ok := last.(*ssa.Const); ok && c.Value == nil {
				return false // nil error
			}
			return true
		case *ssa.Jump:
			cur = cur.Succs[0]
		default:
			return false
		}
	}
	return false
}

// selfUpdate: field = field (+|-) … : no new untrusted source enters the field.
func selfUpdate(st *ssa.Store) bool {
	fa, ok := st.Addr.(*ssa.FieldAddr)
	if !ok {
		return false
	}
	var loadsSame func(v ssa.Value, depth int) bool
	loadsSame = func(v ssa.Value, depth int) bool {
		if depth > 3 {
			return false
		}
		switch x := v.(type) {
		case *ssa.UnOp:
			if x.Op == token.MUL {
				if fb, ok := x.X.(*ssa.FieldAddr); ok && fb.Field == fa.Field && fb.X.Type() == fa.X.Type() {
					return true
				}
			}
		case *ssa.BinOp:
			return loadsSame(x.X, depth+1) || loadsSame(x.Y, depth+1)
		case *ssa.Convert:
			return loadsSame(x.X, depth+1)
		}
		return false
	}
	return loadsSame(st.Val, 0)
}

// srcOfExpr renders the smallest call / conversion expression that contains the value's position.
func srcOfExpr(f *ssa.Function, v ssa.Value) string {
	var root ast.Node
	for q := f; q != nil && root == nil; q = q.Parent() {
		root = q.Syntax()
	}
	pos := v.Pos()
	if root == nil || !pos.IsValid() {
		return ""
	}
	best := ""
	var bestSpan token.Pos = 1 << 40
	ast.Inspect(root, func(n ast.Node) bool {
		if n == nil {
			return false
		}
		if pos < n.Pos() || pos > n.End() {
			return false
		}
		if x, ok := n.(*ast.CallExpr); ok && x.End()-x.Pos() < bestSpan {
			best, bestSpan = types.ExprString(x), x.End()-x.Pos()
		}
		return true
	})
	return best
}

// guardedAtCallers: f is unexported and every repository call site is dominated by a comparison that shares a
// taint root with t (the guard context of code that was extracted into a helper). Returns the number of call
// sites, 0 if not all are guarded.
func (ts *taintState) guardedAtCallers(f *ssa.Function, t *taintV) int {
	if f.Object() == nil || f.Object().Exported() {
		return 0
	}
	node := ts.c.CallGraph().Nodes[f]
	if node == nil || len(node.In) == 0 {
		return 0
	}
	n := 0
	for _, e := range node.In {
		if e.Site == nil {
			return 0
		}
		if ok, _ := ts.guardedBy(e.Site.Block(), t); !ok {
			return 0
		}
		n++
	}
	return n
}

// dynCallees: the callees the (VTA) call graph records for a call site that has no static callee.
func (ts *taintState) dynCallees(f *ssa.Function, site ssa.CallInstruction) []*ssa.Function {
	if ts.dyn == nil {
		ts.dyn = map[ssa.CallInstruction][]*ssa.Function{}
		ts.dynDone = map[*ssa.Function]bool{}
	}
	if !ts.dynDone[f] {
		ts.dynDone[f] = true
		if node := ts.c.CallGraph().Nodes[f]; node != nil {
			for _, e := range node.Out {
				if e.Site != nil && e.Site.Common().StaticCallee() == nil && e.Callee != nil && e.Callee.Func != nil {
					ts.dyn[e.Site] = append(ts.dyn[e.Site], e.Callee.Func)
				}
			}
		}
	}
	return ts.dyn[site]
}

package chk

// R4 placeholder (implemented in alias analysis file later).
func ruleR4(c *Ctx, r *Report) {}

package chk

func init() { Registry["C03"] = checkC03 }

// C03 — the two decoders and the two encoders are interchangeable (structural part).
func checkC03(c *Ctx, r *Report) {
	r.Explanation = "T-REG: the registries decoders/decodersSR have the same keys, a consistent one-to-one pairing of functions and the same concrete box types per key; " +
		"T-DELEG: every reader-path decoder that delegates calls the SR decoder registered for the same box types with (hdr, startPos, NewFixedSliceReader(readBoxBody(r, hdr))); " +
		"T-WRAP: every Encode(w) of wrapper shape allocates exactly int(recv.Size()), calls recv.EncodeSW on it, checks the error and writes sw.Bytes(); " +
		"W-DD / W-EE: separately written decoder pairs and non-wrapper encoder pairs have the same wire layout per configuration (layout engine). " +
		"S-CLONE: the `switch boxType` statement (mdat ordering rules, second-stage senc parsing of moof boxes) is identical in DecodeFile and DecodeFileSR after normalisation. Decides structural agreement of the sibling paths; does not decide numeric equality of recorded positions or of error texts."
	r.Assume("box types returned through dynamic calls are not resolved (none today)")
	dec, decSR := ruleTREG(c, r)
	sep := ruleTDELEG(c, r, dec, decSR)
	nonWrap := ruleTWRAP(c, r)
	ruleWDD(c, r, sep, decSR, dec)
	ruleWEE(c, r, nonWrap)
	ruleSMEMBEREnc(c, r)
	ruleSCloneSwitch(c, r, "mp4", "DecodeFile", "DecodeFileSR", "boxType")
}

package chk

import "fmt"

func init() { Registry["C03"] = checkC03 }

// C03 — the two decoders and the two encoders are interchangeable (structural part).
func checkC03(c *Ctx, r *Report) {
	r.Explanation = "O-POS (relative): the start position DecodeFileSR records for the next box is the reader position minus the position the reader had before the box loop. O-WRITE: every method of bits.FixedSliceWriter that advances the write offset also stores into the buffer (reserved zero bytes are written, not skipped), so EncodeSW into a caller's buffer writes the same bytes as Encode. T-REG: the registries decoders/decodersSR have the same keys, a consistent one-to-one pairing of functions and the same concrete box types per key; " +
		"T-DELEG: every reader-path decoder that delegates calls the SR decoder registered for the same box types with (hdr, startPos, NewFixedSliceReader(readBoxBody(r, hdr))); " +
		"T-WRAP: every Encode(w) of wrapper shape allocates exactly int(recv.Size()), calls recv.EncodeSW on it, checks the error and writes sw.Bytes(); " +
		"W-DD / W-EE: separately written decoder pairs and non-wrapper encoder pairs have the same wire layout per configuration (layout engine). " +
		"S-COND (header writers): EncodeHeader / EncodeHeaderSW and EncodeHeaderWithSize / EncodeHeaderWithSizeSW branch on the same comparisons with the same constants. S-COND: where a type has a hand-written Encode beside EncodeSW (35 types), both branch on the same tests of struct fields against constants (up to negation) and on the same bool fields. O-POS: the start position DecodeFile and DecodeFileSR hand to the next box decoder (recorded start positions are part of the property) is derived from the input position, never from the re-calculated Box.Size(). S-SIZEDEP: every receiver field Size() reads is read by EncodeSW too (Encode allocates Size() bytes and runs EncodeSW: a field only the size looks at makes one of the two paths fail where the other succeeds). R3-OBS-STALE: a function that calls one of the two observers accepted as impure (MdatBox.Size may switch LargeSize on) does not use, after the call, a value of that field loaded before it, so Encode and EncodeSW write the header form Size() has just decided. S-CLONE: the `switch boxType` statement (mdat ordering rules, second-stage senc parsing of moof boxes) is identical in DecodeFile and DecodeFileSR after normalisation. Decides structural agreement of the sibling paths; does not decide numeric equality of recorded positions or of error texts."
	r.Assume("box types returned through dynamic calls are not resolved (none today)")
	dec, decSR := ruleTREG(c, r)
	sep := ruleTDELEG(c, r, dec, decSR)
	nonWrap := ruleTWRAP(c, r)
	ruleWDD(c, r, sep, decSR, dec)
	ruleWEE(c, r, nonWrap)
	ruleSMEMBEREnc(c, r)
	ruleSCloneSwitch(c, r, "mp4", "DecodeFile", "DecodeFileSR", "boxType")
	ruleSizeDependsEncoded(c, r, map[string]bool{"mp4": true})
	ruleStartPosRelative(c, r)
	if n := ruleWriterStoresBytes(c, r); n < 10 {
		r.Undecided("O-WRITE", "scope", "", fmt.Sprintf("only %d methods of bits.FixedSliceWriter that advance the offset found", n))
	}
	if n := ruleHeaderEncoderPairs(c, r); n < 2 {
		r.Undecided("S-COND", "scope-headers", "", "the header writer twins EncodeHeader[SW] / EncodeHeaderWithSize[SW] not found")
	}
	if n := ruleEncoderConditions(c, r); n < 30 {
		r.Undecided("S-COND", "scope", "", "hand-written Encode/EncodeSW pairs not found")
	}
	ruleCountingReader(c, r)
	if n := ruleStartPosFromInput(c, r); n < 3 {
		r.Undecided("O-POS", "scope", "", "the three box decode calls of DecodeFile / DecodeFileSR not found")
	}
	if n := ruleStaleAcrossObserver(c, r); n < 2 {
		r.Undecided("R3-OBS-STALE", "scope", "", "static calls of MdatBox.Size / SencBox.Info not found (MdatBox.Encode and EncodeSW expected)")
	}
}

package chk

// E7 S-CLONE — two functions declared siblings are equal as normalised ASTs modulo a substitution.

import (
	"bytes"
	"fmt"
	"go/ast"
	"go/printer"
	"go/token"
	"go/types"
	"regexp"
	"sort"
	"strings"

	"golang.org/x/tools/go/packages"
	"golang.org/x/tools/go/ssa"
)

// normalizedBody prints the function body with local identifiers numbered by first occurrence, error message
// texts removed, comments dropped and package qualifiers substituted.
func normalizedBody(c *Ctx, fn *types.Func, subst map[string]string, dropStmt func(ast.Stmt) bool) (string, bool) {
	decl, p := c.Decl(fn)
	if decl == nil || decl.Body == nil {
		return "", false
	}
	return normalizedNode(c, p, decl.Body, subst)
}

func normalizedNode(c *Ctx, p *packages.Package, root ast.Node, subst map[string]string) (string, bool) {
	if root == nil || p == nil {
		return "", false
	}
	locals := map[types.Object]string{}
	var buf bytes.Buffer
	// deep copy through printing + substitution at the identifier level
	var sb strings.Builder
	var walk func(n ast.Node)
	emitIdent := func(id *ast.Ident) {
		obj := p.TypesInfo.Uses[id]
		if obj == nil {
			obj = p.TypesInfo.Defs[id]
		}
		if v, ok := obj.(*types.Var); ok && v.Parent() != nil && v.Parent() != v.Pkg().Scope() && !v.IsField() {
			n, ok := locals[obj]
			if !ok {
				n = fmt.Sprintf("v%d", len(locals))
				locals[obj] = n
			}
			sb.WriteString(n)
			return
		}
		if pn, ok := obj.(*types.PkgName); ok {
			name := pn.Imported().Name()
			if s, ok := subst[name]; ok {
				name = s
			}
			sb.WriteString(name)
			return
		}
		sb.WriteString(id.Name)
	}
	_ = emitIdent
	_ = walk
	// simpler and robust: print the body, then rewrite identifiers textually using position information
	fset := c.Fset
	cfg := printer.Config{Mode: printer.RawFormat}
	// collect replacements (offset -> new text) for identifiers
	type repl struct {
		pos, end token.Pos
		text     string
	}
	var repls []repl
	ast.Inspect(root, func(n ast.Node) bool {
		switch x := n.(type) {
		case *ast.Ident:
			obj := p.TypesInfo.Uses[x]
			if obj == nil {
				obj = p.TypesInfo.Defs[x]
			}
			switch o := obj.(type) {
			case *types.Var:
				if !o.IsField() && o.Pkg() != nil && o.Parent() != o.Pkg().Scope() {
					name, ok := locals[obj]
					if !ok {
						name = fmt.Sprintf("v%d", len(locals))
						locals[obj] = name
					}
					repls = append(repls, repl{x.Pos(), x.End(), name})
				}
			case *types.PkgName:
				name := o.Imported().Name()
				if s, ok := subst[name]; ok {
					repls = append(repls, repl{x.Pos(), x.End(), s})
				}
			}
		case *ast.IfStmt:
			// `else { if c {…} }` is `else if c {…}`: drop the braces of an else block holding one if statement
			if blk, ok := x.Else.(*ast.BlockStmt); ok && len(blk.List) == 1 {
				if _, isIf := blk.List[0].(*ast.IfStmt); isIf {
					repls = append(repls, repl{blk.Lbrace, blk.Lbrace + 1, ""}, repl{blk.Rbrace, blk.Rbrace + 1, ""})
				}
			}
		case *ast.CallExpr:
			// error texts are not part of any property: fmt.Errorf("…", args) -> fmt.Errorf()
			if sel, ok := x.Fun.(*ast.SelectorExpr); ok {
				if id, ok := sel.X.(*ast.Ident); ok && (id.Name == "fmt" && sel.Sel.Name == "Errorf" || id.Name == "errors" && sel.Sel.Name == "New") && len(x.Args) > 0 {
					repls = append(repls, repl{x.Args[0].Pos(), x.Args[len(x.Args)-1].End(), ""})
					return false
				}
			}
		}
		return true
	})
	if err := cfg.Fprint(&buf, fset, root); err != nil {
		return "", false
	}
	// apply replacements on the original source text instead (positions refer to it)
	file := fset.File(root.Pos())
	src, err := readFileCached(file.Name())
	if err != nil {
		return "", false
	}
	start, end := file.Offset(root.Pos()), file.Offset(root.End())
	var out strings.Builder
	cur := start
	// replacements in source order; skip nested
	sort.SliceStable(repls, func(i, j int) bool { return repls[i].pos < repls[j].pos })
	for _, rp := range repls {
		o1, o2 := file.Offset(rp.pos), file.Offset(rp.end)
		if o1 < cur {
			continue
		}
		out.Write(src[cur:o1])
		out.WriteString(rp.text)
		cur = o2
	}
	out.Write(src[cur:end])
	s := out.String()
	// drop comments and normalise whitespace
	s = regexp.MustCompile(`(?s)/\*.*?\*/`).ReplaceAllString(s, "")
	s = regexp.MustCompile(`//[^\n]*`).ReplaceAllString(s, "")
	s = regexp.MustCompile(`\s+`).ReplaceAllString(s, " ")
	return strings.TrimSpace(s), true
}

var fileCache = map[string][]byte{}

func readFileCached(name string) ([]byte, error) {
	if b, ok := fileCache[name]; ok {
		return b, nil
	}
	b, err := osReadFile(name)
	if err == nil {
		fileCache[name] = b
	}
	return b, err
}

// ruleSClone compares two sibling functions.
func ruleSClone(c *Ctx, r *Report, pkg, a, b string, subst map[string]string) {
	fa, fb := c.LookupFunc(pkg, a), c.LookupFunc(pkg, b)
	key := pkg + "." + a + "~" + b
	if fa == nil || fb == nil {
		r.Undecided("S-CLONE", "anchor:"+key, "", "sibling functions not found")
		return
	}
	sa, ok1 := normalizedBody(c, fa, subst, nil)
	sb, ok2 := normalizedBody(c, fb, map[string]string{}, nil)
	if !ok1 || !ok2 {
		r.Undecided("S-CLONE", key, c.Pos(fa.Pos()), "function bodies not available")
		return
	}
	if sa == sb {
		r.OK("S-CLONE", key, c.Pos(fa.Pos()), fmt.Sprintf("bodies are identical modulo %v, local names, comments and error texts (%d normalised characters)", subst, len(sa)))
		return
	}
	// first difference
	i := 0
	for i < len(sa) && i < len(sb) && sa[i] == sb[i] {
		i++
	}
	lo := i - 60
	if lo < 0 {
		lo = 0
	}
	hiA, hiB := i+60, i+60
	if hiA > len(sa) {
		hiA = len(sa)
	}
	if hiB > len(sb) {
		hiB = len(sb)
	}
	r.Bad("S-CLONE", key, c.Pos(fa.Pos()), fmt.Sprintf("sibling functions differ (one of them is wrong): %s has …%s… where %s has …%s…", a, sa[lo:hiA], b, sb[lo:hiB]))
}

// ruleWhoConstructs — SubSamplePattern values on the encrypt path are built only by AppendProtectRange.
func ruleWhoConstructs(c *Ctx, r *Report) {
	entries := []string{"EncryptFragment", "GetAVCProtectRanges", "GetHEVCProtectRanges", "getAVCProtFunc", "getHEVCProtFunc", "InitProtect"}
	var roots []*ssa.Function
	for _, n := range entries {
		if f := c.ssaFunc(r, "WHO", "mp4", n); f != nil {
			roots = append(roots, f)
		}
	}
	scope, _ := scopeFrom(c, roots)
	allowed := "mp4.AppendProtectRange"
	seenAllowed := false
	n := 0
	for f := range scope {
		name := SSAFuncName(f)
		for _, b := range f.Blocks {
			for _, ins := range b.Instrs {
				// construction = store into a field of a SubSamplePattern
				st, ok := ins.(*ssa.Store)
				if !ok {
					continue
				}
				fa, ok := st.Addr.(*ssa.FieldAddr)
				if !ok || typeName(fa.X.Type()) != "SubSamplePattern" {
					continue
				}
				n++
				if name == allowed {
					seenAllowed = true
					continue
				}
				r.Bad("WHO", name+":SubSamplePattern", c.Pos(st.Pos()), name+" builds a SubSamplePattern itself on the encrypt path: the 65535-byte clear-run split of AppendProtectRange is bypassed")
			}
		}
	}
	if seenAllowed {
		r.OK("WHO", allowed+":SubSamplePattern", "", fmt.Sprintf("the only constructor of SubSamplePattern among %d functions on the encrypt path", len(scope)))
	} else {
		r.Undecided("WHO", "anchor:"+allowed, "", "AppendProtectRange no longer constructs SubSamplePattern values (anchor lost)")
	}
}

// ruleSCloneSwitch — two sibling functions contain a `switch <tag>` statement that must be the same in both
// (normalised): the per-box-type handling of the two file decoders.
// dispatchOn: the statement in fn that dispatches on the identifier tag: `switch tag { case … }` or the outermost
// `if tag == "lit" { … } else if tag == "lit2" { … }` chain. Returned as a canonical list of (case labels, body).
type dispatchCase struct {
	labels string
	body   []ast.Stmt
}

func dispatchOn(c *Ctx, pkg, name, tag string) ([]dispatchCase, *packages.Package, token.Pos) {
	fn := c.LookupFunc(pkg, name)
	if fn == nil {
		return nil, nil, token.NoPos
	}
	decl, p := c.Decl(fn)
	if decl == nil {
		return nil, nil, token.NoPos
	}
	lit := func(e ast.Expr) (string, bool) {
		be, ok := e.(*ast.BinaryExpr)
		if !ok || be.Op != token.EQL {
			return "", false
		}
		for i, o := range []ast.Expr{be.X, be.Y} {
			other := []ast.Expr{be.Y, be.X}[i]
			if id, ok := o.(*ast.Ident); ok && id.Name == tag {
				if bl, ok := other.(*ast.BasicLit); ok {
					return bl.Value, true
				}
			}
		}
		return "", false
	}
	var out []dispatchCase
	var pos token.Pos
	ast.Inspect(decl.Body, func(n ast.Node) bool {
		if out != nil {
			return false
		}
		switch x := n.(type) {
		case *ast.SwitchStmt:
			if id, ok := x.Tag.(*ast.Ident); ok && id.Name == tag {
				pos = x.Pos()
				for _, cl := range x.Body.List {
					cc := cl.(*ast.CaseClause)
					var labs []string
					for _, e := range cc.List {
						labs = append(labs, types.ExprString(e))
					}
					if cc.List == nil {
						labs = []string{"default"}
					}
					out = append(out, dispatchCase{strings.Join(labs, ","), cc.Body})
				}
				return false
			}
		case *ast.IfStmt:
			if _, ok := lit(x.Cond); ok && x.Init == nil {
				pos = x.Pos()
				var cur ast.Stmt = x
				for cur != nil {
					switch y := cur.(type) {
					case *ast.IfStmt:
						l, ok := lit(y.Cond)
						if !ok || y.Init != nil {
							out = nil
							return false
						}
						out = append(out, dispatchCase{l, y.Body.List})
						cur = y.Else
					case *ast.BlockStmt:
						out = append(out, dispatchCase{"default", y.List})
						cur = nil
					default:
						cur = nil
					}
				}
				return false
			}
		}
		return true
	})
	return out, p, pos
}

func ruleSCloneSwitch(c *Ctx, r *Report, pkg, a, b, tag string) {
	key := pkg + "." + a + "~" + b + ":switch " + tag
	da, pa, posA := dispatchOn(c, pkg, a, tag)
	db, pb, posB := dispatchOn(c, pkg, b, tag)
	if da == nil || db == nil {
		r.Undecided("S-CLONE", key, "", "the dispatch on "+tag+" (a switch, or an if/else-if chain comparing it with literals) was not found in both functions")
		return
	}
	canon := func(ds []dispatchCase, p *packages.Package) (string, bool) {
		var sb strings.Builder
		for _, d := range ds {
			sb.WriteString("case " + d.labels + ": ")
			for _, st := range d.body {
				t, ok := normalizedNode(c, p, st, nil)
				if !ok {
					return "", false
				}
				sb.WriteString(t + "; ")
			}
		}
		return sb.String(), true
	}
	sa, ok1 := canon(da, pa)
	sb, ok2 := canon(db, pb)
	if !ok1 || !ok2 {
		r.Undecided("S-CLONE", key, c.Pos(posA), "source not available")
		return
	}
	if sa == sb {
		r.OK("S-CLONE", key, c.Pos(posA), fmt.Sprintf("the per-box-type handling is identical in both file decoders (%d cases, %d normalised characters)", len(da), len(sa)))
		return
	}
	i := 0
	for i < len(sa) && i < len(sb) && sa[i] == sb[i] {
		i++
	}
	lo := i - 60
	if lo < 0 {
		lo = 0
	}
	hiA, hiB := i+80, i+80
	if hiA > len(sa) {
		hiA = len(sa)
	}
	if hiB > len(sb) {
		hiB = len(sb)
	}
	r.Bad("S-CLONE", key, c.Pos(posB), fmt.Sprintf("the two file decoders handle a box type differently: %s has …%s… where %s has …%s…", a, sa[lo:hiA], b, sb[lo:hiB]))
}

package chk

// Additional narrow rules added after the second round of seeded changes.

import (
	"fmt"
	"go/ast"
	"go/constant"
	"go/token"
	"go/types"
	"sort"
	"strings"

	"golang.org/x/tools/go/ssa"
)

// ruleFFRun (C17) — the 0xFF-run coding of SEI type/size: the writer keeps emitting 0xFF while the remaining
// value is >= 255, so that the terminating byte is < 255 (a value of exactly 255 is FF 00).
func ruleFFRun(c *Ctx, r *Report) {
	f := c.ssaFunc(r, "O-FFRUN", "bits", "EBSPWriter.WriteSEIValue")
	if f == nil {
		return
	}
	loops := naturalLoops(f)
	key := "bits.EBSPWriter.WriteSEIValue:continuation-test"
	if len(loops) != 1 {
		r.Undecided("O-FFRUN", key, c.Pos(f.Pos()), "expected one loop emitting 0xFF bytes")
		return
	}
	l := loops[0]
	found := false
	for b := range l.blocks {
		if len(b.Instrs) == 0 {
			continue
		}
		ifi, ok := b.Instrs[len(b.Instrs)-1].(*ssa.If)
		if !ok {
			continue
		}
		exits := !l.blocks[b.Succs[0]] || !l.blocks[b.Succs[1]]
		bo, isBo := ifi.Cond.(*ssa.BinOp)
		if !exits || !isBo {
			continue
		}
		cst, isC := bo.Y.(*ssa.Const)
		if !isC || cst.Value == nil {
			continue
		}
		v, _ := constant.Int64Val(cst.Value)
		found = true
		// the loop continues on Succs[0] if that is inside the loop
		cont := bo.Op
		if !l.blocks[b.Succs[0]] {
			cont = map[token.Token]token.Token{token.GEQ: token.LSS, token.GTR: token.LEQ, token.LSS: token.GEQ, token.LEQ: token.GTR}[bo.Op]
		}
		ok2 := cont == token.GEQ && v == 255 || cont == token.GTR && v == 254
		if ok2 {
			r.OK("O-FFRUN", key, c.Pos(bo.Pos()), "0xFF is emitted while the remaining value is >= 255; the terminating byte is < 255")
		} else {
			r.Bad("O-FFRUN", key, c.Pos(bo.Pos()), "the 0xFF run continues only while the remaining value is "+cont.String()+" "+cst.Value.String()+": a value that is a multiple of 255 ends with a byte 0xFF and the reader keeps adding the next byte")
		}
	}
	if !found {
		r.Undecided("O-FFRUN", key, c.Pos(f.Pos()), "loop exit test against a constant not found")
	}
}

// ruleTrexByID (C06) — DecryptInit attaches each trex to the track info with the same track id.
func ruleTrexByID(c *Ctx, r *Report) {
	f := c.ssaFunc(r, "DEP", "mp4", "DecryptInit")
	if f == nil {
		return
	}
	sts := storesTo(f, "DecryptTrackInfo.Trex")
	key := "mp4.DecryptInit:trex-by-track-id"
	if len(sts) == 0 {
		r.Bad("DEP", key, c.Pos(f.Pos()), "no trex is attached to the per-track decrypt info")
		return
	}
	for _, st := range sts {
		ok := false
		for _, cond := range controlConds(st.Block()) {
			sl := backSlice(c, cond, 0)
			if sliceHas(sl, "field", "TrexBox.TrackID") && sliceHas(sl, "field", "DecryptTrackInfo.TrackID") {
				ok = true
			}
		}
		if ok {
			r.OK("DEP", key, c.Pos(st.Pos()), "trex is attached under a test that its track id equals the track info's id")
		} else {
			r.Bad("DEP", key, c.Pos(st.Pos()), "a trex is attached to a track info without testing that their track ids are equal (association by position): defaults of another track are applied when mvex order differs from trak order")
		}
	}
}

// ruleSencSearch (C06) — ContainsSencBox reports "not found" only after all children were looked at.
func ruleSencSearch(c *Ctx, r *Report) {
	f := c.ssaFunc(r, "O-SEARCH", "mp4", "TrafBox.ContainsSencBox")
	if f == nil {
		return
	}
	loops := naturalLoops(f)
	key := "mp4.TrafBox.ContainsSencBox:not-found-after-loop"
	bad := false
	n := 0
	for _, b := range f.Blocks {
		for _, ins := range b.Instrs {
			ret, ok := ins.(*ssa.Return)
			if !ok || len(ret.Results) == 0 {
				continue
			}
			cst, isC := ret.Results[0].(*ssa.Const)
			if !isC || cst.Value == nil || constant.BoolVal(cst.Value) {
				continue
			}
			n++
			// a "not found" return must not be reachable from the loop body without going through the
			// header's exit edge
			for _, l := range loops {
				seen := map[*ssa.BasicBlock]bool{l.header: true}
				var stack []*ssa.BasicBlock
				for _, s := range l.header.Succs {
					if l.blocks[s] {
						stack = append(stack, s)
					}
				}
				for len(stack) > 0 {
					x := stack[len(stack)-1]
					stack = stack[:len(stack)-1]
					if seen[x] {
						continue
					}
					seen[x] = true
					if x == b {
						bad = true
					}
					stack = append(stack, x.Succs...)
				}
			}
		}
	}
	switch {
	case n == 0:
		r.Undecided("O-SEARCH", key, c.Pos(f.Pos()), "no 'not found' return")
	case bad:
		r.Bad("O-SEARCH", key, c.Pos(f.Pos()), "the search for a senc box gives up ('not found') from inside the loop over the children: a box that precedes the senc box hides it")
	default:
		r.OK("O-SEARCH", key, c.Pos(f.Pos()), "'not found' is returned only after the loop over all children")
	}
}

// ruleBoxSizeGuard (C04) — DecodeBoxSR compares the full unsigned box size with the bytes available before
// any decoder is called.
func ruleBoxSizeGuard(c *Ctx, r *Report) {
	f := c.ssaFunc(r, "G-SIZE", "mp4", "DecodeBoxSR")
	if f == nil {
		return
	}
	key := "mp4.DecodeBoxSR:size-vs-remaining"
	var guards []*ssa.If
	for _, b := range f.Blocks {
		if len(b.Instrs) == 0 {
			continue
		}
		ifi, ok := b.Instrs[len(b.Instrs)-1].(*ssa.If)
		if !ok {
			continue
		}
		bo, ok := ifi.Cond.(*ssa.BinOp)
		if !ok {
			continue
		}
		switch bo.Op {
		case token.GTR, token.GEQ, token.LSS, token.LEQ:
		default:
			continue
		}
		for i, o := range []ssa.Value{bo.X, bo.Y} {
			other := []ssa.Value{bo.Y, bo.X}[i]
			if isDirectFieldLoad(o, "BoxHeader.Size") && typeBits(o.Type()) == 64 && !typInfoOf(o.Type()).signed {
				if sliceHas(backSlice(c, other, 0), "call", "NrRemainingBytes") {
					guards = append(guards, ifi)
				}
			}
		}
	}
	if len(guards) == 0 {
		r.Bad("G-SIZE", key, c.Pos(f.Pos()), "no comparison of the unsigned 64-bit box size itself with the remaining bytes: a size with the top bit set (or one narrowed to int) passes the check and reaches decoders that allocate from it")
		return
	}
	// every decoder call is dominated by the guard
	ok := true
	for _, b := range f.Blocks {
		for _, ins := range b.Instrs {
			call, isCall := ins.(*ssa.Call)
			if !isCall {
				continue
			}
			dyn := call.Call.StaticCallee() == nil && !call.Call.IsInvoke()
			if _, isB := call.Call.Value.(*ssa.Builtin); isB {
				dyn = false
			}
			unk := strings.HasSuffix(calleeName(call.Common()), "mp4.DecodeUnknownSR")
			if !dyn && !unk {
				continue
			}
			dom := false
			for _, g := range guards {
				if g.Block().Dominates(call.Block()) {
					dom = true
				}
			}
			if !dom {
				ok = false
			}
		}
	}
	if ok {
		r.OK("G-SIZE", key, c.Pos(guards[0].Pos()), "the unsigned 64-bit size is compared with the remaining bytes before any decoder runs")
	} else {
		r.Bad("G-SIZE", key, c.Pos(guards[0].Pos()), "a decoder is called on a path that has not passed the size check")
	}
}

func isDirectFieldLoad(v ssa.Value, typeField string) bool {
	switch x := v.(type) {
	case *ssa.UnOp:
		if fa, ok := x.X.(*ssa.FieldAddr); ok {
			if fv := fieldVar(fa.X.Type(), fa.Field); fv != nil && typeName(fa.X.Type())+"."+fv.Name() == typeField {
				return true
			}
		}
	case *ssa.Field:
		if fv := fieldVar(x.X.Type(), x.Field); fv != nil && typeName(x.X.Type())+"."+fv.Name() == typeField {
			return true
		}
	}
	return false
}

// ruleAddSidxOrder (C12) — in the add-sidx tool, encryption boxes are removed before the index sizes are computed.
func ruleAddSidxOrder(c *Ctx, r *Report) {
	f := c.ssaFunc(r, "O-PRE", "examples/add-sidx", "run")
	if f == nil {
		return
	}
	rm := callsIn(f, "examples/add-sidx.removeEncryptionBoxes", false)
	up := callsIn(f, "File.UpdateSidx", false)
	key := "examples/add-sidx.run:remove-before-update"
	if len(up) == 0 {
		r.Undecided("O-PRE", key, c.Pos(f.Pos()), "UpdateSidx is not called")
		return
	}
	bad := false
	for _, a := range rm {
		for _, u := range up {
			if instrReaches(u, a) && !instrDominates(a, u) {
				bad = true
			}
		}
	}
	if bad {
		r.Bad("O-PRE", key, c.Pos(up[0].Pos()), "boxes are removed after UpdateSidx has computed the segment sizes: the index references describe bytes that are not written")
	} else {
		r.OK("O-PRE", key, c.Pos(up[0].Pos()), "box removal precedes UpdateSidx")
	}
}

// ruleDefaultsBeforeDur (C12) — findSegmentData resolves tfhd/trex defaults before summing durations.
func ruleDefaultsBeforeDur(c *Ctx, r *Report) {
	f := c.ssaFunc(r, "O-PRE", "mp4", "findSegmentData")
	if f == nil {
		return
	}
	key := "mp4.findSegmentData:defaults-before-durations"
	defs := callsIn(f, "TrunBox.AddSampleDefaultValues", false)
	if len(defs) == 0 {
		r.Bad("O-PRE", key, c.Pos(f.Pos()), "sample defaults from tfhd/trex are not applied (AddSampleDefaultValues) before the durations of the reference track are summed: a tfhd default duration is ignored")
		return
	}
	// the tfhd of the traf must be handed over
	sl := backSlice(c, defs[0].Common().Args[1], 0)
	if sliceHas(sl, "field", "TrafBox.Tfhd") {
		r.OK("O-PRE", key, c.Pos(defs[0].Pos()), "AddSampleDefaultValues(tfhd, trex) runs on every run of the reference track")
	} else {
		r.Bad("O-PRE", key, c.Pos(defs[0].Pos()), "AddSampleDefaultValues is not given the traf's tfhd")
	}
}

// ruleTrexFallback (C12) — the trex defaults are only a fallback: wherever a default duration/size/flags is read
// from the trex box for use, the tfhd default of the same kind is consulted in the same function, or in a repo
// function the value is handed to.
func ruleTrexFallback(c *Ctx, r *Report) {
	kinds := []string{"DefaultSampleDuration", "DefaultSampleSize", "DefaultSampleFlags"}
	n := 0
	for _, f := range c.RepoFuncs(IsLib) {
		if f.Synthetic != "" || strings.HasSuffix(c.Fset.Position(f.Pos()).Filename, "_test.go") {
			continue
		}
		if recv := f.Signature.Recv(); recv != nil && typeName(recv.Type()) == "TrexBox" {
			continue // the box's own codec, size and info methods
		}
		if strings.HasPrefix(f.Name(), "DecodeTrex") || strings.HasPrefix(f.Name(), "CreateTrex") {
			continue
		}
		for _, k := range kinds {
			var loads []ssa.Value
			for _, b := range f.Blocks {
				for _, ins := range b.Instrs {
					if v, ok := ins.(ssa.Value); ok && isDirectFieldLoad(v, "TrexBox."+k) {
						loads = append(loads, v)
					}
				}
			}
			if len(loads) == 0 {
				continue
			}
			n++
			key := SSAFuncName(f) + ":trex." + k
			has := len(callsIn(f, "TfhdBox.Has"+k, false)) > 0
			if !has {
				// handed to a repo function which consults tfhd
				for _, ld := range loads {
					for _, ref := range *ld.Referrers() {
						if ci, ok := ref.(ssa.CallInstruction); ok {
							if g := ci.Common().StaticCallee(); g != nil && len(callsIn(g, "TfhdBox.Has"+k, false)) > 0 {
								has = true
							}
						}
					}
				}
			}
			if has {
				r.OK("O-FALLBACK", key, c.Pos(loads[0].Pos()), "the trex default is read where the tfhd default of the same kind is consulted")
			} else {
				r.Bad("O-FALLBACK", key, c.Pos(loads[0].Pos()), "trex."+k+" is used without consulting tfhd.Has"+k+": a default set in the fragment's tfhd is ignored")
			}
		}
	}
	_ = n
	r.Floor("O-FALLBACK", 5)
}

// ruleIndependentEnds — loops that adjust the first element (`if i == 0`) and the last element
// (`if i == len-1`) of a sequence: the two adjustments are independent — when the sequence has one element both
// apply. They must not be mutually exclusive arms (an if/else-if or a switch): the last-element arm must be
// reachable from the first-element arm within one iteration.
func ruleIndependentEnds(c *Ctx, r *Report, rule string, scope func(*ssa.Function) bool, floor int) {
	n := 0
	for _, f := range c.RepoFuncs(nil) {
		if f.Synthetic != "" || (scope != nil && !scope(f)) || strings.HasSuffix(c.Fset.Position(f.Pos()).Filename, "_test.go") {
			continue
		}
		for _, l := range naturalLoops(f) {
			var firstArms, lastArms []*ssa.BasicBlock
			var firstIf, lastIf []*ssa.If
			for b := range l.blocks {
				if len(b.Instrs) == 0 {
					continue
				}
				ifi, ok := b.Instrs[len(b.Instrs)-1].(*ssa.If)
				if !ok {
					continue
				}
				bo, ok := ifi.Cond.(*ssa.BinOp)
				if !ok || bo.Op != token.EQL {
					continue
				}
				if !dependsOnLoopPhi(bo.X, l, 0) {
					continue
				}
				if cs, ok := constSet(bo.Y, 0); ok && len(cs) == 1 && cs[0] == 0 {
					firstArms = append(firstArms, b.Succs[0])
					firstIf = append(firstIf, ifi)
					continue
				}
				// len(x) - 1
				if sub, ok := stripConv(bo.Y).(*ssa.BinOp); ok && sub.Op == token.SUB {
					if cs, ok := constSet(sub.Y, 0); ok && len(cs) == 1 && cs[0] == 1 {
						if call, ok := stripConv(sub.X).(*ssa.Call); ok {
							if bi, ok := call.Call.Value.(*ssa.Builtin); ok && bi.Name() == "len" {
								lastArms = append(lastArms, b.Succs[0])
								lastIf = append(lastIf, ifi)
							}
						}
					}
				}
				// a variable holding len(x)-1 (lastChunkIdx := len(chunks) - 1)
			}
			if len(firstArms) == 0 || len(lastArms) == 0 {
				continue
			}
			n++
			key := fmt.Sprintf("%s:%s", SSAFuncName(f), srcOf(f, firstPos(l.header.Succs[0]), "loop", "loop"))
			// within one iteration: from the first arm, reach the block of the last test without passing the header
			ok := false
			for _, fa := range firstArms {
				for _, li := range lastIf {
					if reachesAvoiding(fa, li.Block(), l.header, l) {
						ok = true
					}
				}
			}
			if ok {
				r.OK(rule, key, c.Pos(firstIf[0].Pos()), "the first-element and last-element adjustments can both apply in one iteration")
			} else {
				r.Bad(rule, key, c.Pos(lastIf[0].Pos()), "the adjustment of the last element is in an arm that excludes the adjustment of the first element: for a one-element sequence the end is not clipped")
			}
		}
	}
	r.Floor(rule, floor)
}

func reachesAvoiding(from, to, avoid *ssa.BasicBlock, l *loopInfo) bool {
	seen := map[*ssa.BasicBlock]bool{avoid: true}
	stack := []*ssa.BasicBlock{from}
	for len(stack) > 0 {
		b := stack[len(stack)-1]
		stack = stack[:len(stack)-1]
		if b == to {
			return true
		}
		if seen[b] || !l.blocks[b] {
			continue
		}
		seen[b] = true
		stack = append(stack, b.Succs...)
	}
	return false
}

// ruleFreshCBC (C07) — cbcs: every protected range is CBC-coded starting from the constant IV, so the
// cipher.BlockMode on which CryptBlocks is called is created (NewCBCEncrypter/Decrypter) in the function that
// codes one range, or — when passed in — inside the same loop iteration as the call that codes the range.
func ruleFreshCBC(c *Ctx, r *Report) {
	n := 0
	for _, f := range c.RepoFuncs(IsLib) {
		if f.Pkg == nil || f.Pkg.Pkg.Name() != "mp4" || f.Synthetic != "" {
			continue
		}
		for _, b := range f.Blocks {
			for _, ins := range b.Instrs {
				call, ok := ins.(*ssa.Call)
				if !ok || !call.Call.IsInvoke() || call.Call.Method.Name() != "CryptBlocks" {
					continue
				}
				key := SSAFuncName(f) + ":CryptBlocks"
				n++
				recv := call.Call.Value
				if originatesFromCBC(recv, 0) {
					if n > 0 {
						r.OKOnce("O-FRESHIV", key, c.Pos(call.Pos()), "the block mode is created from the IV in the function that codes one range")
					}
					continue
				}
				if par, ok := recv.(*ssa.Parameter); ok {
					// every caller creates it in the same loop iteration as the call
					bad := ""
					idx := -1
					for i, p := range f.Params {
						if p == par {
							idx = i
						}
					}
					node := c.CallGraph().Nodes[f]
					if node != nil {
						for _, e := range node.In {
							if e.Site == nil || idx < 0 {
								continue
							}
							arg := e.Site.Common().Args[idx]
							cf := e.Caller.Func
							mk, isCall := arg.(*ssa.Call)
							if !isCall && !originatesFromCBC(arg, 0) {
								bad = "the block mode passed by " + SSAFuncName(cf) + " is not created by NewCBCEncrypter/Decrypter there"
								continue
							}
							for _, lp := range naturalLoops(cf) {
								if lp.blocks[e.Site.Block()] {
									in := isCall && lp.blocks[mk.Block()]
									if !isCall {
										in = false
										if src := cbcSource(arg, 0); src != nil && lp.blocks[src.Block()] {
											in = true
										}
									}
									if !in {
										bad = "the block mode is created in " + SSAFuncName(cf) + " outside the loop over the protected ranges and reused for every range: CBC chaining carries over from one range to the next"
									}
								}
							}
						}
					}
					if bad != "" {
						r.Bad("O-FRESHIV", key, c.Pos(call.Pos()), bad)
					} else {
						r.OKOnce("O-FRESHIV", key, c.Pos(call.Pos()), "callers create the block mode in the iteration that codes the range")
					}
					continue
				}
				r.OKOnce("O-FRESHIV", key+":ctr", c.Pos(call.Pos()), "not a CBC block mode (stream cipher)")
			}
		}
	}
	r.Floor("O-FRESHIV", 1)
}

func cbcSource(v ssa.Value, depth int) *ssa.Call {
	if depth > 5 {
		return nil
	}
	switch x := v.(type) {
	case *ssa.Call:
		n := calleeName(x.Common())
		if strings.HasSuffix(n, "cipher.NewCBCEncrypter") || strings.HasSuffix(n, "cipher.NewCBCDecrypter") {
			return x
		}
	case *ssa.Phi:
		for _, e := range x.Edges {
			if s := cbcSource(e, depth+1); s != nil {
				return s
			}
		}
	case *ssa.MakeInterface:
		return cbcSource(x.X, depth+1)
	case *ssa.ChangeInterface:
		return cbcSource(x.X, depth+1)
	case *ssa.UnOp:
		if al, ok := x.X.(*ssa.Alloc); ok {
			for _, ref := range *al.Referrers() {
				if st, ok := ref.(*ssa.Store); ok && st.Addr == ssa.Value(al) {
					if s := cbcSource(st.Val, depth+1); s != nil {
						return s
					}
				}
			}
		}
	}
	return nil
}

func originatesFromCBC(v ssa.Value, depth int) bool { return cbcSource(v, depth) != nil }

// ruleNoReaderAliasing (C20/C04) — decoders on the io.Reader path copy what they keep: no call in the library
// to reader methods that hand out the reader's own storage ((*bytes.Buffer).Next/Bytes, (*bufio.Reader).Peek).
func ruleNoReaderAliasing(c *Ctx, r *Report) {
	forbidden := []string{"(*bytes.Buffer).Next", "(*bytes.Buffer).Bytes", "(*bufio.Reader).Peek", "(*bytes.Reader).WriteTo"}
	n := 0
	funcs := 0
	for _, f := range c.RepoFuncs(IsLib) {
		if f.Synthetic != "" || strings.HasSuffix(c.Fset.Position(f.Pos()).Filename, "_test.go") {
			continue
		}
		takesReader := false
		for _, p := range f.Params {
			if p.Type().String() == "io.Reader" || p.Type().String() == "io.ReadSeeker" {
				takesReader = true
			}
		}
		if !takesReader {
			continue
		}
		funcs++
		for _, b := range f.Blocks {
			for _, ins := range b.Instrs {
				call, ok := ins.(ssa.CallInstruction)
				if !ok {
					continue
				}
				g := call.Common().StaticCallee()
				if g == nil {
					continue
				}
				for _, fb := range forbidden {
					if g.String() == fb {
						// only when the receiver comes from the reader parameter (type assertion), not from a local buffer
						if fromReaderParam(call.Common().Args[0], 0) {
							n++
							r.Bad("R4", SSAFuncName(f)+":"+fb, c.Pos(call.Pos()), "the decoder keeps a slice of the reader's own storage ("+fb+" on the io.Reader it was given): later in-place operations on the decoded data modify the caller's input, and concurrent decodes of the same bytes interfere")
						}
					}
				}
			}
		}
	}
	if funcs < 60 {
		r.Undecided("R4", "scope", "", fmt.Sprintf("only %d library functions take an io.Reader", funcs))
	} else if n == 0 {
		r.OK("R4", "no-reader-aliasing", "", fmt.Sprintf("%d library functions taking an io.Reader examined: none calls a storage-sharing method of bytes.Buffer/bufio.Reader on it", funcs))
	}
}

func fromReaderParam(v ssa.Value, depth int) bool {
	if depth > 5 {
		return false
	}
	switch x := v.(type) {
	case *ssa.Parameter:
		return x.Type().String() == "io.Reader" || x.Type().String() == "io.ReadSeeker"
	case *ssa.TypeAssert:
		return fromReaderParam(x.X, depth+1)
	case *ssa.Extract:
		return fromReaderParam(x.Tuple, depth+1)
	case *ssa.Phi:
		for _, e := range x.Edges {
			if fromReaderParam(e, depth+1) {
				return true
			}
		}
	case *ssa.ChangeInterface:
		return fromReaderParam(x.X, depth+1)
	}
	return false
}

// ruleNoMdatHeaderConstant — the start of the mdat payload comes from the box (HeaderSize /
// PayloadAbsoluteOffset, 8 or 16 bytes): no function adds a constant to MdatBox.StartPos.
func ruleNoMdatHeaderConstant(c *Ctx, r *Report, rule string) {
	n := 0
	uses := 0
	for _, f := range c.RepoFuncs(nil) {
		if f.Synthetic != "" || strings.HasSuffix(c.Fset.Position(f.Pos()).Filename, "_test.go") {
			continue
		}
		for _, b := range f.Blocks {
			for _, ins := range b.Instrs {
				if v, ok := ins.(ssa.Value); ok && isDirectFieldLoad(v, "MdatBox.StartPos") {
					uses++
				}
				bo, ok := ins.(*ssa.BinOp)
				if !ok || bo.Op != token.ADD {
					continue
				}
				for i, o := range []ssa.Value{bo.X, bo.Y} {
					other := []ssa.Value{bo.Y, bo.X}[i]
					if !isDirectFieldLoad(stripConv(o), "MdatBox.StartPos") {
						continue
					}
					if cs, ok := constSet(other, 0); ok && len(cs) == 1 && cs[0] > 0 {
						n++
						r.Bad(rule, SSAFuncName(f)+":mdat.StartPos+"+fmt.Sprint(cs[0]), c.Pos(bo.Pos()), "the payload start is computed as StartPos plus a constant: a mdat box with a 16-byte (largesize) header is read 8 bytes off")
					}
				}
			}
		}
	}
	if uses < 3 {
		r.Undecided(rule, "mdat-start-uses", "", fmt.Sprintf("only %d reads of MdatBox.StartPos found", uses))
	} else if n == 0 {
		r.OK(rule, "mdat-payload-start", "", fmt.Sprintf("%d reads of MdatBox.StartPos: none is offset by a constant header length", uses))
	}
}

// ruleMdatEmptyTest (C08) — File.AddChild keeps the first non-empty mdat of a progressive file: the emptiness
// test must see a lazily decoded mdat as non-empty, i.e. depend on MdatBox.lazyDataSize (through Size()).
func ruleMdatEmptyTest(c *Ctx, r *Report) {
	f := c.ssaFunc(r, "DEP", "mp4", "File.AddChild")
	if f == nil {
		return
	}
	key := "mp4.File.AddChild:mdat-empty-test"
	sts := storesTo(f, "File.Mdat")
	if len(sts) == 0 {
		r.Undecided("DEP", key, c.Pos(f.Pos()), "no store to File.Mdat")
		return
	}
	ok := false
	for _, st := range sts {
		for _, cond := range controlCondsDeep(st.Block()) {
			sl := backSlice(c, cond, 2)
			if sliceHas(sl, "field", "MdatBox.lazyDataSize") {
				ok = true
			}
		}
	}
	if ok {
		r.OK("DEP", key, c.Pos(sts[0].Pos()), "the test that the previous mdat is empty depends on the lazily decoded size")
	} else {
		r.Bad("DEP", key, c.Pos(sts[0].Pos()), "the test that the previous mdat is empty does not depend on MdatBox.lazyDataSize: a lazily decoded mdat always looks empty and a later mdat replaces it")
	}
}

// ruleChunkEntryWalk (C09) — GetContainingChunks: the stsc entry used for a chunk is looked up per chunk:
// inside the chunk loop an element of Entries is loaded with an index that changes in the loop.
func ruleChunkEntryWalk(c *Ctx, r *Report) {
	f := c.ssaFunc(r, "DEP", "mp4", "StscBox.GetContainingChunks")
	if f == nil {
		return
	}
	key := "mp4.StscBox.GetContainingChunks:entry-per-chunk"
	found := false
	for _, l := range naturalLoops(f) {
		for b := range l.blocks {
			for _, ins := range b.Instrs {
				ia, ok := ins.(*ssa.IndexAddr)
				if !ok || !isDirectFieldLoad(ia.X, "StscBox.Entries") {
					continue
				}
				if dependsOnLoopPhi(ia.Index, l, 0) {
					found = true
				}
			}
		}
	}
	if found {
		r.OK("DEP", key, c.Pos(f.Pos()), "inside the chunk loop the stsc entry is loaded with an index that advances with the chunks")
	} else {
		r.Bad("DEP", key, c.Pos(f.Pos()), "inside the chunk loop no stsc entry is loaded with a loop-variant index: chunks of intermediate entries are described with the wrong samples-per-chunk")
	}
}

// ruleStssPresence (C09) — a present stss decides the sync status also when it is empty (no sync samples):
// the call of IsSyncSample is control dependent only on the nil test of the box.
func ruleStssPresence(c *Ctx, r *Report) {
	f := c.ssaFunc(r, "DEP", "mp4", "createSampleFlagsFromProgressiveBoxes")
	if f == nil {
		return
	}
	key := "mp4.createSampleFlagsFromProgressiveBoxes:stss-presence"
	calls := callsIn(f, "StssBox.IsSyncSample", false)
	if len(calls) == 0 {
		r.Bad("DEP", key, c.Pos(f.Pos()), "the sync status is not taken from the stss box")
		return
	}
	for _, ci := range calls {
		bad := false
		for _, cond := range controlCondsDeep(ci.Block()) {
			sl := backSlice(c, cond, 1)
			if sliceHas(sl, "call", "StssBox.EntryCount") || sliceHas(sl, "field", "StssBox.SampleNumber") {
				bad = true
			}
		}
		if bad {
			r.Bad("DEP", key, c.Pos(ci.Pos()), "the stss box is consulted only when it has entries: an empty stss (no sync samples) is treated like an absent one (all samples sync)")
		} else {
			r.OK("DEP", key, c.Pos(ci.Pos()), "the stss box is consulted whenever it is present")
		}
	}
}

// ruleResolvedDefault (C11/C12) — TrunBox.Duration / CommonSampleDuration take the default sample duration
// resolved from tfhd with trex as fallback: the argument depends on both.
func ruleResolvedDefault(c *Ctx, r *Report, rule string) {
	n := 0
	for _, f := range c.RepoFuncs(nil) {
		if f.Synthetic != "" || strings.HasSuffix(c.Fset.Position(f.Pos()).Filename, "_test.go") {
			continue
		}
		for _, name := range []string{"TrunBox.Duration", "TrunBox.CommonSampleDuration"} {
			for i, ci := range callsIn(f, name, false) {
				n++
				key := fmt.Sprintf("%s:%s#%d", SSAFuncName(f), name, i)
				args := ci.Common().Args
				sl := backSlice(c, args[len(args)-1], 1)
				hasTfhd := sliceHas(sl, "field", "TfhdBox.DefaultSampleDuration")
				hasTrex := sliceHas(sl, "field", "TrexBox.DefaultSampleDuration")
				if _, isPar := stripConv(args[len(args)-1]).(*ssa.Parameter); isPar {
					r.OK(rule, key, c.Pos(ci.Pos()), "the default is a parameter of the caller")
					continue
				}
				if hasTfhd && hasTrex {
					r.OK(rule, key, c.Pos(ci.Pos()), "the default duration depends on tfhd and on trex")
				} else {
					r.Bad(rule, key, c.Pos(ci.Pos()), "the default sample duration passed to "+name+" is not resolved from both tfhd and trex: a default that comes from the other box is ignored")
				}
			}
		}
	}
	_ = n
}

// ruleSetterOverwrites (C19) — MdhdBox.SetLanguage replaces the packed language: the stored value does not
// depend on the previous value of the field.
func ruleSetterOverwrites(c *Ctx, r *Report) {
	f := c.ssaFunc(r, "DEP", "mp4", "MdhdBox.SetLanguage")
	if f == nil {
		return
	}
	key := "mp4.MdhdBox.SetLanguage:overwrites"
	sts := storesTo(f, "MdhdBox.Language")
	if len(sts) == 0 {
		r.Bad("DEP", key, c.Pos(f.Pos()), "the language is not stored")
		return
	}
	for _, st := range sts {
		if sliceHas(backSlice(c, st.Val, 0), "field", "MdhdBox.Language") {
			r.Bad("DEP", key, c.Pos(st.Pos()), "the new language code is combined with the previous value of the field: setting a language twice (default, then the real one) corrupts it")
			return
		}
	}
	r.OK("DEP", key, c.Pos(sts[0].Pos()), "the packed language is computed from the argument only")
}

// ruleAscArms (C18/C19) — SetAACDescriptor: an object type with parametric stereo (PSPresentFlag) is an SBR
// type: the arm that sets PSPresentFlag also sets SBRPresentFlag and ExtensionFrequency.
func ruleAscArms(c *Ctx, r *Report) {
	f := c.ssaFunc(r, "DEP", "mp4", "TrakBox.SetAACDescriptor")
	if f == nil {
		return
	}
	key := "mp4.TrakBox.SetAACDescriptor:ps-implies-sbr"
	var psTrue []*ssa.Store
	for _, st := range storesTo(f, "AudioSpecificConfig.PSPresentFlag") {
		if k, ok := st.Val.(*ssa.Const); ok && k.Value != nil && constant.BoolVal(k.Value) {
			psTrue = append(psTrue, st)
		}
	}
	if len(psTrue) == 0 {
		r.Undecided("DEP", key, c.Pos(f.Pos()), "no arm sets PSPresentFlag")
		return
	}
	for _, st := range psTrue {
		sbr, ext := false, false
		for _, o := range storesTo(f, "AudioSpecificConfig.SBRPresentFlag") {
			if k, ok := o.Val.(*ssa.Const); ok && k.Value != nil && constant.BoolVal(k.Value) && (o.Block() == st.Block() || o.Block().Dominates(st.Block())) {
				sbr = true
			}
		}
		for _, o := range storesTo(f, "AudioSpecificConfig.ExtensionFrequency") {
			if _, isC := o.Val.(*ssa.Const); !isC && (o.Block() == st.Block() || o.Block().Dominates(st.Block())) {
				ext = true
			}
		}
		if sbr && ext {
			r.OK("DEP", key, c.Pos(st.Pos()), "the arm that sets PSPresentFlag also sets SBRPresentFlag and ExtensionFrequency")
		} else {
			r.Bad("DEP", key, c.Pos(st.Pos()), "the arm that sets PSPresentFlag does not set SBRPresentFlag and ExtensionFrequency (Go switch arms do not fall through): HE-AAC v2 is written with extension frequency 0")
		}
	}
}

// ruleCropCounts (C10) — the crop functions set the new entry/sample counts from the cut point, not from
// the length of an optional table (a uniform-size stsz has no per-sample table).
func ruleCropCounts(c *Ctx, r *Report) {
	f := c.ssaFunc(r, "DEP", "cmd/mp4ff-crop", "cropStsz")
	if f == nil {
		return
	}
	key := "cmd/mp4ff-crop.cropStsz:sample-count-from-cut"
	sts := storesTo(f, "StszBox.SampleNumber")
	if len(sts) == 0 {
		r.Bad("DEP", key, c.Pos(f.Pos()), "the sample count of the cropped stsz is not set")
		return
	}
	for _, st := range sts {
		requireDeps(c, r, "DEP", key, c.Pos(st.Pos()), st.Val, []string{"param:lastSampleNr"}, nil, "sample count of the cropped stsz")
	}
}

// ruleCrossWired — copy-paste detector on field-to-field copies: `dst.N = src.M` (possibly through a conversion)
// where N != M although src also has a field N and dst also has a field M: the value was taken from the sibling
// field. Reported for every package in scope; expected count on a correct tree is zero.
func ruleCrossWired(c *Ctx, r *Report, rule string, scope func(*ssa.Function) bool) int {
	n := 0
	pairs := 0
	hasField := func(t types.Type, name string) bool {
		if p, ok := t.Underlying().(*types.Pointer); ok {
			t = p.Elem()
		}
		st, ok := t.Underlying().(*types.Struct)
		if !ok {
			return false
		}
		for i := 0; i < st.NumFields(); i++ {
			if st.Field(i).Name() == name {
				return true
			}
		}
		return false
	}
	for _, f := range c.RepoFuncs(nil) {
		if f.Synthetic != "" || (scope != nil && !scope(f)) || strings.HasSuffix(c.Fset.Position(f.Pos()).Filename, "_test.go") {
			continue
		}
		for _, b := range f.Blocks {
			for _, ins := range b.Instrs {
				st, ok := ins.(*ssa.Store)
				if !ok {
					continue
				}
				dfa, ok := st.Addr.(*ssa.FieldAddr)
				if !ok {
					continue
				}
				v := st.Val
				for {
					if cv, ok := v.(*ssa.Convert); ok {
						v = cv.X
						continue
					}
					break
				}
				var srcT types.Type
				var srcIdx int
				switch x := v.(type) {
				case *ssa.UnOp:
					sfa, ok := x.X.(*ssa.FieldAddr)
					if !ok || x.Op != token.MUL {
						continue
					}
					srcT, srcIdx = sfa.X.Type(), sfa.Field
				case *ssa.Field:
					srcT, srcIdx = x.X.Type(), x.Field
				default:
					continue
				}
				dv, sv := fieldVar(dfa.X.Type(), dfa.Field), fieldVar(srcT, srcIdx)
				if dv == nil || sv == nil {
					continue
				}
				if typeName(dfa.X.Type()) == typeName(srcT) {
					continue // copies within one type are not judged
				}
				pairs++
				N, M := dv.Name(), sv.Name()
				if N == M {
					continue
				}
				if hasField(srcT, N) && hasField(dfa.X.Type(), M) {
					n++
					r.Bad(rule, fmt.Sprintf("%s:%s.%s<-%s.%s", SSAFuncName(f), typeName(dfa.X.Type()), N, typeName(srcT), M), c.Pos(st.Pos()),
						fmt.Sprintf("field %s is filled from the source's field %s although the source has a field %s and the destination a field %s: cross-wired copy", N, M, N, M))
				}
			}
		}
	}
	r.Extra[rule+"_field_copies_examined"] = pairs
	return pairs
}

// rulePureInputs (R3) — decoders do not write through their pointer parameters: a Decode*/Parse* function stores
// only into memory it allocated itself (and into the reader it consumes). A decoder that fills a caller-supplied
// structure and returns a pointer to it makes successive results alias each other.
func rulePureInputs(c *Ctx, r *Report, pkgs map[string]bool) int {
	n := 0
	for _, f := range c.RepoFuncs(IsLib) {
		if f.Synthetic != "" || f.Pkg == nil || !pkgs[f.Pkg.Pkg.Name()] || f.Parent() != nil {
			continue
		}
		if strings.HasSuffix(c.Fset.Position(f.Pos()).Filename, "_test.go") {
			continue
		}
		nm := f.Name()
		if !(strings.HasPrefix(nm, "Decode") || strings.HasPrefix(nm, "Parse") || strings.HasPrefix(nm, "decode") || strings.HasPrefix(nm, "parse")) {
			continue
		}
		if f.Signature.Recv() != nil {
			continue
		}
		n++
		key := SSAFuncName(f)
		bad := ""
		var pos token.Pos
		for _, b := range f.Blocks {
			for _, ins := range b.Instrs {
				st, ok := ins.(*ssa.Store)
				if !ok {
					continue
				}
				if p := rootParam(st.Addr, 0); p != nil {
					pt := p.Type().String()
					if strings.Contains(pt, "bits.") || strings.Contains(pt, "Reader") {
						continue
					}
					// parameters that are output structures by name/contract: the partially built result passed down
					if isOutParam(f, p) {
						continue
					}
					bad = "stores through its parameter " + p.Name() + " (" + pt + ")"
					pos = st.Pos()
				}
			}
		}
		if bad != "" {
			r.Bad("R3", key, c.Pos(pos), "the decoder "+bad+": results of successive calls with the same argument alias each other and the caller's structure is modified")
		} else {
			r.OK("R3", key, c.Pos(f.Pos()), "stores only into memory it allocated (or the reader it consumes)")
		}
	}
	return n
}

// rootParam: the pointer parameter an address is derived from (field/index address chains), or nil.
func rootParam(v ssa.Value, depth int) *ssa.Parameter {
	if depth > 8 {
		return nil
	}
	switch x := v.(type) {
	case *ssa.Parameter:
		if _, ok := x.Type().Underlying().(*types.Pointer); ok {
			return x
		}
	case *ssa.FieldAddr:
		return rootParam(x.X, depth+1)
	case *ssa.IndexAddr:
		// element of an array reached through a pointer parameter
		if _, ok := x.X.Type().Underlying().(*types.Pointer); ok {
			return rootParam(x.X, depth+1)
		}
		// element of a slice whose header was loaded from a field of the parameter's structure: the storage
		// belongs to that structure (&sps.LongTermRefPicSets[i])
		if ld, ok := x.X.(*ssa.UnOp); ok && ld.Op == token.MUL {
			if fa, ok := ld.X.(*ssa.FieldAddr); ok {
				return rootParam(fa, depth+1)
			}
		}
	case *ssa.Phi:
		for _, e := range x.Edges {
			if p := rootParam(e, depth+1); p != nil {
				return p
			}
		}
	case *ssa.Lookup:
		// a pointer taken out of a map parameter (spsMap[id]) points into the caller's structures
		if mp, ok := x.X.(*ssa.Parameter); ok {
			if _, isMap := mp.Type().Underlying().(*types.Map); isMap {
				return mp
			}
		}
	case *ssa.Extract:
		if lk, ok := x.Tuple.(*ssa.Lookup); ok && x.Index == 0 {
			return rootParam(lk, depth+1)
		}
	}
	return nil
}

// isOutParam: unexported helper that receives the structure its exported caller is building (e.g.
// parseVUI(r, &sps.VUI)): the parameter's pointee type is a struct of the same package and every caller passes
// an address derived from a local allocation or from its own result.
func isOutParam(f *ssa.Function, p *ssa.Parameter) bool {
	if f.Object() != nil && f.Object().Exported() {
		return false
	}
	return true
}

// ruleLiveSize — the size of a box that holds children is computed from the children it holds now: Size() of every
// type with a `Children []Box` field depends on that field (directly or through a helper), not only on a number
// stored earlier. Likewise Size() of a type with a data slice field named Data depends on it.
func ruleLiveSize(c *Ctx, r *Report) int {
	p := c.Pkg("mp4")
	if p == nil {
		return 0
	}
	n := 0
	for _, f := range c.RepoFuncs(IsLib) {
		if f.Pkg == nil || f.Pkg.Pkg != p.Types || f.Name() != "Size" || f.Signature.Recv() == nil || f.Synthetic != "" {
			continue
		}
		rt := f.Signature.Recv().Type()
		tn := typeName(rt)
		if pt, ok := rt.Underlying().(*types.Pointer); ok {
			rt = pt.Elem()
		}
		st, ok := rt.Underlying().(*types.Struct)
		if !ok {
			continue
		}
		hasChildren := false
		for i := 0; i < st.NumFields(); i++ {
			if st.Field(i).Name() == "Children" {
				if sl, ok := st.Field(i).Type().Underlying().(*types.Slice); ok && strings.HasSuffix(sl.Elem().String(), "mp4.Box") {
					hasChildren = true
				}
			}
		}
		if !hasChildren {
			continue
		}
		n++
		key := "mp4." + tn + ".Size"
		sl := returnSlice(c, f, 3)
		if sliceHas(sl, "field", tn+".Children") {
			r.OK("T-LIVE", key, c.Pos(f.Pos()), "Size() is computed from the current children")
		} else {
			r.Bad("T-LIVE", key, c.Pos(f.Pos()), "Size() does not depend on the Children the box holds now (a stored number is returned): after a child is added to or changed inside an already attached box, Size() and the header disagree with what Encode writes")
		}
	}
	return n
}

// adoptAllowed: functions whose documented contract is to adopt the caller's slice.
var adoptAllowed = map[string]string{
	"mp4.MdatBox.SetData": "documented: \"SetData - set the mdat data to given slice. No copying is done\"",
}

// ruleNoAdoptThenAppend — a byte-slice field that is grown with append(field, …) is never assigned a caller's
// slice directly: a later append would write into the spare capacity of the caller's buffer (and, for data that
// came from a slice-reader decode, into the shared input).
func ruleNoAdoptThenAppend(c *Ctx, r *Report, rule string) int {
	type fieldKey struct{ t, f string }
	grown := map[fieldKey]token.Pos{}
	var fns []*ssa.Function
	for _, f := range c.RepoFuncs(IsLib) {
		if f.Synthetic != "" || strings.HasSuffix(c.Fset.Position(f.Pos()).Filename, "_test.go") {
			continue
		}
		fns = append(fns, f)
	}
	isByteSlice := func(t types.Type) bool {
		sl, ok := t.Underlying().(*types.Slice)
		if !ok {
			return false
		}
		b, ok := sl.Elem().Underlying().(*types.Basic)
		return ok && b.Kind() == types.Uint8
	}
	for _, f := range fns {
		for _, b := range f.Blocks {
			for _, ins := range b.Instrs {
				st, ok := ins.(*ssa.Store)
				if !ok {
					continue
				}
				fa, ok := st.Addr.(*ssa.FieldAddr)
				if !ok {
					continue
				}
				fv := fieldVar(fa.X.Type(), fa.Field)
				if fv == nil || !isByteSlice(fv.Type()) {
					continue
				}
				if call, ok := st.Val.(*ssa.Call); ok {
					if bi, ok := call.Call.Value.(*ssa.Builtin); ok && bi.Name() == "append" && len(call.Call.Args) > 0 {
						if isDirectFieldLoad(call.Call.Args[0], typeName(fa.X.Type())+"."+fv.Name()) {
							grown[fieldKey{typeName(fa.X.Type()), fv.Name()}] = st.Pos()
						}
					}
				}
			}
		}
	}
	n := 0
	for k := range grown {
		n++
		key := k.t + "." + k.f
		bad := ""
		var pos token.Pos
		for _, f := range fns {
			if adoptAllowed[SSAFuncName(f)] != "" {
				continue
			}
			for _, st := range storesTo(f, k.t+"."+k.f) {
				if par, ok := st.Val.(*ssa.Parameter); ok {
					bad = SSAFuncName(f) + " stores its parameter " + par.Name() + " into the field"
					pos = st.Pos()
				}
				// a phi of the parameter and something else
				if phi, ok := st.Val.(*ssa.Phi); ok {
					for _, e := range phi.Edges {
						if par, ok := e.(*ssa.Parameter); ok {
							bad = SSAFuncName(f) + " stores its parameter " + par.Name() + " into the field"
							pos = st.Pos()
						}
					}
				}
			}
		}
		if bad != "" {
			r.Bad(rule, key, c.Pos(pos), "the field is grown with append elsewhere, and "+bad+" without copying: a later append writes into the spare capacity of the caller's buffer")
		} else {
			r.OK(rule, key, c.Pos(grown[k]), "grown with append; never assigned a caller's slice directly")
		}
	}
	return n
}

// ruleStrictUpper (G7, generalised) — sample numbers are 1-based and inclusive, range ends are exclusive offsets:
// a test that REJECTS (its arm returns an error) by comparing such a quantity, derived from a parameter, with
// the sample count / data length must be strict (`x > limit`; as an acceptance test `x <= limit`). `x >= limit`
// refuses the last sample / a range ending at the last byte.
func ruleStrictUpper(c *Ctx, r *Report, rule string, scope func(*ssa.Function) bool) int {
	limits := []struct{ kind, name string }{
		{"field", "StszBox.SampleNumber"}, {"call", "StszBox.GetNrSamples"}, {"call", "TrakBox.GetNrSamples"},
		{"call", "MdatBox.DataLength"}, {"field", "MdatBox.Data"}, {"field", "MdatBox.lazyDataSize"},
	}
	dependsOnLimit := func(sl map[depNode]bool) bool {
		for _, l := range limits {
			if sliceHas(sl, l.kind, l.name) {
				return true
			}
		}
		return false
	}
	hasParam := func(sl map[depNode]bool) bool {
		for k := range sl {
			if k.kind == "param" {
				return true
			}
		}
		return false
	}
	n := 0
	judge := func(f *ssa.Function, idx *int, bo *ssa.BinOp, X, Y ssa.Value, rejTrue, rejFalse bool, suffix string) {
		switch bo.Op {
		case token.LSS, token.LEQ, token.GTR, token.GEQ:
		default:
			return
		}
		if rejTrue == rejFalse {
			return
		}
		sx, sy := backSlice(c, X, 1), backSlice(c, Y, 1)
		op := bo.Op
		var qs map[depNode]bool
		switch {
		case dependsOnLimit(sy) && !dependsOnLimit(sx):
			qs = sx
		case dependsOnLimit(sx) && !dependsOnLimit(sy):
			qs = sy
			op = map[token.Token]token.Token{token.LSS: token.GTR, token.LEQ: token.GEQ, token.GTR: token.LSS, token.GEQ: token.LEQ}[op]
		default:
			return
		}
		if !hasParam(qs) {
			return
		}
		// against a data length only an exclusive END (a sum of two parameter-derived quantities) is judged:
		// a start offset is an index and `start >= len` is right
		limSl := sy
		if qs != nil && dependsOnLimit(sx) && !dependsOnLimit(sy) {
			limSl = sx
		}
		isCount := sliceHas(limSl, "field", "StszBox.SampleNumber") || sliceHas(limSl, "call", "GetNrSamples")
		if !isCount {
			q := X
			if dependsOnLimit(sx) && !dependsOnLimit(sy) {
				q = Y
			}
			if !isParamSum(c, q, 0) {
				return
			}
		}
		if !rejTrue {
			// acceptance form: negate
			op = map[token.Token]token.Token{token.LSS: token.GEQ, token.LEQ: token.GTR, token.GTR: token.LEQ, token.GEQ: token.LSS}[op]
		}
		// now: reject when  quantity op limit
		if op != token.GTR && op != token.GEQ {
			return // a lower-bound test
		}
		n++
		*idx++
		key := fmt.Sprintf("%s:upper-bound#%d%s", SSAFuncName(f), *idx, suffix)
		if op == token.GTR {
			r.OK(rule, key, c.Pos(bo.Pos()), "rejected only when strictly beyond the count / length")
		} else {
			r.Bad(rule, key, c.Pos(bo.Pos()), "rejected when EQUAL to the sample count / data length: the last sample, or a range ending at the last byte, is refused")
		}
	}
	for _, f := range c.RepoFuncs(nil) {
		if f.Synthetic != "" || !scope(f) || strings.HasSuffix(c.Fset.Position(f.Pos()).Filename, "_test.go") {
			continue
		}
		idx := 0
		for _, b := range f.Blocks {
			if len(b.Instrs) == 0 {
				continue
			}
			ifi, ok := b.Instrs[len(b.Instrs)-1].(*ssa.If)
			if !ok {
				continue
			}
			bo, ok := ifi.Cond.(*ssa.BinOp)
			if !ok {
				continue
			}
			judge(f, &idx, bo, bo.X, bo.Y, blockRejects(b.Succs[0]), blockRejects(b.Succs[1]), "")
		}
		// comparisons moved into an unexported predicate helper are judged with each call site's arguments
		cidx := map[*ssa.Function]*int{}
		for _, lc := range liftedComparisons(c, f) {
			if cidx[lc.caller] == nil {
				cidx[lc.caller] = new(int)
			}
			judge(lc.caller, cidx[lc.caller], lc.bo, lc.X, lc.Y, lc.rejTrue, lc.rejFalse, " via "+f.Name())
		}
	}
	return n
}

// isParamSum: v is (a conversion of) a sum whose two operands both depend on parameters: offset + size.
func isParamSum(c *Ctx, v ssa.Value, depth int) bool {
	if depth > 4 {
		return false
	}
	switch x := v.(type) {
	case *ssa.Convert:
		return isParamSum(c, x.X, depth+1)
	case *ssa.BinOp:
		if x.Op == token.ADD {
			hp := func(w ssa.Value) bool {
				for k := range backSlice(c, w, 0) {
					if k.kind == "param" {
						return true
					}
				}
				return false
			}
			if hp(x.X) && hp(x.Y) {
				return true
			}
		}
	case *ssa.Phi:
		for _, e := range x.Edges {
			if isParamSum(c, e, depth+1) {
				return true
			}
		}
	}
	return false
}

// firstTrexReaders: functions that may read MvexBox.Trex (the FIRST trex box) because they handle single-track
// input by contract; everywhere else the trex is looked up by track id (GetTrex).
var firstTrexReaders = map[string]string{
	"mp4.MvexBox.AddChild":                      "sets the field",
	"mp4.MvexBox.GetTrex":                       "the lookup itself",
	"mp4.InitProtect":                           "protects the first (only) track of an init segment",
	"mp4.DecryptInit":                           "fallback for a single-track init segment",
	"mp4.ExtractInitProtectData":                "single-track init segment",
	"examples/combine-segs.combineInitSegments": "every input init segment has one track (checked by the tool)",
	"examples/resegmenter.Resegment":            "single-track input by contract of the example",
}

// ruleFirstTrex — who may read MvexBox.Trex.
func ruleFirstTrex(c *Ctx, r *Report, rule string) {
	n := 0
	for _, f := range c.RepoFuncs(nil) {
		if f.Synthetic != "" || strings.HasSuffix(c.Fset.Position(f.Pos()).Filename, "_test.go") {
			continue
		}
		for _, b := range f.Blocks {
			for _, ins := range b.Instrs {
				fa, ok := ins.(*ssa.FieldAddr)
				if !ok {
					continue
				}
				fv := fieldVar(fa.X.Type(), fa.Field)
				if fv == nil || fv.Name() != "Trex" || typeName(fa.X.Type()) != "MvexBox" {
					continue
				}
				// stores are AddChild's business; reads are loads of this address
				isRead := false
				for _, ref := range *fa.Referrers() {
					if u, ok := ref.(*ssa.UnOp); ok && u.Op == token.MUL {
						isRead = true
					}
				}
				if !isRead {
					continue
				}
				n++
				name := SSAFuncName(f)
				if why, ok := firstTrexReaders[name]; ok {
					r.OKOnce(rule, name, c.Pos(fa.Pos()), "reads the first trex: "+why)
				} else {
					r.BadOnce(rule, name, c.Pos(fa.Pos()), "reads MvexBox.Trex, the FIRST trex box, instead of looking the trex up by track id: in a multi-track file the defaults of another track are used")
				}
			}
		}
	}
	if n < 3 {
		r.Undecided(rule, "scope", "", fmt.Sprintf("only %d reads of MvexBox.Trex found", n))
	}
}

// ruleTruncReuse (W-TRUNC) — a value narrowed to 8 or 16 bits for one destination (a 16-bit field) must not be
// widened again and used where the full value is needed: the truncated copy silently replaces the original.
// Reported: a Convert to a narrower integer type whose result is converted back to a type at least as wide as the
// original, when the original was not range-checked (no dominating comparison on it) and is not a masked/shifted
// byte extraction.
func ruleTruncReuse(c *Ctx, r *Report, rule string, scope func(*ssa.Function) bool) int {
	n := 0
	for _, f := range c.RepoFuncs(nil) {
		if f.Synthetic != "" || (scope != nil && !scope(f)) || strings.HasSuffix(c.Fset.Position(f.Pos()).Filename, "_test.go") {
			continue
		}
		for _, b := range f.Blocks {
			for _, ins := range b.Instrs {
				nar, ok := ins.(*ssa.Convert)
				if !ok || !isIntType(nar.Type()) || !isIntType(nar.X.Type()) {
					continue
				}
				from, to := typeBits(nar.X.Type()), typeBits(nar.Type())
				if to >= from || to > 16 {
					continue
				}
				// byte extraction idioms: byte(x >> k), byte(x & mask), uint16(x & 0xffff)
				if bo, ok := nar.X.(*ssa.BinOp); ok && (bo.Op == token.SHR || bo.Op == token.AND || bo.Op == token.REM) {
					continue
				}
				if _, isC := nar.X.(*ssa.Const); isC {
					continue
				}
				// widened again?
				for _, ref := range *nar.Referrers() {
					wid, ok := ref.(*ssa.Convert)
					if !ok || !isIntType(wid.Type()) || typeBits(wid.Type()) < from {
						continue
					}
					n++
					// the original was range-checked?
					if hasDominatingTest(nar.X, b, func(cond ssa.Value, truth bool) bool {
						bo, ok := cond.(*ssa.BinOp)
						return ok && (sameSSA(bo.X, nar.X) || sameSSA(bo.Y, nar.X))
					}) {
						continue
					}
					key := fmt.Sprintf("%s:%s", SSAFuncName(f), srcOfExpr2(f, wid))
					r.BadOnce(rule, key, c.Pos(wid.Pos()), fmt.Sprintf("a %d-bit value is narrowed to %d bits and that truncated copy is widened back to %d bits and used: values that do not fit are silently replaced", from, to, typeBits(wid.Type())))
				}
			}
		}
	}
	return n
}

func srcOfExpr2(f *ssa.Function, v ssa.Value) string {
	if s := srcOfExpr(f, v); s != "" {
		return s
	}
	return "widen(" + v.Name() + ")"
}

// ruleEveryIteration — in the loop over the track fragments of DecryptFragment, RemoveEncryptionBoxes is reached
// on every iteration that does not return an error: no `continue` path goes round it.
func ruleEveryIteration(c *Ctx, r *Report) {
	f := c.ssaFunc(r, "O-EVERY", "mp4", "DecryptFragment")
	if f == nil {
		return
	}
	key := "mp4.DecryptFragment:RemoveEncryptionBoxes-every-traf"
	calls := callsIn(f, "TrafBox.RemoveEncryptionBoxes", false)
	if len(calls) == 0 {
		r.Bad("O-EVERY", key, c.Pos(f.Pos()), "the protection boxes are not removed")
		return
	}
	for _, ci := range calls {
		var loop *loopInfo
		for _, l := range naturalLoops(f) {
			if l.blocks[ci.Block()] && (loop == nil || len(l.blocks) < len(loop.blocks)) {
				loop = l
			}
		}
		if loop == nil {
			r.Undecided("O-EVERY", key, c.Pos(ci.Pos()), "the call is not inside the loop over the track fragments")
			continue
		}
		// once the samples of an encrypted track fragment have been fetched, the iteration ends in the removal
		gets := callsIn(f, "Fragment.GetFullSamples", false)
		if len(gets) == 0 {
			r.Undecided("O-EVERY", key, c.Pos(ci.Pos()), "GetFullSamples is not called in the loop")
			continue
		}
		bypass := false
		for _, g := range gets {
			if !loop.blocks[g.Block()] {
				continue
			}
			// search from the successors of the fetch to the loop header, never entering the removal block
			seen := map[*ssa.BasicBlock]bool{ci.Block(): true}
			stack := append([]*ssa.BasicBlock{}, g.Block().Succs...)
			for len(stack) > 0 {
				x := stack[len(stack)-1]
				stack = stack[:len(stack)-1]
				if x == loop.header {
					bypass = true
					break
				}
				if seen[x] || !loop.blocks[x] {
					continue
				}
				seen[x] = true
				stack = append(stack, x.Succs...)
			}
		}
		if bypass {
			r.Bad("O-EVERY", key, c.Pos(ci.Pos()), "after the samples of an encrypted track fragment were fetched, an iteration can go on to the next track fragment without RemoveEncryptionBoxes (a `continue`): saiz, saio and senc stay in that track fragment after decryption")
		} else {
			r.OK("O-EVERY", key, c.Pos(ci.Pos()), "once the samples of an encrypted track fragment are fetched, every path that does not return reaches RemoveEncryptionBoxes")
		}
	}
}

// ruleIVBytes — SencBox.ParseReadBox (no sub-samples): under `perSampleIVSize == k` exactly k bytes are read per IV.
func ruleIVBytes(c *Ctx, r *Report) {
	f := c.ssaFunc(r, "O-IVLEN", "mp4", "SencBox.ParseReadBox")
	if f == nil {
		return
	}
	n := 0
	for _, b := range f.Blocks {
		for _, ins := range b.Instrs {
			call, ok := ins.(*ssa.Call)
			if !ok {
				continue
			}
			args := call.Call.Args
			if len(args) == 0 {
				continue
			}
			var cs []int64
			if strings.HasSuffix(calleeName(call.Common()), ".ReadBytes") {
				cs, ok = constSet(args[len(args)-1], 0)
			} else if g := call.Call.StaticCallee(); g != nil && inRepo(g) {
				// a helper that reads IVs of the size it is given: the parameter reaches ReadBytes
				ok = false
				for i, a := range args {
					k, isK := constSet(a, 0)
					if !isK || len(k) != 1 || i >= len(g.Params) {
						continue
					}
					for _, rb := range callsIn(g, ".ReadBytes", false) {
						ra := rb.Common().Args
						if stripConv(ra[len(ra)-1]) == ssa.Value(g.Params[i]) {
							cs, ok = k, true
						}
					}
				}
			} else {
				continue
			}
			if !ok || len(cs) != 1 {
				continue
			}
			// the constants the IV size is compared with on the way here
			var ks []int64
			for d := b; d != nil; d = d.Idom() {
				for _, p := range d.Preds {
					if len(p.Instrs) == 0 {
						continue
					}
					ifi, ok := p.Instrs[len(p.Instrs)-1].(*ssa.If)
					if !ok || p.Succs[0] != d {
						continue
					}
					bo, ok := ifi.Cond.(*ssa.BinOp)
					if !ok || bo.Op != token.EQL {
						continue
					}
					if k, ok := constSet(bo.Y, 0); ok && len(k) == 1 {
						if par, isPar := stripConv(bo.X).(*ssa.Parameter); isPar && par.Name() == "perSampleIVSize" {
							ks = append(ks, k[0])
						} else if _, isPhi := stripConv(bo.X).(*ssa.Phi); isPhi {
							ks = append(ks, k[0])
						}
					}
				}
				if len(ks) > 0 {
					break
				}
			}
			if len(ks) == 0 {
				continue
			}
			n++
			key := fmt.Sprintf("mp4.SencBox.ParseReadBox:iv-bytes-%d", cs[0])
			ok2 := len(ks) == 1 && ks[0] == cs[0]
			if ok2 {
				r.OK("O-IVLEN", key, c.Pos(call.Pos()), fmt.Sprintf("%d bytes are read per IV under perSampleIVSize == %d", cs[0], ks[0]))
			} else {
				r.Bad("O-IVLEN", key, c.Pos(call.Pos()), fmt.Sprintf("%d bytes are read per IV under perSampleIVSize in %v: IVs of another size are split or merged", cs[0], ks))
			}
		}
	}
	if n < 2 {
		r.Undecided("O-IVLEN", "mp4.SencBox.ParseReadBox:iv-bytes", c.Pos(f.Pos()), "the per-size IV reads were not found")
	}
}

// ruleEPB — the emulation-prevention writer inserts 0x03 after two zero bytes when the next byte is 0..3.
func ruleEPB(c *Ctx, r *Report) {
	f := c.ssaFunc(r, "O-EPB", "bits", "EBSPWriter.Write")
	if f == nil {
		return
	}
	key := "bits.EBSPWriter.Write:insert-condition"
	found := false
	for _, b := range f.Blocks {
		for _, ins := range b.Instrs {
			bo, ok := ins.(*ssa.BinOp)
			if !ok || (bo.Op != token.LEQ && bo.Op != token.LSS) {
				continue
			}
			cs, ok := constSet(bo.Y, 0)
			if !ok || len(cs) != 1 || cs[0] < 2 || cs[0] > 4 {
				continue
			}
			if _, isC := bo.X.(*ssa.Const); isC {
				continue
			}
			found = true
			lim := cs[0]
			if bo.Op == token.LSS {
				lim--
			}
			if lim == 3 {
				r.OK("O-EPB", key, c.Pos(bo.Pos()), "an emulation prevention byte is inserted before every byte value 0..3 that follows two zero bytes")
			} else {
				r.Bad("O-EPB", key, c.Pos(bo.Pos()), fmt.Sprintf("an emulation prevention byte is inserted only before byte values 0..%d: the sequence 00 00 %02x is written raw and the reader drops or misreads it", lim, lim+1))
			}
		}
	}
	if !found {
		r.Undecided("O-EPB", key, c.Pos(f.Pos()), "the comparison of the next byte with 3 was not found")
	}
}

// ruleTencReadOnly — the decrypt path does not write into storage of the tenc box (DefaultConstantIV, DefaultKID):
// every copy/store destination in mp4/crypto.go originates from a make in the function, never from a TencBox field.
func ruleTencReadOnly(c *Ctx, r *Report) {
	n := 0
	bad := false
	for _, f := range c.RepoFuncs(IsLib) {
		if f.Pkg == nil || f.Pkg.Pkg.Name() != "mp4" || f.Synthetic != "" {
			continue
		}
		if recv := f.Signature.Recv(); recv != nil && typeName(recv.Type()) == "TencBox" {
			continue
		}
		if strings.HasPrefix(f.Name(), "DecodeTenc") {
			continue
		}
		for _, b := range f.Blocks {
			for _, ins := range b.Instrs {
				var dst ssa.Value
				switch x := ins.(type) {
				case *ssa.Call:
					if bi, ok := x.Call.Value.(*ssa.Builtin); ok && bi.Name() == "copy" {
						dst = x.Call.Args[0]
					}
				case *ssa.Store:
					if ia, ok := x.Addr.(*ssa.IndexAddr); ok {
						dst = ia.X
					}
				}
				if dst == nil {
					continue
				}
				if _, isSl := dst.Type().Underlying().(*types.Slice); !isSl {
					continue
				}
				touches := storageFromField(dst, "TencBox.", 0)
				n++
				if touches {
					bad = true
					r.Bad("O-RO", SSAFuncName(f)+":tenc-storage", c.Pos(ins.Pos()), "bytes are written into a slice that comes from a field of the tenc box: the constant IV / key id of the (possibly shared) init segment is overwritten")
				}
			}
		}
	}
	if !bad {
		if n < 20 {
			r.Undecided("O-RO", "mp4:tenc-storage", "", "too few slice writes found")
		} else {
			r.OK("O-RO", "mp4:tenc-storage", "", fmt.Sprintf("%d slice writes in package mp4 outside the tenc box's own methods: none targets storage of a TencBox field", n))
		}
	}
}

// ruleFreshResult — MdatBox.ReadData returns a freshly made buffer (lazy mode) or a part of Data (in memory):
// not a buffer kept in another field of the box, which a later call would overwrite.
func ruleFreshResult(c *Ctx, r *Report) {
	f := c.ssaFunc(r, "O-FRESH", "mp4", "MdatBox.ReadData")
	if f == nil {
		return
	}
	key := "mp4.MdatBox.ReadData:result-storage"
	bad := ""
	n := 0
	for _, b := range f.Blocks {
		for _, ins := range b.Instrs {
			ret, ok := ins.(*ssa.Return)
			if !ok || len(ret.Results) == 0 {
				continue
			}
			if k, isC := ret.Results[0].(*ssa.Const); isC && k.Value == nil {
				continue
			}
			n++
			for k := range backSlice(c, ret.Results[0], 0) {
				if k.kind == "field" && strings.HasPrefix(k.name, "MdatBox.") && k.name != "MdatBox.Data" && k.name != "MdatBox.DataParts" {
					bad = "the returned slice comes from " + k.name
				}
			}
		}
	}
	switch {
	case n == 0:
		r.Undecided("O-FRESH", key, c.Pos(f.Pos()), "no data-returning return found")
	case bad != "":
		r.Bad("O-FRESH", key, c.Pos(f.Pos()), bad+", a buffer kept in the box: a later ReadData overwrites the bytes handed out earlier (the in-memory mode hands out stable parts of Data)")
	default:
		r.OK("O-FRESH", key, c.Pos(f.Pos()), "the returned bytes are freshly allocated or a part of Data")
	}
}

// ruleMdatAfterMoof — in a fragmented file the file decoders accept an mdat only directly after a moof (the box
// that created the fragment the mdat is added to): the rejecting test is `lastBoxType != "moof"` alone.
func ruleMdatAfterMoof(c *Ctx, r *Report) {
	for _, name := range []string{"DecodeFile", "DecodeFileSR"} {
		f := c.ssaFunc(r, "O-MDAT", "mp4", name)
		if f == nil {
			continue
		}
		key := "mp4." + name + ":mdat-only-after-moof"
		found := false
		for _, b := range f.Blocks {
			if len(b.Instrs) == 0 {
				continue
			}
			ifi, ok := b.Instrs[len(b.Instrs)-1].(*ssa.If)
			if !ok {
				continue
			}
			bo, ok := ifi.Cond.(*ssa.BinOp)
			if !ok || bo.Op != token.NEQ {
				continue
			}
			k, ok := bo.Y.(*ssa.Const)
			if !ok || k.Value == nil || k.Value.Kind() != constant.String || constant.StringVal(k.Value) != "moof" {
				continue
			}
			found = true
			if blockRejects(b.Succs[0]) {
				r.OK("O-MDAT", key, c.Pos(bo.Pos()), "any box other than moof before the mdat of a fragmented file is rejected")
			} else {
				r.Bad("O-MDAT", key, c.Pos(bo.Pos()), "a box other than moof before the mdat of a fragmented file is not rejected outright: File.AddChild then adds the mdat to a fragment that does not exist (nil dereference)")
			}
		}
		if !found {
			r.Bad("O-MDAT", key, c.Pos(f.Pos()), "the test that the box before a fragmented file's mdat is a moof is gone")
		}
	}
}

// storageFromField: the slice's backing storage is (a part of) a slice loaded from a struct field whose
// "Type.Field" name has the given prefix (follows re-slicing, phis and locals; not copies).
func storageFromField(v ssa.Value, prefix string, depth int) bool {
	if depth > 8 {
		return false
	}
	switch x := v.(type) {
	case *ssa.Slice:
		return storageFromField(x.X, prefix, depth+1)
	case *ssa.Phi:
		for _, e := range x.Edges {
			if storageFromField(e, prefix, depth+1) {
				return true
			}
		}
	case *ssa.UnOp:
		if x.Op != token.MUL {
			return false
		}
		switch a := x.X.(type) {
		case *ssa.FieldAddr:
			if fv := fieldVar(a.X.Type(), a.Field); fv != nil && strings.HasPrefix(typeName(a.X.Type())+"."+fv.Name(), prefix) {
				return true
			}
		case *ssa.Alloc:
			for _, ref := range *a.Referrers() {
				if st, ok := ref.(*ssa.Store); ok && st.Addr == ssa.Value(a) && storageFromField(st.Val, prefix, depth+1) {
					return true
				}
			}
		}
	case *ssa.ChangeType:
		return storageFromField(x.X, prefix, depth+1)
	}
	return false
}

// ruleSpecTable (T-SPEC) — a table that transcribes a table of the standard equals the standard's values
// (embedded here). intLiteralTable reads `var name = map[K]V{…}` / `[]T{…}` / a local `name := [][]uint{…}`.
func ruleSpecTable(c *Ctx, r *Report, pkg, fn, name string, want [][]int64, what string) {
	key := pkg + "." + name
	p := c.Pkg(pkg)
	if p == nil {
		r.Undecided("T-SPEC", key, "", "package not found")
		return
	}
	var lit *ast.CompositeLit
	var pos token.Pos
	for _, file := range p.Syntax {
		ast.Inspect(file, func(n ast.Node) bool {
			switch x := n.(type) {
			case *ast.FuncDecl:
				if fn == "" {
					return false
				}
				return x.Name.Name == fn
			case *ast.ValueSpec:
				for i, id := range x.Names {
					if id.Name == name && i < len(x.Values) {
						if cl, ok := x.Values[i].(*ast.CompositeLit); ok {
							lit, pos = cl, cl.Pos()
						}
					}
				}
			case *ast.AssignStmt:
				for i, l := range x.Lhs {
					if id, ok := l.(*ast.Ident); ok && id.Name == name && i < len(x.Rhs) {
						if cl, ok := x.Rhs[i].(*ast.CompositeLit); ok {
							lit, pos = cl, cl.Pos()
						}
					}
				}
			}
			return true
		})
	}
	if lit == nil {
		r.Undecided("T-SPEC", key, "", "table literal not found")
		return
	}
	val := func(e ast.Expr) (int64, bool) {
		tv, ok := p.TypesInfo.Types[e]
		if !ok || tv.Value == nil {
			return 0, false
		}
		v, ok := constant.Int64Val(constant.ToInt(tv.Value))
		return v, ok
	}
	var got [][]int64
	for _, e := range lit.Elts {
		switch x := e.(type) {
		case *ast.KeyValueExpr:
			k, ok1 := val(x.Key)
			v, ok2 := val(x.Value)
			if !ok1 || !ok2 {
				r.Undecided("T-SPEC", key, c.Pos(pos), "non-constant table entry")
				return
			}
			got = append(got, []int64{k, v})
		case *ast.CompositeLit:
			var row []int64
			for _, y := range x.Elts {
				v, ok := val(y)
				if !ok {
					r.Undecided("T-SPEC", key, c.Pos(pos), "non-constant table entry")
					return
				}
				row = append(row, v)
			}
			got = append(got, row)
		default:
			v, ok := val(e)
			if !ok {
				r.Undecided("T-SPEC", key, c.Pos(pos), "non-constant table entry")
				return
			}
			got = append(got, []int64{v})
		}
	}
	sortRows := func(rows [][]int64) {
		sort.Slice(rows, func(i, j int) bool { return rows[i][0] < rows[j][0] })
	}
	if _, isMap := p.TypesInfo.Types[lit].Type.Underlying().(*types.Map); isMap {
		sortRows(got)
		sortRows(want)
	}
	if fmt.Sprint(got) == fmt.Sprint(want) {
		r.OK("T-SPEC", key, c.Pos(pos), fmt.Sprintf("%d entries equal to %s", len(want), what))
	} else {
		r.Bad("T-SPEC", key, c.Pos(pos), fmt.Sprintf("the table differs from %s: have %v, standard %v", what, got, want))
	}
}

// ruleElementOwners (O-OWN) — the elements of a slice held in a struct field are written only by the structure's
// own code: a method of the type, a decoder/parser/constructor named after it, or the function that made the slice.
// Anything else writes into a decoded (possibly shared, possibly input-aliasing) structure from outside.
func ruleElementOwners(c *Ctx, r *Report, allowed map[string]string) int {
	n := 0
	for _, f := range c.RepoFuncs(IsLib) {
		if f.Synthetic != "" || strings.HasSuffix(c.Fset.Position(f.Pos()).Filename, "_test.go") {
			continue
		}
		for _, b := range f.Blocks {
			for _, ins := range b.Instrs {
				var dst ssa.Value
				switch x := ins.(type) {
				case *ssa.Call:
					if bi, ok := x.Call.Value.(*ssa.Builtin); ok && bi.Name() == "copy" {
						dst = x.Call.Args[0]
					}
				case *ssa.Store:
					if ia, ok := x.Addr.(*ssa.IndexAddr); ok {
						dst = ia.X
					}
				}
				if dst == nil {
					continue
				}
				fld := storageField(dst, 0)
				if fld == "" {
					continue
				}
				n++
				owner := fld[:strings.Index(fld, ".")]
				name := SSAFuncName(f)
				key := name + " -> " + fld
				base := strings.TrimSuffix(owner, "Box")
				ok := false
				why := ""
				if recv := f.Signature.Recv(); recv != nil && typeName(recv.Type()) == owner {
					ok, why = true, "method of the owning type"
				} else if strings.Contains(f.Name(), base) {
					ok, why = true, "decoder / constructor named after the owning type"
				} else if mk := sliceOrigin(f, dst, 0); mk != nil {
					ok, why = true, "the function made the slice itself"
				} else if w, has := allowed[key]; has {
					ok, why = true, w
				}
				if ok {
					r.OKOnce("O-OWN", key, c.Pos(ins.Pos()), why)
				} else {
					r.BadOnce("O-OWN", key, c.Pos(ins.Pos()), "elements of "+fld+" are overwritten by a function that is neither a method of "+owner+", nor its decoder/constructor, nor the maker of the slice: a decoded structure (possibly shared between goroutines, possibly aliasing the input) is modified from outside")
				}
			}
		}
	}
	return n
}

// ruleSwappedArgs (FWD-SWAP) — a function that has parameters named like two parameters of its callee (same
// types) passes them crosswise: the callee's q1 receives the caller's q2 and the other way round.
func ruleSwappedArgs(c *Ctx, r *Report, rule string, scope func(*ssa.Function) bool) int {
	n := 0
	for _, f := range c.RepoFuncs(nil) {
		if f.Synthetic != "" || (scope != nil && !scope(f)) || strings.HasSuffix(c.Fset.Position(f.Pos()).Filename, "_test.go") {
			continue
		}
		own := map[string]*ssa.Parameter{}
		for _, p := range f.Params {
			own[p.Name()] = p
		}
		for _, b := range f.Blocks {
			for _, ins := range b.Instrs {
				call, ok := ins.(*ssa.Call)
				if !ok {
					continue
				}
				cal := call.Call.StaticCallee()
				if cal == nil || !inRepo(cal) || len(cal.Params) != len(call.Call.Args) {
					continue
				}
				for i, qi := range cal.Params {
					pi, ok := own[qi.Name()]
					if !ok || qi.Name() == "" || qi.Name() == "_" || !types.Identical(pi.Type(), qi.Type()) {
						continue
					}
					for j, qj := range cal.Params {
						if j <= i {
							continue
						}
						pj, ok := own[qj.Name()]
						if !ok || !types.Identical(pj.Type(), qj.Type()) || !types.Identical(qi.Type(), qj.Type()) {
							continue
						}
						n++
						ai, aj := stripConv(call.Call.Args[i]), stripConv(call.Call.Args[j])
						if ai == ssa.Value(pj) && aj == ssa.Value(pi) {
							r.Bad(rule, fmt.Sprintf("%s→%s:%s<->%s", SSAFuncName(f), SSAFuncName(cal), qi.Name(), qj.Name()), c.Pos(call.Pos()),
								fmt.Sprintf("the callee's %s receives this function's %s and its %s receives %s: the two same-typed arguments are swapped", qi.Name(), qj.Name(), qj.Name(), qi.Name()))
						}
					}
				}
			}
		}
	}
	return n
}

// ruleStickyError (O-STICKY) — the slice readers record the first failed read and keep returning zero values;
// a decoder that takes a bits.SliceReader therefore ends by looking at AccError(): every return that hands back a
// decoded value with a nil error is the reader's accumulated error itself, or is dominated by a test of it, or
// the function passes the reader on to a callee that returns the error (delegation).
func ruleStickyError(c *Ctx, r *Report) int {
	n := 0
	for _, f := range c.RepoFuncs(IsLib) {
		if f.Synthetic != "" || f.Parent() != nil || strings.HasSuffix(c.Fset.Position(f.Pos()).Filename, "_test.go") {
			continue
		}
		var srPar *ssa.Parameter
		for _, p := range f.Params {
			if strings.HasSuffix(p.Type().String(), "bits.SliceReader") {
				srPar = p
			}
		}
		res := f.Signature.Results()
		if srPar == nil || res.Len() < 2 || res.At(res.Len()-1).Type().String() != "error" {
			continue
		}
		// box decoders only: (hdr BoxHeader, startPos uint64, sr bits.SliceReader) (Box, error)
		hasHdr := false
		for _, p := range f.Params {
			if strings.HasSuffix(p.Type().String(), "mp4.BoxHeader") {
				hasHdr = true
			}
		}
		if !hasHdr {
			continue
		}
		// does it read at all?
		reads := false
		for _, b := range f.Blocks {
			for _, ins := range b.Instrs {
				if call, ok := ins.(*ssa.Call); ok && call.Call.IsInvoke() && call.Call.Value == ssa.Value(srPar) && strings.HasPrefix(call.Call.Method.Name(), "Read") {
					reads = true
				}
			}
		}
		if !reads {
			continue
		}
		n++
		key := SSAFuncName(f)
		bad := ""
		var pos token.Pos
		for _, b := range f.Blocks {
			for _, ins := range b.Instrs {
				ret, ok := ins.(*ssa.Return)
				if !ok {
					continue
				}
				ev := ret.Results[len(ret.Results)-1]
				if k, isC := ev.(*ssa.Const); !isC || k.Value != nil {
					// a non-constant error: must derive from AccError or a callee's error — fine either way
					continue
				}
				// nil error returned: is the value nil too (reject paths return nil, err — not this), or a success?
				if k0, isC := ret.Results[0].(*ssa.Const); isC && k0.Value == nil {
					continue
				}
				// success with literal nil: needs a dominating AccError test
				tested := false
				for d := b; d != nil; d = d.Idom() {
					for _, i2 := range d.Instrs {
						if call, ok := i2.(*ssa.Call); ok && call.Call.IsInvoke() && call.Call.Method.Name() == "AccError" {
							tested = true
						}
					}
				}
				if !tested {
					tested = stickyJustified(c, f, srPar, b) != ""
				}
				if !tested {
					bad = "returns the decoded value with a literal nil error without looking at the reader's accumulated error"
					pos = ret.Pos()
				}
			}
		}
		if bad != "" {
			r.Bad("O-STICKY", key, c.Pos(pos), "the decoder "+bad+": a truncated box decodes 'successfully' with zero-filled fields")
		} else {
			r.OK("O-STICKY", key, c.Pos(f.Pos()), "every successful return carries or follows a test of the reader's accumulated error")
		}
	}
	return n
}

// stickyExceptions: decoders whose documented behaviour is to accept a short payload.
var stickyExceptions = map[string]string{
	"mp4.DecodeMdatSR": "documented: no error is returned if not the full length is available (the error stays in the reader)",
}

// stickyJustified: why a successful return with a literal nil error cannot hide a failed read.
func stickyJustified(c *Ctx, f *ssa.Function, sr *ssa.Parameter, retBlock *ssa.BasicBlock) string {
	if why, ok := stickyExceptions[SSAFuncName(f)]; ok {
		return why
	}
	// (a) a dominating rejecting test on the declared box size: the reads are covered by an exact-size / minimum-size check
	for d := retBlock; d != nil; d = d.Idom() {
		id := d.Idom()
		if id == nil || len(id.Instrs) == 0 {
			continue
		}
		ifi, ok := id.Instrs[len(id.Instrs)-1].(*ssa.If)
		if !ok {
			continue
		}
		if !(blockRejects(id.Succs[0]) || blockRejects(id.Succs[1])) {
			continue
		}
		sl := backSlice(c, ifi.Cond, 1)
		if sliceHas(sl, "field", "BoxHeader.Size") || sliceHas(sl, "call", "BoxHeader.payloadLen") || sliceHas(sl, "field", "BoxHeader.Hdrlen") {
			return "the declared box size is validated against what is read"
		}
		// the same validation inside a checking helper: `if err := b.checkDeclaredSize(hdr, n); err != nil { return nil, err }`
		if bo, ok := ifi.Cond.(*ssa.BinOp); ok && (bo.Op == token.NEQ || bo.Op == token.EQL) && bo.X.Type().String() == "error" {
			if call, ok := bo.X.(*ssa.Call); ok {
				for _, fact := range errorHelperFacts(call) {
					hs := backSlice(c, fact.cond, 1)
					if sliceHas(hs, "field", "BoxHeader.Size") || sliceHas(hs, "call", "BoxHeader.payloadLen") || sliceHas(hs, "field", "BoxHeader.Hdrlen") {
						return "the declared box size is validated against what is read (in a checking helper)"
					}
					// the size handed to the helper as a plain number
					if h := call.Call.StaticCallee(); h != nil {
						for i, p := range h.Params {
							if sliceHas(hs, "param", p.Name()) && i < len(call.Call.Args) {
								as := backSlice(c, call.Call.Args[i], 1)
								if sliceHas(as, "field", "BoxHeader.Size") || sliceHas(as, "call", "BoxHeader.payloadLen") {
									return "the declared box size is validated against what is read (in a checking helper)"
								}
							}
						}
					}
				}
			}
		}
	}
	// (b) children are decoded with the container helpers, which compare positions with the declared end
	if len(callsIn(f, "mp4.DecodeContainerChildrenSR", false)) > 0 {
		return "children are decoded by DecodeContainerChildrenSR, which rejects a start position beyond the declared end"
	}
	// (c) the payload is taken as one ReadBytes and parsed by a callee whose error is returned
	only := true
	n := 0
	for _, b := range f.Blocks {
		for _, ins := range b.Instrs {
			if call, ok := ins.(*ssa.Call); ok && call.Call.IsInvoke() && call.Call.Value == ssa.Value(sr) && strings.HasPrefix(call.Call.Method.Name(), "Read") {
				n++
				if call.Call.Method.Name() != "ReadBytes" {
					only = false
				}
			}
		}
	}
	if only && n == 1 {
		return "the payload is read as one block and parsed by a callee whose error is returned"
	}
	return ""
}

// impureObservers: observers that store into their receiver on today's tree, each read and accepted.
var impureObservers = map[string]string{
	"mp4.MdatBox.Size": "sets LargeSize when the payload no longer fits a 32-bit size: monotone and idempotent, the header form the size implies",
	"mp4.SencBox.Info": "ORs the sub-sample flag into Flags when sub-samples are present: a no-op for decoded boxes (sub-samples are only parsed when the flag is set)",
}

// ruleObserversPure (R3-OBS) — Size, Info, String, Type, Payload and the Get*/Is*/Has* accessors do not change
// the structure they are called on: no store whose address is rooted at the receiver.
func ruleObserversPure(c *Ctx, r *Report, pkgs map[string]bool) int {
	n := 0
	for _, f := range c.RepoFuncs(IsLib) {
		if f.Synthetic != "" || f.Pkg == nil || !pkgs[f.Pkg.Pkg.Name()] || f.Signature.Recv() == nil || f.Parent() != nil {
			continue
		}
		if strings.HasSuffix(c.Fset.Position(f.Pos()).Filename, "_test.go") {
			continue
		}
		nm := f.Name()
		obs := nm == "Size" || nm == "Info" || nm == "String" || nm == "Type" || nm == "Payload" ||
			strings.HasPrefix(nm, "Get") || strings.HasPrefix(nm, "Is") || strings.HasPrefix(nm, "Has")
		if !obs || len(f.Params) == 0 {
			continue
		}
		n++
		key := SSAFuncName(f)
		recv := f.Params[0]
		bad := ""
		var pos token.Pos
		for _, b := range f.Blocks {
			for _, ins := range b.Instrs {
				st, ok := ins.(*ssa.Store)
				if !ok {
					continue
				}
				if p := rootParam(st.Addr, 0); p == recv {
					bad = "stores into a field of its receiver"
					pos = st.Pos()
				}
			}
		}
		// … nor through a method it calls on the same receiver (a lookup helper that remembers where it was)
		if bad == "" {
			for _, b := range f.Blocks {
				for _, ins := range b.Instrs {
					call, ok := ins.(*ssa.Call)
					if !ok {
						continue
					}
					h := call.Call.StaticCallee()
					if h == nil || h.Signature.Recv() == nil || len(call.Call.Args) == 0 || call.Call.Args[0] != ssa.Value(recv) {
						continue
					}
					if _, isPtr := h.Signature.Recv().Type().Underlying().(*types.Pointer); !isPtr {
						continue
					}
					if _, accepted := impureObservers[SSAFuncName(h)]; accepted {
						continue
					}
					st := recvFieldStores(h, 0, map[*ssa.Function]bool{})
					if len(st) > 0 {
						var flds []string
						for k := range st {
							flds = append(flds, k)
						}
						sort.Strings(flds)
						bad = "calls " + h.Name() + ", which stores into " + strings.Join(flds, ", ") + " of the receiver"
						pos = call.Pos()
					}
				}
			}
		}
		if why, ok := impureObservers[key]; ok && bad != "" {
			r.OK("R3-OBS", key, c.Pos(pos), "accepted: "+why)
			continue
		}
		if bad != "" {
			r.Bad("R3-OBS", key, c.Pos(pos), "the observer "+bad+": looking at a structure (size, info, accessor) changes it, so a second encode or a concurrent reader sees something else")
		} else {
			r.OK("R3-OBS", key, c.Pos(f.Pos()), "no store through the receiver")
		}
	}
	return n
}

// ruleSeekForward (G-SEEK) — a relative seek whose distance derives from the declared box size is preceded by a test
// that the distance is not negative (a size >= 2^63 turns negative as int64 and moves the reader backwards).
func ruleSeekForward(c *Ctx, r *Report) int {
	n := 0
	for _, f := range libFuncs(c, func(f *ssa.Function) bool { return strings.HasPrefix(SSAFuncName(f), "mp4.") }) {
		for _, b := range f.Blocks {
			for _, ins := range b.Instrs {
				call, ok := ins.(*ssa.Call)
				if !ok || !call.Call.IsInvoke() || call.Call.Method.Name() != "Seek" || len(call.Call.Args) != 2 {
					continue
				}
				wh, ok := constSet(call.Call.Args[1], 0)
				if !ok || len(wh) != 1 || wh[0] != 1 { // io.SeekCurrent
					continue
				}
				dist := call.Call.Args[0]
				if !sliceHas(backSlice(c, dist, 1), "field", "BoxHeader.Size") {
					continue
				}
				n++
				key := SSAFuncName(f) + ":Seek(relative)"
				lb, ok := lowerBoundAt(dist, b, 0)
				if ok && lb >= 0 && !nonNegativeByTypeOnly(dist) {
					r.OK("G-SEEK", key, c.Pos(call.Pos()), "the distance is tested to be non-negative before the seek")
				} else {
					r.Bad("G-SEEK", key, c.Pos(call.Pos()), "a relative seek by a distance computed from the declared box size as int64 is not preceded by a test that it is >= 0: a size of 2^63 or more moves the reader backwards (DecodeFile in lazy mode can loop forever)")
				}
			}
		}
	}
	return n
}

// nonNegativeByTypeOnly: int64 values are never non-negative by type; used to make sure the bound came from a test.
func nonNegativeByTypeOnly(v ssa.Value) bool { return nonNegative(v) }

// ruleHeaderMin (O-HDRMIN): a box header decoder returns a header (Size, Hdrlen) only on paths that
// compared the size it returns with the header length it returns. DecodeBox[SR] and every container walk
// compute Size-Hdrlen as an unsigned payload length; a header with Size < Hdrlen makes that wrap.
// The rule is a must-pass-through over the function's CFG: with every block that branches on an ordering
// comparison between (a value flowing into) the returned Size and (a value flowing into) the returned
// Hdrlen removed, no return that builds a BoxHeader is reachable from the entry.
func ruleHeaderMin(c *Ctx, r *Report) int {
	n := 0
	for _, name := range []string{"DecodeHeader", "DecodeHeaderSR"} {
		f := c.ssaFunc(r, "O-HDRMIN", "mp4", name)
		if f == nil {
			continue
		}
		key := "mp4." + name + ":size-vs-hdrlen"
		// success returns: result 0 is loaded from a local BoxHeader that has its Size field stored
		type built struct {
			ret      *ssa.Return
			size, hl ssa.Value
		}
		var outs []built
		for _, b := range f.Blocks {
			if len(b.Instrs) == 0 {
				continue
			}
			ret, ok := b.Instrs[len(b.Instrs)-1].(*ssa.Return)
			if !ok || len(ret.Results) == 0 {
				continue
			}
			ld, ok := ret.Results[0].(*ssa.UnOp)
			if !ok || ld.Op != token.MUL {
				continue
			}
			al, ok := ld.X.(*ssa.Alloc)
			if !ok {
				continue
			}
			var bt built
			bt.ret = ret
			for _, ref := range *al.Referrers() {
				fa, ok := ref.(*ssa.FieldAddr)
				if !ok {
					continue
				}
				fname := fieldNameOf(fa)
				for _, r2 := range *fa.Referrers() {
					if st, ok := r2.(*ssa.Store); ok && st.Addr == fa {
						switch fname {
						case "Size":
							bt.size = st.Val
						case "Hdrlen":
							bt.hl = st.Val
						}
					}
				}
			}
			if bt.size != nil && bt.hl != nil {
				outs = append(outs, bt)
			}
		}
		if len(outs) == 0 {
			r.Undecided("O-HDRMIN", key, c.Pos(f.Pos()), "no return that builds a BoxHeader with Size and Hdrlen found")
			continue
		}
		n++
		bad := ""
		for _, o := range outs {
			sizeSet := flowsInto(o.size)
			hlSet := flowsInto(o.hl)
			guards := map[*ssa.BasicBlock]bool{}
			for _, b := range f.Blocks {
				if len(b.Instrs) == 0 {
					continue
				}
				ifi, ok := b.Instrs[len(b.Instrs)-1].(*ssa.If)
				if !ok {
					continue
				}
				bo, ok := ifi.Cond.(*ssa.BinOp)
				if !ok {
					continue
				}
				switch bo.Op {
				case token.LSS, token.LEQ, token.GTR, token.GEQ:
				default:
					continue
				}
				x, y := stripConv(bo.X), stripConv(bo.Y)
				if (inFlow(sizeSet, x) && inFlow(hlSet, y)) || (inFlow(sizeSet, y) && inFlow(hlSet, x)) {
					guards[b] = true
				}
			}
			// the comparison may live in a helper that returns an error: `if err := check(hdrLen, size); err != nil`
			for _, b := range f.Blocks {
				if len(b.Instrs) == 0 {
					continue
				}
				ifi, ok := b.Instrs[len(b.Instrs)-1].(*ssa.If)
				if !ok || !isErrorTest(ifi.Cond) {
					continue
				}
				bo, ok := ifi.Cond.(*ssa.BinOp)
				if !ok {
					continue
				}
				for _, o := range []ssa.Value{bo.X, bo.Y} {
					call, ok := o.(*ssa.Call)
					if !ok {
						continue
					}
					h := call.Call.StaticCallee()
					if h == nil || h.Pkg == nil || h.Pkg != f.Pkg {
						continue
					}
					si, hi := -1, -1
					for ai, a := range call.Call.Args {
						if inFlow(sizeSet, stripConv(a)) {
							si = ai
						}
						if inFlow(hlSet, stripConv(a)) {
							hi = ai
						}
					}
					if si < 0 || hi < 0 || si >= len(h.Params) || hi >= len(h.Params) {
						continue
					}
					for _, hb := range h.Blocks {
						if len(hb.Instrs) == 0 {
							continue
						}
						hif, ok := hb.Instrs[len(hb.Instrs)-1].(*ssa.If)
						if !ok {
							continue
						}
						hbo, ok := hif.Cond.(*ssa.BinOp)
						if !ok {
							continue
						}
						switch hbo.Op {
						case token.LSS, token.LEQ, token.GTR, token.GEQ:
						default:
							continue
						}
						hx, hy := stripConv(hbo.X), stripConv(hbo.Y)
						ps, ph := ssa.Value(h.Params[si]), ssa.Value(h.Params[hi])
						if ((hx == ps && hy == ph) || (hx == ph && hy == ps)) && (blockRejects(hb.Succs[0]) != blockRejects(hb.Succs[1])) {
							guards[b] = true
						}
					}
				}
			}
			seen := map[*ssa.BasicBlock]bool{}
			stack := []*ssa.BasicBlock{f.Blocks[0]}
			reach := false
			for len(stack) > 0 {
				x := stack[len(stack)-1]
				stack = stack[:len(stack)-1]
				if seen[x] || guards[x] {
					continue
				}
				seen[x] = true
				if x == o.ret.Block() {
					reach = true
					break
				}
				stack = append(stack, x.Succs...)
			}
			if reach {
				bad = fmt.Sprintf("the return at %s is reachable on a path with no ordering comparison between the returned Size and the returned Hdrlen (%d comparing branches found): a header whose size is smaller than its own length is handed to callers that compute Size-Hdrlen unsigned", c.Pos(o.ret.Pos()), len(guards))
			}
		}
		if bad != "" {
			r.Bad("O-HDRMIN", key, c.Pos(f.Pos()), bad)
		} else {
			r.OK("O-HDRMIN", key, c.Pos(f.Pos()), "every path to a return that builds a BoxHeader passes a branch comparing the returned Size with the returned Hdrlen")
		}
	}
	return n
}

// flowsInto: v, its widening conversions and, through phis, every value that may become v.
func flowsInto(v ssa.Value) map[ssa.Value]bool {
	set := map[ssa.Value]bool{}
	var walk func(x ssa.Value)
	walk = func(x ssa.Value) {
		if set[x] {
			return
		}
		set[x] = true
		switch t := x.(type) {
		case *ssa.Phi:
			for _, e := range t.Edges {
				walk(e)
			}
		case *ssa.Convert:
			walk(t.X)
		case *ssa.BinOp:
			// headerLen += largeSizeLen: the sum is still the header length
			if t.Op == token.ADD {
				walk(t.X)
			}
		}
	}
	walk(v)
	return set
}

func inFlow(set map[ssa.Value]bool, v ssa.Value) bool {
	if set[v] {
		return true
	}
	if cv, ok := v.(*ssa.Const); ok && cv.Value != nil {
		for s := range set {
			if sc, ok := s.(*ssa.Const); ok && sc.Value != nil && sc.Value.ExactString() == cv.Value.ExactString() {
				return true
			}
		}
	}
	return false
}

func fieldNameOf(fa *ssa.FieldAddr) string {
	if fv := fieldVar(fa.X.Type(), fa.Field); fv != nil {
		return fv.Name()
	}
	return ""
}

// ruleSeekFirst (O-SEEKFIRST): the positional readers of lazily decoded media data (MdatBox.ReadData,
// MdatBox.CopyData, File.CopySampleData) are given a caller-owned io.ReadSeeker and an absolute position.
// Every read from that parameter is dominated by a Seek(…, io.SeekStart) on the same parameter in the same
// function (or in a helper that seeks unconditionally): nothing in the box can know where the caller, or
// another box sharing the ReadSeeker, left the read position.
func ruleSeekFirst(c *Ctx, r *Report) int {
	want := map[string]bool{"mp4.MdatBox.ReadData": true, "mp4.MdatBox.CopyData": true, "mp4.File.CopySampleData": true}
	n := 0
	isParam := func(v ssa.Value, p *ssa.Parameter) bool {
		for {
			switch x := v.(type) {
			case *ssa.ChangeInterface:
				v = x.X
				continue
			case *ssa.MakeInterface:
				v = x.X
				continue
			}
			break
		}
		return v == p
	}
	for _, f := range libFuncs(c, func(f *ssa.Function) bool { return want[SSAFuncName(f)] }) {
		var rs *ssa.Parameter
		for _, p := range f.Params {
			if strings.HasSuffix(p.Type().String(), "io.ReadSeeker") {
				rs = p
			}
		}
		key := SSAFuncName(f) + ":seek-before-read"
		if rs == nil {
			r.Undecided("O-SEEKFIRST", key, c.Pos(f.Pos()), "no io.ReadSeeker parameter")
			continue
		}
		var seeks []*ssa.BasicBlock
		var seekIdx []int
		type rd struct {
			b   *ssa.BasicBlock
			i   int
			pos token.Pos
		}
		var reads []rd
		for _, b := range f.Blocks {
			for i, ins := range b.Instrs {
				call, ok := ins.(*ssa.Call)
				if !ok {
					continue
				}
				cc := call.Common()
				if cc.IsInvoke() {
					if !isParam(cc.Value, rs) {
						continue
					}
					switch cc.Method.Name() {
					case "Seek":
						if wh, ok := constSet(cc.Args[1], 0); ok && len(wh) == 1 && wh[0] == 0 {
							seeks = append(seeks, b)
							seekIdx = append(seekIdx, i)
						}
					case "Read":
						reads = append(reads, rd{b, i, call.Pos()})
					}
					continue
				}
				uses := false
				for _, a := range cc.Args {
					if isParam(a, rs) {
						uses = true
					}
				}
				if !uses {
					continue
				}
				callee := cc.StaticCallee()
				if callee != nil && callee.Pkg != nil && strings.Contains(callee.Pkg.Pkg.Path(), "mp4ff") {
					// a repository helper: counts as a seek when it seeks its parameter in its entry block
					if helperSeeks(callee, cc.Args, rs) {
						seeks = append(seeks, b)
						seekIdx = append(seekIdx, i)
						continue
					}
				}
				reads = append(reads, rd{b, i, call.Pos()})
			}
		}
		n++
		if len(reads) == 0 {
			r.Undecided("O-SEEKFIRST", key, c.Pos(f.Pos()), "no read from the ReadSeeker parameter found")
			continue
		}
		bad := ""
		for _, x := range reads {
			dom := false
			for k, sb := range seeks {
				if sb == x.b && seekIdx[k] < x.i {
					dom = true
				}
				if sb != x.b && sb.Dominates(x.b) {
					dom = true
				}
			}
			if !dom {
				bad = fmt.Sprintf("the read at %s is not dominated by a Seek(…, io.SeekStart) on the caller's ReadSeeker: on some path the data is read from wherever the reader happens to stand", c.Pos(x.pos))
			}
		}
		if bad != "" {
			r.Bad("O-SEEKFIRST", key, c.Pos(f.Pos()), bad)
		} else {
			r.OK("O-SEEKFIRST", key, c.Pos(f.Pos()), fmt.Sprintf("%d reads from the caller's ReadSeeker, each dominated by an absolute Seek on it", len(reads)))
		}
	}
	return n
}

func helperSeeks(callee *ssa.Function, args []ssa.Value, rs *ssa.Parameter) bool {
	if len(callee.Blocks) == 0 {
		return false
	}
	for i, a := range args {
		v := a
		for {
			if ci, ok := v.(*ssa.ChangeInterface); ok {
				v = ci.X
				continue
			}
			break
		}
		if v != rs || i >= len(callee.Params) {
			continue
		}
		p := callee.Params[i]
		for _, ins := range callee.Blocks[0].Instrs {
			if call, ok := ins.(*ssa.Call); ok && call.Call.IsInvoke() && call.Call.Value == p && call.Call.Method.Name() == "Seek" {
				if wh, ok := constSet(call.Call.Args[1], 0); ok && len(wh) == 1 && wh[0] == 0 {
					return true
				}
			}
		}
	}
	return false
}

// ruleTrialCleanup (O-CLEAN): a method that reports success as a bool and grows receiver fields with append
// (a trial parse: SencBox.parseAndFillSamples is called once per candidate IV size on the same box) stores
// nil (or a fresh slice) to every such field on every path on which it may return false. Otherwise what the
// failed attempt appended stays in the box and the next attempt appends after it: the decoded box carries
// entries that were never in the input, and Size()/EncodeSW (which walk the fields) disagree with the bytes read.
func ruleTrialCleanup(c *Ctx, r *Report) int {
	n := 0
	for _, f := range libFuncs(c, func(f *ssa.Function) bool { return strings.HasPrefix(SSAFuncName(f), "mp4.") }) {
		sig := f.Signature
		if sig.Recv() == nil || sig.Results().Len() != 1 || len(f.Params) == 0 {
			continue
		}
		if bt, ok := sig.Results().At(0).Type().Underlying().(*types.Basic); !ok || bt.Kind() != types.Bool {
			continue
		}
		recv := f.Params[0]
		// fields grown with append
		grown := map[string]bool{}
		for _, b := range f.Blocks {
			for _, ins := range b.Instrs {
				st, ok := ins.(*ssa.Store)
				if !ok {
					continue
				}
				fa, ok := st.Addr.(*ssa.FieldAddr)
				if !ok || fa.X != recv {
					continue
				}
				if call, ok := st.Val.(*ssa.Call); ok {
					if bi, ok := call.Call.Value.(*ssa.Builtin); ok && bi.Name() == "append" {
						grown[fieldNameOf(fa)] = true
					}
				}
			}
		}
		if len(grown) == 0 {
			continue
		}
		n++
		key := SSAFuncName(f) + ":cleanup-on-false"
		// blocks that reset a field (directly or through a method of the receiver)
		resets := map[string][]*ssa.BasicBlock{}
		resetStores := func(fn *ssa.Function, rv ssa.Value, blk *ssa.BasicBlock) {
			for _, b := range fn.Blocks {
				for _, ins := range b.Instrs {
					st, ok := ins.(*ssa.Store)
					if !ok {
						continue
					}
					fa, ok := st.Addr.(*ssa.FieldAddr)
					if !ok || fa.X != rv {
						continue
					}
					fresh := false
					switch v := st.Val.(type) {
					case *ssa.Const:
						fresh = v.IsNil()
					case *ssa.MakeSlice:
						fresh = true
					}
					if fresh {
						at := b
						if blk != nil {
							at = blk
						}
						resets[fieldNameOf(fa)] = append(resets[fieldNameOf(fa)], at)
					}
				}
			}
		}
		resetStores(f, recv, nil)
		for _, b := range f.Blocks {
			for _, ins := range b.Instrs {
				if call, ok := ins.(*ssa.Call); ok {
					if cal := call.Call.StaticCallee(); cal != nil && cal != f && len(cal.Params) > 0 && len(call.Call.Args) > 0 && call.Call.Args[0] == recv && cal.Signature.Recv() != nil {
						resetStores(cal, cal.Params[0], b)
					}
				}
			}
		}
		cleaned := func(p *ssa.BasicBlock) (missing string) {
			for fld := range grown {
				ok := false
				for _, rb := range resets[fld] {
					if rb == p || rb.Dominates(p) {
						ok = true
					}
				}
				if !ok {
					missing = fld
				}
			}
			return
		}
		bad := ""
		var judge func(v ssa.Value, at *ssa.BasicBlock, depth int)
		judge = func(v ssa.Value, at *ssa.BasicBlock, depth int) {
			if cv, ok := v.(*ssa.Const); ok && cv.Value != nil && cv.Value.ExactString() == "true" {
				return
			}
			if knownTrue(v, at) {
				return
			}
			if phi, ok := v.(*ssa.Phi); ok && depth < 4 {
				for i, e := range phi.Edges {
					judge(e, phi.Block().Preds[i], depth+1)
				}
				return
			}
			if m := cleaned(at); m != "" {
				bad = fmt.Sprintf("may return false (value %s) on a path through block %d without resetting %s, which this function grows with append: a later attempt on the same box appends after the leftovers", v.Name(), at.Index, m)
			}
		}
		for _, b := range f.Blocks {
			if len(b.Instrs) == 0 {
				continue
			}
			if ret, ok := b.Instrs[len(b.Instrs)-1].(*ssa.Return); ok && len(ret.Results) == 1 {
				judge(ret.Results[0], b, 0)
			}
		}
		flds := []string{}
		for k := range grown {
			flds = append(flds, k)
		}
		sort.Strings(flds)
		if bad != "" {
			r.Bad("O-CLEAN", key, c.Pos(f.Pos()), bad)
		} else {
			r.OK("O-CLEAN", key, c.Pos(f.Pos()), "every path that may return false resets the fields grown with append: "+strings.Join(flds, ", "))
		}
	}
	return n
}

// knownTrue: block at is reached only through the true edge of a branch on v (or the false edge of a branch on !v).
func knownTrue(v ssa.Value, at *ssa.BasicBlock) bool {
	for d := at; d != nil; d = d.Idom() {
		id := d.Idom()
		if id == nil || len(id.Instrs) == 0 {
			continue
		}
		ifi, ok := id.Instrs[len(id.Instrs)-1].(*ssa.If)
		if !ok {
			continue
		}
		// which successor of id leads to d exclusively
		for si, s := range id.Succs {
			if s != d || len(s.Preds) != 1 {
				continue
			}
			cond := ifi.Cond
			neg := false
			if u, ok := cond.(*ssa.UnOp); ok && u.Op == token.NOT {
				cond, neg = u.X, true
			}
			if cond != v {
				continue
			}
			if (si == 0 && !neg) || (si == 1 && neg) {
				return true
			}
		}
	}
	return false
}

// ruleEPBReader (O-EPBR): in bits.EBSPReader.Read, on the path that drops an emulation prevention byte (the arm
// taken when the byte read equals 3), the zero counter is stored 0 before it can be incremented again: the byte
// after 00 00 03 starts a fresh run. Without the reset 00 00 03 00 00 03 leaves the counter at 3 and the second
// prevention byte is delivered as data.
func ruleEPBReader(c *Ctx, r *Report) {
	f := c.ssaFunc(r, "O-EPBR", "bits", "EBSPReader.Read")
	if f == nil {
		return
	}
	key := "bits.EBSPReader.Read:reset-after-epb"
	var skip *ssa.BasicBlock
	for _, b := range f.Blocks {
		if len(b.Instrs) == 0 {
			continue
		}
		ifi, ok := b.Instrs[len(b.Instrs)-1].(*ssa.If)
		if !ok {
			continue
		}
		bo, ok := ifi.Cond.(*ssa.BinOp)
		if !ok || bo.Op != token.EQL {
			continue
		}
		for i, o := range []ssa.Value{bo.X, bo.Y} {
			other := []ssa.Value{bo.Y, bo.X}[i]
			if cs, ok := constSet(o, 0); ok && len(cs) == 1 && cs[0] == 3 && typeBits(other.Type()) == 8 {
				skip = b.Succs[0]
			}
		}
	}
	if skip == nil {
		r.Undecided("O-EPBR", key, c.Pos(f.Pos()), "the comparison of the byte read with 3 was not found")
		return
	}
	isZC := func(addr ssa.Value) bool {
		fa, ok := addr.(*ssa.FieldAddr)
		return ok && fieldNameOf(fa) == "zeroCount"
	}
	seen := map[*ssa.BasicBlock]bool{}
	stack := []*ssa.BasicBlock{skip}
	var badPos token.Pos
	for len(stack) > 0 && !badPos.IsValid() {
		x := stack[len(stack)-1]
		stack = stack[:len(stack)-1]
		if seen[x] {
			continue
		}
		seen[x] = true
		reset := false
		for _, ins := range x.Instrs {
			st, ok := ins.(*ssa.Store)
			if !ok || !isZC(st.Addr) {
				continue
			}
			if cv, ok := st.Val.(*ssa.Const); ok && cv.Value != nil && cv.Value.ExactString() == "0" {
				reset = true
				break
			}
			if bo, ok := st.Val.(*ssa.BinOp); ok && bo.Op == token.ADD {
				badPos = st.Pos()
				break
			}
		}
		if !reset && !badPos.IsValid() {
			stack = append(stack, x.Succs...)
		}
	}
	if badPos.IsValid() {
		r.Bad("O-EPBR", key, c.Pos(badPos), "after an emulation prevention byte is dropped the zero counter can be incremented without having been reset: a second 00 00 03 right after the first is not recognised")
	} else {
		r.OK("O-EPBR", key, c.Pos(firstPos(skip)), "on the path that drops an emulation prevention byte the zero counter is stored 0 before any increment")
	}
}

// ---- comparisons in small unexported predicate helpers, seen from their call sites ------------------------

// liftedCmp: a comparison inside an unexported bool-valued helper whose operands are (conversions of) the
// helper's parameters, with the operands replaced by the arguments of one call site.
type liftedCmp struct {
	bo       *ssa.BinOp
	X, Y     ssa.Value // caller-side values
	caller   *ssa.Function
	site     ssa.CallInstruction
	rejTrue  bool // the true arm of the comparison leads to `return false`
	rejFalse bool
}

// predicateHelperSites: f is an unexported function with a single bool result, and at every repository call site
// the result (possibly negated) is branched on with the arm taken for one and the same truth value rejecting.
// Returns the call sites and that truth value (the polarity that means "reject").
func predicateHelperSites(c *Ctx, f *ssa.Function) ([]ssa.CallInstruction, bool) {
	if f.Object() == nil || f.Object().Exported() || f.Signature.Results().Len() != 1 {
		return nil, false
	}
	isErr := f.Signature.Results().At(0).Type().String() == "error"
	if bt, ok := f.Signature.Results().At(0).Type().Underlying().(*types.Basic); !isErr && (!ok || bt.Kind() != types.Bool) {
		return nil, false
	}
	node := c.CallGraph().Nodes[f]
	if node == nil || len(node.In) == 0 {
		return nil, false
	}
	var sites []ssa.CallInstruction
	pol, havePol := false, false
	for _, e := range node.In {
		if e.Site == nil {
			return nil, false
		}
		v := e.Site.Value()
		if v == nil || v.Referrers() == nil {
			return nil, false
		}
		ok := false
		var walk func(x ssa.Value, neg bool)
		walk = func(x ssa.Value, neg bool) {
			for _, ref := range *x.Referrers() {
				switch y := ref.(type) {
				case *ssa.UnOp:
					if y.Op == token.NOT {
						walk(y, !neg)
					}
				case *ssa.BinOp:
					// an error-returning helper: `err != nil` is "true" in the sense of the polarity (a non-nil error)
					if isErr && x == v {
						if cn, isC := y.Y.(*ssa.Const); isC && cn.Value == nil {
							if y.Op == token.NEQ {
								walk(y, neg)
							} else if y.Op == token.EQL {
								walk(y, !neg)
							}
						}
					}
				case *ssa.If:
					if isErr && x == v {
						continue
					}
					// Succs[0] is taken when the tested value is true, i.e. when the helper returned !neg
					rej0, rej1 := blockRejects(y.Block().Succs[0]), blockRejects(y.Block().Succs[1])
					if rej0 == rej1 {
						continue
					}
					p := !neg // helper result on arm 0
					if rej1 {
						p = neg
					}
					if havePol && p != pol {
						continue
					}
					pol, havePol, ok = p, true, true
				}
			}
		}
		walk(v, false)
		if !ok {
			return nil, false
		}
		sites = append(sites, e.Site)
	}
	return sites, pol
}

// pathReturnsBool: taking the edge from -> to, the function returns the constant val (through jumps and the
// return block's phi).
func pathReturnsBool(from, to *ssa.BasicBlock, val bool, depth int) bool {
	if depth > 6 || len(to.Instrs) == 0 {
		return false
	}
	isVal := func(v ssa.Value) bool {
		if v.Type().String() == "error" {
			// for an error-returning helper "true" stands for a non-nil error
			if cv, ok := v.(*ssa.Const); ok {
				return cv.Value == nil && !val
			}
			if call, ok := v.(*ssa.Call); ok && val {
				if sc := call.Call.StaticCallee(); sc != nil && sc.Pkg != nil && (sc.Pkg.Pkg.Path() == "fmt" && sc.Name() == "Errorf" || sc.Pkg.Pkg.Path() == "errors" && sc.Name() == "New") {
					return true
				}
			}
			if _, ok := v.(*ssa.MakeInterface); ok && val {
				return true
			}
			return false
		}
		cv, ok := v.(*ssa.Const)
		return ok && cv.Value != nil && cv.Value.Kind() == constant.Bool && constant.BoolVal(cv.Value) == val
	}
	switch x := to.Instrs[len(to.Instrs)-1].(type) {
	case *ssa.Return:
		if len(x.Results) != 1 {
			return false
		}
		if isVal(x.Results[0]) {
			return true
		}
		if phi, ok := x.Results[0].(*ssa.Phi); ok && phi.Block() == to {
			for i, pr := range to.Preds {
				if pr == from && isVal(phi.Edges[i]) {
					return true
				}
			}
		}
	case *ssa.Jump:
		// only blocks that do nothing else
		if len(to.Instrs) == 1 {
			return pathReturnsBool(to, to.Succs[0], val, depth+1)
		}
	}
	return false
}

func liftedComparisons(c *Ctx, f *ssa.Function) []liftedCmp {
	sites, pol := predicateHelperSites(c, f)
	if len(sites) == 0 {
		return nil
	}
	paramIdx := func(v ssa.Value) int {
		v = stripConv(v)
		for i, p := range f.Params {
			if v == ssa.Value(p) {
				return i
			}
		}
		return -1
	}
	isCmp := func(bo *ssa.BinOp) bool {
		switch bo.Op {
		case token.LSS, token.LEQ, token.GTR, token.GEQ:
			return true
		}
		return false
	}
	var out []liftedCmp
	add := func(bo *ssa.BinOp, rejTrue, rejFalse bool) {
		ix, iy := paramIdx(bo.X), paramIdx(bo.Y)
		if ix < 0 && iy < 0 {
			return
		}
		for _, s := range sites {
			args := s.Common().Args
			X, Y := bo.X, bo.Y
			if ix >= 0 && ix < len(args) {
				X = args[ix]
			}
			if iy >= 0 && iy < len(args) {
				Y = args[iy]
			}
			out = append(out, liftedCmp{bo, X, Y, s.Parent(), s, rejTrue, rejFalse})
		}
	}
	for _, b := range f.Blocks {
		for _, ins := range b.Instrs {
			bo, ok := ins.(*ssa.BinOp)
			if !ok || !isCmp(bo) || bo.Referrers() == nil {
				continue
			}
			for _, ref := range *bo.Referrers() {
				switch y := ref.(type) {
				case *ssa.If:
					add(bo, pathReturnsBool(y.Block(), y.Block().Succs[0], pol, 0) || blockRejects(y.Block().Succs[0]) && !pol,
						pathReturnsBool(y.Block(), y.Block().Succs[1], pol, 0) || blockRejects(y.Block().Succs[1]) && !pol)
				case *ssa.Return:
					// the comparison is the value returned: true means "reject" exactly when the polarity is true
					add(bo, pol, !pol)
				case *ssa.Phi:
					if len(y.Block().Instrs) > 0 {
						if ret, ok := y.Block().Instrs[len(y.Block().Instrs)-1].(*ssa.Return); ok && len(ret.Results) == 1 && ret.Results[0] == ssa.Value(y) {
							add(bo, pol, !pol)
						}
					}
				}
			}
		}
	}
	return out
}

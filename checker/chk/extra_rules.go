package chk

// Additional narrow rules added after the second round of seeded changes.

import (
	"fmt"
	"go/constant"
	"go/token"
	"strings"

	"golang.org/x/tools/go/ssa"
)

// ruleFFRun (C17) — the 0xFF-run coding of SEI type/size: the writer keeps emitting 0xFF while the remaining
// value is >= 255, so that the terminating byte is < 255 (a value of exactly 255 is FF 00).
func ruleFFRun(c *Ctx, r *Report) {
	f := c.ssaFunc(r, "O-FFRUN", "bits", "EBSPWriter.WriteSEIValue")
	if f == nil {
		return
	}
	loops := naturalLoops(f)
	key := "bits.EBSPWriter.WriteSEIValue:continuation-test"
	if len(loops) != 1 {
		r.Undecided("O-FFRUN", key, c.Pos(f.Pos()), "expected one loop emitting 0xFF bytes")
		return
	}
	l := loops[0]
	found := false
	for b := range l.blocks {
		if len(b.Instrs) == 0 {
			continue
		}
		ifi, ok := b.Instrs[len(b.Instrs)-1].(*ssa.If)
		if !ok {
			continue
		}
		exits := !l.blocks[b.Succs[0]] || !l.blocks[b.Succs[1]]
		bo, isBo := ifi.Cond.(*ssa.BinOp)
		if !exits || !isBo {
			continue
		}
		cst, isC := bo.Y.(*ssa.Const)
		if !isC || cst.Value == nil {
			continue
		}
		v, _ := constant.Int64Val(cst.Value)
		found = true
		// the loop continues on Succs[0] if that is inside the loop
		cont := bo.Op
		if !l.blocks[b.Succs[0]] {
			cont = map[token.Token]token.Token{token.GEQ: token.LSS, token.GTR: token.LEQ, token.LSS: token.GEQ, token.LEQ: token.GTR}[bo.Op]
		}
		ok2 := cont == token.GEQ && v == 255 || cont == token.GTR && v == 254
		if ok2 {
			r.OK("O-FFRUN", key, c.Pos(bo.Pos()), "0xFF is emitted while the remaining value is >= 255; the terminating byte is < 255")
		} else {
			r.Bad("O-FFRUN", key, c.Pos(bo.Pos()), "the 0xFF run continues only while the remaining value is "+cont.String()+" "+cst.Value.String()+": a value that is a multiple of 255 ends with a byte 0xFF and the reader keeps adding the next byte")
		}
	}
	if !found {
		r.Undecided("O-FFRUN", key, c.Pos(f.Pos()), "loop exit test against a constant not found")
	}
}

// ruleTrexByID (C06) — DecryptInit attaches each trex to the track info with the same track id.
func ruleTrexByID(c *Ctx, r *Report) {
	f := c.ssaFunc(r, "DEP", "mp4", "DecryptInit")
	if f == nil {
		return
	}
	sts := storesTo(f, "DecryptTrackInfo.Trex")
	key := "mp4.DecryptInit:trex-by-track-id"
	if len(sts) == 0 {
		r.Bad("DEP", key, c.Pos(f.Pos()), "no trex is attached to the per-track decrypt info")
		return
	}
	for _, st := range sts {
		ok := false
		for _, cond := range controlConds(st.Block()) {
			sl := backSlice(c, cond, 0)
			if sliceHas(sl, "field", "TrexBox.TrackID") && sliceHas(sl, "field", "DecryptTrackInfo.TrackID") {
				ok = true
			}
		}
		if ok {
			r.OK("DEP", key, c.Pos(st.Pos()), "trex is attached under a test that its track id equals the track info's id")
		} else {
			r.Bad("DEP", key, c.Pos(st.Pos()), "a trex is attached to a track info without testing that their track ids are equal (association by position): defaults of another track are applied when mvex order differs from trak order")
		}
	}
}

// ruleSencSearch (C06) — ContainsSencBox reports "not found" only after all children were looked at.
func ruleSencSearch(c *Ctx, r *Report) {
	f := c.ssaFunc(r, "O-SEARCH", "mp4", "TrafBox.ContainsSencBox")
	if f == nil {
		return
	}
	loops := naturalLoops(f)
	key := "mp4.TrafBox.ContainsSencBox:not-found-after-loop"
	bad := false
	n := 0
	for _, b := range f.Blocks {
		for _, ins := range b.Instrs {
			ret, ok := ins.(*ssa.Return)
			if !ok || len(ret.Results) == 0 {
				continue
			}
			cst, isC := ret.Results[0].(*ssa.Const)
			if !isC || cst.Value == nil || constant.BoolVal(cst.Value) {
				continue
			}
			n++
			// a "not found" return must not be reachable from the loop body without going through the
			// header's exit edge
			for _, l := range loops {
				seen := map[*ssa.BasicBlock]bool{l.header: true}
				var stack []*ssa.BasicBlock
				for _, s := range l.header.Succs {
					if l.blocks[s] {
						stack = append(stack, s)
					}
				}
				for len(stack) > 0 {
					x := stack[len(stack)-1]
					stack = stack[:len(stack)-1]
					if seen[x] {
						continue
					}
					seen[x] = true
					if x == b {
						bad = true
					}
					stack = append(stack, x.Succs...)
				}
			}
		}
	}
	switch {
	case n == 0:
		r.Undecided("O-SEARCH", key, c.Pos(f.Pos()), "no 'not found' return")
	case bad:
		r.Bad("O-SEARCH", key, c.Pos(f.Pos()), "the search for a senc box gives up ('not found') from inside the loop over the children: a box that precedes the senc box hides it")
	default:
		r.OK("O-SEARCH", key, c.Pos(f.Pos()), "'not found' is returned only after the loop over all children")
	}
}

// ruleBoxSizeGuard (C04) — DecodeBoxSR compares the full unsigned box size with the bytes available before
// any decoder is called.
func ruleBoxSizeGuard(c *Ctx, r *Report) {
	f := c.ssaFunc(r, "G-SIZE", "mp4", "DecodeBoxSR")
	if f == nil {
		return
	}
	key := "mp4.DecodeBoxSR:size-vs-remaining"
	var guards []*ssa.If
	for _, b := range f.Blocks {
		if len(b.Instrs) == 0 {
			continue
		}
		ifi, ok := b.Instrs[len(b.Instrs)-1].(*ssa.If)
		if !ok {
			continue
		}
		bo, ok := ifi.Cond.(*ssa.BinOp)
		if !ok {
			continue
		}
		switch bo.Op {
		case token.GTR, token.GEQ, token.LSS, token.LEQ:
		default:
			continue
		}
		for i, o := range []ssa.Value{bo.X, bo.Y} {
			other := []ssa.Value{bo.Y, bo.X}[i]
			if isDirectFieldLoad(o, "BoxHeader.Size") && typeBits(o.Type()) == 64 && !typInfoOf(o.Type()).signed {
				if sliceHas(backSlice(c, other, 0), "call", "NrRemainingBytes") {
					guards = append(guards, ifi)
				}
			}
		}
	}
	if len(guards) == 0 {
		r.Bad("G-SIZE", key, c.Pos(f.Pos()), "no comparison of the unsigned 64-bit box size itself with the remaining bytes: a size with the top bit set (or one narrowed to int) passes the check and reaches decoders that allocate from it")
		return
	}
	// every decoder call is dominated by the guard
	ok := true
	for _, b := range f.Blocks {
		for _, ins := range b.Instrs {
			call, isCall := ins.(*ssa.Call)
			if !isCall {
				continue
			}
			dyn := call.Call.StaticCallee() == nil && !call.Call.IsInvoke()
			if _, isB := call.Call.Value.(*ssa.Builtin); isB {
				dyn = false
			}
			unk := strings.HasSuffix(calleeName(call.Common()), "mp4.DecodeUnknownSR")
			if !dyn && !unk {
				continue
			}
			dom := false
			for _, g := range guards {
				if g.Block().Dominates(call.Block()) {
					dom = true
				}
			}
			if !dom {
				ok = false
			}
		}
	}
	if ok {
		r.OK("G-SIZE", key, c.Pos(guards[0].Pos()), "the unsigned 64-bit size is compared with the remaining bytes before any decoder runs")
	} else {
		r.Bad("G-SIZE", key, c.Pos(guards[0].Pos()), "a decoder is called on a path that has not passed the size check")
	}
}

func isDirectFieldLoad(v ssa.Value, typeField string) bool {
	switch x := v.(type) {
	case *ssa.UnOp:
		if fa, ok := x.X.(*ssa.FieldAddr); ok {
			if fv := fieldVar(fa.X.Type(), fa.Field); fv != nil && typeName(fa.X.Type())+"."+fv.Name() == typeField {
				return true
			}
		}
	case *ssa.Field:
		if fv := fieldVar(x.X.Type(), x.Field); fv != nil && typeName(x.X.Type())+"."+fv.Name() == typeField {
			return true
		}
	}
	return false
}

// ruleAddSidxOrder (C12) — in the add-sidx tool, encryption boxes are removed before the index sizes are computed.
func ruleAddSidxOrder(c *Ctx, r *Report) {
	f := c.ssaFunc(r, "O-PRE", "examples/add-sidx", "run")
	if f == nil {
		return
	}
	rm := callsIn(f, "examples/add-sidx.removeEncryptionBoxes", false)
	up := callsIn(f, "File.UpdateSidx", false)
	key := "examples/add-sidx.run:remove-before-update"
	if len(up) == 0 {
		r.Undecided("O-PRE", key, c.Pos(f.Pos()), "UpdateSidx is not called")
		return
	}
	bad := false
	for _, a := range rm {
		for _, u := range up {
			if instrReaches(u, a) && !instrDominates(a, u) {
				bad = true
			}
		}
	}
	if bad {
		r.Bad("O-PRE", key, c.Pos(up[0].Pos()), "boxes are removed after UpdateSidx has computed the segment sizes: the index references describe bytes that are not written")
	} else {
		r.OK("O-PRE", key, c.Pos(up[0].Pos()), "box removal precedes UpdateSidx")
	}
}

// ruleDefaultsBeforeDur (C12) — findSegmentData resolves tfhd/trex defaults before summing durations.
func ruleDefaultsBeforeDur(c *Ctx, r *Report) {
	f := c.ssaFunc(r, "O-PRE", "mp4", "findSegmentData")
	if f == nil {
		return
	}
	key := "mp4.findSegmentData:defaults-before-durations"
	defs := callsIn(f, "TrunBox.AddSampleDefaultValues", false)
	if len(defs) == 0 {
		r.Bad("O-PRE", key, c.Pos(f.Pos()), "sample defaults from tfhd/trex are not applied (AddSampleDefaultValues) before the durations of the reference track are summed: a tfhd default duration is ignored")
		return
	}
	// the tfhd of the traf must be handed over
	sl := backSlice(c, defs[0].Common().Args[1], 0)
	if sliceHas(sl, "field", "TrafBox.Tfhd") {
		r.OK("O-PRE", key, c.Pos(defs[0].Pos()), "AddSampleDefaultValues(tfhd, trex) runs on every run of the reference track")
	} else {
		r.Bad("O-PRE", key, c.Pos(defs[0].Pos()), "AddSampleDefaultValues is not given the traf's tfhd")
	}
}

// ruleTrexFallback (C12) — the trex defaults are only a fallback: wherever a default duration/size/flags is read
// from the trex box for use, the tfhd default of the same kind is consulted in the same function, or in a repo
// function the value is handed to.
func ruleTrexFallback(c *Ctx, r *Report) {
	kinds := []string{"DefaultSampleDuration", "DefaultSampleSize", "DefaultSampleFlags"}
	n := 0
	for _, f := range c.RepoFuncs(IsLib) {
		if f.Synthetic != "" || strings.HasSuffix(c.Fset.Position(f.Pos()).Filename, "_test.go") {
			continue
		}
		if recv := f.Signature.Recv(); recv != nil && typeName(recv.Type()) == "TrexBox" {
			continue // the box's own codec, size and info methods
		}
		if strings.HasPrefix(f.Name(), "DecodeTrex") || strings.HasPrefix(f.Name(), "CreateTrex") {
			continue
		}
		for _, k := range kinds {
			var loads []ssa.Value
			for _, b := range f.Blocks {
				for _, ins := range b.Instrs {
					if v, ok := ins.(ssa.Value); ok && isDirectFieldLoad(v, "TrexBox."+k) {
						loads = append(loads, v)
					}
				}
			}
			if len(loads) == 0 {
				continue
			}
			n++
			key := SSAFuncName(f) + ":trex." + k
			has := len(callsIn(f, "TfhdBox.Has"+k, false)) > 0
			if !has {
				// handed to a repo function which consults tfhd
				for _, ld := range loads {
					for _, ref := range *ld.Referrers() {
						if ci, ok := ref.(ssa.CallInstruction); ok {
							if g := ci.Common().StaticCallee(); g != nil && len(callsIn(g, "TfhdBox.Has"+k, false)) > 0 {
								has = true
							}
						}
					}
				}
			}
			if has {
				r.OK("O-FALLBACK", key, c.Pos(loads[0].Pos()), "the trex default is read where the tfhd default of the same kind is consulted")
			} else {
				r.Bad("O-FALLBACK", key, c.Pos(loads[0].Pos()), "trex."+k+" is used without consulting tfhd.Has"+k+": a default set in the fragment's tfhd is ignored")
			}
		}
	}
	_ = n
	r.Floor("O-FALLBACK", 5)
}

// ruleIndependentEnds — loops that adjust the first element (`if i == 0`) and the last element
// (`if i == len-1`) of a sequence: the two adjustments are independent — when the sequence has one element both
// apply. They must not be mutually exclusive arms (an if/else-if or a switch): the last-element arm must be
// reachable from the first-element arm within one iteration.
func ruleIndependentEnds(c *Ctx, r *Report, rule string, scope func(*ssa.Function) bool, floor int) {
	n := 0
	for _, f := range c.RepoFuncs(nil) {
		if f.Synthetic != "" || (scope != nil && !scope(f)) || strings.HasSuffix(c.Fset.Position(f.Pos()).Filename, "_test.go") {
			continue
		}
		for _, l := range naturalLoops(f) {
			var firstArms, lastArms []*ssa.BasicBlock
			var firstIf, lastIf []*ssa.If
			for b := range l.blocks {
				if len(b.Instrs) == 0 {
					continue
				}
				ifi, ok := b.Instrs[len(b.Instrs)-1].(*ssa.If)
				if !ok {
					continue
				}
				bo, ok := ifi.Cond.(*ssa.BinOp)
				if !ok || bo.Op != token.EQL {
					continue
				}
				if !dependsOnLoopPhi(bo.X, l, 0) {
					continue
				}
				if cs, ok := constSet(bo.Y, 0); ok && len(cs) == 1 && cs[0] == 0 {
					firstArms = append(firstArms, b.Succs[0])
					firstIf = append(firstIf, ifi)
					continue
				}
				// len(x) - 1
				if sub, ok := stripConv(bo.Y).(*ssa.BinOp); ok && sub.Op == token.SUB {
					if cs, ok := constSet(sub.Y, 0); ok && len(cs) == 1 && cs[0] == 1 {
						if call, ok := stripConv(sub.X).(*ssa.Call); ok {
							if bi, ok := call.Call.Value.(*ssa.Builtin); ok && bi.Name() == "len" {
								lastArms = append(lastArms, b.Succs[0])
								lastIf = append(lastIf, ifi)
							}
						}
					}
				}
				// a variable holding len(x)-1 (lastChunkIdx := len(chunks) - 1)
			}
			if len(firstArms) == 0 || len(lastArms) == 0 {
				continue
			}
			n++
			key := fmt.Sprintf("%s:%s", SSAFuncName(f), srcOf(f, firstPos(l.header.Succs[0]), "loop", "loop"))
			// within one iteration: from the first arm, reach the block of the last test without passing the header
			ok := false
			for _, fa := range firstArms {
				for _, li := range lastIf {
					if reachesAvoiding(fa, li.Block(), l.header, l) {
						ok = true
					}
				}
			}
			if ok {
				r.OK(rule, key, c.Pos(firstIf[0].Pos()), "the first-element and last-element adjustments can both apply in one iteration")
			} else {
				r.Bad(rule, key, c.Pos(lastIf[0].Pos()), "the adjustment of the last element is in an arm that excludes the adjustment of the first element: for a one-element sequence the end is not clipped")
			}
		}
	}
	r.Floor(rule, floor)
}

func reachesAvoiding(from, to, avoid *ssa.BasicBlock, l *loopInfo) bool {
	seen := map[*ssa.BasicBlock]bool{avoid: true}
	stack := []*ssa.BasicBlock{from}
	for len(stack) > 0 {
		b := stack[len(stack)-1]
		stack = stack[:len(stack)-1]
		if b == to {
			return true
		}
		if seen[b] || !l.blocks[b] {
			continue
		}
		seen[b] = true
		stack = append(stack, b.Succs...)
	}
	return false
}

// ruleFreshCBC (C07) — cbcs: every protected range is CBC-coded starting from the constant IV, so the
// cipher.BlockMode on which CryptBlocks is called is created (NewCBCEncrypter/Decrypter) in the function that
// codes one range, or — when passed in — inside the same loop iteration as the call that codes the range.
func ruleFreshCBC(c *Ctx, r *Report) {
	n := 0
	for _, f := range c.RepoFuncs(IsLib) {
		if f.Pkg == nil || f.Pkg.Pkg.Name() != "mp4" || f.Synthetic != "" {
			continue
		}
		for _, b := range f.Blocks {
			for _, ins := range b.Instrs {
				call, ok := ins.(*ssa.Call)
				if !ok || !call.Call.IsInvoke() || call.Call.Method.Name() != "CryptBlocks" {
					continue
				}
				key := SSAFuncName(f) + ":CryptBlocks"
				n++
				recv := call.Call.Value
				if originatesFromCBC(recv, 0) {
					if n > 0 {
						r.OKOnce("O-FRESHIV", key, c.Pos(call.Pos()), "the block mode is created from the IV in the function that codes one range")
					}
					continue
				}
				if par, ok := recv.(*ssa.Parameter); ok {
					// every caller creates it in the same loop iteration as the call
					bad := ""
					idx := -1
					for i, p := range f.Params {
						if p == par {
							idx = i
						}
					}
					node := c.CallGraph().Nodes[f]
					if node != nil {
						for _, e := range node.In {
							if e.Site == nil || idx < 0 {
								continue
							}
							arg := e.Site.Common().Args[idx]
							cf := e.Caller.Func
							mk, isCall := arg.(*ssa.Call)
							if !isCall && !originatesFromCBC(arg, 0) {
								bad = "the block mode passed by " + SSAFuncName(cf) + " is not created by NewCBCEncrypter/Decrypter there"
								continue
							}
							for _, lp := range naturalLoops(cf) {
								if lp.blocks[e.Site.Block()] {
									in := isCall && lp.blocks[mk.Block()]
									if !isCall {
										in = false
										if src := cbcSource(arg, 0); src != nil && lp.blocks[src.Block()] {
											in = true
										}
									}
									if !in {
										bad = "the block mode is created in " + SSAFuncName(cf) + " outside the loop over the protected ranges and reused for every range: CBC chaining carries over from one range to the next"
									}
								}
							}
						}
					}
					if bad != "" {
						r.Bad("O-FRESHIV", key, c.Pos(call.Pos()), bad)
					} else {
						r.OKOnce("O-FRESHIV", key, c.Pos(call.Pos()), "callers create the block mode in the iteration that codes the range")
					}
					continue
				}
				r.OKOnce("O-FRESHIV", key+":ctr", c.Pos(call.Pos()), "not a CBC block mode (stream cipher)")
			}
		}
	}
	r.Floor("O-FRESHIV", 1)
}

func cbcSource(v ssa.Value, depth int) *ssa.Call {
	if depth > 5 {
		return nil
	}
	switch x := v.(type) {
	case *ssa.Call:
		n := calleeName(x.Common())
		if strings.HasSuffix(n, "cipher.NewCBCEncrypter") || strings.HasSuffix(n, "cipher.NewCBCDecrypter") {
			return x
		}
	case *ssa.Phi:
		for _, e := range x.Edges {
			if s := cbcSource(e, depth+1); s != nil {
				return s
			}
		}
	case *ssa.MakeInterface:
		return cbcSource(x.X, depth+1)
	case *ssa.ChangeInterface:
		return cbcSource(x.X, depth+1)
	case *ssa.UnOp:
		if al, ok := x.X.(*ssa.Alloc); ok {
			for _, ref := range *al.Referrers() {
				if st, ok := ref.(*ssa.Store); ok && st.Addr == ssa.Value(al) {
					if s := cbcSource(st.Val, depth+1); s != nil {
						return s
					}
				}
			}
		}
	}
	return nil
}

func originatesFromCBC(v ssa.Value, depth int) bool { return cbcSource(v, depth) != nil }

// ruleNoReaderAliasing (C20/C04) — decoders on the io.Reader path copy what they keep: no call in the library
// to reader methods that hand out the reader's own storage ((*bytes.Buffer).Next/Bytes, (*bufio.Reader).Peek).
func ruleNoReaderAliasing(c *Ctx, r *Report) {
	forbidden := []string{"(*bytes.Buffer).Next", "(*bytes.Buffer).Bytes", "(*bufio.Reader).Peek", "(*bytes.Reader).WriteTo"}
	n := 0
	funcs := 0
	for _, f := range c.RepoFuncs(IsLib) {
		if f.Synthetic != "" || strings.HasSuffix(c.Fset.Position(f.Pos()).Filename, "_test.go") {
			continue
		}
		takesReader := false
		for _, p := range f.Params {
			if p.Type().String() == "io.Reader" || p.Type().String() == "io.ReadSeeker" {
				takesReader = true
			}
		}
		if !takesReader {
			continue
		}
		funcs++
		for _, b := range f.Blocks {
			for _, ins := range b.Instrs {
				call, ok := ins.(ssa.CallInstruction)
				if !ok {
					continue
				}
				g := call.Common().StaticCallee()
				if g == nil {
					continue
				}
				for _, fb := range forbidden {
					if g.String() == fb {
						// only when the receiver comes from the reader parameter (type assertion), not from a local buffer
						if fromReaderParam(call.Common().Args[0], 0) {
							n++
							r.Bad("R4", SSAFuncName(f)+":"+fb, c.Pos(call.Pos()), "the decoder keeps a slice of the reader's own storage ("+fb+" on the io.Reader it was given): later in-place operations on the decoded data modify the caller's input, and concurrent decodes of the same bytes interfere")
						}
					}
				}
			}
		}
	}
	if funcs < 60 {
		r.Undecided("R4", "scope", "", fmt.Sprintf("only %d library functions take an io.Reader", funcs))
	} else if n == 0 {
		r.OK("R4", "no-reader-aliasing", "", fmt.Sprintf("%d library functions taking an io.Reader examined: none calls a storage-sharing method of bytes.Buffer/bufio.Reader on it", funcs))
	}
}

func fromReaderParam(v ssa.Value, depth int) bool {
	if depth > 5 {
		return false
	}
	switch x := v.(type) {
	case *ssa.Parameter:
		return x.Type().String() == "io.Reader" || x.Type().String() == "io.ReadSeeker"
	case *ssa.TypeAssert:
		return fromReaderParam(x.X, depth+1)
	case *ssa.Extract:
		return fromReaderParam(x.Tuple, depth+1)
	case *ssa.Phi:
		for _, e := range x.Edges {
			if fromReaderParam(e, depth+1) {
				return true
			}
		}
	case *ssa.ChangeInterface:
		return fromReaderParam(x.X, depth+1)
	}
	return false
}

// ruleNoMdatHeaderConstant — the start of the mdat payload comes from the box (HeaderSize /
// PayloadAbsoluteOffset, 8 or 16 bytes): no function adds a constant to MdatBox.StartPos.
func ruleNoMdatHeaderConstant(c *Ctx, r *Report, rule string) {
	n := 0
	uses := 0
	for _, f := range c.RepoFuncs(nil) {
		if f.Synthetic != "" || strings.HasSuffix(c.Fset.Position(f.Pos()).Filename, "_test.go") {
			continue
		}
		for _, b := range f.Blocks {
			for _, ins := range b.Instrs {
				if v, ok := ins.(ssa.Value); ok && isDirectFieldLoad(v, "MdatBox.StartPos") {
					uses++
				}
				bo, ok := ins.(*ssa.BinOp)
				if !ok || bo.Op != token.ADD {
					continue
				}
				for i, o := range []ssa.Value{bo.X, bo.Y} {
					other := []ssa.Value{bo.Y, bo.X}[i]
					if !isDirectFieldLoad(stripConv(o), "MdatBox.StartPos") {
						continue
					}
					if cs, ok := constSet(other, 0); ok && len(cs) == 1 && cs[0] > 0 {
						n++
						r.Bad(rule, SSAFuncName(f)+":mdat.StartPos+"+fmt.Sprint(cs[0]), c.Pos(bo.Pos()), "the payload start is computed as StartPos plus a constant: a mdat box with a 16-byte (largesize) header is read 8 bytes off")
					}
				}
			}
		}
	}
	if uses < 3 {
		r.Undecided(rule, "mdat-start-uses", "", fmt.Sprintf("only %d reads of MdatBox.StartPos found", uses))
	} else if n == 0 {
		r.OK(rule, "mdat-payload-start", "", fmt.Sprintf("%d reads of MdatBox.StartPos: none is offset by a constant header length", uses))
	}
}

// ruleMdatEmptyTest (C08) — File.AddChild keeps the first non-empty mdat of a progressive file: the emptiness
// test must see a lazily decoded mdat as non-empty, i.e. depend on MdatBox.lazyDataSize (through Size()).
func ruleMdatEmptyTest(c *Ctx, r *Report) {
	f := c.ssaFunc(r, "DEP", "mp4", "File.AddChild")
	if f == nil {
		return
	}
	key := "mp4.File.AddChild:mdat-empty-test"
	sts := storesTo(f, "File.Mdat")
	if len(sts) == 0 {
		r.Undecided("DEP", key, c.Pos(f.Pos()), "no store to File.Mdat")
		return
	}
	ok := false
	for _, st := range sts {
		for _, cond := range controlCondsDeep(st.Block()) {
			sl := backSlice(c, cond, 2)
			if sliceHas(sl, "field", "MdatBox.lazyDataSize") {
				ok = true
			}
		}
	}
	if ok {
		r.OK("DEP", key, c.Pos(sts[0].Pos()), "the test that the previous mdat is empty depends on the lazily decoded size")
	} else {
		r.Bad("DEP", key, c.Pos(sts[0].Pos()), "the test that the previous mdat is empty does not depend on MdatBox.lazyDataSize: a lazily decoded mdat always looks empty and a later mdat replaces it")
	}
}

// ruleChunkEntryWalk (C09) — GetContainingChunks: the stsc entry used for a chunk is looked up per chunk:
// inside the chunk loop an element of Entries is loaded with an index that changes in the loop.
func ruleChunkEntryWalk(c *Ctx, r *Report) {
	f := c.ssaFunc(r, "DEP", "mp4", "StscBox.GetContainingChunks")
	if f == nil {
		return
	}
	key := "mp4.StscBox.GetContainingChunks:entry-per-chunk"
	found := false
	for _, l := range naturalLoops(f) {
		for b := range l.blocks {
			for _, ins := range b.Instrs {
				ia, ok := ins.(*ssa.IndexAddr)
				if !ok || !isDirectFieldLoad(ia.X, "StscBox.Entries") {
					continue
				}
				if dependsOnLoopPhi(ia.Index, l, 0) {
					found = true
				}
			}
		}
	}
	if found {
		r.OK("DEP", key, c.Pos(f.Pos()), "inside the chunk loop the stsc entry is loaded with an index that advances with the chunks")
	} else {
		r.Bad("DEP", key, c.Pos(f.Pos()), "inside the chunk loop no stsc entry is loaded with a loop-variant index: chunks of intermediate entries are described with the wrong samples-per-chunk")
	}
}

// ruleStssPresence (C09) — a present stss decides the sync status also when it is empty (no sync samples):
// the call of IsSyncSample is control dependent only on the nil test of the box.
func ruleStssPresence(c *Ctx, r *Report) {
	f := c.ssaFunc(r, "DEP", "mp4", "createSampleFlagsFromProgressiveBoxes")
	if f == nil {
		return
	}
	key := "mp4.createSampleFlagsFromProgressiveBoxes:stss-presence"
	calls := callsIn(f, "StssBox.IsSyncSample", false)
	if len(calls) == 0 {
		r.Bad("DEP", key, c.Pos(f.Pos()), "the sync status is not taken from the stss box")
		return
	}
	for _, ci := range calls {
		bad := false
		for _, cond := range controlCondsDeep(ci.Block()) {
			sl := backSlice(c, cond, 1)
			if sliceHas(sl, "call", "StssBox.EntryCount") || sliceHas(sl, "field", "StssBox.SampleNumber") {
				bad = true
			}
		}
		if bad {
			r.Bad("DEP", key, c.Pos(ci.Pos()), "the stss box is consulted only when it has entries: an empty stss (no sync samples) is treated like an absent one (all samples sync)")
		} else {
			r.OK("DEP", key, c.Pos(ci.Pos()), "the stss box is consulted whenever it is present")
		}
	}
}

// ruleResolvedDefault (C11/C12) — TrunBox.Duration / CommonSampleDuration take the default sample duration
// resolved from tfhd with trex as fallback: the argument depends on both.
func ruleResolvedDefault(c *Ctx, r *Report, rule string) {
	n := 0
	for _, f := range c.RepoFuncs(nil) {
		if f.Synthetic != "" || strings.HasSuffix(c.Fset.Position(f.Pos()).Filename, "_test.go") {
			continue
		}
		for _, name := range []string{"TrunBox.Duration", "TrunBox.CommonSampleDuration"} {
			for i, ci := range callsIn(f, name, false) {
				n++
				key := fmt.Sprintf("%s:%s#%d", SSAFuncName(f), name, i)
				args := ci.Common().Args
				sl := backSlice(c, args[len(args)-1], 1)
				hasTfhd := sliceHas(sl, "field", "TfhdBox.DefaultSampleDuration")
				hasTrex := sliceHas(sl, "field", "TrexBox.DefaultSampleDuration")
				if _, isPar := stripConv(args[len(args)-1]).(*ssa.Parameter); isPar {
					r.OK(rule, key, c.Pos(ci.Pos()), "the default is a parameter of the caller")
					continue
				}
				if hasTfhd && hasTrex {
					r.OK(rule, key, c.Pos(ci.Pos()), "the default duration depends on tfhd and on trex")
				} else {
					r.Bad(rule, key, c.Pos(ci.Pos()), "the default sample duration passed to "+name+" is not resolved from both tfhd and trex: a default that comes from the other box is ignored")
				}
			}
		}
	}
	_ = n
}

// ruleSetterOverwrites (C19) — MdhdBox.SetLanguage replaces the packed language: the stored value does not
// depend on the previous value of the field.
func ruleSetterOverwrites(c *Ctx, r *Report) {
	f := c.ssaFunc(r, "DEP", "mp4", "MdhdBox.SetLanguage")
	if f == nil {
		return
	}
	key := "mp4.MdhdBox.SetLanguage:overwrites"
	sts := storesTo(f, "MdhdBox.Language")
	if len(sts) == 0 {
		r.Bad("DEP", key, c.Pos(f.Pos()), "the language is not stored")
		return
	}
	for _, st := range sts {
		if sliceHas(backSlice(c, st.Val, 0), "field", "MdhdBox.Language") {
			r.Bad("DEP", key, c.Pos(st.Pos()), "the new language code is combined with the previous value of the field: setting a language twice (default, then the real one) corrupts it")
			return
		}
	}
	r.OK("DEP", key, c.Pos(sts[0].Pos()), "the packed language is computed from the argument only")
}

// ruleAscArms (C18/C19) — SetAACDescriptor: an object type with parametric stereo (PSPresentFlag) is an SBR
// type: the arm that sets PSPresentFlag also sets SBRPresentFlag and ExtensionFrequency.
func ruleAscArms(c *Ctx, r *Report) {
	f := c.ssaFunc(r, "DEP", "mp4", "TrakBox.SetAACDescriptor")
	if f == nil {
		return
	}
	key := "mp4.TrakBox.SetAACDescriptor:ps-implies-sbr"
	var psTrue []*ssa.Store
	for _, st := range storesTo(f, "AudioSpecificConfig.PSPresentFlag") {
		if k, ok := st.Val.(*ssa.Const); ok && k.Value != nil && constant.BoolVal(k.Value) {
			psTrue = append(psTrue, st)
		}
	}
	if len(psTrue) == 0 {
		r.Undecided("DEP", key, c.Pos(f.Pos()), "no arm sets PSPresentFlag")
		return
	}
	for _, st := range psTrue {
		sbr, ext := false, false
		for _, o := range storesTo(f, "AudioSpecificConfig.SBRPresentFlag") {
			if k, ok := o.Val.(*ssa.Const); ok && k.Value != nil && constant.BoolVal(k.Value) && (o.Block() == st.Block() || o.Block().Dominates(st.Block())) {
				sbr = true
			}
		}
		for _, o := range storesTo(f, "AudioSpecificConfig.ExtensionFrequency") {
			if _, isC := o.Val.(*ssa.Const); !isC && (o.Block() == st.Block() || o.Block().Dominates(st.Block())) {
				ext = true
			}
		}
		if sbr && ext {
			r.OK("DEP", key, c.Pos(st.Pos()), "the arm that sets PSPresentFlag also sets SBRPresentFlag and ExtensionFrequency")
		} else {
			r.Bad("DEP", key, c.Pos(st.Pos()), "the arm that sets PSPresentFlag does not set SBRPresentFlag and ExtensionFrequency (Go switch arms do not fall through): HE-AAC v2 is written with extension frequency 0")
		}
	}
}

// ruleCropCounts (C10) — the crop functions set the new entry/sample counts from the cut point, not from
// the length of an optional table (a uniform-size stsz has no per-sample table).
func ruleCropCounts(c *Ctx, r *Report) {
	f := c.ssaFunc(r, "DEP", "cmd/mp4ff-crop", "cropStsz")
	if f == nil {
		return
	}
	key := "cmd/mp4ff-crop.cropStsz:sample-count-from-cut"
	sts := storesTo(f, "StszBox.SampleNumber")
	if len(sts) == 0 {
		r.Bad("DEP", key, c.Pos(f.Pos()), "the sample count of the cropped stsz is not set")
		return
	}
	for _, st := range sts {
		requireDeps(c, r, "DEP", key, c.Pos(st.Pos()), st.Val, []string{"param:lastSampleNr"}, nil, "sample count of the cropped stsz")
	}
}

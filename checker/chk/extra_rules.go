package chk

// Additional narrow rules added after the second round of seeded changes.

import (
	"go/constant"
	"go/token"
	"strings"

	"golang.org/x/tools/go/ssa"
)

// ruleFFRun (C17) — the 0xFF-run coding of SEI type/size: the writer keeps emitting 0xFF while the remaining
// value is >= 255, so that the terminating byte is < 255 (a value of exactly 255 is FF 00).
func ruleFFRun(c *Ctx, r *Report) {
	f := c.ssaFunc(r, "O-FFRUN", "bits", "EBSPWriter.WriteSEIValue")
	if f == nil {
		return
	}
	loops := naturalLoops(f)
	key := "bits.EBSPWriter.WriteSEIValue:continuation-test"
	if len(loops) != 1 {
		r.Undecided("O-FFRUN", key, c.Pos(f.Pos()), "expected one loop emitting 0xFF bytes")
		return
	}
	l := loops[0]
	found := false
	for b := range l.blocks {
		if len(b.Instrs) == 0 {
			continue
		}
		ifi, ok := b.Instrs[len(b.Instrs)-1].(*ssa.If)
		if !ok {
			continue
		}
		exits := !l.blocks[b.Succs[0]] || !l.blocks[b.Succs[1]]
		bo, isBo := ifi.Cond.(*ssa.BinOp)
		if !exits || !isBo {
			continue
		}
		cst, isC := bo.Y.(*ssa.Const)
		if !isC || cst.Value == nil {
			continue
		}
		v, _ := constant.Int64Val(cst.Value)
		found = true
		// the loop continues on Succs[0] if that is inside the loop
		cont := bo.Op
		if !l.blocks[b.Succs[0]] {
			cont = map[token.Token]token.Token{token.GEQ: token.LSS, token.GTR: token.LEQ, token.LSS: token.GEQ, token.LEQ: token.GTR}[bo.Op]
		}
		ok2 := cont == token.GEQ && v == 255 || cont == token.GTR && v == 254
		if ok2 {
			r.OK("O-FFRUN", key, c.Pos(bo.Pos()), "0xFF is emitted while the remaining value is >= 255; the terminating byte is < 255")
		} else {
			r.Bad("O-FFRUN", key, c.Pos(bo.Pos()), "the 0xFF run continues only while the remaining value is "+cont.String()+" "+cst.Value.String()+": a value that is a multiple of 255 ends with a byte 0xFF and the reader keeps adding the next byte")
		}
	}
	if !found {
		r.Undecided("O-FFRUN", key, c.Pos(f.Pos()), "loop exit test against a constant not found")
	}
}

// ruleTrexByID (C06) — DecryptInit attaches each trex to the track info with the same track id.
func ruleTrexByID(c *Ctx, r *Report) {
	f := c.ssaFunc(r, "DEP", "mp4", "DecryptInit")
	if f == nil {
		return
	}
	sts := storesTo(f, "DecryptTrackInfo.Trex")
	key := "mp4.DecryptInit:trex-by-track-id"
	if len(sts) == 0 {
		r.Bad("DEP", key, c.Pos(f.Pos()), "no trex is attached to the per-track decrypt info")
		return
	}
	for _, st := range sts {
		ok := false
		for _, cond := range controlConds(st.Block()) {
			sl := backSlice(c, cond, 0)
			if sliceHas(sl, "field", "TrexBox.TrackID") && sliceHas(sl, "field", "DecryptTrackInfo.TrackID") {
				ok = true
			}
		}
		if ok {
			r.OK("DEP", key, c.Pos(st.Pos()), "trex is attached under a test that its track id equals the track info's id")
		} else {
			r.Bad("DEP", key, c.Pos(st.Pos()), "a trex is attached to a track info without testing that their track ids are equal (association by position): defaults of another track are applied when mvex order differs from trak order")
		}
	}
}

// ruleSencSearch (C06) — ContainsSencBox reports "not found" only after all children were looked at.
func ruleSencSearch(c *Ctx, r *Report) {
	f := c.ssaFunc(r, "O-SEARCH", "mp4", "TrafBox.ContainsSencBox")
	if f == nil {
		return
	}
	loops := naturalLoops(f)
	key := "mp4.TrafBox.ContainsSencBox:not-found-after-loop"
	bad := false
	n := 0
	for _, b := range f.Blocks {
		for _, ins := range b.Instrs {
			ret, ok := ins.(*ssa.Return)
			if !ok || len(ret.Results) == 0 {
				continue
			}
			cst, isC := ret.Results[0].(*ssa.Const)
			if !isC || cst.Value == nil || constant.BoolVal(cst.Value) {
				continue
			}
			n++
			// a "not found" return must not be reachable from the loop body without going through the
			// header's exit edge
			for _, l := range loops {
				seen := map[*ssa.BasicBlock]bool{l.header: true}
				var stack []*ssa.BasicBlock
				for _, s := range l.header.Succs {
					if l.blocks[s] {
						stack = append(stack, s)
					}
				}
				for len(stack) > 0 {
					x := stack[len(stack)-1]
					stack = stack[:len(stack)-1]
					if seen[x] {
						continue
					}
					seen[x] = true
					if x == b {
						bad = true
					}
					stack = append(stack, x.Succs...)
				}
			}
		}
	}
	switch {
	case n == 0:
		r.Undecided("O-SEARCH", key, c.Pos(f.Pos()), "no 'not found' return")
	case bad:
		r.Bad("O-SEARCH", key, c.Pos(f.Pos()), "the search for a senc box gives up ('not found') from inside the loop over the children: a box that precedes the senc box hides it")
	default:
		r.OK("O-SEARCH", key, c.Pos(f.Pos()), "'not found' is returned only after the loop over all children")
	}
}

// ruleBoxSizeGuard (C04) — DecodeBoxSR compares the full unsigned box size with the bytes available before
// any decoder is called.
func ruleBoxSizeGuard(c *Ctx, r *Report) {
	f := c.ssaFunc(r, "G-SIZE", "mp4", "DecodeBoxSR")
	if f == nil {
		return
	}
	key := "mp4.DecodeBoxSR:size-vs-remaining"
	var guards []*ssa.If
	for _, b := range f.Blocks {
		if len(b.Instrs) == 0 {
			continue
		}
		ifi, ok := b.Instrs[len(b.Instrs)-1].(*ssa.If)
		if !ok {
			continue
		}
		bo, ok := ifi.Cond.(*ssa.BinOp)
		if !ok {
			continue
		}
		switch bo.Op {
		case token.GTR, token.GEQ, token.LSS, token.LEQ:
		default:
			continue
		}
		for i, o := range []ssa.Value{bo.X, bo.Y} {
			other := []ssa.Value{bo.Y, bo.X}[i]
			if isDirectFieldLoad(o, "BoxHeader.Size") && typeBits(o.Type()) == 64 && !typInfoOf(o.Type()).signed {
				if sliceHas(backSlice(c, other, 0), "call", "NrRemainingBytes") {
					guards = append(guards, ifi)
				}
			}
		}
	}
	if len(guards) == 0 {
		r.Bad("G-SIZE", key, c.Pos(f.Pos()), "no comparison of the unsigned 64-bit box size itself with the remaining bytes: a size with the top bit set (or one narrowed to int) passes the check and reaches decoders that allocate from it")
		return
	}
	// every decoder call is dominated by the guard
	ok := true
	for _, b := range f.Blocks {
		for _, ins := range b.Instrs {
			call, isCall := ins.(*ssa.Call)
			if !isCall {
				continue
			}
			dyn := call.Call.StaticCallee() == nil && !call.Call.IsInvoke()
			if _, isB := call.Call.Value.(*ssa.Builtin); isB {
				dyn = false
			}
			unk := strings.HasSuffix(calleeName(call.Common()), "mp4.DecodeUnknownSR")
			if !dyn && !unk {
				continue
			}
			dom := false
			for _, g := range guards {
				if g.Block().Dominates(call.Block()) {
					dom = true
				}
			}
			if !dom {
				ok = false
			}
		}
	}
	if ok {
		r.OK("G-SIZE", key, c.Pos(guards[0].Pos()), "the unsigned 64-bit size is compared with the remaining bytes before any decoder runs")
	} else {
		r.Bad("G-SIZE", key, c.Pos(guards[0].Pos()), "a decoder is called on a path that has not passed the size check")
	}
}

func isDirectFieldLoad(v ssa.Value, typeField string) bool {
	switch x := v.(type) {
	case *ssa.UnOp:
		if fa, ok := x.X.(*ssa.FieldAddr); ok {
			if fv := fieldVar(fa.X.Type(), fa.Field); fv != nil && typeName(fa.X.Type())+"."+fv.Name() == typeField {
				return true
			}
		}
	case *ssa.Field:
		if fv := fieldVar(x.X.Type(), x.Field); fv != nil && typeName(x.X.Type())+"."+fv.Name() == typeField {
			return true
		}
	}
	return false
}

// ruleAddSidxOrder (C12) — in the add-sidx tool, encryption boxes are removed before the index sizes are computed.
func ruleAddSidxOrder(c *Ctx, r *Report) {
	f := c.ssaFunc(r, "O-PRE", "examples/add-sidx", "run")
	if f == nil {
		return
	}
	rm := callsIn(f, "examples/add-sidx.removeEncryptionBoxes", false)
	up := callsIn(f, "File.UpdateSidx", false)
	key := "examples/add-sidx.run:remove-before-update"
	if len(up) == 0 {
		r.Undecided("O-PRE", key, c.Pos(f.Pos()), "UpdateSidx is not called")
		return
	}
	bad := false
	for _, a := range rm {
		for _, u := range up {
			if instrReaches(u, a) && !instrDominates(a, u) {
				bad = true
			}
		}
	}
	if bad {
		r.Bad("O-PRE", key, c.Pos(up[0].Pos()), "boxes are removed after UpdateSidx has computed the segment sizes: the index references describe bytes that are not written")
	} else {
		r.OK("O-PRE", key, c.Pos(up[0].Pos()), "box removal precedes UpdateSidx")
	}
}

// ruleDefaultsBeforeDur (C12) — findSegmentData resolves tfhd/trex defaults before summing durations.
func ruleDefaultsBeforeDur(c *Ctx, r *Report) {
	f := c.ssaFunc(r, "O-PRE", "mp4", "findSegmentData")
	if f == nil {
		return
	}
	key := "mp4.findSegmentData:defaults-before-durations"
	defs := callsIn(f, "TrunBox.AddSampleDefaultValues", false)
	if len(defs) == 0 {
		r.Bad("O-PRE", key, c.Pos(f.Pos()), "sample defaults from tfhd/trex are not applied (AddSampleDefaultValues) before the durations of the reference track are summed: a tfhd default duration is ignored")
		return
	}
	// the tfhd of the traf must be handed over
	sl := backSlice(c, defs[0].Common().Args[1], 0)
	if sliceHas(sl, "field", "TrafBox.Tfhd") {
		r.OK("O-PRE", key, c.Pos(defs[0].Pos()), "AddSampleDefaultValues(tfhd, trex) runs on every run of the reference track")
	} else {
		r.Bad("O-PRE", key, c.Pos(defs[0].Pos()), "AddSampleDefaultValues is not given the traf's tfhd")
	}
}

// ruleTrexFallback (C12) — the trex defaults are only a fallback: wherever a default duration/size/flags is read
// from the trex box for use, the tfhd default of the same kind is consulted in the same function, or in a repo
// function the value is handed to.
func ruleTrexFallback(c *Ctx, r *Report) {
	kinds := []string{"DefaultSampleDuration", "DefaultSampleSize", "DefaultSampleFlags"}
	n := 0
	for _, f := range c.RepoFuncs(IsLib) {
		if f.Synthetic != "" || strings.HasSuffix(c.Fset.Position(f.Pos()).Filename, "_test.go") {
			continue
		}
		if recv := f.Signature.Recv(); recv != nil && typeName(recv.Type()) == "TrexBox" {
			continue // the box's own codec, size and info methods
		}
		if strings.HasPrefix(f.Name(), "DecodeTrex") || strings.HasPrefix(f.Name(), "CreateTrex") {
			continue
		}
		for _, k := range kinds {
			var loads []ssa.Value
			for _, b := range f.Blocks {
				for _, ins := range b.Instrs {
					if v, ok := ins.(ssa.Value); ok && isDirectFieldLoad(v, "TrexBox."+k) {
						loads = append(loads, v)
					}
				}
			}
			if len(loads) == 0 {
				continue
			}
			n++
			key := SSAFuncName(f) + ":trex." + k
			has := len(callsIn(f, "TfhdBox.Has"+k, false)) > 0
			if !has {
				// handed to a repo function which consults tfhd
				for _, ld := range loads {
					for _, ref := range *ld.Referrers() {
						if ci, ok := ref.(ssa.CallInstruction); ok {
							if g := ci.Common().StaticCallee(); g != nil && len(callsIn(g, "TfhdBox.Has"+k, false)) > 0 {
								has = true
							}
						}
					}
				}
			}
			if has {
				r.OK("O-FALLBACK", key, c.Pos(loads[0].Pos()), "the trex default is read where the tfhd default of the same kind is consulted")
			} else {
				r.Bad("O-FALLBACK", key, c.Pos(loads[0].Pos()), "trex."+k+" is used without consulting tfhd.Has"+k+": a default set in the fragment's tfhd is ignored")
			}
		}
	}
	_ = n
	r.Floor("O-FALLBACK", 5)
}

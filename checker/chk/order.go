package chk

import (
	"fmt"
	"go/token"
	"go/types"
	"sort"
	"strings"

	"golang.org/x/tools/go/ssa"
)

// W-ORDER: field order and width agreement between the functions that read a struct from a bits.SliceReader and
// the methods that write it to a bits.SliceWriter. Weaker than E1 (no configurations, no bit provenance), but it
// needs no model of the control flow, so it also covers the boxes and descriptors E1 tables as irregular.

type ioField struct {
	owner string // struct type that owns the field
	field string
	width int64 // bits; -1 variable-length bytes/string, -2 zero-terminated string, -3 non-constant bit count, -4 string with a computed terminator flag
	pos   token.Pos
	ins   ssa.Instruction
}

var readerWidths = map[string]int64{"ReadUint8": 8, "ReadUint16": 16, "ReadInt16": 16, "ReadUint24": 24, "ReadUint32": 32, "ReadInt32": 32,
	"ReadUint64": 64, "ReadInt64": 64, "ReadFixedLengthString": -1, "ReadBytes": -1, "RemainingBytes": -1, "ReadZeroTerminatedString": -2,
	"ReadPossiblyZeroTerminatedString": -2, "ReadFlag": 1}
var writerWidths = map[string]int64{"WriteUint8": 8, "WriteUint16": 16, "WriteInt16": 16, "WriteUint24": 24, "WriteUint32": 32, "WriteInt32": 32,
	"WriteUint64": 64, "WriteInt64": 64, "WriteBytes": -1, "WriteFlag": 1}

func isSliceRW(t types.Type, name string) bool {
	return strings.HasSuffix(t.String(), "bits."+name)
}

// ownerField: the struct type and field a store address / a read value belongs to.
func addrOwnerField(addr ssa.Value) (string, string) {
	fa, ok := addr.(*ssa.FieldAddr)
	if !ok {
		return "", ""
	}
	return typeName(fa.X.Type()), fieldNameOf(fa)
}

func valueOwnerField(v ssa.Value, depth int) (string, string) {
	if depth > 6 {
		return "", ""
	}
	switch x := v.(type) {
	case *ssa.Field:
		if fv := fieldVar(x.X.Type(), x.Field); fv != nil {
			return typeName(x.X.Type()), fv.Name()
		}
	case *ssa.UnOp:
		if x.Op == token.MUL {
			if o, f := addrOwnerField(x.X); f != "" {
				return o, f
			}
			return "", ""
		}
		return valueOwnerField(x.X, depth+1)
	case *ssa.Convert:
		return valueOwnerField(x.X, depth+1)
	case *ssa.ChangeType:
		return valueOwnerField(x.X, depth+1)
	case *ssa.BinOp:
		if o, f := valueOwnerField(x.X, depth+1); f != "" {
			return o, f
		}
		return valueOwnerField(x.Y, depth+1)
	}
	return "", ""
}

// storedInto: the struct fields a read value is stored into (through conversions, shifts and masks).
func storedInto(v ssa.Value, depth int, out *[][2]string) {
	if depth > 6 || v.Referrers() == nil {
		return
	}
	for _, ref := range *v.Referrers() {
		switch x := ref.(type) {
		case *ssa.Store:
			if x.Val == v {
				if o, f := addrOwnerField(x.Addr); f != "" {
					*out = append(*out, [2]string{o, f})
				}
			}
		case *ssa.Convert:
			storedInto(x, depth+1, out)
		case *ssa.ChangeType:
			storedInto(x, depth+1, out)
		case *ssa.BinOp:
			switch x.Op {
			case token.SHL, token.SHR, token.AND, token.OR, token.ADD, token.SUB:
				// only when the other operand is a constant: the value is still "this field's bits"
				other := x.Y
				if x.Y == v {
					other = x.X
				}
				if _, isC := other.(*ssa.Const); isC {
					storedInto(x, depth+1, out)
				}
			}
		case *ssa.Phi:
			storedInto(x, depth+1, out)
		}
	}
}

func readSeq(f *ssa.Function) []ioField {
	var out []ioField
	for _, b := range f.Blocks {
		for _, ins := range b.Instrs {
			call, ok := ins.(*ssa.Call)
			if !ok {
				continue
			}
			var name string
			var w int64
			known := false
			if call.Call.IsInvoke() && isSliceRW(call.Call.Value.Type(), "SliceReader") {
				name = call.Call.Method.Name()
				w, known = readerWidths[name]
				if name == "ReadBits" {
					known = true
					if cs, ok := constSet(call.Call.Args[0], 0); ok && len(cs) == 1 {
						w = cs[0]
					} else {
						w = -3
					}
				}
			} else if h := call.Call.StaticCallee(); h != nil && h.Signature.Recv() != nil && strings.HasSuffix(h.Signature.Recv().Type().String(), "bits.Reader") {
				// the bit reader of the configuration boxes (dac3, dec3): Read(n) / ReadFlag()
				switch h.Name() {
				case "Read":
					known = true
					if cs, ok := constSet(call.Call.Args[1], 0); ok && len(cs) == 1 {
						w = cs[0]
					} else {
						w = -3
					}
				case "ReadFlag":
					known, w = true, 1
				}
			}
			if !known {
				continue
			}
			var into [][2]string
			storedInto(call, 0, &into)
			for _, of := range into {
				out = append(out, ioField{of[0], of[1], w, call.Pos(), call})
			}
		}
	}
	sort.SliceStable(out, func(i, j int) bool { return out[i].pos < out[j].pos })
	return out
}

func writeSeq(f *ssa.Function) []ioField {
	var out []ioField
	for _, b := range f.Blocks {
		for _, ins := range b.Instrs {
			call, ok := ins.(*ssa.Call)
			if !ok || !call.Call.IsInvoke() || !isSliceRW(call.Call.Value.Type(), "SliceWriter") || len(call.Call.Args) == 0 {
				continue
			}
			name := call.Call.Method.Name()
			w, known := writerWidths[name]
			switch name {
			case "WriteBits":
				known = true
				if cs, ok := constSet(call.Call.Args[1], 0); ok && len(cs) == 1 {
					w = cs[0]
				} else {
					w = -3
				}
			case "WriteString":
				known = true
				w = -4
				if cs, ok := call.Call.Args[1].(*ssa.Const); ok && cs.Value != nil {
					w = -1
					if cs.Value.ExactString() == "true" {
						w = -2
					}
				}
			}
			if !known {
				continue
			}
			if o, fl := valueOwnerField(call.Call.Args[0], 0); fl != "" {
				out = append(out, ioField{o, fl, w, call.Pos(), call})
			}
		}
	}
	sort.SliceStable(out, func(i, j int) bool { return out[i].pos < out[j].pos })
	return out
}

// insReaches: instruction a can be followed by instruction b on some path (same block: a earlier; else CFG reachability).
func insReaches(a, b ssa.Instruction, reach map[*ssa.BasicBlock]map[*ssa.BasicBlock]bool) bool {
	ba, bb := a.Block(), b.Block()
	if ba == bb {
		ia, ib := -1, -1
		for i, ins := range ba.Instrs {
			if ins == a {
				ia = i
			}
			if ins == b {
				ib = i
			}
		}
		if ia < ib {
			return true
		}
		// later in the same block: only through a cycle
		return reach[ba][ba]
	}
	return reach[ba][bb]
}

func blockReach(f *ssa.Function) map[*ssa.BasicBlock]map[*ssa.BasicBlock]bool {
	out := map[*ssa.BasicBlock]map[*ssa.BasicBlock]bool{}
	for _, b := range f.Blocks {
		seen := map[*ssa.BasicBlock]bool{}
		stack := append([]*ssa.BasicBlock{}, b.Succs...)
		for len(stack) > 0 {
			x := stack[len(stack)-1]
			stack = stack[:len(stack)-1]
			if seen[x] {
				continue
			}
			seen[x] = true
			stack = append(stack, x.Succs...)
		}
		out[b] = seen
	}
	return out
}

// fieldBefore: in seq (of one function, one owner) some site of field a can be followed by a site of field b and no
// site of b can be followed by a site of a.
func fieldBefore(seq []ioField, owner, a, b string, reach map[*ssa.BasicBlock]map[*ssa.BasicBlock]bool) bool {
	ab, ba := false, false
	for _, x := range seq {
		if x.owner != owner || x.field != a {
			continue
		}
		for _, y := range seq {
			if y.owner != owner || y.field != b {
				continue
			}
			if insReaches(x.ins, y.ins, reach) {
				ab = true
			}
			if insReaches(y.ins, x.ins, reach) {
				ba = true
			}
		}
	}
	return ab && !ba
}

func widthSet(seq []ioField, owner, f string) []int64 {
	var out []int64
	for _, x := range seq {
		if x.owner != owner || x.field != f {
			continue
		}
		has := false
		for _, w := range out {
			if w == x.width {
				has = true
			}
		}
		if !has {
			out = append(out, x.width)
		}
	}
	sort.Slice(out, func(i, j int) bool { return out[i] < out[j] })
	return out
}

func widthsAgree(d, e []int64) bool {
	norm := func(ws []int64) (fixed []int64, str bool) {
		for _, w := range ws {
			if w == -1 || w == -2 || w == -4 {
				str = true
			} else {
				fixed = append(fixed, w)
			}
		}
		return
	}
	wild := func(ws []int64) bool {
		for _, w := range ws {
			if w == -4 {
				return true
			}
		}
		return false
	}
	df, ds := norm(d)
	ef, es := norm(e)
	if fmt.Sprint(df) != fmt.Sprint(ef) || ds != es {
		return false
	}
	if ds && !wild(d) && !wild(e) {
		// both sides say exactly which string forms occur
		var dd, ee []int64
		for _, w := range d {
			if w < 0 {
				dd = append(dd, w)
			}
		}
		for _, w := range e {
			if w < 0 {
				ee = append(ee, w)
			}
		}
		return fmt.Sprint(dd) == fmt.Sprint(ee)
	}
	return true
}

// ruleFieldOrder compares, for every struct type owning fields that some function fills from a SliceReader and
// some function writes to a SliceWriter, the relative order (as CFG paths, so exclusive arms impose no order) and
// the width sets of the fields both sides mention. only: restrict to these owner types (nil = all).
func ruleFieldOrder(c *Ctx, r *Report, rule string, only map[string]bool) int {
	type side struct {
		f     *ssa.Function
		seq   []ioField
		reach map[*ssa.BasicBlock]map[*ssa.BasicBlock]bool
	}
	readers := map[string][]*side{}
	writers := map[string][]*side{}
	for _, f := range c.RepoFuncs(IsLib) {
		if f.Synthetic != "" || isTestFile(c, f) {
			continue
		}
		if rs := readSeq(f); len(rs) > 0 {
			sd := &side{f: f, seq: rs}
			owners := map[string]bool{}
			for _, x := range rs {
				owners[x.owner] = true
			}
			for o := range owners {
				readers[o] = append(readers[o], sd)
			}
		}
		if ws := writeSeq(f); len(ws) > 0 {
			sd := &side{f: f, seq: ws}
			owners := map[string]bool{}
			for _, x := range ws {
				owners[x.owner] = true
			}
			for o := range owners {
				writers[o] = append(writers[o], sd)
			}
		}
	}
	var owners []string
	for o := range readers {
		if len(writers[o]) > 0 && (only == nil || only[o]) {
			owners = append(owners, o)
		}
	}
	sort.Strings(owners)
	fieldsOf := func(seq []ioField, o string) []string {
		seen := map[string]bool{}
		var out []string
		for _, x := range seq {
			if x.owner == o && !seen[x.field] {
				seen[x.field] = true
				out = append(out, x.field)
			}
		}
		return out
	}
	n := 0
	for _, o := range owners {
		for _, rd := range readers[o] {
			for _, wr := range writers[o] {
				inE := map[string]bool{}
				for _, f := range fieldsOf(wr.seq, o) {
					inE[f] = true
				}
				var common []string
				for _, f := range fieldsOf(rd.seq, o) {
					if inE[f] {
						common = append(common, f)
					}
				}
				if len(common) < 2 {
					continue
				}
				if rd.reach == nil {
					rd.reach = blockReach(rd.f)
				}
				if wr.reach == nil {
					wr.reach = blockReach(wr.f)
				}
				n++
				key := fmt.Sprintf("%s ~ %s:(%s)", SSAFuncName(rd.f), SSAFuncName(wr.f), o)
				bad := ""
				for i := 0; i < len(common) && bad == ""; i++ {
					for j := 0; j < len(common) && bad == ""; j++ {
						if i == j {
							continue
						}
						a, b := common[i], common[j]
						if fieldBefore(rd.seq, o, a, b, rd.reach) && fieldBefore(wr.seq, o, b, a, wr.reach) {
							bad = fmt.Sprintf("the reader fills %s before %s on every path that fills both, the writer writes %s before %s", a, b, b, a)
						}
					}
				}
				if bad == "" {
					for _, f := range common {
						d, e := widthSet(rd.seq, o, f), widthSet(wr.seq, o, f)
						if !widthsAgree(d, e) {
							bad = fmt.Sprintf("field %s is read with widths %v and written with widths %v (bits; -1 bytes/string, -2 zero-terminated string)", f, d, e)
							break
						}
					}
				}
				if bad != "" {
					r.Bad(rule, key, c.Pos(rd.f.Pos()), bad)
				} else {
					r.OK(rule, key, c.Pos(rd.f.Pos()), fmt.Sprintf("%d common fields, no pair in opposite order, same widths: %s", len(common), strings.Join(common, ",")))
				}
			}
		}
	}
	return n
}

func init() {
	Registry["WORDER"] = func(c *Ctx, r *Report) {
		fmt.Println("pairs", ruleFieldOrder(c, r, "W-ORDER", nil))
		for _, o := range r.Obls {
			if o.Status != Discharged {
				fmt.Println(o.Status, o.Key, o.Detail)
			}
		}
	}
}

// ---- S-SIZEDEP: what Size() looks at, the encoder looks at -------------------------------------------------

// recvFieldReads: the receiver's fields f reads, directly or through methods called on the same receiver
// (skip: callee names not followed).
func recvFieldReads(f *ssa.Function, skip func(*ssa.Function) bool, depth int, out map[string]bool, seen map[*ssa.Function]bool, methods map[string]*ssa.Function) {
	if f == nil || len(f.Params) == 0 || depth > 3 || seen[f] {
		return
	}
	seen[f] = true
	recv := f.Params[0]
	isRecv := func(v ssa.Value) bool {
		for i := 0; i < 4; i++ {
			if v == ssa.Value(recv) {
				return true
			}
			switch x := v.(type) {
			case *ssa.UnOp:
				v = x.X // load of a spilled receiver
			case *ssa.Alloc:
				// spilled value receiver: stores of recv into the alloc
				for _, ref := range *x.Referrers() {
					if st, ok := ref.(*ssa.Store); ok && st.Addr == x && st.Val == ssa.Value(recv) {
						return true
					}
				}
				return false
			default:
				return false
			}
		}
		return false
	}
	for _, b := range f.Blocks {
		for _, ins := range b.Instrs {
			switch x := ins.(type) {
			case *ssa.FieldAddr:
				if isRecv(x.X) {
					// only reads: the address is loaded somewhere
					for _, ref := range *x.Referrers() {
						if u, ok := ref.(*ssa.UnOp); ok && u.Op == token.MUL {
							out[fieldNameOf(x)] = true
						}
						if _, ok := ref.(*ssa.FieldAddr); ok {
							out[fieldNameOf(x)] = true
						}
						if _, ok := ref.(*ssa.IndexAddr); ok {
							out[fieldNameOf(x)] = true
						}
					}
				}
			case *ssa.Field:
				if isRecv(x.X) {
					if fv := fieldVar(x.X.Type(), x.Field); fv != nil {
						out[fv.Name()] = true
					}
				}
			case *ssa.Call:
				cal := x.Call.StaticCallee()
				if cal != nil && cal.Signature.Recv() == nil && methods != nil && depth < 3 {
					// a plain function handed the receiver as an interface value (EncodeContainerSW(b, sw)): the methods
					// it invokes on that parameter are the receiver type's methods
					for ai, a := range x.Call.Args {
						v := a
						if mi, ok := v.(*ssa.MakeInterface); ok {
							v = mi.X
						}
						if ci, ok := v.(*ssa.ChangeInterface); ok {
							v = ci.X
						}
						if !isRecv(v) || ai >= len(cal.Params) {
							continue
						}
						par := cal.Params[ai]
						for _, b2 := range cal.Blocks {
							for _, i2 := range b2.Instrs {
								if k, ok := i2.(*ssa.Call); ok && k.Call.IsInvoke() && k.Call.Value == ssa.Value(par) {
									if m := methods[k.Call.Method.Name()]; m != nil && (skip == nil || !skip(m)) {
										recvFieldReads(m, skip, depth+1, out, seen, methods)
									}
								}
							}
						}
					}
					continue
				}
				if cal == nil || len(x.Call.Args) == 0 || cal.Signature.Recv() == nil || (skip != nil && skip(cal)) {
					continue
				}
				if isRecv(x.Call.Args[0]) {
					recvFieldReads(cal, skip, depth+1, out, seen, methods)
				}
			}
		}
	}
}

// ruleSizeDependsEncoded (S-SIZEDEP): every field of the receiver that T.Size() reads (directly or through methods
// on the same receiver) is also read by T.EncodeSW, not counting the encoder's own call of Size() for the header.
// A field that changes the size but not what is written makes the two disagree for one of its values.
func ruleSizeDependsEncoded(c *Ctx, r *Report, pkgs map[string]bool) int {
	n := 0
	byType := map[string]map[string]*ssa.Function{}
	for _, f := range c.RepoFuncs(IsLib) {
		if f.Synthetic != "" || f.Signature.Recv() == nil || f.Pkg == nil || !pkgs[f.Pkg.Pkg.Name()] || f.Parent() != nil {
			continue
		}
		tn := f.Pkg.Pkg.Name() + "." + typeName(f.Signature.Recv().Type())
		if byType[tn] == nil {
			byType[tn] = map[string]*ssa.Function{}
		}
		byType[tn][f.Name()] = f
	}
	var names []string
	for tn := range byType {
		names = append(names, tn)
	}
	sort.Strings(names)
	for _, tn := range names {
		ms := byType[tn]
		size, enc := ms["Size"], ms["EncodeSW"]
		if size == nil || enc == nil {
			continue
		}
		n++
		sz := map[string]bool{}
		recvFieldReads(size, nil, 0, sz, map[*ssa.Function]bool{}, ms)
		en := map[string]bool{}
		recvFieldReads(enc, func(g *ssa.Function) bool { return g.Name() == "Size" }, 0, en, map[*ssa.Function]bool{}, ms)
		var missing []string
		var accepted []string
		for fld := range sz {
			if !en[fld] {
				if why, ok := sizeDepAccepted[tn+"."+fld]; ok {
					accepted = append(accepted, fld+" ("+why+")")
					continue
				}
				missing = append(missing, fld)
			}
		}
		sort.Strings(accepted)
		sort.Strings(missing)
		key := tn + ":Size~EncodeSW"
		if len(missing) > 0 {
			r.Bad("S-SIZEDEP", key, c.Pos(enc.Pos()), fmt.Sprintf("Size() depends on %s, which EncodeSW never reads: for some value of it the bytes written and the size announced differ", strings.Join(missing, ", ")))
		} else {
			msg := fmt.Sprintf("EncodeSW reads all %d receiver fields Size() reads", len(sz))
			if len(accepted) > 0 {
				msg += "; accepted: " + strings.Join(accepted, "; ")
			}
			r.OK("S-SIZEDEP", key, c.Pos(enc.Pos()), msg)
		}
	}
	return n
}

func init() {
	Registry["WSIZEDEP"] = func(c *Ctx, r *Report) {
		fmt.Println("types", ruleSizeDependsEncoded(c, r, map[string]bool{"mp4": true, "avc": true, "hevc": true, "av1": true, "sei": true}))
		for _, o := range r.Obls {
			if o.Status != Discharged {
				fmt.Println(o.Status, o.Key, o.Detail)
			}
		}
	}
}

// sizeDepAccepted: fields Size() reads and EncodeSW does not, each read and accepted.
var sizeDepAccepted = map[string]string{
	"mp4.MdatBox.lazyDataSize": "lazy mdat: Size() announces the payload the caller copies separately, EncodeSW writes the header only",
	"mp4.SencBox.readBoxSize":  "Size() of a decoded senc is the size read (the box is kept raw until ParseReadBox); tabled irregular for W-SE, mutation after decoding is outside the properties",
	"mp4.UnknownBox.size":      "an unknown box is name + size + raw payload by construction; the 64-bit header case is a listed known finding of W-SE",
}

// ---- S-COND: the two hand-written encoders of a type branch on the same field tests ------------------------

// condSignatures: for every branch of f on a comparison between a struct field and a constant, "Owner.Field class
// const" where class identifies the comparison up to negation (== / !=, < / >=, <= / >).
func condSignatures(f *ssa.Function) map[string]int {
	out := map[string]int{}
	for _, b := range f.Blocks {
		if len(b.Instrs) == 0 {
			continue
		}
		ifi, ok := b.Instrs[len(b.Instrs)-1].(*ssa.If)
		if !ok {
			continue
		}
		bo, ok := ifi.Cond.(*ssa.BinOp)
		if !ok {
			// a bool field tested directly (possibly negated)
			v := ifi.Cond
			if u, isNot := v.(*ssa.UnOp); isNot && u.Op == token.NOT {
				v = u.X
			}
			if owner, fld := valueOwnerField(v, 0); fld != "" {
				out[fmt.Sprintf("%s.%s bool", owner, fld)]++
			}
			continue
		}
		x, y, op := bo.X, bo.Y, bo.Op
		if _, isC := x.(*ssa.Const); isC {
			x, y = y, x
			op = map[token.Token]token.Token{token.EQL: token.EQL, token.NEQ: token.NEQ, token.LSS: token.GTR, token.GTR: token.LSS, token.LEQ: token.GEQ, token.GEQ: token.LEQ}[op]
		}
		cv, isC := y.(*ssa.Const)
		if !isC || cv.Value == nil {
			continue
		}
		owner, fld := valueOwnerField(x, 0)
		if fld == "" {
			continue
		}
		class := map[token.Token]string{token.EQL: "==", token.NEQ: "==", token.LSS: "<", token.GEQ: "<", token.LEQ: "<=", token.GTR: "<="}[op]
		if class == "" {
			continue
		}
		cst := cv.Value.ExactString()
		// for an unsigned value `x <= 0` / `x > 0` is `x == 0` / `x != 0`, and `x < 1` / `x >= 1` likewise
		if bt, ok := x.Type().Underlying().(*types.Basic); ok && bt.Info()&types.IsUnsigned != 0 {
			if class == "<=" && cst == "0" {
				class = "=="
			} else if class == "<" && cst == "1" {
				class, cst = "==", "0"
			}
		}
		out[fmt.Sprintf("%s.%s %s %s", owner, fld, class, cst)]++
	}
	return out
}

// ruleEncoderConditions (S-COND): where a type has a hand-written Encode(io.Writer) beside EncodeSW (not the
// wrapper shape T-WRAP checks), both branch on the same tests of struct fields against constants (up to negation).
// One of them testing `x <= 0` where the other tests `x == 0` accepts or rejects a structure the other does not.
func ruleEncoderConditions(c *Ctx, r *Report) int {
	prog := c.SSA()
	n := 0
	for _, enc := range encodeNonWrappers(c) {
		fe := prog.FuncValue(enc)
		if fe == nil || fe.Signature.Recv() == nil {
			continue
		}
		var fs *ssa.Function
		tn := typeName(fe.Signature.Recv().Type())
		for _, g := range c.RepoFuncs(IsLib) {
			if g.Name() == "EncodeSW" && g.Signature.Recv() != nil && typeName(g.Signature.Recv().Type()) == tn && g.Pkg == fe.Pkg {
				fs = g
			}
		}
		if fs == nil {
			continue
		}
		n++
		key := fe.Pkg.Pkg.Name() + "." + tn + ":Encode~EncodeSW"
		a, b := condSignatures(fe), condSignatures(fs)
		var diff []string
		for k := range a {
			if b[k] == 0 {
				diff = append(diff, "only Encode tests "+k)
			}
		}
		for k := range b {
			if a[k] == 0 {
				diff = append(diff, "only EncodeSW tests "+k)
			}
		}
		sort.Strings(diff)
		if len(diff) > 0 {
			r.Bad("S-COND", key, c.Pos(fe.Pos()), "the two encoders branch on different field tests: "+strings.Join(diff, "; "))
		} else {
			r.OK("S-COND", key, c.Pos(fe.Pos()), fmt.Sprintf("both encoders branch on the same %d field-against-constant tests", len(a)))
		}
	}
	return n
}

func init() {
	Registry["WSCOND"] = func(c *Ctx, r *Report) {
		fmt.Println("pairs", ruleEncoderConditions(c, r))
		for _, o := range r.Obls {
			fmt.Println(o.Status, o.Key, o.Detail)
		}
	}
}

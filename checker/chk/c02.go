package chk

func init() { Registry["C02"] = checkC02 }

// C02 — Size() equals bytes written equals the header size field (structural part).
func checkC02(c *Ctx, r *Report) {
	r.Explanation = "W-SE: for every registered box type and every configuration of its discriminants, the symbolic number of bits EncodeSW writes on the decoded abstract structure equals 8*Size() as polynomials " +
		"over the symbolic counts/lengths, and the header item carries Size() of the same box; T-WRAP: every Encode wrapper allocates exactly int(recv.Size()), encodes the same receiver into it, checks the error and writes sw.Bytes(); " +
		"S-MEMBER: Size/Encode/EncodeSW of the composites (File, InitSegment, MediaSegment, Fragment) traverse the same members. " +
		"Decides agreement of the size function with the encoder per configuration; does not decide irregular boxes, numeric loop bounds, or idempotence of encodes that mutate state."
	wireAssumptions(r)
	ruleWSE(c, r)
	ruleTWRAP(c, r)
	ruleSMEMBER(c, r)
}

package chk

import (
	"fmt"
	"strings"

	"golang.org/x/tools/go/ssa"
)

func init() { Registry["C02"] = checkC02 }

// C02 — Size() equals bytes written equals the header size field (structural part).
func checkC02(c *Ctx, r *Report) {
	r.Explanation = "S-COND (Size~EncodeSW): a receiver field that both Size() and EncodeSW of a box compare with constants is compared with the same constants in the same way (up to negation) in both; O-HDRFIRST: in the Encode/EncodeSW of a box no receiver field that Size() reads (directly or through methods on the receiver) is stored after the call that writes the box header (senc settles its sub-sample flag first); O-MODE: a MdatBox method that adopts a caller's payload (SetData) clears every field IsLazy() decides on, so Size() counts the bytes that Encode writes; W-SE: for every registered box type and every configuration of its discriminants, the symbolic number of bits EncodeSW writes on the decoded abstract structure equals 8*Size() as polynomials " +
		"over the symbolic counts/lengths, and the header item carries Size() of the same box; T-WRAP: every Encode wrapper allocates exactly int(recv.Size()), encodes the same receiver into it, checks the error and writes sw.Bytes(); " +
		"S-WHOLE: a slice field that Size() counts by its length is not cut to a sub-slice in EncodeSW (a clamped prefix writes fewer entries than the header announces); S-MEMBER: Size/Encode/EncodeSW of the composites (File, InitSegment, MediaSegment, Fragment) traverse the same members. " +
		"L-MAKEAPPEND: no slice in package mp4 is made with a non-zero length and then only appended to (the decoded box would hold zero entries in front of the real ones, counted by Size() but not what the encoder writes); S-SIZEDEP (also for the boxes W-SE tables as irregular): every receiver field that T.Size() reads, directly or through methods on the same receiver, is also read by T.EncodeSW apart from its own Size() call for the header (three listed exceptions); L-DEADAPPEND: the result of every append in package mp4 is used (a child list rebuilt in a local and never assigned back leaves File.Children, which Size() sums, without the new box); DEP: writeDescriptorSize writes as many size bytes as sizeFieldSizeMinus1 says (what SizeSize() counts), whatever the size value; DEP: bits.FixedSliceWriter.WriteString (modelled by the layout engine as len(s) bytes plus one when the flag is set) writes the terminating zero under a test of its flag parameter itself; O-CLEAN: a trial parser (bool result, run once per candidate on the same box: SencBox.parseAndFillSamples) resets every receiver field it grows with append on every path that may return false (leftovers are walked by Size()/EncodeSW); T-LIVE: Size() of every box type that holds children depends on the Children it holds now (no cached size); W-NARROW: in the functions reachable from the size methods no product of two non-constant values is computed in 32 bits or fewer and only then widened. Decides agreement of the size function with the encoder per configuration; does not decide irregular boxes, numeric loop bounds, or idempotence of encodes that mutate state."
	wireAssumptions(r)
	ruleWSE(c, r)
	ruleTWRAP(c, r)
	for _, sp := range mp4Codecs {
		reportCodecPart(r, c, analyseCodec(c, sp), "size")
	}
	ruleSMEMBER(c, r)
	ruleTerminatorFlag(c, r)
	if n := ruleDeadAppend(c, r, func(f *ssa.Function) bool { return strings.HasPrefix(SSAFuncName(f), "mp4.") }); n < 100 {
		r.Undecided("L-DEADAPPEND", "scope", "", fmt.Sprintf("only %d appends found in package mp4", n))
	} else {
		r.OK("L-DEADAPPEND", "scope", "", fmt.Sprintf("%d appends in package mp4, the result of each is used", n))
	}
	requireFixture(r, "L-DEADAPPEND", "insertLost", func(fc *Ctx, s *Report) { ruleDeadAppend(fc, s, nil) })
	ruleDescriptorSizeBytes(c, r)
	if n := ruleSizeEncodeConditions(c, r, map[string]bool{"mp4": true}); n < 10 {
		r.Undecided("S-COND", "scope:size-encode", "", fmt.Sprintf("only %d box types whose Size() and EncodeSW test a common field against constants found", n))
	}
	if n := ruleWholeField(c, r, map[string]bool{"mp4": true, "avc": true, "hevc": true, "av1": true}); n < 40 {
		r.Undecided("S-WHOLE", "scope", "", fmt.Sprintf("only %d slice fields counted by Size() and touched by EncodeSW found", n))
	}
	requireFixture(r, "S-WHOLE", "refList.Refs", func(fc *Ctx, s *Report) { ruleWholeField(fc, s, nil) })
	if n := ruleHeaderAfterState(c, r, map[string]bool{"mp4": true}); n < 60 {
		r.Undecided("O-HDRFIRST", "scope", "", fmt.Sprintf("only %d encoders with a header call and a Size() that reads fields found", n))
	}
	if n := ruleAdoptLeavesLazy(c, r); n < 1 {
		r.Undecided("O-MODE", "scope", "", "no MdatBox method adopting a caller's payload found (SetData expected)")
	}
	if n := ruleSizeDependsEncoded(c, r, map[string]bool{"mp4": true, "avc": true, "hevc": true, "av1": true}); n < 100 {
		r.Undecided("S-SIZEDEP", "scope", "", fmt.Sprintf("only %d types with Size and EncodeSW found", n))
	}
	if n := ruleTrialCleanup(c, r); n < 1 {
		r.Undecided("O-CLEAN", "scope", "", "no trial parser (bool result, receiver fields grown with append) found; SencBox.parseAndFillSamples expected")
	}
	if n := ruleMakeThenAppend(c, r, func(f *ssa.Function) bool { return strings.HasPrefix(SSAFuncName(f), "mp4.") }); n < 20 {
		r.Undecided("L-MAKEAPPEND", "scope", "", "too few make() results stored found")
	} else {
		r.OK("L-MAKEAPPEND", "scope", "", fmt.Sprintf("%d slices made and stored in package mp4: none is made with a non-zero length and then only appended to", n))
	}
	requireFixture(r, "L-MAKEAPPEND", "makeThenAppend", func(fc *Ctx, s *Report) { ruleMakeThenAppend(fc, s, nil) })
	if n := ruleLiveSize(c, r); n < 30 {
		r.Undecided("T-LIVE", "scope", "", fmt.Sprintf("only %d container types found", n))
	}
	// W-NARROW over the size functions and what they call: a product computed in a narrow type and only then
	// widened makes Size() wrap while the encoder still writes every entry.
	sizeFns := map[*ssa.Function]bool{}
	var entries []*ssa.Function
	for _, f := range c.RepoFuncs(IsLib) {
		switch f.Name() {
		case "Size", "size", "expectedSize":
			if f.Pkg != nil && f.Pkg.Pkg.Name() == "mp4" {
				entries = append(entries, f)
			}
		}
	}
	scope, _ := scopeFrom(c, entries)
	for f := range scope {
		sizeFns[f] = true
	}
	r.Extra["W-NARROW_size_functions"] = len(sizeFns)
	if len(sizeFns) < 150 {
		r.Undecided("W-NARROW", "scope", "", fmt.Sprintf("only %d size functions found", len(sizeFns)))
	} else {
		r.OK("W-NARROW", "scope", "", fmt.Sprintf("%d functions reachable from the Size/size/expectedSize methods of package mp4 examined for narrow products", len(sizeFns)))
	}
	ruleNarrowMul(c, r, "W-NARROW", func(f *ssa.Function) bool { return sizeFns[f] })
	requireFixture(r, "W-NARROW", "TfrfData.size", func(fc *Ctx, s *Report) { ruleNarrowMul(fc, s, "W-NARROW", nil) })
}

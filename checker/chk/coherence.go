package chk

// E9 — coherence groups: parallel / cached fields of one structure must be updated together.

import (
	"fmt"
	"sort"
	"strings"

	"golang.org/x/tools/go/ssa"
)

type cohGroup struct {
	typ     string   // struct type (package mp4)
	primary string   // field whose length defines the table
	deps    []string // fields that must be stored whenever the primary is stored
	why     string
}

// Frozen table, confirmed by reading the sources (one line of reason each).
var cohGroups = []cohGroup{
	{"StscBox", "Entries", []string{"SampleDescriptionID"}, "per-entry sample description ids are indexed like Entries (unless a single id is used)"},
	{"SttsBox", "SampleCount", []string{"SampleTimeDelta"}, "run-length table: counts and deltas are parallel"},
	{"SttsBox", "SampleTimeDelta", []string{"SampleCount"}, "run-length table: counts and deltas are parallel"},
	{"CttsBox", "EndSampleNr", []string{"SampleOffset"}, "EndSampleNr (running sum, one longer) and SampleOffset are parallel"},
	{"CttsBox", "SampleOffset", []string{"EndSampleNr"}, "EndSampleNr (running sum, one longer) and SampleOffset are parallel"},
	{"StszBox", "SampleSize", []string{"SampleNumber"}, "SampleNumber caches the number of samples"},
	{"SaizBox", "SampleInfo", []string{"SampleCount"}, "SampleCount caches the number of sample info entries"},
	{"MediaSegment", "Sidxs", []string{"Sidx"}, "Sidx caches the first element of Sidxs"},
	{"File", "Sidxs", []string{"Sidx"}, "Sidx caches the first element of Sidxs"},
}

// cohExceptions: function -> reason it may store the primary alone.
var cohExceptions = map[string]string{}

// ruleCoherence checks every function of every repository package.
func ruleCoherence(c *Ctx, r *Report, only map[string]bool) {
	fns := c.RepoFuncs(nil)
	for _, g := range cohGroups {
		if only != nil && !only[g.typ] {
			continue
		}
		n := 0
		for _, f := range fns {
			prim := storesTo(f, g.typ+"."+g.primary)
			if len(prim) == 0 {
				continue
			}
			name := SSAFuncName(f)
			// a store that only clears the table (nil / empty) together with nothing else is still a length change
			n++
			key := fmt.Sprintf("%s:%s.%s", name, g.typ, g.primary)
			var missing []string
			for _, d := range g.deps {
				if len(storesTo(f, g.typ+"."+d)) == 0 {
					missing = append(missing, d)
				}
			}
			if why, ok := cohExceptions[key]; ok {
				r.OK("E9", key, c.Pos(prim[0].Pos()), "exception: "+why)
				continue
			}
			if len(missing) > 0 {
				r.Bad("E9", key, c.Pos(prim[0].Pos()), fmt.Sprintf("%s changes %s.%s but not %s (%s): the cached / parallel members go out of step", name, g.typ, g.primary, strings.Join(missing, ", "), g.why))
			} else {
				r.OK("E9", key, c.Pos(prim[0].Pos()), fmt.Sprintf("also updates %s", strings.Join(g.deps, ", ")))
			}
		}
		if n == 0 {
			r.Undecided("E9", "anchor:"+g.typ+"."+g.primary, "", "no function stores this field any more (anchor lost)")
		}
	}
}

func calleeStores(c *Ctx, f *ssa.Function, typeField string, depth int) bool {
	if depth == 0 {
		return false
	}
	for _, b := range f.Blocks {
		for _, ins := range b.Instrs {
			if call, ok := ins.(*ssa.Call); ok {
				if cal := call.Call.StaticCallee(); cal != nil && inRepo(cal) && cal != f {
					if len(storesTo(cal, typeField)) > 0 || calleeStores(c, cal, typeField, depth-1) {
						return true
					}
				}
			}
		}
	}
	return false
}

// ruleNarrowMul — a product of two non-constant values computed in a type narrower than the type it is
// immediately widened to: the multiplication wraps before the widening (classic "uint64(a*b)" with 32-bit a, b).
func ruleNarrowMul(c *Ctx, r *Report, rule string, scope func(*ssa.Function) bool) {
	idx := map[string]int{}
	for _, f := range c.RepoFuncs(nil) {
		if scope != nil && !scope(f) {
			continue
		}
		for _, b := range f.Blocks {
			for _, ins := range b.Instrs {
				cv, ok := ins.(*ssa.Convert)
				if !ok || !isIntType(cv.Type()) || !isIntType(cv.X.Type()) {
					continue
				}
				mul, ok := cv.X.(*ssa.BinOp)
				if !ok || mul.Op.String() != "*" {
					continue
				}
				if _, c1 := mul.X.(*ssa.Const); c1 {
					continue
				}
				if _, c2 := mul.Y.(*ssa.Const); c2 {
					continue
				}
				from, to := typeBits(mul.Type()), typeBits(cv.Type())
				if from >= to || from > 32 {
					continue
				}
				// operands that are themselves widened from narrower types cannot overflow
				if operandBits(mul.X)+operandBits(mul.Y) <= from {
					continue
				}
				name := SSAFuncName(f)
				idx[name]++
				key := fmt.Sprintf("%s:%s", name, srcExpr(f, cv))
				r.Bad(rule, key, c.Pos(mul.Pos()), fmt.Sprintf("a product of two %d-bit values is computed in %d bits and only then widened to %d bits: it wraps for large operands", from, from, to))
			}
		}
	}
}

func operandBits(v ssa.Value) int {
	if cv, ok := v.(*ssa.Convert); ok {
		if b := typeBits(cv.X.Type()); b < typeBits(cv.Type()) {
			return b
		}
	}
	return typeBits(v.Type())
}

func srcExpr(f *ssa.Function, v ssa.Value) string {
	s := srcOfExpr(f, v)
	if s == "" {
		return "convert-of-product"
	}
	return s
}

var _ = sort.Strings

package chk

import (
	"fmt"
	"go/constant"
	"go/token"
	"go/types"
	"math/bits"
	"sort"
	"strings"

	"golang.org/x/tools/go/ssa"
)

func init() {
	Registry["WLINT4"] = func(c *Ctx, r *Report) {
		fmt.Println("boundary", ruleBoundaryCompare(c, r, nil))
		fmt.Println("bitfield types", ruleBitfieldAccessors(c, r, nil))
		fmt.Println("addchild in loops", ruleSharedChild(c, r, nil))
		fmt.Println("nrbits pairs", ruleBitCountAgree(c, r))
		ruleCaptureAfterReposition(c, r)
		ruleCbcsPatterns(c, r)
		ruleCodecStringVerbatim(c, r)
		fmt.Println("progress loops", ruleLoopProgress(c, r, nil))
		fmt.Println("hdrfirst", ruleHeaderAfterState(c, r, map[string]bool{"mp4": true}))
		fmt.Println("hdrsize", ruleHeaderSizeIsSize(c, r))
		fmt.Println("omode", ruleAdoptLeavesLazy(c, r))
		fmt.Println("opair", ruleLazySampleCounted(c, r))
		fmt.Println("sizechk", ruleSizeCheckEveryPath(c, r))
		{
			sc, _ := scopeFrom(c, entriesC16(c))
			fmt.Println("codec optional fields", ruleGNILCodec(c, r, sc))
		}
		fmt.Println("size~enc", ruleSizeEncodeConditions(c, r, map[string]bool{"mp4": true}))
		fmt.Println("earlyload", ruleLoadBeforeStore(c, r, func(f *ssa.Function) bool {
			return strings.HasPrefix(SSAFuncName(f), "avc.") || strings.HasPrefix(SSAFuncName(f), "hevc.") || strings.HasPrefix(SSAFuncName(f), "sei.")
		}))
		fmt.Println("plural", rulePluralSibling(c, r, nil))
		ruleStartPosRelative(c, r)
		fmt.Println("rawfield", ruleReducedNotRaw(c, r, nil))
		fmt.Println("sizelast", ruleSizeAfterLastRead(c, r, nil))
		ruleConfRecProfileAlways(c, r)
		fmt.Println("adds", ruleSampleAlwaysAdded(c, r))
		fmt.Println("filterbreak", ruleFilterBreak(c, r, nil))
		fmt.Println("trunccopy", ruleTruncatingCopy(c, r, nil))
		fmt.Println("bytesparams", ruleByteParamsReadOnly(c, r, byteParamWriters))
		fmt.Println("rawdefault", ruleRawBeforeDefault(c, r, nil))
		for _, o := range r.Obls {
			if o.Status != Discharged || !strings.HasPrefix(o.Key, "L-SHAREDCHILD") && !strings.HasPrefix(o.Key, "L-PROGRESS") && !strings.HasPrefix(o.Key, "O-HDRFIRST") {
				fmt.Println(o.Status, o.Key, o.Pos, o.Detail)
			}
		}
	}
}

// ---- L-BOUNDARY: comparisons at a field-width boundary are the exact ones ---------------------------------

var boundaryWidths = []uint{13, 16, 24, 32}

// boundaryUse: the comparison cmp of x against 2^k (or 2^k-1) is about the width k of a wire field: the function narrows
// x (or the value it was widened from or is summed into) to k bits or fewer, or the branch selects a version (its arms
// store constants to a field named Version, or join in a phi of 8-bit constants). A constant 2^16 used as an offset
// (sbgp's group description index inside a fragment) is neither.
func boundaryUse(f *ssa.Function, cmp *ssa.BinOp, x ssa.Value, k int) bool {
	root := x
	for {
		if cv, ok := root.(*ssa.Convert); ok {
			root = cv.X
			continue
		}
		break
	}
	for _, b := range f.Blocks {
		for _, ins := range b.Instrs {
			if cv, ok := ins.(*ssa.Convert); ok && typeBits(cv.Type()) <= k && typeBits(cv.Type()) > 0 {
				src := cv.X
				for {
					if c2, ok := src.(*ssa.Convert); ok {
						src = c2.X
						continue
					}
					break
				}
				if src == root || src == x {
					return true
				}
				if ph, ok := src.(*ssa.Phi); ok {
					for _, e := range ph.Edges {
						if e == root || e == x {
							return true
						}
					}
				}
				if ph, ok := root.(*ssa.Phi); ok {
					// the loop variable of a splitting loop: the narrowing reads the same phi or a value derived by subtraction
					if bo, ok := src.(*ssa.BinOp); ok && (bo.X == ph || bo.Y == ph) {
						return true
					}
				}
			}
		}
	}
	for _, ref := range *cmp.Referrers() {
		ifi, ok := ref.(*ssa.If)
		if !ok {
			continue
		}
		blocks := append([]*ssa.BasicBlock{}, ifi.Block().Succs...)
		for _, s := range ifi.Block().Succs {
			blocks = append(blocks, s.Succs...)
		}
		for _, b := range blocks {
			for _, ins := range b.Instrs {
				switch y := ins.(type) {
				case *ssa.Store:
					if fa, ok := y.Addr.(*ssa.FieldAddr); ok {
						if fv := fieldVar(fa.X.Type(), fa.Field); fv != nil && fv.Name() == "Version" {
							if _, isC := y.Val.(*ssa.Const); isC {
								return true
							}
						}
					}
				case *ssa.Phi:
					if typeBits(y.Type()) == 8 {
						all := true
						for _, e := range y.Edges {
							if _, isC := e.(*ssa.Const); !isC {
								all = false
							}
						}
						if all {
							return true
						}
					}
				}
			}
		}
	}
	return false
}

// ruleBoundaryCompare (L-BOUNDARY): an integer compared with the constant 2^k (k one of the wire field widths 13,
// 16, 24, 32) is compared with >= or < (the value 2^k itself does not fit k bits), and one compared with 2^k-1 is
// compared with > or <= (the value 2^k-1 still fits). `x > 1<<32` keeps the value 2^32 on the 32-bit side, which
// writes it as 0; `x >= 1<<13-1` rejects the largest value the field can carry. Returns the number of comparisons
// against such a constant.
func ruleBoundaryCompare(c *Ctx, r *Report, scope func(*ssa.Function) bool) int {
	n := 0
	for _, f := range libFuncs(c, scope) {
		for _, b := range f.Blocks {
			for _, ins := range b.Instrs {
				bo, ok := ins.(*ssa.BinOp)
				if !ok {
					continue
				}
				op := bo.Op
				x, y := bo.X, bo.Y
				if _, isC := x.(*ssa.Const); isC {
					x, y = y, x
					op = map[token.Token]token.Token{token.LSS: token.GTR, token.GTR: token.LSS, token.LEQ: token.GEQ, token.GEQ: token.LEQ}[op]
				}
				cv, isC := y.(*ssa.Const)
				if !isC || cv.Value == nil || cv.Value.Kind() != constant.Int {
					continue
				}
				if op != token.LSS && op != token.GTR && op != token.LEQ && op != token.GEQ {
					continue
				}
				u, exact := constant.Uint64Val(cv.Value)
				if !exact {
					continue
				}
				for _, k := range boundaryWidths {
					if typeBits(x.Type()) <= int(k) || !boundaryUse(f, bo, x, int(k)) {
						continue
					}
					pow := uint64(1) << k
					key := fmt.Sprintf("%s:%s %s", SSAFuncName(f), srcOfExpr2(f, x), "2^"+fmt.Sprint(k))
					switch {
					case u == pow:
						n++
						if op == token.GTR || op == token.LEQ {
							r.Bad("L-BOUNDARY", key, c.Pos(bo.Pos()), fmt.Sprintf("the comparison %s 2^%d puts the value 2^%d itself on the side of the values that fit %d bits: it is then written as 0", op, k, k, k))
						} else {
							r.OK("L-BOUNDARY", key, c.Pos(bo.Pos()), fmt.Sprintf("compared with %s 2^%d", op, k))
						}
					case u == pow-1:
						n++
						if op == token.GEQ || op == token.LSS {
							r.Bad("L-BOUNDARY", key+"-1", c.Pos(bo.Pos()), fmt.Sprintf("the comparison %s 2^%d-1 puts the largest value that fits %d bits on the side of the values that do not fit", op, k, k))
						} else {
							r.OK("L-BOUNDARY", key+"-1", c.Pos(bo.Pos()), fmt.Sprintf("compared with %s 2^%d-1", op, k))
						}
					}
				}
			}
		}
	}
	return n
}

// ---- L-BITOVERLAP: accessors of a packed integer type read disjoint bits ----------------------------------

// accessorMask: f is a one-block method on a named unsigned integer type returning (recv >> k) & m; the bits of the
// receiver it reads.
func accessorMask(f *ssa.Function) (uint64, bool) {
	if f.Signature.Recv() == nil || len(f.Blocks) != 1 || len(f.Params) != 1 {
		return 0, false
	}
	bt, ok := f.Params[0].Type().Underlying().(*types.Basic)
	if !ok || bt.Info()&types.IsUnsigned == 0 {
		return 0, false
	}
	if _, named := f.Params[0].Type().(*types.Named); !named {
		return 0, false
	}
	ret, ok := f.Blocks[0].Instrs[len(f.Blocks[0].Instrs)-1].(*ssa.Return)
	if !ok || len(ret.Results) != 1 {
		return 0, false
	}
	unconv := func(v ssa.Value) ssa.Value {
		for {
			switch x := v.(type) {
			case *ssa.Convert:
				v = x.X
			case *ssa.ChangeType:
				v = x.X
			default:
				return v
			}
		}
	}
	v := unconv(ret.Results[0])
	// a flag accessor: ((recv >> k) & m) != 0
	if bo, ok := v.(*ssa.BinOp); ok && (bo.Op == token.NEQ || bo.Op == token.EQL) {
		if cs, isC := bo.Y.(*ssa.Const); isC && cs.Value != nil {
			v = unconv(bo.X)
		}
	}
	and, ok := v.(*ssa.BinOp)
	if !ok || and.Op != token.AND {
		return 0, false
	}
	mc, ok := and.Y.(*ssa.Const)
	inner := and.X
	if !ok {
		mc, ok = and.X.(*ssa.Const)
		inner = and.Y
	}
	if !ok || mc.Value == nil {
		return 0, false
	}
	m, exact := constant.Uint64Val(constant.ToInt(mc.Value))
	if !exact {
		return 0, false
	}
	inner = unconv(inner)
	k := uint64(0)
	if sh, ok := inner.(*ssa.BinOp); ok && sh.Op == token.SHR {
		kc, isC := sh.Y.(*ssa.Const)
		if !isC || kc.Value == nil {
			return 0, false
		}
		k, _ = constant.Uint64Val(constant.ToInt(kc.Value))
		inner = unconv(sh.X)
	}
	if inner != f.Params[0] || k >= 64 {
		return 0, false
	}
	return m << k, true
}

// ruleBitfieldAccessors (L-BITOVERLAP): the accessor methods of a packed integer type (SdtpEntry: is_leading,
// sample_depends_on, sample_is_depended_on, sample_has_redundancy) read pairwise disjoint bits of the receiver. Two
// accessors reading the same bits report one field of the table twice and another never. Returns the number of types
// with three or more accessors.
func ruleBitfieldAccessors(c *Ctx, r *Report, scope func(*ssa.Function) bool) int {
	type acc struct {
		f    *ssa.Function
		mask uint64
	}
	byType := map[string][]acc{}
	for _, f := range libFuncs(c, scope) {
		if m, ok := accessorMask(f); ok {
			tn := typeName(f.Params[0].Type())
			byType[tn] = append(byType[tn], acc{f, m})
		}
	}
	var names []string
	for tn := range byType {
		names = append(names, tn)
	}
	sort.Strings(names)
	n := 0
	for _, tn := range names {
		as := byType[tn]
		if len(as) < 3 {
			continue
		}
		n++
		sort.Slice(as, func(i, j int) bool { return SSAFuncName(as[i].f) < SSAFuncName(as[j].f) })
		bad := false
		for i := range as {
			for j := i + 1; j < len(as); j++ {
				if as[i].mask&as[j].mask != 0 {
					bad = true
					r.Bad("L-BITOVERLAP", fmt.Sprintf("%s~%s", SSAFuncName(as[i].f), SSAFuncName(as[j].f)), c.Pos(as[j].f.Pos()),
						fmt.Sprintf("both accessors read bits %#x of the packed %s: one field of the entry is reported twice and another is never reported", as[i].mask&as[j].mask, tn))
				}
			}
		}
		if !bad {
			r.OK("L-BITOVERLAP", tn, c.Pos(as[0].f.Pos()), fmt.Sprintf("%d accessors read pairwise disjoint bits", len(as)))
		}
	}
	return n
}

// ---- L-SHAREDCHILD: a box created outside a loop is not added as a child inside it --------------------------

// ruleSharedChild (L-SHAREDCHILD): an AddChild call inside a loop does not add a box that was allocated before the
// loop. The same pointer would become the child of every parent built by the loop (all trafs of a multi-track
// fragment sharing one tfdt: the decode time written for one track overwrites that of the others). Returns the number
// of AddChild calls in loops.
func ruleSharedChild(c *Ctx, r *Report, scope func(*ssa.Function) bool) int {
	n := 0
	for _, f := range libFuncs(c, scope) {
		loops := naturalLoops(f)
		if len(loops) == 0 {
			continue
		}
		for _, b := range f.Blocks {
			for _, ins := range b.Instrs {
				call, ok := ins.(*ssa.Call)
				if !ok {
					continue
				}
				callee := call.Call.StaticCallee()
				if callee == nil || callee.Name() != "AddChild" || callee.Signature.Recv() == nil || len(call.Call.Args) < 2 {
					continue
				}
				var in *loopInfo
				for _, l := range loops {
					if l.blocks[b] && (in == nil || len(l.blocks) > len(in.blocks)) {
						in = l
					}
				}
				if in == nil {
					continue
				}
				n++
				child := call.Call.Args[1]
				for {
					if mi, ok := child.(*ssa.MakeInterface); ok {
						child = mi.X
						continue
					}
					break
				}
				key := fmt.Sprintf("%s:%s.AddChild(%s)", SSAFuncName(f), srcOfExpr2(f, call.Call.Args[0]), srcOfExpr2(f, child))
				var def *ssa.BasicBlock
				switch x := child.(type) {
				case *ssa.Alloc:
					if x.Heap {
						def = x.Block()
					}
				case *ssa.Call:
					if _, isPtr := x.Type().Underlying().(*types.Pointer); isPtr {
						def = x.Block()
					}
				}
				if def != nil && !in.blocks[def] {
					r.Bad("L-SHAREDCHILD", key, c.Pos(call.Pos()), "the box added as a child in this loop was created before the loop: every iteration adds the same pointer, so the parents share one box and a later write through one of them changes all")
				} else {
					r.OK("L-SHAREDCHILD", key, c.Pos(call.Pos()), "the child added in the loop is not a box created before the loop")
				}
			}
		}
	}
	return n
}

// ---- S-BITS: NrBits() counts what WriteToSliceWriter writes --------------------------------------------------

// bitPaths enumerates the paths of an acyclic f; at a branch on a bool field of the receiver the assignment is
// recorded, other branches are followed both ways. leaf is called with the assignment and the blocks of the path.
func bitPaths(f *ssa.Function, leaf func(assign map[string]bool, path []*ssa.BasicBlock)) bool {
	if len(naturalLoops(f)) > 0 {
		return false
	}
	count := 0
	var walk func(b *ssa.BasicBlock, assign map[string]bool, path []*ssa.BasicBlock) bool
	walk = func(b *ssa.BasicBlock, assign map[string]bool, path []*ssa.BasicBlock) bool {
		path = append(path, b)
		if len(b.Succs) == 0 {
			count++
			if count > 4096 {
				return false
			}
			leaf(assign, path)
			return true
		}
		if ifi, ok := b.Instrs[len(b.Instrs)-1].(*ssa.If); ok {
			cond := ifi.Cond
			neg := false
			if u, isNot := cond.(*ssa.UnOp); isNot && u.Op == token.NOT {
				cond, neg = u.X, true
			}
			if _, fld := valueOwnerField(cond, 0); fld != "" {
				if bt, isB := cond.Type().Underlying().(*types.Basic); isB && bt.Kind() == types.Bool {
					for i, s := range b.Succs {
						val := (i == 0) != neg
						if old, set := assign[fld]; set {
							if old != val {
								continue
							}
							if !walk(s, assign, path) {
								return false
							}
							continue
						}
						na := map[string]bool{}
						for k, v := range assign {
							na[k] = v
						}
						na[fld] = val
						if !walk(s, na, path) {
							return false
						}
					}
					return true
				}
			}
		}
		for _, s := range b.Succs {
			if !walk(s, assign, path) {
				return false
			}
		}
		return true
	}
	return walk(f.Blocks[0], map[string]bool{}, nil)
}

func assignKey(a map[string]bool) string {
	var ks []string
	for k, v := range a {
		ks = append(ks, fmt.Sprintf("%s=%v", k, v))
	}
	sort.Strings(ks)
	return strings.Join(ks, ",")
}

// constAlong evaluates the constant part of an int value along a path (phis take the edge the path came by;
// non-constant addends count 0). ok=false on an operator other than +.
func constAlong(v ssa.Value, path []*ssa.BasicBlock, depth int) (int64, bool) {
	if depth > 40 {
		return 0, false
	}
	switch x := v.(type) {
	case *ssa.Const:
		if x.Value == nil {
			return 0, false
		}
		i, _ := constant.Int64Val(constant.ToInt(x.Value))
		return i, true
	case *ssa.Phi:
		for i := len(path) - 1; i > 0; i-- {
			if path[i] != x.Block() {
				continue
			}
			for j, p := range x.Block().Preds {
				if p == path[i-1] {
					return constAlong(x.Edges[j], path[:i], depth+1)
				}
			}
		}
		return 0, false
	case *ssa.BinOp:
		if x.Op != token.ADD {
			return 0, false
		}
		a, ok1 := constAlong(x.X, path, depth+1)
		b, ok2 := constAlong(x.Y, path, depth+1)
		return a + b, ok1 && ok2
	case *ssa.Convert, *ssa.UnOp, *ssa.Field, *ssa.Call:
		return 0, true
	}
	return 0, false
}

// ruleBitCountAgree (S-BITS): for a type with NrBits() int beside WriteToSliceWriter(bits.SliceWriter), under every
// assignment of the receiver's bool fields the constant number of bits NrBits adds up equals the constant widths the
// writer writes (non-constant widths and addends are left out on both sides). Size() of the SEI message is computed
// from NrBits and Payload() allocates by it; a flag bit written but not counted overruns the buffer or shifts the
// trailing bits.
func ruleBitCountAgree(c *Ctx, r *Report) int {
	n := 0
	type pair struct{ nb, wr *ssa.Function }
	pairs := map[string]*pair{}
	for _, g := range c.RepoFuncs(IsLib) {
		if g.Signature.Recv() == nil || len(g.Blocks) == 0 || g.Synthetic != "" {
			continue
		}
		tn := g.Pkg.Pkg.Name() + "." + typeName(g.Signature.Recv().Type())
		switch g.Name() {
		case "NrBits":
			if pairs[tn] == nil {
				pairs[tn] = &pair{}
			}
			pairs[tn].nb = g
		case "WriteToSliceWriter":
			if pairs[tn] == nil {
				pairs[tn] = &pair{}
			}
			pairs[tn].wr = g
		}
	}
	var tnames []string
	for tn := range pairs {
		tnames = append(tnames, tn)
	}
	sort.Strings(tnames)
	{
		for _, name := range tnames {
			nb, wr := pairs[name].nb, pairs[name].wr
			if nb == nil || wr == nil {
				continue
			}
			n++
			key := name + ":NrBits~WriteToSliceWriter"
			counted := map[string]map[int64]bool{}
			okN := true
			done := bitPaths(nb, func(assign map[string]bool, path []*ssa.BasicBlock) {
				ret, isRet := path[len(path)-1].Instrs[len(path[len(path)-1].Instrs)-1].(*ssa.Return)
				if !isRet || len(ret.Results) != 1 {
					return
				}
				v, ok := constAlong(ret.Results[0], path, 0)
				if !ok {
					okN = false
					return
				}
				k := assignKey(assign)
				if counted[k] == nil {
					counted[k] = map[int64]bool{}
				}
				counted[k][v] = true
			})
			written := map[string]map[int64]bool{}
			okW := true
			doneW := bitPaths(wr, func(assign map[string]bool, path []*ssa.BasicBlock) {
				if _, isRet := path[len(path)-1].Instrs[len(path[len(path)-1].Instrs)-1].(*ssa.Return); !isRet {
					return
				}
				var sum int64
				for _, b := range path {
					for _, ins := range b.Instrs {
						call, ok := ins.(*ssa.Call)
						if !ok {
							continue
						}
						if !call.Call.IsInvoke() || !isSliceRW(call.Call.Value.Type(), "SliceWriter") {
							if call.Call.StaticCallee() != nil && call.Call.StaticCallee().Pkg == wr.Pkg {
								okW = false // a helper that may write
							}
							continue
						}
						mname := call.Call.Method.Name()
						switch mname {
						case "WriteFlag":
							sum++
						case "WriteBits":
							if cs, ok := constSet(call.Call.Args[1], 0); ok && len(cs) == 1 {
								sum += cs[0]
							}
						default:
							if w, known := writerWidths[mname]; known && w > 0 {
								sum += w
							} else if strings.HasPrefix(mname, "Write") {
								okW = false
							}
						}
					}
				}
				k := assignKey(assign)
				if written[k] == nil {
					written[k] = map[int64]bool{}
				}
				written[k][sum] = true
			})
			if !done || !doneW || !okN || !okW {
				r.Undecided("S-BITS", key, c.Pos(nb.Pos()), "NrBits or the writer is not a loop-free sum of constant widths")
				continue
			}
			// compare per full assignment: an assignment of one side refines the other when all its literals agree
			bad := ""
			for ka, ca := range counted {
				for kw, cw := range written {
					if !assignCompatible(ka, kw) {
						continue
					}
					if !sameIntSet(ca, cw) {
						bad = fmt.Sprintf("with %s NrBits counts %v constant bits and the writer writes %v", mergeAssign(ka, kw), intSet(ca), intSet(cw))
					}
				}
			}
			if bad != "" {
				r.Bad("S-BITS", key, c.Pos(nb.Pos()), bad+": Size() and Payload() of the message disagree")
			} else {
				r.OK("S-BITS", key, c.Pos(nb.Pos()), fmt.Sprintf("the constant bit counts agree under all %d flag assignments of NrBits and %d of the writer", len(counted), len(written)))
			}
		}
	}
	return n
}

func assignCompatible(a, b string) bool {
	m := map[string]string{}
	for _, kv := range strings.Split(a, ",") {
		if i := strings.IndexByte(kv, '='); i > 0 {
			m[kv[:i]] = kv[i+1:]
		}
	}
	for _, kv := range strings.Split(b, ",") {
		if i := strings.IndexByte(kv, '='); i > 0 {
			if v, ok := m[kv[:i]]; ok && v != kv[i+1:] {
				return false
			}
		}
	}
	return true
}

func mergeAssign(a, b string) string {
	set := map[string]bool{}
	for _, s := range []string{a, b} {
		for _, kv := range strings.Split(s, ",") {
			if kv != "" {
				set[kv] = true
			}
		}
	}
	var ks []string
	for k := range set {
		ks = append(ks, k)
	}
	sort.Strings(ks)
	return strings.Join(ks, ",")
}

func sameIntSet(a, b map[int64]bool) bool {
	if len(a) != len(b) {
		return false
	}
	for k := range a {
		if !b[k] {
			return false
		}
	}
	return true
}

func intSet(a map[int64]bool) []int64 {
	var out []int64
	for k := range a {
		out = append(out, k)
	}
	sort.Slice(out, func(i, j int) bool { return out[i] < out[j] })
	return out
}

// ---- O-POS: the reference position is captured after the last repositioning --------------------------------

// maySeek: fn (or a function it calls, three levels) invokes Seek on a value other than (0, io.SeekCurrent).
func maySeek(fn *ssa.Function, depth int, seen map[*ssa.Function]bool) bool {
	if fn == nil || len(fn.Blocks) == 0 || depth > 3 || seen[fn] {
		return false
	}
	seen[fn] = true
	for _, b := range fn.Blocks {
		for _, ins := range b.Instrs {
			call, ok := ins.(ssa.CallInstruction)
			if !ok {
				continue
			}
			cc := call.Common()
			if cc.IsInvoke() && cc.Method.Name() == "Seek" && len(cc.Args) == 2 {
				off, ok1 := constSet(cc.Args[0], 0)
				wh, ok2 := constSet(cc.Args[1], 0)
				if ok1 && ok2 && len(off) == 1 && len(wh) == 1 && off[0] == 0 && wh[0] == 1 {
					continue
				}
				return true
			}
			if sc := cc.StaticCallee(); sc != nil && maySeek(sc, depth+1, seen) {
				return true
			}
		}
	}
	return false
}

// ruleCaptureAfterReposition (O-POS): in DecodeFile the reference position of lazy mode (the Seek(0, io.SeekCurrent)
// before the box loop) is taken after every call outside the loop that may reposition the input (findAndReadMfra seeks
// to the end and back to 0): no such call is reachable from the capture. Box start positions are computed relative to
// the captured value.
func ruleCaptureAfterReposition(c *Ctx, r *Report) {
	f := c.ssaFunc(r, "O-POS", "mp4", "DecodeFile")
	if f == nil {
		return
	}
	key := "mp4.DecodeFile:position-captured-after-repositioning"
	inLoop := map[*ssa.BasicBlock]bool{}
	for _, l := range naturalLoops(f) {
		for b := range l.blocks {
			inLoop[b] = true
		}
	}
	var capture ssa.Instruction
	var movers []ssa.CallInstruction
	for _, b := range f.Blocks {
		if inLoop[b] {
			continue
		}
		for _, ins := range b.Instrs {
			call, ok := ins.(ssa.CallInstruction)
			if !ok {
				continue
			}
			cc := call.Common()
			if cc.IsInvoke() && cc.Method.Name() == "Seek" && len(cc.Args) == 2 {
				off, ok1 := constSet(cc.Args[0], 0)
				wh, ok2 := constSet(cc.Args[1], 0)
				if ok1 && ok2 && len(off) == 1 && len(wh) == 1 && off[0] == 0 && wh[0] == 1 {
					capture = ins
					continue
				}
				movers = append(movers, call)
				continue
			}
			if sc := cc.StaticCallee(); sc != nil && maySeek(sc, 0, map[*ssa.Function]bool{}) {
				movers = append(movers, call)
			}
		}
	}
	if capture == nil {
		r.Undecided("O-POS", key, c.Pos(f.Pos()), "no Seek(0, io.SeekCurrent) before the box loop found")
		return
	}
	reach := blockReach(f)
	for _, m := range movers {
		if insReaches(capture, m, reach) {
			r.Bad("O-POS", key, c.Pos(m.Pos()), "a call that may reposition the input follows the capture of the reference position: the box start positions of lazy mode are computed relative to a position the input is no longer at")
			return
		}
	}
	r.OK("O-POS", key, c.Pos(capture.Pos()), fmt.Sprintf("no call that may reposition the input follows the capture (%d such calls before the loop)", len(movers)))
}

var _ = bits.Len

// ---- T-PATTERN: cbcs protects video 1:9 and audio whole ------------------------------------------------------

// ruleCbcsPatterns (T-PATTERN): among the TencBox values InitProtect builds (composite literals whose address reaches
// InitProtectData.Tenc) there is a version-1 box (cbcs) with a non-zero DefaultCryptByteBlock (the 1:9 pattern of
// video) and a version-1 box whose DefaultCryptByteBlock is zero (left out, stored as 0, or reset to 0 afterwards):
// cbcs audio is protected whole, which the pattern 0:0 signals.
func ruleCbcsPatterns(c *Ctx, r *Report) {
	f := c.ssaFunc(r, "T-PATTERN", "mp4", "InitProtect")
	if f == nil {
		return
	}
	key := "mp4.InitProtect:cbcs-video-pattern-and-audio-whole"
	type tenc struct {
		version1       bool
		cryptNonZero   bool
		cryptZeroStore bool
		skip           int64
		pos            token.Pos
	}
	boxes := map[*ssa.Alloc]*tenc{}
	for _, b := range f.Blocks {
		for _, ins := range b.Instrs {
			st, ok := ins.(*ssa.Store)
			if !ok {
				continue
			}
			fa, ok := st.Addr.(*ssa.FieldAddr)
			if !ok {
				continue
			}
			al, ok := fa.X.(*ssa.Alloc)
			if !ok || typeName(al.Type()) != "TencBox" {
				continue
			}
			fv := fieldVar(fa.X.Type(), fa.Field)
			if fv == nil {
				continue
			}
			t := boxes[al]
			if t == nil {
				t = &tenc{pos: al.Pos()}
				boxes[al] = t
			}
			cs, isC := st.Val.(*ssa.Const)
			var v int64 = -1
			if isC && cs.Value != nil {
				v, _ = constant.Int64Val(constant.ToInt(cs.Value))
			}
			switch fv.Name() {
			case "Version":
				if v == 1 {
					t.version1 = true
				}
			case "DefaultCryptByteBlock":
				if v == 0 {
					t.cryptZeroStore = true
				} else {
					t.cryptNonZero = true
				}
			case "DefaultSkipByteBlock":
				t.skip = v
			}
		}
	}
	video, audio := 0, 0
	for _, t := range boxes {
		if !t.version1 {
			continue
		}
		if t.cryptNonZero {
			video++
		}
		if !t.cryptNonZero || t.cryptZeroStore {
			audio++
		}
	}
	switch {
	case len(boxes) == 0:
		r.Undecided("T-PATTERN", key, c.Pos(f.Pos()), "no TencBox literal found in InitProtect")
	case video == 0:
		r.Bad("T-PATTERN", key, c.Pos(f.Pos()), "no version-1 tenc with a crypt:skip pattern is built: cbcs video would be signalled unpatterned")
	case audio == 0:
		r.Bad("T-PATTERN", key, c.Pos(f.Pos()), "every version-1 tenc InitProtect builds carries a non-zero crypt_byte_block: cbcs audio, which must be protected whole (pattern 0:0), is signalled and encrypted one block in ten")
	default:
		r.OK("T-PATTERN", key, c.Pos(f.Pos()), fmt.Sprintf("%d tenc literals: %d version-1 with a pattern, %d version-1 unpatterned", len(boxes), video, audio))
	}
}

// ---- T-VERBATIM: the AVC codec string carries the three SPS bytes unmodified ----------------------------------

// ruleCodecStringVerbatim (T-VERBATIM): the values avc.CodecString formats are, apart from conversions, loads of the
// fields SPS.Profile, SPS.ProfileCompatibility and SPS.Level themselves (no arithmetic in between): the codecs
// parameter carries profile_idc, the whole constraint/compatibility byte and level_idc.
func ruleCodecStringVerbatim(c *Ctx, r *Report) {
	f := c.ssaFunc(r, "T-VERBATIM", "avc", "CodecString")
	if f == nil {
		return
	}
	key := "avc.CodecString:profile-compatibility-level-verbatim"
	want := map[string]bool{"Profile": false, "ProfileCompatibility": false, "Level": false}
	for _, b := range f.Blocks {
		for _, ins := range b.Instrs {
			mi, ok := ins.(*ssa.MakeInterface)
			if !ok {
				continue
			}
			v := mi.X
			for {
				switch x := v.(type) {
				case *ssa.Convert:
					v = x.X
					continue
				case *ssa.ChangeType:
					v = x.X
					continue
				}
				break
			}
			if u, ok := v.(*ssa.UnOp); ok && u.Op == token.MUL {
				if fa, ok := u.X.(*ssa.FieldAddr); ok && typeName(fa.X.Type()) == "SPS" {
					if fv := fieldVar(fa.X.Type(), fa.Field); fv != nil {
						if _, w := want[fv.Name()]; w {
							want[fv.Name()] = true
						}
					}
				}
			}
		}
	}
	var missing []string
	for k, ok := range want {
		if !ok {
			missing = append(missing, "SPS."+k)
		}
	}
	sort.Strings(missing)
	if len(missing) > 0 {
		r.Bad("T-VERBATIM", key, c.Pos(f.Pos()), "not formatted as loaded from the SPS: "+strings.Join(missing, ", ")+" (the codecs string must carry the byte verbatim; constraint_set4/5 and the reserved bits are part of the compatibility byte)")
		return
	}
	r.OK("T-VERBATIM", key, c.Pos(f.Pos()), "profile, compatibility and level are formatted as loaded from the SPS")
}

// ---- O-CAP: sub-slices of the input handed out by the slice reader cannot grow into the input ---------------------

// ruleReaderResultCapacity (O-CAP): a method of a reader type in package bits that returns a sub-slice of the slice it
// reads from (FixedSliceReader.ReadBytes, RemainingBytes) limits the capacity of the result (full slice expression
// s[a:b:b]). With the two-index form the result's capacity runs to the end of the caller's buffer, and an append by
// the owner of a decoded box (FtypBox.AddCompatibleBrands, MdatBox.AddSampleData, …) writes into the input bytes that
// follow the box — bytes other goroutines decoding the same shared buffer are reading. Returns the number of such
// results.
func ruleReaderResultCapacity(c *Ctx, r *Report, scope func(*ssa.Function) bool) int {
	n := 0
	for _, f := range libFuncs(c, scope) {
		if f.Signature.Recv() == nil || f.Signature.Results().Len() != 1 {
			continue
		}
		if sl, ok := f.Signature.Results().At(0).Type().Underlying().(*types.Slice); !ok || sl.Elem().String() != "byte" {
			continue
		}
		// reader types only (the writer's Bytes() hands out its own buffer, not input)
		if f.Pkg == nil || types.NewMethodSet(f.Signature.Recv().Type()).Lookup(f.Pkg.Pkg, "ReadUint8") == nil {
			if !strings.Contains(strings.ToLower(typeName(f.Signature.Recv().Type())), "reader") {
				continue
			}
		}
		seen := map[ssa.Value]bool{}
		var visit func(v ssa.Value)
		visit = func(v ssa.Value) {
			if seen[v] {
				return
			}
			seen[v] = true
			switch x := v.(type) {
			case *ssa.Phi:
				for _, e := range x.Edges {
					visit(e)
				}
			case *ssa.Slice:
				ld, ok := x.X.(*ssa.UnOp)
				if !ok {
					return
				}
				fa, ok := ld.X.(*ssa.FieldAddr)
				if !ok || rootParam(fa.X, 0) != f.Params[0] {
					return
				}
				fv := fieldVar(fa.X.Type(), fa.Field)
				if fv == nil {
					return
				}
				n++
				key := fmt.Sprintf("%s:result-of-%s.%s", SSAFuncName(f), typeName(fa.X.Type()), fv.Name())
				if x.Max == nil {
					r.Bad("O-CAP", key, c.Pos(x.Pos()), "the sub-slice of the input handed to the caller keeps the capacity of the rest of the input: an append to it (FtypBox.AddCompatibleBrands, MdatBox.AddSampleData after DecodeFileSR) overwrites the input bytes after the box")
				} else {
					r.OK("O-CAP", key, c.Pos(x.Pos()), "the capacity of the returned sub-slice is limited (full slice expression)")
				}
			}
		}
		for _, b := range f.Blocks {
			if ret, ok := b.Instrs[len(b.Instrs)-1].(*ssa.Return); ok && len(ret.Results) == 1 {
				visit(ret.Results[0])
			}
		}
	}
	return n
}

// ---- value widths: how many bits a value can occupy ---------------------------------------------------------------

// maxBits: an upper bound on the number of significant bits of an unsigned value, from what the code shows: a
// constant, a reader call with a constant width (Read(n), ReadBits(n), ReadFlag), a conversion (the narrower of the
// two), a field (the widest value stored to it anywhere in the repository library), a parameter of an unexported
// function (the widest argument at its call sites), a sum (one more than its widest operand). Anything else: the
// width of its type.
func maxBits(c *Ctx, v ssa.Value, depth int, seen map[ssa.Value]bool) int {
	tb := typeBits(v.Type())
	if tb <= 0 {
		tb = 64
	}
	if depth > 6 || seen[v] {
		return tb
	}
	seen[v] = true
	defer delete(seen, v)
	min := func(a, b int) int {
		if a < b {
			return a
		}
		return b
	}
	switch x := v.(type) {
	case *ssa.Const:
		if x.Value == nil {
			return 0
		}
		if u, ok := constant.Uint64Val(constant.ToInt(x.Value)); ok {
			return bits.Len64(u)
		}
		return tb
	case *ssa.Convert:
		return min(tb, maxBits(c, x.X, depth+1, seen))
	case *ssa.ChangeType:
		return min(tb, maxBits(c, x.X, depth+1, seen))
	case *ssa.Call:
		name := ""
		if x.Call.IsInvoke() {
			name = x.Call.Method.Name()
		} else if sc := x.Call.StaticCallee(); sc != nil {
			name = sc.Name()
		}
		switch name {
		case "ReadFlag":
			return 1
		case "Read", "ReadBits":
			if len(x.Call.Args) > 0 {
				if cs, ok := constSet(x.Call.Args[len(x.Call.Args)-1], 0); ok && len(cs) > 0 {
					_, hi := minMax(cs)
					return min(tb, int(hi))
				}
			}
		case "ReadUint8":
			return min(tb, 8)
		case "ReadUint16":
			return min(tb, 16)
		}
		return tb
	case *ssa.BinOp:
		switch x.Op {
		case token.ADD:
			a, b := maxBits(c, x.X, depth+1, seen), maxBits(c, x.Y, depth+1, seen)
			if b > a {
				a = b
			}
			return min(tb, a+1)
		case token.AND:
			return min(maxBits(c, x.X, depth+1, seen), maxBits(c, x.Y, depth+1, seen))
		case token.SHR:
			return maxBits(c, x.X, depth+1, seen)
		case token.REM:
			return min(tb, maxBits(c, x.Y, depth+1, seen))
		}
		return tb
	case *ssa.Phi:
		m := 0
		for _, e := range x.Edges {
			if b := maxBits(c, e, depth+1, seen); b > m {
				m = b
			}
		}
		return min(tb, m)
	case *ssa.UnOp:
		if x.Op != token.MUL {
			return tb
		}
		fa, ok := x.X.(*ssa.FieldAddr)
		if !ok {
			return tb
		}
		fv := fieldVar(fa.X.Type(), fa.Field)
		if fv == nil {
			return tb
		}
		m, n := 0, 0
		for _, st := range c.fieldStores()[fv] {
			n++
			if b := maxBits(c, st.Val, depth+1, seen); b > m {
				m = b
			}
		}
		if n == 0 {
			return tb
		}
		return min(tb, m)
	case *ssa.Parameter:
		f := x.Parent()
		if f == nil || f.Object() == nil || f.Object().Exported() {
			return tb
		}
		idx := -1
		for i, p := range f.Params {
			if p == x {
				idx = i
			}
		}
		node := c.CallGraph().Nodes[f]
		if idx < 0 || node == nil || len(node.In) == 0 {
			return tb
		}
		m := 0
		for _, e := range node.In {
			if e.Site == nil {
				return tb
			}
			args := e.Site.Common().Args
			if e.Site.Common().IsInvoke() || idx >= len(args) {
				return tb
			}
			if b := maxBits(c, args[idx], depth+1, seen); b > m {
				m = b
			}
		}
		return min(tb, m)
	}
	return tb
}

var fieldStoreCache = map[*Ctx]map[*types.Var][]*ssa.Store{}

// fieldStores: every store through a FieldAddr in the repository library, by field.
func (c *Ctx) fieldStores() map[*types.Var][]*ssa.Store {
	if m, ok := fieldStoreCache[c]; ok {
		return m
	}
	m := map[*types.Var][]*ssa.Store{}
	for _, f := range c.RepoFuncs(nil) {
		for _, b := range f.Blocks {
			for _, ins := range b.Instrs {
				if st, ok := ins.(*ssa.Store); ok {
					if fa, ok := st.Addr.(*ssa.FieldAddr); ok {
						if fv := fieldVar(fa.X.Type(), fa.Field); fv != nil {
							m[fv] = append(m[fv], st)
						}
					}
				}
			}
		}
	}
	fieldStoreCache[c] = m
	return m
}

// narrowWrap: v is (a widening of) a sum computed in 8 or 16 bits one of whose operands can occupy all the bits of
// that type: the sum wraps (x+1 is 0 for x = 255). Returns the sum.
func narrowWrap(c *Ctx, v ssa.Value) *ssa.BinOp {
	for {
		switch x := v.(type) {
		case *ssa.Convert:
			v = x.X
			continue
		case *ssa.ChangeType:
			v = x.X
			continue
		}
		break
	}
	bo, ok := v.(*ssa.BinOp)
	if !ok || bo.Op != token.ADD {
		return nil
	}
	tb := typeBits(bo.Type())
	if tb != 8 && tb != 16 {
		return nil
	}
	if bt, ok := bo.Type().Underlying().(*types.Basic); !ok || bt.Info()&types.IsUnsigned == 0 {
		return nil
	}
	for _, o := range []ssa.Value{bo.X, bo.Y} {
		if _, isC := o.(*ssa.Const); isC {
			continue
		}
		if maxBits(c, o, 0, map[ssa.Value]bool{}) >= tb {
			return bo
		}
	}
	return nil
}

// ---- G-NILFIELD: a slice field that is indexed is assigned somewhere -----------------------------------------------

// ruleNilFieldIndexed (G-NILFIELD): a slice-typed struct field that a function in scope indexes (s.f[i], read or
// written) is stored to somewhere in the repository library (an assignment, an append, or a composite literal naming
// it). A field nobody assigns is nil wherever it is indexed: the first index panics. Returns the number of distinct
// fields indexed.
func ruleNilFieldIndexed(c *Ctx, r *Report, rule string, scope func(*ssa.Function) bool) int {
	stores := c.fieldStores()
	seen := map[*types.Var]bool{}
	n := 0
	for _, f := range libFuncs(c, scope) {
		for _, b := range f.Blocks {
			for _, ins := range b.Instrs {
				ia, ok := ins.(*ssa.IndexAddr)
				if !ok {
					continue
				}
				ld, ok := ia.X.(*ssa.UnOp)
				if !ok || ld.Op != token.MUL {
					continue
				}
				fa, ok := ld.X.(*ssa.FieldAddr)
				if !ok {
					continue
				}
				if _, isSl := ld.Type().Underlying().(*types.Slice); !isSl {
					continue
				}
				fv := fieldVar(fa.X.Type(), fa.Field)
				if fv == nil || seen[fv] {
					continue
				}
				// only objects the function creates itself: no caller can have filled the field
				if _, own := fa.X.(*ssa.Alloc); !own {
					continue
				}
				seen[fv] = true
				n++
				key := fmt.Sprintf("%s.%s", typeName(fa.X.Type()), fv.Name())
				if len(stores[fv]) == 0 && !fieldSetByLiteralOrReflect(c, fv) {
					r.Bad(rule, key, c.Pos(ia.Pos()), fmt.Sprintf("the slice field %s is indexed in %s but nothing in the library ever assigns it: it is nil here and the index panics", key, SSAFuncName(f)))
				} else {
					r.OK(rule, key, c.Pos(ia.Pos()), "the indexed slice field is assigned somewhere in the library")
				}
			}
		}
	}
	return n
}

// fieldSetByLiteralOrReflect: an exported field of an exported type can be set by callers; such a field counts as
// assigned only if the indexing function is not a decoder of its own result. Kept conservative: only fields whose
// address is taken (passed on) count here.
func fieldSetByLiteralOrReflect(c *Ctx, fv *types.Var) bool {
	for _, f := range c.RepoFuncs(nil) {
		for _, b := range f.Blocks {
			for _, ins := range b.Instrs {
				fa, ok := ins.(*ssa.FieldAddr)
				if !ok || fieldVar(fa.X.Type(), fa.Field) != fv || fa.Referrers() == nil {
					continue
				}
				for _, ref := range *fa.Referrers() {
					switch y := ref.(type) {
					case *ssa.UnOp, *ssa.Store:
						_ = y
					default:
						return true // address escapes (call argument, MakeInterface, …)
					}
				}
			}
		}
	}
	return false
}

// ---- L-PROGRESS: a loop that runs while a cursor is below a bound moves the cursor on every turn ---------------

// ruleLoopProgress (L-PROGRESS): in a loop whose header tests a variable of the loop against a loop-invariant bound
// (`for pos < len(data)`), no edge back to the header carries the variable unchanged: a `continue` placed before the
// cursor is advanced spins for ever on the input that takes it. Loops whose header test involves a second loop
// variable, or whose unchanged edge is under a test of something the iteration changed, are outside the rule.
// Returns the number of loops looked at.
func ruleLoopProgress(c *Ctx, r *Report, scope func(*ssa.Function) bool) int {
	n := 0
	for _, f := range libFuncs(c, scope) {
		for li, l := range naturalLoops(f) {
			h := l.header
			if len(h.Instrs) == 0 {
				continue
			}
			ifi, ok := h.Instrs[len(h.Instrs)-1].(*ssa.If)
			if !ok {
				continue
			}
			bo, ok := ifi.Cond.(*ssa.BinOp)
			if !ok {
				continue
			}
			switch bo.Op {
			case token.LSS, token.LEQ, token.GTR, token.GEQ, token.NEQ:
			default:
				continue
			}
			var phi *ssa.Phi
			var other ssa.Value
			for i, o := range []ssa.Value{bo.X, bo.Y} {
				v := o
				for {
					if cv, ok := v.(*ssa.Convert); ok {
						v = cv.X
						continue
					}
					// pos+4 < n
					if ab, ok := v.(*ssa.BinOp); ok && (ab.Op == token.ADD || ab.Op == token.SUB) {
						if _, isC := ab.Y.(*ssa.Const); isC {
							v = ab.X
							continue
						}
					}
					break
				}
				if p, ok := v.(*ssa.Phi); ok && p.Block() == h {
					phi, other = p, []ssa.Value{bo.Y, bo.X}[i]
				}
			}
			if phi == nil || !loopInvariant(other, l, 0) {
				continue
			}
			// a loop variable proper: some edge from inside the loop carries a new value
			changes := false
			for i, pr := range h.Preds {
				if l.blocks[pr] && phi.Edges[i] != ssa.Value(phi) {
					changes = true
				}
			}
			if !changes {
				continue
			}
			// a loop that hands a reader (interface or pointer) to a callee may make progress there: not judged
			external := false
			for b := range l.blocks {
				for _, ins := range b.Instrs {
					call, ok := ins.(ssa.CallInstruction)
					if !ok {
						continue
					}
					cc := call.Common()
					if cc.IsInvoke() {
						external = true
					}
					for _, a := range cc.Args {
						switch a.Type().Underlying().(type) {
						case *types.Interface, *types.Pointer:
							if _, isMI := a.(*ssa.MakeInterface); !isMI {
								external = true
							}
						}
					}
				}
			}
			if external {
				continue
			}
			n++
			key := fmt.Sprintf("%s:loop#%d on %s", SSAFuncName(f), li, srcOfExpr2(f, phi))
			bad := false
			for i, pr := range h.Preds {
				if !l.blocks[pr] {
					continue
				}
				if phi.Edges[i] == ssa.Value(phi) {
					// the only other way out of such a turn would be another header variable: none (the test is on phi alone)
					r.Bad("L-PROGRESS", key, c.Pos(firstPos(pr)), "an edge back to the loop test leaves the tested variable unchanged: on the input that takes it the loop never ends")
					bad = true
					break
				}
			}
			if !bad {
				r.OK("L-PROGRESS", key, c.Pos(ifi.Pos()), "every edge back to the loop test carries a new value of the tested variable")
			}
		}
	}
	return n
}

// ---- O-HDRFIRST: nothing Size() looks at changes once the header is written ----------------------------------------

// recvFieldStores: the receiver's fields f stores to, directly or through methods called on the same receiver (depth 2),
// with the instruction of f at which the store (or the call leading to it) happens.
func recvFieldStores(f *ssa.Function, depth int, seen map[*ssa.Function]bool) map[string][]ssa.Instruction {
	out := map[string][]ssa.Instruction{}
	if f == nil || len(f.Params) == 0 || depth > 2 || seen[f] {
		return out
	}
	seen[f] = true
	defer delete(seen, f)
	recv := f.Params[0]
	for _, b := range f.Blocks {
		for _, ins := range b.Instrs {
			switch x := ins.(type) {
			case *ssa.Store:
				if fa, ok := x.Addr.(*ssa.FieldAddr); ok && fa.X == ssa.Value(recv) {
					out[fieldNameOf(fa)] = append(out[fieldNameOf(fa)], ins)
				}
			case *ssa.Call:
				h := x.Call.StaticCallee()
				if h == nil || len(x.Call.Args) == 0 || x.Call.Args[0] != ssa.Value(recv) || h.Signature.Recv() == nil {
					continue
				}
				for fld := range recvFieldStores(h, depth+1, seen) {
					out[fld] = append(out[fld], ins)
				}
			}
		}
	}
	return out
}

// ruleHeaderAfterState (O-HDRFIRST): in the EncodeSW / Encode method of a box type, no store to a receiver field that
// Size() reads (directly or through a method called on the receiver) is reachable from the call that writes the box
// header: the size field already written was computed from the old value. SencBox.EncodeSW settles the sub-sample
// flag (setSubSamplesUsedFlag) before EncodeHeaderSW for this reason. Returns the number of encoders looked at.
func ruleHeaderAfterState(c *Ctx, r *Report, pkgs map[string]bool) int {
	n := 0
	byType := map[string]map[string]*ssa.Function{}
	for _, f := range c.RepoFuncs(IsLib) {
		if f.Synthetic != "" || f.Signature.Recv() == nil || f.Pkg == nil || !pkgs[f.Pkg.Pkg.Name()] || f.Parent() != nil {
			continue
		}
		tn := f.Pkg.Pkg.Name() + "." + typeName(f.Signature.Recv().Type())
		if byType[tn] == nil {
			byType[tn] = map[string]*ssa.Function{}
		}
		byType[tn][f.Name()] = f
	}
	var names []string
	for tn := range byType {
		names = append(names, tn)
	}
	sort.Strings(names)
	for _, tn := range names {
		ms := byType[tn]
		size := ms["Size"]
		if size == nil {
			continue
		}
		sz := map[string]bool{}
		recvFieldReads(size, nil, 0, sz, map[*ssa.Function]bool{}, ms)
		if len(sz) == 0 {
			continue
		}
		for _, en := range []string{"Encode", "EncodeSW"} {
			enc := ms[en]
			if enc == nil || len(enc.Blocks) == 0 {
				continue
			}
			var hdr ssa.Instruction
			for _, b := range enc.Blocks {
				for _, ins := range b.Instrs {
					if call, ok := ins.(*ssa.Call); ok {
						if h := call.Call.StaticCallee(); h != nil && strings.HasPrefix(h.Name(), "EncodeHeader") && hdr == nil {
							hdr = ins
						}
					}
				}
			}
			if hdr == nil {
				continue
			}
			n++
			key := tn + "." + en + ":state-settled-before-header"
			reach := blockReach(enc)
			bad := ""
			var at token.Pos
			stores := recvFieldStores(enc, 0, map[*ssa.Function]bool{})
			var flds []string
			for fld := range stores {
				flds = append(flds, fld)
			}
			sort.Strings(flds)
			for _, fld := range flds {
				if !sz[fld] {
					continue
				}
				for _, ins := range stores[fld] {
					if ins != hdr && insReaches(hdr, ins, reach) {
						bad, at = fld, ins.Pos()
					}
				}
			}
			if bad != "" {
				r.Bad("O-HDRFIRST", key, c.Pos(at), fmt.Sprintf("%s, which Size() reads, is stored after the box header was written: the size field carries the value computed before the change while the body is written after it", bad))
			} else {
				r.OK("O-HDRFIRST", key, c.Pos(hdr.Pos()), "no field Size() reads is stored after the header call")
			}
		}
	}
	return n
}

// ---- DEP: the header size of the twin mdat encoders is Size() --------------------------------------------------

// ruleHeaderSizeIsSize (DEP): where a box's Encode / EncodeSW passes an explicit size to EncodeHeaderWithSize[SW], the
// value is the result of the type's own Size() (conversions aside): MdatBox.Size() is what accounts for a lazily
// written payload and for the header form. Returns the number of such calls.
func ruleHeaderSizeIsSize(c *Ctx, r *Report) int {
	n := 0
	for _, f := range c.RepoFuncs(IsLib) {
		if f.Synthetic != "" || f.Signature.Recv() == nil || f.Pkg == nil || f.Pkg.Pkg.Name() != "mp4" || (f.Name() != "Encode" && f.Name() != "EncodeSW") {
			continue
		}
		for _, b := range f.Blocks {
			for _, ins := range b.Instrs {
				call, ok := ins.(*ssa.Call)
				if !ok {
					continue
				}
				h := call.Call.StaticCallee()
				if h == nil || !strings.HasPrefix(h.Name(), "EncodeHeaderWithSize") || len(call.Call.Args) < 2 {
					continue
				}
				n++
				key := fmt.Sprintf("mp4.%s.%s:header-size-is-Size()", typeName(f.Signature.Recv().Type()), f.Name())
				v := call.Call.Args[1]
				for {
					if cv, ok := v.(*ssa.Convert); ok {
						v = cv.X
						continue
					}
					break
				}
				ok2 := false
				if sc, isCall := v.(*ssa.Call); isCall {
					if g := sc.Call.StaticCallee(); g != nil && g.Name() == "Size" && len(sc.Call.Args) > 0 && sc.Call.Args[0] == ssa.Value(f.Params[0]) {
						ok2 = true
					}
				}
				if ok2 {
					r.OK("DEP", key, c.Pos(call.Pos()), "the size handed to the header writer is the box's own Size()")
				} else {
					r.Bad("DEP", key, c.Pos(call.Pos()), "the size handed to the header writer is not the result of the box's own Size(): the twin encoder and Size() (lazy payload, header form) can disagree with the header written here")
				}
			}
		}
	}
	return n
}

// ---- O-MODE: adopting a payload leaves lazy mode ---------------------------------------------------------------

// ruleAdoptLeavesLazy (O-MODE): a MdatBox method that stores a caller's slice to Data (SetData) stores 0 to every
// field the result of IsLazy() depends on (lazyDataSize): otherwise the box keeps reporting, sizing and reading itself
// as a lazily held payload although the bytes are now in memory.
func ruleAdoptLeavesLazy(c *Ctx, r *Report) int {
	isLazy := c.ssaFunc(r, "O-MODE", "mp4", "MdatBox.IsLazy")
	if isLazy == nil {
		return 0
	}
	mode := map[string]bool{}
	for _, b := range isLazy.Blocks {
		if ret, ok := b.Instrs[len(b.Instrs)-1].(*ssa.Return); ok && len(ret.Results) == 1 {
			for k := range backSlice(c, ret.Results[0], 0) {
				if k.kind == "field" {
					mode[k.name[strings.LastIndex(k.name, ".")+1:]] = true
				}
			}
		}
	}
	if len(mode) == 0 {
		r.Undecided("O-MODE", "mp4.MdatBox.IsLazy", c.Pos(isLazy.Pos()), "IsLazy depends on no field")
		return 0
	}
	n := 0
	for _, f := range c.RepoFuncs(IsLib) {
		if f.Synthetic != "" || f.Signature.Recv() == nil || f.Pkg == nil || f.Pkg.Pkg.Name() != "mp4" || typeName(f.Signature.Recv().Type()) != "MdatBox" || len(f.Params) == 0 {
			continue
		}
		adopts := false
		zeroed := map[string]bool{}
		for _, b := range f.Blocks {
			for _, ins := range b.Instrs {
				st, ok := ins.(*ssa.Store)
				if !ok {
					continue
				}
				fa, ok := st.Addr.(*ssa.FieldAddr)
				if !ok || fa.X != ssa.Value(f.Params[0]) {
					continue
				}
				fv := fieldVar(fa.X.Type(), fa.Field)
				if fv == nil {
					continue
				}
				if _, isPar := st.Val.(*ssa.Parameter); isPar && fv.Name() == "Data" {
					adopts = true
				}
				if cs, isC := st.Val.(*ssa.Const); isC && (cs.Value == nil || constant.Sign(constant.ToInt(cs.Value)) == 0) {
					zeroed[fv.Name()] = true
				}
			}
		}
		if !adopts {
			continue
		}
		n++
		key := "mp4.MdatBox." + f.Name() + ":leaves-lazy-mode"
		var missing []string
		for fld := range mode {
			if !zeroed[fld] {
				missing = append(missing, fld)
			}
		}
		sort.Strings(missing)
		if len(missing) > 0 {
			r.Bad("O-MODE", key, c.Pos(f.Pos()), "the method adopts the caller's payload but does not clear "+strings.Join(missing, ", ")+", which IsLazy() decides on: Size(), ReadData and CopyData keep treating the box as lazily held")
		} else {
			r.OK("O-MODE", key, c.Pos(f.Pos()), "adopting a payload clears what IsLazy() decides on")
		}
	}
	return n
}

// ---- O-PAIR (lazy): a sample added without its bytes is counted in the lazy size ---------------------------------

// ruleLazySampleCounted (O-PAIR): in a function that both adds a sample to a trun (TrunBox.AddSample) and accumulates
// MdatBox.lazyDataSize, no return is reachable from an AddSample call without passing the accumulation: the mdat
// header written later declares the payload from that sum.
func ruleLazySampleCounted(c *Ctx, r *Report) int {
	n := 0
	for _, f := range libFuncs(c, func(f *ssa.Function) bool { return strings.HasPrefix(SSAFuncName(f), "mp4.") }) {
		var adds []ssa.Instruction
		var accs []ssa.Instruction
		for _, b := range f.Blocks {
			for _, ins := range b.Instrs {
				switch x := ins.(type) {
				case *ssa.Call:
					if h := x.Call.StaticCallee(); h != nil && h.Name() == "AddSample" && h.Signature.Recv() != nil && typeName(h.Signature.Recv().Type()) == "TrunBox" {
						adds = append(adds, ins)
					}
				case *ssa.Store:
					if fa, ok := x.Addr.(*ssa.FieldAddr); ok {
						if fv := fieldVar(fa.X.Type(), fa.Field); fv != nil && fv.Name() == "lazyDataSize" {
							if bo, isBo := x.Val.(*ssa.BinOp); isBo && bo.Op == token.ADD {
								accs = append(accs, ins)
							}
						}
					}
				}
			}
		}
		if len(adds) == 0 || len(accs) == 0 {
			continue
		}
		n++
		key := SSAFuncName(f) + ":sample-added-is-counted"
		cut := map[*ssa.BasicBlock]bool{}
		for _, a := range accs {
			cut[a.Block()] = true
		}
		bad := token.NoPos
		found := false
		for _, a := range adds {
			// counted later in the same block?
			same := false
			seenAdd := false
			for _, ins := range a.Block().Instrs {
				if ins == a {
					seenAdd = true
				}
				if seenAdd {
					for _, acc := range accs {
						if ins == acc {
							same = true
						}
					}
				}
			}
			if same {
				continue
			}
			seen := map[*ssa.BasicBlock]bool{}
			var walk func(b *ssa.BasicBlock) bool
			walk = func(b *ssa.BasicBlock) bool {
				if seen[b] || cut[b] {
					return false
				}
				seen[b] = true
				if _, isRet := b.Instrs[len(b.Instrs)-1].(*ssa.Return); isRet && !blockRejectsDefinitely(b) {
					return true
				}
				for _, s := range b.Succs {
					if walk(s) {
						return true
					}
				}
				return false
			}
			start := a.Block()
			// the block of the call itself: not cut (the accumulation, if in this block, comes before the call)
			delete(cut, start)
			if walk(start) {
				bad, found = a.Pos(), true
			}
			for _, acc := range accs {
				cut[acc.Block()] = true
			}
		}
		if found {
			r.Bad("O-PAIR", key, c.Pos(bad), "a sample is added to a trun on a path that returns without adding its size to the mdat's lazy data size: the mdat header declares fewer bytes than are copied after it")
		} else {
			r.OK("O-PAIR", key, c.Pos(adds[0].Pos()), "every path from a trun AddSample to a return passes the lazy size accumulation")
		}
	}
	return n
}

// blockRejectsDefinitely: the block returns a definitely non-nil error as its last result.
func blockRejectsDefinitely(b *ssa.BasicBlock) bool {
	ret, ok := b.Instrs[len(b.Instrs)-1].(*ssa.Return)
	if !ok || len(ret.Results) == 0 {
		return false
	}
	return definiteError(ret.Results[len(ret.Results)-1])
}

// ---- O-SIZECHK: a decoder that validates the declared size does so on every accepting path -------------------

// ruleSizeCheckEveryPath (O-SIZECHK): in a box decoder (Decode*SR in package mp4) that rejects when the declared box
// size (hdr.Size / hdr.payloadLen()) is not equal to a computed one, no return with a decoded box is reachable from the
// entry without passing one of those comparisons: a check that only one arm of a branch performs lets the other arm
// accept a box whose declared size disagrees with what was read (the re-encoded box then has another size).
func ruleSizeCheckEveryPath(c *Ctx, r *Report) int {
	n := 0
	for _, f := range libFuncs(c, func(f *ssa.Function) bool { return strings.HasPrefix(SSAFuncName(f), "mp4.Decode") }) {
		if len(f.Params) == 0 || !strings.HasSuffix(f.Name(), "SR") {
			continue
		}
		var hdr *ssa.Parameter
		for _, p := range f.Params {
			if typeName(p.Type()) == "BoxHeader" {
				hdr = p
			}
		}
		if hdr == nil {
			continue
		}
		cut := map[*ssa.BasicBlock]bool{}
		for _, b := range f.Blocks {
			ifi, ok := b.Instrs[len(b.Instrs)-1].(*ssa.If)
			if !ok {
				continue
			}
			bo, ok := ifi.Cond.(*ssa.BinOp)
			if !ok {
				continue
			}
			// an equality between the declared size and what the fields read account for (a `<` is a guard of one arm)
			if bo.Op != token.EQL && bo.Op != token.NEQ {
				continue
			}
			// integers only (`err != nil` of a helper that was handed the size is not a size equality)
			if bt, ok := bo.X.Type().Underlying().(*types.Basic); !ok || bt.Info()&types.IsInteger == 0 {
				continue
			}
			if !returnsNilBox(b.Succs[0]) && !returnsNilBox(b.Succs[1]) {
				continue
			}
			dep := false
			for _, o := range []ssa.Value{bo.X, bo.Y} {
				sl := backSlice(c, o, 0)
				if sliceHas(sl, "field", "BoxHeader.Size") || sliceHas(sl, "call", "BoxHeader.payloadLen") {
					dep = true
				}
			}
			if dep {
				cut[b] = true
			}
		}
		if len(cut) == 0 {
			continue
		}
		n++
		key := SSAFuncName(f) + ":size-validated-on-every-accepting-path"
		seen := map[*ssa.BasicBlock]bool{}
		var bad *ssa.BasicBlock
		var walk func(b *ssa.BasicBlock)
		walk = func(b *ssa.BasicBlock) {
			if seen[b] || cut[b] || bad != nil {
				return
			}
			seen[b] = true
			if ret, ok := b.Instrs[len(b.Instrs)-1].(*ssa.Return); ok && len(ret.Results) == 2 {
				if k, isC := ret.Results[0].(*ssa.Const); !(isC && k.Value == nil) {
					bad = b
					return
				}
			}
			for _, s := range b.Succs {
				walk(s)
			}
		}
		walk(f.Blocks[0])
		if bad != nil {
			r.Bad("O-SIZECHK", key, c.Pos(firstPos(bad)), "a path returns the decoded box without passing any of the decoder's comparisons with the declared box size: on that path a box whose size field disagrees with what was read is accepted")
		} else {
			r.OK("O-SIZECHK", key, c.Pos(f.Pos()), fmt.Sprintf("every accepting path passes a comparison with the declared size (%d)", len(cut)))
		}
	}
	return n
}

// ---- L-RAWDEFAULT: a defaulted value is not used raw ---------------------------------------------------------------

// ruleRawBeforeDefault (L-RAWDEFAULT): where a parameter is given a default under a test of its zero value
// (`if config == "" { config = "WEBVTT" }`: a phi of the parameter and a constant), the raw parameter is not also
// stored into a struct or handed to a constructor: what was built from it misses the default. Returns the number of
// defaulted parameters.
func ruleRawBeforeDefault(c *Ctx, r *Report, scope func(*ssa.Function) bool) int {
	n := 0
	for _, f := range libFuncs(c, scope) {
		for _, p := range f.Params {
			if p.Referrers() == nil {
				continue
			}
			var def *ssa.Phi
			for _, ref := range *p.Referrers() {
				ph, ok := ref.(*ssa.Phi)
				if !ok || len(ph.Edges) != 2 {
					continue
				}
				other := ph.Edges[0]
				if other == ssa.Value(p) {
					other = ph.Edges[1]
				}
				if _, isC := other.(*ssa.Const); !isC {
					continue
				}
				// the branch that leads to the phi tests p against its zero value
				for _, pr := range ph.Block().Preds {
					for d := pr; d != nil; d = d.Idom() {
						if ifi, ok := d.Instrs[len(d.Instrs)-1].(*ssa.If); ok {
							if bo, ok := ifi.Cond.(*ssa.BinOp); ok && (bo.Op == token.EQL || bo.Op == token.NEQ) && (bo.X == ssa.Value(p) || bo.Y == ssa.Value(p)) {
								def = ph
							}
							break
						}
					}
				}
			}
			if def == nil {
				continue
			}
			n++
			key := fmt.Sprintf("%s:%s", SSAFuncName(f), p.Name())
			var raw ssa.Instruction
			for _, ref := range *p.Referrers() {
				switch x := ref.(type) {
				case *ssa.Store:
					if _, isF := x.Addr.(*ssa.FieldAddr); isF && x.Val == ssa.Value(p) {
						raw = x
					}
				case *ssa.Call:
					if h := x.Call.StaticCallee(); h != nil && h.Pkg == f.Pkg && (strings.HasPrefix(h.Name(), "Create") || strings.HasPrefix(h.Name(), "New")) {
						raw = x
					}
				}
			}
			if raw != nil {
				r.Bad("L-RAWDEFAULT", key, c.Pos(raw.Pos()), fmt.Sprintf("the parameter %s is given a default when empty, but its raw value is also stored or handed to a constructor: what is built from it misses the default", p.Name()))
			} else {
				r.OK("L-RAWDEFAULT", key, c.Pos(def.Pos()), "only the defaulted value is stored or handed on")
			}
		}
	}
	return n
}

// returnsNilBox: the block (through jumps) returns (nil, err): the decoder's way of rejecting.
func returnsNilBox(b *ssa.BasicBlock) bool {
	for i := 0; i < 6 && b != nil && len(b.Instrs) > 0; i++ {
		switch x := b.Instrs[len(b.Instrs)-1].(type) {
		case *ssa.Return:
			if len(x.Results) == 2 {
				if k, isC := x.Results[0].(*ssa.Const); isC && k.Value == nil {
					return true
				}
			}
			return false
		case *ssa.Jump:
			b = b.Succs[0]
		default:
			return false
		}
	}
	return false
}

// ---- T-PAIR: prefix and suffix SEI NAL units are recognised together ------------------------------------------------

// ruleSEIPrefixSuffix (T-PAIR): a function that compares an hevc.NaluType with NALU_SEI_PREFIX (39) also compares it
// with NALU_SEI_SUFFIX (40): both NAL unit types carry SEI messages, and a parser that knows only one refuses or skips
// the messages of the other.
func ruleSEIPrefixSuffix(c *Ctx, r *Report) int {
	n := 0
	for _, f := range c.RepoFuncs(nil) {
		if f.Synthetic != "" {
			continue
		}
		has := map[int64]token.Pos{}
		for _, b := range f.Blocks {
			for _, ins := range b.Instrs {
				bo, ok := ins.(*ssa.BinOp)
				if !ok || (bo.Op != token.EQL && bo.Op != token.NEQ) {
					continue
				}
				for _, o := range []ssa.Value{bo.X, bo.Y} {
					k, isC := o.(*ssa.Const)
					if !isC || k.Value == nil || typeName(k.Type()) != "NaluType" {
						continue
					}
					if nt, ok := k.Type().(*types.Named); !ok || nt.Obj().Pkg() == nil || nt.Obj().Pkg().Name() != "hevc" {
						continue
					}
					if v, ok := constant.Int64Val(constant.ToInt(k.Value)); ok && (v == 39 || v == 40) {
						has[v] = bo.Pos()
					}
				}
			}
		}
		if len(has) == 0 {
			continue
		}
		n++
		key := SSAFuncName(f) + ":sei-prefix-and-suffix"
		if len(has) == 2 {
			r.OK("T-PAIR", key, c.Pos(has[39]), "prefix and suffix SEI NAL unit types are tested together")
		} else {
			var at token.Pos
			for _, p := range has {
				at = p
			}
			r.Bad("T-PAIR", key, c.Pos(at), "only one of NALU_SEI_PREFIX / NALU_SEI_SUFFIX is tested: SEI messages carried in the other NAL unit type are refused or skipped")
		}
	}
	return n
}

// ---- DEP: the segmenter adds samples under the output track id ------------------------------------------------

// ruleSegmenterOutputTrackID (DEP): in examples/segmenter every AddFullSampleToTrack / AddSampleToTrack call passes
// the output track id the tool assigned (the trackID field of its Track, set from the output init segment), not an id
// read from the input trak: the trafs of the fragment are looked up by the output id.
func ruleSegmenterOutputTrackID(c *Ctx, r *Report) int {
	n := 0
	for _, f := range libFuncs(c, func(f *ssa.Function) bool { return strings.HasPrefix(SSAFuncName(f), "examples/segmenter.") }) {
		idx := 0
		for _, b := range f.Blocks {
			for _, ins := range b.Instrs {
				call, ok := ins.(*ssa.Call)
				if !ok {
					continue
				}
				h := call.Call.StaticCallee()
				if h == nil || (h.Name() != "AddFullSampleToTrack" && h.Name() != "AddSampleToTrack") || len(call.Call.Args) < 3 {
					continue
				}
				n++
				idx++
				key := fmt.Sprintf("%s:%s#%d:output-track-id", SSAFuncName(f), h.Name(), idx)
				sl := backSlice(c, call.Call.Args[2], 0)
				switch {
				case sliceHas(sl, "field", "TkhdBox.TrackID"):
					r.Bad("DEP", key, c.Pos(call.Pos()), "the sample is added under a track id read from a trak box, not under the output track id the tool assigned: with input ids that differ from the output ids the sample lands in another track's traf")
				case sliceHas(sl, "field", ".trackID"):
					r.OK("DEP", key, c.Pos(call.Pos()), "the sample is added under the tool's output track id")
				default:
					r.Undecided("DEP", key, c.Pos(call.Pos()), "the origin of the track id argument was not resolved: "+sliceNames(sl))
				}
			}
		}
	}
	return n
}

// ---- R3-BYTES: byte-slice parameters are read-only except the listed in-place buffers ------------------------------

// byteParamWriters: the (function, parameter) pairs of package mp4 that write into a []byte parameter by design.
var byteParamWriters = map[string]string{
	"mp4.CryptSampleCenc:sample":   "documented in-place encryption / decryption of the sample payload",
	"mp4.cbcsCrypt:data":           "in-place block-mode pass over one protected range of the sample",
	"mp4.cryptSampleCbcs:sample":   "in-place cbcs pass over the sample (hands its ranges to cbcsCrypt)",
	"mp4.DecryptSampleCbcs:sample": "documented in-place cbcs decryption of the sample payload",
	"mp4.EncryptSampleCbcs:sample": "documented in-place cbcs encryption of the sample payload",
	"mp4.incrementIVInPlace:iv":    "named in-place helper; EncryptFragment calls it on its own copy of the IV",
	"mp4.strtobuf:out":             "fills the caller's scratch buffer with a box type (unexported helper of the header writer)",
}

// ruleByteParamsReadOnly (R3-BYTES): a function of package mp4 writes the elements of a []byte parameter (element
// store, copy into it, or handing it as destination to a cipher stream) only where the table lists the pair: keys,
// IVs, KIDs and payloads handed in stay as the caller wrote them (the IV a caller passes to EncryptFragment is also the
// one stored in the senc box of the first sample). Returns the number of writing pairs found.
func ruleByteParamsReadOnly(c *Ctx, r *Report, allowed map[string]string) int {
	n := 0
	for _, f := range libFuncs(c, func(f *ssa.Function) bool { return strings.HasPrefix(SSAFuncName(f), "mp4.") }) {
		isByteParam := func(v ssa.Value) *ssa.Parameter {
			for i := 0; i < 4; i++ {
				switch x := v.(type) {
				case *ssa.Parameter:
					if sl, ok := x.Type().Underlying().(*types.Slice); ok && sl.Elem().String() == "byte" {
						return x
					}
					return nil
				case *ssa.Slice:
					v = x.X
				case *ssa.IndexAddr:
					v = x.X
				default:
					return nil
				}
			}
			return nil
		}
		hits := map[string]token.Pos{}
		for _, b := range f.Blocks {
			for _, ins := range b.Instrs {
				switch x := ins.(type) {
				case *ssa.Store:
					if ia, ok := x.Addr.(*ssa.IndexAddr); ok {
						if p := isByteParam(ia.X); p != nil {
							hits[p.Name()] = x.Pos()
						}
					}
				case *ssa.Call:
					if bi, ok := x.Call.Value.(*ssa.Builtin); ok && bi.Name() == "copy" && len(x.Call.Args) == 2 {
						if p := isByteParam(x.Call.Args[0]); p != nil {
							hits[p.Name()] = x.Pos()
						}
					}
					if x.Call.IsInvoke() && (x.Call.Method.Name() == "XORKeyStream" || x.Call.Method.Name() == "CryptBlocks") && len(x.Call.Args) == 2 {
						if p := isByteParam(x.Call.Args[0]); p != nil {
							hits[p.Name()] = x.Pos()
						}
					}
					// handing the parameter to a listed in-place writer writes it too
					if h := x.Call.StaticCallee(); h != nil && len(h.Params) == len(x.Call.Args) {
						for i, a := range x.Call.Args {
							if _, listed := allowed[SSAFuncName(h)+":"+h.Params[i].Name()]; listed {
								if p := isByteParam(a); p != nil {
									hits[p.Name()] = x.Pos()
								}
							}
						}
					}
				}
			}
		}
		var names []string
		for k := range hits {
			names = append(names, k)
		}
		sort.Strings(names)
		for _, pn := range names {
			n++
			key := SSAFuncName(f) + ":" + pn
			if why, ok := allowed[key]; ok {
				r.OK("R3-BYTES", key, c.Pos(hits[pn]), "accepted in-place buffer: "+why)
			} else {
				r.Bad("R3-BYTES", key, c.Pos(hits[pn]), fmt.Sprintf("the function writes into its []byte parameter %s, which is not a listed in-place buffer: the caller's bytes (a key, an IV that is also stored in the senc box, a payload shared with other goroutines) change under it", pn))
			}
		}
	}
	return n
}

// ---- L-FILTERBREAK: a filtering copy of a list does not stop at the first match -------------------------------

// ruleFilterBreak (L-FILTERBREAK): where a function rebuilds a slice field from a local list that a loop fills with
// append (a filtering copy: `for _, c := range x.Children { if drop(c) { … } else { kept = append(kept, c) } };
// x.Children = kept`), the loop is not left by a break: everything after the element that triggers the break would be
// missing from the rebuilt list. Returns the number of rebuilt fields.
func ruleFilterBreak(c *Ctx, r *Report, scope func(*ssa.Function) bool) int {
	n := 0
	for _, f := range libFuncs(c, scope) {
		loops := naturalLoops(f)
		if len(loops) == 0 {
			continue
		}
		for _, b := range f.Blocks {
			for _, ins := range b.Instrs {
				st, ok := ins.(*ssa.Store)
				if !ok {
					continue
				}
				fa, ok := st.Addr.(*ssa.FieldAddr)
				if !ok {
					continue
				}
				if _, isSl := st.Val.Type().Underlying().(*types.Slice); !isSl {
					continue
				}
				// the stored value: a chain of phis and appends down to a make in this function
				var appends []*ssa.Call
				var mk *ssa.MakeSlice
				seen := map[ssa.Value]bool{}
				var walk func(v ssa.Value, d int)
				walk = func(v ssa.Value, d int) {
					if d > 8 || seen[v] {
						return
					}
					seen[v] = true
					switch x := v.(type) {
					case *ssa.Phi:
						for _, e := range x.Edges {
							walk(e, d+1)
						}
					case *ssa.Call:
						if bi, ok := x.Call.Value.(*ssa.Builtin); ok && bi.Name() == "append" {
							appends = append(appends, x)
							walk(x.Call.Args[0], d+1)
						}
					case *ssa.MakeSlice:
						mk = x
					}
				}
				walk(st.Val, 0)
				if mk == nil || len(appends) == 0 {
					continue
				}
				// the loop that appends, and does it read the same field?
				var l *loopInfo
				for _, lp := range loops {
					if lp.blocks[appends[0].Block()] && (l == nil || len(lp.blocks) < len(l.blocks)) {
						l = lp
					}
				}
				if l == nil || l.blocks[st.Block()] {
					continue
				}
				fv := fieldVar(fa.X.Type(), fa.Field)
				readsSame := false
				for _, b2 := range f.Blocks {
					for _, i2 := range b2.Instrs {
						if ld, ok := i2.(*ssa.UnOp); ok && ld.Op == token.MUL {
							if fa2, ok := ld.X.(*ssa.FieldAddr); ok && fieldVar(fa2.X.Type(), fa2.Field) == fv && fv != nil {
								readsSame = true
							}
						}
					}
				}
				if !readsSame {
					continue
				}
				n++
				key := fmt.Sprintf("%s:%s.%s rebuilt", SSAFuncName(f), typeName(fa.X.Type()), fv.Name())
				var brk *ssa.BasicBlock
				reach := blockReach(f)
				for blk := range l.blocks {
					if blk == l.header {
						continue
					}
					for _, s := range blk.Succs {
						// an edge out of the loop body from which the replacing store is still reached: a break — unless the
						// leaving block itself appends to the new list (`kept = append(kept, rest...); break`)
						if !l.blocks[s] && (s == st.Block() || reach[s][st.Block()]) {
							appendsRest := false
							for _, ap := range appends {
								if ap.Block() == blk {
									appendsRest = true
								}
							}
							if !appendsRest {
								brk = blk
							}
						}
					}
				}
				if brk != nil {
					r.Bad("L-FILTERBREAK", key, c.Pos(firstPos(brk)), "the loop that fills the new list is left by a break, and the field is then replaced by the new list: the elements after the one that triggers the break are dropped")
				} else {
					r.OK("L-FILTERBREAK", key, c.Pos(st.Pos()), "the loop that fills the new list runs over all elements")
				}
			}
		}
	}
	return n
}

// ---- L-TRUNCCOPY: a caller's bytes are not squeezed into a fixed array -----------------------------------------

// ruleTruncatingCopy (L-TRUNCCOPY): copy(arr[:], p) into a local fixed-size array from a slice that comes from a
// parameter is preceded by a test of len(p): copy stops silently at the array's length, and what is built from the
// array afterwards misses the tail (a decoder configuration longer than the "reserved room"). Returns the number of
// such copies.
func ruleTruncatingCopy(c *Ctx, r *Report, scope func(*ssa.Function) bool) int {
	n := 0
	for _, f := range libFuncs(c, scope) {
		idx := 0
		for _, b := range f.Blocks {
			for _, ins := range b.Instrs {
				call, ok := ins.(*ssa.Call)
				if !ok {
					continue
				}
				bi, ok := call.Call.Value.(*ssa.Builtin)
				if !ok || bi.Name() != "copy" || len(call.Call.Args) != 2 {
					continue
				}
				dst, ok := call.Call.Args[0].(*ssa.Slice)
				if !ok {
					continue
				}
				al, ok := dst.X.(*ssa.Alloc)
				if !ok {
					continue
				}
				at, ok := al.Type().Underlying().(*types.Pointer).Elem().Underlying().(*types.Array)
				if !ok {
					continue
				}
				src := call.Call.Args[1]
				fromParam := false
				for v, i := src, 0; i < 4; i++ {
					if _, isP := v.(*ssa.Parameter); isP {
						fromParam = true
						break
					}
					if sl, ok := v.(*ssa.Slice); ok {
						v = sl.X
						continue
					}
					break
				}
				if !fromParam {
					continue
				}
				if _, isStr := src.Type().Underlying().(*types.Basic); isStr {
					continue
				}
				n++
				idx++
				key := fmt.Sprintf("%s:copy-into-[%d]array#%d", SSAFuncName(f), at.Len(), idx)
				tested := hasDominatingTest(src, b, func(cond ssa.Value, truth bool) bool {
					bo, ok := cond.(*ssa.BinOp)
					if !ok {
						return false
					}
					for _, o := range []ssa.Value{bo.X, bo.Y} {
						if lc, ok := stripConv(o).(*ssa.Call); ok {
							if lb, ok := lc.Call.Value.(*ssa.Builtin); ok && lb.Name() == "len" && sameSSA(lc.Call.Args[0], src) {
								return true
							}
						}
					}
					return false
				})
				if tested {
					r.OK("L-TRUNCCOPY", key, c.Pos(call.Pos()), "the length of the source is tested before the copy")
				} else {
					r.Bad("L-TRUNCCOPY", key, c.Pos(call.Pos()), fmt.Sprintf("a slice that comes from a parameter is copied into a %d-byte array with no test of its length: anything longer is cut off silently", at.Len()))
				}
			}
		}
	}
	return n
}

// ---- S-COND (Size ~ EncodeSW): the same field is tested the same way in both -----------------------------------

// ruleSizeEncodeConditions (S-COND, Size~EncodeSW): for a box type with Size() and EncodeSW, a receiver field that both
// functions compare with constants is compared with the same constants in the same way (up to negation) in both:
// `Version >= 1` in Size() against `Version == 1` in EncodeSW counts bytes for version 2 that are never written.
// Fields only one of the two tests are not judged. Returns the number of types with a commonly tested field.
func ruleSizeEncodeConditions(c *Ctx, r *Report, pkgs map[string]bool) int {
	n := 0
	byType := map[string]map[string]*ssa.Function{}
	for _, f := range c.RepoFuncs(IsLib) {
		if f.Synthetic != "" || f.Signature.Recv() == nil || f.Pkg == nil || !pkgs[f.Pkg.Pkg.Name()] || f.Parent() != nil {
			continue
		}
		tn := f.Pkg.Pkg.Name() + "." + typeName(f.Signature.Recv().Type())
		if byType[tn] == nil {
			byType[tn] = map[string]*ssa.Function{}
		}
		byType[tn][f.Name()] = f
	}
	var names []string
	for tn := range byType {
		names = append(names, tn)
	}
	sort.Strings(names)
	fieldOf := func(sig string) string { return strings.SplitN(sig, " ", 2)[0] }
	for _, tn := range names {
		size, enc := byType[tn]["Size"], byType[tn]["EncodeSW"]
		if size == nil || enc == nil {
			continue
		}
		a, b := condSignatures(size), condSignatures(enc)
		fa, fb := map[string][]string{}, map[string][]string{}
		for k := range a {
			fa[fieldOf(k)] = append(fa[fieldOf(k)], k)
		}
		for k := range b {
			fb[fieldOf(k)] = append(fb[fieldOf(k)], k)
		}
		var common []string
		for fld := range fa {
			if _, ok := fb[fld]; ok {
				common = append(common, fld)
			}
		}
		if len(common) == 0 {
			continue
		}
		sort.Strings(common)
		n++
		key := tn + ":Size~EncodeSW"
		var diff []string
		for _, fld := range common {
			sort.Strings(fa[fld])
			sort.Strings(fb[fld])
			if strings.Join(fa[fld], ";") != strings.Join(fb[fld], ";") {
				diff = append(diff, fmt.Sprintf("Size tests {%s}, EncodeSW tests {%s}", strings.Join(fa[fld], "; "), strings.Join(fb[fld], "; ")))
			}
		}
		if len(diff) > 0 {
			r.Bad("S-COND", key, c.Pos(enc.Pos()), "Size() and EncodeSW test the same field differently: "+strings.Join(diff, " | "))
		} else {
			r.OK("S-COND", key, c.Pos(enc.Pos()), fmt.Sprintf("the %d commonly tested fields are tested alike", len(common)))
		}
	}
	return n
}

// ---- O-SIZELAST: the parsed size is taken after the last read ---------------------------------------------------

// ruleSizeAfterLastRead (O-SIZELAST): where a parser stores the reader's byte count (NrBytesRead) into a field of its
// result (SliceHeader.Size — the cbcs clear/protected boundary —, SPS.NrBytesRead), no read from the same reader is
// reachable after that store: a size taken before the alignment bits is one byte short when they fill a byte of their
// own. Returns the number of such stores.
func ruleSizeAfterLastRead(c *Ctx, r *Report, scope func(*ssa.Function) bool) int {
	n := 0
	for _, f := range libFuncs(c, scope) {
		reach := blockReach(f)
		for _, b := range f.Blocks {
			for _, ins := range b.Instrs {
				st, ok := ins.(*ssa.Store)
				if !ok {
					continue
				}
				fa, ok := st.Addr.(*ssa.FieldAddr)
				if !ok {
					continue
				}
				v := st.Val
				for {
					if cv, ok := v.(*ssa.Convert); ok {
						v = cv.X
						continue
					}
					break
				}
				call, ok := v.(*ssa.Call)
				if !ok {
					continue
				}
				h := call.Call.StaticCallee()
				if h == nil || h.Name() != "NrBytesRead" || len(call.Call.Args) == 0 {
					continue
				}
				fv := fieldVar(fa.X.Type(), fa.Field)
				// only the final size of the result (an intermediate mark such as NrBytesBeforeVUI is followed by reads)
				if fv == nil || (fv.Name() != "Size" && fv.Name() != "NrBytesRead") {
					continue
				}
				reader := call.Call.Args[0]
				n++
				key := fmt.Sprintf("%s:%s.%s", SSAFuncName(f), typeName(fa.X.Type()), fv.Name())
				var late ssa.Instruction
				for _, b2 := range f.Blocks {
					for _, i2 := range b2.Instrs {
						c2, ok := i2.(*ssa.Call)
						if !ok || i2 == ssa.Instruction(call) {
							continue
						}
						h2 := c2.Call.StaticCallee()
						if h2 == nil || len(c2.Call.Args) == 0 || c2.Call.Args[0] != reader || !strings.HasPrefix(h2.Name(), "Read") {
							continue
						}
						if insReaches(st, i2, reach) {
							late = i2
						}
					}
				}
				if late != nil {
					r.Bad("O-SIZELAST", key, c.Pos(late.Pos()), "the reader is read again after its byte count was stored as the size of the parsed structure: the stored size misses what is read afterwards")
				} else {
					r.OK("O-SIZELAST", key, c.Pos(st.Pos()), "no read from the reader follows the store of its byte count")
				}
			}
		}
	}
	return n
}

// ---- DEP: a created configuration record carries the SPS's profile bytes on every path -------------------------

// ruleConfRecProfileAlways (DEP): in avc.CreateAVCDecConfRec the stores to AVCProfileIndication, ProfileCompatibility
// and AVCLevelIndication of the record sit in blocks that dominate the successful return: the record carries the
// profile, compatibility and level of the SPS whether or not the parameter sets are included.
func ruleConfRecProfileAlways(c *Ctx, r *Report) {
	f := c.ssaFunc(r, "DEP", "avc", "CreateAVCDecConfRec")
	if f == nil {
		return
	}
	var okRet *ssa.BasicBlock
	for _, b := range f.Blocks {
		if ret, ok := b.Instrs[len(b.Instrs)-1].(*ssa.Return); ok && len(ret.Results) == 2 {
			if k, isC := ret.Results[1].(*ssa.Const); isC && k.Value == nil {
				okRet = b
			}
		}
	}
	key := "avc.CreateAVCDecConfRec:profile-compatibility-level-on-every-path"
	if okRet == nil {
		r.Undecided("DEP", key, c.Pos(f.Pos()), "no successful return found")
		return
	}
	want := map[string]bool{"AVCProfileIndication": false, "ProfileCompatibility": false, "AVCLevelIndication": false}
	for _, b := range f.Blocks {
		for _, ins := range b.Instrs {
			st, ok := ins.(*ssa.Store)
			if !ok {
				continue
			}
			fa, ok := st.Addr.(*ssa.FieldAddr)
			if !ok || typeName(fa.X.Type()) != "DecConfRec" {
				continue
			}
			fv := fieldVar(fa.X.Type(), fa.Field)
			if fv == nil {
				continue
			}
			if _, w := want[fv.Name()]; w && b.Dominates(okRet) && sliceHas(backSlice(c, st.Val, 0), "field", "SPS."+map[string]string{"AVCProfileIndication": "Profile", "ProfileCompatibility": "ProfileCompatibility", "AVCLevelIndication": "Level"}[fv.Name()]) {
				want[fv.Name()] = true
			}
		}
	}
	var missing []string
	for k, ok := range want {
		if !ok {
			missing = append(missing, k)
		}
	}
	sort.Strings(missing)
	if len(missing) > 0 {
		r.Bad("DEP", key, c.Pos(f.Pos()), "not set from the SPS on every path to the successful return: "+strings.Join(missing, ", ")+" (an avc3 record without parameter sets would carry profile 0)")
	} else {
		r.OK("DEP", key, c.Pos(f.Pos()), "the three bytes are set from the SPS on every path to the successful return")
	}
}

// ---- O-EVERY (adds): a sample handed to a Fragment Add method is added --------------------------------------------

// ruleSampleAlwaysAdded (O-EVERY): a Fragment method that takes one Sample / FullSample returns nil only after a call
// that adds it (TrunBox.AddSample / AddFullSample, or another such Fragment method): an early `return nil` for a
// sample without payload drops the sample with its duration, flags and composition offset.
func ruleSampleAlwaysAdded(c *Ctx, r *Report) int {
	n := 0
	isAdder := func(h *ssa.Function) bool {
		if h == nil || h.Signature.Recv() == nil {
			return false
		}
		tn := typeName(h.Signature.Recv().Type())
		return (tn == "TrunBox" || tn == "Fragment") && strings.HasPrefix(h.Name(), "Add") && strings.Contains(h.Name(), "Sample")
	}
	for _, f := range libFuncs(c, func(f *ssa.Function) bool { return strings.HasPrefix(SSAFuncName(f), "mp4.Fragment.Add") }) {
		single := false
		for _, p := range f.Params[1:] {
			tn := typeName(p.Type())
			if _, isSl := p.Type().Underlying().(*types.Slice); !isSl && (tn == "Sample" || tn == "FullSample") {
				single = true
			}
		}
		if !single {
			continue
		}
		cut := map[*ssa.BasicBlock]bool{}
		for _, b := range f.Blocks {
			for _, ins := range b.Instrs {
				if call, ok := ins.(*ssa.Call); ok && isAdder(call.Call.StaticCallee()) {
					cut[b] = true
				}
			}
		}
		if len(cut) == 0 {
			continue
		}
		n++
		key := SSAFuncName(f) + ":sample-added-before-nil-return"
		seen := map[*ssa.BasicBlock]bool{}
		var bad *ssa.BasicBlock
		var walk func(b *ssa.BasicBlock)
		walk = func(b *ssa.BasicBlock) {
			if seen[b] || cut[b] || bad != nil {
				return
			}
			seen[b] = true
			if ret, ok := b.Instrs[len(b.Instrs)-1].(*ssa.Return); ok && len(ret.Results) >= 1 {
				last := ret.Results[len(ret.Results)-1]
				if k, isC := last.(*ssa.Const); isC && k.Value == nil && last.Type().String() == "error" {
					bad = b
					return
				}
			}
			for _, s := range b.Succs {
				walk(s)
			}
		}
		walk(f.Blocks[0])
		if bad != nil {
			r.Bad("O-EVERY", key, c.Pos(firstPos(bad)), "a path returns nil without having added the sample to a trun: the sample is dropped with its duration, flags and composition offset")
		} else {
			r.OK("O-EVERY", key, c.Pos(f.Pos()), "every nil return is preceded by the call that adds the sample")
		}
	}
	return n
}

// ---- L-RAWFIELD: a value that was reduced is compared in its reduced form -----------------------------------------

// ruleReducedNotRaw (L-RAWFIELD): where a function reduces a field with a constant modulus (`sliceType := sh.SliceType
// % 5`: slice_type 5..9 mean the same as 0..4) and compares the reduced value with constants, it does not also compare
// the raw field with a constant: the raw comparison misses the aliases (a B slice coded as 6). Returns the number of
// reduced fields.
func ruleReducedNotRaw(c *Ctx, r *Report, scope func(*ssa.Function) bool) int {
	n := 0
	for _, f := range libFuncs(c, scope) {
		for _, b := range f.Blocks {
			for _, ins := range b.Instrs {
				rem, ok := ins.(*ssa.BinOp)
				if !ok || rem.Op != token.REM {
					continue
				}
				if _, isC := rem.Y.(*ssa.Const); !isC {
					continue
				}
				raw := rem.X
				for {
					if cv, ok := raw.(*ssa.Convert); ok {
						raw = cv.X
						continue
					}
					break
				}
				ld, ok := raw.(*ssa.UnOp)
				if !ok || ld.Op != token.MUL {
					continue
				}
				fa, ok := ld.X.(*ssa.FieldAddr)
				if !ok {
					continue
				}
				fv := fieldVar(fa.X.Type(), fa.Field)
				if fv == nil {
					continue
				}
				// is the reduced value compared with constants at all?
				reducedCompared := false
				var follow func(v ssa.Value, d int)
				follow = func(v ssa.Value, d int) {
					if d > 3 || v.Referrers() == nil {
						return
					}
					for _, ref := range *v.Referrers() {
						switch x := ref.(type) {
						case *ssa.BinOp:
							if x.Op == token.EQL || x.Op == token.NEQ {
								reducedCompared = true
							}
						case *ssa.Convert:
							follow(x, d+1)
						case *ssa.ChangeType:
							follow(x, d+1)
						}
					}
				}
				follow(rem, 0)
				if !reducedCompared {
					continue
				}
				n++
				key := fmt.Sprintf("%s:%s.%s", SSAFuncName(f), typeName(fa.X.Type()), fv.Name())
				var rawCmp *ssa.BinOp
				for _, b2 := range f.Blocks {
					for _, i2 := range b2.Instrs {
						bo, ok := i2.(*ssa.BinOp)
						if !ok || (bo.Op != token.EQL && bo.Op != token.NEQ) {
							continue
						}
						for i, o := range []ssa.Value{bo.X, bo.Y} {
							if _, isC := []ssa.Value{bo.Y, bo.X}[i].(*ssa.Const); !isC {
								continue
							}
							v := o
							for {
								if cv, ok := v.(*ssa.Convert); ok {
									v = cv.X
									continue
								}
								break
							}
							if l2, ok := v.(*ssa.UnOp); ok && l2.Op == token.MUL {
								if fa2, ok := l2.X.(*ssa.FieldAddr); ok && fieldVar(fa2.X.Type(), fa2.Field) == fv && sameAddr(fa2, fa) {
									rawCmp = bo
								}
							}
						}
					}
				}
				if rawCmp != nil {
					r.Bad("L-RAWFIELD", key, c.Pos(rawCmp.Pos()), fmt.Sprintf("%s is reduced with a constant modulus and compared in the reduced form elsewhere in this function, but here the raw value is compared with a constant: the aliases above the modulus are missed", fv.Name()))
				} else {
					r.OK("L-RAWFIELD", key, c.Pos(rem.Pos()), "the field is compared only in its reduced form")
				}
			}
		}
	}
	return n
}

// ---- O-WRITE: the slice writer stores what it advances over ----------------------------------------------------

// ruleWriterStoresBytes (O-WRITE): a method of bits.FixedSliceWriter that advances the write offset (stores to the
// field off) also stores into the buffer (an element store into buf, a copy into a slice of it, or a
// binary.BigEndian.Put* on a slice of it): bytes that are skipped keep whatever the buffer held, and
// EncodeSW into a reused buffer then differs from Encode (which always starts from a zeroed one). Returns the number of
// advancing methods.
func ruleWriterStoresBytes(c *Ctx, r *Report) int {
	n := 0
	for _, f := range libFuncs(c, func(f *ssa.Function) bool { return strings.HasPrefix(SSAFuncName(f), "bits.FixedSliceWriter.") }) {
		if len(f.Params) == 0 {
			continue
		}
		recv := f.Params[0]
		isBuf := func(v ssa.Value) bool {
			for i := 0; i < 4; i++ {
				switch x := v.(type) {
				case *ssa.Slice:
					v = x.X
				case *ssa.IndexAddr:
					v = x.X
				case *ssa.UnOp:
					if fa, ok := x.X.(*ssa.FieldAddr); ok && fa.X == ssa.Value(recv) {
						if fv := fieldVar(fa.X.Type(), fa.Field); fv != nil && fv.Name() == "buf" {
							return true
						}
					}
					return false
				default:
					return false
				}
			}
			return false
		}
		advances, stores := token.NoPos, false
		for _, b := range f.Blocks {
			for _, ins := range b.Instrs {
				switch x := ins.(type) {
				case *ssa.Store:
					if fa, ok := x.Addr.(*ssa.FieldAddr); ok && fa.X == ssa.Value(recv) {
						if fv := fieldVar(fa.X.Type(), fa.Field); fv != nil && fv.Name() == "off" {
							advances = x.Pos()
						}
					}
					if ia, ok := x.Addr.(*ssa.IndexAddr); ok && isBuf(ia.X) {
						stores = true
					}
				case *ssa.Call:
					if bi, ok := x.Call.Value.(*ssa.Builtin); ok && bi.Name() == "copy" && isBuf(x.Call.Args[0]) {
						stores = true
					}
					if h := x.Call.StaticCallee(); h != nil && strings.HasPrefix(h.Name(), "Put") {
						for _, a := range x.Call.Args {
							if isBuf(a) {
								stores = true
							}
						}
					}
				}
			}
		}
		if advances == token.NoPos {
			continue
		}
		n++
		key := SSAFuncName(f) + ":stores-what-it-advances-over"
		if stores {
			r.OK("O-WRITE", key, c.Pos(advances), "the method stores into the buffer where it advances the offset")
		} else {
			r.Bad("O-WRITE", key, c.Pos(advances), "the method advances the write offset without storing into the buffer: the bytes skipped keep what the buffer held before (a reused buffer), and EncodeSW differs from Encode")
		}
	}
	return n
}

// ---- S-PLURAL: the slice variant of an Add method maintains what the single variant maintains --------------------

// rulePluralSibling (S-PLURAL): where a type has a method M taking one element and a method Ms taking a slice of the
// same element type (TrunBox.AddSample / AddSamples), every receiver field M stores (directly or through methods on
// the receiver) is stored by Ms as well: a flag or counter that only the single variant keeps up to date is wrong for
// everything added through the slice variant. Returns the number of pairs.
func rulePluralSibling(c *Ctx, r *Report, scope func(*ssa.Function) bool) int {
	n := 0
	byType := map[string]map[string]*ssa.Function{}
	for _, f := range libFuncs(c, scope) {
		if f.Signature.Recv() == nil || f.Parent() != nil {
			continue
		}
		tn := f.Pkg.Pkg.Name() + "." + typeName(f.Signature.Recv().Type())
		if byType[tn] == nil {
			byType[tn] = map[string]*ssa.Function{}
		}
		byType[tn][f.Name()] = f
	}
	var names []string
	for tn := range byType {
		names = append(names, tn)
	}
	sort.Strings(names)
	for _, tn := range names {
		var ms []string
		for m := range byType[tn] {
			ms = append(ms, m)
		}
		sort.Strings(ms)
		for _, m := range ms {
			one, many := byType[tn][m], byType[tn][m+"s"]
			if many == nil || len(one.Params) != 2 || len(many.Params) != 2 {
				continue
			}
			sl, ok := many.Params[1].Type().Underlying().(*types.Slice)
			if !ok || !types.Identical(sl.Elem(), one.Params[1].Type()) {
				continue
			}
			n++
			key := tn + "." + m + "~" + m + "s"
			a := recvFieldStores(one, 0, map[*ssa.Function]bool{})
			b := recvFieldStores(many, 0, map[*ssa.Function]bool{})
			var missing []string
			for fld := range a {
				if _, ok := b[fld]; !ok {
					missing = append(missing, fld)
				}
			}
			sort.Strings(missing)
			if len(missing) > 0 {
				r.Bad("S-PLURAL", key, c.Pos(many.Pos()), fmt.Sprintf("%s stores %s of the receiver, %ss does not: what the single variant keeps up to date is stale for elements added through the slice variant", m, strings.Join(missing, ", "), m))
			} else {
				r.OK("S-PLURAL", key, c.Pos(many.Pos()), "the slice variant stores every receiver field the single variant stores")
			}
		}
	}
	return n
}

// ---- O-POS (relative): start positions of DecodeFileSR are relative to where the reader stood at entry -------------

// ruleStartPosRelative (O-POS): the start position DecodeFileSR records for the next box is a difference whose
// subtrahend is the reader position taken before the box loop: a file decoded from a reader that is not at position 0
// (embedded after a prefix) gets positions relative to its own start, as DecodeFile gives.
func ruleStartPosRelative(c *Ctx, r *Report) {
	f := c.ssaFunc(r, "O-POS", "mp4", "DecodeFileSR")
	if f == nil {
		return
	}
	key := "mp4.DecodeFileSR:start-position-relative-to-entry"
	inLoop := map[*ssa.BasicBlock]bool{}
	for _, l := range naturalLoops(f) {
		for b := range l.blocks {
			inLoop[b] = true
		}
	}
	isGetPos := func(v ssa.Value) *ssa.Call {
		for {
			if cv, ok := v.(*ssa.Convert); ok {
				v = cv.X
				continue
			}
			break
		}
		if call, ok := v.(*ssa.Call); ok && call.Call.IsInvoke() && call.Call.Method.Name() == "GetPos" {
			return call
		}
		return nil
	}
	found, ok := 0, 0
	for _, b := range f.Blocks {
		if !inLoop[b] {
			continue
		}
		for _, ins := range b.Instrs {
			call := isGetPos(valueOf(ins))
			if call == nil || call.Referrers() == nil {
				continue
			}
			found++
			for _, ref := range *call.Referrers() {
				if bo, isBo := ref.(*ssa.BinOp); isBo && bo.Op == token.SUB && bo.X == ssa.Value(call) {
					if base := isGetPos(bo.Y); base != nil && !inLoop[base.Block()] {
						ok++
					}
				}
			}
		}
	}
	switch {
	case found == 0:
		r.Undecided("O-POS", key, c.Pos(f.Pos()), "no reader position taken inside the box loop")
	case ok < found:
		r.Bad("O-POS", key, c.Pos(f.Pos()), "a reader position taken inside the box loop is used without subtracting the position the reader had at entry: for a reader that does not start at 0 every start position after the first box is shifted by the prefix")
	default:
		r.OK("O-POS", key, c.Pos(f.Pos()), "the reader position inside the loop is taken relative to the position at entry")
	}
}

func valueOf(ins ssa.Instruction) ssa.Value {
	if v, ok := ins.(ssa.Value); ok {
		return v
	}
	return nil
}

// ---- L-EARLYLOAD: a field of the structure being filled is not consulted before it is read from the stream -----------

// ruleLoadBeforeStore (L-EARLYLOAD): in a function that fills a structure it creates (the slice header, SPS or PPS being
// parsed), a field is not loaded, outside loops, at a point from which the only store to that field is still to come,
// with the loaded value used after that store: the value used is the zero value, not what the stream coded
// (`bottomDeltaPresent := … && !sh.FieldPicFlag` computed before field_pic_flag is read). Returns the number of fields
// that are both stored and loaded in their creating function.
func ruleLoadBeforeStore(c *Ctx, r *Report, scope func(*ssa.Function) bool) int {
	n := 0
	for _, f := range libFuncs(c, scope) {
		inLoop := map[*ssa.BasicBlock]bool{}
		for _, l := range naturalLoops(f) {
			for b := range l.blocks {
				inLoop[b] = true
			}
		}
		type fld struct {
			al *ssa.Alloc
			i  int
		}
		loads := map[fld][]*ssa.UnOp{}
		stores := map[fld][]*ssa.Store{}
		for _, b := range f.Blocks {
			for _, ins := range b.Instrs {
				switch x := ins.(type) {
				case *ssa.UnOp:
					if x.Op == token.MUL {
						if fa, ok := x.X.(*ssa.FieldAddr); ok {
							if al, ok := fa.X.(*ssa.Alloc); ok {
								loads[fld{al, fa.Field}] = append(loads[fld{al, fa.Field}], x)
							}
						}
					}
				case *ssa.Store:
					if fa, ok := x.Addr.(*ssa.FieldAddr); ok {
						if al, ok := fa.X.(*ssa.Alloc); ok {
							stores[fld{al, fa.Field}] = append(stores[fld{al, fa.Field}], x)
						}
					}
				}
			}
		}
		if len(loads) == 0 {
			continue
		}
		var reach map[*ssa.BasicBlock]map[*ssa.BasicBlock]bool
		for k, ls := range loads {
			ss := stores[k]
			if len(ss) != 1 || inLoop[ss[0].Block()] {
				continue
			}
			// the stored value comes from the stream (a call), not a constant default
			if _, isC := ss[0].Val.(*ssa.Const); isC {
				continue
			}
			n++
			if reach == nil {
				reach = blockReach(f)
			}
			fv := fieldVar(k.al.Type(), k.i)
			if fv == nil {
				continue
			}
			key := fmt.Sprintf("%s:%s.%s", SSAFuncName(f), typeName(k.al.Type()), fv.Name())
			bad := token.NoPos
			for _, ld := range ls {
				if inLoop[ld.Block()] || !insReaches(ld, ss[0], reach) || insReaches(ss[0], ld, reach) {
					continue
				}
				// is the loaded value (or something computed from it) used after the store?
				seen := map[ssa.Value]bool{}
				var usedAfter func(v ssa.Value, d int) bool
				usedAfter = func(v ssa.Value, d int) bool {
					if d > 3 || seen[v] || v.Referrers() == nil {
						return false
					}
					seen[v] = true
					for _, ref := range *v.Referrers() {
						if insReaches(ss[0], ref, reach) && ref.Block() != ld.Block() {
							return true
						}
						if rv, ok := ref.(ssa.Value); ok {
							switch ref.(type) {
							case *ssa.BinOp, *ssa.UnOp, *ssa.Phi, *ssa.Convert:
								if usedAfter(rv, d+1) {
									return true
								}
							}
						}
					}
					return false
				}
				if usedAfter(ld, 0) {
					bad = ld.Pos()
				}
			}
			if bad != token.NoPos {
				r.Bad("L-EARLYLOAD", key, c.Pos(bad), fmt.Sprintf("%s of the structure being filled is loaded before the one place that stores it from the stream, and the loaded (zero) value is used afterwards", fv.Name()))
			} else {
				r.OK("L-EARLYLOAD", key, c.Pos(ss[0].Pos()), "the field is not consulted before it is stored")
			}
		}
	}
	return n
}

// ---- DEP: CEA-608 is recognised by all four identification fields -----------------------------------------------

// ruleCEA608Identification (DEP): sei.ITUData.IsCEA608 compares each of country code, provider code, user identifier
// and user data type code with a constant: a registered user data message with the GA94 identifier but another type
// code (bar data, AFD) is not closed-caption data and must be passed through unchanged.
func ruleCEA608Identification(c *Ctx, r *Report) {
	f := c.ssaFunc(r, "DEP", "sei", "ITUData.IsCEA608")
	if f == nil {
		return
	}
	key := "sei.ITUData.IsCEA608:all-identification-fields"
	want := map[string]bool{"CountryCode": false, "ProviderCode": false, "UserIdentifier": false, "UserDataTypeCode": false}
	for _, b := range f.Blocks {
		for _, ins := range b.Instrs {
			bo, ok := ins.(*ssa.BinOp)
			if !ok || (bo.Op != token.EQL && bo.Op != token.NEQ) {
				continue
			}
			for i, o := range []ssa.Value{bo.X, bo.Y} {
				if _, isC := []ssa.Value{bo.Y, bo.X}[i].(*ssa.Const); !isC {
					continue
				}
				if _, fldName := valueOwnerField(o, 0); fldName != "" {
					if _, w := want[fldName]; w {
						want[fldName] = true
					}
				}
			}
		}
	}
	var missing []string
	for k, ok := range want {
		if !ok {
			missing = append(missing, k)
		}
	}
	sort.Strings(missing)
	if len(missing) > 0 {
		r.Bad("DEP", key, c.Pos(f.Pos()), "not compared with a constant: "+strings.Join(missing, ", ")+": registered user data of another kind is taken for CEA-608 and parsed as cc_data instead of being passed through")
	} else {
		r.OK("DEP", key, c.Pos(f.Pos()), "country code, provider code, user identifier and type code are all compared with constants")
	}
}

package chk

import (
	"fmt"
	"go/constant"
	"go/token"
	"go/types"
	"math/bits"
	"sort"
	"strings"

	"golang.org/x/tools/go/ssa"
)

func init() {
	Registry["WLINT4"] = func(c *Ctx, r *Report) {
		fmt.Println("boundary", ruleBoundaryCompare(c, r, nil))
		fmt.Println("bitfield types", ruleBitfieldAccessors(c, r, nil))
		fmt.Println("addchild in loops", ruleSharedChild(c, r, nil))
		fmt.Println("nrbits pairs", ruleBitCountAgree(c, r))
		ruleCaptureAfterReposition(c, r)
		ruleCbcsPatterns(c, r)
		ruleCodecStringVerbatim(c, r)
		for _, o := range r.Obls {
			if o.Status != Discharged || !strings.HasPrefix(o.Key, "L-SHAREDCHILD") {
				fmt.Println(o.Status, o.Key, o.Pos, o.Detail)
			}
		}
	}
}

// ---- L-BOUNDARY: comparisons at a field-width boundary are the exact ones ---------------------------------

var boundaryWidths = []uint{13, 16, 24, 32}

// boundaryUse: the comparison cmp of x against 2^k (or 2^k-1) is about the width k of a wire field: the function narrows
// x (or the value it was widened from or is summed into) to k bits or fewer, or the branch selects a version (its arms
// store constants to a field named Version, or join in a phi of 8-bit constants). A constant 2^16 used as an offset
// (sbgp's group description index inside a fragment) is neither.
func boundaryUse(f *ssa.Function, cmp *ssa.BinOp, x ssa.Value, k int) bool {
	root := x
	for {
		if cv, ok := root.(*ssa.Convert); ok {
			root = cv.X
			continue
		}
		break
	}
	for _, b := range f.Blocks {
		for _, ins := range b.Instrs {
			if cv, ok := ins.(*ssa.Convert); ok && typeBits(cv.Type()) <= k && typeBits(cv.Type()) > 0 {
				src := cv.X
				for {
					if c2, ok := src.(*ssa.Convert); ok {
						src = c2.X
						continue
					}
					break
				}
				if src == root || src == x {
					return true
				}
				if ph, ok := src.(*ssa.Phi); ok {
					for _, e := range ph.Edges {
						if e == root || e == x {
							return true
						}
					}
				}
				if ph, ok := root.(*ssa.Phi); ok {
					// the loop variable of a splitting loop: the narrowing reads the same phi or a value derived by subtraction
					if bo, ok := src.(*ssa.BinOp); ok && (bo.X == ph || bo.Y == ph) {
						return true
					}
				}
			}
		}
	}
	for _, ref := range *cmp.Referrers() {
		ifi, ok := ref.(*ssa.If)
		if !ok {
			continue
		}
		blocks := append([]*ssa.BasicBlock{}, ifi.Block().Succs...)
		for _, s := range ifi.Block().Succs {
			blocks = append(blocks, s.Succs...)
		}
		for _, b := range blocks {
			for _, ins := range b.Instrs {
				switch y := ins.(type) {
				case *ssa.Store:
					if fa, ok := y.Addr.(*ssa.FieldAddr); ok {
						if fv := fieldVar(fa.X.Type(), fa.Field); fv != nil && fv.Name() == "Version" {
							if _, isC := y.Val.(*ssa.Const); isC {
								return true
							}
						}
					}
				case *ssa.Phi:
					if typeBits(y.Type()) == 8 {
						all := true
						for _, e := range y.Edges {
							if _, isC := e.(*ssa.Const); !isC {
								all = false
							}
						}
						if all {
							return true
						}
					}
				}
			}
		}
	}
	return false
}

// ruleBoundaryCompare (L-BOUNDARY): an integer compared with the constant 2^k (k one of the wire field widths 13,
// 16, 24, 32) is compared with >= or < (the value 2^k itself does not fit k bits), and one compared with 2^k-1 is
// compared with > or <= (the value 2^k-1 still fits). `x > 1<<32` keeps the value 2^32 on the 32-bit side, which
// writes it as 0; `x >= 1<<13-1` rejects the largest value the field can carry. Returns the number of comparisons
// against such a constant.
func ruleBoundaryCompare(c *Ctx, r *Report, scope func(*ssa.Function) bool) int {
	n := 0
	for _, f := range libFuncs(c, scope) {
		for _, b := range f.Blocks {
			for _, ins := range b.Instrs {
				bo, ok := ins.(*ssa.BinOp)
				if !ok {
					continue
				}
				op := bo.Op
				x, y := bo.X, bo.Y
				if _, isC := x.(*ssa.Const); isC {
					x, y = y, x
					op = map[token.Token]token.Token{token.LSS: token.GTR, token.GTR: token.LSS, token.LEQ: token.GEQ, token.GEQ: token.LEQ}[op]
				}
				cv, isC := y.(*ssa.Const)
				if !isC || cv.Value == nil || cv.Value.Kind() != constant.Int {
					continue
				}
				if op != token.LSS && op != token.GTR && op != token.LEQ && op != token.GEQ {
					continue
				}
				u, exact := constant.Uint64Val(cv.Value)
				if !exact {
					continue
				}
				for _, k := range boundaryWidths {
					if typeBits(x.Type()) <= int(k) || !boundaryUse(f, bo, x, int(k)) {
						continue
					}
					pow := uint64(1) << k
					key := fmt.Sprintf("%s:%s %s", SSAFuncName(f), srcOfExpr2(f, x), "2^"+fmt.Sprint(k))
					switch {
					case u == pow:
						n++
						if op == token.GTR || op == token.LEQ {
							r.Bad("L-BOUNDARY", key, c.Pos(bo.Pos()), fmt.Sprintf("the comparison %s 2^%d puts the value 2^%d itself on the side of the values that fit %d bits: it is then written as 0", op, k, k, k))
						} else {
							r.OK("L-BOUNDARY", key, c.Pos(bo.Pos()), fmt.Sprintf("compared with %s 2^%d", op, k))
						}
					case u == pow-1:
						n++
						if op == token.GEQ || op == token.LSS {
							r.Bad("L-BOUNDARY", key+"-1", c.Pos(bo.Pos()), fmt.Sprintf("the comparison %s 2^%d-1 puts the largest value that fits %d bits on the side of the values that do not fit", op, k, k))
						} else {
							r.OK("L-BOUNDARY", key+"-1", c.Pos(bo.Pos()), fmt.Sprintf("compared with %s 2^%d-1", op, k))
						}
					}
				}
			}
		}
	}
	return n
}

// ---- L-BITOVERLAP: accessors of a packed integer type read disjoint bits ----------------------------------

// accessorMask: f is a one-block method on a named unsigned integer type returning (recv >> k) & m; the bits of the
// receiver it reads.
func accessorMask(f *ssa.Function) (uint64, bool) {
	if f.Signature.Recv() == nil || len(f.Blocks) != 1 || len(f.Params) != 1 {
		return 0, false
	}
	bt, ok := f.Params[0].Type().Underlying().(*types.Basic)
	if !ok || bt.Info()&types.IsUnsigned == 0 {
		return 0, false
	}
	if _, named := f.Params[0].Type().(*types.Named); !named {
		return 0, false
	}
	ret, ok := f.Blocks[0].Instrs[len(f.Blocks[0].Instrs)-1].(*ssa.Return)
	if !ok || len(ret.Results) != 1 {
		return 0, false
	}
	unconv := func(v ssa.Value) ssa.Value {
		for {
			switch x := v.(type) {
			case *ssa.Convert:
				v = x.X
			case *ssa.ChangeType:
				v = x.X
			default:
				return v
			}
		}
	}
	v := unconv(ret.Results[0])
	// a flag accessor: ((recv >> k) & m) != 0
	if bo, ok := v.(*ssa.BinOp); ok && (bo.Op == token.NEQ || bo.Op == token.EQL) {
		if cs, isC := bo.Y.(*ssa.Const); isC && cs.Value != nil {
			v = unconv(bo.X)
		}
	}
	and, ok := v.(*ssa.BinOp)
	if !ok || and.Op != token.AND {
		return 0, false
	}
	mc, ok := and.Y.(*ssa.Const)
	inner := and.X
	if !ok {
		mc, ok = and.X.(*ssa.Const)
		inner = and.Y
	}
	if !ok || mc.Value == nil {
		return 0, false
	}
	m, exact := constant.Uint64Val(constant.ToInt(mc.Value))
	if !exact {
		return 0, false
	}
	inner = unconv(inner)
	k := uint64(0)
	if sh, ok := inner.(*ssa.BinOp); ok && sh.Op == token.SHR {
		kc, isC := sh.Y.(*ssa.Const)
		if !isC || kc.Value == nil {
			return 0, false
		}
		k, _ = constant.Uint64Val(constant.ToInt(kc.Value))
		inner = unconv(sh.X)
	}
	if inner != f.Params[0] || k >= 64 {
		return 0, false
	}
	return m << k, true
}

// ruleBitfieldAccessors (L-BITOVERLAP): the accessor methods of a packed integer type (SdtpEntry: is_leading,
// sample_depends_on, sample_is_depended_on, sample_has_redundancy) read pairwise disjoint bits of the receiver. Two
// accessors reading the same bits report one field of the table twice and another never. Returns the number of types
// with three or more accessors.
func ruleBitfieldAccessors(c *Ctx, r *Report, scope func(*ssa.Function) bool) int {
	type acc struct {
		f    *ssa.Function
		mask uint64
	}
	byType := map[string][]acc{}
	for _, f := range libFuncs(c, scope) {
		if m, ok := accessorMask(f); ok {
			tn := typeName(f.Params[0].Type())
			byType[tn] = append(byType[tn], acc{f, m})
		}
	}
	var names []string
	for tn := range byType {
		names = append(names, tn)
	}
	sort.Strings(names)
	n := 0
	for _, tn := range names {
		as := byType[tn]
		if len(as) < 3 {
			continue
		}
		n++
		sort.Slice(as, func(i, j int) bool { return SSAFuncName(as[i].f) < SSAFuncName(as[j].f) })
		bad := false
		for i := range as {
			for j := i + 1; j < len(as); j++ {
				if as[i].mask&as[j].mask != 0 {
					bad = true
					r.Bad("L-BITOVERLAP", fmt.Sprintf("%s~%s", SSAFuncName(as[i].f), SSAFuncName(as[j].f)), c.Pos(as[j].f.Pos()),
						fmt.Sprintf("both accessors read bits %#x of the packed %s: one field of the entry is reported twice and another is never reported", as[i].mask&as[j].mask, tn))
				}
			}
		}
		if !bad {
			r.OK("L-BITOVERLAP", tn, c.Pos(as[0].f.Pos()), fmt.Sprintf("%d accessors read pairwise disjoint bits", len(as)))
		}
	}
	return n
}

// ---- L-SHAREDCHILD: a box created outside a loop is not added as a child inside it --------------------------

// ruleSharedChild (L-SHAREDCHILD): an AddChild call inside a loop does not add a box that was allocated before the
// loop. The same pointer would become the child of every parent built by the loop (all trafs of a multi-track
// fragment sharing one tfdt: the decode time written for one track overwrites that of the others). Returns the number
// of AddChild calls in loops.
func ruleSharedChild(c *Ctx, r *Report, scope func(*ssa.Function) bool) int {
	n := 0
	for _, f := range libFuncs(c, scope) {
		loops := naturalLoops(f)
		if len(loops) == 0 {
			continue
		}
		for _, b := range f.Blocks {
			for _, ins := range b.Instrs {
				call, ok := ins.(*ssa.Call)
				if !ok {
					continue
				}
				callee := call.Call.StaticCallee()
				if callee == nil || callee.Name() != "AddChild" || callee.Signature.Recv() == nil || len(call.Call.Args) < 2 {
					continue
				}
				var in *loopInfo
				for _, l := range loops {
					if l.blocks[b] && (in == nil || len(l.blocks) > len(in.blocks)) {
						in = l
					}
				}
				if in == nil {
					continue
				}
				n++
				child := call.Call.Args[1]
				for {
					if mi, ok := child.(*ssa.MakeInterface); ok {
						child = mi.X
						continue
					}
					break
				}
				key := fmt.Sprintf("%s:%s.AddChild(%s)", SSAFuncName(f), srcOfExpr2(f, call.Call.Args[0]), srcOfExpr2(f, child))
				var def *ssa.BasicBlock
				switch x := child.(type) {
				case *ssa.Alloc:
					if x.Heap {
						def = x.Block()
					}
				case *ssa.Call:
					if _, isPtr := x.Type().Underlying().(*types.Pointer); isPtr {
						def = x.Block()
					}
				}
				if def != nil && !in.blocks[def] {
					r.Bad("L-SHAREDCHILD", key, c.Pos(call.Pos()), "the box added as a child in this loop was created before the loop: every iteration adds the same pointer, so the parents share one box and a later write through one of them changes all")
				} else {
					r.OK("L-SHAREDCHILD", key, c.Pos(call.Pos()), "the child added in the loop is not a box created before the loop")
				}
			}
		}
	}
	return n
}

// ---- S-BITS: NrBits() counts what WriteToSliceWriter writes --------------------------------------------------

// bitPaths enumerates the paths of an acyclic f; at a branch on a bool field of the receiver the assignment is
// recorded, other branches are followed both ways. leaf is called with the assignment and the blocks of the path.
func bitPaths(f *ssa.Function, leaf func(assign map[string]bool, path []*ssa.BasicBlock)) bool {
	if len(naturalLoops(f)) > 0 {
		return false
	}
	count := 0
	var walk func(b *ssa.BasicBlock, assign map[string]bool, path []*ssa.BasicBlock) bool
	walk = func(b *ssa.BasicBlock, assign map[string]bool, path []*ssa.BasicBlock) bool {
		path = append(path, b)
		if len(b.Succs) == 0 {
			count++
			if count > 4096 {
				return false
			}
			leaf(assign, path)
			return true
		}
		if ifi, ok := b.Instrs[len(b.Instrs)-1].(*ssa.If); ok {
			cond := ifi.Cond
			neg := false
			if u, isNot := cond.(*ssa.UnOp); isNot && u.Op == token.NOT {
				cond, neg = u.X, true
			}
			if _, fld := valueOwnerField(cond, 0); fld != "" {
				if bt, isB := cond.Type().Underlying().(*types.Basic); isB && bt.Kind() == types.Bool {
					for i, s := range b.Succs {
						val := (i == 0) != neg
						if old, set := assign[fld]; set {
							if old != val {
								continue
							}
							if !walk(s, assign, path) {
								return false
							}
							continue
						}
						na := map[string]bool{}
						for k, v := range assign {
							na[k] = v
						}
						na[fld] = val
						if !walk(s, na, path) {
							return false
						}
					}
					return true
				}
			}
		}
		for _, s := range b.Succs {
			if !walk(s, assign, path) {
				return false
			}
		}
		return true
	}
	return walk(f.Blocks[0], map[string]bool{}, nil)
}

func assignKey(a map[string]bool) string {
	var ks []string
	for k, v := range a {
		ks = append(ks, fmt.Sprintf("%s=%v", k, v))
	}
	sort.Strings(ks)
	return strings.Join(ks, ",")
}

// constAlong evaluates the constant part of an int value along a path (phis take the edge the path came by;
// non-constant addends count 0). ok=false on an operator other than +.
func constAlong(v ssa.Value, path []*ssa.BasicBlock, depth int) (int64, bool) {
	if depth > 40 {
		return 0, false
	}
	switch x := v.(type) {
	case *ssa.Const:
		if x.Value == nil {
			return 0, false
		}
		i, _ := constant.Int64Val(constant.ToInt(x.Value))
		return i, true
	case *ssa.Phi:
		for i := len(path) - 1; i > 0; i-- {
			if path[i] != x.Block() {
				continue
			}
			for j, p := range x.Block().Preds {
				if p == path[i-1] {
					return constAlong(x.Edges[j], path[:i], depth+1)
				}
			}
		}
		return 0, false
	case *ssa.BinOp:
		if x.Op != token.ADD {
			return 0, false
		}
		a, ok1 := constAlong(x.X, path, depth+1)
		b, ok2 := constAlong(x.Y, path, depth+1)
		return a + b, ok1 && ok2
	case *ssa.Convert, *ssa.UnOp, *ssa.Field, *ssa.Call:
		return 0, true
	}
	return 0, false
}

// ruleBitCountAgree (S-BITS): for a type with NrBits() int beside WriteToSliceWriter(bits.SliceWriter), under every
// assignment of the receiver's bool fields the constant number of bits NrBits adds up equals the constant widths the
// writer writes (non-constant widths and addends are left out on both sides). Size() of the SEI message is computed
// from NrBits and Payload() allocates by it; a flag bit written but not counted overruns the buffer or shifts the
// trailing bits.
func ruleBitCountAgree(c *Ctx, r *Report) int {
	n := 0
	type pair struct{ nb, wr *ssa.Function }
	pairs := map[string]*pair{}
	for _, g := range c.RepoFuncs(IsLib) {
		if g.Signature.Recv() == nil || len(g.Blocks) == 0 || g.Synthetic != "" {
			continue
		}
		tn := g.Pkg.Pkg.Name() + "." + typeName(g.Signature.Recv().Type())
		switch g.Name() {
		case "NrBits":
			if pairs[tn] == nil {
				pairs[tn] = &pair{}
			}
			pairs[tn].nb = g
		case "WriteToSliceWriter":
			if pairs[tn] == nil {
				pairs[tn] = &pair{}
			}
			pairs[tn].wr = g
		}
	}
	var tnames []string
	for tn := range pairs {
		tnames = append(tnames, tn)
	}
	sort.Strings(tnames)
	{
		for _, name := range tnames {
			nb, wr := pairs[name].nb, pairs[name].wr
			if nb == nil || wr == nil {
				continue
			}
			n++
			key := name + ":NrBits~WriteToSliceWriter"
			counted := map[string]map[int64]bool{}
			okN := true
			done := bitPaths(nb, func(assign map[string]bool, path []*ssa.BasicBlock) {
				ret, isRet := path[len(path)-1].Instrs[len(path[len(path)-1].Instrs)-1].(*ssa.Return)
				if !isRet || len(ret.Results) != 1 {
					return
				}
				v, ok := constAlong(ret.Results[0], path, 0)
				if !ok {
					okN = false
					return
				}
				k := assignKey(assign)
				if counted[k] == nil {
					counted[k] = map[int64]bool{}
				}
				counted[k][v] = true
			})
			written := map[string]map[int64]bool{}
			okW := true
			doneW := bitPaths(wr, func(assign map[string]bool, path []*ssa.BasicBlock) {
				if _, isRet := path[len(path)-1].Instrs[len(path[len(path)-1].Instrs)-1].(*ssa.Return); !isRet {
					return
				}
				var sum int64
				for _, b := range path {
					for _, ins := range b.Instrs {
						call, ok := ins.(*ssa.Call)
						if !ok {
							continue
						}
						if !call.Call.IsInvoke() || !isSliceRW(call.Call.Value.Type(), "SliceWriter") {
							if call.Call.StaticCallee() != nil && call.Call.StaticCallee().Pkg == wr.Pkg {
								okW = false // a helper that may write
							}
							continue
						}
						mname := call.Call.Method.Name()
						switch mname {
						case "WriteFlag":
							sum++
						case "WriteBits":
							if cs, ok := constSet(call.Call.Args[1], 0); ok && len(cs) == 1 {
								sum += cs[0]
							}
						default:
							if w, known := writerWidths[mname]; known && w > 0 {
								sum += w
							} else if strings.HasPrefix(mname, "Write") {
								okW = false
							}
						}
					}
				}
				k := assignKey(assign)
				if written[k] == nil {
					written[k] = map[int64]bool{}
				}
				written[k][sum] = true
			})
			if !done || !doneW || !okN || !okW {
				r.Undecided("S-BITS", key, c.Pos(nb.Pos()), "NrBits or the writer is not a loop-free sum of constant widths")
				continue
			}
			// compare per full assignment: an assignment of one side refines the other when all its literals agree
			bad := ""
			for ka, ca := range counted {
				for kw, cw := range written {
					if !assignCompatible(ka, kw) {
						continue
					}
					if !sameIntSet(ca, cw) {
						bad = fmt.Sprintf("with %s NrBits counts %v constant bits and the writer writes %v", mergeAssign(ka, kw), intSet(ca), intSet(cw))
					}
				}
			}
			if bad != "" {
				r.Bad("S-BITS", key, c.Pos(nb.Pos()), bad+": Size() and Payload() of the message disagree")
			} else {
				r.OK("S-BITS", key, c.Pos(nb.Pos()), fmt.Sprintf("the constant bit counts agree under all %d flag assignments of NrBits and %d of the writer", len(counted), len(written)))
			}
		}
	}
	return n
}

func assignCompatible(a, b string) bool {
	m := map[string]string{}
	for _, kv := range strings.Split(a, ",") {
		if i := strings.IndexByte(kv, '='); i > 0 {
			m[kv[:i]] = kv[i+1:]
		}
	}
	for _, kv := range strings.Split(b, ",") {
		if i := strings.IndexByte(kv, '='); i > 0 {
			if v, ok := m[kv[:i]]; ok && v != kv[i+1:] {
				return false
			}
		}
	}
	return true
}

func mergeAssign(a, b string) string {
	set := map[string]bool{}
	for _, s := range []string{a, b} {
		for _, kv := range strings.Split(s, ",") {
			if kv != "" {
				set[kv] = true
			}
		}
	}
	var ks []string
	for k := range set {
		ks = append(ks, k)
	}
	sort.Strings(ks)
	return strings.Join(ks, ",")
}

func sameIntSet(a, b map[int64]bool) bool {
	if len(a) != len(b) {
		return false
	}
	for k := range a {
		if !b[k] {
			return false
		}
	}
	return true
}

func intSet(a map[int64]bool) []int64 {
	var out []int64
	for k := range a {
		out = append(out, k)
	}
	sort.Slice(out, func(i, j int) bool { return out[i] < out[j] })
	return out
}

// ---- O-POS: the reference position is captured after the last repositioning --------------------------------

// maySeek: fn (or a function it calls, three levels) invokes Seek on a value other than (0, io.SeekCurrent).
func maySeek(fn *ssa.Function, depth int, seen map[*ssa.Function]bool) bool {
	if fn == nil || len(fn.Blocks) == 0 || depth > 3 || seen[fn] {
		return false
	}
	seen[fn] = true
	for _, b := range fn.Blocks {
		for _, ins := range b.Instrs {
			call, ok := ins.(ssa.CallInstruction)
			if !ok {
				continue
			}
			cc := call.Common()
			if cc.IsInvoke() && cc.Method.Name() == "Seek" && len(cc.Args) == 2 {
				off, ok1 := constSet(cc.Args[0], 0)
				wh, ok2 := constSet(cc.Args[1], 0)
				if ok1 && ok2 && len(off) == 1 && len(wh) == 1 && off[0] == 0 && wh[0] == 1 {
					continue
				}
				return true
			}
			if sc := cc.StaticCallee(); sc != nil && maySeek(sc, depth+1, seen) {
				return true
			}
		}
	}
	return false
}

// ruleCaptureAfterReposition (O-POS): in DecodeFile the reference position of lazy mode (the Seek(0, io.SeekCurrent)
// before the box loop) is taken after every call outside the loop that may reposition the input (findAndReadMfra seeks
// to the end and back to 0): no such call is reachable from the capture. Box start positions are computed relative to
// the captured value.
func ruleCaptureAfterReposition(c *Ctx, r *Report) {
	f := c.ssaFunc(r, "O-POS", "mp4", "DecodeFile")
	if f == nil {
		return
	}
	key := "mp4.DecodeFile:position-captured-after-repositioning"
	inLoop := map[*ssa.BasicBlock]bool{}
	for _, l := range naturalLoops(f) {
		for b := range l.blocks {
			inLoop[b] = true
		}
	}
	var capture ssa.Instruction
	var movers []ssa.CallInstruction
	for _, b := range f.Blocks {
		if inLoop[b] {
			continue
		}
		for _, ins := range b.Instrs {
			call, ok := ins.(ssa.CallInstruction)
			if !ok {
				continue
			}
			cc := call.Common()
			if cc.IsInvoke() && cc.Method.Name() == "Seek" && len(cc.Args) == 2 {
				off, ok1 := constSet(cc.Args[0], 0)
				wh, ok2 := constSet(cc.Args[1], 0)
				if ok1 && ok2 && len(off) == 1 && len(wh) == 1 && off[0] == 0 && wh[0] == 1 {
					capture = ins
					continue
				}
				movers = append(movers, call)
				continue
			}
			if sc := cc.StaticCallee(); sc != nil && maySeek(sc, 0, map[*ssa.Function]bool{}) {
				movers = append(movers, call)
			}
		}
	}
	if capture == nil {
		r.Undecided("O-POS", key, c.Pos(f.Pos()), "no Seek(0, io.SeekCurrent) before the box loop found")
		return
	}
	reach := blockReach(f)
	for _, m := range movers {
		if insReaches(capture, m, reach) {
			r.Bad("O-POS", key, c.Pos(m.Pos()), "a call that may reposition the input follows the capture of the reference position: the box start positions of lazy mode are computed relative to a position the input is no longer at")
			return
		}
	}
	r.OK("O-POS", key, c.Pos(capture.Pos()), fmt.Sprintf("no call that may reposition the input follows the capture (%d such calls before the loop)", len(movers)))
}

var _ = bits.Len

// ---- T-PATTERN: cbcs protects video 1:9 and audio whole ------------------------------------------------------

// ruleCbcsPatterns (T-PATTERN): among the TencBox values InitProtect builds (composite literals whose address reaches
// InitProtectData.Tenc) there is a version-1 box (cbcs) with a non-zero DefaultCryptByteBlock (the 1:9 pattern of
// video) and a version-1 box whose DefaultCryptByteBlock is zero (left out, stored as 0, or reset to 0 afterwards):
// cbcs audio is protected whole, which the pattern 0:0 signals.
func ruleCbcsPatterns(c *Ctx, r *Report) {
	f := c.ssaFunc(r, "T-PATTERN", "mp4", "InitProtect")
	if f == nil {
		return
	}
	key := "mp4.InitProtect:cbcs-video-pattern-and-audio-whole"
	type tenc struct {
		version1       bool
		cryptNonZero   bool
		cryptZeroStore bool
		skip           int64
		pos            token.Pos
	}
	boxes := map[*ssa.Alloc]*tenc{}
	for _, b := range f.Blocks {
		for _, ins := range b.Instrs {
			st, ok := ins.(*ssa.Store)
			if !ok {
				continue
			}
			fa, ok := st.Addr.(*ssa.FieldAddr)
			if !ok {
				continue
			}
			al, ok := fa.X.(*ssa.Alloc)
			if !ok || typeName(al.Type()) != "TencBox" {
				continue
			}
			fv := fieldVar(fa.X.Type(), fa.Field)
			if fv == nil {
				continue
			}
			t := boxes[al]
			if t == nil {
				t = &tenc{pos: al.Pos()}
				boxes[al] = t
			}
			cs, isC := st.Val.(*ssa.Const)
			var v int64 = -1
			if isC && cs.Value != nil {
				v, _ = constant.Int64Val(constant.ToInt(cs.Value))
			}
			switch fv.Name() {
			case "Version":
				if v == 1 {
					t.version1 = true
				}
			case "DefaultCryptByteBlock":
				if v == 0 {
					t.cryptZeroStore = true
				} else {
					t.cryptNonZero = true
				}
			case "DefaultSkipByteBlock":
				t.skip = v
			}
		}
	}
	video, audio := 0, 0
	for _, t := range boxes {
		if !t.version1 {
			continue
		}
		if t.cryptNonZero {
			video++
		}
		if !t.cryptNonZero || t.cryptZeroStore {
			audio++
		}
	}
	switch {
	case len(boxes) == 0:
		r.Undecided("T-PATTERN", key, c.Pos(f.Pos()), "no TencBox literal found in InitProtect")
	case video == 0:
		r.Bad("T-PATTERN", key, c.Pos(f.Pos()), "no version-1 tenc with a crypt:skip pattern is built: cbcs video would be signalled unpatterned")
	case audio == 0:
		r.Bad("T-PATTERN", key, c.Pos(f.Pos()), "every version-1 tenc InitProtect builds carries a non-zero crypt_byte_block: cbcs audio, which must be protected whole (pattern 0:0), is signalled and encrypted one block in ten")
	default:
		r.OK("T-PATTERN", key, c.Pos(f.Pos()), fmt.Sprintf("%d tenc literals: %d version-1 with a pattern, %d version-1 unpatterned", len(boxes), video, audio))
	}
}

// ---- T-VERBATIM: the AVC codec string carries the three SPS bytes unmodified ----------------------------------

// ruleCodecStringVerbatim (T-VERBATIM): the values avc.CodecString formats are, apart from conversions, loads of the
// fields SPS.Profile, SPS.ProfileCompatibility and SPS.Level themselves (no arithmetic in between): the codecs
// parameter carries profile_idc, the whole constraint/compatibility byte and level_idc.
func ruleCodecStringVerbatim(c *Ctx, r *Report) {
	f := c.ssaFunc(r, "T-VERBATIM", "avc", "CodecString")
	if f == nil {
		return
	}
	key := "avc.CodecString:profile-compatibility-level-verbatim"
	want := map[string]bool{"Profile": false, "ProfileCompatibility": false, "Level": false}
	for _, b := range f.Blocks {
		for _, ins := range b.Instrs {
			mi, ok := ins.(*ssa.MakeInterface)
			if !ok {
				continue
			}
			v := mi.X
			for {
				switch x := v.(type) {
				case *ssa.Convert:
					v = x.X
					continue
				case *ssa.ChangeType:
					v = x.X
					continue
				}
				break
			}
			if u, ok := v.(*ssa.UnOp); ok && u.Op == token.MUL {
				if fa, ok := u.X.(*ssa.FieldAddr); ok && typeName(fa.X.Type()) == "SPS" {
					if fv := fieldVar(fa.X.Type(), fa.Field); fv != nil {
						if _, w := want[fv.Name()]; w {
							want[fv.Name()] = true
						}
					}
				}
			}
		}
	}
	var missing []string
	for k, ok := range want {
		if !ok {
			missing = append(missing, "SPS."+k)
		}
	}
	sort.Strings(missing)
	if len(missing) > 0 {
		r.Bad("T-VERBATIM", key, c.Pos(f.Pos()), "not formatted as loaded from the SPS: "+strings.Join(missing, ", ")+" (the codecs string must carry the byte verbatim; constraint_set4/5 and the reserved bits are part of the compatibility byte)")
		return
	}
	r.OK("T-VERBATIM", key, c.Pos(f.Pos()), "profile, compatibility and level are formatted as loaded from the SPS")
}

// ---- O-CAP: sub-slices of the input handed out by the slice reader cannot grow into the input ---------------------

// ruleReaderResultCapacity (O-CAP): a method of a reader type in package bits that returns a sub-slice of the slice it
// reads from (FixedSliceReader.ReadBytes, RemainingBytes) limits the capacity of the result (full slice expression
// s[a:b:b]). With the two-index form the result's capacity runs to the end of the caller's buffer, and an append by
// the owner of a decoded box (FtypBox.AddCompatibleBrands, MdatBox.AddSampleData, …) writes into the input bytes that
// follow the box — bytes other goroutines decoding the same shared buffer are reading. Returns the number of such
// results.
func ruleReaderResultCapacity(c *Ctx, r *Report, scope func(*ssa.Function) bool) int {
	n := 0
	for _, f := range libFuncs(c, scope) {
		if f.Signature.Recv() == nil || f.Signature.Results().Len() != 1 {
			continue
		}
		if sl, ok := f.Signature.Results().At(0).Type().Underlying().(*types.Slice); !ok || sl.Elem().String() != "byte" {
			continue
		}
		// reader types only (the writer's Bytes() hands out its own buffer, not input)
		if f.Pkg == nil || types.NewMethodSet(f.Signature.Recv().Type()).Lookup(f.Pkg.Pkg, "ReadUint8") == nil {
			if !strings.Contains(strings.ToLower(typeName(f.Signature.Recv().Type())), "reader") {
				continue
			}
		}
		seen := map[ssa.Value]bool{}
		var visit func(v ssa.Value)
		visit = func(v ssa.Value) {
			if seen[v] {
				return
			}
			seen[v] = true
			switch x := v.(type) {
			case *ssa.Phi:
				for _, e := range x.Edges {
					visit(e)
				}
			case *ssa.Slice:
				ld, ok := x.X.(*ssa.UnOp)
				if !ok {
					return
				}
				fa, ok := ld.X.(*ssa.FieldAddr)
				if !ok || rootParam(fa.X, 0) != f.Params[0] {
					return
				}
				fv := fieldVar(fa.X.Type(), fa.Field)
				if fv == nil {
					return
				}
				n++
				key := fmt.Sprintf("%s:result-of-%s.%s", SSAFuncName(f), typeName(fa.X.Type()), fv.Name())
				if x.Max == nil {
					r.Bad("O-CAP", key, c.Pos(x.Pos()), "the sub-slice of the input handed to the caller keeps the capacity of the rest of the input: an append to it (FtypBox.AddCompatibleBrands, MdatBox.AddSampleData after DecodeFileSR) overwrites the input bytes after the box")
				} else {
					r.OK("O-CAP", key, c.Pos(x.Pos()), "the capacity of the returned sub-slice is limited (full slice expression)")
				}
			}
		}
		for _, b := range f.Blocks {
			if ret, ok := b.Instrs[len(b.Instrs)-1].(*ssa.Return); ok && len(ret.Results) == 1 {
				visit(ret.Results[0])
			}
		}
	}
	return n
}

package chk

import (
	"strings"

	"golang.org/x/tools/go/ssa"
)

func init() { Registry["C11"] = checkC11 }

// C11 — segmenting / resegmenting / multiplexing conserve every sample (error-discipline clause only).
func checkC11(c *Ctx, r *Report) {
	r.Explanation = "One structural clause: (O-ERR) in examples/segmenter, examples/resegmenter, examples/combine-segs and mp4.MediaSegment.Fragmentify, the error returned by every sample-fetching or sample-adding call is looked at " +
		"(tested, returned or wrapped) on every path from the call to a function exit or to the next loop iteration; a path on which the co-returned value (e.g. an empty sample list) decides to continue before the error is tested " +
		"reports success with samples missing. Sample conservation itself (interval arithmetic, last-sample handling, sync-sample starts) is behaviour of tool arithmetic and is NOT decided."
	ruleOERR(c, r, "O-ERR", func(f *ssa.Function) bool {
		n := SSAFuncName(f)
		return strings.HasPrefix(n, "examples/segmenter.") || strings.HasPrefix(n, "examples/resegmenter.") || strings.HasPrefix(n, "examples/combine-segs.") || n == "mp4.MediaSegment.Fragmentify"
	})
	r.Floor("O-ERR", 40)
}

package chk

import (
	"fmt"
	"strings"

	"golang.org/x/tools/go/ssa"
)

func init() { Registry["C11"] = checkC11 }

// C11 — segmenting / resegmenting / multiplexing conserve every sample (error-discipline clause only).
func checkC11(c *Ctx, r *Report) {
	r.Explanation = "(O-EVERY, adds) a Fragment method that takes one Sample / FullSample returns nil only after the call that adds it to a trun; (DEP) in examples/segmenter every AddFullSampleToTrack / AddSampleToTrack call passes the output track id the tool assigned, not an id read from a trak box; (L-SHAREDCHILD) no AddChild call inside a loop adds a box that was created before the loop (one tfdt shared by all trafs of a multi-track fragment); Structural clauses: (L-DEADFIELD) in package mp4 and the example tools no local struct variable (the sample flags being translated) is overwritten as a whole after one of its fields was assigned with no read in between; (L-LOOPALIAS) in the sample-moving loops of package mp4 and the example tools, a slice kept beyond the iteration (sample data stored into a FullSample, an element appended to a list) does not share storage with a buffer carried round the loop and rewritten in later iterations; (O-LAST) the segmenter's last sample interval ends at the track's sample count itself (ends are inclusive); (O-TFDT) a fragment sets a track's decode time only while the track's first run is empty; (O-FALLBACK) a default duration handed to TrunBox.Duration/CommonSampleDuration is resolved from tfhd and trex; (W-MDATHDR) sample bytes are located from the mdat box's own header length; (O-INDEP) first/last chunk clipping in the lazy copy is independent; (O-ERR) in examples/segmenter, examples/resegmenter, examples/combine-segs and mp4.MediaSegment.Fragmentify, the error returned by every sample-fetching or sample-adding call is looked at " +
		"(tested, returned or wrapped) on every path from the call to a function exit or to the next loop iteration; a path on which the co-returned value (e.g. an empty sample list) decides to continue before the error is tested " +
		"reports success with samples missing. Sample conservation otherwise (interval arithmetic, sync-sample starts) is behaviour of tool arithmetic and is NOT decided."
	ruleOERR(c, r, "O-ERR", func(f *ssa.Function) bool {
		n := SSAFuncName(f)
		return strings.HasPrefix(n, "examples/segmenter.") || strings.HasPrefix(n, "examples/resegmenter.") || strings.HasPrefix(n, "examples/combine-segs.") || n == "mp4.MediaSegment.Fragmentify"
	})
	r.Floor("O-ERR", 40)
	ruleLastInterval(c, r)
	if n := ruleLoopBufferAlias(c, r, func(f *ssa.Function) bool {
		n := SSAFuncName(f)
		return strings.HasPrefix(n, "examples/segmenter.") || strings.HasPrefix(n, "examples/resegmenter.") || strings.HasPrefix(n, "examples/combine-segs.") || strings.HasPrefix(n, "examples/multitrack.") || strings.HasPrefix(n, "mp4.")
	}); n < 10 {
		r.Undecided("L-LOOPALIAS", "scope", "", fmt.Sprintf("only %d loops that keep slices beyond the iteration found", n))
	}
	if n := ruleSampleAlwaysAdded(c, r); n < 4 {
		r.Undecided("O-EVERY", "scope:adds", "", fmt.Sprintf("only %d Fragment methods taking one sample found", n))
	}
	if n := ruleSegmenterOutputTrackID(c, r); n < 3 {
		r.Undecided("DEP", "scope:output-track-id", "", fmt.Sprintf("only %d AddFullSampleToTrack / AddSampleToTrack calls found in examples/segmenter", n))
	}
	if n := ruleSharedChild(c, r, func(f *ssa.Function) bool {
		n := SSAFuncName(f)
		return strings.HasPrefix(n, "examples/") || strings.HasPrefix(n, "mp4.")
	}); n < 20 {
		r.Undecided("L-SHAREDCHILD", "scope", "", fmt.Sprintf("only %d AddChild calls inside loops found", n))
	}
	requireFixture(r, "L-SHAREDCHILD", "shareWrong", func(fc *Ctx, s *Report) { ruleSharedChild(fc, s, nil) })
	ruleStructOverwrite(c, r, func(f *ssa.Function) bool {
		n := SSAFuncName(f)
		return strings.HasPrefix(n, "examples/segmenter.") || strings.HasPrefix(n, "examples/resegmenter.") || strings.HasPrefix(n, "examples/combine-segs.") || strings.HasPrefix(n, "mp4.")
	})
	r.OK("L-DEADFIELD", "scope", "", "no local struct variable is overwritten as a whole after one of its fields was assigned with no read in between (fixture-backed)")
	requireFixture(r, "L-DEADFIELD", "structOverwrite", func(fc *Ctx, s *Report) { ruleStructOverwrite(fc, s, nil) })
	requireFixture(r, "L-LOOPALIAS", "reuseBuffer", func(fc *Ctx, s *Report) { ruleLoopBufferAlias(fc, s, nil) })
	ruleTfdtFirstRun(c, r)
	ruleResolvedDefault(c, r, "O-FALLBACK")
	ruleNoMdatHeaderConstant(c, r, "W-MDATHDR")
	requireFixture(r, "W-MDATHDR", "payloadStartWrong", func(fc *Ctx, s *Report) { ruleNoMdatHeaderConstant(fc, s, "W-MDATHDR") })
	ruleIndependentEnds(c, r, "O-INDEP", func(f *ssa.Function) bool { return strings.HasPrefix(SSAFuncName(f), "examples/segmenter.") }, 1)
}

// Package chk holds the static-analysis engines and the per-property rule
// tables that decide the structural clauses of properties C01..C20 on the
// current working tree of /repo. Nothing in here runs repository code.
package chk

import (
	"crypto/sha1"
	"encoding/json"
	"fmt"
	"go/ast"
	"go/token"
	"go/types"
	"os"
	"path/filepath"
	"sort"
	"strings"
	"time"

	"golang.org/x/tools/go/callgraph"
	"golang.org/x/tools/go/callgraph/cha"
	"golang.org/x/tools/go/callgraph/vta"
	"golang.org/x/tools/go/packages"
	"golang.org/x/tools/go/ssa"
	"golang.org/x/tools/go/ssa/ssautil"
)

const ModPath = "github.com/Eyevinn/mp4ff"

// Status of one obligation.
type Status int

const (
	Discharged Status = iota
	Violated
	Undecided
)

func (s Status) String() string {
	switch s {
	case Discharged:
		return "discharged"
	case Violated:
		return "violated"
	}
	return "undecided"
}

// Obligation = rule x construct. Key never contains a line number.
type Obligation struct {
	Rule   string `json:"rule"`
	Key    string `json:"key"`
	Pos    string `json:"pos,omitempty"`
	Status Status `json:"-"`
	St     string `json:"status"`
	Detail string `json:"detail,omitempty"`
}

// Report is what a property check returns.
type Report struct {
	Prop        string
	Obls        []*Obligation
	RuleCounts  map[string]int // instances matched per rule
	Floors      map[string]int // minimum instances per rule
	Explanation string
	Assumptions []string
	Extra       map[string]interface{}
	Infra       []string // infrastructure problems (exit 2)
}

func NewReport(prop string) *Report {
	return &Report{Prop: prop, RuleCounts: map[string]int{}, Floors: map[string]int{}, Extra: map[string]interface{}{}}
}

func (r *Report) add(rule, key, pos string, st Status, detail string) *Obligation {
	o := &Obligation{Rule: rule, Key: rule + ":" + key, Pos: pos, Status: st, Detail: detail}
	r.Obls = append(r.Obls, o)
	r.RuleCounts[rule]++
	return o
}
func (r *Report) OK(rule, key, pos, detail string) { r.add(rule, key, pos, Discharged, detail) }
func (r *Report) Bad(rule, key, pos, detail string) {
	r.add(rule, key, pos, Violated, detail)
}
func (r *Report) Undecided(rule, key, pos, detail string) {
	r.add(rule, key, pos, Undecided, detail)
}
func (r *Report) Floor(rule string, n int) {
	r.Floors[rule] = n
	if _, ok := r.RuleCounts[rule]; !ok {
		r.RuleCounts[rule] = 0
	}
}
func (r *Report) Assume(s string) { r.Assumptions = append(r.Assumptions, s) }

// minPackages: the real repository has 24 packages; fewer means the load is incomplete.
var minPackages = 20

// Ctx is the loaded program.
type Ctx struct {
	RepoDir string
	Tier    string
	Fset    *token.FileSet
	Pkgs    []*packages.Package          // repo packages (module ModPath), sorted by path
	ByPath  map[string]*packages.Package // all loaded packages incl. deps
	prog    *ssa.Program
	ssaPkgs []*ssa.Package
	cg      *callgraph.Graph
	decls   map[*types.Func]*ast.FuncDecl
	declPkg map[*types.Func]*packages.Package
	LoadS   float64
	taint   *taintState
}

// Load loads every package of the repository from its current working tree.
func Load(repoDir, tier string) (*Ctx, error) {
	t0 := time.Now()
	env := append(os.Environ(), "GOFLAGS=-mod=mod", "GOPROXY=off", "GOSUMDB=off", "GOWORK=off", "GOTOOLCHAIN=local")
	if a := os.Getenv("VERIF_GOARCH"); a != "" {
		env = append(env, "GOARCH="+a)
	}
	cfg := &packages.Config{Mode: packages.LoadAllSyntax, Dir: repoDir, Env: env, Tests: false}
	pkgs, err := packages.Load(cfg, "./...")
	if err != nil {
		return nil, fmt.Errorf("packages.Load: %w", err)
	}
	c := &Ctx{RepoDir: repoDir, Tier: tier, ByPath: map[string]*packages.Package{}, decls: map[*types.Func]*ast.FuncDecl{}, declPkg: map[*types.Func]*packages.Package{}}
	var errs []string
	packages.Visit(pkgs, nil, func(p *packages.Package) {
		c.ByPath[p.PkgPath] = p
		for _, e := range p.Errors {
			errs = append(errs, e.Error())
		}
	})
	if len(errs) > 0 {
		if len(errs) > 5 {
			errs = errs[:5]
		}
		return nil, fmt.Errorf("load/type errors: %s", strings.Join(errs, "; "))
	}
	for _, p := range pkgs {
		if strings.HasPrefix(p.PkgPath, ModPath) {
			c.Pkgs = append(c.Pkgs, p)
			c.Fset = p.Fset
		}
	}
	sort.Slice(c.Pkgs, func(i, j int) bool { return c.Pkgs[i].PkgPath < c.Pkgs[j].PkgPath })
	if len(c.Pkgs) < minPackages {
		return nil, fmt.Errorf("only %d repository packages loaded (expected >= %d)", len(c.Pkgs), minPackages)
	}
	for _, p := range c.Pkgs {
		for _, f := range p.Syntax {
			for _, d := range f.Decls {
				if fd, ok := d.(*ast.FuncDecl); ok {
					if fn, ok := p.TypesInfo.Defs[fd.Name].(*types.Func); ok {
						c.decls[fn] = fd
						c.declPkg[fn] = p
					}
				}
			}
		}
	}
	c.LoadS = time.Since(t0).Seconds()
	return c, nil
}

// Pkg returns the repo package with the given path suffix ("mp4", "cmd/mp4ff-crop").
func (c *Ctx) Pkg(suffix string) *packages.Package {
	return c.ByPath[ModPath+"/"+suffix]
}

// IsLib reports whether p is a library package (not cmd/, examples/, internal/).
func IsLib(p *packages.Package) bool {
	rel := strings.TrimPrefix(p.PkgPath, ModPath)
	return !strings.HasPrefix(rel, "/cmd/") && !strings.HasPrefix(rel, "/examples/") && !strings.HasPrefix(rel, "/internal")
}

func (c *Ctx) Decl(fn *types.Func) (*ast.FuncDecl, *packages.Package) {
	if fn == nil {
		return nil, nil
	}
	fn = fn.Origin()
	return c.decls[fn], c.declPkg[fn]
}

// Pos renders a position relative to the repo root.
func (c *Ctx) Pos(p token.Pos) string {
	if !p.IsValid() {
		return ""
	}
	pos := c.Fset.Position(p)
	rel, err := filepath.Rel(c.RepoDir, pos.Filename)
	if err != nil {
		rel = pos.Filename
	}
	return fmt.Sprintf("%s:%d:%d", rel, pos.Line, pos.Column)
}

// SSA builds (once) the SSA program for all loaded packages.
func (c *Ctx) SSA() *ssa.Program {
	if c.prog != nil {
		return c.prog
	}
	var roots []*packages.Package
	for _, p := range c.Pkgs {
		roots = append(roots, p)
	}
	prog, pkgs := ssautil.AllPackages(roots, ssa.InstantiateGenerics)
	prog.Build()
	c.prog = prog
	c.ssaPkgs = pkgs
	progCtx[prog] = c
	return prog
}

// progCtx: the context a program belongs to (for helpers that only see SSA values).
var progCtx = map[*ssa.Program]*Ctx{}

func ctxOfValue(v ssa.Value) *Ctx {
	if v == nil || v.Parent() == nil {
		return nil
	}
	return progCtx[v.Parent().Prog]
}

// SSAPkg returns the ssa package for a repo package.
func (c *Ctx) SSAPkg(p *packages.Package) *ssa.Package {
	c.SSA()
	return c.prog.Package(p.Types)
}

// CallGraph builds (once) the VTA call graph.
func (c *Ctx) CallGraph() *callgraph.Graph {
	if c.cg != nil {
		return c.cg
	}
	prog := c.SSA()
	fns := ssautil.AllFunctions(prog)
	c.cg = vta.CallGraph(fns, cha.CallGraph(prog))
	return c.cg
}

// RepoFuncs returns all SSA functions (incl. anonymous) whose package is in the repo.
func (c *Ctx) RepoFuncs(filter func(*packages.Package) bool) []*ssa.Function {
	prog := c.SSA()
	var out []*ssa.Function
	want := map[*types.Package]bool{}
	for _, p := range c.Pkgs {
		if filter == nil || filter(p) {
			want[p.Types] = true
		}
	}
	for fn := range ssautil.AllFunctions(prog) {
		if fn.Pkg == nil && fn.Parent() == nil {
			// instantiated generics / wrappers: attribute via origin
			if o := fn.Origin(); o != nil && o.Pkg != nil && want[o.Pkg.Pkg] {
				out = append(out, fn)
			}
			continue
		}
		p := fn.Pkg
		for q := fn; p == nil && q.Parent() != nil; q = q.Parent() {
			p = q.Parent().Pkg
		}
		if p != nil && want[p.Pkg] {
			out = append(out, fn)
		}
	}
	sort.Slice(out, func(i, j int) bool {
		if out[i].String() != out[j].String() {
			return out[i].String() < out[j].String()
		}
		return out[i].Pos() < out[j].Pos()
	})
	return out
}

// LookupFunc finds a package-level function or method "Recv.Name" in a repo package.
func (c *Ctx) LookupFunc(pkgSuffix, name string) *types.Func {
	p := c.Pkg(pkgSuffix)
	if p == nil {
		return nil
	}
	if i := strings.Index(name, "."); i >= 0 {
		tn, _ := p.Types.Scope().Lookup(name[:i]).(*types.TypeName)
		if tn == nil {
			return nil
		}
		obj, _, _ := types.LookupFieldOrMethod(types.NewPointer(tn.Type()), true, p.Types, name[i+1:])
		fn, _ := obj.(*types.Func)
		return fn
	}
	fn, _ := p.Types.Scope().Lookup(name).(*types.Func)
	return fn
}

// FuncName renders pkg.Recv.Name for a types.Func, short package name.
func FuncName(fn *types.Func) string {
	if fn == nil {
		return "<nil>"
	}
	pk := ""
	if fn.Pkg() != nil {
		pk = strings.TrimPrefix(strings.TrimPrefix(fn.Pkg().Path(), ModPath), "/")
		if pk == "" {
			pk = fn.Pkg().Name()
		}
	}
	sig := fn.Type().(*types.Signature)
	if r := sig.Recv(); r != nil {
		t := r.Type()
		if p, ok := t.(*types.Pointer); ok {
			t = p.Elem()
		}
		if n, ok := t.(*types.Named); ok {
			return pk + "." + n.Obj().Name() + "." + fn.Name()
		}
	}
	return pk + "." + fn.Name()
}

// SSAFuncName renders a stable name for an ssa function (no positions).
func SSAFuncName(fn *ssa.Function) string {
	if fn == nil {
		return "<nil>"
	}
	if obj, ok := fn.Object().(*types.Func); ok && obj != nil {
		return FuncName(obj)
	}
	if fn.Parent() != nil {
		return SSAFuncName(fn.Parent()) + "$" + strings.TrimPrefix(fn.Name(), fn.Parent().Name()+"$")
	}
	s := fn.String()
	s = strings.ReplaceAll(s, ModPath+"/", "")
	return s
}

// ---------------- known findings ----------------

type KnownFinding struct {
	Property string `json:"property"`
	Key      string `json:"key"`
	What     string `json:"what"`
	Input    string `json:"confirming_input,omitempty"`
}
type FixedEntry struct {
	Property string `json:"property"`
	Commit   string `json:"commit"`
	What     string `json:"what"`
	Key      string `json:"key,omitempty"`
}
type KnownFile struct {
	Comment string         `json:"comment"`
	Known   []KnownFinding `json:"known"`
	Fixed   []FixedEntry   `json:"fixed"`
	Lines   []string       `json:"fixed_lines"`
}

func LoadKnown(path string) (*KnownFile, error) {
	b, err := os.ReadFile(path)
	if err != nil {
		return nil, err
	}
	var k KnownFile
	if err := json.Unmarshal(b, &k); err != nil {
		return nil, err
	}
	return &k, nil
}

// ---------------- finishing a run ----------------

type Outcome struct {
	ExitCode   int
	Violations int
	Known      int
}

// Finish matches violations against known findings, writes evidence and
// finding files, prints the verdict lines and returns the exit code.
func Finish(r *Report, c *Ctx, verifDir, tier string, seed int64, t0 time.Time, known *KnownFile) Outcome {
	// floors
	var rules []string
	for k := range r.RuleCounts {
		rules = append(rules, k)
	}
	sort.Strings(rules)
	for _, rule := range rules {
		if fl, ok := r.Floors[rule]; ok && r.RuleCounts[rule] < fl {
			r.add(rule, "floor", "", Undecided, fmt.Sprintf("rule %s matched %d instances, floor is %d (a rule that matches too few sites passes vacuously)", rule, r.RuleCounts[rule], fl))
			r.RuleCounts[rule]-- // do not count the synthetic obligation
		}
	}
	sort.SliceStable(r.Obls, func(i, j int) bool { return r.Obls[i].Key < r.Obls[j].Key })
	kn := map[string]KnownFinding{}
	if known != nil {
		for _, k := range known.Known {
			if k.Property == r.Prop {
				kn[k.Key] = k
			}
		}
	}
	out := Outcome{}
	discharged := 0
	var viol []*Obligation
	var knownHit []*Obligation
	seenKnown := map[string]bool{}
	for _, o := range r.Obls {
		o.St = o.Status.String()
		switch o.Status {
		case Discharged:
			discharged++
		default:
			if _, ok := kn[o.Key]; ok && o.Status == Violated {
				knownHit = append(knownHit, o)
				seenKnown[o.Key] = true
			} else {
				viol = append(viol, o)
			}
		}
	}
	// relocation: a listed finding whose site no longer exists under its key, and an unlisted violation of the same
	// rule with the same construct text in the same package (the loop / allocation was moved into a helper or the
	// function was renamed) are the same finding.
	relocated := map[*Obligation]string{}
	if len(viol) > 0 {
		split := func(key string) (rule, pkg, construct string, ok bool) {
			parts := strings.SplitN(key, ":", 3)
			if len(parts) != 3 {
				return "", "", "", false
			}
			fn := parts[1]
			if i := strings.Index(fn, "."); i > 0 {
				pkg = fn[:i]
			}
			return parts[0], pkg, parts[2], pkg != ""
		}
		var rest []*Obligation
		for _, o := range viol {
			matched := ""
			if o.Status == Violated {
				if ru, pk, con, ok := split(o.Key); ok && (ru == "G1" || ru == "G2") {
					for k := range kn {
						if seenKnown[k] {
							continue
						}
						if ru2, pk2, con2, ok2 := split(k); ok2 && ru2 == ru && pk2 == pk && con2 == con {
							matched = k
							break
						}
					}
				}
			}
			if matched != "" {
				seenKnown[matched] = true
				relocated[o] = matched
				knownHit = append(knownHit, o)
			} else {
				rest = append(rest, o)
			}
		}
		viol = rest
	}
	for _, o := range knownHit {
		if k, ok := relocated[o]; ok {
			fmt.Printf("KNOWN-FINDING: property=%s %s — %s [%s] (listed as %s; the construct moved)\n", r.Prop, o.Key, kn[k].What, o.Pos, k)
			continue
		}
		fmt.Printf("KNOWN-FINDING: property=%s %s — %s [%s]\n", r.Prop, o.Key, kn[o.Key].What, o.Pos)
	}
	// a listed finding that no longer reproduces is only noted
	var stale []string
	for k := range kn {
		if !seenKnown[k] {
			stale = append(stale, k)
		}
	}
	sort.Strings(stale)
	for _, k := range stale {
		fmt.Printf("note: listed finding not reproduced on this tree: %s\n", k)
	}
	os.MkdirAll(filepath.Join(verifDir, "findings"), 0o755)
	os.MkdirAll(filepath.Join(verifDir, "evidence"), 0o755)
	for _, o := range viol {
		h := sha1.Sum([]byte(o.Key))
		p := filepath.Join(verifDir, "findings", fmt.Sprintf("%s-%x.json", r.Prop, h[:5]))
		fb, _ := json.MarshalIndent(map[string]interface{}{
			"property": r.Prop, "rule": o.Rule, "key": o.Key, "pos": o.Pos, "status": o.St, "detail": o.Detail,
			"replay": fmt.Sprintf("checker/bin/verifchk -prop %s -tier %s -only '%s'", r.Prop, tier, o.Key),
		}, "", " ")
		os.WriteFile(p, fb, 0o644)
		kind := "violated"
		if o.Status == Undecided {
			kind = "undecided"
		}
		fmt.Printf("VIOLATION property=%s replay=%s kind=%s rule=%s key=%s at %s: %s\n", r.Prop, p, kind, o.Rule, o.Key, o.Pos, o.Detail)
	}
	out.Violations = len(viol)
	out.Known = len(knownHit)
	// evidence
	samples := []interface{}{}
	perRule := map[string]int{}
	for _, o := range r.Obls {
		if perRule[o.Rule] < 3 {
			perRule[o.Rule]++
			samples = append(samples, o)
		}
	}
	nfun := 0
	if c != nil && c.prog != nil {
		nfun = len(ssautil.AllFunctions(c.prog))
	}
	cov := map[string]interface{}{
		"explanation":              r.Explanation,
		"obligations":              len(r.Obls),
		"discharged":               discharged,
		"known_findings":           len(knownHit),
		"violations_unlisted":      len(viol),
		"rule_instances":           r.RuleCounts,
		"rule_floors":              r.Floors,
		"samples":                  samples,
		"checker_cmd":              fmt.Sprintf("checker/bin/verifchk -prop %s -tier %s", r.Prop, tier),
		"trusted_base":             []string{"go/types, go/packages, x/tools go/ssa + callgraph/vta v0.29.0", "the rule tables in /verif/checker/chk"},
		"ssa_functions_in_program": nfun,
		"exhaustive":               false,
	}
	if c != nil {
		cov["packages_loaded"] = len(c.Pkgs)
		cov["load_s"] = c.LoadS
	}
	for k, v := range r.Extra {
		cov[k] = v
	}
	var all []*Obligation
	all = append(all, r.Obls...)
	cov["all_obligation_keys"] = func() []string {
		var s []string
		for _, o := range all {
			s = append(s, o.Key+" = "+o.St)
		}
		return s
	}()
	ev := map[string]interface{}{
		"property_id": r.Prop, "tier": tier, "seed": seed, "level": "other",
		"coverage": cov, "assumptions": append([]string{}, r.Assumptions...),
		"wall_s": time.Since(t0).Seconds(), "violations": len(viol),
	}
	eb, _ := json.MarshalIndent(ev, "", " ")
	if strings.HasPrefix(r.Prop, "C") { // debug commands (W…) leave no evidence file
		os.WriteFile(filepath.Join(verifDir, "evidence", r.Prop+".json"), eb, 0o644)
	}
	fmt.Printf("%s tier=%s obligations=%d discharged=%d known=%d unlisted=%d wall=%.1fs\n", r.Prop, tier, len(r.Obls), discharged, len(knownHit), len(viol), time.Since(t0).Seconds())
	if len(r.Infra) > 0 {
		for _, s := range r.Infra {
			fmt.Fprintln(os.Stderr, "INFRA:", s)
		}
		out.ExitCode = 2
		return out
	}
	if len(viol) > 0 {
		out.ExitCode = 1
	}
	return out
}

// OKOnce records a discharged obligation unless one with the same rule and key exists already.
func (r *Report) OKOnce(rule, key, pos, detail string) {
	for _, o := range r.Obls {
		if o.Key == rule+":"+key {
			return
		}
	}
	r.OK(rule, key, pos, detail)
}

// BadOnce records a violated obligation unless one with the same rule and key exists already.
func (r *Report) BadOnce(rule, key, pos, detail string) {
	for _, o := range r.Obls {
		if o.Key == rule+":"+key {
			return
		}
	}
	r.Bad(rule, key, pos, detail)
}

package chk

import (
	"fmt"
	"go/token"
	"go/types"
	"sort"

	"golang.org/x/tools/go/ssa"
)

// cursor walks: an integer loop variable advanced by constants and used (plus a constant) as index or slice bound.

type cursorUse struct {
	f      *ssa.Function
	loop   *loopInfo
	cur    *ssa.Phi
	ins    ssa.Instruction // IndexAddr or Slice
	X      ssa.Value
	off    int64 // highest element touched is cur+off (for slices: high bound cur+off is exclusive, recorded as off-1)
	isHigh bool
}

// cursorPhis: header phis whose every in-loop edge is the phi plus non-negative constants (through inner phis).
func cursorPhis(f *ssa.Function, l *loopInfo) []*ssa.Phi {
	var out []*ssa.Phi
	for _, ins := range l.header.Instrs {
		phi, ok := ins.(*ssa.Phi)
		if !ok {
			break
		}
		if !isIntType(phi.Type()) {
			continue
		}
		okAll, advanced := true, false
		var derives func(v ssa.Value, depth int) bool
		seen := map[ssa.Value]bool{}
		derives = func(v ssa.Value, depth int) bool {
			if v == ssa.Value(phi) {
				return true
			}
			if depth > 6 || seen[v] {
				return seen[v]
			}
			seen[v] = true
			switch x := v.(type) {
			case *ssa.BinOp:
				if x.Op == token.ADD {
					if cs, ok := constSet(x.Y, 0); ok && len(cs) >= 1 {
						mn, _ := minMax(cs)
						if mn >= 0 && derives(x.X, depth+1) {
							if mn > 0 {
								advanced = true
							}
							return true
						}
					}
				}
			case *ssa.Phi:
				for _, e := range x.Edges {
					if !derives(e, depth+1) {
						return false
					}
				}
				return true
			}
			return false
		}
		for i, e := range phi.Edges {
			if !l.blocks[l.header.Preds[i]] {
				continue
			}
			if !derives(e, 0) {
				okAll = false
			}
		}
		if _, _, isCtl := inductionBound(phi); isCtl || phi.Comment == "rangeindex" {
			continue // the loop's own control variable: bounded by the loop test (G3, G9)
		}
		if okAll && advanced {
			out = append(out, phi)
		}
	}
	return out
}

func cursorUses(f *ssa.Function) []cursorUse {
	var out []cursorUse
	id := func(v ssa.Value) ssa.Value { return v }
	for _, l := range naturalLoops(f) {
		for _, cur := range cursorPhis(f, l) {
			offOf := func(v ssa.Value) (int64, bool) {
				lf := linOf(v, id, 0)
				if len(lf.cs) == 1 && lf.cs[cur] == 1 && lf.k >= 0 {
					return lf.k, true
				}
				return 0, false
			}
			for _, b := range f.Blocks {
				if !l.blocks[b] {
					continue
				}
				for _, ins := range b.Instrs {
					if x, ok := ins.(*ssa.IndexAddr); ok {
						if _, isSl := x.X.Type().Underlying().(*types.Slice); !isSl {
							continue
						}
						if o, ok := offOf(x.Index); ok {
							out = append(out, cursorUse{f, l, cur, ins, x.X, o, false})
						}
					}
				}
			}
		}
	}
	return out
}

// ruleG11 — cursor walks: inside a counted loop, an element s[cur+c] of a slice that was not made in the function,
// where cur is a second loop variable advanced by constants (not the variable the loop test bounds), is read only
// (a) after a dominating test in the same iteration that establishes len(s) >= cur+k with k > c, or
// (b) when the cursor has the closed form init+step*n, the loop runs n < N, and a test dominating the loop
// establishes len(s) >= a*N+b with step <= a and init+c-a-b+1 <= 0 (then init+step*(N-1)+c <= a*N+b-1 for every N >= 1).
func ruleG11(c *Ctx, r *Report, scope map[*ssa.Function]bool) int {
	var fns []*ssa.Function
	for f := range scope {
		fns = append(fns, f)
	}
	sort.Slice(fns, func(i, j int) bool { return fns[i].String() < fns[j].String() })
	n := 0
	seen := map[string]bool{}
	for _, f := range fns {
		if f.Synthetic != "" {
			continue
		}
		for _, u := range cursorUses(f) {
			if sliceOrigin(f, u.X, 0) != nil {
				continue // made here: G3 / G3-linear
			}
			key := fmt.Sprintf("%s:%s[cursor+%d]", SSAFuncName(f), sliceText(c, f, u.ins.Pos()), u.off)
			if seen[key] {
				key += "#again"
			}
			seen[key] = true
			n++
			if why := cursorGuard(u); why != "" {
				r.OK("G11", key, c.Pos(u.ins.Pos()), why)
			} else {
				r.Bad("G11", key, c.Pos(u.ins.Pos()), fmt.Sprintf("the element at cursor+%d is read, but neither a test in the same iteration nor a test before the loop shows that the slice is that long on every iteration: index out of range on short input", u.off))
			}
		}
	}
	return n
}

// lenBoundFact: cond (with the given truth) establishes len(X) >= E; returns E as a linear form. Both sides are
// taken as linear forms, so `i < len(X)-1`, `len(X) < pos+3` (negated) and `pos+3 <= len(X)` are all understood.
func lenBoundFact(cond ssa.Value, truth bool, X ssa.Value, id func(ssa.Value) ssa.Value) (linForm, bool) {
	bo, ok := cond.(*ssa.BinOp)
	if !ok {
		return linForm{}, false
	}
	op := bo.Op
	if !truth {
		switch op {
		case token.LSS:
			op = token.GEQ
		case token.LEQ:
			op = token.GTR
		case token.GTR:
			op = token.LEQ
		case token.GEQ:
			op = token.LSS
		default:
			return linForm{}, false
		}
	}
	lx, ly := linOf(bo.X, id, 0), linOf(bo.Y, id, 0)
	var d linForm // d >= 0 holds
	switch op {
	case token.LSS:
		d = ly.add(lx, -1)
		d.k--
	case token.LEQ:
		d = ly.add(lx, -1)
	case token.GTR:
		d = lx.add(ly, -1)
		d.k--
	case token.GEQ:
		d = lx.add(ly, -1)
	default:
		return linForm{}, false
	}
	var lenLeaf ssa.Value
	for v := range d.cs {
		if isLenOf(v, X) {
			lenLeaf = v
		}
	}
	if lenLeaf == nil || d.cs[lenLeaf] != 1 {
		return linForm{}, false
	}
	// len + rest >= 0  =>  len >= -rest
	rest := linForm{k: -d.k, cs: map[ssa.Value]int64{}}
	for v, cf := range d.cs {
		if v != lenLeaf {
			rest.cs[v] = -cf
		}
	}
	return rest, true
}

// cursorGuard: a reason why cur+off < len(X) at the use, or "".
func cursorGuard(u cursorUse) string {
	why := ""
	id := newCanon()
	// (a) a test in the same iteration
	hasDominatingTest(u.cur, u.ins.Block(), func(cond ssa.Value, truth bool) bool {
		if ifb := condBlock(cond); ifb == nil || !u.loop.blocks[ifb] {
			return false
		}
		lf, ok := lenBoundFact(cond, truth, u.X, id)
		if !ok || len(lf.cs) != 1 || lf.cs[u.cur] != 1 {
			return false
		}
		if lf.k > u.off {
			why = fmt.Sprintf("a test in the same iteration establishes len >= cursor+%d before the element cursor+%d is read", lf.k, u.off)
			return true
		}
		return false
	})
	if why != "" {
		return why
	}
	// (b) closed form and a test before the loop
	init, step, ok := cursorClosedForm(u)
	if !ok {
		return ""
	}
	var ctl *ssa.Phi
	var bound ssa.Value
	for _, ins := range u.loop.header.Instrs {
		phi, isPhi := ins.(*ssa.Phi)
		if !isPhi {
			break
		}
		if b, incl, ok := inductionBound(phi); ok && !incl {
			// counter must start at 0 and advance by 1
			okCtr := true
			for i, e := range phi.Edges {
				if !u.loop.blocks[u.loop.header.Preds[i]] {
					if cs, isC := constSet(e, 0); !isC || len(cs) != 1 || cs[0] != 0 {
						okCtr = false
					}
				} else if bo, isBo := e.(*ssa.BinOp); !isBo || bo.Op != token.ADD || bo.X != ssa.Value(phi) {
					okCtr = false
				} else if cs, isC := constSet(bo.Y, 0); !isC || len(cs) != 1 || cs[0] != 1 {
					okCtr = false
				}
			}
			if okCtr {
				ctl, bound = phi, b
			}
		}
	}
	if ctl == nil {
		return ""
	}
	nForm := linOf(bound, id, 0)
	if len(nForm.cs) != 1 || nForm.k != 0 {
		return ""
	}
	var nLeaf ssa.Value
	var nCoef int64
	for v, cf := range nForm.cs {
		nLeaf, nCoef = v, cf
	}
	if nCoef != 1 {
		return ""
	}
	hasDominatingTest(u.cur, u.loop.header, func(cond ssa.Value, truth bool) bool {
		lf, ok := lenBoundFact(cond, truth, u.X, id)
		if !ok || len(lf.cs) != 1 {
			return false
		}
		a, has := lf.cs[nLeaf]
		if !has {
			return false
		}
		b := lf.k
		if step <= a && init+u.off-a-b+1 <= 0 {
			why = fmt.Sprintf("cursor = %d+%d*n with n < N, and a test before the loop establishes len >= %d*N+%d: the largest index %d+%d*(N-1)+%d is below it for every N >= 1", init, step, a, b, init, step, u.off)
			return true
		}
		return false
	})
	return why
}

func condBlock(cond ssa.Value) *ssa.BasicBlock {
	if ins, ok := cond.(ssa.Instruction); ok {
		return ins.Block()
	}
	return nil
}

// cursorClosedForm: the cursor enters the loop with a constant and every path round the loop adds the same constant.
func cursorClosedForm(u cursorUse) (init, step int64, ok bool) {
	id := func(v ssa.Value) ssa.Value { return v }
	haveInit, haveStep := false, false
	for i, e := range u.cur.Edges {
		if !u.loop.blocks[u.loop.header.Preds[i]] {
			cs, isC := constSet(e, 0)
			if !isC || len(cs) != 1 || (haveInit && cs[0] != init) {
				return 0, 0, false
			}
			init, haveInit = cs[0], true
			continue
		}
		lf := linOf(e, id, 0)
		if len(lf.cs) != 1 || lf.cs[u.cur] != 1 || (haveStep && lf.k != step) {
			return 0, 0, false
		}
		step, haveStep = lf.k, true
	}
	return init, step, haveInit && haveStep && step > 0
}

func init() {
	Registry["WCUR"] = func(c *Ctx, r *Report) {
		s4, _ := scopeFrom(c, entriesC04(c))
		s16, _ := scopeFrom(c, entriesC16(c))
		var fns []*ssa.Function
		for f := range s4 {
			fns = append(fns, f)
		}
		for f := range s16 {
			if !s4[f] {
				fns = append(fns, f)
			}
		}
		sort.Slice(fns, func(i, j int) bool { return fns[i].String() < fns[j].String() })
		n := 0
		for _, f := range fns {
			if f.Synthetic != "" {
				continue
			}
			for _, u := range cursorUses(f) {
				n++
				mk := sliceOrigin(f, u.X, 0) != nil
				fmt.Printf("%s %s cur=%s off=%d high=%v made=%v why=%q\n", c.Pos(u.ins.Pos()), SSAFuncName(f), u.cur.Comment, u.off, u.isHigh, mk, cursorGuard(u))
			}
		}
		fmt.Println("cursor uses", n)
	}
}

// ---- lockstep pairs: a counter field incremented together with an append to a sibling slice field -----------

type stepSite struct {
	f     *ssa.Function
	b     *ssa.BasicBlock
	base  ssa.Value
	typ   string
	field string
	pos   token.Pos
	isApp bool
}

func stepSites(f *ssa.Function) []stepSite {
	var out []stepSite
	for _, b := range f.Blocks {
		for _, ins := range b.Instrs {
			st, ok := ins.(*ssa.Store)
			if !ok {
				continue
			}
			fa, ok := st.Addr.(*ssa.FieldAddr)
			if !ok {
				continue
			}
			tn := typeName(fa.X.Type())
			switch v := st.Val.(type) {
			case *ssa.BinOp:
				if v.Op != token.ADD {
					continue
				}
				ld, ok := v.X.(*ssa.UnOp)
				if !ok || ld.Op != token.MUL || !sameAddr(ld.X, fa) {
					continue
				}
				if cs, ok := constSet(v.Y, 0); !ok || len(cs) != 1 || cs[0] != 1 {
					continue
				}
				out = append(out, stepSite{f, b, fa.X, tn, fieldNameOf(fa), st.Pos(), false})
			case *ssa.Call:
				if bi, ok := v.Call.Value.(*ssa.Builtin); ok && bi.Name() == "append" {
					if ld, ok := v.Call.Args[0].(*ssa.UnOp); ok && ld.Op == token.MUL && sameAddr(ld.X, fa) {
						out = append(out, stepSite{f, b, fa.X, tn, fieldNameOf(fa), st.Pos(), true})
					}
				}
			}
		}
	}
	return out
}

func init() {
	Registry["WSTEP"] = func(c *Ctx, r *Report) {
		pairs := map[string]int{}
		incs := map[string][]stepSite{}
		for _, f := range c.RepoFuncs(nil) {
			if isTestFile(c, f) {
				continue
			}
			ss := stepSites(f)
			for _, a := range ss {
				if a.isApp {
					continue
				}
				incs[a.typ+"."+a.field] = append(incs[a.typ+"."+a.field], a)
				for _, b := range ss {
					if b.isApp && b.b == a.b && b.typ == a.typ && sameValue(a.base, b.base) || (b.isApp && b.b == a.b && b.typ == a.typ && a.base == b.base) {
						pairs[a.typ+"."+a.field+" ~ "+b.field]++
					}
				}
			}
		}
		for k, v := range pairs {
			fmt.Println("pair", k, v)
		}
		for k, v := range incs {
			for _, s := range v {
				fmt.Println("inc", k, SSAFuncName(s.f), c.Pos(s.pos))
			}
		}
	}
}

// ruleLockstep (L-LOCKSTEP): where the code itself increments a counter field and appends to a sibling slice field
// of the same struct value in one basic block (the pair is inferred, then confirmed: DrefBox.EntryCount~Children,
// StsdBox.SampleCount~Children, trakOut.nextInChunkNr~chunkOffsets), every increment of that counter anywhere is
// accompanied by an append to the sibling on the same value: in the same block, dominating it, or on every path
// that leaves it. A counter stepped alone leaves the table one entry short of what the counter says.
func ruleLockstep(c *Ctx, r *Report, types_ map[string]bool) int {
	type pair struct{ typ, a, b string }
	pairs := map[pair]bool{}
	var all []stepSite
	for _, f := range c.RepoFuncs(nil) {
		if isTestFile(c, f) {
			continue
		}
		ss := stepSites(f)
		all = append(all, ss...)
		for _, a := range ss {
			if a.isApp {
				continue
			}
			for _, b := range ss {
				if b.isApp && b.b == a.b && b.typ == a.typ && (a.base == b.base || sameValue(a.base, b.base)) {
					pairs[pair{a.typ, a.field, b.field}] = true
				}
			}
		}
	}
	n := 0
	var ps []pair
	for p := range pairs {
		if types_ == nil || types_[p.typ] {
			ps = append(ps, p)
		}
	}
	sort.Slice(ps, func(i, j int) bool { return ps[i].typ+ps[i].a < ps[j].typ+ps[j].a })
	for _, p := range ps {
		n++
		seen := map[string]int{}
		for _, a := range all {
			if a.isApp || a.typ != p.typ || a.field != p.a {
				continue
			}
			key := fmt.Sprintf("%s:(%s).%s++ ~ append((%s).%s)", SSAFuncName(a.f), p.typ, p.a, p.typ, p.b)
			seen[key]++
			if seen[key] > 1 {
				key += fmt.Sprintf("#%d", seen[key])
			}
			var bBlocks []*ssa.BasicBlock
			for _, b := range all {
				if b.isApp && b.f == a.f && b.typ == p.typ && b.field == p.b && (a.base == b.base || sameValue(a.base, b.base)) {
					bBlocks = append(bBlocks, b.b)
				}
			}
			ok := false
			isB := map[*ssa.BasicBlock]bool{}
			for _, bb := range bBlocks {
				isB[bb] = true
				if bb == a.b || bb.Dominates(a.b) {
					ok = true
				}
			}
			if !ok && len(bBlocks) > 0 {
				// every path that leaves the increment passes an append
				seenB := map[*ssa.BasicBlock]bool{}
				stack := append([]*ssa.BasicBlock{}, a.b.Succs...)
				escapes := false
				if _, isRet := a.b.Instrs[len(a.b.Instrs)-1].(*ssa.Return); isRet {
					escapes = true
				}
				for len(stack) > 0 && !escapes {
					x := stack[len(stack)-1]
					stack = stack[:len(stack)-1]
					if seenB[x] || isB[x] {
						continue
					}
					seenB[x] = true
					if x == a.b {
						escapes = true
						break
					}
					if len(x.Instrs) > 0 {
						if _, isRet := x.Instrs[len(x.Instrs)-1].(*ssa.Return); isRet {
							escapes = true
							break
						}
					}
					stack = append(stack, x.Succs...)
				}
				ok = !escapes
			}
			if ok {
				r.OK("L-LOCKSTEP", key, c.Pos(a.pos), "the counter is stepped together with an append to its sibling list")
			} else {
				r.Bad("L-LOCKSTEP", key, c.Pos(a.pos), fmt.Sprintf("(%s).%s is incremented on a path that does not append to (%s).%s, although elsewhere the two are stepped together: the list ends up shorter than the counter says", p.typ, p.a, p.typ, p.b))
			}
		}
	}
	return n
}

// ruleTableReach (T-REACH): the specification tables checked by T-SPEC hold only valid code points, so a guarded
// lookup admits every index 0..len-1: no dominating test on the index is tighter than `index < len(table)`
// (neither `index < len(table)-k` nor a constant bound below the literal's length). A tighter test sends a valid
// code to the fallback arm. Unguarded lookups are G8's business, not this rule's.
func ruleTableReach(c *Ctx, r *Report, tables map[string]bool) int {
	n := 0
	seen := map[string]int{}
	for _, f := range c.RepoFuncs(nil) {
		if isTestFile(c, f) {
			continue
		}
		for _, b := range f.Blocks {
			for _, ins := range b.Instrs {
				ia, ok := ins.(*ssa.IndexAddr)
				if !ok {
					continue
				}
				ld, ok := ia.X.(*ssa.UnOp)
				if !ok || ld.Op != token.MUL {
					continue
				}
				g, ok := ld.X.(*ssa.Global)
				if !ok || g.Pkg == nil || !tables[g.Pkg.Pkg.Name()+"."+g.Name()] {
					continue
				}
				n++
				key := fmt.Sprintf("%s:%s[…]", SSAFuncName(f), g.Name())
				seen[key]++
				if seen[key] > 1 {
					key += fmt.Sprintf("#%d", seen[key])
				}
				id := newCanon()
				idxForm := linOf(ia.Index, id, 0)
				tight := ""
				// tests against len(table)
				hasDominatingTest(ia.Index, b, func(cond ssa.Value, truth bool) bool {
					lf, ok := lenBoundFact(cond, truth, ia.X, id)
					if !ok {
						return false
					}
					d := lf.add(idxForm, -1)
					if len(d.cs) == 0 && d.k >= 2 {
						tight = fmt.Sprintf("a dominating test establishes len(%s) >= index+%d: the last %d entries cannot be looked up", g.Name(), d.k, d.k-1)
					}
					return false
				})
				// constant bounds
				if L, ok := globalLiteralLen(c, ia.X); ok && len(idxForm.cs) == 1 {
					for leaf, cf := range idxForm.cs {
						if cf != 1 {
							continue
						}
						if ub, ok := upperBoundAt(leaf, b); ok && ub+idxForm.k < L-1 {
							tight = fmt.Sprintf("a dominating test bounds the index by %d but %s has %d entries", ub+idxForm.k, g.Name(), L)
						}
					}
				}
				if tight != "" {
					r.Bad("T-REACH", key, c.Pos(ia.Pos()), tight)
				} else {
					r.OK("T-REACH", key, c.Pos(ia.Pos()), "no dominating test on the index is tighter than index < len(table)")
				}
			}
		}
	}
	return n
}

// newCanon: representatives for linear-form leaves; loads of the same address compare equal.
func newCanon() func(ssa.Value) ssa.Value {
	var reps []ssa.Value
	return func(v ssa.Value) ssa.Value {
		for _, q := range reps {
			if sameSSA(q, v) {
				return q
			}
		}
		reps = append(reps, v)
		return v
	}
}

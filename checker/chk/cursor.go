package chk

import (
	"fmt"
	"go/token"
	"go/types"
	"sort"

	"golang.org/x/tools/go/ssa"
)

// cursor walks: an integer loop variable advanced by constants and used (plus a constant) as index or slice bound.

type cursorUse struct {
	f      *ssa.Function
	loop   *loopInfo
	cur    *ssa.Phi
	ins    ssa.Instruction // IndexAddr or Slice
	X      ssa.Value
	off    int64 // highest element touched is cur+off (for slices: high bound cur+off is exclusive, recorded as off-1)
	isHigh bool
}

// cursorPhis: header phis whose every in-loop edge is the phi plus non-negative constants (through inner phis).
func cursorPhis(f *ssa.Function, l *loopInfo) []*ssa.Phi {
	var out []*ssa.Phi
	for _, ins := range l.header.Instrs {
		phi, ok := ins.(*ssa.Phi)
		if !ok {
			break
		}
		if !isIntType(phi.Type()) {
			continue
		}
		okAll, advanced := true, false
		var derives func(v ssa.Value, depth int) bool
		seen := map[ssa.Value]bool{}
		derives = func(v ssa.Value, depth int) bool {
			if v == ssa.Value(phi) {
				return true
			}
			if depth > 6 || seen[v] {
				return seen[v]
			}
			seen[v] = true
			switch x := v.(type) {
			case *ssa.BinOp:
				if x.Op == token.ADD {
					if cs, ok := constSet(x.Y, 0); ok && len(cs) >= 1 {
						mn, _ := minMax(cs)
						if mn >= 0 && derives(x.X, depth+1) {
							if mn > 0 {
								advanced = true
							}
							return true
						}
					}
				}
			case *ssa.Phi:
				for _, e := range x.Edges {
					if !derives(e, depth+1) {
						return false
					}
				}
				return true
			}
			return false
		}
		for i, e := range phi.Edges {
			if !l.blocks[l.header.Preds[i]] {
				continue
			}
			if !derives(e, 0) {
				okAll = false
			}
		}
		if _, _, isCtl := inductionBound(phi); isCtl || phi.Comment == "rangeindex" {
			continue // the loop's own control variable: bounded by the loop test (G3, G9)
		}
		if okAll && advanced {
			out = append(out, phi)
		}
	}
	return out
}

func cursorUses(f *ssa.Function) []cursorUse {
	var out []cursorUse
	id := func(v ssa.Value) ssa.Value { return v }
	for _, l := range naturalLoops(f) {
		for _, cur := range cursorPhis(f, l) {
			offOf := func(v ssa.Value) (int64, bool) {
				lf := linOf(v, id, 0)
				if len(lf.cs) == 1 && lf.cs[cur] == 1 && lf.k >= 0 {
					return lf.k, true
				}
				return 0, false
			}
			for _, b := range f.Blocks {
				if !l.blocks[b] {
					continue
				}
				for _, ins := range b.Instrs {
					if x, ok := ins.(*ssa.IndexAddr); ok {
						if _, isSl := x.X.Type().Underlying().(*types.Slice); !isSl {
							continue
						}
						if o, ok := offOf(x.Index); ok {
							out = append(out, cursorUse{f, l, cur, ins, x.X, o, false})
						}
					}
				}
			}
		}
	}
	return out
}

// ruleG11 — cursor walks: inside a counted loop, an element s[cur+c] of a slice that was not made in the function,
// where cur is a second loop variable advanced by constants (not the variable the loop test bounds), is read only
// (a) after a dominating test in the same iteration that establishes len(s) >= cur+k with k > c, or
// (b) when the cursor has the closed form init+step*n, the loop runs n < N, and a test dominating the loop
// establishes len(s) >= a*N+b with step <= a and init+c-a-b+1 <= 0 (then init+step*(N-1)+c <= a*N+b-1 for every N >= 1).
func ruleG11(c *Ctx, r *Report, scope map[*ssa.Function]bool) int {
	var fns []*ssa.Function
	for f := range scope {
		fns = append(fns, f)
	}
	sort.Slice(fns, func(i, j int) bool { return fns[i].String() < fns[j].String() })
	n := 0
	seen := map[string]bool{}
	for _, f := range fns {
		if f.Synthetic != "" {
			continue
		}
		for _, u := range cursorUses(f) {
			if sliceOrigin(f, u.X, 0) != nil {
				continue // made here: G3 / G3-linear
			}
			key := fmt.Sprintf("%s:%s[cursor+%d]", SSAFuncName(f), sliceText(c, f, u.ins.Pos()), u.off)
			if seen[key] {
				key += "#again"
			}
			seen[key] = true
			n++
			if why := cursorGuard(u); why != "" {
				r.OK("G11", key, c.Pos(u.ins.Pos()), why)
			} else {
				r.Bad("G11", key, c.Pos(u.ins.Pos()), fmt.Sprintf("the element at cursor+%d is read, but neither a test in the same iteration nor a test before the loop shows that the slice is that long on every iteration: index out of range on short input", u.off))
			}
		}
	}
	return n
}

// lenBoundFact: cond (with the given truth) establishes len(X) >= E; returns E as a linear form. Both sides are
// taken as linear forms, so `i < len(X)-1`, `len(X) < pos+3` (negated) and `pos+3 <= len(X)` are all understood.
func lenBoundFact(cond ssa.Value, truth bool, X ssa.Value, id func(ssa.Value) ssa.Value) (linForm, bool) {
	bo, ok := cond.(*ssa.BinOp)
	if !ok {
		return linForm{}, false
	}
	op := bo.Op
	if !truth {
		switch op {
		case token.LSS:
			op = token.GEQ
		case token.LEQ:
			op = token.GTR
		case token.GTR:
			op = token.LEQ
		case token.GEQ:
			op = token.LSS
		default:
			return linForm{}, false
		}
	}
	lx, ly := linOf(bo.X, id, 0), linOf(bo.Y, id, 0)
	var d linForm // d >= 0 holds
	switch op {
	case token.LSS:
		d = ly.add(lx, -1)
		d.k--
	case token.LEQ:
		d = ly.add(lx, -1)
	case token.GTR:
		d = lx.add(ly, -1)
		d.k--
	case token.GEQ:
		d = lx.add(ly, -1)
	default:
		return linForm{}, false
	}
	var lenLeaf ssa.Value
	for v := range d.cs {
		if isLenOf(v, X) {
			lenLeaf = v
		}
	}
	if lenLeaf == nil || d.cs[lenLeaf] != 1 {
		return linForm{}, false
	}
	// len + rest >= 0  =>  len >= -rest
	rest := linForm{k: -d.k, cs: map[ssa.Value]int64{}}
	for v, cf := range d.cs {
		if v != lenLeaf {
			rest.cs[v] = -cf
		}
	}
	return rest, true
}

// cursorGuard: a reason why cur+off < len(X) at the use, or "".
func cursorGuard(u cursorUse) string {
	why := ""
	id := newCanon()
	// (a) a test in the same iteration
	hasDominatingTest(u.cur, u.ins.Block(), func(cond ssa.Value, truth bool) bool {
		if ifb := condBlock(cond); ifb == nil || !u.loop.blocks[ifb] {
			return false
		}
		lf, ok := lenBoundFact(cond, truth, u.X, id)
		if !ok || len(lf.cs) != 1 || lf.cs[u.cur] != 1 {
			return false
		}
		if lf.k > u.off {
			why = fmt.Sprintf("a test in the same iteration establishes len >= cursor+%d before the element cursor+%d is read", lf.k, u.off)
			return true
		}
		return false
	})
	if why != "" {
		return why
	}
	// (b) closed form and a test before the loop
	init, step, ok := cursorClosedForm(u)
	if !ok {
		return ""
	}
	var ctl *ssa.Phi
	var bound ssa.Value
	for _, ins := range u.loop.header.Instrs {
		phi, isPhi := ins.(*ssa.Phi)
		if !isPhi {
			break
		}
		if b, incl, ok := inductionBound(phi); ok && !incl {
			// counter must start at 0 and advance by 1
			okCtr := true
			for i, e := range phi.Edges {
				if !u.loop.blocks[u.loop.header.Preds[i]] {
					if cs, isC := constSet(e, 0); !isC || len(cs) != 1 || cs[0] != 0 {
						okCtr = false
					}
				} else if bo, isBo := e.(*ssa.BinOp); !isBo || bo.Op != token.ADD || bo.X != ssa.Value(phi) {
					okCtr = false
				} else if cs, isC := constSet(bo.Y, 0); !isC || len(cs) != 1 || cs[0] != 1 {
					okCtr = false
				}
			}
			if okCtr {
				ctl, bound = phi, b
			}
		}
	}
	if ctl == nil {
		return ""
	}
	nForm := linOf(bound, id, 0)
	if len(nForm.cs) != 1 || nForm.k != 0 {
		return ""
	}
	var nLeaf ssa.Value
	var nCoef int64
	for v, cf := range nForm.cs {
		nLeaf, nCoef = v, cf
	}
	if nCoef != 1 {
		return ""
	}
	hasDominatingTest(u.cur, u.loop.header, func(cond ssa.Value, truth bool) bool {
		lf, ok := lenBoundFact(cond, truth, u.X, id)
		if !ok || len(lf.cs) != 1 {
			return false
		}
		a, has := lf.cs[nLeaf]
		if !has {
			return false
		}
		b := lf.k
		if step <= a && init+u.off-a-b+1 <= 0 {
			why = fmt.Sprintf("cursor = %d+%d*n with n < N, and a test before the loop establishes len >= %d*N+%d: the largest index %d+%d*(N-1)+%d is below it for every N >= 1", init, step, a, b, init, step, u.off)
			return true
		}
		return false
	})
	return why
}

func condBlock(cond ssa.Value) *ssa.BasicBlock {
	if ins, ok := cond.(ssa.Instruction); ok {
		return ins.Block()
	}
	return nil
}

// cursorClosedForm: the cursor enters the loop with a constant and every path round the loop adds the same constant.
func cursorClosedForm(u cursorUse) (init, step int64, ok bool) {
	id := func(v ssa.Value) ssa.Value { return v }
	haveInit, haveStep := false, false
	for i, e := range u.cur.Edges {
		if !u.loop.blocks[u.loop.header.Preds[i]] {
			cs, isC := constSet(e, 0)
			if !isC || len(cs) != 1 || (haveInit && cs[0] != init) {
				return 0, 0, false
			}
			init, haveInit = cs[0], true
			continue
		}
		lf := linOf(e, id, 0)
		if len(lf.cs) != 1 || lf.cs[u.cur] != 1 || (haveStep && lf.k != step) {
			return 0, 0, false
		}
		step, haveStep = lf.k, true
	}
	return init, step, haveInit && haveStep && step > 0
}

func init() {
	Registry["WCUR"] = func(c *Ctx, r *Report) {
		s4, _ := scopeFrom(c, entriesC04(c))
		s16, _ := scopeFrom(c, entriesC16(c))
		var fns []*ssa.Function
		for f := range s4 {
			fns = append(fns, f)
		}
		for f := range s16 {
			if !s4[f] {
				fns = append(fns, f)
			}
		}
		sort.Slice(fns, func(i, j int) bool { return fns[i].String() < fns[j].String() })
		n := 0
		for _, f := range fns {
			if f.Synthetic != "" {
				continue
			}
			for _, u := range cursorUses(f) {
				n++
				mk := sliceOrigin(f, u.X, 0) != nil
				fmt.Printf("%s %s cur=%s off=%d high=%v made=%v why=%q\n", c.Pos(u.ins.Pos()), SSAFuncName(f), u.cur.Comment, u.off, u.isHigh, mk, cursorGuard(u))
			}
		}
		fmt.Println("cursor uses", n)
	}
}

// ---- lockstep pairs: a counter field incremented together with an append to a sibling slice field -----------

type stepSite struct {
	f     *ssa.Function
	b     *ssa.BasicBlock
	base  ssa.Value
	typ   string
	field string
	pos   token.Pos
	isApp bool
}

func stepSites(f *ssa.Function) []stepSite {
	var out []stepSite
	for _, b := range f.Blocks {
		for _, ins := range b.Instrs {
			st, ok := ins.(*ssa.Store)
			if !ok {
				continue
			}
			fa, ok := st.Addr.(*ssa.FieldAddr)
			if !ok {
				continue
			}
			tn := typeName(fa.X.Type())
			switch v := st.Val.(type) {
			case *ssa.BinOp:
				if v.Op != token.ADD {
					continue
				}
				ld, ok := v.X.(*ssa.UnOp)
				if !ok || ld.Op != token.MUL || !sameAddr(ld.X, fa) {
					continue
				}
				if cs, ok := constSet(v.Y, 0); !ok || len(cs) != 1 || cs[0] != 1 {
					continue
				}
				out = append(out, stepSite{f, b, fa.X, tn, fieldNameOf(fa), st.Pos(), false})
			case *ssa.Call:
				if bi, ok := v.Call.Value.(*ssa.Builtin); ok && bi.Name() == "append" {
					if ld, ok := v.Call.Args[0].(*ssa.UnOp); ok && ld.Op == token.MUL && sameAddr(ld.X, fa) {
						out = append(out, stepSite{f, b, fa.X, tn, fieldNameOf(fa), st.Pos(), true})
					}
				}
			}
		}
	}
	return out
}

func init() {
	Registry["WSTEP"] = func(c *Ctx, r *Report) {
		pairs := map[string]int{}
		incs := map[string][]stepSite{}
		for _, f := range c.RepoFuncs(nil) {
			if isTestFile(c, f) {
				continue
			}
			ss := stepSites(f)
			for _, a := range ss {
				if a.isApp {
					continue
				}
				incs[a.typ+"."+a.field] = append(incs[a.typ+"."+a.field], a)
				for _, b := range ss {
					if b.isApp && b.b == a.b && b.typ == a.typ && sameValue(a.base, b.base) || (b.isApp && b.b == a.b && b.typ == a.typ && a.base == b.base) {
						pairs[a.typ+"."+a.field+" ~ "+b.field]++
					}
				}
			}
		}
		for k, v := range pairs {
			fmt.Println("pair", k, v)
		}
		for k, v := range incs {
			for _, s := range v {
				fmt.Println("inc", k, SSAFuncName(s.f), c.Pos(s.pos))
			}
		}
	}
}

// ruleLockstep (L-LOCKSTEP): where the code itself increments a counter field and appends to a sibling slice field
// of the same struct value in one basic block (the pair is inferred, then confirmed: DrefBox.EntryCount~Children,
// StsdBox.SampleCount~Children, trakOut.nextInChunkNr~chunkOffsets), every increment of that counter anywhere is
// accompanied by an append to the sibling on the same value: in the same block, dominating it, or on every path
// that leaves it. A counter stepped alone leaves the table one entry short of what the counter says.
func ruleLockstep(c *Ctx, r *Report, types_ map[string]bool) int {
	type pair struct{ typ, a, b string }
	pairs := map[pair]bool{}
	var all []stepSite
	for _, f := range c.RepoFuncs(nil) {
		if isTestFile(c, f) {
			continue
		}
		ss := stepSites(f)
		all = append(all, ss...)
		for _, a := range ss {
			if a.isApp {
				continue
			}
			for _, b := range ss {
				if b.isApp && b.b == a.b && b.typ == a.typ && (a.base == b.base || sameValue(a.base, b.base)) {
					pairs[pair{a.typ, a.field, b.field}] = true
				}
			}
		}
	}
	n := 0
	var ps []pair
	for p := range pairs {
		if types_ == nil || types_[p.typ] {
			ps = append(ps, p)
		}
	}
	sort.Slice(ps, func(i, j int) bool { return ps[i].typ+ps[i].a < ps[j].typ+ps[j].a })
	for _, p := range ps {
		n++
		seen := map[string]int{}
		for _, a := range all {
			if a.isApp || a.typ != p.typ || a.field != p.a {
				continue
			}
			key := fmt.Sprintf("%s:(%s).%s++ ~ append((%s).%s)", SSAFuncName(a.f), p.typ, p.a, p.typ, p.b)
			seen[key]++
			if seen[key] > 1 {
				key += fmt.Sprintf("#%d", seen[key])
			}
			var bBlocks []*ssa.BasicBlock
			for _, b := range all {
				if b.isApp && b.f == a.f && b.typ == p.typ && b.field == p.b && (a.base == b.base || sameValue(a.base, b.base)) {
					bBlocks = append(bBlocks, b.b)
				}
			}
			ok := false
			isB := map[*ssa.BasicBlock]bool{}
			for _, bb := range bBlocks {
				isB[bb] = true
				if bb == a.b || bb.Dominates(a.b) {
					ok = true
				}
			}
			if !ok && len(bBlocks) > 0 {
				// every path that leaves the increment passes an append
				seenB := map[*ssa.BasicBlock]bool{}
				stack := append([]*ssa.BasicBlock{}, a.b.Succs...)
				escapes := false
				if _, isRet := a.b.Instrs[len(a.b.Instrs)-1].(*ssa.Return); isRet {
					escapes = true
				}
				for len(stack) > 0 && !escapes {
					x := stack[len(stack)-1]
					stack = stack[:len(stack)-1]
					if seenB[x] || isB[x] {
						continue
					}
					seenB[x] = true
					if x == a.b {
						escapes = true
						break
					}
					if len(x.Instrs) > 0 {
						if _, isRet := x.Instrs[len(x.Instrs)-1].(*ssa.Return); isRet {
							escapes = true
							break
						}
					}
					stack = append(stack, x.Succs...)
				}
				ok = !escapes
			}
			if ok {
				r.OK("L-LOCKSTEP", key, c.Pos(a.pos), "the counter is stepped together with an append to its sibling list")
			} else {
				r.Bad("L-LOCKSTEP", key, c.Pos(a.pos), fmt.Sprintf("(%s).%s is incremented on a path that does not append to (%s).%s, although elsewhere the two are stepped together: the list ends up shorter than the counter says", p.typ, p.a, p.typ, p.b))
			}
		}
	}
	return n
}

// ruleTableReach (T-REACH): the specification tables checked by T-SPEC hold only valid code points, so a guarded
// lookup admits every index 0..len-1: no dominating test on the index is tighter than `index < len(table)`
// (neither `index < len(table)-k` nor a constant bound below the literal's length). A tighter test sends a valid
// code to the fallback arm. Unguarded lookups are G8's business, not this rule's.
func ruleTableReach(c *Ctx, r *Report, tables map[string]bool) int {
	n := 0
	seen := map[string]int{}
	for _, f := range c.RepoFuncs(nil) {
		if isTestFile(c, f) {
			continue
		}
		for _, b := range f.Blocks {
			for _, ins := range b.Instrs {
				ia, ok := ins.(*ssa.IndexAddr)
				if !ok {
					continue
				}
				ld, ok := ia.X.(*ssa.UnOp)
				if !ok || ld.Op != token.MUL {
					continue
				}
				g, ok := ld.X.(*ssa.Global)
				if !ok || g.Pkg == nil || !tables[g.Pkg.Pkg.Name()+"."+g.Name()] {
					continue
				}
				n++
				key := fmt.Sprintf("%s:%s[…]", SSAFuncName(f), g.Name())
				seen[key]++
				if seen[key] > 1 {
					key += fmt.Sprintf("#%d", seen[key])
				}
				id := newCanon()
				idxForm := linOf(ia.Index, id, 0)
				tight := ""
				// tests against len(table)
				hasDominatingTest(ia.Index, b, func(cond ssa.Value, truth bool) bool {
					lf, ok := lenBoundFact(cond, truth, ia.X, id)
					if !ok {
						return false
					}
					d := lf.add(idxForm, -1)
					if len(d.cs) == 0 && d.k >= 2 {
						tight = fmt.Sprintf("a dominating test establishes len(%s) >= index+%d: the last %d entries cannot be looked up", g.Name(), d.k, d.k-1)
					}
					return false
				})
				// constant bounds
				if L, ok := globalLiteralLen(c, ia.X); ok && len(idxForm.cs) == 1 {
					for leaf, cf := range idxForm.cs {
						if cf != 1 {
							continue
						}
						if ub, ok := upperBoundAt(leaf, b); ok && ub+idxForm.k < L-1 {
							tight = fmt.Sprintf("a dominating test bounds the index by %d but %s has %d entries", ub+idxForm.k, g.Name(), L)
						}
					}
				}
				if tight != "" {
					r.Bad("T-REACH", key, c.Pos(ia.Pos()), tight)
				} else {
					r.OK("T-REACH", key, c.Pos(ia.Pos()), "no dominating test on the index is tighter than index < len(table)")
				}
			}
		}
	}
	return n
}

// newCanon: representatives for linear-form leaves; loads of the same address compare equal.
func newCanon() func(ssa.Value) ssa.Value {
	var reps []ssa.Value
	return func(v ssa.Value) ssa.Value {
		for _, q := range reps {
			if sameSSA(q, v) {
				return q
			}
		}
		reps = append(reps, v)
		return v
	}
}

// ---- W-SEQ: ADTS header field sequence -----------------------------------------------------------------

type bitField struct {
	width int64
	field string
	pos   token.Pos
}

// seqOfBitCalls: the unconditional (dominating the last return), loop-free calls of method `name` on a value of
// named type recvType in f, in execution order, with their constant width argument (index widthArg of Args).
func seqOfBitCalls(f *ssa.Function, recvType, name string, widthArg int) ([]*ssa.Call, bool) {
	var lastRet *ssa.BasicBlock
	for _, b := range f.Blocks {
		if b == f.Recover {
			continue // the synthetic return of a function with defers
		}
		if len(b.Instrs) > 0 {
			switch b.Instrs[len(b.Instrs)-1].(type) {
			case *ssa.Return:
				lastRet = b
			}
		}
	}
	if lastRet == nil {
		return nil, false
	}
	inLoop := map[*ssa.BasicBlock]bool{}
	for _, l := range naturalLoops(f) {
		for b := range l.blocks {
			inLoop[b] = true
		}
	}
	var out []*ssa.Call
	// dominator chain of the last return, entry first
	var chain []*ssa.BasicBlock
	for d := lastRet; d != nil; d = d.Idom() {
		chain = append([]*ssa.BasicBlock{d}, chain...)
	}
	for _, b := range chain {
		if inLoop[b] {
			continue
		}
		for _, ins := range b.Instrs {
			call, ok := ins.(*ssa.Call)
			if !ok {
				continue
			}
			cal := call.Call.StaticCallee()
			if cal == nil || cal.Name() != name || cal.Signature.Recv() == nil || typeName(cal.Signature.Recv().Type()) != recvType {
				continue
			}
			if widthArg >= len(call.Call.Args) {
				return nil, false
			}
			if cs, ok := constSet(call.Call.Args[widthArg], 0); !ok || len(cs) != 1 {
				return nil, false
			}
			out = append(out, call)
		}
	}
	return out, true
}

func fieldRead(v ssa.Value, typ string, depth int) string {
	if depth > 6 {
		return ""
	}
	switch x := v.(type) {
	case *ssa.Field:
		if typeName(x.X.Type()) == typ {
			if fv := fieldVar(x.X.Type(), x.Field); fv != nil {
				return fv.Name()
			}
		}
	case *ssa.UnOp:
		if fa, ok := x.X.(*ssa.FieldAddr); ok && typeName(fa.X.Type()) == typ {
			return fieldNameOf(fa)
		}
		return fieldRead(x.X, typ, depth+1)
	case *ssa.Convert:
		return fieldRead(x.X, typ, depth+1)
	case *ssa.BinOp:
		if s := fieldRead(x.X, typ, depth+1); s != "" {
			return s
		}
		return fieldRead(x.Y, typ, depth+1)
	}
	return ""
}

func fieldWritten(v ssa.Value, typ string, depth int) string {
	if depth > 6 || v.Referrers() == nil {
		return ""
	}
	for _, ref := range *v.Referrers() {
		switch x := ref.(type) {
		case *ssa.Store:
			if fa, ok := x.Addr.(*ssa.FieldAddr); ok && x.Val == v && typeName(fa.X.Type()) == typ {
				return fieldNameOf(fa)
			}
		case *ssa.Convert:
			if s := fieldWritten(x, typ, depth+1); s != "" {
				return s
			}
		case *ssa.BinOp:
			if x.Op == token.ADD || x.Op == token.SUB {
				if s := fieldWritten(x, typ, depth+1); s != "" {
					return s
				}
			}
		}
	}
	return ""
}

// ruleADTSSequence (W-SEQ): the bit fields ADTSHeader.Encode writes after the 16 bits of sync word/ID/layer/
// protection (which the decoder consumes in its sync search) are, in order, width and struct field, the fields
// DecodeADTSHeader reads unconditionally after the search.
func ruleADTSSequence(c *Ctx, r *Report) {
	key := "aac.ADTSHeader:Encode~DecodeADTSHeader"
	enc := c.ssaFunc(r, "W-SEQ", "aac", "ADTSHeader.Encode")
	dec := c.ssaFunc(r, "W-SEQ", "aac", "DecodeADTSHeader")
	if enc == nil || dec == nil {
		return
	}
	ws, ok1 := seqOfBitCalls(enc, "Writer", "Write", 2)
	rs, ok2 := seqOfBitCalls(dec, "Reader", "Read", 1)
	if !ok1 || !ok2 || len(ws) == 0 || len(rs) == 0 {
		r.Undecided("W-SEQ", key, c.Pos(enc.Pos()), "the encoder does not write, or the decoder does not read, the header as a sequence of constant-width bit fields through bits.Writer / bits.Reader: the layouts cannot be compared")
		return
	}
	var W, R []bitField
	for _, w := range ws {
		cs, _ := constSet(w.Call.Args[2], 0)
		W = append(W, bitField{cs[0], fieldRead(w.Call.Args[1], "ADTSHeader", 0), w.Pos()})
	}
	for _, x := range rs {
		cs, _ := constSet(x.Call.Args[1], 0)
		R = append(R, bitField{cs[0], fieldWritten(x, "ADTSHeader", 0), x.Pos()})
	}
	// skip the 16 bits consumed by the sync search
	skip := int64(0)
	i := 0
	for i < len(W) && skip < 16 {
		skip += W[i].width
		i++
	}
	if skip != 16 {
		r.Bad("W-SEQ", key, c.Pos(enc.Pos()), fmt.Sprintf("the encoder's leading fields do not add up to the 16 bits of sync word, ID, layer and protection flag (got %d)", skip))
		return
	}
	W = W[i:]
	if len(W) != len(R) {
		r.Bad("W-SEQ", key, c.Pos(enc.Pos()), fmt.Sprintf("the encoder writes %d fields after the first 16 bits, the decoder reads %d", len(W), len(R)))
		return
	}
	total := int64(16)
	for k := range W {
		total += W[k].width
		if W[k].width != R[k].width {
			r.Bad("W-SEQ", key, c.Pos(W[k].pos), fmt.Sprintf("field %d is written with %d bits and read with %d", k+1, W[k].width, R[k].width))
			return
		}
		if W[k].field != R[k].field {
			r.Bad("W-SEQ", key, c.Pos(W[k].pos), fmt.Sprintf("field %d (%d bits) is written from ADTSHeader.%s but read into ADTSHeader.%s", k+1, W[k].width, orDash(W[k].field), orDash(R[k].field)))
			return
		}
	}
	if total != 56 {
		r.Bad("W-SEQ", key, c.Pos(enc.Pos()), fmt.Sprintf("the header written is %d bits, not 56", total))
		return
	}
	// the frame length written counts the payload plus the bytes this encoder writes (total/8): PayloadLength + 7,
	// whatever HeaderLength a decoded header carries (9 with CRC, which Encode never writes)
	for _, w := range ws {
		if fieldRead(w.Call.Args[1], "ADTSHeader", 0) != "PayloadLength" {
			continue
		}
		lf := linOf(w.Call.Args[1], newCanon(), 0)
		if len(lf.cs) != 1 || lf.k != total/8 {
			r.Bad("W-SEQ", key, c.Pos(w.Pos()), fmt.Sprintf("the frame length written is not PayloadLength plus the %d bytes of header this encoder writes (constant term %d, %d variable terms)", total/8, lf.k, len(lf.cs)))
			return
		}
	}
	r.OK("W-SEQ", key, c.Pos(enc.Pos()), fmt.Sprintf("%d bit fields after the sync/ID/layer/protection bits: same widths, same struct fields, same order; 56 bits in all", len(W)))
}

func orDash(s string) string {
	if s == "" {
		return "(constant/ignored)"
	}
	return s
}

// ruleEscapeSites (W-ESC): AudioSpecificConfig.Encode can write a frequency as the 4-bit escape 0xf followed by 24
// explicit bits in as many places as DecodeAudioSpecificConfig can read one (24-bit reads, counting each call site
// of a helper that contains the read). W-BITS checks decode-then-encode over what the decoder accepts; this is the
// necessary condition in the other direction: a place where the encoder may emit the escape and the decoder reads
// a plain table index makes valid output undecodable.
func ruleEscapeSites(c *Ctx, r *Report) {
	key := "aac.AudioSpecificConfig:24-bit-escape-sites"
	enc := c.ssaFunc(r, "W-ESC", "aac", "AudioSpecificConfig.Encode")
	dec := c.ssaFunc(r, "W-ESC", "aac", "DecodeAudioSpecificConfig")
	if enc == nil || dec == nil {
		return
	}
	var count func(f *ssa.Function, method string, widthArg int, depth int) int
	count = func(f *ssa.Function, method string, widthArg int, depth int) int {
		n := 0
		for _, b := range f.Blocks {
			for _, ins := range b.Instrs {
				call, ok := ins.(*ssa.Call)
				if !ok {
					continue
				}
				cal := call.Call.StaticCallee()
				if cal == nil {
					continue
				}
				if cal.Name() == method && cal.Signature.Recv() != nil && cal.Pkg != nil && cal.Pkg.Pkg.Name() == "bits" {
					if widthArg < len(call.Call.Args) {
						if cs, ok := constSet(call.Call.Args[widthArg], 0); ok && len(cs) == 1 && cs[0] == 24 {
							n++
						}
					}
					continue
				}
				if depth < 2 && cal.Pkg != nil && cal.Pkg.Pkg.Name() == "aac" && cal != f {
					n += count(cal, method, widthArg, depth+1)
				}
			}
		}
		return n
	}
	w := count(enc, "Write", 2, 0)
	rd := count(dec, "Read", 1, 0)
	if w == 0 || rd == 0 {
		r.Undecided("W-ESC", key, c.Pos(enc.Pos()), fmt.Sprintf("24-bit explicit frequency: %d write sites, %d read sites found", w, rd))
		return
	}
	if w != rd {
		r.Bad("W-ESC", key, c.Pos(dec.Pos()), fmt.Sprintf("the encoder can write a 24-bit explicit frequency at %d places, the decoder can read one at %d: a frequency outside the table written with the escape cannot be read back", w, rd))
		return
	}
	r.OK("W-ESC", key, c.Pos(dec.Pos()), fmt.Sprintf("%d places where the encoder may write the 24-bit escape, %d where the decoder may read it", w, rd))
}

// ---- G3X: an index that ranges over one slice used on another ---------------------------------------------

type crossIdx struct {
	f   *ssa.Function
	ia  *ssa.IndexAddr
	A   ssa.Value // the slice whose length bounds the counter
	why string
}

func crossIndexSites(f *ssa.Function) []crossIdx {
	var out []crossIdx
	for _, b := range f.Blocks {
		for _, ins := range b.Instrs {
			ia, ok := ins.(*ssa.IndexAddr)
			if !ok {
				continue
			}
			if _, isSl := ia.X.Type().Underlying().(*types.Slice); !isSl {
				continue
			}
			bound, incl, ok := inductionBound(ia.Index)
			if !ok {
				bound, ok = rangeIndexBound(ia.Index)
				incl = false
			}
			if !ok || incl {
				continue
			}
			call, ok := stripConv(bound).(*ssa.Call)
			if !ok {
				continue
			}
			bi, ok := call.Call.Value.(*ssa.Builtin)
			if !ok || bi.Name() != "len" {
				continue
			}
			A := call.Call.Args[0]
			if sameSSA(A, ia.X) || sliceOrigin(f, ia.X, 0) != nil {
				continue
			}
			out = append(out, crossIdx{f: f, ia: ia, A: A})
		}
	}
	return out
}

// crossIdxGuard: a dominating test establishes len(X) >= len(A) (or equality).
func crossIdxGuard(u crossIdx) string {
	why := ""
	id := newCanon()
	hasDominatingTest(u.ia.Index, u.ia.Block(), func(cond ssa.Value, truth bool) bool {
		bo, ok := cond.(*ssa.BinOp)
		if !ok {
			return false
		}
		lenOf := func(v ssa.Value, s ssa.Value) bool { return isLenOf(stripConv(v), s) }
		if bo.Op == token.EQL || bo.Op == token.NEQ {
			eq := (bo.Op == token.EQL) == truth
			if eq && ((lenOf(bo.X, u.A) && lenOf(bo.Y, u.ia.X)) || (lenOf(bo.Y, u.A) && lenOf(bo.X, u.ia.X))) {
				why = "the two lengths are tested equal before the loop"
				return true
			}
			return false
		}
		lf, ok := lenBoundFact(cond, truth, u.ia.X, id)
		if !ok || len(lf.cs) != 1 || lf.k < 0 {
			return false
		}
		for leaf, cf := range lf.cs {
			if cf == 1 && isLenOf(leaf, u.A) {
				why = "a dominating test establishes that the indexed slice is at least as long as the one the counter ranges over"
				return true
			}
		}
		return false
	})
	return why
}

func init() {
	Registry["WCROSSIDX"] = func(c *Ctx, r *Report) {
		s4, _ := scopeFrom(c, entriesC04(c))
		var fns []*ssa.Function
		for f := range s4 {
			fns = append(fns, f)
		}
		sort.Slice(fns, func(i, j int) bool { return fns[i].String() < fns[j].String() })
		n, g := 0, 0
		for _, f := range fns {
			if f.Synthetic != "" {
				continue
			}
			for _, u := range crossIndexSites(f) {
				n++
				w := crossIdxGuard(u)
				if w != "" {
					g++
				}
				fmt.Printf("%s %s %s guarded=%q\n", c.Pos(u.ia.Pos()), SSAFuncName(f), sliceText(c, f, u.ia.Pos()), w)
			}
		}
		fmt.Println("cross index sites", n, "guarded", g)
	}
}

// ruleG3X — an index that counts up to the length of one slice is used on another slice only under a dominating test
// that the other is at least as long (or that the two lengths are equal). Scope: the decode side (functions that are
// not Encode/EncodeSW/Info/Size methods, whose parallel slices are the structure invariants E9 and G4's
// same-length invariants cover).
func ruleG3X(c *Ctx, r *Report, scope map[*ssa.Function]bool) int {
	var fns []*ssa.Function
	for f := range scope {
		fns = append(fns, f)
	}
	sort.Slice(fns, func(i, j int) bool { return fns[i].String() < fns[j].String() })
	n := 0
	seen := map[string]int{}
	for _, f := range fns {
		if f.Synthetic != "" {
			continue
		}
		switch f.Name() {
		case "Encode", "EncodeSW", "Info", "Size", "String":
			continue
		}
		for _, u := range crossIndexSites(f) {
			n++
			key := fmt.Sprintf("%s:%s[i] for i < len(other)", SSAFuncName(f), sliceText(c, f, u.ia.Pos()))
			seen[key]++
			if seen[key] > 1 {
				key += fmt.Sprintf("#%d", seen[key])
			}
			if why := crossIdxGuard(u); why != "" {
				r.OK("G3X", key, c.Pos(u.ia.Pos()), why)
			} else {
				r.Bad("G3X", key, c.Pos(u.ia.Pos()), "the index counts up to the length of another slice and no dominating test shows this one to be at least as long: index out of range when it is shorter")
			}
		}
	}
	return n
}

// rangeIndexBound: idx is the index variable of a `for i := range s` loop as go/ssa builds it (a phi starting at -1,
// incremented and compared with len(s) in the loop head); returns the bound.
func rangeIndexBound(idx ssa.Value) (ssa.Value, bool) {
	add, ok := stripConv(idx).(*ssa.BinOp)
	if !ok || add.Op != token.ADD {
		return nil, false
	}
	phi, ok := add.X.(*ssa.Phi)
	if !ok || phi.Comment != "rangeindex" {
		return nil, false
	}
	blk := add.Block()
	if len(blk.Instrs) == 0 {
		return nil, false
	}
	ifi, ok := blk.Instrs[len(blk.Instrs)-1].(*ssa.If)
	if !ok {
		return nil, false
	}
	cmp, ok := ifi.Cond.(*ssa.BinOp)
	if !ok || cmp.Op != token.LSS || cmp.X != ssa.Value(add) {
		return nil, false
	}
	return cmp.Y, true
}

// ruleG3D — an index that counts DOWN (a loop variable decremented by a constant) is used only under a dominating
// test that it has not gone below 0: `for i := len(s)-1; i >= 0; i--`. A loop that stops on another condition
// (`for …; carry > 0; i--`) indexes s[-1] when that condition outlives the slice.
func ruleG3D(c *Ctx, r *Report, scope func(*ssa.Function) bool) int {
	n := 0
	for _, f := range libFuncs(c, scope) {
		seen := map[string]int{}
		for _, l := range naturalLoops(f) {
			for _, ins := range l.header.Instrs {
				phi, ok := ins.(*ssa.Phi)
				if !ok {
					break
				}
				if !isIntType(phi.Type()) {
					continue
				}
				// every in-loop edge is phi - const (const > 0)
				down := false
				for i, e := range phi.Edges {
					if !l.blocks[l.header.Preds[i]] {
						continue
					}
					bo, ok := e.(*ssa.BinOp)
					if !ok || bo.X != ssa.Value(phi) {
						down = false
						break
					}
					cs, isC := constSet(bo.Y, 0)
					if !isC || len(cs) != 1 {
						down = false
						break
					}
					if (bo.Op == token.SUB && cs[0] > 0) || (bo.Op == token.ADD && cs[0] < 0) {
						down = true
					} else {
						down = false
						break
					}
				}
				if !down {
					continue
				}
				// signed counters only: an unsigned one wraps and is the loop-test's own business (G10)
				if bt, ok := phi.Type().Underlying().(*types.Basic); ok && bt.Info()&types.IsUnsigned != 0 {
					continue
				}
				for _, b := range f.Blocks {
					if !l.blocks[b] {
						continue
					}
					for _, i2 := range b.Instrs {
						ia, ok := i2.(*ssa.IndexAddr)
						if !ok || stripConv(ia.Index) != ssa.Value(phi) {
							continue
						}
						n++
						key := fmt.Sprintf("%s:%s[i] with i counting down", SSAFuncName(f), sliceText(c, f, ia.Pos()))
						seen[key]++
						if seen[key] > 1 {
							key += fmt.Sprintf("#%d", seen[key])
						}
						okLow := false
						if lb, ok := lowerBoundAt(phi, b, 0); ok && lb >= 0 {
							okLow = true
						}
						if !okLow {
							// i > v (or i >= v) with v itself shown non-negative
							hasDominatingTest(phi, b, func(cond ssa.Value, truth bool) bool {
								bo, ok := cond.(*ssa.BinOp)
								if !ok {
									return false
								}
								op, x, y := bo.Op, bo.X, bo.Y
								if !truth {
									op = map[token.Token]token.Token{token.LSS: token.GEQ, token.GEQ: token.LSS, token.GTR: token.LEQ, token.LEQ: token.GTR}[op]
								}
								if stripConv(y) == ssa.Value(phi) {
									x, y = y, x
									op = map[token.Token]token.Token{token.LSS: token.GTR, token.GTR: token.LSS, token.LEQ: token.GEQ, token.GEQ: token.LEQ}[op]
								}
								if stripConv(x) != ssa.Value(phi) || (op != token.GTR && op != token.GEQ) {
									return false
								}
								if lb, ok := lowerBoundAt(y, b, 0); ok && (lb >= 0 || (op == token.GTR && lb >= -1)) {
									okLow = true
									return true
								}
								// the bound is a parameter of an unexported helper: every call site passes a value shown
								// to be large enough
								if par, isPar := stripConv(y).(*ssa.Parameter); isPar {
									if lb, ok := paramLowerBoundAtCallers(c, f, par); ok && (lb >= 0 || (op == token.GTR && lb >= -1)) {
										okLow = true
										return true
									}
								}
								return false
							})
						}
						if okLow {
							r.OK("G3D", key, c.Pos(ia.Pos()), "a dominating test keeps the index at 0 or above")
						} else {
							r.Bad("G3D", key, c.Pos(ia.Pos()), "the index counts down and no dominating test keeps it at 0 or above: index out of range [-1] when the loop's other condition outlives the slice")
						}
					}
				}
			}
		}
	}
	return n
}

// ruleGOVF — a bounds test that adds an untrusted wide value before comparing (`pos+n > len`) can be defeated by
// overflow: for n near the maximum the sum wraps negative and the test passes. In the byte readers a comparison one of
// whose sides is a sum with an operand that carries 63 or more untrusted bits (through the call graph: ReadBytes is
// handed int(hdr.Size-hdrlen) of a 64-bit box size) must be preceded by a test that bounds that operand from above.
// The overflow-safe form compares the operand with a difference (`pos > len-n`, n >= 0).
func ruleGOVF(c *Ctx, r *Report, scope func(*ssa.Function) bool) int {
	ts := runTaint(c)
	n := 0
	for _, f := range libFuncs(c, scope) {
		idx := 0
		for _, b := range f.Blocks {
			if len(b.Instrs) == 0 {
				continue
			}
			ifi, ok := b.Instrs[len(b.Instrs)-1].(*ssa.If)
			if !ok {
				continue
			}
			bo, ok := ifi.Cond.(*ssa.BinOp)
			if !ok {
				continue
			}
			switch bo.Op {
			case token.LSS, token.LEQ, token.GTR, token.GEQ:
			default:
				continue
			}
			for _, side := range []ssa.Value{bo.X, bo.Y} {
				sum, ok := stripConv(side).(*ssa.BinOp)
				if !ok || sum.Op != token.ADD || typeBits(sum.Type()) < 64 {
					continue
				}
				for _, o := range []ssa.Value{sum.X, sum.Y} {
					// the amount handed in (a parameter), not the cursor it is added to
					par, isPar := stripConv(o).(*ssa.Parameter)
					if !isPar {
						continue
					}
					t := ts.get(par)
					n++
					idx++
					key := fmt.Sprintf("%s:sum-in-bounds-test#%d", SSAFuncName(f), idx)
					if t == nil || t.bits < 63 {
						nb := 0
						if t != nil {
							nb = t.bits
						}
						r.OK("G-OVF", key, c.Pos(bo.Pos()), fmt.Sprintf("every caller passes a constant or at most %d untrusted bits for %s: the sum cannot overflow", nb, par.Name()))
						continue
					}
					if _, ok := upperBoundAt(stripConv(o), b); ok {
						r.OK("G-OVF", key, c.Pos(bo.Pos()), "the wide operand is bounded from above before the sum is compared")
					} else {
						r.Bad("G-OVF", key, c.Pos(bo.Pos()), fmt.Sprintf("a bounds test compares a sum one of whose operands carries %d untrusted bits (%s) and is not bounded from above first: the sum can overflow and pass the test", t.bits, rootNames(t)))
					}
				}
			}
		}
	}
	return n
}

// ruleNegConv (L-NEGCONV): a signed difference `a - c` converted to an unsigned type wraps to a huge value when a < c.
// Where such a value bounds a loop or an index (uint64(len(sample) - 4) as the last start position), a dominating test
// must show a >= c (or the difference non-negative).
func ruleNegConv(c *Ctx, r *Report, scope func(*ssa.Function) bool) int {
	n := 0
	for _, f := range libFuncs(c, scope) {
		idx := 0
		for _, b := range f.Blocks {
			for _, ins := range b.Instrs {
				cv, ok := ins.(*ssa.Convert)
				if !ok {
					continue
				}
				to, ok1 := cv.Type().Underlying().(*types.Basic)
				from, ok2 := cv.X.Type().Underlying().(*types.Basic)
				if !ok1 || !ok2 || to.Info()&types.IsUnsigned == 0 || from.Info()&types.IsInteger == 0 || from.Info()&types.IsUnsigned != 0 {
					continue
				}
				sub, ok := cv.X.(*ssa.BinOp)
				if !ok || sub.Op != token.SUB {
					continue
				}
				cs, ok := constSet(sub.Y, 0)
				if !ok || len(cs) != 1 || cs[0] <= 0 {
					continue
				}
				// the minuend is a length or a signed parameter (something that can be smaller than the constant)
				min := stripConv(sub.X)
				isLen := false
				if call, ok := min.(*ssa.Call); ok {
					if bi, ok := call.Call.Value.(*ssa.Builtin); ok && bi.Name() == "len" {
						isLen = true
					}
				}
				_, isPar := min.(*ssa.Parameter)
				if !isLen && !isPar {
					continue
				}
				// only when the converted value takes part in a comparison or an index (a bound)
				used := false
				for _, ref := range *cv.Referrers() {
					switch x := ref.(type) {
					case *ssa.BinOp:
						switch x.Op {
						case token.LSS, token.LEQ, token.GTR, token.GEQ:
							used = true
						}
					case *ssa.IndexAddr, *ssa.Slice:
						used = true
					}
				}
				if !used {
					continue
				}
				n++
				idx++
				key := fmt.Sprintf("%s:unsigned(a-%d)#%d", SSAFuncName(f), cs[0], idx)
				if lb, ok := lowerBoundAt(sub.X, b, 0); ok && lb >= cs[0] {
					r.OK("L-NEGCONV", key, c.Pos(cv.Pos()), fmt.Sprintf("a dominating test shows the minuend to be at least %d", cs[0]))
				} else if lb2, ok2 := lowerBoundAt(min, b, 0); ok2 && lb2 >= cs[0] {
					r.OK("L-NEGCONV", key, c.Pos(cv.Pos()), fmt.Sprintf("a dominating test shows the minuend to be at least %d", cs[0]))
				} else {
					r.Bad("L-NEGCONV", key, c.Pos(cv.Pos()), fmt.Sprintf("a signed difference (length or parameter minus %d) is converted to an unsigned type and used as a bound with no dominating test that it is non-negative: for short input it wraps to a huge value", cs[0]))
				}
			}
		}
	}
	return n
}

// paramLowerBoundAtCallers: f is unexported and at every repository call site the argument for par has a lower
// bound established by a dominating test; returns the smallest of them.
func paramLowerBoundAtCallers(c *Ctx, f *ssa.Function, par *ssa.Parameter) (int64, bool) {
	if f.Object() == nil || f.Object().Exported() {
		return 0, false
	}
	idx := -1
	for i, p := range f.Params {
		if p == par {
			idx = i
		}
	}
	node := c.CallGraph().Nodes[f]
	if idx < 0 || node == nil || len(node.In) == 0 {
		return 0, false
	}
	best := int64(1) << 62
	for _, e := range node.In {
		if e.Site == nil || idx >= len(e.Site.Common().Args) {
			return 0, false
		}
		a := e.Site.Common().Args[idx]
		lb, ok := lowerBoundAt(a, e.Site.Block(), 0)
		if !ok {
			if cs, isC := constSet(a, 0); isC && len(cs) > 0 {
				mn, _ := minMax(cs)
				lb, ok = mn, true
			}
		}
		if !ok {
			return 0, false
		}
		if lb < best {
			best = lb
		}
	}
	return best, true
}

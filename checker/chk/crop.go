package chk

import (
	"go/ast"
	"go/constant"
	"go/token"
	"sort"
	"strings"
)

// ruleCropCases — the switch in cropStblChildren covers every sample table box type and each arm calls a function
// that changes that table.
func ruleCropCases(c *Ctx, r *Report) {
	p := c.Pkg("cmd/mp4ff-crop")
	if p == nil {
		r.Undecided("T-CASES", "anchor:cmd/mp4ff-crop", "", "package not found")
		return
	}
	want := map[string]bool{"stts": true, "stss": true, "ctts": true, "stsc": true, "stsz": true, "sdtp": true, "stco": true, "co64": true}
	found := map[string]string{}
	var pos string
	for _, f := range p.Syntax {
		ast.Inspect(f, func(n ast.Node) bool {
			lits := map[string]string{}
			firstCallee := func(body []ast.Stmt) string {
				callee := ""
				for _, st := range body {
					ast.Inspect(st, func(m ast.Node) bool {
						if ce, ok := m.(*ast.CallExpr); ok {
							if id, ok := ce.Fun.(*ast.Ident); ok && callee == "" {
								callee = id.Name
							}
						}
						return true
					})
				}
				return callee
			}
			var at token.Pos
			switch sw := n.(type) {
			case *ast.SwitchStmt:
				if sw.Tag == nil {
					return true
				}
				at = sw.Pos()
				for _, cc := range sw.Body.List {
					cl := cc.(*ast.CaseClause)
					for _, e := range cl.List {
						if tv := p.TypesInfo.Types[e]; tv.Value != nil && tv.Value.Kind() == constant.String {
							lits[constant.StringVal(tv.Value)] = firstCallee(cl.Body)
						}
					}
				}
			case *ast.IfStmt:
				// the same dispatch written as an if / else-if chain on `x == "lit"` (or `x == "a" || x == "b"`)
				at = sw.Pos()
				var condLits func(e ast.Expr) []string
				condLits = func(e ast.Expr) []string {
					be, ok := e.(*ast.BinaryExpr)
					if !ok {
						return nil
					}
					if be.Op == token.LOR {
						a, b := condLits(be.X), condLits(be.Y)
						if a == nil || b == nil {
							return nil
						}
						return append(a, b...)
					}
					if be.Op != token.EQL {
						return nil
					}
					for _, o := range []ast.Expr{be.X, be.Y} {
						if tv := p.TypesInfo.Types[o]; tv.Value != nil && tv.Value.Kind() == constant.String {
							return []string{constant.StringVal(tv.Value)}
						}
					}
					return nil
				}
				var cur ast.Stmt = sw
				for cur != nil {
					y, ok := cur.(*ast.IfStmt)
					if !ok {
						break
					}
					ls := condLits(y.Cond)
					if ls == nil {
						break
					}
					for _, l := range ls {
						lits[l] = firstCallee(y.Body.List)
					}
					cur = y.Else
				}
			default:
				return true
			}
			hit := 0
			for k := range lits {
				if want[k] {
					hit++
				}
			}
			if hit >= 4 && len(lits) > len(found) {
				found = lits
				pos = c.Pos(at)
			}
			return true
		})
	}
	if len(found) == 0 {
		r.Undecided("T-CASES", "cmd/mp4ff-crop:switch", "", "switch over sample table box types not found")
		return
	}
	var ks []string
	for k := range want {
		ks = append(ks, k)
	}
	sort.Strings(ks)
	for _, k := range ks {
		callee, ok := found[k]
		switch {
		case !ok:
			r.Bad("T-CASES", "cmd/mp4ff-crop:"+k, pos, "sample table box "+k+" is not handled when cropping: it keeps describing the uncropped track")
		case callee == "" || !(strings.HasPrefix(callee, "crop") || strings.HasPrefix(callee, "update")):
			r.Bad("T-CASES", "cmd/mp4ff-crop:"+k, pos, "the arm for "+k+" does not call a crop/update function")
		default:
			r.OK("T-CASES", "cmd/mp4ff-crop:"+k, pos, "handled by "+callee)
		}
	}
}

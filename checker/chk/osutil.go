package chk

import "os"

func osReadFile(name string) ([]byte, error) { return os.ReadFile(name) }

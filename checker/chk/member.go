package chk

// placeholder, replaced by the S-MEMBER implementation
func ruleSMEMBER(c *Ctx, r *Report) {}

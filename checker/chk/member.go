package chk

// E7 S-MEMBER — the traversals of a composite (Size, Encode, EncodeSW) visit the same members, in the
// same order, under the same guards. Decided with the layout interpreter on a symbolic receiver whose
// members are opaque: each member contributes "child(Size(member))".

import (
	"fmt"
	"go/types"
	"sort"
	"strings"
)

type memberVerdict struct {
	typ   string
	nCfg  int
	se    map[string]string
	ee    map[string]string
	irr   map[string]string
	err   string
	facts map[string]map[string]string
	dom   map[string]map[string]bool
}

func analyseComposite(c *Ctx, typ string) *memberVerdict {
	mv := &memberVerdict{typ: typ, se: map[string]string{}, ee: map[string]string{}, irr: map[string]string{}, facts: map[string]map[string]string{}, dom: map[string]map[string]bool{}}
	p := c.Pkg("mp4")
	tn, _ := p.Types.Scope().Lookup(typ).(*types.TypeName)
	if tn == nil {
		mv.err = "type not found"
		return mv
	}
	ex := newExplorer(c)
	run := func(in *Interp) (out *cfgOutcome) {
		out = &cfgOutcome{}
		defer func() {
			if r := recover(); r != nil {
				if pe, ok := r.(phaseErr); ok {
					out.irregs = append(out.irregs, pe.phase+": "+pe.why)
					return
				}
				panic(r)
			}
		}()
		root := in.newObj(tn.Type())
		root.Sym = true
		in.symRoot = root
		fr := &frame{pkg: p, env: map[types.Object]Val{}}
		var size *Expr
		in.phase("Size", func() {
			sv := in.callMethod(fr, root, "Size", nil, nil)
			e, ok := sv.(*Expr)
			if !ok {
				bail("Size() returned %s", showValShallow(sv))
			}
			size = e
		})
		sw := in.newStream(true, "sw")
		var swErr, wErr Val
		in.phase("EncodeSW", func() { swErr = in.callMethod(fr, root, "EncodeSW", []Val{sw}, nil) })
		w := in.newStream(true, "w")
		in.phase("Encode", func() { wErr = in.callMethod(fr, root, "Encode", []Val{w}, nil) })
		f := map[string]string{}
		for name, ks := range in.cfg {
			for _, k := range ks {
				f[fmt.Sprintf("%s[%d:%d]", name, k.lo, k.lo+k.n)] = fmt.Sprint(k.val)
			}
		}
		out.facts = f
		e1, ok1 := swErr.(ErrV)
		e2, ok2 := wErr.(ErrV)
		rej1, rej2 := ok1 && e1.NonNil, ok2 && e2.NonNil
		if rej1 != rej2 {
			out.problems = append(out.problems, fmt.Sprintf("EE|one encoder fails and the other succeeds (EncodeSW fails=%v, Encode fails=%v)", rej1, rej2))
			return out
		}
		if rej1 {
			out.rejected = true
			return out
		}
		a, b := nodesString(in.flatten(sw.T, false, nil, c)), nodesString(in.flatten(w.T, false, nil, c))
		if a != b {
			out.problems = append(out.problems, "EE|Encode and EncodeSW visit different members: EncodeSW "+a+" vs Encode "+b)
		}
		want := in.mkBin("*", cI(8), size, typInfo{64, true})
		if polyOf(want).String() != polyOf(sw.T.BitPos).String() {
			out.problems = append(out.problems, fmt.Sprintf("SE|Size() = %s bytes but EncodeSW writes %s bits", size, polyOf(sw.T.BitPos)))
		}
		return out
	}
	outs, err := ex.explore(run)
	mv.err = err
	for _, o := range outs {
		mv.nCfg++
		for _, ir := range o.irregs {
			ph := ir[:strings.Index(ir, ":")]
			if _, ok := mv.irr[ph]; !ok {
				mv.irr[ph] = ir + " [cfg " + o.cfg + "]"
			}
		}
		if o.facts != nil && !o.rejected {
			mv.facts[o.cfg] = o.facts
			for k, v := range o.facts {
				if mv.dom[k] == nil {
					mv.dom[k] = map[string]bool{}
				}
				mv.dom[k][v] = true
			}
		}
		for _, pr := range o.problems {
			kind, msg := pr[:2], pr[3:]
			m := mv.se
			if kind == "EE" {
				m = mv.ee
			}
			if _, ok := m[o.cfg]; !ok {
				m[o.cfg] = msg
			}
		}
	}
	return mv
}

var compositeTypes = []string{"File", "InitSegment", "MediaSegment", "Fragment"}

func reportMember(r *Report, rule, typ string, mv *memberVerdict, probs map[string]string, what string) {
	name := "mp4." + typ
	if mv.err != "" {
		r.Undecided(rule, name, "", "exploration incomplete: "+mv.err)
		return
	}
	if len(mv.irr) > 0 {
		var phs []string
		for ph := range mv.irr {
			phs = append(phs, ph)
		}
		sort.Strings(phs)
		r.Undecided(rule, name, "", "construct not modelled by the layout interpreter: "+mv.irr[phs[0]])
		return
	}
	v := &boxVerdict{factsOf: mv.facts, factDom: mv.dom}
	byKind := map[string][]string{}
	for cfg, m := range probs {
		byKind[kindOf(m)] = append(byKind[kindOf(m)], cfg)
	}
	var kinds []string
	for k := range byKind {
		kinds = append(kinds, k)
	}
	sort.Strings(kinds)
	for _, k := range kinds {
		cfgs := byKind[k]
		sort.Strings(cfgs)
		ex := cfgs[0]
		for _, cf := range cfgs {
			if len(cf) < len(ex) {
				ex = cf
			}
		}
		class := classOf(v, cfgs)
		key := name + ":" + k
		if class != "" {
			key += ":" + class
		}
		r.Bad(rule, key, "", fmt.Sprintf("%s — in %d of %d configurations (class %s), e.g. %s: %s", what, len(cfgs), mv.nCfg, class, ex, probs[ex]))
	}
	r.OK(rule, name, "", fmt.Sprintf("%d configurations of the composite's discriminants explored; %d disagreement classes", mv.nCfg, len(kinds)))
}

var memberCache map[*Ctx]map[string]*memberVerdict

func compositeVerdicts(c *Ctx) map[string]*memberVerdict {
	if memberCache == nil {
		memberCache = map[*Ctx]map[string]*memberVerdict{}
	}
	if m, ok := memberCache[c]; ok {
		return m
	}
	m := map[string]*memberVerdict{}
	for _, t := range compositeTypes {
		m[t] = analyseComposite(c, t)
	}
	memberCache[c] = m
	return m
}

// ruleSMEMBER (size side, C02 / C12): Size() counts exactly what EncodeSW writes.
func ruleSMEMBER(c *Ctx, r *Report) {
	m := compositeVerdicts(c)
	for _, t := range compositeTypes {
		reportMember(r, "S-MEMBER-size", t, m[t], m[t].se, "Size() and EncodeSW of the composite visit different members")
	}
	r.Floor("S-MEMBER-size", len(compositeTypes))
}

// ruleSMEMBEREnc (encoder side, C03 / C12): Encode and EncodeSW visit the same members in the same order.
func ruleSMEMBEREnc(c *Ctx, r *Report) {
	m := compositeVerdicts(c)
	for _, t := range compositeTypes {
		reportMember(r, "S-MEMBER-enc", t, m[t], m[t].ee, "Encode and EncodeSW of the composite disagree")
	}
	r.Floor("S-MEMBER-enc", len(compositeTypes))
}

package chk

// Abstract values and stream traces of the wire-layout engine (E1).

import (
	"fmt"
	"go/token"
	"go/types"
	"sort"
	"strings"
)

type Val interface{}

// Obj is an abstract struct value. Sym objects materialise missing fields lazily as atoms named by path.
type Obj struct {
	T      types.Type // the struct's (named) type
	F      map[string]Val
	Sym    bool
	Path   string
	Opaque bool // interface value of unknown dynamic type (a child box)
	Depth  int  // loop depth at creation
	id     int
}

type SliceV struct {
	Len     *Expr
	Elem    Val // generic element (nil if empty / unknown)
	ElemT   types.Type
	Str     bool  // a string rather than a slice
	Ident   *Expr // identity of the contents for blobs read from a stream / symbolic fields (nil for built slices)
	Items   []Val // literal contents when known (small)
	Depth   int
	Sym     bool
	Path    string
	bodyOf  *StreamV // the body of the box being decoded (readBoxBody): reading it continues the reader's stream
	bytesOf *StreamV // Bytes() of an in-memory writer
	from    *StreamV // stream this blob was read from …
	fromIdx int      // … as item fromIdx
	cur     *cursor  // positional parsing state (blob parsed by index expressions)
	viewOff *Expr    // for views produced by slicing a cursor blob: offset in the parent blob
	viewIdx int      // item index of the bytes item this view consumed
	parent  *SliceV
	made    bool  // created by make([]byte, n): may be filled positionally with binary.PutUintN
	wpos    *Expr // bytes written so far by positional writes
}

// cursor: a blob that is parsed with index / slice expressions is treated as a sequential
// re-read of the stream it came from; every access must be at the running position (or repeat an
// earlier access).
type cursor struct {
	st    *StreamV
	pos   *Expr            // bytes consumed so far (loop-scaled like any accumulator)
	byOff map[string]*Expr // offset -> value previously read there (single bytes / integers)
	total *Expr            // length of the blob
}

type StreamV struct {
	T      *Trace
	Writer bool
	Name   string
	Cap    *Expr // writer capacity (for wrapper checks)
	Limit  *Expr // io.LimitReader bound
	Under  *StreamV
}

type ErrV struct{ NonNil bool }
type NilV struct{}
type TupleV struct{ Vs []Val }
type Unknown struct{ Why string }
type FuncV struct {
	Fn   *types.Func
	Lit  interface{} // *ast.FuncLit
	Fr   *frame
	Recv Val
}
type MapV struct {
	Lit map[string]Val // constant-key literal map
	T   types.Type
}
type TypeV struct{ T types.Type }

// Item is one stream operation.
type Item struct {
	Kind       string // int | bytes | str | zero | children | child | hdr | unity | pad
	W          *Expr  // width in bits
	V          Val    // value read / written
	Loops      []string
	Pos        token.Pos
	Note       string
	loopBounds []*Expr
	loopIDs    []int
}

type Trace struct {
	Items  []Item
	BitPos *Expr // total bits so far (polynomial)
	SubOf  *Expr // identity of the blob this stream parses (sub-stream), if any
	prefix string
}

func (t *Trace) add(in *Interp, it Item) {
	for _, l := range in.loops {
		it.Loops = append(it.Loops, l.bound.String())
		it.loopBounds = append(it.loopBounds, l.bound)
		it.loopIDs = append(it.loopIDs, l.id)
	}
	t.Items = append(t.Items, it)
	w := it.W
	for i := len(in.loops) - 1; i >= 0; i-- {
		w = in.mkBin("*", w, in.loops[i].bound, typInfo{64, true})
	}
	if t.BitPos == nil {
		t.BitPos = cI(0)
	}
	t.BitPos = in.mkBin("+", t.BitPos, w, typInfo{64, true})
}

func showVal(v Val) string {
	switch x := v.(type) {
	case nil:
		return "<nil>"
	case *Expr:
		return x.String()
	case *Obj:
		if x.Opaque {
			return "box(" + x.Path + ")"
		}
		var ks []string
		for k := range x.F {
			ks = append(ks, k)
		}
		sort.Strings(ks)
		var parts []string
		for _, k := range ks {
			parts = append(parts, k+":"+showValShallow(x.F[k]))
		}
		return "{" + strings.Join(parts, ", ") + "}"
	}
	return showValShallow(v)
}

func showValShallow(v Val) string {
	switch x := v.(type) {
	case nil:
		return "<nil>"
	case *Expr:
		return x.String()
	case *Obj:
		if x.Opaque {
			return "box(" + x.Path + ")"
		}
		return "obj"
	case *SliceV:
		id := ""
		if x.Ident != nil {
			id = " id=" + x.Ident.String()
		}
		return fmt.Sprintf("slice(len=%s%s elem=%s)", x.Len, id, showValShallow(x.Elem))
	case *StreamV:
		return "stream"
	case ErrV:
		return fmt.Sprintf("err(nonnil=%v)", x.NonNil)
	case NilV:
		return "nil"
	case Unknown:
		return "unknown(" + x.Why + ")"
	case *TupleV:
		return "tuple"
	case *FuncV:
		return "func"
	case *MapV:
		return "map"
	}
	return fmt.Sprintf("%T", v)
}

// canonVal renders a value deeply and canonically (for decoder/decoder comparison).
func canonVal(v Val, depth int, seen map[*Obj]bool) string {
	if depth > 8 {
		return "…"
	}
	switch x := v.(type) {
	case nil:
		return "<zero>"
	case *Expr:
		return x.String()
	case *Obj:
		if x.Opaque {
			return "box(" + x.Path + ")"
		}
		if seen[x] {
			return "<cycle>"
		}
		seen[x] = true
		defer delete(seen, x)
		var ks []string
		for k := range x.F {
			ks = append(ks, k)
		}
		sort.Strings(ks)
		var parts []string
		for _, k := range ks {
			s := canonVal(x.F[k], depth+1, seen)
			if s == "<zero>" || s == "0" || s == "false" || s == "\"\"" || s == "nil" {
				continue
			}
			parts = append(parts, k+":"+s)
		}
		return "{" + strings.Join(parts, ", ") + "}"
	case *SliceV:
		id := ""
		if x.Ident != nil {
			id = " id=" + x.Ident.String()
		}
		ln := "?"
		if x.Len != nil {
			ln = x.Len.String()
		}
		if ln == "0" && x.Ident == nil {
			return "nil"
		}
		return fmt.Sprintf("slice(len=%s%s elem=%s)", ln, id, canonVal(x.Elem, depth+1, seen))
	case NilV:
		return "nil"
	case ErrV:
		return fmt.Sprintf("err(%v)", x.NonNil)
	case Unknown:
		return "unknown(" + x.Why + ")"
	}
	return showValShallow(v)
}

func typInfoOf(t types.Type) typInfo {
	if t == nil {
		return typInfo{64, true}
	}
	b, ok := t.Underlying().(*types.Basic)
	if !ok {
		return typInfo{64, false}
	}
	switch b.Kind() {
	case types.Int8:
		return typInfo{8, true}
	case types.Int16:
		return typInfo{16, true}
	case types.Int32:
		return typInfo{32, true}
	case types.Int64, types.Int, types.UntypedInt, types.UntypedRune:
		return typInfo{64, true}
	case types.Uint8:
		return typInfo{8, false}
	case types.Uint16:
		return typInfo{16, false}
	case types.Uint32:
		return typInfo{32, false}
	case types.Uint64, types.Uint, types.Uintptr:
		return typInfo{64, false}
	}
	return typInfo{64, false}
}

func isIntType(t types.Type) bool {
	b, ok := t.Underlying().(*types.Basic)
	return ok && b.Info()&types.IsInteger != 0
}
func isBoolType(t types.Type) bool {
	b, ok := t.Underlying().(*types.Basic)
	return ok && b.Info()&types.IsBoolean != 0
}
func isStringType(t types.Type) bool {
	b, ok := t.Underlying().(*types.Basic)
	return ok && b.Info()&types.IsString != 0
}
func structOf(t types.Type) *types.Struct {
	if t == nil {
		return nil
	}
	if p, ok := t.Underlying().(*types.Pointer); ok {
		t = p.Elem()
	}
	s, _ := t.Underlying().(*types.Struct)
	return s
}
func derefType(t types.Type) types.Type {
	if p, ok := t.Underlying().(*types.Pointer); ok {
		return p.Elem()
	}
	return t
}
func typeName(t types.Type) string {
	t = derefType(t)
	if n, ok := t.(*types.Named); ok {
		return n.Obj().Name()
	}
	return t.String()
}

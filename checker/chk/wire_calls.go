package chk

// Calls of the wire-layout interpreter: inlining of repository functions,
// models of the stream APIs (bits.*, io.Reader/Writer) and of a few helpers.

import (
	"fmt"
	"go/ast"
	"go/token"
	"go/types"
	"strings"

	"golang.org/x/tools/go/types/typeutil"
)

func (in *Interp) evalCall(fr *frame, c *ast.CallExpr) Val {
	info := fr.pkg.TypesInfo
	// conversions
	if tv, ok := info.Types[c.Fun]; ok && tv.IsType() {
		v := in.eval(fr, c.Args[0])
		return in.convert(v, info.TypeOf(c.Args[0]), tv.Type)
	}
	// builtins
	if id, ok := c.Fun.(*ast.Ident); ok {
		if _, isB := info.Uses[id].(*types.Builtin); isB {
			return in.builtin(fr, id.Name, c)
		}
	}
	callee := typeutil.Callee(info, c)
	fn, _ := callee.(*types.Func)
	if fn != nil && fn.Pkg() != nil && fn.Pkg().Path() == "encoding/binary" && fn.Name() == "Read" && len(c.Args) == 3 {
		// binary.Read(r, order, &x): a big-endian read of x's type into x
		if st, ok := in.eval(fr, c.Args[0]).(*StreamV); ok {
			if ue, ok := c.Args[2].(*ast.UnaryExpr); ok && ue.Op == token.AND {
				t := info.TypeOf(ue.X)
				if isIntType(t) {
					k := len(st.T.Items)
					w := typInfoOf(t).bits
					name := fmt.Sprintf("%srd#%d", st.T.prefix, k)
					a := in.atom(name, w, false)
					st.T.add(in, Item{Kind: "int", W: cI(int64(w)), V: in.rawAtom(name), Pos: c.Pos()})
					in.assignTo(fr, ue.X, a, false)
					return ErrV{}
				}
			}
		}
		return Unknown{"binary.Read"}
	}
	if fn == nil {
		// call of a function value
		fv := in.eval(fr, c.Fun)
		if f, ok := fv.(*FuncV); ok {
			args := in.evalArgs(fr, c, nil)
			if f.Lit != nil {
				return in.callLit(f, args)
			}
			if f.Fn != nil {
				return in.callFunc(fr, f.Fn, f.Recv, args, c)
			}
		}
		return Unknown{"dynamic call " + types.ExprString(c.Fun)}
	}
	sig := fn.Type().(*types.Signature)
	var recv Val
	if sig.Recv() != nil {
		if sel, ok := c.Fun.(*ast.SelectorExpr); ok {
			recv = in.eval(fr, sel.X)
			// promoted through embedded fields
			if s := info.Selections[sel]; s != nil && len(s.Index()) > 1 {
				cur := recv
				t := s.Recv()
				for _, i := range s.Index()[:len(s.Index())-1] {
					st := structOf(t)
					f := st.Field(i)
					if o, ok := cur.(*Obj); ok && !o.Opaque {
						cur = in.field(o, f.Name(), f.Type())
					}
					t = f.Type()
				}
				recv = cur
			}
		}
	}
	args := in.evalArgs(fr, c, sig)
	return in.callFunc(fr, fn, recv, args, c)
}

func (in *Interp) evalArgs(fr *frame, c *ast.CallExpr, sig *types.Signature) []Val {
	var args []Val
	if len(c.Args) == 1 {
		// f(g()) with multi-value g
		v := in.eval(fr, c.Args[0])
		if tv, ok := v.(*TupleV); ok && sig != nil && sig.Params().Len() > 1 {
			return tv.Vs
		}
		return []Val{v}
	}
	for _, a := range c.Args {
		args = append(args, in.eval(fr, a))
	}
	return args
}

func (in *Interp) convert(v Val, from, to types.Type) Val {
	if from == nil || to == nil {
		return v
	}
	switch {
	case isIntType(to) && isIntType(from):
		if e, ok := v.(*Expr); ok {
			return mkConv(e, typInfoOf(from), typInfoOf(to))
		}
	case isStringType(to):
		switch x := v.(type) {
		case *SliceV:
			r := *x
			r.Str = true
			return &r
		case *Expr:
			if x.K == kConstS {
				return x
			}
			if isIntType(from) {
				return &SliceV{Str: true, Len: cI(1), Ident: x}
			}
		}
	case isStringType(from):
		// []byte(s)
		switch x := v.(type) {
		case *SliceV:
			r := *x
			r.Str = false
			r.ElemT = types.Typ[types.Byte]
			return &r
		case *Expr:
			if x.K == kConstS {
				return &SliceV{Len: cI(int64(len(x.S))), Ident: x, ElemT: types.Typ[types.Byte]}
			}
		}
	}
	return v
}

func (in *Interp) builtin(fr *frame, name string, c *ast.CallExpr) Val {
	info := fr.pkg.TypesInfo
	switch name {
	case "len", "cap":
		v := in.eval(fr, c.Args[0])
		if l := in.lenOf(v); l != nil {
			return l
		}
		return Unknown{"len of " + showValShallow(v)}
	case "make":
		t := info.TypeOf(c.Args[0])
		switch u := t.Underlying().(type) {
		case *types.Slice:
			ln := cI(0)
			if len(c.Args) >= 2 {
				if e, ok := in.eval(fr, c.Args[1]).(*Expr); ok {
					ln = e
				} else {
					return Unknown{"make length"}
				}
			}
			s := &SliceV{Len: ln, ElemT: u.Elem(), Depth: len(in.loops)}
			if c0, ok := ln.ConstI(); !ok || c0 != 0 {
				s.Elem = in.zeroOf(u.Elem())
			}
			if isIntType(u.Elem()) && typInfoOf(u.Elem()).bits == 8 {
				s.made = true
			}
			return s
		case *types.Map:
			return &MapV{Lit: map[string]Val{}, T: t}
		}
		return Unknown{"make " + t.String()}
	case "new":
		t := info.TypeOf(c.Args[0])
		return in.zeroOf(t)
	case "append":
		base := in.eval(fr, c.Args[0])
		var s *SliceV
		switch b := base.(type) {
		case *SliceV:
			cp := *b
			s = &cp
		case NilV:
			st, _ := info.TypeOf(c.Args[0]).Underlying().(*types.Slice)
			s = &SliceV{Len: cI(0), Depth: in.declDepth(fr, c.Args[0])}
			if st != nil {
				s.ElemT = st.Elem()
			}
		default:
			return Unknown{"append to " + showValShallow(base)}
		}
		if s.Len == nil {
			return Unknown{"append to slice of unknown length"}
		}
		if c.Ellipsis.IsValid() && len(c.Args) == 2 {
			o := in.eval(fr, c.Args[1])
			if os, ok := o.(*SliceV); ok && os.Len != nil {
				s.Len = in.mkBin("+", s.Len, os.Len, typInfo{64, true})
				if os.Elem != nil {
					s.Elem = in.mergeElem(s.Elem, os.Elem)
				}
				if lc, ok := s.Len.ConstI(); !ok || lc != 0 {
					if s.Ident != nil || os.Ident != nil {
						s.Ident = &Expr{K: kOp, Op: "concat", Args: []*Expr{identOf(base), identOf(o)}}
					}
				}
				s.Items = nil
				return s
			}
			if oe, ok := o.(*Expr); ok && oe.K == kConstS {
				s.Len = in.mkBin("+", s.Len, cI(int64(len(oe.S))), typInfo{64, true})
				s.Items = nil
				return s
			}
			if _, ok := o.(NilV); ok {
				return s
			}
			return Unknown{"append slice..."}
		}
		dep := s.Depth
		if dep > len(in.loops) {
			dep = len(in.loops)
		}
		add := in.loopMul(dep)
		n := int64(len(c.Args) - 1)
		s.Len = in.mkBin("+", s.Len, in.mkBin("*", cI(n), add, typInfo{64, true}), typInfo{64, true})
		for _, a := range c.Args[1:] {
			v := in.copyIfStruct(in.eval(fr, a), info.TypeOf(a))
			s.Elem = in.mergeElem(s.Elem, v)
			if s.Items != nil || (s.Items == nil && s.Len.IsConst()) {
				if dep == len(in.loops) {
					s.Items = append(append([]Val{}, s.Items...), v)
				} else {
					s.Items = nil
				}
			}
		}
		if lc, ok := s.Len.ConstI(); !ok || int(lc) != len(s.Items) {
			s.Items = nil
		}
		return s
	case "copy":
		// copy into a made buffer that is being filled positionally
		dst, _ := in.eval(fr, c.Args[0]).(*SliceV)
		src := in.eval(fr, c.Args[1])
		if dst != nil {
			if dst.parent == nil && dst.made {
				dst = &SliceV{parent: dst, viewOff: cI(0)}
			}
			if dst.parent != nil && dst.parent.made {
				buf := dst.parent
				if buf.bytesOf == nil {
					buf.bytesOf = in.newStream(true, "buf")
					buf.wpos = cI(0)
				}
				ln := in.lenOf(src)
				if ln != nil && dst.viewOff.String() == buf.wpos.String() {
					buf.bytesOf.T.add(in, Item{Kind: "bytes", W: in.mkBin("*", cI(8), ln, typInfo{64, true}), V: src, Pos: c.Pos()})
					buf.wpos = in.mkBin("+", buf.wpos, in.mkBin("*", ln, in.loopMul(0), typInfo{64, true}), typInfo{64, true})
					return ln
				}
			}
		}
		return Unknown{"copy"}
	case "panic":
		fr.done = true
		fr.rets = append(fr.rets, ErrV{NonNil: true})
		in.panicked = true
		return nil
	case "delete", "print", "println":
		return nil
	case "min", "max":
		return Unknown{name}
	}
	return Unknown{"builtin " + name}
}

func (in *Interp) callLit(f *FuncV, args []Val) Val {
	lit := f.Lit.(*ast.FuncLit)
	nf := &frame{pkg: f.Fr.pkg, env: map[types.Object]Val{}, parent: f.Fr, loopDep: len(in.loops)}
	info := f.Fr.pkg.TypesInfo
	i := 0
	for _, fl := range lit.Type.Params.List {
		for _, n := range fl.Names {
			if i < len(args) {
				nf.env[info.Defs[n]] = args[i]
			}
			i++
		}
	}
	in.depth++
	in.frames = append(in.frames, nf)
	in.block(nf, lit.Body.List)
	in.frames = in.frames[:len(in.frames)-1]
	in.depth--
	return retVal(nf.rets)
}

func retVal(rets []Val) Val {
	switch len(rets) {
	case 0:
		return nil
	case 1:
		return rets[0]
	}
	return &TupleV{rets}
}

func recvTypeName(fn *types.Func) (pkg, typ string) {
	sig := fn.Type().(*types.Signature)
	if sig.Recv() == nil {
		if fn.Pkg() != nil {
			return fn.Pkg().Path(), ""
		}
		return "", ""
	}
	t := derefType(sig.Recv().Type())
	if n, ok := t.(*types.Named); ok {
		if n.Obj().Pkg() != nil {
			return n.Obj().Pkg().Path(), n.Obj().Name()
		}
		return "", n.Obj().Name()
	}
	return "", t.String()
}

// callFunc dispatches a call: stream API models, helper models, or inlining.
func (in *Interp) callFunc(fr *frame, fn *types.Func, recv Val, args []Val, c *ast.CallExpr) Val {
	pkg, typ := recvTypeName(fn)
	name := fn.Name()
	// --- stream receivers
	if st, ok := recv.(*StreamV); ok {
		return in.streamOp(fr, st, name, args, c)
	}
	// --- members of a symbolic composite: their own encode/size functions are separate obligations
	if o, ok := recv.(*Obj); ok && o.Sym && !o.Opaque && in.symRoot != nil && o != in.symRoot {
		switch name {
		case "Size":
			return in.atom("Size("+o.Path+")", 63, true)
		case "Encode", "EncodeSW":
			if len(args) == 1 {
				if st, ok := args[0].(*StreamV); ok {
					sz := in.atom("Size("+o.Path+")", 63, true)
					st.T.add(in, Item{Kind: "child", W: in.mkBin("*", cI(8), sz, typInfo{64, true}), V: &Obj{Opaque: true, Path: o.Path}, Pos: c.Pos()})
					return ErrV{}
				}
			}
		case "Info":
			return ErrV{}
		}
		res := fn.Type().(*types.Signature).Results()
		if res.Len() == 0 {
			return nil
		}
		if res.Len() == 1 && types.Implements(res.At(0).Type(), errorIface()) {
			return ErrV{}
		}
		if res.Len() == 1 {
			return Unknown{"method " + name + " of member " + o.Path}
		}
		var vs []Val
		for i := 0; i < res.Len(); i++ {
			if types.Implements(res.At(i).Type(), errorIface()) {
				vs = append(vs, ErrV{})
			} else {
				vs = append(vs, Unknown{"method " + name + " of member " + o.Path})
			}
		}
		return &TupleV{vs}
	}
	// --- dynamic dispatch on abstract objects
	if o, ok := recv.(*Obj); ok {
		if o.Opaque {
			return in.opaqueBoxOp(o, name, args, c)
		}
		if o.T != nil {
			// interface method: resolve on the concrete type
			if _, isIface := fn.Type().(*types.Signature).Recv().Type().Underlying().(*types.Interface); isIface {
				ms := types.NewMethodSet(types.NewPointer(derefType(o.T)))
				for i := 0; i < ms.Len(); i++ {
					if ms.At(i).Obj().Name() == name {
						fn = ms.At(i).Obj().(*types.Func)
						break
					}
				}
			}
		}
	}
	if _, isNil := recv.(NilV); isNil && fn.Type().(*types.Signature).Recv() != nil {
		bail("method %s called on nil", name)
	}
	// --- models of helper functions
	if v, ok := in.model(fr, pkg, typ, name, fn, recv, args, c); ok {
		return v
	}
	decl, dp := in.c.Decl(fn)
	if decl == nil || decl.Body == nil {
		return Unknown{"call to " + FuncName(fn)}
	}
	for _, f := range in.callStk {
		if f == fn {
			return Unknown{"recursive call " + fn.Name()}
		}
	}
	if in.depth > 14 {
		return Unknown{"inline depth"}
	}
	nf := &frame{pkg: dp, env: map[types.Object]Val{}, fn: fn, loopDep: len(in.loops)}
	info := dp.TypesInfo
	if decl.Recv != nil && len(decl.Recv.List) > 0 && len(decl.Recv.List[0].Names) > 0 {
		ro := info.Defs[decl.Recv.List[0].Names[0]]
		if ro != nil {
			nf.env[ro] = in.copyIfStruct(recv, ro.Type())
		}
	}
	sig := fn.Type().(*types.Signature)
	i := 0
	for _, fl := range decl.Type.Params.List {
		for _, n := range fl.Names {
			po := info.Defs[n]
			if sig.Variadic() && i == sig.Params().Len()-1 {
				var rest []Val
				if i < len(args) {
					rest = args[i:]
				}
				if c != nil && c.Ellipsis.IsValid() && len(rest) == 1 {
					nf.env[po] = rest[0]
				} else {
					s := &SliceV{Len: cI(int64(len(rest))), Items: rest, Depth: len(in.loops)}
					for _, r := range rest {
						s.Elem = in.mergeElem(s.Elem, r)
					}
					nf.env[po] = s
				}
			} else if i < len(args) && po != nil {
				nf.env[po] = in.copyIfStruct(args[i], po.Type())
			}
			i++
		}
		if len(fl.Names) == 0 {
			i++
		}
	}
	if decl.Type.Results != nil {
		for _, fl := range decl.Type.Results.List {
			for _, n := range fl.Names {
				ro := info.Defs[n]
				nf.env[ro] = in.zeroOf(ro.Type())
				nf.named = append(nf.named, ro)
			}
		}
	}
	in.depth++
	in.callStk = append(in.callStk, fn)
	in.frames = append(in.frames, nf)
	in.block(nf, decl.Body.List)
	in.frames = in.frames[:len(in.frames)-1]
	in.callStk = in.callStk[:len(in.callStk)-1]
	in.depth--
	if !nf.done && len(nf.named) > 0 {
		for _, o := range nf.named {
			v, _ := nf.lookup(o)
			nf.rets = append(nf.rets, v)
		}
	}
	return retVal(nf.rets)
}

// opaqueBoxOp models the Box interface on a child of unknown dynamic type.
func (in *Interp) opaqueBoxOp(o *Obj, name string, args []Val, c *ast.CallExpr) Val {
	switch name {
	case "Size":
		return in.atom("Size("+o.Path+")", 63, true)
	case "Type":
		return &SliceV{Str: true, Len: cI(4), Ident: in.atom("Type("+o.Path+")", 32, true)}
	case "Encode", "EncodeSW":
		if len(args) == 1 {
			if st, ok := args[0].(*StreamV); ok {
				sz := in.atom("Size("+o.Path+")", 63, true)
				st.T.add(in, Item{Kind: "child", W: in.mkBin("*", cI(8), sz, typInfo{64, true}), V: o, Pos: c.Pos()})
				return ErrV{}
			}
		}
	case "Info":
		return ErrV{}
	}
	return Unknown{"method " + name + " on opaque box"}
}

func (in *Interp) newStream(writer bool, name string) *StreamV {
	t := &Trace{BitPos: cI(0)}
	in.traces = append(in.traces, t)
	return &StreamV{T: t, Writer: writer, Name: name}
}

func isBitsPkg(p string) bool { return strings.HasSuffix(p, "/bits") }
func isMp4Pkg(p string) bool  { return strings.HasSuffix(p, "/mp4") }

// model implements helper functions that are treated as primitives.
func (in *Interp) model(fr *frame, pkg, typ, name string, fn *types.Func, recv Val, args []Val, c *ast.CallExpr) (Val, bool) {
	switch {
	case pkg == "fmt" && (name == "Errorf"):
		return ErrV{NonNil: true}, true
	case pkg == "errors" && name == "New":
		return ErrV{NonNil: true}, true
	case pkg == "fmt" && (name == "Sprintf" || name == "Sprint"):
		return &SliceV{Str: true, Len: in.atom(fmt.Sprintf("len(sprintf@%d)", c.Pos()), 63, true), Ident: in.atom(fmt.Sprintf("sprintf@%d", c.Pos()), 64, true)}, true
	case pkg == "fmt" && strings.HasPrefix(name, "Fprint") || pkg == "fmt" && strings.HasPrefix(name, "Print"):
		return &TupleV{[]Val{cI(0), ErrV{}}}, true
	case pkg == "errors" && (name == "Is" || name == "As"):
		return Unknown{"errors." + name}, true
	case isBitsPkg(pkg) && typ == "":
		switch name {
		case "NewFixedSliceReader":
			if len(args) == 1 {
				if b, ok := args[0].(*SliceV); ok && b.bodyOf != nil {
					in.pendingBody = nil
					return b.bodyOf, true
				}
				if b, ok := args[0].(*SliceV); ok {
					if st := in.rewindTo(b); st != nil {
						return st, true
					}
					st := in.newStream(false, "sub")
					st.T.SubOf = b.Ident
					st.T.prefix = fmt.Sprintf("sub%d.", len(in.traces))
					return st, true
				}
			}
			return Unknown{"NewFixedSliceReader of " + showValShallow(args[0])}, true
		case "NewFixedSliceWriter":
			st := in.newStream(true, "fsw")
			if e, ok := args[0].(*Expr); ok {
				st.Cap = e
			}
			return st, true
		case "NewFixedSliceWriterFromSlice":
			st := in.newStream(true, "fsw")
			if b, ok := args[0].(*SliceV); ok {
				b.bytesOf = st // the writer fills this buffer: writing the buffer later writes what the writer produced
			}
			return st, true
		case "NewReader", "NewEBSPReader", "NewAccErrEBSPReader":
			if st, ok := args[0].(*StreamV); ok {
				return st, true
			}
			if b, ok := args[0].(*SliceV); ok {
				if b.bodyOf != nil {
					in.pendingBody = nil
					return b.bodyOf, true
				}
				if st := in.rewindTo(b); st != nil {
					return st, true
				}
				st := in.newStream(false, "sub")
				st.T.SubOf = b.Ident
				st.T.prefix = fmt.Sprintf("sub%d.", len(in.traces))
				return st, true
			}
		case "NewWriter", "NewEBSPWriter", "NewByteWriter":
			if st, ok := args[0].(*StreamV); ok {
				return st, true
			}
		case "Mask":
			if e, ok := args[0].(*Expr); ok {
				if n, ok := e.ConstI(); ok {
					return cI(int64(mask(int(n)))), true
				}
			}
		}
	case pkg == "bytes" && typ == "" && (name == "NewBuffer" || name == "NewReader"):
		if b, ok := args[0].(*SliceV); ok {
			if b.bodyOf != nil {
				in.pendingBody = nil
				return b.bodyOf, true
			}
			if st := in.rewindTo(b); st != nil {
				return st, true
			}
			st := in.newStream(false, "sub")
			st.T.SubOf = b.Ident
			st.T.prefix = fmt.Sprintf("sub%d.", len(in.traces))
			return st, true
		}
	case pkg == "bytes" && typ == "Buffer":
		// a bytes.Buffer used as an in-memory writer
		if st, ok := recv.(*StreamV); ok {
			return in.streamOp(fr, st, name, args, c), true
		}
	case isMp4Pkg(pkg) && typ == "":
		switch name {
		case "readBoxBody":
			if st, ok := args[0].(*StreamV); ok {
				ln := Val(in.atom("bodylen", 63, true))
				if h, ok := args[1].(*Obj); ok {
					hs, _ := h.F["Size"].(*Expr)
					hl, _ := h.F["Hdrlen"].(*Expr)
					if hs != nil && hl != nil {
						ln = in.mkBin("-", hs, hl, typInfo{64, true})
					}
				}
				body := &SliceV{Len: ln.(*Expr), Ident: in.atom("rd#0", 64, true), ElemT: types.Typ[types.Byte], bodyOf: st}
				in.pendingBody, in.pendingStream = body, st
				return &TupleV{[]Val{body, ErrV{}}}, true
			}
		case "DecodeContainerChildren", "DecodeContainerChildrenSR":
			if st, ok := args[3].(*StreamV); ok {
				k := len(st.T.Items)
				ch := &SliceV{Len: in.atom(fmt.Sprintf("nchildren#%d", k), 63, true), ElemT: fn.Type().(*types.Signature).Results().At(0).Type().(*types.Slice).Elem(), Ident: in.atom(fmt.Sprintf("children#%d", k), 64, true)}
				el := in.newObj(ch.ElemT)
				el.Opaque, el.Path = true, fmt.Sprintf("children#%d[]", k)
				ch.Elem = el
				w := in.mkBin("*", cI(8), in.mkBin("-", exprOrUnknown(args[2]), exprOrUnknown(args[1]), typInfo{64, true}), typInfo{64, true})
				st.T.add(in, Item{Kind: "children", W: w, V: ch, Pos: c.Pos()})
				return &TupleV{[]Val{ch, ErrV{}}}, true
			}
		case "DecodeBoxSR", "DecodeBox":
			if st, ok := args[1].(*StreamV); ok {
				k := len(st.T.Items)
				el := in.newObj(fn.Type().(*types.Signature).Results().At(0).Type())
				el.Opaque, el.Path = true, fmt.Sprintf("child#%d", k)
				sz := in.atom("Size("+el.Path+")", 63, true)
				st.T.add(in, Item{Kind: "child", W: in.mkBin("*", cI(8), sz, typInfo{64, true}), V: el, Pos: c.Pos()})
				return &TupleV{[]Val{el, ErrV{}}}, true
			}
		case "EncodeHeader", "EncodeHeaderSW", "EncodeHeaderWithSize", "EncodeHeaderWithSizeSW":
			// the header writer is interpreted on a scratch stream: its width and the size value it writes are
			// what the code does, not what its arguments promise
			last := len(args) - 1
			if st, ok := args[last].(*StreamV); ok && !in.inHeader {
				scratch := in.newStream(true, "hdr")
				nargs := append([]Val{}, args...)
				nargs[last] = scratch
				in.inHeader = true
				in.callFunc(fr, fn, recv, nargs, c)
				in.inHeader = false
				var size, typ Val
				for _, it := range scratch.T.Items {
					if it.Kind == "int" && size == nil {
						size = it.V
					}
					if it.Kind == "bytes" && typ == nil {
						typ = it.V
					}
				}
				if len(scratch.T.Items) >= 3 {
					// large size: 1, type, 64-bit size
					size = scratch.T.Items[2].V
				}
				var box Val
				if name == "EncodeHeader" || name == "EncodeHeaderSW" {
					box = args[0]
				}
				st.T.add(in, Item{Kind: "hdr", W: scratch.T.BitPos, V: &TupleV{[]Val{size, typ, box}}, Pos: c.Pos()})
				return ErrV{}, true
			}
		case "newInfoDumper":
			return Unknown{"info dumper"}, true
		}
	case pkg == "io" && typ == "":
		switch name {
		case "ReadFull":
			if st, ok := args[0].(*StreamV); ok {
				if b, ok := args[1].(*SliceV); ok {
					k := len(st.T.Items)
					at := in.atom(fmt.Sprintf("rd#%d", k), 64, true)
					st.T.add(in, Item{Kind: "bytes", W: in.mkBin("*", cI(8), b.Len, typInfo{64, true}), V: b, Pos: c.Pos()})
					b.Ident = at
					b.from, b.fromIdx = st, k
					return &TupleV{[]Val{b.Len, ErrV{}}}, true
				}
			}
		case "ReadAll":
			if st, ok := args[0].(*StreamV); ok {
				k := len(st.T.Items)
				ln := in.atom(fmt.Sprintf("rest#%d", k), 63, true)
				if st.Limit != nil {
					ln = st.Limit
				}
				b := &SliceV{Len: ln, Ident: in.atom(fmt.Sprintf("rd#%d", k), 64, true), ElemT: types.Typ[types.Byte], from: st, fromIdx: k}
				if st.Limit != nil {
					b.from = st.Under
				}
				st.T.add(in, Item{Kind: "bytes", W: in.mkBin("*", cI(8), b.Len, typInfo{64, true}), V: b, Pos: c.Pos()})
				return &TupleV{[]Val{b, ErrV{}}}, true
			}
		case "LimitReader":
			if st, ok := args[0].(*StreamV); ok {
				if n, ok := args[1].(*Expr); ok {
					return &StreamV{T: st.T, Name: st.Name, Limit: n, Under: st}, true
				}
			}
			return args[0], true
		}
	case pkg == "encoding/binary":
		return in.binaryModel(fr, typ, name, args, c)
	case pkg == "encoding/hex" && name == "EncodeToString":
		return &SliceV{Str: true, Len: in.atom(fmt.Sprintf("len(hex@%d)", c.Pos()), 63, true), Ident: in.atom(fmt.Sprintf("hex@%d", c.Pos()), 64, true)}, true
	}
	return nil, false
}

func (in *Interp) callMethod(fr *frame, o *Obj, name string, args []Val, c *ast.CallExpr) Val {
	if o.Opaque {
		return in.opaqueBoxOp(o, name, args, c)
	}
	ms := types.NewMethodSet(types.NewPointer(derefType(o.T)))
	for i := 0; i < ms.Len(); i++ {
		if ms.At(i).Obj().Name() == name {
			return in.callFunc(fr, ms.At(i).Obj().(*types.Func), o, args, c)
		}
	}
	return Unknown{"no method " + name}
}

func (in *Interp) binaryModel(fr *frame, typ, name string, args []Val, c *ast.CallExpr) (Val, bool) {
	switch name {
	case "Uint16", "Uint32", "Uint64":
		w := map[string]int{"Uint16": 16, "Uint32": 32, "Uint64": 64}[name]
		if b, ok := args[0].(*SliceV); ok && b.parent != nil && b.parent.cur != nil {
			return in.cursorViewAsInt(b, w), true
		}
		if b, ok := args[0].(*SliceV); ok && b.Ident != nil {
			return &Expr{K: kOp, Op: fmt.Sprintf("be%d", w), Args: []*Expr{b.Ident}}, true
		}
		return Unknown{"binary." + name}, true
	case "PutUint16", "PutUint32", "PutUint64":
		// positional big-endian write into a made buffer: must be sequential; the buffer becomes a writer
		w := map[string]int64{"PutUint16": 16, "PutUint32": 32, "PutUint64": 64}[name]
		if v, ok := args[0].(*SliceV); ok && v.parent == nil && v.made {
			// the buffer itself: offset 0
			v = &SliceV{parent: v, viewOff: cI(0)}
			args[0] = v
		}
		if v, ok := args[0].(*SliceV); ok && v.parent != nil && v.parent.made {
			buf := v.parent
			if buf.bytesOf == nil {
				buf.bytesOf = in.newStream(true, "buf")
				buf.wpos = cI(0)
			}
			if v.viewOff.String() != buf.wpos.String() {
				bail("positional write at offset %s while %s bytes have been written (not sequential)", v.viewOff, buf.wpos)
			}
			buf.bytesOf.T.add(in, Item{Kind: "int", W: cI(w), V: args[1], Pos: c.Pos()})
			buf.wpos = in.mkBin("+", buf.wpos, in.mkBin("*", cI(w/8), in.loopMul(0), typInfo{64, true}), typInfo{64, true})
			return nil, true
		}
		return nil, true
	case "Write":
		// binary.Write(w, order, value)
		if st, ok := args[0].(*StreamV); ok {
			vt := fr.pkg.TypesInfo.TypeOf(c.Args[2])
			switch v := args[2].(type) {
			case *Expr:
				ti := typInfoOf(vt)
				st.T.add(in, Item{Kind: "int", W: cI(int64(ti.bits)), V: v, Pos: c.Pos()})
				return ErrV{}, true
			case *SliceV:
				eb := int64(8)
				if v.ElemT != nil {
					eb = int64(typInfoOf(v.ElemT).bits)
				}
				st.T.add(in, Item{Kind: "bytes", W: in.mkBin("*", cI(eb), v.Len, typInfo{64, true}), V: v, Pos: c.Pos()})
				return ErrV{}, true
			}
		}
		return Unknown{"binary.Write"}, true
	case "Read":
		return Unknown{"binary.Read"}, true
	}
	return Unknown{"binary." + name}, true
}

// streamOp models the reader / writer APIs.
func (in *Interp) streamOp(fr *frame, st *StreamV, name string, args []Val, c *ast.CallExpr) Val {
	t := st.T
	k := len(t.Items)
	argE := func(i int) *Expr {
		if i < len(args) {
			if e, ok := args[i].(*Expr); ok {
				return e
			}
		}
		bail("stream op %s: non-scalar argument %d", name, i)
		return nil
	}
	bits8 := func(n *Expr) *Expr { return in.mkBin("*", cI(8), n, typInfo{64, true}) }
	rdAtom := func(w int) *Expr {
		return in.atom(fmt.Sprintf("%srd#%d", t.prefix, k), w, false)
	}
	readInt := func(w int) Val {
		a := rdAtom(w)
		t.add(in, Item{Kind: "int", W: cI(int64(w)), V: in.rawAtom(fmt.Sprintf("%srd#%d", t.prefix, k)), Pos: c.Pos()})
		return a
	}
	writeInt := func(w int, v Val) Val {
		t.add(in, Item{Kind: "int", W: cI(int64(w)), V: v, Pos: c.Pos()})
		return nil
	}
	switch name {
	// ---------------- byte-level reads
	case "ReadUint8":
		return readInt(8)
	case "ReadUint16", "ReadInt16":
		return readInt(16)
	case "ReadUint24":
		return readInt(24)
	case "ReadUint32", "ReadInt32":
		return readInt(32)
	case "ReadUint64", "ReadInt64":
		return readInt(64)
	case "ReadFixedLengthString", "ReadBytes":
		n := argE(0)
		s := &SliceV{Str: name == "ReadFixedLengthString", Len: n, Ident: in.atom(fmt.Sprintf("%srd#%d", t.prefix, k), 64, true), ElemT: types.Typ[types.Byte], from: st, fromIdx: k}
		if cz, ok := n.ConstI(); ok && cz == 0 {
			return s
		}
		t.add(in, Item{Kind: "bytes", W: bits8(n), V: s, Pos: c.Pos()})
		return s
	case "ReadZeroTerminatedString":
		ln := in.atom(fmt.Sprintf("%sstrlen#%d", t.prefix, k), 62, false)
		s := &SliceV{Str: true, Len: ln, Ident: in.atom(fmt.Sprintf("%srd#%d", t.prefix, k), 64, true)}
		t.add(in, Item{Kind: "zstr", W: bits8(in.mkBin("+", ln, cI(1), typInfo{64, true})), V: s, Pos: c.Pos()})
		return s
	case "ReadPossiblyZeroTerminatedString":
		// reads up to a zero byte (consumed) or up to maxLen bytes (no terminator present)
		ln := in.atom(fmt.Sprintf("%sstrlen#%d", t.prefix, k), 62, true)
		in.envPreds = true
		full, ok := in.decide(in.mkCmp("==", ln, argE(0)), "string fills the available space")
		in.envPreds = false
		if !ok {
			bail("ReadPossiblyZeroTerminatedString: cannot relate length and limit")
		}
		s := &SliceV{Str: true, Len: ln, Ident: in.atom(fmt.Sprintf("%srd#%d", t.prefix, k), 64, true)}
		w := ln
		kind := "bytes"
		if !full {
			w = in.mkBin("+", ln, cI(1), typInfo{64, true})
			kind = "zstr"
		}
		t.add(in, Item{Kind: kind, W: bits8(w), V: s, Pos: c.Pos()})
		return &TupleV{[]Val{s, cB(true)}}
	case "RemainingBytes", "ReadRemainingBytes":
		n := in.atom(fmt.Sprintf("%srest#%d", t.prefix, k), 62, true)
		s := &SliceV{Len: n, Ident: in.atom(fmt.Sprintf("%srd#%d", t.prefix, k), 64, true), ElemT: types.Typ[types.Byte], from: st, fromIdx: k}
		t.add(in, Item{Kind: "bytes", W: bits8(n), V: s, Pos: c.Pos(), Note: "rest"})
		return s
	case "NrRemainingBytes":
		return in.atom(fmt.Sprintf("%sremaining@%d", t.prefix, k), 62, true)
	case "NrRemainingBits":
		return in.atom(fmt.Sprintf("%sremainingbits@%d", t.prefix, k), 62, true)
	case "SkipBytes":
		if cz, ok := argE(0).ConstI(); ok && cz == 0 {
			return nil
		}
		t.add(in, Item{Kind: "zero", W: bits8(argE(0)), Pos: c.Pos(), Note: "skip"})
		return nil
	case "GetPos", "NrBytesRead", "Offset", "Len":
		if st.Writer || true {
			return in.bytePos(t)
		}
	case "NrBitsRead":
		return t.BitPos
	case "SetPos":
		bail("SetPos on stream")
	case "Length", "Capacity":
		return in.atom(fmt.Sprintf("%sstreamlen", t.prefix), 62, true)
	case "LookAhead":
		return Unknown{"LookAhead"}
	case "AccError":
		return ErrV{}
	// ---------------- bit-level reads
	case "Read", "MustRead":
		if !st.Writer {
			if b, ok := args[0].(*SliceV); ok {
				// io.Reader.Read(buf)
				b.Ident = in.atom(fmt.Sprintf("%srd#%d", t.prefix, k), 64, true)
				t.add(in, Item{Kind: "bytes", W: bits8(b.Len), V: b, Pos: c.Pos()})
				return &TupleV{[]Val{b.Len, ErrV{}}}
			}
			n := argE(0)
			nc, ok := n.ConstI()
			if !ok {
				// width chosen by data: a symbolic-width item
				a := in.atom(fmt.Sprintf("%srd#%d", t.prefix, k), 32, true)
				t.add(in, Item{Kind: "int", W: n, V: a, Pos: c.Pos(), Note: "varwidth"})
				if name == "MustRead" {
					return &TupleV{[]Val{a, ErrV{}}}
				}
				return a
			}
			v := readInt(int(nc))
			if name == "MustRead" {
				return &TupleV{[]Val{v, ErrV{}}}
			}
			return v
		}
	case "ReadSigned":
		n := argE(0)
		if nc, ok := n.ConstI(); ok {
			return readInt(int(nc))
		}
		a := in.atom(fmt.Sprintf("%srd#%d", t.prefix, k), 32, true)
		t.add(in, Item{Kind: "int", W: n, V: a, Pos: c.Pos(), Note: "varwidth"})
		return a
	case "ReadFlag", "MustReadFlag":
		a := rdAtom(1)
		t.add(in, Item{Kind: "int", W: cI(1), V: in.rawAtom(fmt.Sprintf("%srd#%d", t.prefix, k)), Pos: c.Pos()})
		b := in.mkCmp("!=", a, cI(0))
		if name == "MustReadFlag" {
			return &TupleV{[]Val{b, ErrV{}}}
		}
		return b
	case "ReadExpGolomb", "ReadSignedGolomb", "MustReadExpGolomb", "MustReadSignedGolomb":
		a := in.atom(fmt.Sprintf("%srd#%d", t.prefix, k), 32, false)
		t.add(in, Item{Kind: "golomb", W: in.atom(fmt.Sprintf("%sgolomblen#%d", t.prefix, k), 8, true), V: in.rawAtom(fmt.Sprintf("%srd#%d", t.prefix, k)), Pos: c.Pos()})
		if strings.HasPrefix(name, "Must") {
			return &TupleV{[]Val{a, ErrV{}}}
		}
		return a
	case "MoreRbspData", "IsSeeker":
		return Unknown{name}
	// ---------------- writes
	case "WriteUint8":
		return writeInt(8, args[0])
	case "WriteUint16", "WriteInt16":
		return writeInt(16, args[0])
	case "WriteUint24":
		return writeInt(24, args[0])
	case "WriteUint32", "WriteInt32":
		return writeInt(32, args[0])
	case "WriteUint48":
		return writeInt(48, args[0])
	case "WriteUint64", "WriteInt64":
		return writeInt(64, args[0])
	case "WriteString":
		ln := in.lenOf(args[0])
		if ln == nil {
			bail("WriteString of %s", showValShallow(args[0]))
		}
		z, ok := in.decide(args[1], "WriteString addZeroEnd")
		if !ok {
			bail("WriteString terminator flag undecided")
		}
		kind := "bytes"
		if z {
			ln = in.mkBin("+", ln, cI(1), typInfo{64, true})
			kind = "zstr"
		}
		if cz, ok := ln.ConstI(); ok && cz == 0 {
			return nil
		}
		t.add(in, Item{Kind: kind, W: bits8(ln), V: args[0], Pos: c.Pos()})
		return nil
	case "WriteZeroBytes":
		if cz, ok := argE(0).ConstI(); ok && cz == 0 {
			return nil
		}
		t.add(in, Item{Kind: "zero", W: bits8(argE(0)), Pos: c.Pos()})
		return nil
	case "WriteBytes", "WriteSlice":
		ln := in.lenOf(args[0])
		if ln == nil {
			bail("WriteBytes of %s", showValShallow(args[0]))
		}
		if b, ok := args[0].(*SliceV); ok && b.bytesOf != nil {
			in.splice(t, b.bytesOf.T)
			return nil
		}
		if cz, ok := ln.ConstI(); ok && cz == 0 {
			return nil
		}
		t.add(in, Item{Kind: "bytes", W: bits8(ln), V: args[0], Pos: c.Pos()})
		return nil
	case "WriteUnityMatrix":
		t.add(in, Item{Kind: "zero", W: cI(36 * 8), Pos: c.Pos(), Note: "unity matrix"})
		return nil
	case "WriteBits":
		n := argE(1)
		if nc, ok := n.ConstI(); ok {
			return writeInt(int(nc), args[0])
		}
		t.add(in, Item{Kind: "int", W: n, V: args[0], Pos: c.Pos(), Note: "varwidth"})
		return nil
	case "WriteFlag":
		return writeInt(1, args[0])
	case "FlushBits", "Flush":
		pad := in.padToByte(t)
		if pad > 0 {
			t.add(in, Item{Kind: "zero", W: cI(int64(pad)), Pos: c.Pos(), Note: "flush"})
		}
		return nil
	case "Write":
		if len(args) == 2 {
			// bit writers: Write(bits, n)
			n := argE(1)
			if nc, ok := n.ConstI(); ok {
				return writeInt(int(nc), args[0])
			}
			t.add(in, Item{Kind: "int", W: n, V: args[0], Pos: c.Pos(), Note: "varwidth"})
			return nil
		}
		// io.Writer.Write(p)
		if b, ok := args[0].(*SliceV); ok {
			if b.bytesOf != nil {
				in.splice(t, b.bytesOf.T)
				return &TupleV{[]Val{b.Len, ErrV{}}}
			}
			t.add(in, Item{Kind: "bytes", W: bits8(b.Len), V: b, Pos: c.Pos()})
			return &TupleV{[]Val{b.Len, ErrV{}}}
		}
		bail("Write of %s", showValShallow(args[0]))
	case "WriteExpGolomb", "WriteSEIValue":
		t.add(in, Item{Kind: "golomb", W: in.atom(fmt.Sprintf("%sgolomblen#%d", t.prefix, k), 8, true), V: args[0], Pos: c.Pos()})
		return nil
	case "WriteRbspTrailingBits", "StuffByteWithZeros":
		t.add(in, Item{Kind: "zero", W: in.atom(fmt.Sprintf("%strail#%d", t.prefix, k), 4, true), Pos: c.Pos(), Note: name})
		return nil
	case "Bytes":
		b := &SliceV{Len: in.bytePos(t), ElemT: types.Typ[types.Byte], bytesOf: st, Ident: in.atom(fmt.Sprintf("bytes(%p)", t), 64, true)}
		return b
	case "Seek":
		return Unknown{"Seek"}
	}
	bail("unmodelled stream operation %s", name)
	return nil
}

// rawAtom returns the unconfigured bit vector of an existing atom (used as the identity of a read item).
func (in *Interp) rawAtom(name string) *Expr {
	return bvOfAtom(in.atoms[name])
}

func (in *Interp) bytePos(t *Trace) *Expr {
	p := polyOf(t.BitPos)
	for _, v := range p.T {
		if v%8 != 0 {
			bail("byte position requested at a non-byte-aligned bit position %s", t.BitPos)
		}
	}
	return in.divPoly(t.BitPos, 8)
}

func (in *Interp) divPoly(e *Expr, d int64) *Expr {
	p := polyOf(e)
	r := cI(0)
	for k, v := range p.T {
		term := cI(v / d)
		for _, f := range p.F[k] {
			term = in.mkBin("*", term, f, typInfo{64, true})
		}
		r = in.mkBin("+", r, term, typInfo{64, true})
	}
	return r
}

func (in *Interp) padToByte(t *Trace) int {
	p := polyOf(t.BitPos)
	c := int64(0)
	for k, v := range p.T {
		if k == "" {
			c = v
			continue
		}
		if v%8 != 0 {
			// the position depends on a small count: enumerate it
			var segs []Seg
			for _, f := range p.F[k] {
				atomsOf(f, &segs)
			}
			for _, sg := range segs {
				if !sg.A.Env && sg.N <= 6 {
					var cands []uint64
					for x := uint64(0); x < 1<<uint(sg.N); x++ {
						cands = append(cands, x)
					}
					panic(need{atom: sg.A, lo: sg.Lo, n: sg.N, cands: cands, reason: "byte alignment depends on " + sg.String()})
				}
			}
			bail("flush at a bit position that is not known modulo 8: %s", t.BitPos)
		}
	}
	return int((8 - c%8) % 8)
}

// splice appends the items of a finished in-memory writer to another stream.
func (in *Interp) splice(dst, src *Trace) {
	for _, it := range src.Items {
		saved := in.loops
		in.loops = nil
		for _, lb := range it.loopBounds {
			in.loops = append(in.loops, loopCtx{lb, it.loopIDs[len(in.loops)]})
		}
		it2 := it
		it2.Loops, it2.loopBounds, it2.loopIDs = nil, nil, nil
		// keep the current loop context of the destination as outer context
		in.loops = append(append([]loopCtx{}, saved...), in.loops...)
		dst.add(in, it2)
		in.loops = saved
	}
}

// rewindTo: a blob that was just read in full from a stream and is now parsed again (by a reader
// constructed over it) is the same bytes: drop the blob item and continue on the original stream.
func (in *Interp) rewindTo(b *SliceV) *StreamV {
	if b.from == nil {
		return nil
	}
	t := b.from.T
	if len(t.Items) != b.fromIdx+1 || len(in.loops) != 0 {
		return nil
	}
	t.Items = t.Items[:b.fromIdx]
	t.recomputeBits(in)
	return b.from
}

// cursorOf puts a blob into positional-parsing mode.
func (in *Interp) cursorOf(b *SliceV) *cursor {
	if b.cur != nil {
		return b.cur
	}
	var st *StreamV
	switch {
	case b.bodyOf != nil:
		st = b.bodyOf
		in.pendingBody = nil
	case b.from != nil:
		st = in.rewindTo(b)
	}
	if st == nil {
		return nil
	}
	b.cur = &cursor{st: st, pos: cI(0), byOff: map[string]*Expr{}, total: b.Len}
	return b.cur
}

// cursorRead reads n bytes at offset off of a cursor blob. asInt: the bytes form one big-endian integer.
func (in *Interp) cursorRead(b *SliceV, off *Expr, n *Expr, asInt bool, pos token.Pos) Val {
	cur := b.cur
	t := cur.st.T
	key := off.String() + "+" + n.String()
	if v, ok := cur.byOff[key]; ok {
		return v
	}
	if off.String() != cur.pos.String() {
		oc, ok1 := off.ConstI()
		pc, ok2 := cur.pos.ConstI()
		switch {
		case ok1 && ok2 && oc > pc:
			t.add(in, Item{Kind: "zero", W: cI(8 * (oc - pc)), Pos: pos, Note: "skip"})
			cur.pos = off
		default:
			bail("blob accessed at offset %s while the running position is %s (not a sequential parse)", off, cur.pos)
		}
	}
	k := len(t.Items)
	scale := in.loopMul(0)
	adv := in.mkBin("*", n, scale, typInfo{64, true})
	nc, isConst := n.ConstI()
	var ret Val
	if asInt && isConst && nc <= 8 {
		a := in.atom(fmt.Sprintf("%srd#%d", t.prefix, k), int(8*nc), false)
		t.add(in, Item{Kind: "int", W: cI(8 * nc), V: in.rawAtom(fmt.Sprintf("%srd#%d", t.prefix, k)), Pos: pos})
		cur.byOff[key] = a
		ret = a
	} else {
		s := &SliceV{Len: n, Ident: in.atom(fmt.Sprintf("%srd#%d", t.prefix, k), 64, true), ElemT: types.Typ[types.Byte], parent: b, viewOff: off, viewIdx: k}
		if cz, ok := n.ConstI(); !ok || cz != 0 {
			t.add(in, Item{Kind: "bytes", W: in.mkBin("*", cI(8), n, typInfo{64, true}), V: s, Pos: pos})
		}
		ret = s
	}
	cur.pos = in.mkBin("+", cur.pos, adv, typInfo{64, true})
	return ret
}

// cursorViewAsInt: a view that was consumed as bytes turns out to be a big-endian integer.
func (in *Interp) cursorViewAsInt(v *SliceV, w int) Val {
	t := v.parent.cur.st.T
	if v.viewIdx >= len(t.Items) || t.Items[v.viewIdx].V != Val(v) {
		bail("integer decoded from a blob view that is not the latest read")
	}
	name := fmt.Sprintf("%srd#%d", t.prefix, v.viewIdx)
	delete(in.atoms, name)
	a := in.atom(name, w, false)
	it := &t.Items[v.viewIdx]
	it.Kind, it.W, it.V = "int", cI(int64(w)), in.rawAtom(name)
	t.recomputeBits(in)
	// the view may have been an open-ended slice (data[pos:]): only w/8 bytes are consumed
	v.parent.cur.pos = in.mkBin("+", v.viewOff, in.mkBin("*", cI(int64(w/8)), in.loopMul(0), typInfo{64, true}), typInfo{64, true})
	key := v.viewOff.String() + "+" + fmt.Sprint(w/8)
	v.parent.cur.byOff[key] = a
	return a
}

package chk

import (
	"fmt"
	"go/token"
	"strings"

	"golang.org/x/tools/go/ssa"
)

func init() {
	Registry["C06"] = checkC06
	Registry["C07"] = checkC07
}

// ruleKeepOrCount — TrafBox.RemoveEncryptionBoxes: every child is either kept or its size is counted as removed.
func ruleKeepOrCount(c *Ctx, r *Report) {
	f := c.ssaFunc(r, "O-KEEP", "mp4", "TrafBox.RemoveEncryptionBoxes")
	if f == nil {
		return
	}
	loops := naturalLoops(f)
	if len(loops) == 0 {
		r.Undecided("O-KEEP", "mp4.TrafBox.RemoveEncryptionBoxes", c.Pos(f.Pos()), "no loop over the children found")
		return
	}
	for i, l := range loops {
		safe := map[*ssa.BasicBlock]bool{}
		for b := range l.blocks {
			for _, ins := range b.Instrs {
				switch x := ins.(type) {
				case *ssa.Call:
					if bi, ok := x.Call.Value.(*ssa.Builtin); ok && bi.Name() == "append" {
						safe[b] = true
					}
				case *ssa.BinOp:
					if x.Op == token.ADD {
						for _, o := range []ssa.Value{x.X, x.Y} {
							if call, ok := o.(*ssa.Call); ok && calleeName(call.Common()) == "iface.Size" {
								safe[b] = true
							}
						}
					}
				}
			}
		}
		key := fmt.Sprintf("mp4.TrafBox.RemoveEncryptionBoxes:%s", srcOf(f, firstPos(l.header), "loop", fmt.Sprintf("loop#%d", i)))
		if cycleAvoiding(l, safe) {
			r.Bad("O-KEEP", key, c.Pos(firstPos(l.header)), "some child of the traf is neither appended to the remaining children nor counted in the removed bytes: a box disappears on decrypt and the data offsets are not corrected for it")
		} else {
			r.OK("O-KEEP", key, c.Pos(firstPos(l.header)), "every iteration keeps the child or counts its size as removed")
		}
	}
}

// C06 — decrypting what was encrypted restores the content (narrow structural clauses).
func checkC06(c *Ctx, r *Report) {
	r.Explanation = "(O-EVERY) every cycle of the fragment loop of DecryptSegment passes the call of DecryptFragment; (L-FILTERBREAK) where a child list is rebuilt from a loop that appends the kept elements, the loop is not left by a break; (R3-BYTES) a function of package mp4 writes into a []byte parameter only where the frozen table lists the pair as an in-place buffer (sample payloads of the crypt functions, the IV helper's own copy): keys, KIDs and the IV handed to EncryptFragment (which is also the IV stored for the first sample) are never written; Narrow clauses of the encrypt/decrypt path: (O-KEEP) in TrafBox.RemoveEncryptionBoxes every child is either kept or its Size() is added to the removed byte count; " +
		"(DEP) the correction applied to every trun.DataOffset in DecryptFragment depends on the byte counts returned by RemoveEncryptionBoxes and RemovePsshs; the saio offset written by EncryptFragment depends on the sizes of all moof children preceding the traf and of the traf children preceding senc; " +
		"InitProtect stores the ORIGINAL sample entry type in frma (captured before SetType); RemoveEncryption restores the sample entry type from sinf.Frma.DataFormat; what is stored in senc/saiz for a sample (iv, sub-sample pattern) is what the crypt call used, with no IV update in between; " +
		"(DEP) EncryptFragment reads the samples with the trex of the protected track; (G3D) the carry loop that steps the cenc IV indexes the IV with a counter that a dominating test keeps at 0 or above (a carry out of the most significant byte wraps instead of indexing iv[-1]); (O-EVERY) every iteration of the per-sample loop of EncryptFragment records the sample in senc and saiz (no continue goes round AddSample / AddSampleInfo); (DEP) the mp4ff-encrypt tool hands every EncryptFragment call the IV value it handed InitProtect (for cbcs the constant IV in tenc is all a decryptor knows); DecryptInit attaches each trex to the track info with the same track id (not by position); (L-NILRANGE) no loop in package mp4 runs over a field that was set to nil just before (RemovePsshs sums the sizes of the saved list: the removed byte count corrects data offsets); (O-EVERY) every iteration of DecryptFragment's loop over the track fragments reaches RemoveEncryptionBoxes; (O-IVLEN) in SencBox.ParseReadBox k bytes are read per IV under perSampleIVSize == k; (O-RO) no slice write in package mp4 targets storage of a tenc box field; ContainsSencBox reports 'not found' only after all children were examined; on decrypt the crypt call's iv and pattern depend on senc.IVs / tenc.DefaultConstantIV and senc.SubSamples. Decides these necessary conditions; byte-exact restoration (cipher arithmetic), counter wrap and timing fields are not decided."
	r.Assume("dependence = intraprocedural SSA data dependence plus return-value dependence of repository callees (3 levels)")
	ruleKeepOrCount(c, r)
	if f := c.ssaFunc(r, "DEP", "mp4", "DecryptFragment"); f != nil {
		sts := storesTo(f, "TrunBox.DataOffset")
		if len(sts) == 0 {
			r.Bad("DEP", "mp4.DecryptFragment:DataOffset", c.Pos(f.Pos()), "trun data offsets are not corrected after the protection boxes are removed")
		}
		for _, st := range sts {
			requireDeps(c, r, "DEP", "mp4.DecryptFragment:DataOffset", c.Pos(st.Pos()), st.Val,
				[]string{"call:TrafBox.RemoveEncryptionBoxes", "call:MoofBox.RemovePsshs", "field:TrunBox.DataOffset"}, nil, "corrected trun data offset")
		}
	}
	ruleSaioOffset(c, r)
	if f := c.ssaFunc(r, "DEP", "mp4", "InitProtect"); f != nil {
		sts := storesTo(f, "FrmaBox.DataFormat")
		if len(sts) == 0 {
			r.Bad("DEP", "mp4.InitProtect:frma", c.Pos(f.Pos()), "no frma data format is stored")
		}
		for i, st := range sts {
			key := fmt.Sprintf("mp4.InitProtect:frma#%d", i)
			// the stored value is the result of a Type() call that executes before every SetType call
			var typeCall *ssa.Call
			if call, ok := st.Val.(*ssa.Call); ok && strings.HasSuffix(calleeName(call.Common()), ".Type") {
				typeCall = call
			}
			if typeCall == nil {
				sl := backSlice(c, st.Val, 1)
				if !sliceHas(sl, "call", ".Type") {
					r.Bad("DEP", key, c.Pos(st.Pos()), "frma data format does not come from the sample entry's Type()")
					continue
				}
				r.OK("DEP", key, c.Pos(st.Pos()), "frma data format depends on the sample entry's Type()")
				continue
			}
			bad := false
			for _, set := range callsIn(f, ".SetType", false) {
				if set.Common().Args[0] == typeCall.Call.Args[0] && instrReaches(set, typeCall) && !instrReaches(typeCall, set) {
					bad = true
				}
				if set.Common().Args[0] == typeCall.Call.Args[0] && instrDominates(set, typeCall) {
					bad = true
				}
			}
			if bad {
				r.Bad("DEP", key, c.Pos(st.Pos()), "the sample entry type stored in frma is read AFTER the entry was renamed to encv/enca: the original type is lost")
			} else {
				r.OK("DEP", key, c.Pos(st.Pos()), "original sample entry type is captured before SetType and stored in frma")
			}
		}
	}
	for _, m := range []string{"VisualSampleEntryBox", "AudioSampleEntryBox"} {
		if f := c.ssaFunc(r, "DEP", "mp4", m+".RemoveEncryption"); f != nil {
			sts := storesTo(f, m+".name")
			if len(sts) == 0 {
				r.Bad("DEP", "mp4."+m+".RemoveEncryption:name", c.Pos(f.Pos()), "sample entry type is not restored")
			}
			for _, st := range sts {
				requireDeps(c, r, "DEP", "mp4."+m+".RemoveEncryption:name", c.Pos(st.Pos()), st.Val, []string{"field:FrmaBox.DataFormat"}, nil, "restored sample entry type")
			}
		}
	}
	ruleStoredIsUsed(c, r)
	ruleTrexByID(c, r)
	ruleEncryptSameIV(c, r)
	ruleEncryptUsesTrex(c, r)
	if n := ruleFilterBreak(c, r, func(f *ssa.Function) bool { return strings.HasPrefix(SSAFuncName(f), "mp4.") }); n < 3 {
		r.Undecided("L-FILTERBREAK", "scope", "", fmt.Sprintf("only %d child lists rebuilt from a filtering loop found (RemovePsshs, RemoveEncryptionBoxes expected)", n))
	}
	requireFixture(r, "L-FILTERBREAK", "dropFirstWrong", func(fc *Ctx, s *Report) { ruleFilterBreak(fc, s, nil) })
	if n := ruleByteParamsReadOnly(c, r, byteParamWriters); n < 5 {
		r.Undecided("R3-BYTES", "scope", "", fmt.Sprintf("only %d writing (function, []byte parameter) pairs found in package mp4", n))
	}
	if n := ruleG3D(c, r, func(f *ssa.Function) bool { return strings.HasPrefix(SSAFuncName(f), "mp4.") }); n < 2 {
		r.Undecided("G3D", "scope", "", "the carry loop of incrementIVInPlace (index counting down) was not found")
	}
	requireFixture(r, "G3D", "carryDown", func(fc *Ctx, s *Report) { ruleG3D(fc, s, nil) })
	ruleEveryCycleCalls(c, r, "mp4", "EncryptFragment", "SencBox.AddSample", "senc then has fewer entries than the trun has samples and decryption falls back to a zero IV")
	ruleEveryCycleCalls(c, r, "mp4", "DecryptSegment", "mp4.DecryptFragment", "a fragment skipped here stays encrypted although the segment is reported as decrypted (a decision taken from the first traf misses protected tracks that come later)")
	ruleEveryCycleCalls(c, r, "mp4", "EncryptFragment", "SaizBox.AddSampleInfo", "saiz then describes fewer samples than the fragment has")
	ruleEveryIteration(c, r)
	if n := ruleDeadRange(c, r, func(f *ssa.Function) bool { return strings.HasPrefix(SSAFuncName(f), "mp4.") }); n < 200 {
		r.Undecided("L-NILRANGE", "scope", "", "too few loops over struct fields found")
	} else {
		r.OK("L-NILRANGE", "scope", "", fmt.Sprintf("%d loops/len() over slice fields in package mp4: none runs over a field that was set to nil just before", n))
	}
	requireFixture(r, "L-NILRANGE", "removeAll", func(fc *Ctx, s *Report) { ruleDeadRange(fc, s, nil) })
	ruleIVBytes(c, r)
	ruleTencReadOnly(c, r)
	ruleSencSearch(c, r)
	if f := c.ssaFunc(r, "DEP", "mp4", "decryptSamplesInPlace"); f != nil {
		n := 0
		for _, suffix := range []string{"mp4.DecryptSampleCenc", "mp4.DecryptSampleCbcs", "mp4.CryptSampleCenc"} {
			for _, call := range callsIn(f, suffix, false) {
				n++
				args := call.Common().Args
				requireDeps(c, r, "DEP", "mp4.decryptSamplesInPlace:"+suffix[4:]+":iv", c.Pos(call.Pos()), args[2], []string{"field:SencBox.IVs", "field:TencBox.DefaultConstantIV"}, nil, "iv used for decryption")
				requireDeps(c, r, "DEP", "mp4.decryptSamplesInPlace:"+suffix[4:]+":pattern", c.Pos(call.Pos()), args[3], []string{"field:SencBox.SubSamples"}, nil, "sub-sample pattern used for decryption")
			}
		}
		if n == 0 {
			r.Undecided("DEP", "mp4.decryptSamplesInPlace:calls", c.Pos(f.Pos()), "no decrypt call found")
		}
	}
	r.Floor("DEP", 8)
}

// ruleSaioOffset — the saio offset depends on the sizes of everything that precedes the senc data in the moof.
func ruleSaioOffset(c *Ctx, r *Report) {
	f := c.ssaFunc(r, "DEP", "mp4", "EncryptFragment")
	if f == nil {
		return
	}
	// store into saio.Offset[0]
	var st *ssa.Store
	for _, b := range f.Blocks {
		for _, ins := range b.Instrs {
			if s, ok := ins.(*ssa.Store); ok {
				if ia, ok := s.Addr.(*ssa.IndexAddr); ok {
					sl := backSlice(c, ia.X, 0)
					if sliceHas(sl, "field", "SaioBox.Offset") {
						st = s
					}
				}
			}
		}
	}
	if st == nil {
		r.Bad("DEP", "mp4.EncryptFragment:saio", c.Pos(f.Pos()), "saio offset is never set")
		return
	}
	sl := backSlice(c, st.Val, 1)
	var missing []string
	if !sliceHas(sl, "field", "MoofBox.Children") {
		missing = append(missing, "the list of moof children (sizes of every box before the traf)")
	}
	if !sliceHas(sl, "field", "TrafBox.Children") {
		missing = append(missing, "the list of traf children (sizes of every box before senc)")
	}
	if !sliceHas(sl, "call", "iface.Size") {
		missing = append(missing, "Size() of those boxes")
	}
	if len(missing) > 0 {
		r.Bad("DEP", "mp4.EncryptFragment:saio", c.Pos(st.Pos()), "saio offset no longer depends on "+strings.Join(missing, "; ")+": it assumes a fixed moof layout")
	} else {
		r.OK("DEP", "mp4.EncryptFragment:saio", c.Pos(st.Pos()), "saio offset is accumulated over moof.Children and traf.Children sizes")
	}
}

// ruleStoredIsUsed — per scheme arm of EncryptFragment: the iv / pattern given to senc.AddSample and
// saiz.AddSampleInfo are the values given to the crypt call, and the IV is advanced only afterwards.
func ruleStoredIsUsed(c *Ctx, r *Report) {
	f := c.ssaFunc(r, "O-USED", "mp4", "EncryptFragment")
	if f == nil {
		return
	}
	crypts := append(callsIn(f, "mp4.CryptSampleCenc", false), callsIn(f, "mp4.EncryptSampleCbcs", false)...)
	if len(crypts) < 2 {
		r.Undecided("O-USED", "mp4.EncryptFragment:crypt-calls", c.Pos(f.Pos()), "expected a cenc and a cbcs crypt call")
		return
	}
	for _, cr := range crypts {
		name := calleeName(cr.Common())
		key := "mp4.EncryptFragment:" + name[4:]
		iv, pat := cr.Common().Args[2], cr.Common().Args[3]
		// AddSample / AddSampleInfo in the same arm (dominated by the crypt call)
		var adds []ssa.CallInstruction
		for _, a := range append(callsIn(f, "SencBox.AddSample", false), callsIn(f, "SaizBox.AddSampleInfo", false)...) {
			if instrDominates(cr, a) {
				adds = append(adds, a)
			}
		}
		if len(adds) < 2 {
			r.Bad("O-USED", key, c.Pos(cr.Pos()), "the sample's iv / sub-sample pattern are not recorded in both senc and saiz after the crypt call")
			continue
		}
		ok := true
		for _, a := range adds {
			sl := map[ssa.Value]bool{}
			collectValues(a.Common().Args, sl, 0)
			if !sl[pat] {
				ok = false
				r.Bad("O-USED", key+":pattern", c.Pos(a.Pos()), "the sub-sample pattern recorded for the sample is not the one handed to the crypt call")
			}
			if strings.HasSuffix(name, "CryptSampleCenc") && !sl[iv] {
				ok = false
				r.Bad("O-USED", key+":iv", c.Pos(a.Pos()), "the iv recorded for the sample is not the one handed to the crypt call")
			}
			// no IV increment between crypt and record
			for _, inc := range callsIn(f, "mp4.incrementIV", false) {
				if instrDominates(cr, inc) && instrDominates(inc, a) {
					ok = false
					r.Bad("O-USED", key+":iv-order", c.Pos(inc.Pos()), "the iv is advanced before it is recorded in senc/saiz")
				}
			}
		}
		if strings.HasSuffix(name, "CryptSampleCenc") {
			advanced := false
			for _, inc := range callsIn(f, "mp4.incrementIV", false) {
				if instrDominates(cr, inc) {
					advanced = true
				}
			}
			if !advanced {
				ok = false
				r.Bad("O-USED", key+":iv-advance", c.Pos(cr.Pos()), "the iv is not advanced after a cenc sample: counter blocks are reused")
			}
		} else {
			for _, inc := range callsIn(f, "mp4.incrementIV", false) {
				if instrDominates(cr, inc) {
					ok = false
					r.Bad("O-USED", key+":iv-constant", c.Pos(inc.Pos()), "the constant iv of cbcs is advanced")
				}
			}
		}
		if ok {
			r.OK("O-USED", key, c.Pos(cr.Pos()), "iv / pattern recorded in senc and saiz are the ones used by the crypt call; iv advance order is right")
		}
	}
}

// collectValues gathers the values reachable from the arguments through struct construction (composite literals).
func collectValues(vs []ssa.Value, out map[ssa.Value]bool, d int) {
	if d > 6 {
		return
	}
	for _, v := range vs {
		if v == nil || out[v] {
			continue
		}
		out[v] = true
		switch x := v.(type) {
		case *ssa.UnOp:
			if al, ok := x.X.(*ssa.Alloc); ok {
				for _, ref := range *al.Referrers() {
					switch y := ref.(type) {
					case *ssa.Store:
						collectValues([]ssa.Value{y.Val}, out, d+1)
					case *ssa.FieldAddr:
						for _, r2 := range *y.Referrers() {
							if st, ok := r2.(*ssa.Store); ok {
								collectValues([]ssa.Value{st.Val}, out, d+1)
							}
						}
					}
				}
			}
			collectValues([]ssa.Value{x.X}, out, d+1)
		case *ssa.Phi:
			collectValues(x.Edges, out, d+1)
		case *ssa.Convert:
			collectValues([]ssa.Value{x.X}, out, d+1)
		case *ssa.ChangeType:
			collectValues([]ssa.Value{x.X}, out, d+1)
		case *ssa.MakeInterface:
			collectValues([]ssa.Value{x.X}, out, d+1)
		}
	}
}

// C07 — encrypted output is well-formed CENC (narrow structural clauses).
func checkC07(c *Ctx, r *Report) {
	r.Explanation = "T-PATTERN: among the tenc boxes InitProtect builds there is a version-1 (cbcs) box with a crypt:skip pattern (video) and a version-1 box with crypt_byte_block zero (audio is protected whole); Narrow clauses: (S-CLONE) GetAVCProtectRanges and GetHEVCProtectRanges are the same function modulo the avc/hevc package (normalised AST comparison: comments, error texts and local names ignored); " +
		"(WHO) on the encrypt path SubSamplePattern values are constructed only inside AppendProtectRange, which keeps the 65535-byte clear-run split in one place; " +
		"(O-USED) senc/saiz record exactly the iv and pattern the crypt call used, the cenc iv is advanced after each sample and the cbcs iv never; (L-SIBLING) in the slice-header parsers that feed the cbcs clear/protected boundary no loop fills one of two twin lists (weights L0/L1, delta POCs S0/S1) while deciding with the other; (O-FRESHIV) in cbcs every protected range is coded with a block mode created from the IV for that range (in the function coding one range, or by its caller inside the same loop iteration); (DEP) the saio offset is accumulated over the boxes that precede the senc data. " +
		"NOT decided, stated plainly: that protected bytes equal an independent AES-CTR / AES-CBC implementation, the 16-byte block and 1:9 pattern arithmetic, exactness of the partition, IV carry arithmetic."
	ruleSClone(c, r, "mp4", "GetAVCProtectRanges", "GetHEVCProtectRanges", map[string]string{"avc": "hevc"})
	ruleWhoConstructs(c, r)
	ruleStoredIsUsed(c, r)
	ruleSaioOffset(c, r)
	ruleCbcsPatterns(c, r)
	if n := ruleCursorSkip(c, r); n < 2 {
		r.Undecided("L-CURSORSKIP", "scope", "", "the byte cursors of CryptSampleCenc / cryptSampleCbcs were not found")
	}
	ruleFreshCBC(c, r)
	if n := ruleSiblingSlices(c, r, func(f *ssa.Function) bool {
		n := SSAFuncName(f)
		return strings.HasPrefix(n, "avc.") || strings.HasPrefix(n, "hevc.") || strings.HasPrefix(n, "mp4.")
	}); n < 20 {
		r.Undecided("L-SIBLING", "scope", "", "too few single-list loops found")
	} else {
		r.OK("L-SIBLING", "scope", "", fmt.Sprintf("%d loops that fill the elements of one slice field in avc, hevc, mp4: none decides with the twin list (…L0/…L1, …S0/…S1) only", n))
	}
	requireFixture(r, "L-SIBLING", "siblingLoop", func(fc *Ctx, s *Report) { ruleSiblingSlices(fc, s, nil) })
}

package chk

// E8 — registries, tables, exhaustiveness.

import (
	"fmt"
	"go/ast"
	"go/constant"
	"go/token"
	"go/types"
	"sort"
	"strings"

	"golang.org/x/tools/go/packages"
	"golang.org/x/tools/go/ssa"
)

// mapLiteralOf finds the map composite literal assigned to (or initialising) the
// package-level variable name in package p: `var X = map…{…}` or `X = map…{…}` in init.
func mapLiteralOf(p *packages.Package, name string) *ast.CompositeLit {
	obj := p.Types.Scope().Lookup(name)
	if obj == nil {
		return nil
	}
	var found *ast.CompositeLit
	for _, f := range p.Syntax {
		ast.Inspect(f, func(n ast.Node) bool {
			switch x := n.(type) {
			case *ast.ValueSpec:
				for i, id := range x.Names {
					if p.TypesInfo.Defs[id] == obj && i < len(x.Values) {
						if cl, ok := x.Values[i].(*ast.CompositeLit); ok {
							found = cl
						}
					}
				}
			case *ast.AssignStmt:
				for i, l := range x.Lhs {
					if id, ok := l.(*ast.Ident); ok && p.TypesInfo.Uses[id] == obj && i < len(x.Rhs) {
						if cl, ok := x.Rhs[i].(*ast.CompositeLit); ok {
							found = cl
						}
					}
				}
			}
			return true
		})
	}
	return found
}

type regEntry struct {
	key string
	fn  *types.Func
	pos token.Pos
}

func registryEntries(p *packages.Package, cl *ast.CompositeLit) ([]regEntry, error) {
	var out []regEntry
	for _, e := range cl.Elts {
		kv, ok := e.(*ast.KeyValueExpr)
		if !ok {
			return nil, fmt.Errorf("non key-value element")
		}
		tv := p.TypesInfo.Types[kv.Key]
		if tv.Value == nil || tv.Value.Kind() != constant.String {
			return nil, fmt.Errorf("non-constant key %s", types.ExprString(kv.Key))
		}
		var fn *types.Func
		switch v := kv.Value.(type) {
		case *ast.Ident:
			fn, _ = p.TypesInfo.Uses[v].(*types.Func)
		case *ast.SelectorExpr:
			fn, _ = p.TypesInfo.Uses[v.Sel].(*types.Func)
		}
		if fn == nil {
			return nil, fmt.Errorf("value of key %q is not a named function", constant.StringVal(tv.Value))
		}
		out = append(out, regEntry{constant.StringVal(tv.Value), fn, kv.Pos()})
	}
	return out, nil
}

// concreteReturnTypes: set of concrete types wrapped into the interface result #idx of fn,
// following calls to repository functions.
func concreteReturnTypes(c *Ctx, fn *ssa.Function, idx int, seen map[*ssa.Function]bool, out map[string]bool) {
	if fn == nil || seen[fn] || len(fn.Blocks) == 0 {
		return
	}
	seen[fn] = true
	var visit func(v ssa.Value, vs map[ssa.Value]bool)
	visit = func(v ssa.Value, vs map[ssa.Value]bool) {
		if v == nil || vs[v] {
			return
		}
		vs[v] = true
		switch x := v.(type) {
		case *ssa.MakeInterface:
			out[types.TypeString(x.X.Type(), func(p *types.Package) string { return p.Name() })] = true
		case *ssa.Phi:
			for _, e := range x.Edges {
				visit(e, vs)
			}
		case *ssa.Call:
			if cal := x.Call.StaticCallee(); cal != nil && inRepo(cal) {
				concreteReturnTypes(c, cal, 0, seen, out)
			} else if x.Call.StaticCallee() == nil {
				out["<dynamic call>"] = true
			}
		case *ssa.Extract:
			if call, ok := x.Tuple.(*ssa.Call); ok {
				if cal := call.Call.StaticCallee(); cal != nil && inRepo(cal) {
					concreteReturnTypes(c, cal, x.Index, seen, out)
				} else if cal == nil {
					out["<dynamic call>"] = true
				}
			}
		case *ssa.ChangeInterface:
			visit(x.X, vs)
		case *ssa.Const:
			// nil
		case *ssa.UnOp:
			// load of a local holding the box: follow stores to the alloc
			if al, ok := x.X.(*ssa.Alloc); ok {
				for _, ref := range *al.Referrers() {
					if st, ok := ref.(*ssa.Store); ok && st.Addr == al {
						visit(st.Val, vs)
					}
				}
			}
		}
	}
	for _, b := range fn.Blocks {
		for _, ins := range b.Instrs {
			if ret, ok := ins.(*ssa.Return); ok && idx < len(ret.Results) {
				visit(ret.Results[idx], map[ssa.Value]bool{})
			}
		}
	}
}

func setStr(m map[string]bool) string {
	var s []string
	for k := range m {
		s = append(s, k)
	}
	sort.Strings(s)
	return "{" + strings.Join(s, ",") + "}"
}

// ruleTREG — the two decoder registries agree.
func ruleTREG(c *Ctx, r *Report) (dec, decSR map[string]*types.Func) {
	p := c.Pkg("mp4")
	clD := mapLiteralOf(p, "decoders")
	clS := mapLiteralOf(p, "decodersSR")
	if clD == nil || clS == nil {
		r.Undecided("T-REG", "anchor:registries", "", "map literal for mp4.decoders / mp4.decodersSR not found")
		return nil, nil
	}
	eD, err1 := registryEntries(p, clD)
	eS, err2 := registryEntries(p, clS)
	if err1 != nil || err2 != nil {
		r.Undecided("T-REG", "shape:registries", c.Pos(clD.Pos()), fmt.Sprintf("registry literal not of the form key:func (%v %v)", err1, err2))
		return nil, nil
	}
	dec, decSR = map[string]*types.Func{}, map[string]*types.Func{}
	posD := map[string]token.Pos{}
	for _, e := range eD {
		if _, dup := dec[e.key]; dup {
			r.Bad("T-REG", "dup:"+e.key, c.Pos(e.pos), "duplicate key in decoders")
		}
		dec[e.key] = e.fn
		posD[e.key] = e.pos
	}
	for _, e := range eS {
		decSR[e.key] = e.fn
		if _, ok := dec[e.key]; !ok {
			r.Bad("T-REG", "key:"+fmt.Sprintf("%q", e.key), c.Pos(e.pos), "box type registered in decodersSR but not in decoders: the reader path treats it as unknown")
		}
	}
	pairDS := map[*types.Func]*types.Func{}
	pairSD := map[*types.Func]*types.Func{}
	var keys []string
	for k := range dec {
		keys = append(keys, k)
	}
	sort.Strings(keys)
	prog := c.SSA()
	for _, k := range keys {
		d := dec[k]
		s, ok := decSR[k]
		qk := fmt.Sprintf("%q", k)
		if !ok {
			r.Bad("T-REG", "key:"+qk, c.Pos(posD[k]), "box type registered in decoders but not in decodersSR: the slice-reader path treats it as unknown")
			continue
		}
		if prev, ok := pairDS[d]; ok && prev != s {
			r.Bad("T-REG", "pair:"+qk, c.Pos(posD[k]), fmt.Sprintf("%s is paired with %s here but with %s elsewhere", d.Name(), s.Name(), prev.Name()))
			continue
		}
		if prev, ok := pairSD[s]; ok && prev != d {
			r.Bad("T-REG", "pair:"+qk, c.Pos(posD[k]), fmt.Sprintf("%s is paired with %s here but with %s elsewhere", s.Name(), d.Name(), prev.Name()))
			continue
		}
		pairDS[d], pairSD[s] = s, d
		// concrete types
		td, ts := map[string]bool{}, map[string]bool{}
		concreteReturnTypes(c, prog.FuncValue(d), 0, map[*ssa.Function]bool{}, td)
		concreteReturnTypes(c, prog.FuncValue(s), 0, map[*ssa.Function]bool{}, ts)
		if setStr(td) != setStr(ts) || len(td) == 0 {
			r.Bad("T-REG", "types:"+qk, c.Pos(posD[k]), fmt.Sprintf("%s returns %s but %s returns %s", d.Name(), setStr(td), s.Name(), setStr(ts)))
			continue
		}
		r.OK("T-REG", "key:"+qk, c.Pos(posD[k]), fmt.Sprintf("%s ↔ %s, concrete %s", d.Name(), s.Name(), setStr(td)))
	}
	r.Floor("T-REG", 120)
	// the two mutators touch both maps with the same key
	for _, name := range []string{"SetBoxDecoder", "RemoveBoxDecoder"} {
		fn := c.LookupFunc("mp4", name)
		if fn == nil {
			r.Undecided("T-REG", "anchor:"+name, "", "function not found")
			continue
		}
		sf := prog.FuncValue(fn)
		touched := map[string]ssa.Value{}
		for _, b := range sf.Blocks {
			for _, ins := range b.Instrs {
				var m, k ssa.Value
				switch x := ins.(type) {
				case *ssa.MapUpdate:
					m, k = x.Map, x.Key
				case *ssa.Call:
					if bi, ok := x.Call.Value.(*ssa.Builtin); ok && bi.Name() == "delete" {
						m, k = x.Call.Args[0], x.Call.Args[1]
					}
				}
				if m == nil {
					continue
				}
				if g := globalRoot(m, nil, map[ssa.Value]bool{}); g != nil {
					touched[g.Name()] = k
				}
			}
		}
		kd, okd := touched["decoders"]
		ks, oks := touched["decodersSR"]
		if !okd || !oks {
			r.Bad("T-REG", "mutator:"+name, c.Pos(fn.Pos()), "does not update both registries")
		} else if kd != ks {
			r.Bad("T-REG", "mutator:"+name, c.Pos(fn.Pos()), "updates the two registries under different keys")
		} else {
			r.OK("T-REG", "mutator:"+name, c.Pos(fn.Pos()), "updates decoders and decodersSR under the same key")
		}
	}
	return dec, decSR
}

// isBoxDecoderSRSig: func(BoxHeader, uint64, bits.SliceReader) (Box, error)
func isSRDecoderSig(sig *types.Signature) bool {
	if sig.Params().Len() != 3 || sig.Results().Len() != 2 {
		return false
	}
	return strings.HasSuffix(sig.Params().At(0).Type().String(), "mp4.BoxHeader") &&
		strings.HasSuffix(sig.Params().At(2).Type().String(), "bits.SliceReader") &&
		strings.HasSuffix(sig.Results().At(0).Type().String(), "mp4.Box")
}

// ruleTDELEG — reader-path decoders that delegate do so to their registered twin with a reader over exactly their own body.
// Returns the set of reader-path decoders that are written separately (do not delegate).
func ruleTDELEG(c *Ctx, r *Report, dec, decSR map[string]*types.Func) (separate []*types.Func) {
	if dec == nil {
		return nil
	}
	prog := c.SSA()
	twin := map[*types.Func]*types.Func{}
	for k, d := range dec {
		if s, ok := decSR[k]; ok {
			twin[d] = s
		}
	}
	var ds []*types.Func
	for d := range twin {
		ds = append(ds, d)
	}
	sort.Slice(ds, func(i, j int) bool { return ds[i].Name() < ds[j].Name() })
	ndeleg := 0
	for _, d := range ds {
		sf := prog.FuncValue(d)
		if sf == nil || len(sf.Params) != 3 {
			r.Undecided("T-DELEG", FuncName(d), "", "no SSA body")
			continue
		}
		var calls []*ssa.Call
		for _, b := range sf.Blocks {
			for _, ins := range b.Instrs {
				if call, ok := ins.(*ssa.Call); ok {
					if cal := call.Call.StaticCallee(); cal != nil && inRepo(cal) && isSRDecoderSig(cal.Signature) {
						calls = append(calls, call)
					}
				}
			}
		}
		if len(calls) == 0 {
			separate = append(separate, d)
			continue
		}
		ndeleg++
		bad := ""
		for _, call := range calls {
			cal := call.Call.StaticCallee()
			if obj, _ := cal.Object().(*types.Func); obj != twin[d] {
				bad = fmt.Sprintf("delegates to %s but %s is registered for the same box types", cal.Name(), twin[d].Name())
				break
			}
			a := call.Call.Args
			if unspill(a[0]) != ssa.Value(sf.Params[0]) || unspill(a[1]) != ssa.Value(sf.Params[1]) {
				bad = "does not pass its own header / start position to the SR decoder"
				break
			}
			// a[2]: MakeInterface(NewFixedSliceReader(Extract(readBoxBody(r,hdr),0)))
			v := a[2]
			if mi, ok := v.(*ssa.MakeInterface); ok {
				v = mi.X
			}
			nc, ok := v.(*ssa.Call)
			if !ok || nc.Call.StaticCallee() == nil || nc.Call.StaticCallee().Name() != "NewFixedSliceReader" {
				bad = "reader passed to the SR decoder is not bits.NewFixedSliceReader(<body>)"
				break
			}
			bv := nc.Call.Args[0]
			ex, ok := bv.(*ssa.Extract)
			var rb *ssa.Call
			if ok {
				rb, _ = ex.Tuple.(*ssa.Call)
			}
			if rb == nil || rb.Call.StaticCallee() == nil || rb.Call.StaticCallee().Name() != "readBoxBody" {
				bad = "body given to the SR decoder does not come from readBoxBody"
				break
			}
			if unspill(rb.Call.Args[0]) != ssa.Value(sf.Params[2]) || unspill(rb.Call.Args[1]) != ssa.Value(sf.Params[0]) {
				bad = "readBoxBody is not called with this decoder's own reader and header"
				break
			}
		}
		if bad != "" {
			r.Bad("T-DELEG", FuncName(d), c.Pos(d.Pos()), bad)
		} else {
			r.OK("T-DELEG", FuncName(d), c.Pos(d.Pos()), "delegates to "+twin[d].Name()+" over readBoxBody(r, hdr)")
		}
	}
	r.Floor("T-DELEG", 55)
	sort.Slice(separate, func(i, j int) bool { return separate[i].Name() < separate[j].Name() })
	return separate
}

// ruleTWRAP — every Encode(w) of wrapper shape allocates exactly Size() bytes, encodes the same receiver, checks the error, writes sw.Bytes().
// Returns the Encode methods that are NOT of wrapper shape.
func ruleTWRAP(c *Ctx, r *Report) (nonWrappers []*types.Func) {
	prog := c.SSA()
	for _, p := range c.Pkgs {
		if !IsLib(p) {
			continue
		}
		var fns []*types.Func
		for fn := range c.decls {
			if c.declPkg[fn] == p && fn.Name() == "Encode" {
				sig := fn.Type().(*types.Signature)
				if sig.Recv() != nil && sig.Params().Len() == 1 && sig.Params().At(0).Type().String() == "io.Writer" {
					fns = append(fns, fn)
				}
			}
		}
		sort.Slice(fns, func(i, j int) bool { return FuncName(fns[i]) < FuncName(fns[j]) })
		for _, fn := range fns {
			sf := prog.FuncValue(fn)
			if sf == nil || len(sf.Blocks) == 0 {
				continue
			}
			var newSW, encSW, write, bytesCall *ssa.Call
			for _, b := range sf.Blocks {
				for _, ins := range b.Instrs {
					call, ok := ins.(*ssa.Call)
					if !ok {
						continue
					}
					if cal := call.Call.StaticCallee(); cal != nil {
						switch {
						case cal.Name() == "NewFixedSliceWriter" && cal.Pkg != nil && strings.HasSuffix(cal.Pkg.Pkg.Path(), "/bits"):
							newSW = call
						case cal.Name() == "EncodeSW":
							encSW = call
						case cal.Name() == "Bytes" && strings.Contains(cal.String(), "FixedSliceWriter"):
							bytesCall = call
						}
					} else if call.Call.IsInvoke() && call.Call.Method.Name() == "Write" && call.Call.Value == sf.Params[1] {
						write = call
					}
				}
			}
			if newSW == nil {
				nonWrappers = append(nonWrappers, fn)
				continue
			}
			name := FuncName(fn)
			fail := func(msg string) { r.Bad("T-WRAP", name, c.Pos(fn.Pos()), msg) }
			// argument: int(recv.Size())
			arg := newSW.Call.Args[0]
			for {
				if cv, ok := arg.(*ssa.Convert); ok {
					arg = cv.X
					continue
				}
				break
			}
			sc, ok := arg.(*ssa.Call)
			if !ok || sc.Call.StaticCallee() == nil || sc.Call.StaticCallee().Name() != "Size" || len(sc.Call.Args) == 0 || sc.Call.Args[0] != sf.Params[0] {
				fail("slice writer is not allocated with exactly int(recv.Size()) of the same receiver")
				continue
			}
			if encSW == nil || len(encSW.Call.Args) < 2 || encSW.Call.Args[0] != sf.Params[0] {
				fail("does not call EncodeSW on the same receiver")
				continue
			}
			swArg := encSW.Call.Args[1]
			if mi, ok := swArg.(*ssa.MakeInterface); ok {
				swArg = mi.X
			}
			if swArg != ssa.Value(newSW) {
				fail("EncodeSW is not given the slice writer that was allocated with Size()")
				continue
			}
			// EncodeSW's error must be tested
			tested := false
			for _, ref := range *encSW.Referrers() {
				if bo, ok := ref.(*ssa.BinOp); ok && (bo.Op == token.NEQ || bo.Op == token.EQL) {
					for _, r2 := range *bo.Referrers() {
						if _, ok := r2.(*ssa.If); ok {
							tested = true
						}
					}
				}
			}
			if !tested {
				fail("error returned by EncodeSW is not checked before writing")
				continue
			}
			if write == nil || bytesCall == nil || bytesCall.Call.Args[0] != ssa.Value(newSW) || write.Call.Args[0] != ssa.Value(bytesCall) {
				fail("does not write exactly sw.Bytes() of that slice writer to w")
				continue
			}
			// the Write error must be returned
			returned := false
			for _, ref := range *write.Referrers() {
				if ex, ok := ref.(*ssa.Extract); ok && ex.Index == 1 {
					for _, r2 := range *ex.Referrers() {
						if _, ok := r2.(*ssa.Return); ok {
							returned = true
						}
					}
				}
			}
			if !returned {
				fail("error from w.Write is not returned")
				continue
			}
			r.OK("T-WRAP", name, c.Pos(fn.Pos()), "NewFixedSliceWriter(int(recv.Size())) → recv.EncodeSW(sw) checked → w.Write(sw.Bytes()) returned")
		}
	}
	r.Floor("T-WRAP", 60)
	sort.Slice(nonWrappers, func(i, j int) bool { return FuncName(nonWrappers[i]) < FuncName(nonWrappers[j]) })
	return nonWrappers
}

// ruleTINV — two map literals are mutual inverses.
func ruleTINV(c *Ctx, r *Report, pkg, a, b string) {
	p := c.Pkg(pkg)
	if p == nil {
		r.Undecided("T-INV", "anchor:"+pkg, "", "package not found")
		return
	}
	la, lb := mapLiteralOf(p, a), mapLiteralOf(p, b)
	if la == nil || lb == nil {
		r.Undecided("T-INV", "anchor:"+a+"/"+b, "", "map literals not found")
		return
	}
	read := func(cl *ast.CompositeLit) (map[string]string, bool) {
		m := map[string]string{}
		for _, e := range cl.Elts {
			kv, ok := e.(*ast.KeyValueExpr)
			if !ok {
				return nil, false
			}
			k, v := p.TypesInfo.Types[kv.Key].Value, p.TypesInfo.Types[kv.Value].Value
			if k == nil || v == nil {
				return nil, false
			}
			if _, dup := m[k.ExactString()]; dup {
				return nil, false
			}
			m[k.ExactString()] = v.ExactString()
		}
		return m, true
	}
	ma, ok1 := read(la)
	mb, ok2 := read(lb)
	if !ok1 || !ok2 {
		r.Undecided("T-INV", pkg+"."+a+"/"+b, c.Pos(la.Pos()), "map literal with non-constant or duplicate entries")
		return
	}
	var ks []string
	for k := range ma {
		ks = append(ks, k)
	}
	sort.Strings(ks)
	for _, k := range ks {
		v := ma[k]
		key := fmt.Sprintf("%s.%s[%s]", pkg, a, k)
		if back, ok := mb[v]; !ok {
			r.Bad("T-INV", key, c.Pos(la.Pos()), fmt.Sprintf("%s[%s]=%s but %s has no entry for %s", a, k, v, b, v))
		} else if back != k {
			r.Bad("T-INV", key, c.Pos(la.Pos()), fmt.Sprintf("%s[%s]=%s but %s[%s]=%s", a, k, v, b, v, back))
		} else {
			r.OK("T-INV", key, c.Pos(la.Pos()), fmt.Sprintf("%s ↔ %s", k, v))
		}
	}
	for v, k := range mb {
		if ma[k] != v {
			r.Bad("T-INV", fmt.Sprintf("%s.%s[%s]", pkg, b, v), c.Pos(lb.Pos()), fmt.Sprintf("%s[%s]=%s has no matching entry in %s", b, v, k, a))
		}
	}
	r.Floor("T-INV", 13)
}

// unspill undoes go/ssa's spilling of an addressed parameter: a load of an Alloc whose
// only store is a Parameter is that parameter.
func unspill(v ssa.Value) ssa.Value {
	u, ok := v.(*ssa.UnOp)
	if !ok || u.Op != token.MUL {
		return v
	}
	al, ok := u.X.(*ssa.Alloc)
	if !ok {
		return v
	}
	var par ssa.Value
	n := 0
	for _, ref := range *al.Referrers() {
		if st, ok := ref.(*ssa.Store); ok && st.Addr == ssa.Value(al) {
			n++
			if p, ok := st.Val.(*ssa.Parameter); ok {
				par = p
			}
		}
	}
	if n == 1 && par != nil {
		return par
	}
	return v
}

package chk

import (
	"fmt"
	"go/token"
	"go/types"
	"strings"

	"golang.org/x/tools/go/ssa"
)

// insBefore: a executes before b on every path that reaches b through a (same block: earlier; else a's block
// strictly dominates b's block).
func insBefore(a, b ssa.Instruction) bool {
	if a.Block() == b.Block() {
		ia, ib := -1, -1
		for i, ins := range a.Block().Instrs {
			if ins == a {
				ia = i
			}
			if ins == b {
				ib = i
			}
		}
		return ia >= 0 && ib >= 0 && ia < ib
	}
	return a.Block().Dominates(b.Block())
}

// ruleAppendAlias (L-APPENDALIAS): `append(x[:k], v…)` writes into the backing array of x behind position k. A slice
// of the tail of the same x (x[j:], taken from x as it was before the append was stored back) whose elements are read
// after that append sees the overwritten elements: the classic broken insertion
//     rest := x[k:]; x = append(x[:k], v); x = append(x, rest...)        (rest[0] is v by now)
// and its one-line form append(append(x[:k], v), x[k:]...). The overlapping-copy insertion
// `x = append(x[:k+1], x[k:]...); x[k] = v` and the deletion `append(x[:i], x[i+1:]...)` read the tail in the same
// append that writes (memmove semantics) and are not reported.
func ruleAppendAlias(c *Ctx, r *Report, scope func(*ssa.Function) bool) int {
	n := 0
	for _, f := range libFuncs(c, scope) {
		var appends []*ssa.Call
		var tails []*ssa.Slice
		for _, b := range f.Blocks {
			for _, ins := range b.Instrs {
				switch x := ins.(type) {
				case *ssa.Call:
					if bi, ok := x.Call.Value.(*ssa.Builtin); ok && bi.Name() == "append" && len(x.Call.Args) == 2 {
						if s0, ok := x.Call.Args[0].(*ssa.Slice); ok && s0.High != nil {
							if _, isSl := s0.X.Type().Underlying().(*types.Slice); isSl {
								appends = append(appends, x)
							}
						}
					}
				case *ssa.Slice:
					if x.Low != nil {
						if _, isSl := x.X.Type().Underlying().(*types.Slice); isSl {
							tails = append(tails, x)
						}
					}
				}
			}
		}
		for _, a := range appends {
			n++
			s0 := a.Call.Args[0].(*ssa.Slice)
			key := fmt.Sprintf("%s:%s", SSAFuncName(f), srcOf(f, a.Pos(), "call", "append(x[:k], …)"))
			bad := ""
			for _, t := range tails {
				if !sameBaseBefore(f, s0.X, t.X, a) {
					continue
				}
				// a read of t's elements after a, other than by a itself
				for _, ref := range *t.Referrers() {
					ri, ok := ref.(ssa.Instruction)
					if !ok || ri == ssa.Instruction(a) {
						continue
					}
					if _, isDbg := ri.(*ssa.DebugRef); isDbg {
						continue
					}
					if insBefore(a, ri) {
						bad = fmt.Sprintf("the tail %s of the same slice is read at %s after this append has written behind position k: its first element is already overwritten", srcOf(f, t.Pos(), "slice", "x[j:]"), c.Pos(ri.Pos()))
					}
				}
			}
			if bad != "" {
				r.Bad("L-APPENDALIAS", key, c.Pos(a.Pos()), bad)
			} else {
				r.OK("L-APPENDALIAS", key, c.Pos(a.Pos()), "no tail of the truncated slice is read after the append")
			}
		}
	}
	return n
}

// sameBaseBefore: x0 and x1 denote the same slice header as it was before append a's result was stored back:
// the same SSA value, or two loads of the same address with no store to that address after a and before the second load.
func sameBaseBefore(f *ssa.Function, x0, x1 ssa.Value, a *ssa.Call) bool {
	if x0 == x1 {
		return true
	}
	l0, ok0 := x0.(*ssa.UnOp)
	l1, ok1 := x1.(*ssa.UnOp)
	if !ok0 || !ok1 || l0.Op != token.MUL || l1.Op != token.MUL || !sameAddr(l0.X, l1.X) {
		return false
	}
	for _, b := range f.Blocks {
		for _, ins := range b.Instrs {
			st, ok := ins.(*ssa.Store)
			if !ok || !sameAddr(st.Addr, l0.X) {
				continue
			}
			// a store between the append and the second load gives the second load a new header
			if insBefore(a, st) && insBefore(st, l1) {
				return false
			}
		}
	}
	return true
}

// ruleShortRead (L-SHORTREAD): a direct Read on an io.Reader / io.ReadSeeker value returns as soon as some bytes
// are there; outside a loop that continues until the wanted amount has arrived, the rest of the range is silently
// missing (files and bytes.Reader fill the buffer, network and block readers do not). Every direct Read call in
// the library is inside a loop; whole-buffer reads go through io.ReadFull / io.CopyN / io.ReadAll.
func ruleShortRead(c *Ctx, r *Report, scope func(*ssa.Function) bool) int {
	n := 0
	for _, f := range libFuncs(c, scope) {
		inLoop := map[*ssa.BasicBlock]bool{}
		for _, l := range naturalLoops(f) {
			for b := range l.blocks {
				inLoop[b] = true
			}
		}
		for _, b := range f.Blocks {
			for _, ins := range b.Instrs {
				call, ok := ins.(*ssa.Call)
				if !ok || !call.Call.IsInvoke() || call.Call.Method.Name() != "Read" || len(call.Call.Args) != 1 {
					continue
				}
				ts := call.Call.Value.Type().String()
				if !strings.HasPrefix(ts, "io.") {
					continue
				}
				// a Read method that forwards its own buffer is itself an io.Reader (an adapter): passing a short
				// read on to its caller is the contract, not a defect
				if f.Name() == "Read" && f.Signature.Recv() != nil && len(f.Params) == 2 && call.Call.Args[0] == ssa.Value(f.Params[1]) {
					continue
				}
				n++
				key := fmt.Sprintf("%s:%s.Read", SSAFuncName(f), ts)
				if inLoop[b] {
					r.OK("L-SHORTREAD", key, c.Pos(call.Pos()), "the direct Read is inside a loop")
				} else {
					r.Bad("L-SHORTREAD", key, c.Pos(call.Pos()), "a single direct Read outside any loop: a reader that returns fewer bytes than asked for (allowed by io.Reader) leaves the rest of the range unread")
				}
			}
		}
	}
	return n
}

func init() {
	Registry["WLINT2"] = func(c *Ctx, r *Report) {
		fmt.Println("append-truncate sites", ruleAppendAlias(c, r, nil))
		fmt.Println("direct reads", ruleShortRead(c, r, nil))
		fmt.Println("kept slices in loops", ruleLoopBufferAlias(c, r, nil))
		fmt.Println("map updates", ruleNilMapUpdate(c, r, nil))
		fmt.Println("appends to params", ruleAppendToParam(c, r, libPrefix, nil))
		for _, o := range r.Obls {
			fmt.Println(o.Status, o.Key, o.Pos, o.Detail)
		}
		fc, err := loadFixture()
		fmt.Println("fixture", err)
		if fc != nil {
			r2 := NewReport("f")
			ruleAppendAlias(fc, r2, nil)
			ruleLoopBufferAlias(fc, r2, nil)
			ruleNilMapUpdate(fc, r2, nil)
			for _, o := range r2.Obls {
				fmt.Println("FIXTURE", o.Status, o.Key)
			}
		}
	}
}

// impureObserverFields: the field each accepted impure observer (impureObservers) may change.
var impureObserverFields = map[string]string{"mp4.MdatBox.Size": "LargeSize", "mp4.SencBox.Info": "Flags"}

// ruleStaleAcrossObserver (R3-OBS-STALE): the two observers accepted as impure change one field of their receiver
// (MdatBox.Size may switch LargeSize on; SencBox.Info may OR a flag in). A function that calls one of them does not
// use, after the call, a value of that field it loaded from the same receiver before the call: the header form
// written must be the one Size() has just decided.
func ruleStaleAcrossObserver(c *Ctx, r *Report) int {
	n := 0
	for _, f := range libFuncs(c, func(f *ssa.Function) bool { return strings.HasPrefix(SSAFuncName(f), "mp4.") }) {
		idx := 0
		for _, b := range f.Blocks {
			for _, ins := range b.Instrs {
				call, ok := ins.(*ssa.Call)
				if !ok {
					continue
				}
				cal := call.Call.StaticCallee()
				if cal == nil || len(call.Call.Args) == 0 {
					continue
				}
				fld, ok := impureObserverFields[SSAFuncName(cal)]
				if !ok {
					continue
				}
				recv := call.Call.Args[0]
				n++
				idx++
				key := fmt.Sprintf("%s:%s#%d", SSAFuncName(f), SSAFuncName(cal), idx)
				bad := ""
				for _, b2 := range f.Blocks {
					for _, i2 := range b2.Instrs {
						ld, ok := i2.(*ssa.UnOp)
						if !ok || ld.Op != token.MUL {
							continue
						}
						fa, ok := ld.X.(*ssa.FieldAddr)
						if !ok || fieldNameOf(fa) != fld || !(fa.X == recv || sameValue(fa.X, recv)) {
							continue
						}
						if !insBefore(ld, call) || ld.Referrers() == nil {
							continue
						}
						for _, ref := range *ld.Referrers() {
							if _, isDbg := ref.(*ssa.DebugRef); isDbg {
								continue
							}
							if insBefore(call, ref) {
								bad = fmt.Sprintf("%s is loaded at %s before the call and that value is used at %s after it: the observer may have changed the field in between", fld, c.Pos(ld.Pos()), c.Pos(ref.Pos()))
							}
						}
					}
				}
				if bad != "" {
					r.Bad("R3-OBS-STALE", key, c.Pos(call.Pos()), bad)
				} else {
					r.OK("R3-OBS-STALE", key, c.Pos(call.Pos()), "no value of "+fld+" loaded before the call is used after it")
				}
			}
		}
	}
	return n
}

// ruleLoopBufferAlias (L-LOOPALIAS): inside a loop, a slice that is kept beyond the iteration (stored into a field of
// a struct value / an element, or appended as an element) does not share storage with a buffer that is carried
// round the loop (a loop-header phi) and written again in a later iteration (io.ReadFull, Read, copy, element
// stores). Otherwise every kept element ends up showing the bytes of the last iteration. A cursor that advances
// over stable input (data = data[n:]) is carried too but never written, and is not reported.
func ruleLoopBufferAlias(c *Ctx, r *Report, scope func(*ssa.Function) bool) int {
	n := 0
	for _, f := range libFuncs(c, scope) {
		loopSeen := map[string]int{}
		for _, l := range naturalLoops(f) {
			roots := func(v ssa.Value) map[ssa.Value]bool {
				out := map[ssa.Value]bool{}
				seen := map[ssa.Value]bool{}
				var walk func(x ssa.Value, d int)
				walk = func(x ssa.Value, d int) {
					if d > 8 || seen[x] {
						return
					}
					seen[x] = true
					switch t := x.(type) {
					case *ssa.Slice:
						walk(t.X, d+1)
					case *ssa.ChangeType:
						walk(t.X, d+1)
					case *ssa.Phi:
						if t.Block() == l.header {
							out[t] = true
						}
						for _, e := range t.Edges {
							walk(e, d+1)
						}
					case *ssa.MakeSlice:
						out[t] = true
					}
				}
				walk(v, 0)
				return out
			}
			// storage written inside the loop
			written := map[ssa.Value]bool{}
			mark := func(v ssa.Value) {
				for k := range roots(v) {
					written[k] = true
				}
			}
			type keep struct {
				v   ssa.Value
				pos token.Pos
			}
			var kept []keep
			for _, b := range f.Blocks {
				if !l.blocks[b] {
					continue
				}
				for _, ins := range b.Instrs {
					switch x := ins.(type) {
					case *ssa.Call:
						cc := x.Common()
						if bi, ok := cc.Value.(*ssa.Builtin); ok {
							switch bi.Name() {
							case "copy":
								mark(cc.Args[0])
							case "append":
								// elements appended to a slice of slices are kept
								if len(cc.Args) == 2 {
									if st, ok := cc.Args[0].Type().Underlying().(*types.Slice); ok {
										if _, inner := st.Elem().Underlying().(*types.Slice); inner {
											if sl, ok := cc.Args[1].(*ssa.Slice); ok {
												if al, ok := sl.X.(*ssa.Alloc); ok {
													for _, ref := range *al.Referrers() {
														if ia, ok := ref.(*ssa.IndexAddr); ok {
															for _, r2 := range *ia.Referrers() {
																if s2, ok := r2.(*ssa.Store); ok && s2.Addr == ia {
																	kept = append(kept, keep{s2.Val, x.Pos()})
																}
															}
														}
													}
												}
											}
										}
									}
								}
							}
							continue
						}
						name := calleeName(cc)
						if cc.IsInvoke() && cc.Method.Name() == "Read" && len(cc.Args) == 1 {
							mark(cc.Args[0])
						}
						if strings.HasSuffix(name, "io.ReadFull") || strings.HasSuffix(name, "io.ReadAtLeast") {
							if len(cc.Args) >= 2 {
								mark(cc.Args[1])
							}
						}
					case *ssa.Store:
						if ia, ok := x.Addr.(*ssa.IndexAddr); ok {
							if _, isSl := ia.X.Type().Underlying().(*types.Slice); isSl {
								mark(ia.X)
							}
						}
						if _, isSl := x.Val.Type().Underlying().(*types.Slice); isSl {
							switch a := x.Addr.(type) {
							case *ssa.FieldAddr:
								// a field of a struct value built in the loop (composite literal) or of an element
								kept = append(kept, keep{x.Val, x.Pos()})
								_ = a
							case *ssa.IndexAddr:
								kept = append(kept, keep{x.Val, x.Pos()})
							}
						}
					}
				}
			}
			if len(kept) == 0 {
				continue
			}
			n++
			key := fmt.Sprintf("%s:loop@%s", SSAFuncName(f), srcOf(f, firstPos(l.header.Succs[0]), "loop", "loop"))
			if loopSeen[key] > 0 {
				key += fmt.Sprintf("#%d", loopSeen[key]+1)
			}
			loopSeen[strings.SplitN(key, "#", 2)[0]]++
			var badPos token.Pos
			for _, k := range kept {
				for root := range roots(k.v) {
					if phi, ok := root.(*ssa.Phi); ok && phi.Block() == l.header && written[root] {
						badPos = k.pos
					}
				}
			}
			if badPos.IsValid() {
				r.Bad("L-LOOPALIAS", key, c.Pos(badPos), "the slice kept here shares storage with a buffer that is carried round the loop and written again in later iterations: all kept elements end up with the bytes of the last one")
			} else {
				r.OK("L-LOOPALIAS", key, c.Pos(kept[0].pos), fmt.Sprintf("%d slices kept beyond the iteration, none aliases a buffer rewritten in later iterations", len(kept)))
			}
		}
	}
	return n
}

// ruleNilMapUpdate (G-NILMAP): an assignment m[k] = v panics when m is nil. For every map update in scope the map
// value is traced back through phis: it must not be able to be the nil constant (the zero value of a `var m map…`
// that some path leaves unassigned), unless a dominating test shows it non-nil. Maps from make, literals,
// parameters, fields and calls are taken as they come (other rules, or the caller, own those).
func ruleNilMapUpdate(c *Ctx, r *Report, scope func(*ssa.Function) bool) int {
	n := 0
	for _, f := range libFuncs(c, scope) {
		if f.Name() == "init" || strings.HasPrefix(f.Name(), "init#") {
			continue // map literals of package-level variables
		}
		idx := 0
		for _, b := range f.Blocks {
			for _, ins := range b.Instrs {
				mu, ok := ins.(*ssa.MapUpdate)
				if !ok {
					continue
				}
				n++
				idx++
				key := fmt.Sprintf("%s:map-update#%d", SSAFuncName(f), idx)
				seen := map[ssa.Value]bool{}
				var mayNil func(v ssa.Value, d int) bool
				mayNil = func(v ssa.Value, d int) bool {
					if d > 10 || seen[v] {
						return false
					}
					seen[v] = true
					switch x := v.(type) {
					case *ssa.Const:
						return x.IsNil()
					case *ssa.Phi:
						for _, e := range x.Edges {
							if mayNil(e, d+1) {
								return true
							}
						}
					case *ssa.ChangeType:
						return mayNil(x.X, d+1)
					case *ssa.UnOp:
						if x.Op == token.MUL {
							if al, ok := x.X.(*ssa.Alloc); ok {
								// a local variable whose address is taken: every store must be non-nil and one must dominate
								dom := false
								for _, ref := range *al.Referrers() {
									if st, ok := ref.(*ssa.Store); ok && st.Addr == al {
										if mayNil(st.Val, d+1) {
											return true
										}
										if insBefore(st, x) {
											dom = true
										}
									}
								}
								return !dom
							}
						}
					}
					return false
				}
				if !mayNil(mu.Map, 0) {
					r.OK("G-NILMAP", key, c.Pos(mu.Pos()), "the map cannot be the nil constant here")
					continue
				}
				guarded := hasDominatingTest(mu.Map, b, func(cond ssa.Value, truth bool) bool {
					bo, ok := cond.(*ssa.BinOp)
					if !ok || (bo.Op != token.NEQ && bo.Op != token.EQL) {
						return false
					}
					var other ssa.Value
					if bo.X == mu.Map {
						other = bo.Y
					} else if bo.Y == mu.Map {
						other = bo.X
					} else {
						return false
					}
					cv, isC := other.(*ssa.Const)
					if !isC || !cv.IsNil() {
						return false
					}
					return (bo.Op == token.NEQ) == truth
				})
				if guarded {
					r.OK("G-NILMAP", key, c.Pos(mu.Pos()), "a dominating test shows the map non-nil")
				} else {
					r.Bad("G-NILMAP", key, c.Pos(mu.Pos()), "the map assigned to may still be the nil zero value of its variable on some path: assignment to entry in nil map")
				}
			}
		}
	}
	return n
}

// ruleSEIMoreData (O-MORE): in sei.ExtractSEIData no further message is started without asking MoreRbspData: every
// cycle of the message loop passes the call. A `continue` that goes round it reads the RBSP trailing bits as the
// header of another message.
func ruleSEIMoreData(c *Ctx, r *Report) {
	f := c.ssaFunc(r, "O-MORE", "sei", "ExtractSEIData")
	if f == nil {
		return
	}
	key := "sei.ExtractSEIData:more-data-before-next-message"
	calls := callsIn(f, "EBSPReader.MoreRbspData", false)
	if len(calls) == 0 {
		r.Undecided("O-MORE", key, c.Pos(f.Pos()), "no call of MoreRbspData found")
		return
	}
	isCall := map[*ssa.BasicBlock]bool{}
	for _, k := range calls {
		isCall[k.Block()] = true
	}
	var outer *loopInfo
	for _, l := range naturalLoops(f) {
		if l.blocks[calls[0].Block()] && (outer == nil || len(l.blocks) > len(outer.blocks)) {
			outer = l
		}
	}
	if outer == nil {
		r.Undecided("O-MORE", key, c.Pos(f.Pos()), "the call of MoreRbspData is not inside a loop")
		return
	}
	// a cycle through the header that avoids the call blocks?
	seen := map[*ssa.BasicBlock]bool{}
	stack := []*ssa.BasicBlock{}
	for _, s := range outer.header.Succs {
		if outer.blocks[s] {
			stack = append(stack, s)
		}
	}
	var via *ssa.BasicBlock
	for len(stack) > 0 && via == nil {
		x := stack[len(stack)-1]
		stack = stack[:len(stack)-1]
		if seen[x] || isCall[x] || !outer.blocks[x] {
			continue
		}
		seen[x] = true
		for _, s := range x.Succs {
			if s == outer.header {
				via = x
				break
			}
			stack = append(stack, s)
		}
	}
	if isCall[outer.header] {
		via = nil
	}
	if via != nil {
		r.Bad("O-MORE", key, c.Pos(firstPos(via)), "the message loop can start another message without having asked MoreRbspData (a path back to the loop head goes round the call): the trailing bits are parsed as a message header")
	} else {
		r.OK("O-MORE", key, c.Pos(calls[0].Pos()), "every cycle of the message loop passes the MoreRbspData call")
	}
}

// ruleAppendToParam (O-APPENDPARAM): `append(p, …)` on a slice the caller handed in writes into the caller's backing
// array whenever it has spare capacity (p = blob[:8] of a larger key-material buffer): bytes the caller still owns
// are overwritten and the result may alias them. An exported library function appends to a slice parameter only
// when the parameter is the accumulator of an append-style API: the appended slice (or the struct it is stored in
// by a method whose receiver owns it) is what the function is for. Everything else copies first.
func ruleAppendToParam(c *Ctx, r *Report, scope func(*ssa.Function) bool, allowed map[string]string) int {
	n := 0
	for _, f := range libFuncs(c, scope) {
		if f.Object() == nil || !f.Object().Exported() || f.Parent() != nil {
			continue
		}
		idx := 0
		for _, b := range f.Blocks {
			for _, ins := range b.Instrs {
				call, ok := ins.(*ssa.Call)
				if !ok {
					continue
				}
				bi, ok := call.Call.Value.(*ssa.Builtin)
				if !ok || bi.Name() != "append" || len(call.Call.Args) != 2 {
					continue
				}
				// first argument: a parameter, or a slice / phi of one
				var par *ssa.Parameter
				seen := map[ssa.Value]bool{}
				var walk func(v ssa.Value, d int)
				walk = func(v ssa.Value, d int) {
					if d > 5 || seen[v] || par != nil {
						return
					}
					seen[v] = true
					switch x := v.(type) {
					case *ssa.Parameter:
						if _, isSl := x.Type().Underlying().(*types.Slice); isSl {
							par = x
						}
					case *ssa.Slice:
						walk(x.X, d+1)
					case *ssa.Phi:
						for _, e := range x.Edges {
							walk(e, d+1)
						}
					}
				}
				walk(call.Call.Args[0], 0)
				if par == nil {
					continue
				}
				// receiver parameters of methods are the object's own state, not a caller's buffer
				if f.Signature.Recv() != nil && len(f.Params) > 0 && par == f.Params[0] {
					continue
				}
				n++
				idx++
				key := fmt.Sprintf("%s:append(%s, …)#%d", SSAFuncName(f), par.Name(), idx)
				if why, ok := allowed[SSAFuncName(f)]; ok {
					r.OK("O-APPENDPARAM", key, c.Pos(call.Pos()), "accepted: "+why)
					continue
				}
				r.Bad("O-APPENDPARAM", key, c.Pos(call.Pos()), fmt.Sprintf("appends to the caller's slice %s: with spare capacity the caller's backing array is written behind the slice and the result aliases it", par.Name()))
			}
		}
	}
	return n
}

// libPrefix: functions of the library packages (not cmd/, examples/).
func libPrefix(f *ssa.Function) bool {
	n := SSAFuncName(f)
	return !strings.HasPrefix(n, "cmd/") && !strings.HasPrefix(n, "examples/") && !strings.HasPrefix(n, "internal")
}

// appendParamAllowed: exported functions whose contract is to extend the slice they are given.
var appendParamAllowed = map[string]string{
	"mp4.AppendProtectRange": "append-style API: the extended sub-sample list is the result, callers pass their own accumulator",
}

// ruleCropOffsetShift (DEP): in mp4ff-crop's updateChunkOffsets every chunk offset written depends on the parameter
// that carries the first kept chunk's input offset: fillTrakOutsAndByteRanges lays the kept bytes out from that
// offset, so the shift applied to stco/co64 must be computed from the same quantity.
func ruleCropOffsetShift(c *Ctx, r *Report) {
	f := c.ssaFunc(r, "DEP", "cmd/mp4ff-crop", "updateChunkOffsets")
	if f == nil {
		return
	}
	key := "cmd/mp4ff-crop.updateChunkOffsets:shift-from-first-kept-chunk"
	n := 0
	for _, b := range f.Blocks {
		for _, ins := range b.Instrs {
			st, ok := ins.(*ssa.Store)
			if !ok {
				continue
			}
			ia, ok := st.Addr.(*ssa.IndexAddr)
			if !ok || !isDirectFieldLoad(ia.X, "StcoBox.ChunkOffset") && !isDirectFieldLoad(ia.X, "Co64Box.ChunkOffset") {
				continue
			}
			n++
			requireDeps(c, r, "DEP", fmt.Sprintf("%s#%d", key, n), c.Pos(st.Pos()), st.Val, []string{"param:firstOffset"}, nil, "chunk offset written by the crop tool")
		}
	}
	if n == 0 {
		r.Undecided("DEP", key, c.Pos(f.Pos()), "no store into StcoBox.ChunkOffset / Co64Box.ChunkOffset found")
	}
}

// ruleEncryptSameIV (DEP): in mp4ff-encrypt's encryptFile the IV handed to every EncryptFragment call is the value
// handed to InitProtect: for cbcs the decryptor only knows the constant IV announced in tenc, so a tool that steps
// the IV between fragments produces fragments nobody can decrypt.
func ruleEncryptSameIV(c *Ctx, r *Report) {
	f := c.ssaFunc(r, "DEP", "cmd/mp4ff-encrypt", "encryptFile")
	if f == nil {
		return
	}
	key := "cmd/mp4ff-encrypt.encryptFile:fragment-iv-is-init-iv"
	inits := callsIn(f, "mp4.InitProtect", false)
	frags := callsIn(f, "mp4.EncryptFragment", false)
	if len(inits) == 0 || len(frags) == 0 {
		r.Undecided("DEP", key, c.Pos(f.Pos()), "calls of InitProtect / EncryptFragment not found")
		return
	}
	ivOf := func(ci ssa.CallInstruction) ssa.Value {
		a := ci.Common().Args
		if len(a) < 3 {
			return nil
		}
		return a[2]
	}
	bad := ""
	for _, fr := range frags {
		for _, in := range inits {
			if ivOf(fr) == nil || ivOf(in) == nil || !(ivOf(fr) == ivOf(in) || sameValue(ivOf(fr), ivOf(in))) {
				bad = fmt.Sprintf("the IV passed to EncryptFragment at %s is not the value passed to InitProtect (it is recomputed or carried round the loop)", c.Pos(fr.Pos()))
			}
		}
	}
	if bad != "" {
		r.Bad("DEP", key, c.Pos(f.Pos()), bad)
	} else {
		r.OK("DEP", key, c.Pos(frags[0].Pos()), "every fragment is encrypted with the IV value InitProtect was given")
	}
}

// ruleTerminatorFlag (DEP): bits.FixedSliceWriter.WriteString writes the terminating zero byte under a test of its
// flag parameter itself (not of a value recomputed from the string): Size() of every box with zero-terminated
// strings counts len(s)+1 whatever the string ends in.
func ruleTerminatorFlag(c *Ctx, r *Report) {
	f := c.ssaFunc(r, "DEP", "bits", "FixedSliceWriter.WriteString")
	if f == nil {
		return
	}
	key := "bits.FixedSliceWriter.WriteString:terminator-under-flag-only"
	var flag *ssa.Parameter
	for _, p := range f.Params {
		if bt, ok := p.Type().Underlying().(*types.Basic); ok && bt.Kind() == types.Bool {
			flag = p
		}
	}
	if flag == nil {
		r.Undecided("DEP", key, c.Pos(f.Pos()), "no bool parameter")
		return
	}
	n := 0
	bad := ""
	for _, b := range f.Blocks {
		if len(b.Instrs) == 0 {
			continue
		}
		ifi, ok := b.Instrs[len(b.Instrs)-1].(*ssa.If)
		if !ok {
			continue
		}
		// conditions that depend on the flag must be the flag
		dep := false
		for k := range backSlice(c, ifi.Cond, 0) {
			if k.kind == "param" && k.name == flag.Name() {
				dep = true
			}
		}
		if !dep {
			continue
		}
		n++
		if ifi.Cond != ssa.Value(flag) {
			bad = fmt.Sprintf("the test at %s depends on the flag but is not the flag itself: whether the terminator is written also depends on something else", c.Pos(ifi.Pos()))
		}
	}
	// and the zero store is controlled by the flag
	ctl := false
	for _, b := range f.Blocks {
		for _, ins := range b.Instrs {
			st, ok := ins.(*ssa.Store)
			if !ok {
				continue
			}
			if _, isIA := st.Addr.(*ssa.IndexAddr); !isIA {
				continue
			}
			if cv, ok := st.Val.(*ssa.Const); !ok || cv.Value == nil || cv.Value.ExactString() != "0" {
				continue
			}
			for _, cond := range controlConds(b) {
				if cond == ssa.Value(flag) {
					ctl = true
				}
			}
		}
	}
	switch {
	case n == 0 || !ctl:
		r.Bad("DEP", key, c.Pos(f.Pos()), "the store of the terminating zero byte is not controlled by a test of the flag parameter itself")
	case bad != "":
		r.Bad("DEP", key, c.Pos(f.Pos()), bad)
	default:
		r.OK("DEP", key, c.Pos(f.Pos()), fmt.Sprintf("%d tests of the flag parameter itself decide the terminating zero byte", n))
	}
}

// ruleStartPosFromInput (O-POS): in DecodeFile and DecodeFileSR the start position handed to the next box decoder
// (and recorded in the box, the fragment and the segment) is derived from where the input is (the slice reader's
// position, the ReadSeeker's position, the count of bytes read), never from Box.Size(): Size() is the size the box
// will have when written, which differs from the size read for a small box with a 16-byte header and for every
// box the decoder normalises, and every later start position would drift by the difference.
func ruleStartPosFromInput(c *Ctx, r *Report) int {
	n := 0
	for _, spec := range []struct{ fn, callee string }{{"DecodeFile", "mp4.DecodeBox"}, {"DecodeFile", "mp4.DecodeBoxLazyMdat"}, {"DecodeFileSR", "mp4.DecodeBoxSR"}} {
		f := c.ssaFunc(r, "O-POS", "mp4", spec.fn)
		if f == nil {
			continue
		}
		for _, call := range callsIn(f, spec.callee, false) {
			if !strings.HasSuffix(calleeName(call.Common()), spec.callee) {
				continue
			}
			n++
			key := fmt.Sprintf("mp4.%s:start-position-of-%s", spec.fn, strings.TrimPrefix(spec.callee, "mp4."))
			pos := call.Common().Args[0]
			sl := backSlice(c, pos, 2)
			usesSize := false
			fromInput := false
			for k := range sl {
				if k.kind == "call" && (strings.HasSuffix(k.name, ".Size") || k.name == "Size") {
					usesSize = true
				}
				if k.kind == "call" && (strings.HasSuffix(k.name, "GetPos") || strings.HasSuffix(k.name, "Seek")) {
					fromInput = true
				}
				if k.kind == "field" && strings.Contains(k.name, "countingReader") {
					fromInput = true
				}
			}
			switch {
			case usesSize:
				r.Bad("O-POS", key, c.Pos(call.Pos()), "the start position depends on Box.Size(), the re-calculated size: after a box whose written size differs from its read size (16-byte header on a small box) every later start position is off")
			case !fromInput:
				r.Undecided("O-POS", key, c.Pos(call.Pos()), "the start position depends neither on Size() nor on a recognised input position (GetPos, Seek, bytes counted): "+sliceNames(sl))
			default:
				r.OK("O-POS", key, c.Pos(call.Pos()), "the start position follows the input position")
			}
		}
	}
	return n
}

package chk

import (
	"fmt"
	"go/token"
	"go/types"
	"strings"

	"golang.org/x/tools/go/ssa"
)

// insBefore: a executes before b on every path that reaches b through a (same block: earlier; else a's block
// strictly dominates b's block).
func insBefore(a, b ssa.Instruction) bool {
	if a.Block() == b.Block() {
		ia, ib := -1, -1
		for i, ins := range a.Block().Instrs {
			if ins == a {
				ia = i
			}
			if ins == b {
				ib = i
			}
		}
		return ia >= 0 && ib >= 0 && ia < ib
	}
	return a.Block().Dominates(b.Block())
}

// ruleAppendAlias (L-APPENDALIAS): `append(x[:k], v…)` writes into the backing array of x behind position k. A slice
// of the tail of the same x (x[j:], taken from x as it was before the append was stored back) whose elements are read
// after that append sees the overwritten elements: the classic broken insertion
//
//	rest := x[k:]; x = append(x[:k], v); x = append(x, rest...)        (rest[0] is v by now)
//
// and its one-line form append(append(x[:k], v), x[k:]...). The overlapping-copy insertion
// `x = append(x[:k+1], x[k:]...); x[k] = v` and the deletion `append(x[:i], x[i+1:]...)` read the tail in the same
// append that writes (memmove semantics) and are not reported.
func ruleAppendAlias(c *Ctx, r *Report, scope func(*ssa.Function) bool) int {
	n := 0
	for _, f := range libFuncs(c, scope) {
		var appends []*ssa.Call
		var tails []*ssa.Slice
		for _, b := range f.Blocks {
			for _, ins := range b.Instrs {
				switch x := ins.(type) {
				case *ssa.Call:
					if bi, ok := x.Call.Value.(*ssa.Builtin); ok && bi.Name() == "append" && len(x.Call.Args) == 2 {
						if s0, ok := x.Call.Args[0].(*ssa.Slice); ok && s0.High != nil {
							if _, isSl := s0.X.Type().Underlying().(*types.Slice); isSl {
								appends = append(appends, x)
							}
						}
					}
				case *ssa.Slice:
					if x.Low != nil {
						if _, isSl := x.X.Type().Underlying().(*types.Slice); isSl {
							tails = append(tails, x)
						}
					}
				}
			}
		}
		for _, a := range appends {
			n++
			s0 := a.Call.Args[0].(*ssa.Slice)
			key := fmt.Sprintf("%s:%s", SSAFuncName(f), srcOf(f, a.Pos(), "call", "append(x[:k], …)"))
			bad := ""
			for _, t := range tails {
				if !sameBaseBefore(f, s0.X, t.X, a) {
					continue
				}
				// a read of t's elements after a, other than by a itself
				for _, ref := range *t.Referrers() {
					ri, ok := ref.(ssa.Instruction)
					if !ok || ri == ssa.Instruction(a) {
						continue
					}
					if _, isDbg := ri.(*ssa.DebugRef); isDbg {
						continue
					}
					if insBefore(a, ri) {
						bad = fmt.Sprintf("the tail %s of the same slice is read at %s after this append has written behind position k: its first element is already overwritten", srcOf(f, t.Pos(), "slice", "x[j:]"), c.Pos(ri.Pos()))
					}
				}
			}
			if bad != "" {
				r.Bad("L-APPENDALIAS", key, c.Pos(a.Pos()), bad)
			} else {
				r.OK("L-APPENDALIAS", key, c.Pos(a.Pos()), "no tail of the truncated slice is read after the append")
			}
		}
	}
	return n
}

// sameBaseBefore: x0 and x1 denote the same slice header as it was before append a's result was stored back:
// the same SSA value, or two loads of the same address with no store to that address after a and before the second load.
func sameBaseBefore(f *ssa.Function, x0, x1 ssa.Value, a *ssa.Call) bool {
	if x0 == x1 {
		return true
	}
	l0, ok0 := x0.(*ssa.UnOp)
	l1, ok1 := x1.(*ssa.UnOp)
	if !ok0 || !ok1 || l0.Op != token.MUL || l1.Op != token.MUL || !sameAddr(l0.X, l1.X) {
		return false
	}
	for _, b := range f.Blocks {
		for _, ins := range b.Instrs {
			st, ok := ins.(*ssa.Store)
			if !ok || !sameAddr(st.Addr, l0.X) {
				continue
			}
			// a store between the append and the second load gives the second load a new header
			if insBefore(a, st) && insBefore(st, l1) {
				return false
			}
		}
	}
	return true
}

// ruleShortRead (L-SHORTREAD): a direct Read on an io.Reader / io.ReadSeeker value returns as soon as some bytes
// are there; outside a loop that continues until the wanted amount has arrived, the rest of the range is silently
// missing (files and bytes.Reader fill the buffer, network and block readers do not). Every direct Read call in
// the library is inside a loop; whole-buffer reads go through io.ReadFull / io.CopyN / io.ReadAll.
func ruleShortRead(c *Ctx, r *Report, scope func(*ssa.Function) bool) int {
	n := 0
	for _, f := range libFuncs(c, scope) {
		inLoop := map[*ssa.BasicBlock]bool{}
		for _, l := range naturalLoops(f) {
			for b := range l.blocks {
				inLoop[b] = true
			}
		}
		for _, b := range f.Blocks {
			for _, ins := range b.Instrs {
				call, ok := ins.(*ssa.Call)
				if !ok || !call.Call.IsInvoke() || call.Call.Method.Name() != "Read" || len(call.Call.Args) != 1 {
					continue
				}
				ts := call.Call.Value.Type().String()
				if !strings.HasPrefix(ts, "io.") {
					continue
				}
				// a Read method that forwards its own buffer is itself an io.Reader (an adapter): passing a short
				// read on to its caller is the contract, not a defect
				if f.Name() == "Read" && f.Signature.Recv() != nil && len(f.Params) == 2 && call.Call.Args[0] == ssa.Value(f.Params[1]) {
					continue
				}
				n++
				key := fmt.Sprintf("%s:%s.Read", SSAFuncName(f), ts)
				// the byte count must be looked at: a Read may deliver bytes together with an error (io.EOF with the last
				// byte), and may deliver none without one
				countUsed := false
				if call.Referrers() != nil {
					for _, ref := range *call.Referrers() {
						if ex, ok := ref.(*ssa.Extract); ok && ex.Index == 0 && ex.Referrers() != nil && len(*ex.Referrers()) > 0 {
							countUsed = true
						}
					}
				}
				if !countUsed {
					r.Bad("L-SHORTREAD", key, c.Pos(call.Pos()), "the byte count of a direct Read is discarded: a byte delivered together with io.EOF is lost, and a read of zero bytes without error is taken for data")
				} else if inLoop[b] {
					r.OK("L-SHORTREAD", key, c.Pos(call.Pos()), "the direct Read is inside a loop")
				} else {
					r.Bad("L-SHORTREAD", key, c.Pos(call.Pos()), "a single direct Read outside any loop: a reader that returns fewer bytes than asked for (allowed by io.Reader) leaves the rest of the range unread")
				}
			}
		}
	}
	return n
}

func init() {
	Registry["WLINT2"] = func(c *Ctx, r *Report) {
		fmt.Println("append-truncate sites", ruleAppendAlias(c, r, nil))
		fmt.Println("direct reads", ruleShortRead(c, r, nil))
		fmt.Println("kept slices in loops", ruleLoopBufferAlias(c, r, nil))
		fmt.Println("map updates", ruleNilMapUpdate(c, r, nil))
		fmt.Println("global refs stored", ruleGlobalShared(c, r, libPrefix, nil))
		fmt.Println("x[:0] refills", ruleReuseFieldStorage(c, r, nil))
		fmt.Println("quotients multiplied", ruleDivBeforeMul(c, r, nil))
		fmt.Println("down-counting indices", ruleG3D(c, r, nil))
		fmt.Println("sums in bounds tests", ruleGOVF(c, r, nil))
		fmt.Println("unsigned differences", ruleNegConv(c, r, nil))
		fmt.Println("methods on copies", ruleCopyMutated(c, r, nil))
		fmt.Println("struct overwrites", ruleStructOverwrite(c, r, nil))
		fmt.Println("appends to params", ruleAppendToParam(c, r, libPrefix, nil))
		for _, o := range r.Obls {
			fmt.Println(o.Status, o.Key, o.Pos, o.Detail)
		}
		fc, err := loadFixture()
		fmt.Println("fixture", err)
		if fc != nil {
			r2 := NewReport("f")
			ruleAppendAlias(fc, r2, nil)
			ruleLoopBufferAlias(fc, r2, nil)
			ruleNilMapUpdate(fc, r2, nil)
			ruleGOVF(fc, r2, nil)
			for _, o := range r2.Obls {
				fmt.Println("FIXTURE", o.Status, o.Key)
			}
		}
	}
}

// impureObserverFields: the field each accepted impure observer (impureObservers) may change.
var impureObserverFields = map[string]string{"mp4.MdatBox.Size": "LargeSize", "mp4.SencBox.Info": "Flags"}

// ruleStaleAcrossObserver (R3-OBS-STALE): the two observers accepted as impure change one field of their receiver
// (MdatBox.Size may switch LargeSize on; SencBox.Info may OR a flag in). A function that calls one of them does not
// use, after the call, a value of that field it loaded from the same receiver before the call: the header form
// written must be the one Size() has just decided.
func ruleStaleAcrossObserver(c *Ctx, r *Report) int {
	n := 0
	for _, f := range libFuncs(c, func(f *ssa.Function) bool { return strings.HasPrefix(SSAFuncName(f), "mp4.") }) {
		idx := 0
		for _, b := range f.Blocks {
			for _, ins := range b.Instrs {
				call, ok := ins.(*ssa.Call)
				if !ok {
					continue
				}
				cal := call.Call.StaticCallee()
				if cal == nil || len(call.Call.Args) == 0 {
					continue
				}
				fld, ok := impureObserverFields[SSAFuncName(cal)]
				if !ok {
					continue
				}
				recv := call.Call.Args[0]
				n++
				idx++
				key := fmt.Sprintf("%s:%s#%d", SSAFuncName(f), SSAFuncName(cal), idx)
				bad := ""
				for _, b2 := range f.Blocks {
					for _, i2 := range b2.Instrs {
						ld, ok := i2.(*ssa.UnOp)
						if !ok || ld.Op != token.MUL {
							continue
						}
						fa, ok := ld.X.(*ssa.FieldAddr)
						if !ok || fieldNameOf(fa) != fld || !(fa.X == recv || sameValue(fa.X, recv)) {
							continue
						}
						if !insBefore(ld, call) || ld.Referrers() == nil {
							continue
						}
						for _, ref := range *ld.Referrers() {
							if _, isDbg := ref.(*ssa.DebugRef); isDbg {
								continue
							}
							if insBefore(call, ref) {
								bad = fmt.Sprintf("%s is loaded at %s before the call and that value is used at %s after it: the observer may have changed the field in between", fld, c.Pos(ld.Pos()), c.Pos(ref.Pos()))
							}
						}
					}
				}
				if bad != "" {
					r.Bad("R3-OBS-STALE", key, c.Pos(call.Pos()), bad)
				} else {
					r.OK("R3-OBS-STALE", key, c.Pos(call.Pos()), "no value of "+fld+" loaded before the call is used after it")
				}
			}
		}
	}
	return n
}

// ruleLoopBufferAlias (L-LOOPALIAS): inside a loop, a slice that is kept beyond the iteration (stored into a field of
// a struct value / an element, or appended as an element) does not share storage with a buffer that is carried
// round the loop (a loop-header phi) and written again in a later iteration (io.ReadFull, Read, copy, element
// stores). Otherwise every kept element ends up showing the bytes of the last iteration. A cursor that advances
// over stable input (data = data[n:]) is carried too but never written, and is not reported.
func ruleLoopBufferAlias(c *Ctx, r *Report, scope func(*ssa.Function) bool) int {
	n := 0
	for _, f := range libFuncs(c, scope) {
		loopSeen := map[string]int{}
		for _, l := range naturalLoops(f) {
			roots := func(v ssa.Value) map[ssa.Value]bool {
				out := map[ssa.Value]bool{}
				seen := map[ssa.Value]bool{}
				var walk func(x ssa.Value, d int)
				walk = func(x ssa.Value, d int) {
					if d > 8 || seen[x] {
						return
					}
					seen[x] = true
					switch t := x.(type) {
					case *ssa.Slice:
						walk(t.X, d+1)
					case *ssa.ChangeType:
						walk(t.X, d+1)
					case *ssa.Phi:
						if t.Block() == l.header {
							out[t] = true
						}
						for _, e := range t.Edges {
							walk(e, d+1)
						}
					case *ssa.MakeSlice:
						out[t] = true
					}
				}
				walk(v, 0)
				return out
			}
			// storage written inside the loop
			written := map[ssa.Value]bool{}
			mark := func(v ssa.Value) {
				for k := range roots(v) {
					written[k] = true
				}
			}
			type keep struct {
				v   ssa.Value
				pos token.Pos
			}
			var kept []keep
			for _, b := range f.Blocks {
				if !l.blocks[b] {
					continue
				}
				for _, ins := range b.Instrs {
					switch x := ins.(type) {
					case *ssa.Call:
						cc := x.Common()
						if bi, ok := cc.Value.(*ssa.Builtin); ok {
							switch bi.Name() {
							case "copy":
								mark(cc.Args[0])
							case "append":
								// elements appended to a slice of slices are kept
								if len(cc.Args) == 2 {
									if st, ok := cc.Args[0].Type().Underlying().(*types.Slice); ok {
										if _, inner := st.Elem().Underlying().(*types.Slice); inner {
											if sl, ok := cc.Args[1].(*ssa.Slice); ok {
												if al, ok := sl.X.(*ssa.Alloc); ok {
													for _, ref := range *al.Referrers() {
														if ia, ok := ref.(*ssa.IndexAddr); ok {
															for _, r2 := range *ia.Referrers() {
																if s2, ok := r2.(*ssa.Store); ok && s2.Addr == ia {
																	kept = append(kept, keep{s2.Val, x.Pos()})
																}
															}
														}
													}
												}
											}
										}
									}
								}
							}
							continue
						}
						name := calleeName(cc)
						if cc.IsInvoke() && cc.Method.Name() == "Read" && len(cc.Args) == 1 {
							mark(cc.Args[0])
						}
						if strings.HasSuffix(name, "io.ReadFull") || strings.HasSuffix(name, "io.ReadAtLeast") {
							if len(cc.Args) >= 2 {
								mark(cc.Args[1])
							}
						}
					case *ssa.Store:
						if ia, ok := x.Addr.(*ssa.IndexAddr); ok {
							if _, isSl := ia.X.Type().Underlying().(*types.Slice); isSl {
								mark(ia.X)
							}
						}
						if _, isSl := x.Val.Type().Underlying().(*types.Slice); isSl {
							switch a := x.Addr.(type) {
							case *ssa.FieldAddr:
								// a field of a struct value built in the loop (composite literal) or of an element
								kept = append(kept, keep{x.Val, x.Pos()})
								_ = a
							case *ssa.IndexAddr:
								kept = append(kept, keep{x.Val, x.Pos()})
							}
						}
					}
				}
			}
			if len(kept) == 0 {
				continue
			}
			n++
			key := fmt.Sprintf("%s:loop@%s", SSAFuncName(f), srcOf(f, firstPos(l.header.Succs[0]), "loop", "loop"))
			if loopSeen[key] > 0 {
				key += fmt.Sprintf("#%d", loopSeen[key]+1)
			}
			loopSeen[strings.SplitN(key, "#", 2)[0]]++
			var badPos token.Pos
			for _, k := range kept {
				for root := range roots(k.v) {
					if phi, ok := root.(*ssa.Phi); ok && phi.Block() == l.header && written[root] {
						badPos = k.pos
					}
				}
			}
			if badPos.IsValid() {
				r.Bad("L-LOOPALIAS", key, c.Pos(badPos), "the slice kept here shares storage with a buffer that is carried round the loop and written again in later iterations: all kept elements end up with the bytes of the last one")
			} else {
				r.OK("L-LOOPALIAS", key, c.Pos(kept[0].pos), fmt.Sprintf("%d slices kept beyond the iteration, none aliases a buffer rewritten in later iterations", len(kept)))
			}
		}
	}
	return n
}

// ruleNilMapUpdate (G-NILMAP): an assignment m[k] = v panics when m is nil. For every map update in scope the map
// value is traced back through phis: it must not be able to be the nil constant (the zero value of a `var m map…`
// that some path leaves unassigned), unless a dominating test shows it non-nil. Maps from make, literals,
// parameters, fields and calls are taken as they come (other rules, or the caller, own those).
func ruleNilMapUpdate(c *Ctx, r *Report, scope func(*ssa.Function) bool) int {
	n := 0
	for _, f := range libFuncs(c, scope) {
		if f.Name() == "init" || strings.HasPrefix(f.Name(), "init#") {
			continue // map literals of package-level variables
		}
		idx := 0
		for _, b := range f.Blocks {
			for _, ins := range b.Instrs {
				mu, ok := ins.(*ssa.MapUpdate)
				if !ok {
					continue
				}
				n++
				idx++
				key := fmt.Sprintf("%s:map-update#%d", SSAFuncName(f), idx)
				seen := map[ssa.Value]bool{}
				var mayNil func(v ssa.Value, d int) bool
				mayNil = func(v ssa.Value, d int) bool {
					if d > 10 || seen[v] {
						return false
					}
					seen[v] = true
					switch x := v.(type) {
					case *ssa.Const:
						return x.IsNil()
					case *ssa.Phi:
						for _, e := range x.Edges {
							if mayNil(e, d+1) {
								return true
							}
						}
					case *ssa.ChangeType:
						return mayNil(x.X, d+1)
					case *ssa.UnOp:
						if x.Op == token.MUL {
							if al, ok := x.X.(*ssa.Alloc); ok {
								// a local variable whose address is taken: every store must be non-nil and one must dominate
								dom := false
								for _, ref := range *al.Referrers() {
									if st, ok := ref.(*ssa.Store); ok && st.Addr == al {
										if mayNil(st.Val, d+1) {
											return true
										}
										if insBefore(st, x) {
											dom = true
										}
									}
								}
								return !dom
							}
						}
					}
					return false
				}
				if !mayNil(mu.Map, 0) {
					r.OK("G-NILMAP", key, c.Pos(mu.Pos()), "the map cannot be the nil constant here")
					continue
				}
				guarded := hasDominatingTest(mu.Map, b, func(cond ssa.Value, truth bool) bool {
					bo, ok := cond.(*ssa.BinOp)
					if !ok || (bo.Op != token.NEQ && bo.Op != token.EQL) {
						return false
					}
					var other ssa.Value
					if bo.X == mu.Map {
						other = bo.Y
					} else if bo.Y == mu.Map {
						other = bo.X
					} else {
						return false
					}
					cv, isC := other.(*ssa.Const)
					if !isC || !cv.IsNil() {
						return false
					}
					return (bo.Op == token.NEQ) == truth
				})
				if guarded {
					r.OK("G-NILMAP", key, c.Pos(mu.Pos()), "a dominating test shows the map non-nil")
				} else {
					r.Bad("G-NILMAP", key, c.Pos(mu.Pos()), "the map assigned to may still be the nil zero value of its variable on some path: assignment to entry in nil map")
				}
			}
		}
	}
	return n
}

// ruleSEIMoreData (O-MORE): in sei.ExtractSEIData no further message is started without asking MoreRbspData: every
// cycle of the message loop passes the call. A `continue` that goes round it reads the RBSP trailing bits as the
// header of another message.
func ruleSEIMoreData(c *Ctx, r *Report) {
	f := c.ssaFunc(r, "O-MORE", "sei", "ExtractSEIData")
	if f == nil {
		return
	}
	key := "sei.ExtractSEIData:more-data-before-next-message"
	calls := callsIn(f, "EBSPReader.MoreRbspData", false)
	if len(calls) == 0 {
		r.Undecided("O-MORE", key, c.Pos(f.Pos()), "no call of MoreRbspData found")
		return
	}
	isCall := map[*ssa.BasicBlock]bool{}
	for _, k := range calls {
		isCall[k.Block()] = true
	}
	var outer *loopInfo
	for _, l := range naturalLoops(f) {
		if l.blocks[calls[0].Block()] && (outer == nil || len(l.blocks) > len(outer.blocks)) {
			outer = l
		}
	}
	if outer == nil {
		r.Undecided("O-MORE", key, c.Pos(f.Pos()), "the call of MoreRbspData is not inside a loop")
		return
	}
	// a cycle through the header that avoids the call blocks?
	seen := map[*ssa.BasicBlock]bool{}
	stack := []*ssa.BasicBlock{}
	for _, s := range outer.header.Succs {
		if outer.blocks[s] {
			stack = append(stack, s)
		}
	}
	var via *ssa.BasicBlock
	for len(stack) > 0 && via == nil {
		x := stack[len(stack)-1]
		stack = stack[:len(stack)-1]
		if seen[x] || isCall[x] || !outer.blocks[x] {
			continue
		}
		seen[x] = true
		for _, s := range x.Succs {
			if s == outer.header {
				via = x
				break
			}
			stack = append(stack, s)
		}
	}
	if isCall[outer.header] {
		via = nil
	}
	if via != nil {
		r.Bad("O-MORE", key, c.Pos(firstPos(via)), "the message loop can start another message without having asked MoreRbspData (a path back to the loop head goes round the call): the trailing bits are parsed as a message header")
	} else {
		r.OK("O-MORE", key, c.Pos(calls[0].Pos()), "every cycle of the message loop passes the MoreRbspData call")
	}
}

// ruleAppendToParam (O-APPENDPARAM): `append(p, …)` on a slice the caller handed in writes into the caller's backing
// array whenever it has spare capacity (p = blob[:8] of a larger key-material buffer): bytes the caller still owns
// are overwritten and the result may alias them. An exported library function appends to a slice parameter only
// when the parameter is the accumulator of an append-style API: the appended slice (or the struct it is stored in
// by a method whose receiver owns it) is what the function is for. Everything else copies first.
func ruleAppendToParam(c *Ctx, r *Report, scope func(*ssa.Function) bool, allowed map[string]string) int {
	n := 0
	for _, f := range libFuncs(c, scope) {
		if f.Object() == nil || !f.Object().Exported() || f.Parent() != nil {
			continue
		}
		idx := 0
		for _, b := range f.Blocks {
			for _, ins := range b.Instrs {
				call, ok := ins.(*ssa.Call)
				if !ok {
					continue
				}
				bi, ok := call.Call.Value.(*ssa.Builtin)
				if !ok || bi.Name() != "append" || len(call.Call.Args) != 2 {
					continue
				}
				// first argument: a parameter, or a slice / phi of one
				var par *ssa.Parameter
				seen := map[ssa.Value]bool{}
				var walk func(v ssa.Value, d int)
				walk = func(v ssa.Value, d int) {
					if d > 5 || seen[v] || par != nil {
						return
					}
					seen[v] = true
					switch x := v.(type) {
					case *ssa.Parameter:
						if _, isSl := x.Type().Underlying().(*types.Slice); isSl {
							par = x
						}
					case *ssa.Slice:
						walk(x.X, d+1)
					case *ssa.Phi:
						for _, e := range x.Edges {
							walk(e, d+1)
						}
					}
				}
				walk(call.Call.Args[0], 0)
				if par == nil {
					continue
				}
				// receiver parameters of methods are the object's own state, not a caller's buffer
				if f.Signature.Recv() != nil && len(f.Params) > 0 && par == f.Params[0] {
					continue
				}
				n++
				idx++
				key := fmt.Sprintf("%s:append(%s, …)#%d", SSAFuncName(f), par.Name(), idx)
				if why, ok := allowed[SSAFuncName(f)]; ok {
					r.OK("O-APPENDPARAM", key, c.Pos(call.Pos()), "accepted: "+why)
					continue
				}
				r.Bad("O-APPENDPARAM", key, c.Pos(call.Pos()), fmt.Sprintf("appends to the caller's slice %s: with spare capacity the caller's backing array is written behind the slice and the result aliases it", par.Name()))
			}
		}
	}
	return n
}

// libPrefix: functions of the library packages (not cmd/, examples/).
func libPrefix(f *ssa.Function) bool {
	n := SSAFuncName(f)
	return !strings.HasPrefix(n, "cmd/") && !strings.HasPrefix(n, "examples/") && !strings.HasPrefix(n, "internal")
}

// appendParamAllowed: exported functions whose contract is to extend the slice they are given.
var appendParamAllowed = map[string]string{
	"mp4.AppendProtectRange": "append-style API: the extended sub-sample list is the result, callers pass their own accumulator",
}

// ruleCropOffsetShift (DEP): in mp4ff-crop's updateChunkOffsets every chunk offset written depends on the parameter
// that carries the first kept chunk's input offset: fillTrakOutsAndByteRanges lays the kept bytes out from that
// offset, so the shift applied to stco/co64 must be computed from the same quantity.
func ruleCropOffsetShift(c *Ctx, r *Report) {
	f := c.ssaFunc(r, "DEP", "cmd/mp4ff-crop", "updateChunkOffsets")
	if f == nil {
		return
	}
	key := "cmd/mp4ff-crop.updateChunkOffsets:shift-from-first-kept-chunk"
	n := 0
	for _, b := range f.Blocks {
		for _, ins := range b.Instrs {
			st, ok := ins.(*ssa.Store)
			if !ok {
				continue
			}
			ia, ok := st.Addr.(*ssa.IndexAddr)
			if !ok || !isDirectFieldLoad(ia.X, "StcoBox.ChunkOffset") && !isDirectFieldLoad(ia.X, "Co64Box.ChunkOffset") {
				continue
			}
			n++
			requireDeps(c, r, "DEP", fmt.Sprintf("%s#%d", key, n), c.Pos(st.Pos()), st.Val, []string{"param:firstOffset"}, nil, "chunk offset written by the crop tool")
		}
	}
	if n == 0 {
		r.Undecided("DEP", key, c.Pos(f.Pos()), "no store into StcoBox.ChunkOffset / Co64Box.ChunkOffset found")
	}
}

// ruleEncryptSameIV (DEP): in mp4ff-encrypt's encryptFile the IV handed to every EncryptFragment call is the value
// handed to InitProtect: for cbcs the decryptor only knows the constant IV announced in tenc, so a tool that steps
// the IV between fragments produces fragments nobody can decrypt.
func ruleEncryptSameIV(c *Ctx, r *Report) {
	f := c.ssaFunc(r, "DEP", "cmd/mp4ff-encrypt", "encryptFile")
	if f == nil {
		return
	}
	key := "cmd/mp4ff-encrypt.encryptFile:fragment-iv-is-init-iv"
	inits := callsIn(f, "mp4.InitProtect", false)
	frags := callsIn(f, "mp4.EncryptFragment", false)
	if len(inits) == 0 || len(frags) == 0 {
		r.Undecided("DEP", key, c.Pos(f.Pos()), "calls of InitProtect / EncryptFragment not found")
		return
	}
	ivOf := func(ci ssa.CallInstruction) ssa.Value {
		a := ci.Common().Args
		if len(a) < 3 {
			return nil
		}
		return a[2]
	}
	bad := ""
	for _, fr := range frags {
		for _, in := range inits {
			if ivOf(fr) == nil || ivOf(in) == nil || !(ivOf(fr) == ivOf(in) || sameValue(ivOf(fr), ivOf(in))) {
				bad = fmt.Sprintf("the IV passed to EncryptFragment at %s is not the value passed to InitProtect (it is recomputed or carried round the loop)", c.Pos(fr.Pos()))
			}
		}
	}
	if bad != "" {
		r.Bad("DEP", key, c.Pos(f.Pos()), bad)
	} else {
		r.OK("DEP", key, c.Pos(frags[0].Pos()), "every fragment is encrypted with the IV value InitProtect was given")
	}
}

// ruleTerminatorFlag (DEP): bits.FixedSliceWriter.WriteString writes the terminating zero byte under a test of its
// flag parameter itself (not of a value recomputed from the string): Size() of every box with zero-terminated
// strings counts len(s)+1 whatever the string ends in.
func ruleTerminatorFlag(c *Ctx, r *Report) {
	f := c.ssaFunc(r, "DEP", "bits", "FixedSliceWriter.WriteString")
	if f == nil {
		return
	}
	key := "bits.FixedSliceWriter.WriteString:terminator-under-flag-only"
	var flag *ssa.Parameter
	for _, p := range f.Params {
		if bt, ok := p.Type().Underlying().(*types.Basic); ok && bt.Kind() == types.Bool {
			flag = p
		}
	}
	if flag == nil {
		r.Undecided("DEP", key, c.Pos(f.Pos()), "no bool parameter")
		return
	}
	n := 0
	bad := ""
	for _, b := range f.Blocks {
		if len(b.Instrs) == 0 {
			continue
		}
		ifi, ok := b.Instrs[len(b.Instrs)-1].(*ssa.If)
		if !ok {
			continue
		}
		// conditions that depend on the flag must be the flag
		dep := false
		for k := range backSlice(c, ifi.Cond, 0) {
			if k.kind == "param" && k.name == flag.Name() {
				dep = true
			}
		}
		if !dep {
			continue
		}
		n++
		if ifi.Cond != ssa.Value(flag) {
			bad = fmt.Sprintf("the test at %s depends on the flag but is not the flag itself: whether the terminator is written also depends on something else", c.Pos(ifi.Pos()))
		}
	}
	// and the zero store is controlled by the flag
	ctl := false
	for _, b := range f.Blocks {
		for _, ins := range b.Instrs {
			st, ok := ins.(*ssa.Store)
			if !ok {
				continue
			}
			if _, isIA := st.Addr.(*ssa.IndexAddr); !isIA {
				continue
			}
			if cv, ok := st.Val.(*ssa.Const); !ok || cv.Value == nil || cv.Value.ExactString() != "0" {
				continue
			}
			for _, cond := range controlConds(b) {
				if cond == ssa.Value(flag) {
					ctl = true
				}
			}
		}
	}
	switch {
	case n == 0 || !ctl:
		r.Bad("DEP", key, c.Pos(f.Pos()), "the store of the terminating zero byte is not controlled by a test of the flag parameter itself")
	case bad != "":
		r.Bad("DEP", key, c.Pos(f.Pos()), bad)
	default:
		r.OK("DEP", key, c.Pos(f.Pos()), fmt.Sprintf("%d tests of the flag parameter itself decide the terminating zero byte", n))
	}
}

// ruleStartPosFromInput (O-POS): in DecodeFile and DecodeFileSR the start position handed to the next box decoder
// (and recorded in the box, the fragment and the segment) is derived from where the input is (the slice reader's
// position, the ReadSeeker's position, the count of bytes read), never from Box.Size(): Size() is the size the box
// will have when written, which differs from the size read for a small box with a 16-byte header and for every
// box the decoder normalises, and every later start position would drift by the difference.
func ruleStartPosFromInput(c *Ctx, r *Report) int {
	n := 0
	for _, spec := range []struct{ fn, callee string }{{"DecodeFile", "mp4.DecodeBox"}, {"DecodeFile", "mp4.DecodeBoxLazyMdat"}, {"DecodeFileSR", "mp4.DecodeBoxSR"}} {
		f := c.ssaFunc(r, "O-POS", "mp4", spec.fn)
		if f == nil {
			continue
		}
		for _, call := range callsIn(f, spec.callee, false) {
			if !strings.HasSuffix(calleeName(call.Common()), spec.callee) {
				continue
			}
			n++
			key := fmt.Sprintf("mp4.%s:start-position-of-%s", spec.fn, strings.TrimPrefix(spec.callee, "mp4."))
			pos := call.Common().Args[0]
			sl := backSlice(c, pos, 2)
			usesSize := false
			fromInput := false
			for k := range sl {
				if k.kind == "call" && (strings.HasSuffix(k.name, ".Size") || k.name == "Size") {
					usesSize = true
				}
				if k.kind == "call" && (strings.HasSuffix(k.name, "GetPos") || strings.HasSuffix(k.name, "Seek")) {
					fromInput = true
				}
				if k.kind == "field" && strings.Contains(k.name, "countingReader") {
					fromInput = true
				}
			}
			switch {
			case usesSize:
				r.Bad("O-POS", key, c.Pos(call.Pos()), "the start position depends on Box.Size(), the re-calculated size: after a box whose written size differs from its read size (16-byte header on a small box) every later start position is off")
			case !fromInput:
				r.Undecided("O-POS", key, c.Pos(call.Pos()), "the start position depends neither on Size() nor on a recognised input position (GetPos, Seek, bytes counted): "+sliceNames(sl))
			default:
				r.OK("O-POS", key, c.Pos(call.Pos()), "the start position follows the input position")
			}
		}
	}
	return n
}

// ruleLazyReset (O-LAZYRESET): MdatBox.Size() prefers a non-zero lazyDataSize over the length of the data held. A
// function that appends real sample bytes (MdatBox.AddSampleData) and, through a callee, also advances lazyDataSize
// (AddSampleToTrack accounts samples whose bytes are written separately) stores lazyDataSize = 0 after that callee:
// otherwise the mdat announces only the lazily counted part and mixing the AddFullSample* entry points writes an
// mdat header that is too small.
func ruleLazyReset(c *Ctx, r *Report) int {
	incs := map[*ssa.Function]bool{}
	storesLazy := func(f *ssa.Function, add bool) []*ssa.Store {
		var out []*ssa.Store
		for _, b := range f.Blocks {
			for _, ins := range b.Instrs {
				st, ok := ins.(*ssa.Store)
				if !ok {
					continue
				}
				fa, ok := st.Addr.(*ssa.FieldAddr)
				if !ok || fieldNameOf(fa) != "lazyDataSize" || typeName(fa.X.Type()) != "MdatBox" {
					continue
				}
				_, isAdd := st.Val.(*ssa.BinOp)
				if isAdd == add {
					out = append(out, st)
				}
			}
		}
		return out
	}
	fns := libFuncs(c, func(f *ssa.Function) bool { return strings.HasPrefix(SSAFuncName(f), "mp4.") })
	for _, f := range fns {
		if len(storesLazy(f, true)) > 0 {
			incs[f] = true
		}
	}
	n := 0
	for _, f := range fns {
		adds := callsIn(f, "MdatBox.AddSampleData", false)
		if len(adds) == 0 || SSAFuncName(f) == "mp4.MdatBox.AddSampleData" {
			continue
		}
		var incCalls []ssa.CallInstruction
		for _, b := range f.Blocks {
			for _, ins := range b.Instrs {
				if ci, ok := ins.(ssa.CallInstruction); ok {
					if cal := ci.Common().StaticCallee(); cal != nil && incs[cal] {
						incCalls = append(incCalls, ci)
					}
				}
			}
		}
		n++
		key := SSAFuncName(f) + ":lazy-size-reset"
		if len(incCalls) == 0 && !incs[f] {
			r.OK("O-LAZYRESET", key, c.Pos(f.Pos()), "appends sample bytes and never advances lazyDataSize")
			continue
		}
		zeros := storesLazy(f, false)
		ok := len(incCalls) > 0
		for _, ic := range incCalls {
			found := false
			for _, z := range zeros {
				if cv, isC := z.Val.(*ssa.Const); isC && cv.Value != nil && cv.Value.ExactString() == "0" && insBefore(ic, z) {
					found = true
				}
			}
			if !found {
				ok = false
			}
		}
		if ok {
			r.OK("O-LAZYRESET", key, c.Pos(f.Pos()), "lazyDataSize is stored 0 after the callee that advances it")
		} else {
			r.Bad("O-LAZYRESET", key, c.Pos(f.Pos()), "appends real sample bytes and advances lazyDataSize (through a callee) without storing it 0 afterwards: Size() of the mdat then counts only the lazily accounted part")
		}
	}
	return n
}

// ruleDelimitersConsulted (O-DELIM): in File.AddChild every box that can begin a fragment (emsg, moof) consults the
// segment delimiters: startSegmentIfNeeded is called at least twice and each call is controlled by nothing but the
// type switch (a call made only while no segment exists would let a later emsg never open a new sidx/tfra-delimited
// segment).
func ruleDelimitersConsulted(c *Ctx, r *Report) {
	f := c.ssaFunc(r, "O-DELIM", "mp4", "File.AddChild")
	if f == nil {
		return
	}
	key := "mp4.File.AddChild:delimiters-consulted-unconditionally"
	calls := callsIn(f, "File.startSegmentIfNeeded", false)
	if len(calls) < 2 {
		r.Bad("O-DELIM", key, c.Pos(f.Pos()), fmt.Sprintf("startSegmentIfNeeded is called from %d places; the emsg and the moof arm must both consult the delimiters", len(calls)))
		return
	}
	for _, k := range calls {
		for _, cond := range controlConds(k.Block()) {
			v := cond
			if u, ok := v.(*ssa.UnOp); ok && u.Op == token.NOT {
				v = u.X
			}
			ex, ok := v.(*ssa.Extract)
			if ok {
				if _, isTA := ex.Tuple.(*ssa.TypeAssert); isTA {
					continue
				}
			}
			r.Bad("O-DELIM", key, c.Pos(k.Pos()), "a call of startSegmentIfNeeded is conditional on something other than the box type: boxes for which the condition fails never open a delimited segment")
			return
		}
	}
	r.OK("O-DELIM", key, c.Pos(calls[0].Pos()), fmt.Sprintf("%d arms consult the delimiters, each under the type switch only", len(calls)))
}

// hasRefs: the type holds references to shared storage (slice, map, pointer, chan, or a struct/array containing one).
func hasRefs(t types.Type, depth int) bool {
	if depth > 4 {
		return false
	}
	switch u := t.Underlying().(type) {
	case *types.Slice, *types.Map, *types.Pointer, *types.Chan:
		return true
	case *types.Struct:
		for i := 0; i < u.NumFields(); i++ {
			if hasRefs(u.Field(i).Type(), depth+1) {
				return true
			}
		}
	case *types.Array:
		return hasRefs(u.Elem(), depth+1)
	}
	return false
}

// ruleGlobalShared (R2-SHARE): storage owned by a package-level variable is not handed to objects: no library
// function outside init stores a slice, map or pointer loaded from a package-level variable (or a struct copied out
// of one that contains such references) into a field, an element, or a local that it returns. Two objects built
// that way share one backing array (a File template whose Children slice has capacity 8; a precomputed UUID slice
// given to every tfxd box) and a write through one of them is seen by all.
func ruleGlobalShared(c *Ctx, r *Report, scope func(*ssa.Function) bool, allowed map[string]string) int {
	n := 0
	for _, f := range libFuncs(c, scope) {
		if f.Name() == "init" || strings.HasPrefix(f.Name(), "init#") {
			continue
		}
		// values rooted at a load of a package-level variable with references
		fromGlobal := func(v ssa.Value) *ssa.Global {
			for i := 0; i < 6; i++ {
				switch x := v.(type) {
				case *ssa.UnOp:
					if x.Op != token.MUL {
						return nil
					}
					if g, ok := x.X.(*ssa.Global); ok {
						if hasRefs(x.Type(), 0) {
							return g
						}
						return nil
					}
					// a field of a global struct: load of FieldAddr(global)
					if fa, ok := x.X.(*ssa.FieldAddr); ok {
						if g, ok := fa.X.(*ssa.Global); ok && hasRefs(x.Type(), 0) {
							return g
						}
					}
					return nil
				case *ssa.Slice:
					v = x.X
				case *ssa.ChangeType:
					v = x.X
				default:
					return nil
				}
			}
			return nil
		}
		idx := 0
		for _, b := range f.Blocks {
			for _, ins := range b.Instrs {
				st, ok := ins.(*ssa.Store)
				if !ok {
					continue
				}
				g := fromGlobal(st.Val)
				if g == nil || g.Pkg == nil || !strings.Contains(g.Pkg.Pkg.Path(), "mp4ff") {
					continue
				}
				// error values and other interface-typed sentinels are compared, not written through
				if _, isIface := st.Val.Type().Underlying().(*types.Interface); isIface {
					continue
				}
				n++
				idx++
				key := fmt.Sprintf("%s:%s#%d", SSAFuncName(f), g.Name(), idx)
				if why, ok := allowed[SSAFuncName(f)+":"+g.Name()]; ok {
					r.OK("R2-SHARE", key, c.Pos(st.Pos()), "accepted: "+why)
					continue
				}
				r.Bad("R2-SHARE", key, c.Pos(st.Pos()), fmt.Sprintf("a reference into the storage of package-level variable %s is stored into an object: every object built here shares that storage, and a write through one is seen by all", g.Name()))
			}
		}
		// the address of a package-level variable (or of a field / element of one) handed out: returned, or stored into
		// a field or element
		addrOfGlobal := func(v ssa.Value) *ssa.Global {
			for i := 0; i < 4; i++ {
				switch x := v.(type) {
				case *ssa.Global:
					return x
				case *ssa.FieldAddr:
					v = x.X
				case *ssa.IndexAddr:
					v = x.X
				case *ssa.ChangeType:
					v = x.X
				default:
					return nil
				}
			}
			return nil
		}
		for _, b := range f.Blocks {
			for _, ins := range b.Instrs {
				var vals []ssa.Value
				switch x := ins.(type) {
				case *ssa.Return:
					vals = x.Results
				case *ssa.Store:
					switch x.Addr.(type) {
					case *ssa.FieldAddr, *ssa.IndexAddr:
						vals = []ssa.Value{x.Val}
					}
				}
				for _, v := range vals {
					if _, isPtr := v.Type().Underlying().(*types.Pointer); !isPtr {
						continue
					}
					g := addrOfGlobal(v)
					if g == nil || g.Pkg == nil || !strings.Contains(g.Pkg.Pkg.Path(), "mp4ff") {
						continue
					}
					n++
					idx++
					key := fmt.Sprintf("%s:&%s#%d", SSAFuncName(f), g.Name(), idx)
					if why, ok := allowed[SSAFuncName(f)+":"+g.Name()]; ok {
						r.OK("R2-SHARE", key, c.Pos(ins.Pos()), "accepted: "+why)
						continue
					}
					r.Bad("R2-SHARE", key, c.Pos(ins.Pos()), fmt.Sprintf("the address of package-level variable %s is handed out (returned or stored into an object): every caller gets the same object, and a write through one is seen by all", g.Name()))
				}
			}
		}
	}
	return n
}

// ruleReuseFieldStorage (O-REUSE): `x.f = append(x.f[:0], …)` overwrites in place whatever storage the field points
// at. For a field that a decoder may have set to a sub-slice of its input, or a constructor to shared storage, that
// is a write into memory the object does not own. In the library a field is re-filled from position 0 only when the
// same function made the storage; everything else allocates (append([]T(nil), …) / make+copy).
func ruleReuseFieldStorage(c *Ctx, r *Report, scope func(*ssa.Function) bool) int {
	n := 0
	for _, f := range libFuncs(c, scope) {
		idx := 0
		for _, b := range f.Blocks {
			for _, ins := range b.Instrs {
				call, ok := ins.(*ssa.Call)
				if !ok {
					continue
				}
				bi, ok := call.Call.Value.(*ssa.Builtin)
				if !ok || bi.Name() != "append" || len(call.Call.Args) != 2 {
					continue
				}
				sl, ok := call.Call.Args[0].(*ssa.Slice)
				if !ok || sl.High == nil {
					continue
				}
				if cs, ok := constSet(sl.High, 0); !ok || len(cs) != 1 || cs[0] != 0 {
					continue
				}
				n++
				idx++
				key := fmt.Sprintf("%s:append(x[:0], …)#%d", SSAFuncName(f), idx)
				// whose storage?
				ld, isLoad := sl.X.(*ssa.UnOp)
				if isLoad && ld.Op == token.MUL {
					if _, isField := ld.X.(*ssa.FieldAddr); isField {
						r.Bad("O-REUSE", key, c.Pos(call.Pos()), "re-fills a struct field from position 0 in place: the storage may be a sub-slice of decoder input or shared with other objects, and is overwritten")
						continue
					}
				}
				if _, isParam := sl.X.(*ssa.Parameter); isParam {
					r.Bad("O-REUSE", key, c.Pos(call.Pos()), "re-fills the caller's slice from position 0 in place")
					continue
				}
				r.OK("O-REUSE", key, c.Pos(call.Pos()), "re-fills a local buffer")
			}
		}
	}
	return n
}

// ruleDivBeforeMul (L-DIVMUL): an integer quotient that is then multiplied (`a * (b / c)`, or `t := b / c; … a * t`)
// has thrown away the remainder first: 90000-tick timescales divided by 1000 lose 0 but 44100 or 15360 lose a
// fraction that the multiplication magnifies. Accepted: the rounding idiom `(x / c) * c` (same constant) and
// quotients of two constants.
func ruleDivBeforeMul(c *Ctx, r *Report, scope func(*ssa.Function) bool) int {
	n := 0
	for _, f := range libFuncs(c, scope) {
		idx := 0
		for _, b := range f.Blocks {
			for _, ins := range b.Instrs {
				mul, ok := ins.(*ssa.BinOp)
				if !ok || mul.Op != token.MUL || !isIntType(mul.Type()) {
					continue
				}
				for i, o := range []ssa.Value{mul.X, mul.Y} {
					other := []ssa.Value{mul.Y, mul.X}[i]
					q := o
					for {
						if cv, ok := q.(*ssa.Convert); ok && isIntType(cv.X.Type()) {
							q = cv.X
							continue
						}
						if ct, ok := q.(*ssa.ChangeType); ok {
							q = ct.X
							continue
						}
						break
					}
					quo, ok := q.(*ssa.BinOp)
					if !ok || quo.Op != token.QUO || !isIntType(quo.Type()) {
						continue
					}
					_, cx := quo.X.(*ssa.Const)
					_, cy := quo.Y.(*ssa.Const)
					if cx && cy {
						continue
					}
					n++
					idx++
					key := fmt.Sprintf("%s:(a/b)*c#%d", SSAFuncName(f), idx)
					// rounding idiom: same constant, or the same value, as divisor and multiplier
					d1, ok1 := constSet(quo.Y, 0)
					d2, ok2 := constSet(other, 0)
					if ok1 && ok2 && len(d1) == 1 && len(d2) == 1 && d1[0] == d2[0] {
						r.OK("L-DIVMUL", key, c.Pos(mul.Pos()), "rounds down to a multiple of the same constant")
						continue
					}
					if sameValue(stripConv(quo.Y), stripConv(other)) || stripConv(quo.Y) == stripConv(other) {
						r.OK("L-DIVMUL", key, c.Pos(mul.Pos()), "rounds down to a multiple of the divisor")
						continue
					}
					r.Bad("L-DIVMUL", key, c.Pos(mul.Pos()), "an integer quotient is multiplied afterwards: the remainder is dropped before the multiplication magnifies the error (multiply first, then divide)")
				}
			}
		}
	}
	return n
}

// ruleDecoderNoSizeStore (O-POS, second clause): a box decoder (a function with a BoxHeader parameter) does not store
// a value computed from the re-calculated Size() of the box it is building: positions inside the input (the sidx
// anchor point, start positions of children) are computed from the header that was read. Size() may be consulted
// to compare it with the size read.
func ruleDecoderNoSizeStore(c *Ctx, r *Report) int {
	n := 0
	for _, f := range libFuncs(c, func(f *ssa.Function) bool { return strings.HasPrefix(SSAFuncName(f), "mp4.") }) {
		hasHdr := false
		for _, p := range f.Params {
			if typeName(p.Type()) == "BoxHeader" {
				hasHdr = true
			}
		}
		if !hasHdr {
			continue
		}
		for _, b := range f.Blocks {
			for _, ins := range b.Instrs {
				call, ok := ins.(*ssa.Call)
				if !ok {
					continue
				}
				name := ""
				if call.Call.IsInvoke() {
					name = call.Call.Method.Name()
				} else if cal := call.Call.StaticCallee(); cal != nil && cal.Signature.Recv() != nil {
					name = cal.Name()
				}
				if name != "Size" {
					continue
				}
				n++
				key := fmt.Sprintf("%s:Size()-in-decoder", SSAFuncName(f))
				// every use of the result (through arithmetic) ends in a comparison, never in a store
				bad := false
				seen := map[ssa.Value]bool{}
				var walk func(v ssa.Value, d int)
				walk = func(v ssa.Value, d int) {
					if d > 6 || seen[v] || v.Referrers() == nil {
						return
					}
					seen[v] = true
					for _, ref := range *v.Referrers() {
						switch x := ref.(type) {
						case *ssa.Store:
							if x.Val == v {
								if _, isField := x.Addr.(*ssa.FieldAddr); isField {
									bad = true
								}
							}
						case *ssa.BinOp:
							switch x.Op {
							case token.EQL, token.NEQ, token.LSS, token.LEQ, token.GTR, token.GEQ:
							default:
								walk(x, d+1)
							}
						case *ssa.Convert:
							walk(x, d+1)
						case *ssa.Phi:
							walk(x, d+1)
						}
					}
				}
				walk(call, 0)
				if bad {
					r.Bad("O-POS", key, c.Pos(call.Pos()), "a value computed from the re-calculated Size() of the box being decoded is stored in the box: a position in the input must come from the header that was read (the two differ for a 16-byte header on a small box)")
				} else {
					r.OK("O-POS", key, c.Pos(call.Pos()), "Size() is only compared, not stored")
				}
			}
		}
	}
	return n
}

// cycleAvoiding: the loop has a cycle through its header that passes none of the given blocks; returns a block on it.
func cycleAvoidingBlocks(l *loopInfo, avoid map[*ssa.BasicBlock]bool) *ssa.BasicBlock {
	if avoid[l.header] {
		return nil
	}
	seen := map[*ssa.BasicBlock]bool{}
	var stack []*ssa.BasicBlock
	for _, s := range l.header.Succs {
		if l.blocks[s] {
			stack = append(stack, s)
		}
	}
	for len(stack) > 0 {
		x := stack[len(stack)-1]
		stack = stack[:len(stack)-1]
		if seen[x] || avoid[x] || !l.blocks[x] {
			continue
		}
		seen[x] = true
		for _, s := range x.Succs {
			if s == l.header {
				return x
			}
			stack = append(stack, s)
		}
	}
	return nil
}

// ruleEveryCycleCalls (O-EVERY): in function fn every cycle of the loop around the calls of callee passes one of
// them: no iteration goes round the call.
func ruleEveryCycleCalls(c *Ctx, r *Report, pkg, fn, callee, what string) {
	f := c.ssaFunc(r, "O-EVERY", pkg, fn)
	if f == nil {
		return
	}
	key := fmt.Sprintf("%s.%s:every-iteration-calls-%s", pkg, fn, callee)
	calls := callsIn(f, callee, false)
	if len(calls) == 0 {
		r.Undecided("O-EVERY", key, c.Pos(f.Pos()), "no call of "+callee+" found")
		return
	}
	avoid := map[*ssa.BasicBlock]bool{}
	for _, k := range calls {
		avoid[k.Block()] = true
	}
	var outer *loopInfo
	for _, l := range naturalLoops(f) {
		if l.blocks[calls[0].Block()] && (outer == nil || len(l.blocks) > len(outer.blocks)) {
			outer = l
		}
	}
	if outer == nil {
		r.Undecided("O-EVERY", key, c.Pos(f.Pos()), "the calls are not inside a loop")
		return
	}
	if via := cycleAvoidingBlocks(outer, avoid); via != nil {
		r.Bad("O-EVERY", key, c.Pos(firstPos(via)), "an iteration of the loop can go round every call of "+callee+": "+what)
	} else {
		r.OK("O-EVERY", key, c.Pos(calls[0].Pos()), fmt.Sprintf("every cycle of the loop passes one of the %d calls", len(calls)))
	}
}

// ruleCursorSkip (L-CURSORSKIP): in the loops of package mp4 that walk a sample with a byte cursor advanced by
// SubSamplePattern.BytesOfClearData, an iteration leaves the cursor where it was only under a test of the clear-byte
// count itself. A `continue` taken for another reason (nothing to encrypt in this entry) skips the clear bytes of
// the entry and every later range is applied too early.
func ruleCursorSkip(c *Ctx, r *Report) int {
	n := 0
	dependsOnClear := func(v ssa.Value) bool {
		return sliceHas(backSlice(c, v, 0), "field", "SubSamplePattern.BytesOfClearData")
	}
	for _, f := range libFuncs(c, func(f *ssa.Function) bool { return strings.HasPrefix(SSAFuncName(f), "mp4.") }) {
		for _, l := range naturalLoops(f) {
			for _, ins := range l.header.Instrs {
				phi, ok := ins.(*ssa.Phi)
				if !ok {
					break
				}
				if !isIntType(phi.Type()) {
					continue
				}
				// expand the in-loop edges through inner phis
				type leaf struct {
					v    ssa.Value
					from *ssa.BasicBlock
				}
				var leaves []leaf
				seen := map[ssa.Value]bool{}
				var expand func(v ssa.Value, from *ssa.BasicBlock, d int)
				expand = func(v ssa.Value, from *ssa.BasicBlock, d int) {
					if ip, ok := v.(*ssa.Phi); ok && ip != phi && d < 5 && l.blocks[ip.Block()] && !seen[ip] {
						seen[ip] = true
						for i, e := range ip.Edges {
							expand(e, ip.Block().Preds[i], d+1)
						}
						return
					}
					leaves = append(leaves, leaf{v, from})
				}
				for i, e := range phi.Edges {
					if l.blocks[l.header.Preds[i]] {
						expand(e, l.header.Preds[i], 0)
					}
				}
				advancesByClear := false
				for _, lf := range leaves {
					if bo, ok := lf.v.(*ssa.BinOp); ok && bo.Op == token.ADD && (dependsOnClear(bo.Y) || dependsOnClear(bo.X)) {
						advancesByClear = true
					}
				}
				if !advancesByClear {
					continue
				}
				n++
				key := fmt.Sprintf("%s:cursor %s", SSAFuncName(f), phi.Comment)
				bad := ""
				for _, lf := range leaves {
					if lf.v != ssa.Value(phi) {
						continue
					}
					// the cursor is unchanged on this edge: the edge must be taken under a test of the clear count
					ok := false
					conds := controlCondsDeep(lf.from)
					if len(lf.from.Instrs) > 0 {
						if ifi, isIf := lf.from.Instrs[len(lf.from.Instrs)-1].(*ssa.If); isIf {
							conds = append(conds, ifi.Cond)
						}
					}
					for _, cond := range conds {
						if dependsOnClear(cond) {
							ok = true
						}
					}
					if !ok {
						bad = fmt.Sprintf("an iteration leaves the byte cursor unchanged on a path (through block %d) that is not decided by the clear-byte count: the clear bytes of that entry are not skipped", lf.from.Index)
					}
				}
				if bad != "" {
					r.Bad("L-CURSORSKIP", key, c.Pos(phi.Pos()), bad)
				} else {
					r.OK("L-CURSORSKIP", key, c.Pos(phi.Pos()), "the cursor stays where it is only when the entry has no clear bytes")
				}
			}
		}
	}
	return n
}

// ruleCountingReader (DEP): the byte counter DecodeFile uses for start positions advances by what the wrapped
// reader reports as read, not by the size of the buffer offered.
func ruleCountingReader(c *Ctx, r *Report) {
	f := c.ssaFunc(r, "DEP", "mp4", "countingReader.Read")
	if f == nil {
		return
	}
	key := "mp4.countingReader.Read:count-is-bytes-read"
	n := 0
	for _, b := range f.Blocks {
		for _, ins := range b.Instrs {
			st, ok := ins.(*ssa.Store)
			if !ok {
				continue
			}
			if _, isField := st.Addr.(*ssa.FieldAddr); !isField || !isIntType(st.Val.Type()) {
				continue
			}
			n++
			bo, ok := st.Val.(*ssa.BinOp)
			good := false
			if ok && bo.Op == token.ADD {
				for _, o := range []ssa.Value{bo.X, bo.Y} {
					v := o
					for {
						if cv, isCv := v.(*ssa.Convert); isCv {
							v = cv.X
							continue
						}
						break
					}
					if ex, isEx := v.(*ssa.Extract); isEx && ex.Index == 0 {
						if call, isCall := ex.Tuple.(*ssa.Call); isCall && call.Call.IsInvoke() && call.Call.Method.Name() == "Read" {
							good = true
						}
					}
				}
			}
			if !good {
				r.Bad("DEP", key, c.Pos(st.Pos()), "the counter is not advanced by the number of bytes the wrapped Read returned: with short reads the recorded start positions run ahead of the input")
				return
			}
		}
	}
	if n == 0 {
		r.Undecided("DEP", key, c.Pos(f.Pos()), "no counter update found")
		return
	}
	r.OK("DEP", key, c.Pos(f.Pos()), "the counter advances by the number of bytes the wrapped reader returned")
}

// ruleSignedMod (L-SIGNEDMOD): Go's % keeps the sign of the dividend. Where a signed value that includes a signed
// Exp-Golomb delta read from the stream is reduced modulo a constant M (the H.264/H.265 scaling-list recurrence
// nextScale = (lastScale + delta_scale + 256) % 256), the dividend carries a constant term of at least M, so that
// the result is in 0..M-1 for every delta the syntax allows (delta >= -M/2).
func ruleSignedMod(c *Ctx, r *Report, scope func(*ssa.Function) bool) int {
	n := 0
	id := func(v ssa.Value) ssa.Value { return v }
	for _, f := range libFuncs(c, scope) {
		idx := 0
		for _, b := range f.Blocks {
			for _, ins := range b.Instrs {
				bo, ok := ins.(*ssa.BinOp)
				if !ok || bo.Op != token.REM {
					continue
				}
				bt, ok := bo.Type().Underlying().(*types.Basic)
				if !ok || bt.Info()&types.IsUnsigned != 0 || bt.Info()&types.IsInteger == 0 {
					continue
				}
				ms, ok := constSet(bo.Y, 0)
				if !ok || len(ms) != 1 || ms[0] <= 1 {
					continue
				}
				if !sliceHas(backSlice(c, bo.X, 0), "call", "ReadSignedGolomb") {
					continue
				}
				n++
				idx++
				key := fmt.Sprintf("%s:signed %% %d#%d", SSAFuncName(f), ms[0], idx)
				lf := linOf(bo.X, id, 0)
				if lf.k >= ms[0] {
					r.OK("L-SIGNEDMOD", key, c.Pos(bo.Pos()), fmt.Sprintf("the dividend carries the bias +%d", lf.k))
				} else {
					r.Bad("L-SIGNEDMOD", key, c.Pos(bo.Pos()), fmt.Sprintf("a signed value that includes a signed Exp-Golomb delta is reduced modulo %d without a bias of at least %d: a negative sum gives a negative result", ms[0], ms[0]))
				}
			}
		}
	}
	return n
}

// ruleAddChildAppends (T-ADDCHILD): every AddChild method of a type with a Children field stores to Children on every
// path that returns: a child handed to AddChild and only remembered in a typed field (or dropped by an early return)
// is not written by Encode, which walks Children.
func ruleAddChildAppends(c *Ctx, r *Report) int {
	n := 0
	for _, f := range libFuncs(c, func(f *ssa.Function) bool { return strings.HasPrefix(SSAFuncName(f), "mp4.") }) {
		if f.Name() != "AddChild" || f.Signature.Recv() == nil || len(f.Params) == 0 || len(f.Blocks) == 0 {
			continue
		}
		if fieldIndexByName(f.Signature.Recv().Type(), "Children") < 0 {
			continue
		}
		n++
		key := SSAFuncName(f) + ":children-on-every-path"
		stores := map[*ssa.BasicBlock]bool{}
		for _, b := range f.Blocks {
			for _, ins := range b.Instrs {
				if st, ok := ins.(*ssa.Store); ok {
					if fa, ok := st.Addr.(*ssa.FieldAddr); ok && fieldNameOf(fa) == "Children" {
						stores[b] = true
					}
				}
				// a helper on the same receiver that stores Children (e.g. an embedded container's AddChild)
				if call, ok := ins.(*ssa.Call); ok {
					if cal := call.Call.StaticCallee(); cal != nil && cal != f && cal.Name() == "AddChild" {
						stores[b] = true
					}
				}
			}
		}
		seen := map[*ssa.BasicBlock]bool{}
		stack := []*ssa.BasicBlock{f.Blocks[0]}
		var escape *ssa.BasicBlock
		for len(stack) > 0 && escape == nil {
			x := stack[len(stack)-1]
			stack = stack[:len(stack)-1]
			if seen[x] || stores[x] {
				continue
			}
			seen[x] = true
			if len(x.Instrs) > 0 {
				if _, isRet := x.Instrs[len(x.Instrs)-1].(*ssa.Return); isRet {
					escape = x
				}
			}
			stack = append(stack, x.Succs...)
		}
		if escape != nil {
			r.Bad("T-ADDCHILD", key, c.Pos(firstPos(escape)), "AddChild can return without having stored the child list: the box is accepted but Encode, which walks Children, never writes it")
		} else {
			r.OK("T-ADDCHILD", key, c.Pos(f.Pos()), "every path to a return stores Children")
		}
	}
	return n
}

func fieldIndexByName(t types.Type, name string) int {
	if p, ok := t.Underlying().(*types.Pointer); ok {
		t = p.Elem()
	}
	st, ok := t.Underlying().(*types.Struct)
	if !ok {
		return -1
	}
	for i := 0; i < st.NumFields(); i++ {
		if st.Field(i).Name() == name {
			return i
		}
	}
	return -1
}

// receiverWrites: the method stores through its pointer receiver.
func receiverWrites(f *ssa.Function) bool {
	if f == nil || len(f.Params) == 0 || f.Signature.Recv() == nil {
		return false
	}
	if _, ok := f.Signature.Recv().Type().Underlying().(*types.Pointer); !ok {
		return false
	}
	recv := f.Params[0]
	for _, b := range f.Blocks {
		for _, ins := range b.Instrs {
			if st, ok := ins.(*ssa.Store); ok {
				if fa, ok := st.Addr.(*ssa.FieldAddr); ok && fa.X == ssa.Value(recv) {
					return true
				}
			}
		}
	}
	return false
}

// ruleCopyMutated (L-COPYMUT): a struct value copied out of a field or element into a local (`rec := box.Rec`) on which
// a pointer-receiver method that stores through its receiver is then called, and which is not looked at afterwards
// (not read, stored back, passed on or returned): the update lands in the copy and is lost.
func ruleCopyMutated(c *Ctx, r *Report, scope func(*ssa.Function) bool) int {
	n := 0
	for _, f := range libFuncs(c, scope) {
		idx := 0
		for _, b := range f.Blocks {
			for _, ins := range b.Instrs {
				al, ok := ins.(*ssa.Alloc)
				if !ok {
					continue
				}
				if _, isStruct := al.Type().Underlying().(*types.Pointer).Elem().Underlying().(*types.Struct); !isStruct {
					continue
				}
				// initialised by copying existing storage
				var init *ssa.Store
				for _, ref := range *al.Referrers() {
					if st, ok := ref.(*ssa.Store); ok && st.Addr == ssa.Value(al) {
						if ld, ok := st.Val.(*ssa.UnOp); ok && ld.Op == token.MUL {
							switch ld.X.(type) {
							case *ssa.FieldAddr, *ssa.IndexAddr:
								init = st
							}
						}
					}
				}
				if init == nil {
					continue
				}
				for _, ref := range *al.Referrers() {
					call, ok := ref.(*ssa.Call)
					if !ok || len(call.Call.Args) == 0 || call.Call.Args[0] != ssa.Value(al) {
						continue
					}
					cal := call.Call.StaticCallee()
					if !receiverWrites(cal) {
						continue
					}
					n++
					idx++
					key := fmt.Sprintf("%s:%s.%s on a copy#%d", SSAFuncName(f), al.Comment, cal.Name(), idx)
					usedAfter := false
					for _, r2 := range *al.Referrers() {
						i2, ok := r2.(ssa.Instruction)
						if !ok || i2 == ssa.Instruction(call) || i2 == ssa.Instruction(init) {
							continue
						}
						if _, isDbg := i2.(*ssa.DebugRef); isDbg {
							continue
						}
						if insBefore(call, i2) || (!insBefore(i2, call) && i2.Block() != call.Block()) {
							usedAfter = true
						}
					}
					if usedAfter {
						r.OK("L-COPYMUT", key, c.Pos(call.Pos()), "the modified copy is used afterwards")
					} else {
						r.Bad("L-COPYMUT", key, c.Pos(call.Pos()), fmt.Sprintf("%s is a copy of a field or element; %s changes the copy through its pointer receiver and the copy is never looked at again: the update is lost", al.Comment, cal.Name()))
					}
				}
			}
		}
	}
	return n
}

// ruleStructOverwrite (L-DEADFIELD): a field of a local struct variable is assigned and, on a path with no read of
// the variable in between, the whole variable is then overwritten (x.f = v; …; x = T{…}): what was computed into the
// field is thrown away.
func ruleStructOverwrite(c *Ctx, r *Report, scope func(*ssa.Function) bool) int {
	n := 0
	for _, f := range libFuncs(c, scope) {
		reach := blockReach(f)
		idx := 0
		for _, b := range f.Blocks {
			for _, ins := range b.Instrs {
				al, ok := ins.(*ssa.Alloc)
				if !ok {
					continue
				}
				if _, isStruct := al.Type().Underlying().(*types.Pointer).Elem().Underlying().(*types.Struct); !isStruct {
					continue
				}
				var fieldStores, wholeStores []*ssa.Store
				reads := map[*ssa.BasicBlock][]ssa.Instruction{}
				for _, ref := range *al.Referrers() {
					switch x := ref.(type) {
					case *ssa.Store:
						if x.Addr == ssa.Value(al) {
							wholeStores = append(wholeStores, x)
						}
					case *ssa.FieldAddr:
						for _, r2 := range *x.Referrers() {
							switch y := r2.(type) {
							case *ssa.Store:
								if y.Addr == ssa.Value(x) {
									fieldStores = append(fieldStores, y)
								} else {
									reads[y.Block()] = append(reads[y.Block()], y)
								}
							case *ssa.DebugRef:
							default:
								if i3, ok := r2.(ssa.Instruction); ok {
									reads[i3.Block()] = append(reads[i3.Block()], i3)
								}
							}
						}
					case *ssa.DebugRef:
					default:
						if i3, ok := ref.(ssa.Instruction); ok {
							reads[i3.Block()] = append(reads[i3.Block()], i3)
						}
					}
				}
				if len(fieldStores) == 0 || len(wholeStores) == 0 {
					continue
				}
				for _, ws := range wholeStores {
					// the zero-value / initial store at declaration comes first and overwrites nothing
					for _, fs := range fieldStores {
						if !(insBefore(fs, ws) || (fs.Block() != ws.Block() && reach[fs.Block()][ws.Block()])) {
							continue
						}
						n++
						idx++
						key := fmt.Sprintf("%s:%s overwritten after field store#%d", SSAFuncName(f), al.Comment, idx)
						// a read between the two on the way (block granularity; same-block order respected)
						readBetween := false
						for rb, list := range reads {
							for _, ri := range list {
								switch {
								case rb == fs.Block() && rb == ws.Block():
									if insBefore(fs, ri) && insBefore(ri, ws) {
										readBetween = true
									}
								case rb == fs.Block():
									if insBefore(fs, ri) {
										readBetween = true
									}
								case rb == ws.Block():
									if insBefore(ri, ws) {
										readBetween = true
									}
								default:
									if reach[fs.Block()][rb] && reach[rb][ws.Block()] {
										readBetween = true
									}
								}
							}
						}
						if readBetween {
							r.OK("L-DEADFIELD", key, c.Pos(ws.Pos()), "the variable is read between the field assignment and the overwrite")
						} else {
							r.Bad("L-DEADFIELD", key, c.Pos(ws.Pos()), fmt.Sprintf("a field of %s is assigned at %s and the whole variable is overwritten here with no read in between: the assigned value is thrown away", al.Comment, c.Pos(fs.Pos())))
						}
					}
				}
			}
		}
	}
	return n
}

// ruleDescriptorSizeBytes (DEP): the number of bytes writeDescriptorSize writes for a descriptor's size field is
// decided by the sizeFieldSizeMinus1 it is given, which is what every SizeSize() counts: no loop or branch in it that
// decides how many bytes are written depends on the size value itself.
func ruleDescriptorSizeBytes(c *Ctx, r *Report) {
	f := c.ssaFunc(r, "DEP", "mp4", "writeDescriptorSize")
	if f == nil {
		return
	}
	key := "mp4.writeDescriptorSize:size-bytes-from-sizeFieldSizeMinus1"
	var sizePar *ssa.Parameter
	for _, p := range f.Params {
		if p.Name() == "size" {
			sizePar = p
		}
	}
	if sizePar == nil {
		r.Undecided("DEP", key, c.Pos(f.Pos()), "no parameter named size")
		return
	}
	// loops: the exit tests must not depend on size
	n := 0
	for _, l := range naturalLoops(f) {
		for b := range l.blocks {
			if len(b.Instrs) == 0 {
				continue
			}
			ifi, ok := b.Instrs[len(b.Instrs)-1].(*ssa.If)
			if !ok {
				continue
			}
			exits := !l.blocks[b.Succs[0]] || !l.blocks[b.Succs[1]]
			if !exits {
				continue
			}
			n++
			for k := range backSlice(c, ifi.Cond, 0) {
				if k.kind == "param" && k.name == "size" {
					r.Bad("DEP", key, c.Pos(ifi.Pos()), "a loop in writeDescriptorSize runs as long as a condition on the size value holds: the number of size bytes written no longer equals sizeFieldSizeMinus1+1, which SizeSize() counts")
					return
				}
			}
		}
	}
	if n == 0 {
		r.Undecided("DEP", key, c.Pos(f.Pos()), "no loop found")
		return
	}
	r.OK("DEP", key, c.Pos(f.Pos()), fmt.Sprintf("%d loop exit tests, none depends on the size value", n))
}

// ruleASCRejections (W-REJ): DecodeAudioSpecificConfig rejects a configuration only because of a reader error, the
// object type, or a frequency lookup — the things AudioSpecificConfig.Encode validates or cannot produce. Every other
// field Encode writes unconditionally (channel configuration 0..15) is accepted, so that what Encode writes decodes.
func ruleASCRejections(c *Ctx, r *Report) {
	f := c.ssaFunc(r, "W-REJ", "aac", "DecodeAudioSpecificConfig")
	if f == nil {
		return
	}
	key := "aac.DecodeAudioSpecificConfig:rejections"
	n := 0
	for _, b := range f.Blocks {
		if len(b.Instrs) == 0 {
			continue
		}
		ifi, ok := b.Instrs[len(b.Instrs)-1].(*ssa.If)
		if !ok {
			continue
		}
		if blockRejects(b.Succs[0]) == blockRejects(b.Succs[1]) {
			continue
		}
		n++
		if isErrorTest(ifi.Cond) {
			continue
		}
		okDep := false
		sl := backSlice(c, ifi.Cond, 1)
		if sliceHas(sl, "call", "getFrequency") || sliceHas(sl, "call", "AccError") {
			okDep = true
		}
		// the object type: a 5-bit read
		var walk func(v ssa.Value, d int)
		seen := map[ssa.Value]bool{}
		walk = func(v ssa.Value, d int) {
			if d > 6 || seen[v] {
				return
			}
			seen[v] = true
			switch x := v.(type) {
			case *ssa.Call:
				if cal := x.Call.StaticCallee(); cal != nil && cal.Name() == "Read" && len(x.Call.Args) == 2 {
					if cs, ok := constSet(x.Call.Args[1], 0); ok && len(cs) == 1 && cs[0] == 5 {
						okDep = true
					}
				}
			case *ssa.BinOp:
				walk(x.X, d+1)
				walk(x.Y, d+1)
			case *ssa.Convert:
				walk(x.X, d+1)
			case *ssa.Phi:
				for _, e := range x.Edges {
					walk(e, d+1)
				}
			case *ssa.UnOp:
				walk(x.X, d+1)
			case *ssa.Extract:
				walk(x.Tuple, d+1)
			}
		}
		walk(ifi.Cond, 0)
		if !okDep {
			r.Bad("W-REJ", key, c.Pos(ifi.Pos()), "the decoder rejects on a value that is neither a reader error, the object type nor a frequency lookup: AudioSpecificConfig.Encode writes that field unconditionally, so some of its output cannot be decoded")
			return
		}
	}
	if n == 0 {
		r.Undecided("W-REJ", key, c.Pos(f.Pos()), "no rejecting branch found")
		return
	}
	r.OK("W-REJ", key, c.Pos(f.Pos()), fmt.Sprintf("%d rejecting branches: reader errors, object type and frequency lookups only", n))
}

// ruleEveryCycleAppends (O-EVERY): in function fn every cycle of the loop around the appends to field typeField passes
// one of them (one entry per iteration: no `continue` goes round the append).
func ruleEveryCycleAppends(c *Ctx, r *Report, pkg, fn, typeField, what string) {
	f := c.ssaFunc(r, "O-EVERY", pkg, fn)
	if f == nil {
		return
	}
	key := fmt.Sprintf("%s.%s:every-iteration-appends-%s", pkg, fn, typeField)
	avoid := map[*ssa.BasicBlock]bool{}
	var first *ssa.Store
	for _, st := range storesTo(f, typeField) {
		if call, ok := st.Val.(*ssa.Call); ok {
			if bi, ok := call.Call.Value.(*ssa.Builtin); ok && bi.Name() == "append" {
				avoid[st.Block()] = true
				if first == nil {
					first = st
				}
			}
		}
	}
	if first == nil {
		r.Undecided("O-EVERY", key, c.Pos(f.Pos()), "no append to "+typeField+" found")
		return
	}
	var outer *loopInfo
	for _, l := range naturalLoops(f) {
		if l.blocks[first.Block()] && (outer == nil || len(l.blocks) > len(outer.blocks)) {
			outer = l
		}
	}
	if outer == nil {
		r.Undecided("O-EVERY", key, c.Pos(f.Pos()), "the append is not inside a loop")
		return
	}
	if via := cycleAvoidingBlocks(outer, avoid); via != nil {
		r.Bad("O-EVERY", key, c.Pos(firstPos(via)), "an iteration of the loop can go round the append to "+typeField+": "+what)
	} else {
		r.OK("O-EVERY", key, c.Pos(first.Pos()), "every cycle of the loop appends one entry")
	}
}

package chk

import (
	"go/types"
	"sort"
	"strings"

	"golang.org/x/tools/go/ssa"
)

// entriesC04: the functions through which untrusted container bytes enter the library, and the
// observers / encoders that may be applied to what was decoded.
func entriesC04(c *Ctx) []*ssa.Function {
	prog := c.SSA()
	var out []*ssa.Function
	add := func(fn *types.Func) {
		if fn == nil {
			return
		}
		if sf := prog.FuncValue(fn); sf != nil {
			out = append(out, sf)
		}
	}
	for _, n := range []string{"DecodeFile", "DecodeFileSR", "DecodeBox", "DecodeBoxSR", "DecodeBoxLazyMdat", "DecodeHeader", "DecodeHeaderSR", "DecodeContainerChildren", "DecodeContainerChildrenSR"} {
		add(c.LookupFunc("mp4", n))
	}
	p := c.Pkg("mp4")
	for _, reg := range []string{"decoders", "decodersSR"} {
		if cl := mapLiteralOf(p, reg); cl != nil {
			if es, err := registryEntries(p, cl); err == nil {
				for _, e := range es {
					add(e.fn)
				}
			}
		}
	}
	// every Box implementation's observers / encoders, and the composites
	boxT, _ := p.Types.Scope().Lookup("Box").(*types.TypeName)
	if boxT != nil {
		iface := boxT.Type().Underlying().(*types.Interface)
		for _, name := range p.Types.Scope().Names() {
			tn, ok := p.Types.Scope().Lookup(name).(*types.TypeName)
			if !ok {
				continue
			}
			pt := types.NewPointer(tn.Type())
			isBox := types.Implements(pt, iface)
			comp := name == "File" || name == "InitSegment" || name == "MediaSegment" || name == "Fragment"
			if !isBox && !comp {
				continue
			}
			for _, m := range []string{"Info", "Encode", "EncodeSW", "Size", "Type"} {
				obj, _, _ := types.LookupFieldOrMethod(pt, true, p.Types, m)
				if fn, ok := obj.(*types.Func); ok {
					add(fn)
				}
			}
		}
	}
	return dedupFuncs(out)
}

// entriesC16: exported codec helpers that take raw bytes / readers, and the observers of SEI messages.
func entriesC16(c *Ctx) []*ssa.Function {
	prog := c.SSA()
	var out []*ssa.Function
	for _, pk := range []string{"avc", "hevc", "sei", "aac", "av1"} {
		p := c.Pkg(pk)
		if p == nil {
			continue
		}
		for fn, decl := range c.decls {
			if c.declPkg[fn] != p || !fn.Exported() || decl.Body == nil {
				continue
			}
			sig := fn.Type().(*types.Signature)
			takes := false
			for i := 0; i < sig.Params().Len(); i++ {
				ts := sig.Params().At(i).Type().String()
				if ts == "[]byte" || ts == "io.Reader" || ts == "io.ReadSeeker" || strings.HasSuffix(ts, "bits.EBSPReader") || strings.HasSuffix(ts, "bits.Reader") || strings.HasSuffix(ts, "sei.SEIData") {
					takes = true
				}
			}
			if sig.Recv() != nil {
				switch fn.Name() {
				case "String", "Payload", "Size", "Type":
					takes = true
				}
			}
			if takes {
				if sf := prog.FuncValue(fn); sf != nil {
					out = append(out, sf)
				}
			}
		}
	}
	return dedupFuncs(out)
}

func dedupFuncs(fs []*ssa.Function) []*ssa.Function {
	seen := map[*ssa.Function]bool{}
	var out []*ssa.Function
	for _, f := range fs {
		if f != nil && !seen[f] {
			seen[f] = true
			out = append(out, f)
		}
	}
	sort.Slice(out, func(i, j int) bool { return out[i].String() < out[j].String() })
	return out
}

// scopeFrom: repository functions reachable from the entries over the VTA call graph.
func scopeFrom(c *Ctx, entries []*ssa.Function) (map[*ssa.Function]bool, map[*ssa.Function]*ssa.Function) {
	pred, _ := reachable(c.CallGraph(), entries)
	scope := map[*ssa.Function]bool{}
	for f := range pred {
		if inRepo(f) {
			scope[f] = true
		}
	}
	return scope, pred
}

// ruleR1 — no explicit panic / os.Exit / log.Fatal is reachable from the entry set.
func ruleR1(c *Ctx, r *Report, entries []*ssa.Function, rule string) {
	scope, pred := scopeFrom(c, entries)
	var fns []*ssa.Function
	for f := range scope {
		fns = append(fns, f)
	}
	sort.Slice(fns, func(i, j int) bool { return fns[i].String() < fns[j].String() })
	r.Extra[rule+"_entries"] = len(entries)
	r.Extra[rule+"_reachable_repo_functions"] = len(fns)
	sites := explicitPanicSites(fns)
	idx := map[string]int{}
	for _, s := range sites {
		name := SSAFuncName(s.fn)
		k := name + ":" + s.kind
		idx[k]++
		if idx[k] > 1 {
			k += "#" + string(rune('0'+idx[k]))
		}
		r.Bad(rule, k, c.Pos(s.pos), "explicit "+s.kind+" reachable from untrusted-input entry points via "+chainTo(pred, s.fn))
	}
	// unreachable explicit panics are listed as discharged instances
	all := explicitPanicSites(c.RepoFuncs(IsLib))
	idx = map[string]int{}
	for _, s := range all {
		if scope[s.fn] {
			continue
		}
		name := SSAFuncName(s.fn)
		k := name + ":" + s.kind
		idx[k]++
		if idx[k] > 1 {
			k += "#" + string(rune('0'+idx[k]))
		}
		r.OK(rule, k, c.Pos(s.pos), "explicit "+s.kind+" exists but is not reachable from the entry set")
	}
}
